; pipes: chains, unit last stage (frt.PipeUnit), stages with supplied (effectful) arguments: the piped
; value is evaluated first, then the stage's arguments, then the call; local closures as stages
(prog (
  (fun say ((tag string) (v int)) int (block ((do (ext frt.Println ((var tag))))) (var v)))
  (fun add ((a int) (b int)) int (block () (bin + (var a) (var b))))
  (fun show ((n int)) unit (block () (ext frt.Printf1 ((str "%d\n") (var n)))))
  (fun show2 ((label string) (n int)) unit (block ((do (ext frt.Println ((var label))))) (ext frt.Printf1 ((str "%d\n") (var n)))))
 )
 (block (
  (do (pipe (int 3) (var show)))
  (do (pipe (pipe (int 3) (call add 2 ((int 4)))) (var show)))
  (do (pipe (pipe (call say 2 ((str "lhs") (int 1))) (call add 2 ((call say 2 ((str "stage-arg") (int 10)))))) (call show2 2 ((str "result")))))
  (let inc (lam ((x int)) (block () (bin + (var x) (int 1)))))
  (do (pipe (pipe (pipe (int 1) (var inc)) (var inc)) (ext frt.Printf1 ((str "%d\n")))))
  (do (pipe (pipe (pipe (slice int ((int 5) (int 6) (int 7) (int 8))) (ext slice.Filter ((lam ((e int)) (block () (bin > (var e) (int 5))))))) (ext slice.Map ((call add 2 ((int 100)))))) (ext frt.Printf1 ((str "%v\n")))))
  (do (pipe (pipe (pipe (slice int ((int 1) (int 2) (int 3))) (ext slice.Map ((lam ((n int)) (block () (ext frt.Sprintf1 ((str "This is %d") (var n)))))))) (ext strings.Concat ((str ", ")))) (ext frt.Println ())))
  (let total (pipe (slice int ((int 1) (int 2) (int 3))) (ext slice.Fold ((var add) (int 0)))))
  (do (pipe (var total) (var show)))
  )
  (pipe (slice int ((int 2) (int 1))) (ext slice.Iter ((var show))))
 )
)
