; = and <> on records and tuples that hold a union whose case carries a slice (both sides the same
; case): structural comparison, never a panic
(prog (
  (union Shape ((Dot none) (Poly (slice int)) (Box int)))
  (record Item ((ident int) (shape (union Shape))))
 )
 (block (
   (let p (record Item ((ident (int 1)) (shape (ctor Poly (slice int ((int 1) (int 2))))))))
   (let q (record Item ((ident (int 1)) (shape (ctor Poly (slice int ((int 1) (int 2))))))))
   (let r (record Item ((ident (int 1)) (shape (ctor Poly (slice int ((int 1) (int 3))))))))
   (let s (record Item ((ident (int 1)) (shape (ctor Dot)))))
   (do (ext frt.Printf1 ((str "%v\n") (eq (var p) (var q)))))
   (do (ext frt.Printf1 ((str "%v\n") (eq (var p) (var r)))))
   (do (ext frt.Printf1 ((str "%v\n") (neq (var p) (var s)))))
   (let t1 (tuple (int 4) (ctor Poly (slice int ((int 9))))))
   (let t2 (tuple (int 4) (ctor Poly (slice int ((int 9))))))
   (do (ext frt.Printf1 ((str "%v\n") (eq (var t1) (var t2)))))
   (do (ext frt.Printf1 ((str "%v\n") (eq (ctor Box (int 2)) (ctor Box (int 2))))))
  ) (unit)))
