; record literals written in another field order than the declaration: the initialisers run in the
; order WRITTEN (left to right), whatever the declared order; the value does not depend on the order
(prog (
  (record Ord ((id int) (item string) (qty int)))
  (fun noisy ((tag string) (v int)) int (block ((do (ext frt.Println ((var tag))))) (var v)))
  (fun show ((o (rec Ord))) unit (block ((do (ext frt.Printf1 ((str "%d\n") (field (var o) id)))) (do (ext frt.Println ((field (var o) item))))) (ext frt.Printf1 ((str "%d\n") (field (var o) qty)))))
 )
 (block (
   (let a (record Ord ((qty (call noisy 2 ((str "qty first") (int 3)))) (item (str "pen")) (id (call noisy 2 ((str "id second") (int 7)))))))
   (do (call show 1 ((var a))))
   (let b (record Ord ((item (str "ink")) (id (call noisy 2 ((str "id") (int 1)))) (qty (call noisy 2 ((str "qty") (int 2)))))))
   (do (call show 1 ((var b))))
   (let c (record Ord ((id (call noisy 2 ((str "declared order id") (int 5)))) (item (str "cap")) (qty (call noisy 2 ((str "declared order qty") (int 6)))))))
   (do (call show 1 ((var c))))
  ) (unit)))
