; string match: literal arms then a variable arm or a default arm; only the taken arm runs
(prog (
  (fun says ((tag string) (v string)) string (block ((do (ext frt.Println ((var tag))))) (var v)))
  (fun kind ((s string)) int (block ()
    (matchs (var s) (("" (block () (int 0))) ("a" (block () (int 1))) ("two words" (block () (int 2))) ("q\"uote" (block () (int 3))))
      (bind other (block () (bin + (int 100) (ext strings.Length ((var other)))))))))
  (fun yes ((s string)) bool (block ()
    (matchs (var s) (("yes" (block () (bool true))) ("y" (block () (bool true)))) (default (block () (bool false))))))
 )
 (block (
  (do (ext frt.Printf1 ((str "%v\n") (ext slice.Map ((var kind) (slice string ((str "") (str "a") (str "two words") (str "q\"uote") (str "abc") (str "A"))))))))
  (do (ext frt.Printf1 ((str "%v\n") (ext slice.Filter ((var yes) (slice string ((str "yes") (str "no") (str "y") (str "Y"))))))))
  (do (matchs (call says 2 ((str "target") (bin sadd (str "a") (str "b")))) (("ab" (block () (ext frt.Println ((str "hit ab"))))) ("a" (block () (ext frt.Println ((call says 2 ((str "never") (str "x")))))))) (default (block () (ext frt.Println ((str "default")))))))
  (let r (matchs (str "zz") (("z" (block () (str "one")))) (bind w (block ((do (ext frt.Println ((var w))))) (bin sadd (var w) (var w))))))
  )
  (ext frt.Println ((var r)))
 )
)
