; operator chains written WITHOUT parentheses (file name contains "noparens": the printer omits every pair of
; parentheses that fc's operator table makes redundant), over all boolean assignments: && and || share one rank and
; group to the left, comparisons share that rank, = and <> bind tighter, + and - tighter still
(prog (
  (fun chk ((a bool) (b bool) (c bool)) unit (block ((do (ext frt.Printf1 ((str "%v\n") (bin && (bin && (var a) (var b)) (var c))))) (do (ext frt.Printf1 ((str "%v\n") (bin || (bin && (var a) (var b)) (var c))))) (do (ext frt.Printf1 ((str "%v\n") (bin && (bin || (var a) (var b)) (var c))))) (do (ext frt.Printf1 ((str "%v\n") (bin || (bin || (var a) (var b)) (var c))))) (do (ext frt.Printf1 ((str "%v\n") (bin && (bin && (bin && (var a) (var b)) (var c)) (var a))))) (do (ext frt.Printf1 ((str "%v\n") (bin || (bin && (bin && (var a) (var b)) (var c)) (var a))))) (do (ext frt.Printf1 ((str "%v\n") (bin && (bin || (bin && (var a) (var b)) (var c)) (var a))))) (do (ext frt.Printf1 ((str "%v\n") (bin || (bin || (bin && (var a) (var b)) (var c)) (var a))))) (do (ext frt.Printf1 ((str "%v\n") (bin && (bin && (bin || (var a) (var b)) (var c)) (var a))))) (do (ext frt.Printf1 ((str "%v\n") (bin || (bin && (bin || (var a) (var b)) (var c)) (var a))))) (do (ext frt.Printf1 ((str "%v\n") (bin && (bin || (bin || (var a) (var b)) (var c)) (var a))))) (do (ext frt.Printf1 ((str "%v\n") (bin || (bin || (bin || (var a) (var b)) (var c)) (var a)))))) (unit)))
  (fun ar ((a int) (b int) (c int)) unit (block ((do (ext frt.Printf1 ((str "%d\n") (bin - (bin - (var a) (var b)) (var c))))) (do (ext frt.Printf1 ((str "%d\n") (bin + (bin - (var a) (var b)) (var c))))) (do (ext frt.Printf1 ((str "%d\n") (bin - (bin + (var a) (var b)) (var c))))) (do (ext frt.Printf1 ((str "%v\n") (bin < (bin - (var a) (var b)) (var c))))) (do (ext frt.Printf1 ((str "%v\n") (bin > (var a) (bin + (var b) (var c)))))) (do (ext frt.Printf1 ((str "%v\n") (eq (bin + (var a) (var b)) (var c))))) (do (ext frt.Printf1 ((str "%v\n") (eq (var c) (bin + (var a) (var b)))))) (do (ext frt.Printf1 ((str "%v\n") (bin && (bin < (var a) (var b)) (eq (var b) (var c)))))) (do (ext frt.Printf1 ((str "%v\n") (bin || (bin >= (var a) (var b)) (neq (bin - (var a) (var b)) (var c))))))) (unit)))
 )
 (block (
  (do (call chk 3 ((bool true) (bool true) (bool true))))
  (do (call chk 3 ((bool true) (bool true) (bool false))))
  (do (call chk 3 ((bool true) (bool false) (bool true))))
  (do (call chk 3 ((bool true) (bool false) (bool false))))
  (do (call chk 3 ((bool false) (bool true) (bool true))))
  (do (call chk 3 ((bool false) (bool true) (bool false))))
  (do (call chk 3 ((bool false) (bool false) (bool true))))
  (do (call chk 3 ((bool false) (bool false) (bool false))))
  (do (call ar 3 ((int 7) (int 2) (int 3))))
  (do (call ar 3 ((int 1) (int 5) (int 2))))
  (do (call ar 3 ((int 4) (int 4) (int 0))))
  (do (call ar 3 ((int 3) (int 1) (int 2))))
 ) (unit)))
