; int is Go's 64-bit two's complement: arithmetic wraps around (operands are variables: Go rejects an
; overflowing *constant* expression such as 9223372036854775807 + 1 at compile time)
(prog (
  (fun dbl ((x int)) int (block () (bin * (var x) (int 2))))
 )
 (block (
  (let big (int 4611686018427387904))
  (do (ext frt.Printf1 ((str "%d\n") (call dbl 1 ((var big))))))
  (do (ext frt.Printf1 ((str "%d\n") (bin - (call dbl 1 ((var big))) (int 1)))))
  (let maxi (int 9223372036854775807))
  (do (ext frt.Printf1 ((str "%d\n") (bin + (var maxi) (int 1)))))
  (do (ext frt.Printf1 ((str "%v\n") (bin < (bin + (var maxi) (int 1)) (int 0)))))
  )
  (ext frt.Printf1 ((str "%d\n") (bin * (call dbl 1 ((var big))) (call dbl 1 ((var big))))))
 )
)
