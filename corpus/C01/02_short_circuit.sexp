; && and || evaluate the right operand only when needed; effects appear in source order
(prog (
  (fun sayb ((tag string) (v bool)) bool (block ((do (ext frt.Println ((var tag))))) (var v)))
 )
 (block (
  (do (ext frt.Printf1 ((str "%v\n") (bin && (call sayb 2 ((str "l1") (bool false))) (call sayb 2 ((str "r1") (bool true)))))))
  (do (ext frt.Printf1 ((str "%v\n") (bin && (call sayb 2 ((str "l2") (bool true))) (call sayb 2 ((str "r2") (bool false)))))))
  (do (ext frt.Printf1 ((str "%v\n") (bin || (call sayb 2 ((str "l3") (bool true))) (call sayb 2 ((str "r3") (bool false)))))))
  (do (ext frt.Printf1 ((str "%v\n") (bin || (call sayb 2 ((str "l4") (bool false))) (call sayb 2 ((str "r4") (bool true)))))))
  (do (ext frt.Printf1 ((str "%v\n") (bin || (bin && (call sayb 2 ((str "a") (bool true))) (call sayb 2 ((str "b") (bool false)))) (bin && (call sayb 2 ((str "c") (bool true))) (call sayb 2 ((str "d") (bool true))))))))
  (do (ext frt.Printf1 ((str "%v\n") (bin && (bin || (call sayb 2 ((str "e") (bool false))) (call sayb 2 ((str "f") (bool false)))) (call sayb 2 ((str "g") (bool true)))))))
  (do (ext frt.Printf1 ((str "%v\n") (not (bin && (call sayb 2 ((str "h") (bool false))) (call sayb 2 ((str "i") (bool true))))))))
  (do (ifonly (bin || (bin < (int 1) (int 2)) (call sayb 2 ((str "never") (bool true)))) (block () (ext frt.Println ((str "taken"))))))
  )
  (ext frt.Printf1 ((str "%v\n") (ext slice.Forall ((lam ((x int)) (block () (bin && (bin > (var x) (int 0)) (call sayb 2 ((str "pos") (bin < (var x) (int 3))))))) (slice int ((int 1) (int 0) (int 5)))))))
 )
)
