; division guarded against a zero divisor: both branches are plain expressions (variables, fields, operators),
; the dividing branch is the one the guard excludes; Go's / truncates toward zero
(prog (
  (record Stat ((Total int) (Count int)))
  (fun average ((dflt int) (s (rec Stat))) int (block ()
     (if (eq (field (var s) Count) (int 0)) (block () (var dflt)) (block () (bin / (field (var s) Total) (field (var s) Count))))))
  (fun ratio ((a int) (b int) (whenZero int)) int (block (
     (let r (if (eq (var b) (int 0)) (block () (var whenZero)) (block () (bin / (var a) (var b))))))
     (var r)))
  (fun half ((n int)) int (block () (bin / (var n) (int 2))))
 )
 (block (
   (let s1 (record Stat ((Total (int 10)) (Count (int 4)))))
   (let s2 (record Stat ((Count (int 0)) (Total (int 0)))))
   (do (pipe (call average 2 ((int 0) (var s1))) (ext frt.Printf1 ((str "%d\n")))))
   (do (pipe (call average 2 ((bin - (int 0) (int 1)) (var s2))) (ext frt.Printf1 ((str "%d\n")))))
   (do (ext frt.Printf1 ((str "%d\n") (call ratio 3 ((int 7) (int 2) (int 0))))))
   (do (ext frt.Printf1 ((str "%d\n") (call ratio 3 ((int 7) (int 0) (int 0))))))
   (let m (bin - (int 0) (int 7)))
   (do (ext frt.Printf1 ((str "%d\n") (call half 1 ((var m))))))
   (do (ext frt.Printf1 ((str "%d\n") (call ratio 3 ((var m) (bin - (int 0) (int 2)) (int 0))))))
   (let lo (bin - (bin - (int 0) (int 9223372036854775807)) (int 1)))
   (do (ext frt.Printf1 ((str "%d\n") (call ratio 3 ((var lo) (bin - (int 0) (int 1)) (int 0))))))
  )
  (ext frt.Printf1 ((str "%d\n") (call ratio 3 ((int 100) (call half 1 ((int 9))) (int 0)))))))
