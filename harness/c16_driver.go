package main

// C16, file-driver half: the model Driver/FileDriver.v (extracted: oracle request `drive`) against
// the REAL fc process. A scenario is an argument list over a small directory tree: good / bad /
// dependent .fo files, .foi files, a .txt file, missing files, directories given as inputs,
// duplicates, and destinations that cannot be written (a directory at gen_X.go, a symlink to
// /dev/full, a dangling symlink into a missing directory), plus pre-existing gen files with a
// marker content. The translation itself is abstract in the model; the harness tells it at which
// argument index the translation fails, and what each output must be, by asking the hooked
// in-process compiler (the same files in the same order, no file system involved).
// Compared: exit status class, the index of the failing argument, the exact set of regular
// gen_*.go files afterwards, marker contents of outputs that must not be touched, and the content of
// every written output. When the property itself fails on the real run (exit 0 with an output
// missing or incomplete, no diagnostic, something written for the offender or for later arguments,
// an earlier output not intact, hang, fatal error) the scenario is a concrete violation; any other
// disagreement is reported as corr-driver (no failing input).

import (
	"fmt"
	"os"
	"path/filepath"
	"sort"
	"strings"
	"time"
)

const drvMarker = "// stale output of an earlier run (marker)\n"

type drvScenario struct {
	Args     []string          `json:"args"`
	Files    map[string]string `json:"files"`      // regular input files: name -> content
	InDirs   []string          `json:"input_dirs"` // directories at argument names
	Pre      []string          `json:"pre_existing_outputs"`
	DestDirs []string          `json:"dest_is_directory"`
	DevFull  []string          `json:"dest_symlink_dev_full"`
	Dangling []string          `json:"dest_symlink_into_missing_dir"`
	Kinds    []string          `json:"arg_kinds"`
}

func drvDest(arg string) (string, bool) {
	if !strings.HasSuffix(arg, ".fo") {
		return "", false
	}
	return filepath.Join(filepath.Dir(arg), "gen_"+strings.TrimSuffix(filepath.Base(arg), ".fo")+".go"), true
}

func drvIdent(name string) string {
	return strings.NewReplacer("/", "_", ".", "_").Replace(name)
}

func drvGen(rng *Rng, haveDevFull bool) drvScenario {
	sc := drvScenario{Files: map[string]string{}}
	pool := []string{"a.fo", "b.fo", "c.fo", "d.fo", "sub/a.fo", "sub/e.fo"}
	n := 1 + rng.Intn(5)
	isDir := map[string]bool{}
	for i := 0; i < n; i++ {
		k := rng.Intn(100)
		var name, kind string
		switch {
		case k < 10 && len(sc.Args) > 0:
			name, kind = Choose(rng, sc.Args), "duplicate"
		case k < 50:
			name, kind = Choose(rng, pool), "good"
		case k < 60:
			name, kind = Choose(rng, pool), "dependent"
		case k < 73:
			name, kind = Choose(rng, pool), "bad"
		case k < 81:
			name, kind = Choose(rng, []string{"p.foi", "sub/q.foi"}), "foi"
		case k < 84:
			name, kind = "r.foi", "badfoi"
		case k < 87:
			name, kind = "notes.txt", "txt"
		case k < 94:
			name, kind = Choose(rng, []string{"nothere.fo", "sub/nothere.fo", "nodir/x.fo", "gone.foi"}), "missing"
		default:
			name, kind = Choose(rng, []string{"dir.fo", "sub/dir.fo", "dirp.foi"}), "input-is-directory"
		}
		sc.Args = append(sc.Args, name)
		sc.Kinds = append(sc.Kinds, kind)
		if _, ok := sc.Files[name]; ok || isDir[name] {
			continue // the name already has its content (an earlier argument)
		}
		id := drvIdent(name)
		switch kind {
		case "good":
			sc.Files[name] = fmt.Sprintf("package main\n\nlet f_%s (x:int) = x + %d\n", id, 1+rng.Intn(9))
		case "dependent":
			// uses a function of another pool file: accepted only after that file
			other := Choose(rng, pool)
			sc.Files[name] = fmt.Sprintf("package main\n\nlet f_%s (x:int) = f_%s x + 1\n", id, drvIdent(other))
		case "bad":
			sc.Files[name] = Choose(rng, []string{
				fmt.Sprintf("package main\n\nlet f_%s (x:int) = x +\n", id),
				fmt.Sprintf("package main\n\nlet f_%s (x:int) = \"abc\n", id),
				fmt.Sprintf("package main\n\nlet f_%s x = x x\n", id),
				fmt.Sprintf("package main\n\nlet f_%s (x:int) = x + 1\n// c", id) + "\n/* open",
				fmt.Sprintf("package main\n\nlet f_%s (x:int) =\n  match x with\n", id),
			})
		case "foi":
			sc.Files[name] = fmt.Sprintf("package_info q%s =\n  let Foo: int->int\n  let Bar<T>: []T->int\n", id)
		case "badfoi":
			sc.Files[name] = "package_info r =\n  let Foo: int->\n"
		case "txt":
			sc.Files[name] = "package main\n\nlet f_txt (x:int) = x\n"
		case "input-is-directory":
			sc.InDirs = append(sc.InDirs, name)
			isDir[name] = true
		}
	}
	// destinations
	seen := map[string]bool{}
	for _, a := range sc.Args {
		d, ok := drvDest(a)
		if !ok || seen[d] {
			continue
		}
		seen[d] = true
		if strings.HasPrefix(d, "nodir/") {
			continue
		}
		switch k := rng.Intn(100); {
		case k < 9:
			sc.DestDirs = append(sc.DestDirs, d)
		case k < 16 && haveDevFull:
			sc.DevFull = append(sc.DevFull, d)
		case k < 23:
			sc.Dangling = append(sc.Dangling, d)
		case k < 45:
			sc.Pre = append(sc.Pre, d)
		}
	}
	if rng.Chance(1, 4) {
		sc.Pre = append(sc.Pre, "gen_zzz.go")
	}
	if rng.Chance(1, 6) && !seen["gen_p.go"] {
		sc.Pre = append(sc.Pre, "gen_p.go") // next to p.foi: must stay as it is
	}
	return sc
}

func (sc *drvScenario) setup(dir string) {
	os.MkdirAll(filepath.Join(dir, "sub"), 0o755)
	for n, s := range sc.Files {
		MustWrite(filepath.Join(dir, n), s)
	}
	for _, n := range sc.InDirs {
		os.MkdirAll(filepath.Join(dir, n), 0o755)
	}
	for _, n := range sc.DestDirs {
		os.MkdirAll(filepath.Join(dir, n), 0o755)
	}
	for _, n := range sc.Pre {
		MustWrite(filepath.Join(dir, n), drvMarker)
	}
	for _, n := range sc.DevFull {
		os.Symlink("/dev/full", filepath.Join(dir, n))
	}
	for _, n := range sc.Dangling {
		os.Symlink(filepath.Join(dir, "no_such_dir", "out.go"), filepath.Join(dir, n))
	}
}

// regular gen_*.go files below dir (relative names) with their content
func drvGenFiles(dir string) map[string]string {
	out := map[string]string{}
	filepath.Walk(dir, func(p string, info os.FileInfo, err error) error {
		if err != nil || info == nil {
			return nil
		}
		b := filepath.Base(p)
		if info.Mode().IsRegular() && strings.HasPrefix(b, "gen_") && strings.HasSuffix(b, ".go") {
			rel, _ := filepath.Rel(dir, p)
			c, _ := os.ReadFile(p)
			out[rel] = string(c)
		}
		return nil
	})
	return out
}

func drvList(tag string, xs []string) string {
	var b strings.Builder
	b.WriteString("(" + tag)
	for _, x := range xs {
		b.WriteString(" " + Sq(x))
	}
	b.WriteString(")")
	return b.String()
}

type drvExpect struct {
	exit0   bool
	k       int    // failing argument (when !exit0)
	why     string // READ | TRANSLATE | WRITE
	written map[string]int
}

func drvParseModel(line string) drvExpect {
	e := drvExpect{written: map[string]int{}}
	i := strings.Index(line, " written=(")
	if i < 0 || !strings.HasSuffix(line, ")") {
		panic("bad drive answer: " + line)
	}
	head := strings.Fields(line[:i])
	switch {
	case len(head) == 1 && head[0] == "EXIT0":
		e.exit0 = true
	case len(head) == 3 && head[0] == "FAIL":
		fmt.Sscan(head[1], &e.k)
		e.why = head[2]
	default:
		panic("bad drive answer: " + line)
	}
	for _, w := range strings.Fields(line[i+len(" written=(") : len(line)-1]) {
		j := strings.LastIndex(w, ":")
		var idx int
		fmt.Sscan(w[j+1:], &idx)
		e.written[w[:j]] = idx
	}
	return e
}

func c16Driver(c *Ctx, rng *Rng) {
	_, errFull := os.Stat("/dev/full")
	haveDevFull := errFull == nil
	if !haveDevFull {
		c.Note("no /dev/full on this machine: the write-fails-after-open destination is not exercised")
	}
	var scs []drvScenario
	if c.Replay != "" {
		if sc, ok := drvLoadReplay(c.Replay); ok {
			scs = append(scs, sc)
		}
	}
	// a few fixed shapes first, then random ones
	if c.Replay == "" {
		g := func(id string, k int) string {
			return fmt.Sprintf("package main\n\nlet f_%s (x:int) = x + %d\n", id, k)
		}
		scs = append(scs,
			drvScenario{Args: []string{"a.fo", "a.fo"}, Files: map[string]string{"a.fo": g("a_fo", 1)}, Kinds: []string{"good", "duplicate"}},
			drvScenario{Args: []string{"b.fo", "a.fo"}, Files: map[string]string{"a.fo": g("a_fo", 1), "b.fo": "package main\n\nlet f_b_fo (x:int) = f_a_fo x + 1\n"}, Kinds: []string{"dependent", "good"}},
			drvScenario{Args: []string{"a.fo", "b.fo"}, Files: map[string]string{"a.fo": g("a_fo", 1), "b.fo": "package main\n\nlet f_b_fo (x:int) = f_a_fo x + 1\n"}, Kinds: []string{"good", "dependent"}},
			drvScenario{Args: []string{"a.fo", "sub/a.fo", "c.fo"}, Files: map[string]string{"a.fo": g("a_fo", 1), "sub/a.fo": g("sub_a_fo", 2), "c.fo": g("c_fo", 3)},
				Dangling: []string{"sub/gen_a.go"}, Pre: []string{"gen_c.go"}, Kinds: []string{"good", "good", "good"}},
			drvScenario{Args: []string{"p.foi", "a.fo"}, Files: map[string]string{"p.foi": "package_info q =\n  let Foo: int->int\n", "a.fo": g("a_fo", 1)}, Pre: []string{"gen_p.go", "gen_a.go"}, Kinds: []string{"foi", "good"}},
		)
		for i := 0; i < c.Pick(60, 600); i++ {
			scs = append(scs, drvGen(rng, haveDevFull))
		}
	}
	srv := c.StartFcSrv()
	defer srv.Close()
	or := c.Oracle()
	fc := filepath.Join(c.Bin, "fc")

	for si, sc := range scs {
		sc := sc
		n := len(sc.Args)
		isInDir := map[string]bool{}
		for _, d := range sc.InDirs {
			isInDir[d] = true
		}
		// the abstract translate, from the in-process compiler: first failing index and the expected outputs
		bad := -1
		expected := make([]string, n)
		haveExp := make([]bool, n)
		var prefix []SrcFile
		for i, a := range sc.Args {
			src, ok := sc.Files[a]
			if !ok || isInDir[a] {
				break // unreadable: the run ends here before any translation
			}
			prefix = append(prefix, SrcFile{a, src})
			r := srv.Transpile(prefix...)
			if r.Died {
				c.Violate("fatal", "the in-process compiler dies on a driver scenario", map[string]any{"scenario": sc}, true)
				return
			}
			if !r.Ok {
				bad = i
				break
			}
			if d, isFo := drvDest(a); isFo {
				expected[i], haveExp[i] = r.Outs[filepath.Base(d)], true
			}
		}
		// the model
		var regular []string
		for nme := range sc.Files {
			regular = append(regular, nme)
		}
		regular = append(regular, sc.Pre...)
		sort.Strings(regular)
		badL := "(bad)"
		if bad >= 0 {
			badL = fmt.Sprintf("(bad %d)", bad)
		}
		req := "(drive " + drvList("args", sc.Args) + " " + drvList("files", regular) + " " +
			drvList("dirs", append(append([]string{}, sc.InDirs...), sc.DestDirs...)) + " " +
			drvList("unwritable", append(append([]string{}, sc.DevFull...), sc.Dangling...)) + " " + badL + ")"
		model := drvParseModel(or.Ask("C16", req))

		// the real process
		dir := filepath.Join(c.Work, fmt.Sprintf("drv%d", si))
		os.MkdirAll(dir, 0o755)
		sc.setup(dir)
		r := Run(dir, 30*time.Second, 4096, []string{"GOMAXPROCS=2"}, fc, sc.Args...)
		if r.TimedOut {
			os.RemoveAll(dir)
			os.MkdirAll(dir, 0o755)
			sc.setup(dir)
			r = Run(dir, 90*time.Second, 4096, []string{"GOMAXPROCS=2"}, fc, sc.Args...)
		}
		c.Count("real_process_runs")
		after := drvGenFiles(dir)
		// kinds of the planted non-regular destinations must not have changed
		planted := ""
		for _, d := range sc.DestDirs {
			if st, err := os.Lstat(filepath.Join(dir, d)); err != nil || !st.IsDir() {
				planted = "the directory at " + d + " is gone"
			}
		}
		for _, d := range append(append([]string{}, sc.DevFull...), sc.Dangling...) {
			if st, err := os.Lstat(filepath.Join(dir, d)); err != nil || st.Mode()&os.ModeSymlink == 0 {
				planted = "the symlink at " + d + " was replaced"
			}
		}
		inputsChanged := ""
		for nme, s := range sc.Files {
			if b, err := os.ReadFile(filepath.Join(dir, nme)); err != nil || string(b) != s {
				inputsChanged = "input " + nme + " was modified"
			}
		}
		os.RemoveAll(dir)

		out := r.Stdout + r.Stderr
		started := strings.Count(r.Stdout, "transpile: ")
		diagText := out
		for _, a := range sc.Args {
			diagText = strings.Replace(diagText, "transpile: "+a, "", 1)
		}
		diagText = strings.TrimSpace(diagText)
		isPre := map[string]bool{}
		for _, p := range sc.Pre {
			isPre[p] = true
		}
		// state of a path before argument k runs, according to the real semantics of the earlier arguments
		// (the last earlier .fo argument with that destination wrote it, if it is writable)
		unwritable := map[string]bool{}
		for _, d := range sc.DestDirs {
			unwritable[d] = true
		}
		for _, d := range sc.DevFull {
			unwritable[d] = true
		}
		for _, d := range sc.Dangling {
			unwritable[d] = true
		}
		stateBefore := func(p string, k int) (string, bool) { // content, present-as-regular-file
			for j := k - 1; j >= 0; j-- {
				if d, ok := drvDest(sc.Args[j]); ok && d == p && haveExp[j] && !unwritable[p] {
					return expected[j], true
				}
			}
			if isPre[p] {
				return drvMarker, true
			}
			return "", false
		}
		same := func(p string, k int) bool {
			want, present := stateBefore(p, k)
			got, ok := after[p]
			return ok == present && (!ok || got == want)
		}

		// ---- the property itself, on the real run
		viol, vname := "", ""
		switch {
		case r.TimedOut:
			viol, vname = "fc does not terminate (killed after 30 s and again after 90 s)", "hang"
		case c16BadOutput(out) != "":
			viol, vname = "fc dies of a Go runtime fatal error ("+c16BadOutput(out)+")", "fatal"
		case r.Exit == 0:
			last := map[string]int{}
			for i, a := range sc.Args {
				if d, isFo := drvDest(a); isFo {
					last[d] = i
				}
			}
			for _, d := range SortedKeys(last) {
				i := last[d]
				got, ok := after[d]
				if !ok || got == drvMarker {
					viol, vname = "fc exits 0 but "+d+" (asked for by argument "+sc.Args[i]+") was not written", "exit0"
				} else if haveExp[i] && got != expected[i] {
					viol, vname = "fc exits 0 but "+d+" is not the complete translation of "+sc.Args[i], "exit0"
				}
			}
		default:
			k := started - 1
			known := k >= 0 && k < n // the in-process compiler translated every argument before k
			for j := 0; j < k && j < n; j++ {
				if _, isFo := drvDest(sc.Args[j]); isFo && !haveExp[j] {
					known = false
				}
			}
			if diagText == "" {
				viol, vname = "fc exits non-zero without a diagnostic", "nodiag"
			} else if known {
				if d, isFo := drvDest(sc.Args[k]); isFo && !same(d, k) {
					viol, vname = "fc failed at argument "+sc.Args[k]+" but wrote or changed its output "+d, "wrote"
				}
				for i := 0; i < k && viol == ""; i++ {
					if d, isFo := drvDest(sc.Args[i]); isFo && !same(d, k) {
						viol, vname = "fc failed at argument "+sc.Args[k]+" and the output "+d+" of the earlier argument "+sc.Args[i]+" is missing or incomplete", "earlier"
					}
				}
				for j := k + 1; j < n && viol == ""; j++ {
					if d, isFo := drvDest(sc.Args[j]); isFo && !same(d, k) {
						viol, vname = "fc failed at argument "+sc.Args[k]+" but touched "+d+", the output of the later argument "+sc.Args[j], "later"
					}
				}
			}
		}

		// ---- model vs process
		var diffs []string
		if (r.Exit == 0) != model.exit0 {
			diffs = append(diffs, fmt.Sprintf("exit status %d, model %v", r.Exit, map[bool]string{true: "exit 0", false: "failure at argument " + fmt.Sprint(model.k) + " (" + model.why + ")"}[model.exit0]))
		}
		if !model.exit0 && r.Exit != 0 && started-1 != model.k {
			diffs = append(diffs, fmt.Sprintf("fc stopped at argument %d, model at %d (%s)", started-1, model.k, model.why))
		}
		if model.exit0 && r.Exit == 0 && started != n {
			diffs = append(diffs, fmt.Sprintf("fc started %d of %d arguments", started, n))
		}
		wantSet := map[string]bool{}
		for _, p := range sc.Pre {
			wantSet[p] = true
		}
		for p := range model.written {
			wantSet[p] = true
		}
		for p := range wantSet {
			if _, ok := after[p]; !ok {
				diffs = append(diffs, "missing afterwards: "+p)
			}
		}
		for p, got := range after {
			if !wantSet[p] {
				diffs = append(diffs, "unexpected file afterwards: "+p)
				continue
			}
			if idx, w := model.written[p]; w {
				if idx < 0 || idx >= n || !haveExp[idx] {
					diffs = append(diffs, fmt.Sprintf("model says %s was written by argument %d, which has no translation", p, idx))
				} else if got != expected[idx] {
					diffs = append(diffs, fmt.Sprintf("%s differs from the in-process translation of argument %d (%s)", p, idx, sc.Args[idx]))
				}
			} else if got != drvMarker {
				diffs = append(diffs, "pre-existing "+p+" lost its marker content")
			}
		}
		if planted != "" {
			diffs = append(diffs, planted)
		}
		if inputsChanged != "" {
			diffs = append(diffs, inputsChanged)
		}
		sort.Strings(diffs)

		c.Eval("drive:"+req, true)
		c.Compared(1)
		c.Count(fmt.Sprintf("driver_args=%d", n))
		for _, k := range sc.Kinds {
			c.Count("driver_arg_kind=" + k)
		}
		c.CountN("driver_dest=directory", len(sc.DestDirs))
		c.CountN("driver_dest=dev_full", len(sc.DevFull))
		c.CountN("driver_dest=dangling_symlink", len(sc.Dangling))
		c.CountN("driver_dest=pre_existing", len(sc.Pre))
		if model.exit0 {
			c.Count("driver_outcome=exit0")
		} else {
			c.Count("driver_outcome=fail_" + model.why)
		}
		if si%17 == 3 {
			c.Sample(map[string]any{"driver_scenario": sc, "model": map[string]any{"exit0": model.exit0, "failed_arg": model.k, "why": model.why, "written": model.written}, "fc_exit": r.Exit})
		}
		rep := map[string]any{"scenario": sc, "fc_exit": r.Exit, "fc_output": trunc(out, 1500), "files_afterwards": SortedKeys(after),
			"model":                map[string]any{"exit0": model.exit0, "failed_arg": model.k, "why": model.why, "written": model.written},
			"translation_fails_at": bad, "differences": diffs, "how": "fc <args> in a fresh directory prepared from the scenario"}
		if viol != "" {
			c.Disagree()
			c.Violate("driver-"+vname, viol+" (args "+strings.Join(sc.Args, " ")+")", rep, false)
		} else if len(diffs) > 0 {
			c.Disagree()
			rep["broken"] = "Driver/FileDriver.v transpile_files vs fc/main.fo"
			c.Violate("corr-driver", "file-driver model and fc disagree: "+trunc(strings.Join(diffs, "; "), 200)+" (args "+strings.Join(sc.Args, " ")+")", rep, true)
		}
	}
	if c.Replay == "" {
		c16ResolverCorr(c, rng, srv)
	}
	c.Res.Rule += "; file driver: random argument lists (1-5 arguments: good/bad/dependent .fo, .foi, .txt, missing, directory, duplicates; destinations: directory, symlink to /dev/full, dangling symlink, pre-existing marker) run through the real fc process in a fresh directory against the extracted transpile_files (exit class, failing argument, set and content of gen files)"
}

func drvLoadReplay(path string) (drvScenario, bool) {
	var doc struct {
		Replay struct {
			Scenario *drvScenario `json:"scenario"`
		} `json:"replay"`
	}
	b, err := os.ReadFile(path)
	if err != nil {
		panic(err)
	}
	if err := jsonUnmarshal(b, &doc); err != nil || doc.Replay.Scenario == nil {
		return drvScenario{}, false
	}
	return *doc.Replay.Scenario, true
}

// ---------------------------------------------------------------- resolver correspondence
// Core/Resolve.v (resolve = resolveType with the path check) against updateResolver + resolveType of the
// tree under test (hook op "resolve"). The model's resolver is a solved form, so the relations given to
// updateResolver are in solved form too: at most one relation per variable, a variable-to-variable
// relation always from the later name to the earlier one (the orientation compositeTp itself keeps);
// they are fed in a random order. Cyclic resolvers are generated on purpose.

func resGenTy(rng *Rng, depth int, varBelow int) string {
	// varBelow > 0: only variables T0..T(varBelow-1) (keeps the dependency relation acyclic); 0: no variable; <0: any of T0..T7
	leaf := func() string {
		k := rng.Intn(6)
		if k < 3 && varBelow != 0 {
			if varBelow > 0 {
				return fmt.Sprintf("v:T%d", rng.Intn(varBelow))
			}
			return fmt.Sprintf("v:T%d", rng.Intn(8))
		}
		return Choose(rng, []string{"int", "str", "bool"})
	}
	if depth <= 0 || rng.Chance(1, 3) {
		return leaf()
	}
	switch rng.Intn(3) {
	case 0:
		return "sl " + resGenTy(rng, depth-1, varBelow)
	case 1:
		n := 2 + rng.Intn(2)
		s := fmt.Sprintf("tu:%d", n)
		for i := 0; i < n; i++ {
			s += " " + resGenTy(rng, depth-1, varBelow)
		}
		return s
	default:
		n := 1 + rng.Intn(3)
		s := fmt.Sprintf("fn:%d", n)
		for i := 0; i < n; i++ {
			s += " " + resGenTy(rng, depth-1, varBelow)
		}
		return s
	}
}

func c16ResolverCorr(c *Ctx, rng *Rng, srv *FcSrv) {
	or := c.Oracle()
	fixed := []struct {
		rels [][2]string
		ty   string
	}{
		{[][2]string{{"T0", "fn:2 v:T0 v:T1"}}, "v:T0"},                             // let f x = x x
		{[][2]string{{"T1", "sl v:T1"}}, "fn:2 int v:T1"},                           // let g x = g [x]
		{[][2]string{{"T5", "sl v:T0"}, {"T0", "sl v:T1"}, {"T1", "v:T0"}}, "v:T5"}, // a cycle through a variable-to-variable relation
		{[][2]string{{"T3", "v:T1"}, {"T1", "sl int"}, {"T2", "v:T1"}}, "tu:3 v:T3 v:T2 v:T7"},
		{[][2]string{{"T2", "tu:2 v:T1 v:T1"}, {"T1", "fn:2 v:T0 v:T0"}, {"T0", "sl str"}}, "sl v:T2"},
	}
	type scen struct {
		rels [][2]string
		ty   string
		mode string
	}
	var scs []scen
	for _, f := range fixed {
		scs = append(scs, scen{f.rels, f.ty, "fixed"})
	}
	for i := 0; i < c.Pick(300, 6000); i++ {
		acyclic := rng.Bool()
		var rels [][2]string
		for v := 0; v < 7; v++ {
			if !rng.Chance(11, 20) {
				continue
			}
			name := fmt.Sprintf("T%d", v)
			switch {
			case v > 0 && rng.Chance(1, 5):
				rels = append(rels, [2]string{name, fmt.Sprintf("v:T%d", rng.Intn(v))}) // later name := earlier name
			case acyclic:
				t := resGenTy(rng, 3, v)
				if strings.HasPrefix(t, "v:") {
					t = "sl " + t
				}
				rels = append(rels, [2]string{name, t})
			default:
				t := resGenTy(rng, 3, -1)
				if strings.HasPrefix(t, "v:") {
					t = "sl " + t
				}
				rels = append(rels, [2]string{name, t})
			}
		}
		p := rng.Perm(len(rels))
		sh := make([][2]string, len(rels))
		for i, j := range p {
			sh[i] = rels[j]
		}
		mode := "any"
		if acyclic {
			mode = "acyclic-by-construction"
		}
		q := resGenTy(rng, 3, -1)
		if rng.Bool() {
			q = fmt.Sprintf("tu:3 v:T%d v:T%d v:T%d", rng.Intn(8), rng.Intn(8), rng.Intn(8))
		}
		scs = append(scs, scen{sh, q, mode})
	}
	for _, sc := range scs {
		r := srv.Resolve(sc.rels, sc.ty)
		req := "(resolve (rels"
		for _, rl := range sc.rels {
			req += " (" + Sq(rl[0]) + " " + Sq(rl[1]) + ")"
		}
		req += ") " + Sq(sc.ty) + ")"
		model := or.Ask("C16", req)
		impl := ""
		switch {
		case r.Died:
			impl = "DIED " + r.Err
		case r.Ok:
			impl = "RESOLVED " + r.Fmt
		case strings.Contains(r.Err, "Recursive type is not supported"):
			impl = "CYCLIC"
		default:
			impl = "PANIC " + r.Err
		}
		c.Eval("resolve:"+req, true)
		c.Compared(1)
		c.Count("resolver_mode=" + sc.mode)
		c.Count("resolver_outcome=" + strings.Fields(model)[0])
		c.Count(fmt.Sprintf("resolver_relations=%d", len(sc.rels)))
		if sc.mode == "acyclic-by-construction" && model == "CYCLIC" {
			panic("the resolver generator produced a cycle in acyclic mode: " + req)
		}
		if impl != model {
			c.Disagree()
			c.Violate("corr-resolver", "resolver model and updateResolver/resolveType disagree: impl "+trunc(impl, 90)+" / model "+trunc(model, 90),
				map[string]any{"broken": "Core/Resolve.v resolve vs fc/infer.fo updateResolver + resolveType", "relations": sc.rels, "type": sc.ty, "implementation": impl, "model": model}, true)
			if r.Died {
				return
			}
		}
	}
	c.Res.Rule += "; resolver: random solved-form relation sets (half acyclic by construction, half arbitrary, so cyclic ones occur) through updateResolver + resolveType of the hooked fc against Core/Resolve.v (resolved type or the cyclic-type diagnostic)"
}
