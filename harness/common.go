// vh: the correspondence / search harness. One sub-command per property (cNN.go),
// registered through init(). Everything random derives from one SplitMix64 state.
package main

import (
	"bufio"
	"bytes"
	"context"
	"crypto/sha256"
	"encoding/hex"
	"encoding/json"
	"fmt"
	"io"
	"os"
	"os/exec"
	"path/filepath"
	"runtime/debug"
	"sort"
	"strings"
	"sync"
	"syscall"
	"time"
)

// ---------------------------------------------------------------- context

type Ctx struct {
	ID      string
	Tree    string // scratch copy of /repo's working tree
	Bin     string // binaries built from Tree (fc, tinyfo, build_sample_md, ...)
	Work    string // scratch work directory (removed by bin/check)
	Verif   string // /verif
	Fomodel string
	Tier    string // quick | thorough
	Seed    uint64
	Out     string // result json
	Replay  string // optional: replay file to re-run
	Res     *Result
	mu      sync.Mutex
	oracle  *Oracle
	lapT    time.Time
}

func (c *Ctx) Thorough() bool { return c.Tier == "thorough" }

// Pick returns q in quick tier, t in thorough tier.
func (c *Ctx) Pick(q, t int) int {
	if c.Thorough() {
		return t
	}
	return q
}

type Violation struct {
	Replay         string `json:"replay"`
	Summary        string `json:"summary"`
	NoFailingInput bool   `json:"no_failing_input"`
}

type Result struct {
	Evaluations        int            `json:"evaluations"`
	DistinctNontrivial int            `json:"distinct_nontrivial"`
	Rule               string         `json:"rule"`
	Samples            []any          `json:"samples"`
	Distribution       map[string]int `json:"input_distribution"`
	Exhaustive         bool           `json:"exhaustive"`
	Compared           int            `json:"model_vs_impl_compared"`
	Disagreements      int            `json:"model_vs_impl_disagreements"`
	Violations         []Violation    `json:"violations"`
	KnownFindings      []string       `json:"known_findings_seen"`
	Notes              []string       `json:"notes"`
	Extra              map[string]any `json:"extra,omitempty"`
	distinct           map[string]bool
}

func NewResult() *Result {
	return &Result{Distribution: map[string]int{}, distinct: map[string]bool{}, Extra: map[string]any{},
		Samples: []any{}, Violations: []Violation{}, KnownFindings: []string{}, Notes: []string{}}
}

func (c *Ctx) Count(key string) { c.mu.Lock(); c.Res.Distribution[key]++; c.mu.Unlock() }
func (c *Ctx) CountN(key string, n int) {
	c.mu.Lock()
	c.Res.Distribution[key] += n
	c.mu.Unlock()
}

// Eval records one evaluated case; canonical is hashed for distinctness when nontrivial.
func (c *Ctx) Eval(canonical string, nontrivial bool) {
	c.mu.Lock()
	defer c.mu.Unlock()
	c.Res.Evaluations++
	if nontrivial {
		h := sha256.Sum256([]byte(canonical))
		k := hex.EncodeToString(h[:8])
		if !c.Res.distinct[k] {
			c.Res.distinct[k] = true
			c.Res.DistinctNontrivial++
		}
	}
}

func (c *Ctx) Sample(v any) {
	c.mu.Lock()
	defer c.mu.Unlock()
	if len(c.Res.Samples) < 6 {
		c.Res.Samples = append(c.Res.Samples, v)
	}
}

func (c *Ctx) Note(format string, a ...any) {
	c.mu.Lock()
	defer c.mu.Unlock()
	if len(c.Res.Notes) < 50 {
		c.Res.Notes = append(c.Res.Notes, fmt.Sprintf(format, a...))
	}
}

// Lap records the elapsed time of a phase in the evidence.
func (c *Ctx) Lap(name string) {
	c.mu.Lock()
	defer c.mu.Unlock()
	now := time.Now()
	if c.lapT.IsZero() {
		c.lapT = startT
	}
	laps, _ := c.Res.Extra["phase_seconds"].(map[string]float64)
	if laps == nil {
		laps = map[string]float64{}
	}
	laps[name] = float64(now.Sub(c.lapT).Milliseconds()) / 1000
	c.Res.Extra["phase_seconds"] = laps
	c.lapT = now
}

var startT = time.Now()

func (c *Ctx) Compared(n int) { c.mu.Lock(); c.Res.Compared += n; c.mu.Unlock() }
func (c *Ctx) Disagree()      { c.mu.Lock(); c.Res.Disagreements++; c.mu.Unlock() }

// Violate writes a replay file and records a violation (at most 20 are kept).
func (c *Ctx) Violate(name string, summary string, replay any, noFailingInput bool) {
	c.mu.Lock()
	defer c.mu.Unlock()
	if len(c.Res.Violations) >= 8 {
		return
	}
	same := 0
	for _, v := range c.Res.Violations {
		if strings.HasPrefix(filepath.Base(v.Replay), sanitize(name)+"-") {
			same++
		}
	}
	if same >= 3 {
		return
	}
	dir := filepath.Join(c.Verif, "replays", c.ID)
	os.MkdirAll(dir, 0o755)
	path := filepath.Join(dir, fmt.Sprintf("%s-seed%d-%d.json", sanitize(name), c.Seed, len(c.Res.Violations)))
	b, _ := json.MarshalIndent(map[string]any{"property": c.ID, "summary": summary,
		"no_failing_input_found": noFailingInput, "replay": replay,
		"replay_cmd": fmt.Sprintf("bin/check %s --replay %s", c.ID, path)}, "", " ")
	os.WriteFile(path, b, 0o644)
	c.Res.Violations = append(c.Res.Violations, Violation{Replay: path, Summary: summary, NoFailingInput: noFailingInput})
}

func (c *Ctx) Known(what string) {
	c.mu.Lock()
	defer c.mu.Unlock()
	for _, k := range c.Res.KnownFindings {
		if k == what {
			return
		}
	}
	c.Res.KnownFindings = append(c.Res.KnownFindings, what)
}

// IsKnown reports whether known_findings.jsonl lists (property c.ID, key) with status "known".
func (c *Ctx) IsKnown(key string) bool {
	b, err := os.ReadFile(filepath.Join(c.Verif, "known_findings.jsonl"))
	if err != nil {
		return false
	}
	for _, line := range strings.Split(string(b), "\n") {
		line = strings.TrimSpace(line)
		if line == "" || strings.HasPrefix(line, "#") {
			continue
		}
		var e struct {
			Status   string `json:"status"`
			Property string `json:"property"`
			Key      string `json:"key"`
		}
		if json.Unmarshal([]byte(line), &e) == nil && e.Status == "known" && e.Property == c.ID && e.Key == key {
			return true
		}
	}
	return false
}

func sanitize(s string) string {
	var b strings.Builder
	for _, r := range s {
		if r >= 'a' && r <= 'z' || r >= 'A' && r <= 'Z' || r >= '0' && r <= '9' || r == '-' || r == '_' {
			b.WriteRune(r)
		} else {
			b.WriteByte('_')
		}
	}
	return b.String()
}

// ---------------------------------------------------------------- PRNG

type Rng struct{ s uint64 }

// NewRng: the state is a hash of the seed, so that consecutive seeds give unrelated streams
// (seed*golden + c would make NewRng(s+1) the stream of NewRng(s) shifted by one draw).
func NewRng(seed uint64) *Rng {
	z := seed + 0x632BE59BD9B4E019
	z = (z ^ (z >> 30)) * 0xBF58476D1CE4E5B9
	z = (z ^ (z >> 27)) * 0x94D049BB133111EB
	z ^= z >> 31
	return &Rng{s: z ^ 0x1234567}
}
func (r *Rng) Next() uint64 {
	r.s += 0x9E3779B97F4A7C15
	z := r.s
	z = (z ^ (z >> 30)) * 0xBF58476D1CE4E5B9
	z = (z ^ (z >> 27)) * 0x94D049BB133111EB
	return z ^ (z >> 31)
}
func (r *Rng) Intn(n int) int {
	if n <= 0 {
		return 0
	}
	return int(r.Next() % uint64(n))
}
func (r *Rng) Bool() bool           { return r.Next()&1 == 1 }
func (r *Rng) Chance(p, q int) bool { return r.Intn(q) < p }

// Fork derives an independent stream (so parallel workers stay reproducible).
func (r *Rng) Fork() *Rng { return &Rng{s: r.Next()} }
func (r *Rng) Perm(n int) []int {
	p := make([]int, n)
	for i := range p {
		p[i] = i
	}
	for i := n - 1; i > 0; i-- {
		j := r.Intn(i + 1)
		p[i], p[j] = p[j], p[i]
	}
	return p
}
func Choose[T any](r *Rng, xs []T) T { return xs[r.Intn(len(xs))] }

// ---------------------------------------------------------------- oracle

type Oracle struct {
	cmd *exec.Cmd
	in  io.WriteCloser
	out *bufio.Reader
	mu  sync.Mutex
}

func StartOracle(path string) (*Oracle, error) {
	cmd := exec.Command(path)
	in, err := cmd.StdinPipe()
	if err != nil {
		return nil, err
	}
	out, err := cmd.StdoutPipe()
	if err != nil {
		return nil, err
	}
	cmd.Stderr = os.Stderr
	if err := cmd.Start(); err != nil {
		return nil, err
	}
	return &Oracle{cmd: cmd, in: in, out: bufio.NewReaderSize(out, 1<<20)}, nil
}

// Ask sends one request line and returns the response line. A response starting with ERR or
// equal to FUEL is a harness error, never agreement: it aborts the run.
func (o *Oracle) Ask(id, req string) string {
	o.mu.Lock()
	defer o.mu.Unlock()
	if strings.ContainsAny(req, "\n\r") {
		panic("oracle request contains newline: " + req)
	}
	fmt.Fprintf(o.in, "%s %s\n", id, req)
	line, err := o.out.ReadString('\n')
	if err != nil {
		panic("oracle died on request: " + id + " " + req)
	}
	line = strings.TrimRight(line, "\n")
	if strings.HasPrefix(line, "ERR") || line == "FUEL" {
		panic("oracle error: " + line + " on request: " + id + " " + req)
	}
	return line
}

// AskRaw is Ask without the abort on ERR / FUEL: for properties where running out of fuel is an
// ordinary outcome. The caller must not count such answers as agreement.
func (o *Oracle) AskRaw(id, req string) string {
	o.mu.Lock()
	defer o.mu.Unlock()
	if strings.ContainsAny(req, "\n\r") {
		panic("oracle request contains newline: " + req)
	}
	fmt.Fprintf(o.in, "%s %s\n", id, req)
	line, err := o.out.ReadString('\n')
	if err != nil {
		panic("oracle died on request: " + id + " " + req)
	}
	return strings.TrimRight(line, "\n")
}

func (o *Oracle) Close() {
	o.in.Close()
	o.cmd.Wait()
}

func (c *Ctx) Oracle() *Oracle {
	c.mu.Lock()
	defer c.mu.Unlock()
	if c.oracle == nil {
		o, err := StartOracle(c.Fomodel)
		if err != nil {
			panic(err)
		}
		c.oracle = o
	}
	return c.oracle
}

// NewOracle starts a private oracle process (for parallel workers).
func (c *Ctx) NewOracle() *Oracle {
	o, err := StartOracle(c.Fomodel)
	if err != nil {
		panic(err)
	}
	return o
}

// Sq quotes a byte string as an s-expression string.
func Sq(s string) string {
	var b strings.Builder
	b.WriteByte('"')
	for i := 0; i < len(s); i++ {
		ch := s[i]
		switch {
		case ch == '"':
			b.WriteString("\\\"")
		case ch == '\\':
			b.WriteString("\\\\")
		case ch < 32 || ch >= 127:
			fmt.Fprintf(&b, "\\x%02x", ch)
		default:
			b.WriteByte(ch)
		}
	}
	b.WriteByte('"')
	return b.String()
}

// Unsq parses a quoted s-expression string as printed by the oracle.
func Unsq(s string) string {
	s = strings.TrimSpace(s)
	if len(s) < 2 || s[0] != '"' {
		return s
	}
	var b strings.Builder
	for i := 1; i < len(s)-1; i++ {
		if s[i] == '\\' && i+1 < len(s)-1 {
			i++
			switch s[i] {
			case 'n':
				b.WriteByte('\n')
			case 't':
				b.WriteByte('\t')
			case 'r':
				b.WriteByte('\r')
			case 'x':
				var v int
				fmt.Sscanf(s[i+1:i+3], "%02x", &v)
				b.WriteByte(byte(v))
				i += 2
			default:
				b.WriteByte(s[i])
			}
		} else {
			b.WriteByte(s[i])
		}
	}
	return b.String()
}

// ---------------------------------------------------------------- processes

type RunResult struct {
	Exit     int
	Stdout   string
	Stderr   string
	TimedOut bool
	Signal   string
}

// Run executes a command with a timeout and an address-space limit (MB; 0 = none).
func Run(dir string, timeout time.Duration, memMB int, env []string, name string, args ...string) RunResult {
	ctx, cancel := context.WithTimeout(context.Background(), timeout)
	defer cancel()
	var cmd *exec.Cmd
	if memMB > 0 {
		sh := fmt.Sprintf("ulimit -v %d; exec \"$0\" \"$@\"", memMB*1024)
		cmd = exec.CommandContext(ctx, "/bin/sh", append([]string{"-c", sh, name}, args...)...)
	} else {
		cmd = exec.CommandContext(ctx, name, args...)
	}
	cmd.Dir = dir
	cmd.Env = append(os.Environ(), env...)
	cmd.SysProcAttr = &syscall.SysProcAttr{Setpgid: true}
	cmd.Cancel = func() error { return syscall.Kill(-cmd.Process.Pid, syscall.SIGKILL) }
	var so, se bytes.Buffer
	cmd.Stdout = &so
	cmd.Stderr = &se
	err := cmd.Run()
	r := RunResult{Stdout: so.String(), Stderr: se.String()}
	if ctx.Err() == context.DeadlineExceeded {
		r.TimedOut = true
		r.Exit = -1
		return r
	}
	if err != nil {
		if ee, ok := err.(*exec.ExitError); ok {
			r.Exit = ee.ExitCode()
			if ws, ok := ee.Sys().(syscall.WaitStatus); ok && ws.Signaled() {
				r.Signal = ws.Signal().String()
			}
		} else {
			r.Exit = -2
			r.Stderr += err.Error()
		}
	}
	return r
}

var goEnv = []string{"GOFLAGS=-mod=mod", "GOPROXY=off", "GOSUMDB=off", "GOTOOLCHAIN=local", "GOWORK=off"}

// Fc runs the fc binary built from the scratch tree.
func (c *Ctx) Fc(dir string, files ...string) RunResult {
	return Run(dir, 90*time.Second, 4096, []string{"GOMAXPROCS=2"}, filepath.Join(c.Bin, "fc"), files...)
}

// MiniFoi writes a small package_info file (parsing the full pkg_all.foi costs ~65 ms per fc
// process) and returns its path.
func (c *Ctx) MiniFoi(dir string) string {
	p := filepath.Join(dir, "mini.foi")
	if !Exists(p) {
		MustWrite(p, MiniFoiText)
	}
	return p
}

func (c *Ctx) PkgAllFoi() string { return filepath.Join(c.Tree, "pkg", "pkg_all.foi") }

// GoModFor writes go.mod/go.sum so that a generated package can import the scratch tree's pkg/*.
func (c *Ctx) GoModFor(dir, module string) {
	var b strings.Builder
	fmt.Fprintf(&b, "module %s\n\ngo 1.23.4\n\n", module)
	pk := []string{"frt", "slice", "dict", "strings", "buf", "sys"}
	b.WriteString("require (\n")
	for _, p := range pk {
		fmt.Fprintf(&b, "\tgithub.com/karino2/folang/pkg/%s v0.0.0\n", p)
	}
	b.WriteString(")\n")
	for _, p := range pk {
		fmt.Fprintf(&b, "replace github.com/karino2/folang/pkg/%s => %s\n", p, filepath.Join(c.Tree, "pkg", p))
	}
	os.WriteFile(filepath.Join(dir, "go.mod"), []byte(b.String()), 0o644)
	sum, _ := os.ReadFile(filepath.Join(c.Tree, "fc", "go.sum"))
	os.WriteFile(filepath.Join(dir, "go.sum"), sum, 0o644)
}

// GoBuild builds the package in dir into dir/prog; returns compiler output ("" on success).
func (c *Ctx) GoBuild(dir string) (string, bool) {
	r := Run(dir, 300*time.Second, 0, goEnv, "go", "build", "-o", "prog", ".")
	if r.Exit != 0 {
		return r.Stdout + r.Stderr, false
	}
	return "", true
}

func (c *Ctx) GoVet(dir string) (string, bool) {
	r := Run(dir, 300*time.Second, 0, goEnv, "go", "vet", ".")
	if r.Exit != 0 {
		return r.Stdout + r.Stderr, false
	}
	return "", true
}

// Parallel runs f(i) for i in [0,n) on up to 16 workers.
func Parallel(n int, f func(i int)) {
	workers := 16
	if n < workers {
		workers = n
	}
	var wg sync.WaitGroup
	ch := make(chan int)
	var panicVal any
	var pmu sync.Mutex
	for w := 0; w < workers; w++ {
		wg.Add(1)
		go func() {
			defer wg.Done()
			for i := range ch {
				func() {
					defer func() {
						if r := recover(); r != nil {
							pmu.Lock()
							if panicVal == nil {
								panicVal = r
							}
							pmu.Unlock()
						}
					}()
					f(i)
				}()
			}
		}()
	}
	for i := 0; i < n; i++ {
		ch <- i
	}
	close(ch)
	wg.Wait()
	if panicVal != nil {
		panic(panicVal)
	}
}

func MustWrite(path, content string) {
	os.MkdirAll(filepath.Dir(path), 0o755)
	if err := os.WriteFile(path, []byte(content), 0o644); err != nil {
		panic(err)
	}
}

func Exists(path string) bool { _, err := os.Stat(path); return err == nil }

func SortedKeys[V any](m map[string]V) []string {
	ks := make([]string, 0, len(m))
	for k := range m {
		ks = append(ks, k)
	}
	sort.Strings(ks)
	return ks
}

// Ddmin shrinks a list while test(list) stays true (test must hold for the input).
func Ddmin[T any](xs []T, test func([]T) bool) []T {
	n := 2
	for len(xs) >= 2 {
		chunk := (len(xs) + n - 1) / n
		reduced := false
		for i := 0; i < len(xs); i += chunk {
			j := i + chunk
			if j > len(xs) {
				j = len(xs)
			}
			cand := append(append([]T{}, xs[:i]...), xs[j:]...)
			if len(cand) > 0 && test(cand) {
				xs = cand
				if n > 2 {
					n--
				}
				reduced = true
				break
			}
		}
		if !reduced {
			if n >= len(xs) {
				break
			}
			n *= 2
			if n > len(xs) {
				n = len(xs)
			}
		}
	}
	return xs
}

// ---------------------------------------------------------------- main

var commands = map[string]func(*Ctx){}

func Register(id string, f func(*Ctx)) { commands[id] = f }

func main() {
	if len(os.Args) < 2 {
		fmt.Fprintln(os.Stderr, "usage: vh <ID> key=value ...")
		os.Exit(2)
	}
	c := &Ctx{ID: os.Args[1], Tier: "quick", Res: NewResult(), Verif: "/verif"}
	for _, a := range os.Args[2:] {
		k, v, _ := strings.Cut(a, "=")
		switch k {
		case "tree":
			c.Tree = v
		case "bin":
			c.Bin = v
		case "work":
			c.Work = v
		case "fomodel":
			c.Fomodel = v
		case "tier":
			c.Tier = v
		case "seed":
			fmt.Sscanf(v, "%d", &c.Seed)
		case "out":
			c.Out = v
		case "replay":
			c.Replay = v
		case "verif":
			c.Verif = v
		}
	}
	f, ok := commands[c.ID]
	if !ok {
		fmt.Fprintln(os.Stderr, "unknown id", c.ID)
		os.Exit(2)
	}
	status := 0
	func() {
		defer func() {
			if r := recover(); r != nil {
				// a harness error is not agreement: report it as a broken check
				fmt.Fprintf(os.Stderr, "HARNESS ERROR: %v\n%s\n", r, debug.Stack())
				if os.Getenv("VH_STACK") != "" || os.Getenv("VH_DEBUG") != "" {
					os.Stderr.Write(debug.Stack())
				}
				c.Res.Notes = append(c.Res.Notes, fmt.Sprintf("HARNESS ERROR: %v", r))
				status = 3
			}
		}()
		f(c)
	}()
	if c.oracle != nil {
		c.oracle.Close()
	}
	b, _ := json.MarshalIndent(c.Res, "", " ")
	if c.Out != "" {
		os.WriteFile(c.Out, b, 0o644)
	} else {
		os.Stdout.Write(b)
	}
	os.Exit(status)
}

func jsonUnmarshal(b []byte, v any) error { return json.Unmarshal(b, v) }
