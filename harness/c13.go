package main

// C13: slice library functions compute their F#-List-style specification.
// Every function of the REAL package github.com/karino2/folang/pkg/slice is called on
//   * all slices of length <= 4 over a 3-value alphabet (exhaustive), ints and strings,
//   * random slices up to length 40,
// with every index/count in and just outside range and callbacks from the family shared with the Coq
// model (coq/Pkg/SliceFamily.v); return values and recovered panics are compared with the model
// (Pkg/SliceHeap.v through the oracle) and with the List specification computed independently here
// (c13Spec; for Sort*: sorted && permutation). Strings are order-embedded into ints (their rank), and
// callbacks on strings are the int callbacks composed with the rank, so one int model serves both.
// Arguments are sub-slices of a larger array (offset 1, one spare cell).

import (
	"cmp"
	"encoding/json"
	"fmt"
	"os"
	"sort"
	"strings"

	"github.com/karino2/folang/pkg/frt"
	"github.com/karino2/folang/pkg/slice"
)

type c13P struct {
	N   int    `json:"n,omitempty"`
	Cb  string `json:"cb,omitempty"`
	K   int    `json:"k,omitempty"`
	R   int    `json:"r,omitempty"`
	X   int    `json:"x,omitempty"`
	Ini int    `json:"ini,omitempty"`
}

type c13Case struct {
	Type string  `json:"type"` // int | string
	Fn   string  `json:"fn"`
	P    c13P    `json:"params"`
	Ins  [][]int `json:"inputs"` // encoded (ints: themselves; strings: ranks in c13Strs)
}

type c13T[T cmp.Ordered] struct {
	name string
	enc  func(T) int
	dec  func(int) T
}

var c13Strs = []string{"", "a", "aa", "ab", "b", "ba", "c", "zz"} // ascending: rank = index; "" = zero value = 0

func c13RankOf(s string) int {
	for i, x := range c13Strs {
		if x == s {
			return i
		}
	}
	panic("harness: string outside the alphabet: " + s)
}

var c13Int = &c13T[int]{"int", func(x int) int { return x }, func(x int) int { return x }}
var c13Str = &c13T[string]{"string", c13RankOf, func(x int) string {
	if x < 0 || x >= len(c13Strs) {
		panic(fmt.Sprintf("harness: rank %d outside the alphabet", x))
	}
	return c13Strs[x]
}}

func (t *c13T[T]) encs(s []T) []int {
	r := make([]int, len(s))
	for i, x := range s {
		r[i] = t.enc(x)
	}
	return r
}

// the argument as a sub-slice of a larger array: offset 1, one spare cell
func (t *c13T[T]) arg(l []int) []T {
	back := make([]T, len(l)+3)
	back[0] = t.dec(0)
	for i, x := range l {
		back[i+1] = t.dec(x)
	}
	return back[1 : 1+len(l) : 2+len(l)]
}

func c13Sexp(cs *c13Case) string {
	l := func(i int) string { return c12RenderInts(cs.Ins[i]) }
	cb := famCbSexp(cs.P.Cb, cs.P.K, cs.P.R)
	switch cs.Fn {
	case "new":
		return "(new)"
	case "item", "take", "skip":
		return fmt.Sprintf("(%s %d %s)", cs.Fn, cs.P.N, l(0))
	case "map", "mapi", "filter", "forall", "forany", "tryfind", "sortby", "collect":
		return fmt.Sprintf("(%s %s %s)", cs.Fn, cb, l(0))
	case "fold":
		return fmt.Sprintf("(fold %s %d %s)", cb, cs.P.Ini, l(0))
	case "pushlast", "pushhead":
		return fmt.Sprintf("(%s %d %s)", cs.Fn, cs.P.X, l(0))
	case "zip", "append":
		return fmt.Sprintf("(%s %s %s)", cs.Fn, l(0), l(1))
	case "concat":
		var xs []string
		for i := range cs.Ins {
			xs = append(xs, l(i))
		}
		return strings.TrimSpace("(concat " + strings.Join(xs, " ") + ")")
	}
	return fmt.Sprintf("(%s %s)", cs.Fn, l(0))
}

// the real package
func c13Real[T cmp.Ordered](t *c13T[T], cs *c13Case) (out string) {
	defer func() {
		if r := recover(); r != nil {
			out = "PANIC " + c12PanicName(r)
			if strings.Contains(out, "harness") {
				panic(r)
			}
		}
	}()
	a := make([][]T, len(cs.Ins))
	for i := range cs.Ins {
		a[i] = t.arg(cs.Ins[i])
	}
	p := cs.P
	okL := func(s []T) string { return "OK " + c12RenderInts(t.encs(s)) }
	okI := func(s []int) string { return "OK " + c12RenderInts(s) }
	switch cs.Fn {
	case "length":
		return fmt.Sprintf("OK %d", slice.Length(a[0]))
	case "len":
		return fmt.Sprintf("OK %d", slice.Len(a[0]))
	case "new":
		return okL(slice.New[T]())
	case "item":
		return fmt.Sprintf("OK %d", t.enc(slice.Item(p.N, a[0])))
	case "isempty":
		return fmt.Sprintf("OK %v", slice.IsEmpty(a[0]))
	case "isnotempty":
		return fmt.Sprintf("OK %v", slice.IsNotEmpty(a[0]))
	case "last":
		return fmt.Sprintf("OK %d", t.enc(slice.Last(a[0])))
	case "head":
		return fmt.Sprintf("OK %d", t.enc(slice.Head(a[0])))
	case "tail":
		return okL(slice.Tail(a[0]))
	case "take":
		return okL(slice.Take(p.N, a[0]))
	case "poplast":
		return okL(slice.PopLast(a[0]))
	case "skip":
		return okL(slice.Skip(p.N, a[0]))
	case "map":
		f := famFn(p.Cb, p.K)
		return okI(slice.Map(func(x T) int { return f(t.enc(x)) }, a[0]))
	case "mapi":
		f := famFni(p.Cb, p.K)
		return okI(slice.Mapi(func(i int, x T) int { return f(i, t.enc(x)) }, a[0]))
	case "iter":
		log := []int{}
		slice.Iter(func(x T) { log = append(log, t.enc(x)) }, a[0])
		return okI(log)
	case "filter":
		f := famPred(p.Cb, p.K, p.R)
		return okL(slice.Filter(func(x T) bool { return f(t.enc(x)) }, a[0]))
	case "sort":
		return okL(slice.Sort(a[0]))
	case "sortby":
		f := famKey(p.Cb, p.K)
		return okL(slice.SortBy(func(x T) int { return f(t.enc(x)) }, a[0]))
	case "zip":
		z := slice.Zip(a[0], a[1])
		ps := make([]c12Pair, len(z))
		for i, e := range z {
			ps[i] = frt.NewTuple2(t.enc(e.E0), t.enc(e.E1))
		}
		return "OK " + c12RenderPairs(ps)
	case "forall":
		f := famPred(p.Cb, p.K, p.R)
		return fmt.Sprintf("OK %v", slice.Forall(func(x T) bool { return f(t.enc(x)) }, a[0]))
	case "forany":
		f := famPred(p.Cb, p.K, p.R)
		return fmt.Sprintf("OK %v", slice.Forany(func(x T) bool { return f(t.enc(x)) }, a[0]))
	case "pushlast":
		return okL(slice.PushLast(t.dec(p.X), a[0]))
	case "pushhead":
		return okL(slice.PushHead(t.dec(p.X), a[0]))
	case "collect":
		g := famGen(p.Cb, p.K)
		return okL(slice.Collect(func(x T) []T {
			r := g(t.enc(x))
			o := make([]T, len(r))
			for i, y := range r {
				o[i] = t.dec(y)
			}
			return o
		}, a[0]))
	case "concat":
		return okL(slice.Concat(a))
	case "append":
		return okL(slice.Append(a[0], a[1]))
	case "distinct":
		return okL(slice.Distinct(a[0]))
	case "tryfind":
		f := famPred(p.Cb, p.K, p.R)
		r := slice.TryFind(func(x T) bool { return f(t.enc(x)) }, a[0])
		return fmt.Sprintf("OK (%d %v)", t.enc(r.E0), r.E1)
	case "fold":
		f := famFold(p.Cb, p.K)
		return fmt.Sprintf("OK %d", slice.Fold(func(s int, x T) int { return f(s, t.enc(x)) }, p.Ini, a[0]))
	}
	panic("harness: c13Real " + cs.Fn)
}

// the List specification, computed independently on the encoded ints. For sortby it returns "" (the
// result is not unique) and c13SortedPerm decides.
func c13Spec(cs *c13Case) string {
	p := cs.P
	var l []int
	if len(cs.Ins) > 0 {
		l = cs.Ins[0]
	}
	n := len(l)
	okI := func(s []int) string { return "OK " + c12RenderInts(s) }
	switch cs.Fn {
	case "length", "len":
		return fmt.Sprintf("OK %d", n)
	case "new":
		return "OK ()"
	case "item":
		if p.N < 0 || p.N >= n {
			return "PANIC index"
		}
		return fmt.Sprintf("OK %d", l[p.N])
	case "isempty":
		return fmt.Sprintf("OK %v", n == 0)
	case "isnotempty":
		return fmt.Sprintf("OK %v", n != 0)
	case "last":
		if n == 0 {
			return "PANIC index"
		}
		return fmt.Sprintf("OK %d", l[n-1])
	case "head":
		if n == 0 {
			return "PANIC head"
		}
		return fmt.Sprintf("OK %d", l[0])
	case "tail":
		if n == 0 {
			return "PANIC tail"
		}
		return okI(l[1:])
	case "poplast":
		if n == 0 {
			return "PANIC bounds"
		}
		return okI(l[:n-1])
	case "take": // firstn for 0 <= num <= len; nothing for negative num; beyond the end: index panic
		if p.N > n {
			return "PANIC index"
		}
		if p.N <= 0 {
			return "OK ()"
		}
		return okI(l[:p.N])
	case "skip": // skipn for 0 <= count; nothing when count >= len; a negative count indexes s[count]
		if p.N >= n {
			return "OK ()"
		}
		if p.N < 0 {
			return "PANIC index"
		}
		return okI(l[p.N:])
	case "map":
		f := famFn(p.Cb, p.K)
		r := []int{}
		for _, x := range l {
			r = append(r, f(x))
		}
		return okI(r)
	case "mapi":
		f := famFni(p.Cb, p.K)
		r := []int{}
		for i, x := range l {
			r = append(r, f(i, x))
		}
		return okI(r)
	case "iter":
		return okI(l)
	case "filter":
		f := famPred(p.Cb, p.K, p.R)
		r := []int{}
		for _, x := range l {
			if f(x) {
				r = append(r, x)
			}
		}
		return okI(r)
	case "sort":
		r := append([]int{}, l...)
		sort.Ints(r)
		return okI(r)
	case "sortby":
		return ""
	case "zip":
		if len(cs.Ins[0]) != len(cs.Ins[1]) {
			return "PANIC zip"
		}
		ps := []c12Pair{}
		for i := range l {
			ps = append(ps, frt.NewTuple2(l[i], cs.Ins[1][i]))
		}
		return "OK " + c12RenderPairs(ps)
	case "forall":
		f := famPred(p.Cb, p.K, p.R)
		r := true
		for _, x := range l {
			r = r && f(x)
		}
		return fmt.Sprintf("OK %v", r)
	case "forany":
		f := famPred(p.Cb, p.K, p.R)
		r := false
		for _, x := range l {
			r = r || f(x)
		}
		return fmt.Sprintf("OK %v", r)
	case "pushlast":
		return okI(append(append([]int{}, l...), p.X))
	case "pushhead":
		return okI(append([]int{p.X}, l...))
	case "collect":
		g := famGen(p.Cb, p.K)
		r := []int{}
		for _, x := range l {
			r = append(r, g(x)...)
		}
		return okI(r)
	case "concat":
		r := []int{}
		for _, s := range cs.Ins {
			r = append(r, s...)
		}
		return okI(r)
	case "append":
		return okI(append(append([]int{}, l...), cs.Ins[1]...))
	case "distinct": // first occurrences, in order
		r := []int{}
		for i, x := range l {
			first := true
			for _, y := range l[:i] {
				if y == x {
					first = false
				}
			}
			if first {
				r = append(r, x)
			}
		}
		return okI(r)
	case "tryfind":
		f := famPred(p.Cb, p.K, p.R)
		for _, x := range l {
			if f(x) {
				return fmt.Sprintf("OK (%d true)", x)
			}
		}
		return "OK (0 false)"
	case "fold":
		f := famFold(p.Cb, p.K)
		s := p.Ini
		for _, x := range l {
			s = f(s, x)
		}
		return fmt.Sprintf("OK %d", s)
	}
	panic("harness: c13Spec " + cs.Fn)
}

func c13ParseInts(s string) ([]int, bool) {
	if !strings.HasPrefix(s, "OK (") || !strings.HasSuffix(s, ")") {
		return nil, false
	}
	r := []int{}
	for _, f := range strings.Fields(s[4 : len(s)-1]) {
		var x int
		if _, err := fmt.Sscanf(f, "%d", &x); err != nil {
			return nil, false
		}
		r = append(r, x)
	}
	return r, true
}

// out is ascending by key and a permutation of inp
func c13SortedPerm(key func(int) int, inp, out []int) bool {
	if len(inp) != len(out) {
		return false
	}
	for i := 1; i < len(out); i++ {
		if key(out[i-1]) > key(out[i]) {
			return false
		}
	}
	cnt := map[int]int{}
	for _, x := range inp {
		cnt[x]++
	}
	for _, x := range out {
		cnt[x]--
	}
	for _, n := range cnt {
		if n != 0 {
			return false
		}
	}
	return true
}

type c13Fail struct {
	name, summary string
	replay        map[string]any
	noInput       bool
	size          int
}

// returns nil when implementation, specification and model agree
func c13RunCase(c *Ctx, or *Oracle, cs *c13Case) *c13Fail {
	var got string
	if cs.Type == "string" {
		got = c13Real(c13Str, cs)
	} else {
		got = c13Real(c13Int, cs)
	}
	req := c13Sexp(cs)
	nontrivial := false
	for _, l := range cs.Ins {
		if len(l) > 0 {
			nontrivial = true
		}
	}
	c.Eval(cs.Type+" "+req, nontrivial)
	c.Count("fn=" + cs.Fn)
	c.Count("type=" + cs.Type)
	if strings.HasPrefix(got, "PANIC") {
		c.Count("outcome=" + got)
	} else {
		c.Count("outcome=OK")
	}
	c.Compared(1)
	var propBad, corrBad string
	if cs.Fn == "sortby" {
		out, ok := c13ParseInts(got)
		if !ok || !c13SortedPerm(famKey(cs.P.Cb, cs.P.K), cs.Ins[0], out) {
			propBad = "SortBy did not return an ascending (by key) permutation of its argument"
		}
		if ok {
			m := or.Ask("C13", fmt.Sprintf("(sortcheck %s %s %s)", famCbSexp(cs.P.Cb, cs.P.K, cs.P.R), c12RenderInts(cs.Ins[0]), c12RenderInts(out)))
			if m != "OK true" && propBad == "" {
				corrBad = "Coq's sorted_permb rejects an output the Go check accepts"
			}
			if m == "OK true" && propBad != "" {
				corrBad = "Coq's sorted_permb accepts an output the Go check rejects"
			}
		}
	} else {
		want := c13Spec(cs)
		model := or.Ask("C13", req)
		// outside the domain (the specification panics) the property is silent: which panic it is does
		// not matter, and a call that returns instead of panicking only breaks the correspondence
		pn := func(x string) string {
			if strings.HasPrefix(x, "PANIC") {
				return "PANIC"
			}
			return x
		}
		if pn(got) == "PANIC" && pn(want) == "PANIC" && got != want {
			c.Count("out_of_domain_panic_kind_differs")
			got, model = want, pn(model)
			if model == "PANIC" {
				model = want
			}
		}
		if got != want && pn(want) == "PANIC" {
			corrBad = fmt.Sprintf("%s returned %s on an input outside its domain, where the model and the Go-side specification panic (%s)", cs.Fn, got, want)
		} else if got != want {
			propBad = fmt.Sprintf("%s returned %s, its List specification gives %s (model: %s)", cs.Fn, got, want, model)
		} else if got != model {
			corrBad = fmt.Sprintf("%s returned %s (= the Go-side specification), the model says %s", cs.Fn, got, model)
		}
	}
	size := 0
	for _, l := range cs.Ins {
		size += 1 + len(l)
	}
	if propBad != "" {
		c.Disagree()
		return &c13Fail{"prop-" + cs.Fn, fmt.Sprintf("%s %s: %s", cs.Type, req, propBad), map[string]any{"case": cs, "request": req, "got": got}, false, size}
	} else if corrBad != "" {
		c.Disagree()
		return &c13Fail{"corr-" + cs.Fn, fmt.Sprintf("correspondence model vs pkg/slice broke on %s %s: %s", cs.Type, req, corrBad),
			map[string]any{"broken": "correspondence C13 (Pkg/SliceHeap.v) vs pkg/slice", "case": cs, "request": req, "got": got}, true, size}
	}
	return nil
}

// the smallest failing inputs first (the exhaustive small scope makes shrinking unnecessary)
func c13Report(c *Ctx, fails []*c13Fail) {
	sort.SliceStable(fails, func(i, j int) bool {
		if fails[i].noInput != fails[j].noInput {
			return !fails[i].noInput
		}
		return fails[i].size < fails[j].size
	})
	seen := map[string]int{}
	for _, f := range fails {
		if seen[f.name] >= 1 {
			continue
		}
		seen[f.name]++
		c.Violate(f.name, f.summary, f.replay, f.noInput)
	}
}

// ---------------------------------------------------------------- case generation

var c13Maps = []c13P{{Cb: "addk", K: 1}, {Cb: "addk", K: -2}, {Cb: "mulk", K: 2}, {Cb: "mulk", K: -1}, {Cb: "neg"},
	{Cb: "const", K: 7}, {Cb: "modk", K: 2}, {Cb: "modk", K: 3}}
var c13Mapis = []c13P{{Cb: "addidx"}, {Cb: "muladd", K: 2}, {Cb: "muladd", K: -1}, {Cb: "idx"}}
var c13Preds = []c13P{{Cb: "gtk", K: 0}, {Cb: "gtk", K: 1}, {Cb: "ltk", K: 2}, {Cb: "eqk", K: 1}, {Cb: "eqk", K: -3},
	{Cb: "modeq", K: 2, R: 0}, {Cb: "modeq", K: 2, R: 1}, {Cb: "modeq", K: 2, R: -1}, {Cb: "true"}, {Cb: "false"}}
var c13Folds = []c13P{{Cb: "sum"}, {Cb: "sub"}, {Cb: "horner", K: 2}, {Cb: "horner", K: 3}, {Cb: "count"}, {Cb: "last"}}
var c13Keys = []c13P{{Cb: "id"}, {Cb: "neg"}, {Cb: "modk", K: 2}, {Cb: "modk", K: 3}, {Cb: "abs"}}
var c13GensInt = []c13P{{Cb: "rep", K: 0}, {Cb: "rep", K: 2}, {Cb: "range"}, {Cb: "empty"}, {Cb: "selfneg"}}
var c13GensStr = []c13P{{Cb: "rep", K: 0}, {Cb: "rep", K: 2}, {Cb: "empty"}, {Cb: "rep", K: 1}}

func c13AllSlices(alpha []int, maxLen int) [][]int {
	out := [][]int{{}}
	prev := [][]int{{}}
	for n := 1; n <= maxLen; n++ {
		var cur [][]int
		for _, p := range prev {
			for _, a := range alpha {
				cur = append(cur, append(append([]int{}, p...), a))
			}
		}
		out = append(out, cur...)
		prev = cur
	}
	return out
}

// every one-argument call on l
func c13Unary(typ string, l []int, alpha []int, margin int, emit func(*c13Case)) {
	one := func(fn string, p c13P) { emit(&c13Case{Type: typ, Fn: fn, P: p, Ins: [][]int{l}}) }
	for _, fn := range []string{"length", "len", "isempty", "isnotempty", "last", "head", "tail", "poplast", "iter", "sort", "distinct"} {
		one(fn, c13P{})
	}
	for n := -margin; n <= len(l)+margin; n++ {
		one("item", c13P{N: n})
		one("take", c13P{N: n})
		one("skip", c13P{N: n})
	}
	for _, p := range c13Maps {
		one("map", p)
	}
	for _, p := range c13Mapis {
		one("mapi", p)
	}
	for _, p := range c13Preds {
		one("filter", p)
		one("forall", p)
		one("forany", p)
		one("tryfind", p)
	}
	for _, p := range c13Folds {
		for _, ini := range []int{0, 5} {
			q := p
			q.Ini = ini
			one("fold", q)
		}
	}
	for _, p := range c13Keys {
		one("sortby", p)
	}
	for _, x := range alpha {
		one("pushlast", c13P{X: x})
		one("pushhead", c13P{X: x})
	}
	gens := c13GensInt
	if typ == "string" {
		gens = c13GensStr
	}
	for _, p := range gens {
		one("collect", p)
	}
}

func c13Random(rng *Rng, typ string) *c13Case {
	val := func() int {
		if typ == "string" {
			return rng.Intn(len(c13Strs))
		}
		if rng.Chance(1, 3) {
			return rng.Intn(5) - 2 // duplicates
		}
		return rng.Intn(41) - 20
	}
	sl := func(maxLen int) []int {
		n := rng.Intn(maxLen + 1)
		l := make([]int, n)
		for i := range l {
			l[i] = val()
		}
		switch rng.Intn(6) {
		case 0:
			sort.Ints(l)
		case 1:
			sort.Sort(sort.Reverse(sort.IntSlice(l)))
		}
		return l
	}
	l := sl(40)
	if rng.Chance(1, 12) {
		// long inputs: implementations may switch strategy on size (a "fast path" for short slices)
		l = sl(300)
		for len(l) < 70 {
			l = append(l, val())
		}
	}
	fns := []string{"length", "len", "isempty", "isnotempty", "last", "head", "tail", "poplast", "iter", "sort", "sort", "distinct", "distinct",
		"item", "take", "take", "skip", "skip", "map", "mapi", "filter", "forall", "forany", "tryfind", "fold", "sortby", "sortby", "sortby",
		"pushlast", "pushhead", "collect", "zip", "append", "concat"}
	cs := &c13Case{Type: typ, Fn: Choose(rng, fns), Ins: [][]int{l}}
	switch cs.Fn {
	case "item", "take", "skip":
		cs.P.N = rng.Intn(len(l)+5) - 2
	case "map":
		cs.P = Choose(rng, c13Maps)
	case "mapi":
		cs.P = Choose(rng, c13Mapis)
	case "filter", "forall", "forany", "tryfind":
		cs.P = Choose(rng, c13Preds)
		if rng.Chance(1, 2) {
			cs.P = c13P{Cb: Choose(rng, []string{"gtk", "ltk", "eqk"}), K: val()}
		}
	case "fold":
		cs.P = Choose(rng, c13Folds)
		cs.P.Ini = rng.Intn(7) - 3
	case "sortby":
		cs.P = Choose(rng, c13Keys)
		if rng.Chance(1, 3) {
			cs.P = c13P{Cb: "modk", K: 2 + rng.Intn(5)}
		}
	case "pushlast", "pushhead":
		cs.P.X = val()
	case "collect":
		if typ == "string" {
			cs.P = Choose(rng, c13GensStr)
		} else {
			cs.P = Choose(rng, c13GensInt)
		}
	case "zip":
		l2 := sl(40)
		if rng.Chance(3, 4) { // mostly equal lengths
			for len(l2) < len(l) {
				l2 = append(l2, val())
			}
			l2 = l2[:len(l)]
		}
		cs.Ins = append(cs.Ins, l2)
	case "append":
		cs.Ins = append(cs.Ins, sl(40))
	case "concat":
		k := rng.Intn(6)
		cs.Ins = [][]int{}
		for i := 0; i < k; i++ {
			cs.Ins = append(cs.Ins, sl(12))
		}
	}
	return cs
}

func runC13(c *Ctx) {
	sliceInventory(c)
	c.Res.Rule = "every function of pkg/slice on all int and string slices of length <= 4 over a 3-value alphabet (exhaustive; " +
		"two-argument functions on all pairs of them, Concat on all lists of <= 3 slices of length <= 2), every index/count from " +
		"-2 to len+2, every callback of the shared family; plus random slices up to length 40, one in twelve of length 70..300 (sorted, reversed, with duplicates); " +
		"arguments are sub-slices of a larger array (offset 1, spare capacity 1); non-trivial = some argument slice is non-empty; " +
		"distinct by (element type, oracle request)"
	if c.Replay != "" {
		b, err := os.ReadFile(c.Replay)
		if err != nil {
			panic(err)
		}
		var f struct {
			Replay struct {
				Case c13Case `json:"case"`
			} `json:"replay"`
		}
		if err := json.Unmarshal(b, &f); err != nil {
			panic(err)
		}
		if f := c13RunCase(c, c.Oracle(), &f.Replay.Case); f != nil {
			c13Report(c, []*c13Fail{f})
		}
		return
	}
	var cases []*c13Case
	emit := func(cs *c13Case) { cases = append(cases, cs) }
	for _, typ := range []string{"int", "string"} {
		alpha := []int{-3, 1, 2}
		if typ == "string" {
			alpha = []int{1, 3, 4} // "a", "ab", "b"
		}
		all := c13AllSlices(alpha, 4)
		emit(&c13Case{Type: typ, Fn: "new", Ins: [][]int{}})
		for _, l := range all {
			c13Unary(typ, l, alpha, 2, emit)
			for _, l2 := range all {
				emit(&c13Case{Type: typ, Fn: "zip", Ins: [][]int{l, l2}})
				emit(&c13Case{Type: typ, Fn: "append", Ins: [][]int{l, l2}})
			}
		}
		small := c13AllSlices(alpha, 2)
		emit(&c13Case{Type: typ, Fn: "concat", Ins: [][]int{}})
		for _, a := range small {
			emit(&c13Case{Type: typ, Fn: "concat", Ins: [][]int{a}})
			for _, b := range small {
				emit(&c13Case{Type: typ, Fn: "concat", Ins: [][]int{a, b}})
				for _, d := range small {
					emit(&c13Case{Type: typ, Fn: "concat", Ins: [][]int{a, b, d}})
				}
			}
		}
	}
	c.Res.Exhaustive = true
	c.CountN("exhaustive_cases", len(cases))
	rng := NewRng(c.Seed)
	nr := c.Pick(40000, 1500000)
	c.CountN("random_cases", nr)
	for i := 0; i < len(cases); i += len(cases)/4 + 1 {
		c.Sample(map[string]any{"case": cases[i], "request": c13Sexp(cases[i])})
	}
	workers := 12
	chunk := (len(cases) + workers - 1) / workers
	rngs := make([]*Rng, workers)
	for w := range rngs {
		rngs[w] = rng.Fork()
	}
	fails := make([][]*c13Fail, workers)
	Parallel(workers, func(w int) {
		or := c.NewOracle()
		defer or.Close()
		run := func(cs *c13Case) {
			if f := c13RunCase(c, or, cs); f != nil && len(fails[w]) < 200 {
				fails[w] = append(fails[w], f)
			}
		}
		for i := w * chunk; i < (w+1)*chunk && i < len(cases); i++ {
			run(cases[i])
		}
		// random cases are generated per worker from a forked stream (reproducible, nothing kept in memory)
		for i := w; i < nr; i += workers {
			typ := "int"
			if i%3 == 2 {
				typ = "string"
			}
			cs := c13Random(rngs[w], typ)
			if i < 2 {
				c.Sample(map[string]any{"case": cs, "request": c13Sexp(cs)})
			}
			run(cs)
		}
	})
	var all []*c13Fail
	for _, fs := range fails {
		all = append(all, fs...)
	}
	c13Report(c, all)
}

func init() { Register("C13", runC13) }
