module vh

go 1.23.4
