// development copy only: bin/check writes its own go.mod (replace -> scratch tree) next to a copy of these sources
module vh

go 1.23.4

require (
	github.com/karino2/folang/pkg/buf v0.0.0
	github.com/karino2/folang/pkg/dict v0.0.0
	github.com/karino2/folang/pkg/frt v0.0.0
	github.com/karino2/folang/pkg/slice v0.0.0
	github.com/karino2/folang/pkg/strings v0.0.0
	github.com/karino2/folang/pkg/sys v0.0.0
)

require github.com/google/go-cmp v0.6.0 // indirect

replace github.com/karino2/folang/pkg/frt => /repo/pkg/frt

replace github.com/karino2/folang/pkg/slice => /repo/pkg/slice

replace github.com/karino2/folang/pkg/dict => /repo/pkg/dict

replace github.com/karino2/folang/pkg/strings => /repo/pkg/strings

replace github.com/karino2/folang/pkg/buf => /repo/pkg/buf

replace github.com/karino2/folang/pkg/sys => /repo/pkg/sys
