package main

// The execution pipeline shared by C01 and C17: many generated programs -> Folang text with a
// per-program suffix on every top-level name -> transpiler (each program on its own) -> ONE Go package
// (one gen_pN.go per program plus a driver main.go printing separator lines) -> one `go build`, one run.
//
// Measured alternatives (200 default-profile programs, this VM): one package directory main_<i> per
// program under one go.mod and `go build ./...` costs ~3 s per program (200 link steps: 10 min for
// 200 programs); the single package costs one compile + one link (~4-8 s for 150 programs) and one
// process for the run. So the single package is the fast path; a batch whose build fails is repaired
// by dropping the files the compiler names and rebuilding.

import (
	"fmt"
	"os"
	"path/filepath"
	"regexp"
	"strings"
	"time"
)

type progCase struct {
	Idx    int
	P      *Prog
	Origin string // "gen", "corpus:<file>", "hazard:<key>", "shrink"
	Suffix string
	Src    string     // Folang text as given to the transpiler
	Expect EvalResult // reference interpreter (or RawOut)
	GoSrc  string
	FcErr  string // transpiler rejected / died
	Build  string // go build diagnostics attributed to this program
	Ran    bool
	Out    string
	Panic  string // runtime panic message, "crash" (process died) or "timeout"
}

func (pc *progCase) expectOut() string {
	if pc.P.RawFo != "" {
		return pc.P.RawOut
	}
	return pc.Expect.Out
}

// verdict: "" when the Go program compiled and printed exactly the expected output; else the class.
func (pc *progCase) verdict() string {
	switch {
	case pc.FcErr != "":
		return "reject"
	case pc.Build != "":
		return "build"
	case pc.Panic != "":
		return "panic"
	case !pc.Ran:
		return "notrun"
	case pc.Out != pc.expectOut():
		return "output"
	}
	return ""
}

func prepCase(idx int, p *Prog, origin string, ownPkgInfo bool) *progCase {
	pc := &progCase{Idx: idx, P: p, Origin: origin, Suffix: fmt.Sprintf("Q%d", idx)}
	if p.RawFo != "" {
		// raw programs cannot be renamed: they run in a batch of their own
		pc.Suffix = ""
		pc.Src = p.RawFo
		pc.Expect = EvalResult{Out: p.RawOut}
		return pc
	}
	pc.Src = ToFolangOpts(p, PrintOpts{Suffix: pc.Suffix, MainName: "main" + pc.Suffix, OwnPkgInfo: ownPkgInfo, Tiny: ownPkgInfo, OmitParens: p.OmitParens || len(p.ToSexp())%2 == 1})
	pc.Expect = Eval(p, 400000)
	return pc
}

type transpileFn func(pc *progCase) (goSrc string, errMsg string)

// groupTranspileFn transpiles all cases of a batch at once (process-based transpilers: several files
// per process); it fills GoSrc / FcErr.
type groupTranspileFn func(dir string, cases []*progCase)

// fcsrvTranspiler: the hooked in-process fc with the real pkg_all.foi in front of every program.
// The in-process server gets a package_info text holding exactly the functions of the FORMAT.md
// table (parsing all of pkg_all.foi costs more than transpiling a typical program); the real fc
// process of every batch gets the tree's pkg_all.foi and its output is compared byte for byte.
func fcsrvTranspiler(c *Ctx, pool *FcPool, withFoi bool) transpileFn {
	foi := []byte(tablePackageInfo())
	fullFoi, err := os.ReadFile(c.PkgAllFoi())
	if err != nil {
		panic(err)
	}
	if os.Getenv("VH_FULL_FOI") != "" {
		foi = fullFoi
	}
	return func(pc *progCase) (string, string) {
		s := pool.Get()
		defer pool.Put(s)
		name := fmt.Sprintf("p%d.fo", pc.Idx)
		var r srvResp
		if withFoi && pc.P.RawFo != "" {
			// hand-written text (repo samples, raw hazard programs) may use any library function
			r = s.Transpile(SrcFile{"pkg_all.foi", string(fullFoi)}, SrcFile{name, pc.Src})
		} else if withFoi {
			r = s.Transpile(SrcFile{"pkg_all.foi", string(foi)}, SrcFile{name, pc.Src})
		} else {
			r = s.Transpile(SrcFile{name, pc.Src})
		}
		if r.Died {
			return "", "fc died: " + r.Err
		}
		if !r.Ok {
			return "", "fc: " + r.Err
		}
		return r.Outs["gen_p"+fmt.Sprint(pc.Idx)+".go"], ""
	}
}

var buildFileRe = regexp.MustCompile(`(?m)^(?:\./)?(gen_p(\d+)\.go):\d+`)

const sepByte = "\x01"

func driverSource(cases []*progCase) string {
	var b strings.Builder
	b.WriteString("package main\n\nimport (\n\t\"fmt\"\n\t\"os\"\n\t\"strconv\"\n)\n\n")
	b.WriteString("func runOne(tag string, f func()) {\n\tfmt.Print(\"\\x01BEGIN \" + tag + \"\\n\")\n" +
		"\tdefer func() {\n\t\tif r := recover(); r != nil {\n\t\t\tfmt.Print(\"\\x01PANIC \" + fmt.Sprint(r) + \"\\n\")\n\t\t}\n\t\tfmt.Print(\"\\x01END \" + tag + \"\\n\")\n\t}()\n\tf()\n}\n\n")
	b.WriteString("func main() {\n\tstart := 0\n\tif len(os.Args) > 1 {\n\t\tstart, _ = strconv.Atoi(os.Args[1])\n\t}\n")
	for k, pc := range cases {
		fmt.Fprintf(&b, "\tif start <= %d {\n\t\trunOne(\"%d\", main%s)\n\t}\n", k, pc.Idx, pc.Suffix)
	}
	b.WriteString("}\n")
	return b.String()
}

// runBatch transpiles, builds and runs the cases in dir (created, removed afterwards unless keep).
func runBatch(c *Ctx, dir string, cases []*progCase, tr transpileFn, keep bool, transpileOnly bool) {
	runBatchG(c, dir, cases, tr, nil, keep, transpileOnly)
}

func runBatchG(c *Ctx, dir string, cases []*progCase, tr transpileFn, gtr groupTranspileFn, keep bool, transpileOnly bool) {
	os.MkdirAll(dir, 0o755)
	if !keep {
		defer os.RemoveAll(dir)
	}
	// raw programs (own `main`) go alone
	if len(cases) == 1 && cases[0].P.RawFo != "" {
		runRaw(c, dir, cases[0], tr, gtr)
		return
	}
	os.MkdirAll(dir, 0o755)
	t0 := time.Now()
	lap := func(name string) {
		c.CountN("ms_"+name, int(time.Since(t0).Milliseconds()))
		t0 = time.Now()
	}
	if gtr != nil {
		gtr(dir, cases)
	} else {
		Parallel(len(cases), func(i int) {
			pc := cases[i]
			pc.GoSrc, pc.FcErr = tr(pc)
		})
	}
	for _, pc := range cases {
		if pc.FcErr == "" && strings.TrimSpace(pc.GoSrc) == "" {
			pc.FcErr = "transpiler produced no output"
		}
	}
	lap("transpile")
	if transpileOnly {
		return
	}
	var live []*progCase
	for _, pc := range cases {
		if pc.FcErr == "" {
			MustWrite(filepath.Join(dir, fmt.Sprintf("gen_p%d.go", pc.Idx)), pc.GoSrc)
			live = append(live, pc)
		}
	}
	if len(live) == 0 {
		return
	}
	c.GoModFor(dir, "batch")
	for round := 0; ; round++ {
		MustWrite(filepath.Join(dir, "main.go"), driverSource(live))
		out, ok := goBuildFast(dir)
		if ok {
			break
		}
		bad := map[int]bool{}
		for _, m := range buildFileRe.FindAllStringSubmatch(out, -1) {
			var id int
			fmt.Sscan(m[2], &id)
			bad[id] = true
		}
		if len(bad) == 0 || round > 6 {
			// cannot attribute: every program of the batch carries the diagnostic
			for _, pc := range live {
				pc.Build = "unattributed: " + out
			}
			return
		}
		var next []*progCase
		for _, pc := range live {
			if bad[pc.Idx] {
				var lines []string
				for _, l := range strings.Split(out, "\n") {
					if strings.Contains(l, fmt.Sprintf("gen_p%d.go:", pc.Idx)) {
						lines = append(lines, l)
					}
				}
				pc.Build = strings.Join(lines, "\n")
				os.Remove(filepath.Join(dir, fmt.Sprintf("gen_p%d.go", pc.Idx)))
			} else {
				next = append(next, pc)
			}
		}
		live = next
		if len(live) == 0 {
			return
		}
	}
	lap("go_build")
	defer lap("run")
	// run; a crash (fatal error, os.Exit) or hang loses the rest: restart after the culprit
	start := 0
	for start < len(live) {
		r := Run(dir, 60*time.Second, 0, nil, filepath.Join(dir, "prog"), fmt.Sprint(start))
		rest := r.Stdout
		progressed := false
		for k := start; k < len(live); k++ {
			pc := live[k]
			begin := fmt.Sprintf("%sBEGIN %d\n", sepByte, pc.Idx)
			end := fmt.Sprintf("%sEND %d\n", sepByte, pc.Idx)
			i := strings.Index(rest, begin)
			if i < 0 {
				break
			}
			rest = rest[i+len(begin):]
			j := strings.Index(rest, end)
			if j < 0 {
				// died inside this program
				pc.Ran = true
				pc.Out = rest
				if r.TimedOut {
					pc.Panic = "timeout"
				} else {
					pc.Panic = "crash: " + strings.SplitN(r.Stderr, "\n", 2)[0]
				}
				start = k + 1
				progressed = true
				break
			}
			body := rest[:j]
			rest = rest[j+len(end):]
			pc.Ran = true
			if pi := strings.Index(body, sepByte+"PANIC "); pi >= 0 {
				pc.Panic = strings.TrimSpace(body[pi+len(sepByte+"PANIC "):])
				body = body[:pi]
			}
			pc.Out = body
			start = k + 1
			progressed = true
		}
		if !progressed {
			break
		}
	}
}

// goBuildFast: optimisations and inlining off (-N -l) for the generated package only: ~40% less compile time.
func goBuildFast(dir string) (string, bool) {
	r := Run(dir, 600*time.Second, 0, goEnv, "go", "build", "-gcflags=-N -l -e", "-o", "prog", ".")
	if r.Exit != 0 {
		return r.Stdout + r.Stderr, false
	}
	return "", true
}

// runRaw: a program with its own `main` (hazard classes outside MiniFo), alone in a package.
func runRaw(c *Ctx, dir string, pc *progCase, tr transpileFn, gtr groupTranspileFn) {
	if gtr != nil {
		gtr(dir, []*progCase{pc}) // a group transpiler (tinyfo processes) fills GoSrc / FcErr itself
	} else {
		pc.GoSrc, pc.FcErr = tr(pc)
	}
	if pc.FcErr != "" {
		return
	}
	MustWrite(filepath.Join(dir, fmt.Sprintf("gen_p%d.go", pc.Idx)), pc.GoSrc)
	c.GoModFor(dir, "batch")
	if out, ok := c.GoBuild(dir); !ok {
		pc.Build = out
		return
	}
	r := Run(dir, 30*time.Second, 0, nil, filepath.Join(dir, "prog"))
	pc.Ran = true
	pc.Out = r.Stdout
	if r.Exit != 0 {
		pc.Panic = "exit " + fmt.Sprint(r.Exit) + ": " + firstLine(r.Stderr)
	}
}
