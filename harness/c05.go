package main

// C05: transpilation is deterministic. Programs built to put >= 2 entries into every dictionary the
// transpiler enumerates (several records incl. ones with identical field sets, unions with complete /
// defaulted / incomplete matches, several package_info blocks with functions and types, functions
// with many inference variables) are transpiled (a) repeatedly by the stock fc (Go's own map-order
// randomisation), (b) by fc built against a dict package whose Keys/Values/KVs return adversarial
// permutations (asc, desc, rotations, seeded shuffles), and output bytes + accept/reject compared.
// Record-literal resolution is additionally compared with the Coq model (Driver/Order.v).

import (
	"fmt"
	"os"
	"path/filepath"
	"regexp"
	"sort"
	"strings"
)

type c05Rec struct {
	Name   string   `json:"name"`
	Fields []string `json:"fields"`
}
type c05Prog struct {
	Src      string     `json:"src"`
	Recs     []c05Rec   `json:"records"`
	Literals [][]string `json:"literals"` // field sets of the mkN functions
	Reject   bool       `json:"expect_reject"`
}

func c05Gen(rng *Rng) *c05Prog {
	p := &c05Prog{}
	var b strings.Builder
	b.WriteString("package main\n\nimport frt\nimport slice\n\n")
	// package_info blocks
	npk := 1 + rng.Intn(3)
	for i := 0; i < npk; i++ {
		pk := fmt.Sprintf("pk%d", i)
		if i == 0 && rng.Bool() {
			pk = "_"
		}
		fmt.Fprintf(&b, "package_info %s =\n", pk)
		for j := 0; j < 2+rng.Intn(5); j++ {
			if rng.Chance(1, 4) {
				fmt.Fprintf(&b, "  type Ext%d_%d\n", i, j)
			}
			fmt.Fprintf(&b, "  let Fn%d_%d: %s\n", i, j, Choose(rng, []string{"int->int", "string->int->bool", "()->string", "[]int->int"}))
		}
		if rng.Bool() {
			fmt.Fprintf(&b, "  let Gen%d<T, U>: (T->U)->[]T->[]U\n", i)
		}
		b.WriteString("\n")
	}
	// records: groups sharing a field set
	fieldSets := [][]string{{"X", "Y"}, {"Name", "Age"}, {"A", "B", "C"}, {"V"}, {"Left", "Right"}}
	nrec := 0
	names := rng.Perm(26)
	for g := 0; g < 1+rng.Intn(3); g++ {
		fs := fieldSets[rng.Intn(len(fieldSets))]
		for k := 0; k < 1+rng.Intn(4); k++ {
			name := fmt.Sprintf("R%c%d", 'A'+names[nrec%26], nrec)
			nrec++
			order := rng.Perm(len(fs))
			var decl []string
			var fl []string
			for _, o := range order {
				decl = append(decl, fs[o]+": int")
				fl = append(fl, fs[o])
			}
			fmt.Fprintf(&b, "type %s = {%s}\n", name, strings.Join(decl, "; "))
			p.Recs = append(p.Recs, c05Rec{name, fl})
		}
	}
	b.WriteString("\n")
	// unions
	nun := 1 + rng.Intn(3)
	for u := 0; u < nun; u++ {
		fmt.Fprintf(&b, "type U%d =\n", u)
		nc := 2 + rng.Intn(4)
		for k := 0; k < nc; k++ {
			if rng.Bool() {
				fmt.Fprintf(&b, "  | C%d_%d of int\n", u, k)
			} else {
				fmt.Fprintf(&b, "  | C%d_%d\n", u, k)
			}
		}
		b.WriteString("\n")
		// a match: complete, with default, or (rarely) incomplete
		mode := rng.Intn(10)
		fmt.Fprintf(&b, "let m%d (u:U%d) =\n  match u with\n", u, u)
		arms := rng.Perm(nc)
		drop := 0
		if mode == 0 && !p.Reject {
			drop = 1 + rng.Intn(nc-1)
			p.Reject = true
		}
		for _, k := range arms[:nc-drop] {
			fmt.Fprintf(&b, "  | C%d_%d _ -> %d\n", u, k, k)
		}
		if mode >= 7 && drop == 0 {
			b.WriteString("  | _ -> 99\n")
		}
		b.WriteString("\n")
	}
	// ambiguous and unambiguous record literals
	for i, r := range p.Recs {
		if i%2 == 0 || rng.Bool() {
			order := rng.Perm(len(r.Fields))
			var parts, fl []string
			for _, o := range order {
				parts = append(parts, fmt.Sprintf("%s=%d", r.Fields[o], o))
				fl = append(fl, r.Fields[o])
			}
			fmt.Fprintf(&b, "let mk%d () =\n  {%s}\n\n", len(p.Literals), strings.Join(parts, "; "))
			p.Literals = append(p.Literals, fl)
		}
	}
	// generic records sharing a field set, and a literal only they match
	if rng.Bool() {
		gn := rng.Perm(26)
		for k := 0; k < 2+rng.Intn(3); k++ {
			fmt.Fprintf(&b, "type G%c%d<T> = {Key: string; Val: T}\n", 'A'+gn[k], k)
		}
		b.WriteString("\nlet mkg (k:string) =\n  {Key=k; Val=42}\n\n")
		if rng.Bool() {
			b.WriteString("let mkgs (k:string) =\n  let e = {Key=k; Val=\"v\"}\n  e.Key\n\n")
		}
	}
	// functions with many inference variables
	for i := 0; i < 1+rng.Intn(4); i++ {
		switch rng.Intn(4) {
		case 0:
			fmt.Fprintf(&b, "let tup%d a b c d = ((a, b), (c, d), [a; a])\n\n", i)
		case 1:
			fmt.Fprintf(&b, "let comp%d f g h x = h (g (f x))\n\n", i)
		case 2:
			fmt.Fprintf(&b, "let mp%d f xs ys = (slice.Map f xs, slice.Map f ys, slice.Length xs)\n\n", i)
		default:
			fmt.Fprintf(&b, "let sel%d a b c (flag:bool) =\n  if flag then\n    (a, b, c)\n  else\n    (a, b, c)\n\n", i)
		}
	}
	if rng.Bool() {
		// a function with four type parameters and a long body: many occurrences of each inference
		// variable (anything that orders them must be stable whatever their number)
		k := len(p.Literals)
		fmt.Fprintf(&b, "let lg%d a b c d =\n", k)
		for i := 0; i < 12; i++ {
			sh := [][3]string{{"a", "b", "c"}, {"b", "c", "d"}, {"c", "d", "a"}, {"d", "a", "b"}}[i%4]
			fmt.Fprintf(&b, "  let q%d = (%s, %s, %s)\n", i, sh[0], sh[1], sh[2])
		}
		b.WriteString("  let r0 = ((q0, q1, q2), (q3, q4, q5))\n  let r1 = ((q6, q7, q8), (q9, q10, q11))\n  (r0, r1, [a; a])\n\n")
	}
	p.Src = b.String()
	return p
}

var c05MkRe = regexp.MustCompile(`func mk(\d+)\(\) (\w+)\s*\{`)

func runC05(c *Ctx) {
	rng := NewRng(c.Seed)
	c.Res.Rule = "generated programs with >= 2 entries in every enumerated dictionary x (stock fc repeated, fc built against a permuting dict in modes asc/desc/rot1..3/rnd*); " +
		"one evaluation = one (program, order) transpilation; non-trivial = program has two records with the same field set or a union match; distinct by (source, order)"
	nprog := c.Pick(60, 1500)
	modes := []string{"asc", "desc", "rot1", "rot2", "rot3", "rnd1", "rnd2", "rnd3"}
	if c.Thorough() {
		for i := 4; i < 40; i++ {
			modes = append(modes, fmt.Sprintf("rnd%d", i))
		}
	}
	progs := make([]*c05Prog, nprog)
	for i := range progs {
		progs[i] = c05Gen(rng)
	}
	// corpus: the finding that was repaired
	progs = append([]*c05Prog{{Src: "package main\n\ntype B = {X: int; Y: int}\ntype C = {X: int; Y: int}\ntype A = {X: int; Y: int}\n\nlet mk0 () =\n  {X=1; Y=2}\n",
		Recs: []c05Rec{{"B", []string{"X", "Y"}}, {"C", []string{"X", "Y"}}, {"A", []string{"X", "Y"}}}, Literals: [][]string{{"X", "Y"}}}}, progs...)
	{
		// many root statements, each emitting a compiler temporary (a union match binding the payload):
		// anything that numbers them must not depend on scheduling
		var b strings.Builder
		b.WriteString("package main\n\ntype Sh =\n  | Ci of int\n  | Sq of int\n  | No\n\n")
		for i := 0; i < 72; i++ {
			fmt.Fprintf(&b, "let ar%d (s:Sh) =\n  match s with\n  | Ci r -> r * %d\n  | Sq w -> w + %d\n  | No -> 0\n\n", i, i+2, i)
		}
		progs = append([]*c05Prog{{Src: b.String()}}, progs...)
	}
	if c.Replay != "" {
		progs = c05LoadReplay(c.Replay)
	}
	type res struct {
		ok  bool
		out string
		err string
	}
	servers := []*FcSrv{}
	labels := []string{}
	for _, m := range modes {
		servers = append(servers, c.StartFcSrvBin("fcperm", "DICT_PERM="+m))
		labels = append(labels, "perm:"+m)
	}
	reps := c.Pick(4, 12)
	for i := 0; i < reps; i++ {
		servers = append(servers, c.StartFcSrv())
		labels = append(labels, fmt.Sprintf("stock:%d", i))
	}
	results := make([][]res, len(progs))
	for i := range results {
		results[i] = make([]res, len(servers))
	}
	Parallel(len(servers), func(si int) {
		for pi, p := range progs {
			r := servers[si].Transpile(SrcFile{"mini.foi", MiniFoiText}, SrcFile{"m.fo", p.Src})
			if r.Died {
				results[pi][si] = res{ok: false, err: "DIED"}
			} else {
				results[pi][si] = res{ok: r.Ok, out: r.Outs["gen_m.go"], err: r.Err}
			}
		}
	})
	for _, s := range servers {
		s.Close()
	}
	c.Lap("transpile")
	or := c.Oracle()
	for pi, p := range progs {
		same := map[string]bool{}
		for _, r := range p.Recs {
			k := append([]string{}, r.Fields...)
			sort.Strings(k)
			same[strings.Join(k, ",")] = true
		}
		nontrivial := len(same) < len(p.Recs) || strings.Contains(p.Src, "match")
		base := results[pi][0]
		for si, r := range results[pi] {
			c.Eval(fmt.Sprintf("%s|%s", p.Src, labels[si]), nontrivial)
			if r.ok != base.ok || r.out != base.out {
				c.Violate("order", fmt.Sprintf("output or accept/reject decision depends on the enumeration order (%s vs %s)", labels[0], labels[si]),
					map[string]any{"program": p, "order_a": labels[0], "order_b": labels[si], "ok_a": base.ok, "ok_b": r.ok,
						"err_a": base.err, "err_b": r.err, "first_difference": c04FirstDiff([]byte(base.out), []byte(r.out)),
						"how": "fc built against pkg/dict with Keys/Values/KVs permuted per $DICT_PERM (bin/permute_dict.py); stock = unmodified fc, repeated"}, false)
				break
			}
		}
		c.Count(fmt.Sprintf("accepted=%v", base.ok))
		if p.Reject {
			c.Count("has_incomplete_match")
		}
		if pi%25 == 3 {
			c.Sample(map[string]any{"source": p.Src, "accepted": base.ok, "orders": len(servers)})
		}
		// model: which record each literal resolves to
		if base.ok {
			names := []string{}
			for _, r := range p.Recs {
				names = append(names, r.Name)
			}
			sort.Strings(names)
			num := map[string]int{}
			for i, n := range names {
				num[n] = i + 1
			}
			fnum := map[string]int{}
			fid := func(f string) int {
				if _, ok := fnum[f]; !ok {
					fnum[f] = len(fnum) + 1
				}
				return fnum[f]
			}
			var recs []string
			for _, r := range p.Recs {
				fs := append([]string{}, r.Fields...)
				sort.Strings(fs)
				s := fmt.Sprintf("(%d", num[r.Name])
				for _, f := range fs {
					s += fmt.Sprintf(" %d", fid(f))
				}
				recs = append(recs, s+")")
			}
			got := map[int]string{}
			for _, m := range c05MkRe.FindAllStringSubmatch(base.out, -1) {
				var k int
				fmt.Sscanf(m[1], "%d", &k)
				got[k] = m[2]
			}
			for k, lit := range p.Literals {
				fs := append([]string{}, lit...)
				sort.Strings(fs)
				q := "("
				for i, f := range fs {
					if i > 0 {
						q += " "
					}
					q += fmt.Sprint(fid(f))
				}
				q += ")"
				ans := or.Ask("C05", fmt.Sprintf("(rec_lookup (%s) %s)", strings.Join(recs, " "), q))
				c.Compared(1)
				want := ""
				for n, i := range num {
					if ans == fmt.Sprintf("NAME %d", i) {
						want = n
					}
				}
				if got[k] != want {
					c.Disagree()
					c.Violate("corr", fmt.Sprintf("correspondence Order.rec_lookup vs fc broke: literal mk%d resolves to %q, model says %q", k, got[k], want),
						map[string]any{"broken": "correspondence C05 rec_lookup (Driver/Order.v) vs fc", "program": p}, true)
				}
			}
		}
	}
	// real processes: repeated stock runs of the first programs, byte-compared; every other run finds an
	// output file of an earlier run of ANOTHER source already in the directory (newer than the source)
	for pi := 0; pi < 3 && pi < len(progs); pi++ {
		p := progs[pi]
		dir := filepath.Join(c.Work, fmt.Sprintf("proc%d", pi))
		MustWrite(filepath.Join(dir, "m.fo"), p.Src)
		first := ""
		for i := 0; i < c.Pick(8, 40); i++ {
			os.Remove(filepath.Join(dir, "gen_m.go"))
			stale := i%2 == 1
			if stale {
				// longer than anything fc writes for m.fo: nothing of it may survive
				MustWrite(filepath.Join(dir, "gen_m.go"), "package main\n\n// output of an earlier run on an earlier (longer) version of m.fo\n"+strings.Repeat("// func stale() {}\n", 20000))
				c.Count("real_process_runs_over_stale_output")
			}
			// the same file under every spelling of its path and from another working directory
			var r RunResult
			switch i % 4 {
			case 0, 1:
				r = c.Fc(dir, c.MiniFoi(c.Work), "m.fo")
			case 2:
				r = c.Fc(dir, c.MiniFoi(c.Work), "./m.fo")
				c.Count("real_process_runs_path=./m.fo")
			default:
				r = c.Fc(c.Work, c.MiniFoi(c.Work), filepath.Join(dir, "m.fo"))
				c.Count("real_process_runs_path=absolute_from_other_cwd")
			}
			b, _ := os.ReadFile(filepath.Join(dir, "gen_m.go"))
			if r.Exit != 0 && stale {
				b = nil // a rejected file is not written: the earlier output stays (C16), not compared here
			}
			cur := fmt.Sprintf("%d|%s", r.Exit, b)
			c.Eval(fmt.Sprintf("proc|%d|%d", pi, i), true)
			if i == 0 {
				first = cur
				if r.Exit != 0 {
					first = fmt.Sprintf("%d|", r.Exit)
				}
			} else if cur != first {
				what := "two runs of the fc process on the same file differ"
				if stale {
					what = "a run of the fc process in a directory that already holds an (unrelated, newer) gen_m.go differs from a run in a clean directory"
				}
				c.Violate("order", what, map[string]any{"program": p, "run": i, "stale_output_present": stale,
					"first_difference": c04FirstDiff([]byte(first), []byte(cur))}, false)
				break
			}
		}
		c.Count("real_process_runs")
	}
}

func c05LoadReplay(path string) []*c05Prog {
	var doc struct {
		Replay struct {
			Program *c05Prog `json:"program"`
		} `json:"replay"`
	}
	b, err := os.ReadFile(path)
	if err != nil {
		panic(err)
	}
	if err := jsonUnmarshal(b, &doc); err != nil || doc.Replay.Program == nil {
		panic("replay file has no program")
	}
	return []*c05Prog{doc.Replay.Program}
}

func init() { Register("C05", runC05) }
