package main

// C06 support: a compact statement-level representation of Folang programs and a layout-aware
// pretty-printer. Every block, statement, arm, field and operator position takes independent
// random choices from the layout grammar of property C06:
//   - indentation of a block body: 1..8 columns right of the enclosing block, different per block
//   - blank lines (empty, or only blanks/tabs), trailing blanks
//   - // comments on their own line or trailing; /* */ comments between tokens and between statements
//     (also spanning lines when on lines of their own)
//   - a let's right-hand side / a match arm's body / an else body / a function or lambda body on the
//     same or on the next line
//   - an if on one line or on several lines
//   - a line break before any |>
// The canonical layout (Canon) takes the first alternative everywhere.

import (
	"fmt"
	"strings"
)

// ---------------------------------------------------------------- representation

type lEx struct {
	K      string   // atom | if | match | pipe | lam | grp
	Open   string   // grp: ( [ {
	Flds   []string // grp {: the field names
	Elems  []*lEx   // grp: the elements (tuple / slice elements, record field values)
	W      []string // atom: its words; lam: the words before "(fun"; match: the target
	Post   []string // lam: words after ")"
	Params []string // lam
	One    bool     // if: its bodies always stand on the line of their if/elif (they are one-line expressions)
	Cond   *lEx     // if
	Then   []*lSt
	Elifs  []lElif
	Else   []*lSt // nil: if without else
	Arms   []lArm
	Head   *lEx // pipe
	Stages []*lEx
	Body   []*lSt // lam
}
type lElif struct {
	Cond *lEx
	Body []*lSt
}
type lArm struct {
	Pat  []string
	Body []*lSt
}
type lSt struct {
	K    string   // let | letfn | expr
	Hdr  []string // let: the binder words; letfn: name and parameters
	E    *lEx
	Body []*lSt
}
type lTop struct {
	K         string // union | record | fn
	Id        string // replaces '#' in every word
	Name      string
	Cases     [][]string
	Fields    [][]string
	TrailSemi bool
	St        *lSt
}
type lProg struct {
	Name string
	Tops []*lTop
}

// words splits at blanks outside string literals.
func lWords(s string) []string {
	var out []string
	var cur strings.Builder
	var q byte
	for i := 0; i < len(s); i++ {
		ch := s[i]
		switch {
		case q != 0:
			cur.WriteByte(ch)
			if ch == '\\' && q == '"' && i+1 < len(s) {
				i++
				cur.WriteByte(s[i])
			} else if ch == q {
				q = 0
			}
		case ch == '"' || ch == '`':
			q = ch
			cur.WriteByte(ch)
		case ch == ' ':
			if cur.Len() > 0 {
				out = append(out, cur.String())
				cur.Reset()
			}
		default:
			cur.WriteByte(ch)
		}
	}
	if cur.Len() > 0 {
		out = append(out, cur.String())
	}
	return out
}

// builders ------------------------------------------------------------------

func lxOf(v any) *lEx {
	switch x := v.(type) {
	case *lEx:
		return x
	case string:
		return &lEx{K: "atom", W: lWords(x)}
	}
	panic(fmt.Sprintf("lxOf: %T", v))
}
func lsOf(v any) *lSt {
	switch x := v.(type) {
	case *lSt:
		return x
	case *lEx:
		return &lSt{K: "expr", E: x}
	case string:
		return &lSt{K: "expr", E: lxOf(x)}
	}
	panic(fmt.Sprintf("lsOf: %T", v))
}

// B builds a block from statements / expressions / atom strings.
func B(items ...any) []*lSt {
	var out []*lSt
	for _, it := range items {
		out = append(out, lsOf(it))
	}
	return out
}

type lElseT struct{ body []*lSt }

func ELSE(items ...any) lElseT          { return lElseT{B(items...)} }
func ELIF(c any, body []*lSt) lElif     { return lElif{lxOf(c), body} }
func ARM(pat string, items ...any) lArm { return lArm{lWords(pat), B(items...)} }
func LET(name string, rhs any) *lSt     { return &lSt{K: "let", Hdr: lWords(name), E: lxOf(rhs)} }
func FN(hdr string, items ...any) *lSt  { return &lSt{K: "letfn", Hdr: lWords(hdr), Body: B(items...)} }
func PIPE(head any, stages ...any) *lEx {
	e := &lEx{K: "pipe", Head: lxOf(head)}
	for _, s := range stages {
		e.Stages = append(e.Stages, lxOf(s))
	}
	return e
}
func LAM(pre, params string, items ...any) *lEx {
	return &lEx{K: "lam", W: lWords(pre), Params: lWords(params), Body: B(items...)}
}
func LAMP(pre, params, post string, items ...any) *lEx {
	return &lEx{K: "lam", W: lWords(pre), Params: lWords(params), Post: lWords(post), Body: B(items...)}
}
func IF(c any, then []*lSt, rest ...any) *lEx {
	e := &lEx{K: "if", Cond: lxOf(c), Then: then}
	for _, r := range rest {
		switch x := r.(type) {
		case lElif:
			e.Elifs = append(e.Elifs, x)
		case lElseT:
			e.Else = x.body
		default:
			panic("IF: bad part")
		}
	}
	return e
}

// IF1: an if that is written with same-line bodies in every layout (all bodies must be one-line expressions).
func IF1(c any, then []*lSt, rest ...any) *lEx {
	e := IF(c, then, rest...)
	e.One = true
	return e
}

// GRP: pre OPEN e1 SEP e2 ... CLOSE post.  open is "(" (one element: parentheses; several: a tuple), "[" (slice
// literal) or "{" (record literal, flds = the field names).
func GRP(open, pre, post string, flds []string, elems ...any) *lEx {
	e := &lEx{K: "grp", Open: open, W: lWords(pre), Post: lWords(post), Flds: flds}
	for _, x := range elems {
		e.Elems = append(e.Elems, lxOf(x))
	}
	return e
}
func MATCH(target string, arms ...lArm) *lEx { return &lEx{K: "match", W: lWords(target), Arms: arms} }

func TFN(hdr string, items ...any) *lTop { return &lTop{K: "fn", St: FN(hdr, items...)} }
func TUNION(name string, cases ...string) *lTop {
	t := &lTop{K: "union", Name: name}
	for _, c := range cases {
		t.Cases = append(t.Cases, lWords(c))
	}
	return t
}
func TRECORD(name string, trailSemi bool, fields ...string) *lTop {
	t := &lTop{K: "record", Name: name, TrailSemi: trailSemi}
	for _, f := range fields {
		t.Fields = append(t.Fields, lWords(f))
	}
	return t
}

func lSimple(b []*lSt) bool {
	return len(b) == 1 && b[0].K == "expr" && b[0].E.K == "atom" && !lHasNL(b[0].E.W)
}
func lHasNL(ws []string) bool {
	for _, w := range ws {
		if strings.Contains(w, "\n") {
			return true
		}
	}
	return false
}

// ---------------------------------------------------------------- layout

type layOpt struct {
	Canon    bool
	Comments bool
	Tabs     bool
	NoEOFNL  bool // allowed to drop the final newline
	Over     bool // model-valid layouts outside the property's grammar: later statements of a block indented more than the block
	// (but left of what the previous statement left open), else/elif left of the enclosing block
}

type lMark struct {
	LineStart int  `json:"line_start"` // offset of the first byte of the statement's line
	Col       int  `json:"col"`        // column of the block the statement belongs to
	Parent    int  `json:"parent"`     // column of the enclosing block (0 for a top-level function body)
	Index     int  `json:"index"`      // position in its block
	Count     int  `json:"count"`      // statements in the block
	Own       bool `json:"own"`        // the statement is the first token of its line
}

// lArmMark: the line of a match arm.
type lArmMark struct {
	LineStart int  `json:"line_start"`
	Off       int  `json:"off"`     // column of the block that contains the match (the offside line of its arms)
	Bar       int  `json:"bar"`     // column of the '|'
	Str       bool `json:"string"`  // arm of a string match
	Lit       bool `json:"lit"`     // string literal pattern
	Def       bool `json:"default"` // | _ ->
	Index     int  `json:"index"`
}

type lay struct {
	armMarks []lArmMark
	r        *Rng
	o        layOpt
	b        []byte
	ls       int
	id       string
	tabMode  int
	marks    []lMark
	hazSeen  int
	hazKinds []string // kind of every hazard site, in rendering order
	HazKind  string
	feat     map[string]int
}

func newLay(r *Rng, o layOpt) *lay {
	l := &lay{r: r, o: o, feat: map[string]int{}}
	if !o.Canon && o.Tabs {
		switch x := r.Intn(10); {
		case x < 7:
			l.tabMode = 0
		case x < 9:
			l.tabMode = 1
		default:
			l.tabMode = 2
		}
	}
	return l
}

func (l *lay) col() int { return len(l.b) - l.ls }
func (l *lay) put(s string) {
	if l.id != "" && strings.Contains(s, "#") {
		s = strings.ReplaceAll(s, "#", l.id)
	}
	l.b = append(l.b, s...)
	if i := strings.LastIndexByte(s, '\n'); i >= 0 {
		l.ls = len(l.b) - (len(s) - i - 1)
	}
}
func (l *lay) n(k int) int {
	if l.o.Canon || k <= 0 {
		return 0
	}
	return l.r.Intn(k)
}
func (l *lay) p(num, den int) bool {
	if l.o.Canon {
		return false
	}
	return l.r.Intn(den) < num
}
func (l *lay) f(name string) { l.feat[name]++ }

// below: a column strictly left of bd (canonical: off, which is left of every block opened inside)
// lHasFunWord: does the expression hold a lambda written inside an atom's words (its same-line body cannot
// be moved to the next line by the renderer)?
func lHasFunWord(e *lEx) bool {
	if e == nil {
		return false
	}
	for _, w := range e.W {
		if strings.Contains(w, "(fun") {
			return true
		}
	}
	for _, x := range e.Elems {
		if lHasFunWord(x) {
			return true
		}
	}
	for _, x := range e.Stages {
		if lHasFunWord(x) {
			return true
		}
	}
	return lHasFunWord(e.Head) || lHasFunWord(e.Cond)
}

// brk: the column of a continuation line inside a record field
func (l *lay) brk(off int, el *lEx) int {
	if lHasFunWord(el) {
		return off + l.n(9)
	}
	return l.n(off + 9)
}

func (l *lay) below(off, bd int) int {
	if l.o.Canon {
		return off
	}
	return l.r.Intn(bd)
}

var lCommentTexts = []string{"c", "note", "let x = 1", "if a then b else c", "| A -> 1", "\"quote", "`tick", "a * b", "x / y",
	"// nested", "/ * not a comment", "(paren", "end)", "|> pipe", "-> arrow", "= eq", "TODO: fix", "100%", "{X=1}", "[1;2]", "match u with", "\\n", "tab\there"}

func (l *lay) commentText() string {
	t := lCommentTexts[l.r.Intn(len(lCommentTexts))]
	if l.r.Intn(4) == 0 {
		t += " " + lCommentTexts[l.r.Intn(len(lCommentTexts))]
	}
	return t
}
func (l *lay) blanks(max int) string {
	k := 1 + l.r.Intn(max)
	var b strings.Builder
	for i := 0; i < k; i++ {
		if l.o.Tabs && l.r.Intn(5) == 0 {
			b.WriteByte('\t')
		} else {
			b.WriteByte(' ')
		}
	}
	return b.String()
}

// gap separates two words on one line.
func (l *lay) gap() {
	if l.o.Canon {
		l.put(" ")
		return
	}
	switch x := l.r.Intn(100); {
	case x < 72:
		l.put(" ")
	case x < 84:
		l.put(l.blanks(4))
		l.f("gap:blanks")
	case x < 92 && l.o.Comments:
		l.put(" /* " + strings.ReplaceAll(l.commentText(), "*/", "* /") + " */ ")
		l.f("gap:block-comment")
	case x < 94 && l.o.Comments:
		l.put(" /**/ ")
		l.f("gap:block-comment")
	default:
		l.put(" ")
	}
}

// eol ends the current line (trailing blanks / comment) and adds blank and comment lines.
func (l *lay) eol() {
	if l.o.Canon {
		l.put("\n")
		return
	}
	if l.r.Intn(5) == 0 {
		l.put(l.blanks(3))
		l.f("eol:trailing-blanks")
	}
	if l.o.Comments {
		switch x := l.r.Intn(100); {
		case x < 12:
			l.put(" // " + l.commentText())
			l.f("eol:trailing-line-comment")
		case x < 18:
			l.put(" /* " + strings.ReplaceAll(l.commentText(), "*/", "* /") + " */")
			if l.r.Intn(3) == 0 {
				l.put(l.blanks(2))
			}
			l.f("eol:trailing-block-comment")
		case x < 20:
			// a block comment that starts after the code and continues on the next lines
			l.put(" /* " + l.commentText() + "\n   more */")
			l.f("eol:trailing-multiline-comment")
		}
	}
	l.put("\n")
	k := 0
	switch x := l.r.Intn(100); {
	case x < 62:
	case x < 84:
		k = 1
	case x < 95:
		k = 2
	default:
		k = 3
	}
	for i := 0; i < k; i++ {
		switch x := l.r.Intn(100); {
		case x < 40 || !l.o.Comments:
			if l.r.Intn(3) == 0 {
				l.put(l.blanks(9))
				l.f("line:blank-with-blanks")
			} else {
				l.f("line:blank")
			}
		case x < 70:
			// every spelling of a line comment, doc-comment look-alikes included (///, ////, //!)
			lead := []string{"// ", "// ", "//", "/// ", "///", "//// ", "//! ", "//-- "}[l.r.Intn(8)]
			ind := strings.Repeat(" ", l.r.Intn(12))
			if l.r.Intn(3) == 0 {
				ind = ""
			}
			l.put(ind + lead + l.commentText())
			l.f("line:line-comment")
		case x < 90:
			l.put(strings.Repeat(" ", l.r.Intn(12)) + "/* " + strings.ReplaceAll(l.commentText(), "*/", "* /") + " */")
			if l.r.Intn(3) == 0 {
				l.put(l.blanks(3))
			}
			l.f("line:block-comment")
		default:
			l.put(strings.Repeat(" ", l.r.Intn(12)) + "/* " + l.commentText() + "\n" + strings.Repeat(" ", l.r.Intn(12)) + l.commentText() + "\n*/")
			l.f("line:multiline-block-comment")
		}
		l.put("\n")
	}
}

// indent writes n columns of indentation (one byte per column: a tab counts as one).
func (l *lay) indent(n int) {
	switch l.tabMode {
	case 1:
		l.put(strings.Repeat("\t", n))
		if n > 0 {
			l.f("indent:tabs")
		}
	case 2:
		var b strings.Builder
		for i := 0; i < n; i++ {
			if l.r.Intn(3) == 0 {
				b.WriteByte('\t')
			} else {
				b.WriteByte(' ')
			}
		}
		l.put(b.String())
		if n > 0 {
			l.f("indent:mixed")
		}
	default:
		l.put(strings.Repeat(" ", n))
	}
}

func (l *lay) words(ws []string) {
	for i, w := range ws {
		if i > 0 {
			l.gap()
		}
		l.put(w)
	}
}

func (l *lay) amt() int {
	if l.o.Canon {
		return 2
	}
	return 1 + l.r.Intn(8)
}

// blockAt: the block starts on the next line at column c. Returns c.
func (l *lay) blockAt(sts []*lSt, c int, parent int) int {
	l.eol()
	l.indent(c)
	l.stmts(sts, c, parent, true)
	return c
}

// blockNext: next-line block indented by a random positive amount relative to off.
func (l *lay) blockNext(sts []*lSt, off int) int {
	return l.blockAt(sts, off+l.amt(), off)
}

// blockInline: the block starts at the current position.
func (l *lay) blockInline(sts []*lSt, parent int) int {
	c := l.col()
	l.f("inline-block")
	if len(sts) > 1 {
		l.f("inline-block:multi-statement")
	}
	l.stmts(sts, c, parent, false)
	return c
}

func (l *lay) stmts(sts []*lSt, c int, parent int, ownFirst bool) {
	prevBd := 0
	for i, s := range sts {
		if i > 0 {
			l.eol()
			ci := c
			if l.o.Over && prevBd > c+1 && l.p(1, 2) {
				// Layout.wf_rest: not left of the block, strictly left of what the previous statement left open
				ci = c + 1 + l.r.Intn(prevBd-c-1)
				l.f("over:later-statement-right-of-block")
			}
			l.indent(ci)
		}
		l.marks = append(l.marks, lMark{LineStart: l.ls, Col: c, Parent: parent, Index: i, Count: len(sts), Own: i > 0 || ownFirst})
		prevBd = l.stmt(s, c)
	}
}

// stmt renders a statement of the block at column c; it returns the column of the outermost block the
// statement leaves open at its end (0: none), cf. Layout.stmt_bd.
func (l *lay) stmt(s *lSt, c int) int {
	switch s.K {
	case "let":
		l.put("let")
		l.gap()
		l.words(s.Hdr)
		l.gap()
		l.put("=")
		if l.p(1, 2) {
			l.f("let-rhs:next-line")
			l.eol()
			l.indent(c + l.amt())
		} else {
			l.f("let-rhs:same-line")
			l.gap()
		}
		return l.expr(s.E, c)
	case "letfn":
		l.put("let")
		l.gap()
		l.words(s.Hdr)
		l.gap()
		l.put("=")
		if l.p(1, 5) {
			l.f("fn-body:same-line")
			l.gap()
			return l.blockInline(s.Body, c)
		}
		l.f("fn-body:next-line")
		return l.blockNext(s.Body, c)
	default:
		return l.expr(s.E, c)
	}
}

func (l *lay) expr(e *lEx, off int) int {
	switch e.K {
	case "atom":
		l.words(e.W)
		return 0
	case "if":
		return l.ifExpr(e, off)
	case "match":
		l.put("match")
		l.gap()
		l.words(e.W)
		l.gap()
		l.put("with")
		bd := 0
		strMatch := len(e.Arms) > 0 && len(e.Arms[0].Pat) > 0 && strings.HasPrefix(e.Arms[0].Pat[0], "\"")
		for ai, a := range e.Arms {
			l.eol()
			bar := off + l.n(4)
			l.indent(bar)
			l.armMarks = append(l.armMarks, lArmMark{LineStart: l.ls, Off: off, Bar: bar, Str: strMatch,
				Lit: len(a.Pat) > 0 && strings.HasPrefix(a.Pat[0], "\""), Def: len(a.Pat) == 1 && a.Pat[0] == "_", Index: ai})
			l.put("|")
			l.gap()
			l.words(a.Pat)
			l.gap()
			l.put("->")
			if l.p(1, 2) {
				l.f("arm-body:next-line")
				bd = l.blockAt(a.Body, off+4+l.r.Intn(8), off)
			} else if l.o.Canon && !lSimple(a.Body) {
				bd = l.blockAt(a.Body, off+2, off)
			} else {
				l.f("arm-body:same-line")
				l.gap()
				bd = l.blockInline(a.Body, off)
			}
		}
		return bd
	case "pipe":
		bd := l.expr(e.Head, off)
		for _, st := range e.Stages {
			if l.o.Canon || l.p(1, 2) {
				l.f("pipe:break")
				l.eol()
				l.indent(off + l.n(9))
			} else {
				l.f("pipe:same-line")
				l.gap()
			}
			l.put("|>")
			l.gap()
			bd = l.expr(st, off)
		}
		return bd
	case "lam":
		l.words(e.W)
		if len(e.W) > 0 {
			l.gap()
		}
		l.put("(fun")
		l.gap()
		l.words(e.Params)
		l.gap()
		l.put("->")
		inline := len(e.Body) == 1
		if !l.o.Canon {
			inline = l.r.Intn(2) == 0
		}
		// a same-line body is a block at its own column: that column must be right of the enclosing block's
		// (psPushOffside). A line that starts left of the enclosing block (after a separator or closing token
		// placed on a later line, after a broken record field) cannot always offer that.
		if inline && l.col() < off {
			inline = false
			l.f("lambda-body:next-line-forced-left-of-block")
		}
		if inline {
			l.f("lambda-body:same-line")
			l.gap()
			l.blockInline(e.Body, off)
		} else {
			l.f("lambda-body:next-line")
			l.blockNext(e.Body, off)
		}
		switch x := l.n(10); {
		case x == 1:
			l.f("lambda-close:own-line")
			l.eol()
			l.indent(off + l.n(6))
		case x == 2:
			l.gap()
		}
		l.put(")")
		if len(e.Post) > 0 {
			l.gap()
			l.words(e.Post)
		}
		return 0
	case "grp":
		// Layout.wf_seq: the token after an element stands on the element's line exactly when the element
		// ends with an atom; after an element that ends with a block it stands on a later line, left of that
		// block (a ')' may also follow the block's last token directly). A record field may be broken after
		// its name and after '='. Nothing else may be broken (fc skips no EOL after the opening token or a separator).
		l.words(e.W)
		if len(e.W) > 0 {
			l.gap()
		}
		l.put(e.Open)
		closeTok, sep := ")", ","
		switch e.Open {
		case "[":
			closeTok, sep = "]", ";"
		case "{":
			closeTok, sep = "}", ";"
		}
		bd := 0
		for i, el := range e.Elems {
			if i > 0 {
				if bd > 0 {
					l.f("group:separator-on-later-line")
					l.eol()
					if lHasFunWord(el) {
						l.indent(off + l.n(bd-off)) // keep the element's same-line lambda bodies right of the enclosing block
					} else {
						l.indent(l.below(off, bd))
					}
				} else if l.p(1, 6) {
					l.gap()
				}
				l.put(sep)
				l.gap()
			} else if l.p(1, 6) {
				l.gap()
			}
			if e.Open == "{" {
				l.put(e.Flds[i])
				if l.p(1, 5) {
					l.f("group:break-after-field-name")
					l.eol()
					l.indent(l.brk(off, el))
				} else if l.p(1, 2) {
					l.gap()
				}
				l.put("=")
				if l.p(1, 5) {
					l.f("group:break-after-field-eq")
					l.eol()
					l.indent(l.brk(off, el))
				} else if l.p(1, 2) {
					l.gap()
				}
			}
			bd = l.expr(el, off)
		}
		switch {
		case bd > 0 && (e.Open != "(" || l.p(1, 2)):
			l.f("group:close-on-later-line")
			l.eol()
			if e.Open == "(" {
				l.indent(l.n(off + 9))
			} else {
				l.indent(l.below(off, bd))
			}
		case l.p(1, 6):
			l.gap()
		}
		l.put(closeTok)
		if len(e.Post) > 0 {
			l.gap()
			l.words(e.Post)
		}
		return 0
	default:
		panic("expr kind " + e.K)
	}
}

// ifExpr: every then-body that is a single one-line expression may stand on the line of its if/elif; the
// following else/elif then stands on the same line (else: only with a one-line expression as its body) or
// on a later line at a column inside the offside line of the enclosing block. After a body that is a block
// the following else/elif stands on a later line, left of that block. Returns the column of the block the
// expression leaves open (0: none).
func (l *lay) ifExpr(e *lEx, off int) int {
	head := func(kw string, c *lEx) {
		l.put(kw)
		l.gap()
		l.expr(c, off)
		l.gap()
		l.put("then")
	}
	prevInline := false
	prev := 0
	lowKw := false
	body := func(b []*lSt) {
		// (after an else/elif placed left of the enclosing block a same-line body could hold a lambda whose
		// body would not be right of that block)
		if lSimple(b) && (e.One || (!lowKw && l.p(1, 3))) {
			l.f("if:then-body-same-line")
			l.gap()
			l.expr(b[0].E, off)
			prevInline = true
			return
		}
		l.f("if:then-body-next-line")
		prev = l.blockNext(b, off)
		prevInline = false
	}
	// keyword position after the previous body; sameLineOK: the keyword may share the line of an inline body
	keyword := func(sameLineOK bool) (sameLine bool) {
		lowKw = false
		if prevInline {
			if sameLineOK && l.p(1, 2) {
				l.f("if:else/elif-same-line")
				l.gap()
				return true
			}
			l.f("if:else/elif-next-line-after-same-line-body")
			l.eol()
			l.indent(off + l.n(9))
			return false
		}
		l.eol()
		if l.o.Over && off > 0 && l.p(1, 3) {
			// 'else' / 'elif' only has to be left of the block before it (Layout.wf_ifrest)
			l.f("over:else-left-of-enclosing-block")
			lowKw = true
			l.indent(l.r.Intn(off))
		} else {
			l.indent(off + l.n(prev-off))
		}
		return false
	}
	head("if", e.Cond)
	body(e.Then)
	for _, ei := range e.Elifs {
		keyword(true)
		head("elif", ei.Cond)
		body(ei.Body)
	}
	if e.Else == nil {
		if prevInline {
			return 0
		}
		return prev
	}
	if keyword(lSimple(e.Else)) {
		l.put("else")
		l.gap()
		l.expr(e.Else[0].E, off)
		return 0
	}
	l.put("else")
	if !lowKw && l.p(1, 3) {
		l.f("else-body:same-line")
		l.gap()
		return l.blockInline(e.Else, off)
	}
	l.f("else-body:next-line")
	return l.blockNext(e.Else, off)
}

func (l *lay) top(t *lTop) {
	l.id = t.Id
	switch t.K {
	case "fn":
		l.marks = append(l.marks, lMark{LineStart: l.ls, Col: 0, Parent: -1, Index: 0, Count: 1})
		l.stmt(t.St, 0)
	case "union":
		l.put("type")
		l.gap()
		l.put(t.Name)
		l.gap()
		l.put("=")
		for _, c := range t.Cases {
			l.eol()
			// union cases are not tested against any column (Layout.wf_root): column 0 included
			if l.o.Canon {
				l.indent(2)
			} else {
				l.indent(l.r.Intn(9))
			}
			l.put("|")
			l.gap()
			l.words(c)
		}
	case "record":
		l.put("type")
		l.gap()
		l.put(t.Name)
		l.gap()
		l.put("=")
		if l.p(1, 4) {
			l.eol()
			l.indent(l.amt())
		} else {
			l.gap()
		}
		l.put("{")
		brk := func() {
			if l.p(1, 2) {
				l.f("record:field-break")
				l.eol()
				l.indent(l.n(10))
			} else if l.p(1, 2) {
				l.gap()
			}
		}
		if l.p(1, 3) {
			brk()
		}
		for i, f := range t.Fields {
			l.words(f)
			if i < len(t.Fields)-1 {
				l.put(";")
				if l.o.Canon {
					l.put(" ")
				} else {
					brk()
				}
			}
		}
		if t.TrailSemi {
			l.put(";")
			brk()
		} else if l.p(1, 4) {
			l.gap()
		}
		l.put("}")
	}
}

// render lays the program out; the header lines take layout choices as well.
func (p *lProg) render(r *Rng, o layOpt) *lay {
	l := newLay(r, o)
	l.put("package main")
	l.eol()
	l.put("import")
	l.gap()
	l.put("frt")
	l.eol()
	l.put("import")
	l.gap()
	l.put("slice")
	l.eol()
	l.put("import")
	l.gap()
	l.put("strings")
	for _, t := range p.Tops {
		l.eol()
		if l.o.Canon {
			l.put("\n")
		}
		l.top(t)
	}
	l.id = ""
	last := byte('\n')
	if len(l.b) > 0 {
		last = l.b[len(l.b)-1]
	}
	if o.NoEOFNL && !o.Canon && l.r.Intn(4) == 0 && !(last >= '0' && last <= '9') {
		// no final newline (a file ending in a digit without newline is rejected by scanIntImmToken:
		// reported separately, not a layout of the property's grammar)
		l.f("eof:no-newline")
	} else {
		l.eol()
	}
	return l
}

// ---------------------------------------------------------------- templates

// Every name carries '#', replaced by the instance id, so that templates can be combined.
func c06Templates() [][]*lTop {
	u3 := func() *lTop { return TUNION("U#", "A# of int", "B# of string", "C#") }
	return [][]*lTop{
		// 0: straight-line lets
		{TFN("f# (x:int)", LET("y", "x + 1"), LET("z", "y * 2"), "z - x")},
		// 1: if/else as value
		{TFN("f# (x:int)", IF("x > 3", B("1"), ELSE("2")))},
		// 2: if/elif/else with statements in the branches
		{TFN("f# (x:int)", LET("z", "x * 2"),
			IF("z > 30", B(`frt.Println "big"`, "z"), ELIF("z > 10", B("z + 1")), ELSE(LET("w", "z + 2"), "w * 3")))},
		// 3: if without else as a statement
		{TFN("f# (x:int)", IF("x > 3", B(`frt.Println "gt"`)), "x + 1")},
		// 4: nested ifs
		{TFN("f# (x:int) (y:int)",
			IF("x > 0", B(IF("y > 0", B("1"), ELSE("2"))), ELSE(IF("y > 0", B(LET("k", "x + y"), "k"), ELSE("4")))))},
		// 5: union match with binders
		{u3(), TFN("f# (u:U#)", MATCH("u", ARM("A# i", "i + 1"), ARM("B# s", "strings.Length s"), ARM("C#", "0")))},
		// 6: union match with default
		{u3(), TFN("f# (u:U#)", MATCH("u", ARM("A# i", LET("j", "i * 2"), "j + 1"), ARM("_", "0")))},
		// 7: string match with variable rule
		{TFN("f# (s:string)", MATCH("s", ARM(`"a"`, "1"), ARM(`"b b"`, LET("q", "2"), "q"), ARM("other", "strings.Length other")))},
		// 8: string match with default
		{TFN("f# (s:string)", MATCH("s", ARM(`"x"`, `"ex"`), ARM(`"y"`, `"why"`), ARM("_", `"?"`)))},
		// 9: match inside if, if inside match arm
		{u3(), TFN("f# (u:U#) (b:bool)",
			IF("b", B(MATCH("u", ARM("A# i", IF("i > 0", B("i"), ELSE("0 - i"))), ARM("B# _", "1"), ARM("C#", "2"))), ELSE("3")))},
		// 10: match as a let right-hand side
		{u3(), TFN("f# (u:U#)", LET("r", MATCH("u", ARM("A# i", "i"), ARM("B# s", "strings.Length s"), ARM("C#", "7"))), "r + 1")},
		// 11: pipeline
		{TFN("f# (xs:[]int)", PIPE("xs", "slice.Filter (fun x -> x > 1)", "slice.Map (fun x -> x * 2)", "slice.Length"))},
		// 12: pipeline with multi-statement lambdas
		{TFN("f# (xs:[]int)", PIPE("xs", LAM("slice.Map", "x", LET("y", "x + 1"), "y * y"),
			LAM("slice.Filter", "x", IF("x > 10", B("true"), ELSE("false"))), "slice.Length"))},
		// 13: lambda that is not the last argument
		{TFN("f# (xs:[]int)", LAMP("slice.Fold", "acc x", "0 xs", LET("t", "acc + x"), "t"))},
		// 14: record definition, literal, field access
		{TRECORD("R#", false, "X#: int", "Y#: string"), TFN("mk# (x:int)", "{X#=x; Y#=\"s\"}"), TFN("gx# (r:R#)", "r.X# + 1")},
		// 15: record with trailing semicolon (the closing brace may stand on its own line)
		{TRECORD("R#", true, "P#: int", "Q#: []string", "S#: bool"), TFN("f# (r:R#)", IF("r.S#", B("r.P#"), ELSE("slice.Length r.Q#")))},
		// 16: inner function
		{TFN("f# (x:int)", FN("inner (y:int)", LET("w", "y + 1"), "w * 2"), LET("z", "inner x"), "z + 1")},
		// 17: tuple and destructuring let
		{TFN("f# (x:int)", LET("p", `(x, "s")`), LET("(a, b)", "p"), "a + strings.Length b")},
		// 18: slice literals
		{TFN("f# (x:int)", LET("xs", "[x; x + 1; 3]"), PIPE("xs", "slice.Map (fun y -> [y; y])", "slice.Concat", "slice.Length"))},
		// 19: raw string over two lines and string interpolation
		{TFN("f# (n:int)", LET("s", "`line one\nline \"two\"`"), LET("t", `$"n={n} {s}"`), "strings.Length t + n")},
		// 20: '=' as a comparison, boolean operators
		{TFN("f# (x:int) (y:int)", IF("x = y && y <> 3 || x >= 10", B("x"), ELIF("x <= 0 - 1", B("0")), ELSE("y")))},
		// 21: match nested in match arms (last and middle)
		{u3(), TFN("f# (u:U#) (v:U#)",
			MATCH("u", ARM("A# i", MATCH("v", ARM("A# j", "i + j"), ARM("_", "i"))),
				ARM("B# s", "strings.Length s"),
				ARM("C#", MATCH("v", ARM("A# j", "j"), ARM("B# _", "1"), ARM("C#", "2")))))},
		// 22: deep nesting: inner function, if, match, lambda
		{u3(), TFN("f# (us:[]U#) (k:int)",
			FN("score (u:U#)", IF("k > 0", B(MATCH("u", ARM("A# i", "i * k"), ARM("B# s", "strings.Length s"), ARM("C#", "k"))), ELSE("0"))),
			PIPE("us", LAM("slice.Map", "u", LET("s", "score u"), IF("s > 5", B("s"), ELSE("5"))), "slice.Length"))},
		// 23: if as a let right-hand side
		{TFN("f# (x:int)", LET("y", IF("x > 0", B("x"), ELSE(LET("m", "0 - x"), "m"))), "y * 2")},
		// 24: pipeline as a let right-hand side, then piped again
		{TFN("f# (xs:[]int)", LET("ys", PIPE("xs", "slice.Map (fun x -> x + 1)")), PIPE("ys", "slice.Filter (fun x -> x > 2)"))},
		// 25: multi-statement arm bodies
		{u3(), TFN("f# (u:U#)",
			MATCH("u", ARM("A# i", `frt.Println "a"`, LET("j", "i + 1"), "j"), ARM("B# s", `frt.Println s`, "2"), ARM("C#", `frt.Println "c"`, "3")))},
		// 26: long elif chain
		{TFN("f# (x:int)", IF("x > 40", B(`"a"`), ELIF("x > 30", B(`"b"`)), ELIF("x > 20", B(`"c"`)), ELIF("x > 10", B(`"d"`)), ELSE(`"e"`)))},
		// 27: unit function, statements only
		{TFN("f# ()", `frt.Println "one"`, IF("1 > 0", B(`frt.Println "two"`, `frt.Println "three"`)), `frt.Println "four"`)},
		// 28: generic function and its use
		{TFN("id# x", "x"), TFN("f# (y:int)", LET("a", "id# y"), LET("b", `id# "s"`), "a + strings.Length b")},
		// 29: if inside a lambda
		{TFN("f# (xs:[]int)", PIPE("xs", LAM("slice.Map", "x", IF("x > 0", B("x"), ELSE("0"))), LAM("slice.Filter", "x", "x > 1")))},
		// 30: match inside a lambda with a typed parameter
		{u3(), TFN("f# (us:[]U#)", PIPE("us", LAM("slice.Map", "(u:U#)", MATCH("u", ARM("A# i", "i"), ARM("B# _", "1"), ARM("C#", "0")))))},
		// 31: string match inside a union match arm
		{u3(), TFN("f# (u:U#)",
			MATCH("u", ARM("A# i", "i"), ARM("B# s", MATCH("s", ARM(`"one"`, "1"), ARM(`"two"`, "2"), ARM("_", "0"))), ARM("C#", "9")))},
		// 32: two functions, the second calls the first
		{TFN("g# (a:int) (b:int)", LET("c", "a * b"), "c + 1"), TFN("f# (x:int)", LET("y", "g# x 2"), LET("z", "g# (y + 1) (x - 1)"), "y + z")},
		// 33: pipeline whose head is a call and whose stages take several arguments
		{TFN("f# (xs:[]int) (n:int)", PIPE("slice.Take n xs", "slice.Map (fun x -> x + n)", "slice.Fold (fun a b -> a + b) 0"))},
		// 34: nested parentheses
		{TFN("f# (x:int) (y:int)", LET("a", "(x + (y * 2)) * (x - (y + (1)))"), LET("b", "((a))"), "b + (a * (b))")},
		// 35: union with payload-free cases only
		{TUNION("E#", "Red#", "Green#", "Blue#"), TFN("f# (e:E#)", MATCH("e", ARM("Red#", `"r"`), ARM("Green#", `"g"`), ARM("Blue#", `"b"`)))},
		// 36: a long body
		{TFN("f# (x:int)", LET("a", "x + 1"), LET("b", "a + 2"), `frt.Println "mid"`, LET("c", "b + 3"), LET("d", "c + a"),
			IF("d > 100", B(`frt.Println "large"`)), LET("e", "d * 2"), "e - b")},
		// 37: property shorthand and records in a pipeline
		{TRECORD("R#", false, "N#: int", "T#: string"), TFN("f# (rs:[]R#)", PIPE("rs", "slice.Map _.N#", LAM("slice.Filter", "n", "n > 0"), "slice.Length"))},
		// 38: if/else returning strings, concatenation
		{TFN("f# (x:int) (s:string)", LET("t", IF("x > 0", B(`s + "+"`), ELSE(`s + "-"`))), `t + t`)},
		// 39: else-if written as else + if
		{TFN("f# (x:int)", IF("x > 2", B(`"big"`), ELSE(IF("x > 1", B(`"mid"`), ELSE(`"small"`)))))},
		// 40: inner function with a match, used in a pipeline; value if as argument in parentheses
		{u3(), TFN("f# (us:[]U#)",
			FN("w (u:U#)", MATCH("u", ARM("A# i", "i"), ARM("_", "1"))),
			LET("n", PIPE("us", "slice.Map w", "slice.Fold (fun a b -> a + b) 0")), "n + (if n > 3 then 1 else 0)")},
		// 41: let function with a result annotation and a unit function call
		{TFN("g# () : int", "42"), TFN("f# (x:int) : int", LET("y", "g# ()"), "x + y")},
		// 42: an exhaustive inner match directly before the outer default arm (the default must stay outside)
		{u3(), TFN("f# (u:U#) (v:U#)",
			MATCH("u", ARM("A# i", MATCH("v", ARM("A# j", "i + j"), ARM("B# _", "1"), ARM("C#", "2"))), ARM("_", "0")))},
		// 43: a union match inside a string match arm, followed by the string match's default
		{u3(), TFN("f# (s:string) (u:U#)",
			MATCH("s", ARM(`"a"`, MATCH("u", ARM("A# i", "i"), ARM("B# _", "1"), ARM("C#", "2"))), ARM("_", "0")))},
		// 47: a parenthesised if / match as an argument
		{u3(), TFN("g# (a:int) (b:int)", "a + b"),
			TFN("f# (x:int) (u:U#)", LET("y", GRP("(", "g# (x + 1)", "", nil, IF("x > 0", B("1"), ELSE("2")))),
				GRP("(", "g# y", "", nil, MATCH("u", ARM("A# i", "i"), ARM("B# _", "1"), ARM("C#", "0"))))},
		// 48: tuples whose last element spans lines, unit argument, destructuring
		{TFN("u# ()", "7"), TFN("f# (x:int)", LET("p", GRP("(", "", "", nil, "x", "x + 1", IF("x > 0", B(LET("k", "u# ()"), "k"), ELSE("2")))),
			LET("(a, b, c)", "p"), LET("(d, _)", GRP("(", "", "", nil, "a + b", IF("c > 0", B(`"s"`), ELSE(`"t"`)))), "d + strings.Length \"\" + c")},
		// 49: slice literals with multi-line elements
		{TFN("f# (x:int)", LET("xs", GRP("[", "", "", nil, "x", IF("x > 0", B("1"), ELSE("2")), "x + 1", IF("x > 1", B(LET("q", "x * 2"), "q"), ELSE("0")))),
			PIPE(GRP("[", "", "", nil, "xs", GRP("[", "", "", nil, "x")), "slice.Concat", "slice.Length"))},
		// 50: record literals: multi-line values, breaks after a field name and after '='
		{TRECORD("R#", false, "X#: int", "Y#: string", "Z#: int"),
			TFN("f# (x:int)", LET("r", GRP("{", "", "", []string{"X#", "Y#", "Z#"}, IF("x > 0", B("1"), ELSE("2")), `"s"`, "x + 1")),
				LET("q", GRP("{", "", "", []string{"Y#", "Z#", "X#"}, `"t"`, "r.Z#", IF("x > 1", B(LET("w", "r.X#"), "w"), ELSE("0")))), "q.X# + r.X#")},
		// 45: a then-block that ends with a one-line if without else, then the else of the enclosing if: the
		// else stands left of the block that contains the inner if, so the inner if must not take it
		{TFN("f# (x:int)", IF("x > 0", B(`frt.Println "a"`, IF1("x > 1", B(`frt.Println "b"`))), ELSE(`frt.Println "c"`)), `frt.Println "d"`)},
		// 46: the same inside an elif chain and a match arm
		{TUNION("U#", "A# of int", "B# of string", "C#"), TFN("f# (u:U#) (x:int)",
			MATCH("u", ARM("A# i", IF("i > 0", B(IF1("x > 1", B(`frt.Println "b"`))), ELIF("i < 0", B(IF1("x > 2", B(`frt.Println "e"`)))), ELSE(`frt.Println "c"`))),
				ARM("_", IF1("x > 3", B(`frt.Println "z"`)))), `frt.Println "d"`)},
		// 44: string match with a variable rule nested in the last arm of a string match
		{TFN("f# (s:string) (t:string)",
			MATCH("s", ARM(`"a"`, "1"), ARM("o", MATCH("t", ARM(`"b"`, "strings.Length o"), ARM("p", "strings.Length p")))))},
	}
}

// instantiate copies the template's tops with the instance id.
func c06Instantiate(tops []*lTop, id string) []*lTop {
	var out []*lTop
	for _, t := range tops {
		c := *t
		c.Id = id
		out = append(out, &c)
	}
	return out
}

// ---------------------------------------------------------------- random programs

type c06Gen struct {
	r    *Rng
	ints []string
	nv   int
}

func (g *c06Gen) v() string { return g.ints[g.r.Intn(len(g.ints))] }
func (g *c06Gen) fresh() string {
	g.nv++
	return fmt.Sprintf("v%d", g.nv)
}
func (g *c06Gen) intAtom() string {
	switch g.r.Intn(9) {
	case 0:
		return g.v()
	case 1:
		return fmt.Sprintf("%s + %d", g.v(), g.r.Intn(9))
	case 2:
		return fmt.Sprintf("%s * %s", g.v(), g.v())
	case 3:
		return fmt.Sprint(g.r.Intn(100))
	case 4:
		return "slice.Length xs"
	case 5:
		return "strings.Length s"
	case 6:
		return fmt.Sprintf("(%s + %s) * %d", g.v(), g.v(), 1+g.r.Intn(4))
	case 7:
		return fmt.Sprintf("h# %s", g.v())
	default:
		return fmt.Sprintf("%s - %s", g.v(), g.v())
	}
}
func (g *c06Gen) cond() string {
	switch g.r.Intn(6) {
	case 0:
		return fmt.Sprintf("%s > %d", g.v(), g.r.Intn(9))
	case 1:
		return fmt.Sprintf("%s = %s", g.v(), g.v())
	case 2:
		return fmt.Sprintf("%s < %s && %s > 1", g.v(), g.v(), g.v())
	case 3:
		return `s = "x"`
	case 4:
		return "slice.IsEmpty xs"
	default:
		return fmt.Sprintf("%s <> %d", g.v(), g.r.Intn(5))
	}
}
func (g *c06Gen) scoped(vars []string, f func() []*lSt) []*lSt {
	save := g.ints
	g.ints = append(append([]string{}, g.ints...), vars...)
	b := f()
	g.ints = save
	return b
}
func (g *c06Gen) block(d int) []*lSt {
	return g.scoped(nil, func() []*lSt {
		var out []*lSt
		for k := g.r.Intn(3); k > 0; k-- {
			switch g.r.Intn(5) {
			case 0:
				out = append(out, lsOf(fmt.Sprintf(`frt.Println "p%d"`, g.r.Intn(10))))
			case 1:
				if d > 0 {
					out = append(out, lsOf(IF(g.cond(), B(fmt.Sprintf(`frt.Printf1 "%%d" %s`, g.v())))))
				}
			default:
				name := g.fresh()
				out = append(out, LET(name, g.expr(d-1)))
				g.ints = append(g.ints, name)
			}
		}
		return append(out, lsOf(g.expr(d-1)))
	})
}
func (g *c06Gen) expr(d int) *lEx {
	if d <= 0 {
		return lxOf(g.intAtom())
	}
	switch g.r.Intn(11) {
	case 0, 1:
		return lxOf(g.intAtom())
	case 2, 3, 4:
		e := IF(g.cond(), g.block(d-1))
		for k := g.r.Intn(3); k > 0 && g.r.Intn(2) == 0; k-- {
			e.Elifs = append(e.Elifs, ELIF(g.cond(), g.block(d-1)))
		}
		e.Else = g.block(d - 1)
		return e
	case 5, 6:
		i := g.fresh()
		arms := []lArm{{lWords("A# " + i), g.scoped([]string{i}, func() []*lSt { return g.block(d - 1) })}}
		if g.r.Intn(2) == 0 {
			arms = append(arms, lArm{lWords("B# _"), g.block(d - 1)}, lArm{lWords("C#"), g.block(d - 1)})
		} else {
			arms = append(arms, lArm{lWords("_"), g.block(d - 1)})
		}
		return &lEx{K: "match", W: []string{"u"}, Arms: arms}
	case 7:
		o := g.fresh()
		arms := []lArm{{lWords(`"x"`), g.block(d - 1)}, {lWords(`"y z"`), g.block(d - 1)}}
		if g.r.Intn(2) == 0 {
			arms = append(arms, lArm{lWords(o), g.block(d - 1)})
		} else {
			arms = append(arms, lArm{lWords("_"), g.block(d - 1)})
		}
		return &lEx{K: "match", W: []string{"s"}, Arms: arms}
	case 8:
		if g.r.Intn(2) == 0 {
			return GRP("(", "h#", "", nil, g.expr(d-1))
		}
		return PIPE(GRP("[", "", "", nil, g.intAtom(), g.expr(d-1), g.expr(d-1)), "slice.Length")
	default:
		x := g.fresh()
		lam := &lEx{K: "lam", W: []string{"slice.Map"}, Params: []string{x},
			Body: g.scoped([]string{x}, func() []*lSt { return g.block(d - 1) })}
		stages := []*lEx{lam}
		if g.r.Intn(2) == 0 {
			y := g.fresh()
			stages = append(stages, &lEx{K: "lam", W: []string{"slice.Filter"}, Params: []string{y},
				Body: g.scoped([]string{y}, func() []*lSt { return B(IF(g.cond(), B("true"), ELSE(y+" > 2"))) })})
		}
		stages = append(stages, lxOf("slice.Length"))
		return &lEx{K: "pipe", Head: lxOf("xs"), Stages: stages}
	}
}

// c06RandomTops: a union, a helper and a randomly nested int function.
func c06RandomTops(r *Rng, depth int) []*lTop {
	g := &c06Gen{r: r, ints: []string{"a", "b"}}
	return []*lTop{
		TUNION("U#", "A# of int", "B# of string", "C#"),
		TFN("h# (n:int)", "n + 1"),
		{K: "fn", St: &lSt{K: "letfn", Hdr: lWords("f# (a:int) (b:int) (u:U#) (s:string) (xs:[]int)"), Body: g.block(depth)}},
	}
}

const c06MiniFoi = `package_info frt =
  let Println: string->()
  let Sprintf1<T>: string->T->string
  let Printf1<T>: string->T->()
  let Fst<T, U> : T*U->T
  let Snd<T, U> : T*U->U

package_info slice =
  let New<T>: ()->[]T
  let Length<T>: []T -> int
  let IsEmpty<T>: []T -> bool
  let Head<T>: []T -> T
  let Concat<T>: [][]T->[]T
  let Take<T> : int->[]T->[]T
  let Map<T, U> : (T->U)->[]T->[]U
  let Filter<T> : (T->bool)->[]T->[]T
  let Iter<T> : (T->())->[]T->()
  let Fold<T, S>: (S->T->S)->S->[]T->S

package_info strings =
  let Length: string->int
  let HasPrefix: string->string->bool
`

// c06FoiLayout re-lays the package_info file (its definitions form offside blocks too).
func c06FoiLayout(r *Rng) string {
	var b strings.Builder
	amt := 0
	first := true
	for _, line := range strings.Split(strings.TrimRight(c06MiniFoi, "\n"), "\n") {
		switch {
		case strings.HasPrefix(line, "package_info"):
			amt = 1 + r.Intn(8)
			first = true
			b.WriteString(line)
		case strings.TrimSpace(line) == "":
			if r.Intn(2) == 0 {
				b.WriteString("   ")
			}
		default:
			// the first definition fixes the block's column; later ones may stand further right (Layout.wf_root)
			a := amt
			if !first {
				a += r.Intn(4) * r.Intn(2)
			}
			first = false
			b.WriteString(strings.Repeat(" ", a) + strings.TrimSpace(line))
		}
		switch r.Intn(8) {
		case 0:
			b.WriteString(" // c")
		case 1:
			b.WriteString("  ")
		case 2:
			b.WriteString("\n  // note")
		case 3:
			b.WriteString("\n")
		}
		b.WriteString("\n")
	}
	return b.String()
}
