package main

// C11: string, raw-string and interpolated literals denote exactly their text.
// Every single character 0x20-0x7E, \n, \t and a set of multi-byte UTF-8 sequences in each of the 4
// literal forms (alone and between neighbours), every escape of the grammar, then random bodies
// built from pieces (ordinary characters, escapes, \{ \}, holes over int/string/bool/slice/tuple
// variables, % everywhere).  Per case:
//  (i)  the Go expression text fc emits (hooked in-process fc, one function per request) vs
//       emit_text(emit(scan ...)) of the Coq model;
//  (ii) the value of that expression — evaluated in-process with go/parser + strconv.Unquote + the
//       real frt.SInterP for every case, and by compiling and running batches of the emitted
//       programs (real fc process, go build) — vs the model's run and denote AND vs the meaning
//       computed here in Go from the generator's own pieces.

import (
	"encoding/hex"
	"fmt"
	"go/ast"
	"go/parser"
	"go/token"
	"os"
	"path/filepath"
	"regexp"
	"strconv"
	"strings"

	"github.com/karino2/folang/pkg/frt"
)

type c11Piece struct {
	K string `json:"k"` // char | esc | brace | hole
	S string `json:"s"` // char: the bytes; esc/brace: the letter after the backslash; hole: the name
}

type c11Case struct {
	Idx     int        `json:"idx"`
	Form    string     `json:"form"` // str | raw | istr | iraw
	Pieces  []c11Piece `json:"pieces,omitempty"`
	BodyHex string     `json:"body_hex"`
	Kind    string     `json:"kind"`
	Grammar bool       `json:"in_grammar"` // body is in the property's grammar (built from admissible pieces)
	body    string
}

func (k *c11Case) Body() string {
	if k.body == "" && k.BodyHex != "" {
		d, _ := hex.DecodeString(k.BodyHex)
		k.body = string(d)
	}
	return k.body
}

var c11Open = map[string]string{"str": "\"", "raw": "`", "istr": "$\"", "iraw": "$`"}
var c11Close = map[string]string{"str": "\"", "raw": "`", "istr": "\"", "iraw": "`"}

func c11IsRaw(f string) bool    { return f == "raw" || f == "iraw" }
func c11IsInterp(f string) bool { return f == "istr" || f == "iraw" }

// the variables every literal function has in scope, with the values the drivers pass
var c11ParamDecl = map[string]string{"a": "(a:int)", "n": "(n:int)", "s": "(s:string)", "t": "(t:string)", "bb": "(bb:bool)",
	"xs": "(xs:[]int)", "tp": "(tp:int*string)", "ss": "(ss:[]string)", "fl": "(fl:float)"}

// package-level variables of the hand-written driver holding the values of c11Vals
const c11DriverVars = "var (\n\tvA = 42\n\tvN = -7\n\tvS = \"q%d{x}\\\\\\\"\"\n\tvT = \"\"\n\tvBb = true\n\tvXs = []int{1, 2, 3}\n\tvTp = frt.NewTuple2(7, \"x\")\n\tvSs = []string{\"a\", \"b c\"}\n)\n"

var c11DriverVar = map[string]string{"a": "vA", "n": "vN", "s": "vS", "t": "vT", "bb": "vBb", "xs": "vXs", "tp": "vTp", "ss": "vSs"}

// the variables a case's function takes: those its holes name (all of them for bodies not built from pieces)
func (k *c11Case) params() []string {
	if !k.Grammar {
		return c11Names
	}
	used := map[string]bool{}
	for _, p := range k.Pieces {
		if p.K == "hole" {
			used[p.S] = true
		}
	}
	var xs []string
	for _, n := range append(append([]string{}, c11Names...), "fl") {
		if used[n] {
			xs = append(xs, n)
		}
	}
	return xs
}

func (k *c11Case) paramDecls() string {
	ps := k.params()
	if len(ps) == 0 {
		return "()"
	}
	var xs []string
	for _, n := range ps {
		xs = append(xs, c11ParamDecl[n])
	}
	return strings.Join(xs, " ")
}

func (k *c11Case) driverArgs() string {
	var xs []string
	for _, n := range k.params() {
		xs = append(xs, c11DriverVar[n])
	}
	return strings.Join(xs, ", ")
}

var c11Vals = map[string]any{"a": 42, "n": -7, "s": "q%d{x}\\\"", "t": "", "bb": true, "xs": []int{1, 2, 3},
	"tp": frt.NewTuple2(7, "x"), "ss": []string{"a", "b c"}}
var c11Names = []string{"a", "n", "s", "t", "bb", "xs", "tp", "ss"}

// a float variable, used only by the hazard probe (frt.toS prints floats with %f, the property says %v)
const c11FloatVal = 1.5

func init() { c11Vals["fl"] = c11FloatVal }

// the display form the property defines: decimal for integers, the string itself, Go %v otherwise
func c11Display(v any) string {
	switch x := v.(type) {
	case int:
		return strconv.Itoa(x)
	case string:
		return x
	}
	return fmt.Sprintf("%v", v)
}

func c11OracleEnv() string {
	var xs []string
	for _, n := range c11Names {
		switch v := c11Vals[n].(type) {
		case int:
			xs = append(xs, fmt.Sprintf("(%s int %d)", Sq(n), v))
		case string:
			xs = append(xs, fmt.Sprintf("(%s str %s)", Sq(n), Sq(v)))
		case bool:
			xs = append(xs, fmt.Sprintf("(%s bool %v)", Sq(n), v))
		default:
			xs = append(xs, fmt.Sprintf("(%s other %s)", Sq(n), Sq(fmt.Sprintf("%v", v))))
		}
	}
	return "(" + strings.Join(xs, " ") + ")"
}

// is the character an ordinary character of the form (the property's grammar, written independently
// of the model: a quote / backtick ends the literal, a backslash starts an escape in "..." forms,
// { starts a hole in interpolated forms; a raw newline is an ordinary character of every form)
func c11OrdinaryChar(form string, ch string) bool {
	if ch == "\x00" {
		return false
	}
	switch form {
	case "str":
		return ch != "\"" && ch != "\\"
	case "istr":
		return ch != "\"" && ch != "\\" && ch != "{"
	case "raw":
		return ch != "`"
	}
	return ch != "`" && ch != "{"
}

func c11Spell(ps []c11Piece) string {
	var b strings.Builder
	for _, p := range ps {
		switch p.K {
		case "char":
			b.WriteString(p.S)
		case "esc", "brace":
			b.WriteString("\\" + p.S)
		case "hole":
			b.WriteString("{" + p.S + "}")
		}
	}
	return b.String()
}

// the meaning of a body per the property, from the generator's pieces
func c11Meaning(ps []c11Piece) string {
	var b strings.Builder
	for _, p := range ps {
		switch p.K {
		case "char", "brace":
			b.WriteString(p.S)
		case "esc":
			switch p.S {
			case "n":
				b.WriteString("\n")
			case "t":
				b.WriteString("\t")
			default:
				b.WriteString(p.S)
			}
		case "hole":
			b.WriteString(c11Display(c11Vals[p.S]))
		}
	}
	return b.String()
}

func c11Mk(form, kind string, ps []c11Piece) *c11Case {
	k := &c11Case{Form: form, Kind: kind, Pieces: ps, Grammar: true}
	k.body = c11Spell(ps)
	k.BodyHex = hex.EncodeToString([]byte(k.body))
	return k
}

func c11MkRawBody(form, kind, body string) *c11Case {
	return &c11Case{Form: form, Kind: kind, body: body, BodyHex: hex.EncodeToString([]byte(body))}
}

func (k *c11Case) source(standalone bool) string {
	var b strings.Builder
	if standalone {
		b.WriteString("package main\n\nimport frt\n\n")
	}
	fmt.Fprintf(&b, "let l%d %s = %s%s%s\n\n", k.Idx, k.paramDecls(), c11Open[k.Form], k.Body(), c11Close[k.Form])
	return b.String()
}

var c11Multi = []string{"\u00e9", "\u00df", "\u3042", "\u6f22", "\U0001F600", "e\u0301", "\u00a0", "\u200b", "\ufffd", "\u2028", "\u201c"}

func c11Singles() []string {
	var xs []string
	for c := 0x20; c <= 0x7e; c++ {
		xs = append(xs, string([]byte{byte(c)}))
	}
	xs = append(xs, "\n", "\t")
	xs = append(xs, c11Multi...)
	return xs
}

// ---- code-point sweep: "every single character" over Unicode instead of a hand-picked list

// space-like, invisible, or otherwise easily "normalised" code points (always swept, and mixed into
// random bodies)
func c11SpecialRunes() []rune {
	rs := []rune{0x0085, 0x00A0, 0x00AD, 0x061C, 0x115F, 0x1160, 0x1680, 0x180E, 0x2028, 0x2029, 0x202F, 0x205F, 0x2060,
		0x2061, 0x2062, 0x2063, 0x2064, 0x2800, 0x3000, 0x3164, 0xFFA0, 0xFFFD, 0xFFFE, 0xFFFF, 0xFFF9, 0xFFFA, 0xFFFB,
		0x00B7, 0x2212, 0x2018, 0x2019, 0x201C, 0x201D, 0x2026, 0x00D7, 0x212A, 0x2126, 0x00C5, 0x212B, 0xFB01, 0x1E9E, 0x0130, 0x0131}
	add := func(lo, hi rune) {
		for r := lo; r <= hi; r++ {
			rs = append(rs, r)
		}
	}
	add(0x2000, 0x200F) // en/em spaces, zero-width space / joiners, direction marks
	add(0x202A, 0x202E) // bidi embedding controls
	add(0x2066, 0x206F)
	add(0x0300, 0x036F) // combining marks
	add(0xFE00, 0xFE0F) // variation selectors
	add(0xFF01, 0xFF5E) // full-width ASCII
	add(0x3001, 0x3003)
	return rs
}

// U+FEFF: both scanners write it as the escape \ufeff (Go rejects a raw byte order mark anywhere but at
// the start of a file)
const c11BOM = 0xFEFF

func c11SweepRunes(thorough bool) []rune {
	seen := map[rune]bool{}
	var out []rune
	add := func(r rune) {
		if r >= 0xD800 && r <= 0xDFFF || r < 0x80 || r > 0x10FFFF || seen[r] {
			return
		}
		seen[r] = true
		out = append(out, r)
	}
	add(c11BOM)
	for _, r := range c11SpecialRunes() {
		add(r)
	}
	for r := rune(0x80); r <= 0x7FF; r++ {
		add(r)
	}
	step := rune(16)
	if thorough {
		step = 1
	}
	for r := rune(0x800); r <= 0xFFFF; r += step {
		add(r)
	}
	// astral planes
	for _, r := range []rune{0x10000, 0x10FFFF, 0x10FFFE, 0x1D173, 0x1F1E6, 0x20000, 0x2FA1D, 0x30000, 0xE0001, 0xE0100, 0xE01EF, 0xF0000, 0x100000, 0x1F3FB, 0x1F9D1} {
		add(r)
	}
	if thorough {
		for r := rune(0x1F000); r <= 0x1FAFF; r++ {
			add(r)
		}
		for r := rune(0xE0000); r <= 0xE01EF; r++ {
			add(r)
		}
		for r := rune(0x10000); r <= 0x10FFFF; r += 257 {
			add(r)
		}
	} else {
		for r := rune(0x1F300); r <= 0x1F64F; r += 8 {
			add(r)
		}
		for r := rune(0xE0020); r <= 0xE007F; r += 8 {
			add(r)
		}
	}
	return out
}

// sweep cases: [per] code points per literal, each at a different place (start, after a letter, ...),
// every group in each of the 4 forms; evaluated in-process only
func c11SweepCases(c *Ctx) []*c11Case {
	rs := c11SweepRunes(c.Thorough())
	per := c.Pick(1, 4)
	c.CountN("sweep_code_points", len(rs))
	var cases []*c11Case
	letters := "abcdefgh"
	for _, f := range []string{"str", "raw", "istr", "iraw"} {
		for i := 0; i < len(rs); i += per {
			var ps []c11Piece
			for j := i; j < i+per && j < len(rs); j++ {
				if j > i {
					ps = append(ps, c11Piece{"char", string(letters[(j-i)%len(letters)])})
				}
				ps = append(ps, c11Piece{"char", string(rs[j])})
			}
			cases = append(cases, c11Mk(f, "sweep", ps))
		}
		// the byte order mark: alone, between letters, doubled, its first bytes alone, next to escapes / holes / %
		bom := c11Piece{"char", string(rune(c11BOM))}
		chp := func(x string) c11Piece { return c11Piece{"char", x} }
		cases = append(cases, c11Mk(f, "bom", []c11Piece{bom}),
			c11Mk(f, "bom", []c11Piece{chp("a"), bom, chp("b")}),
			c11Mk(f, "bom", []c11Piece{bom, bom, chp("%"), bom}),
			c11Mk(f, "bom", []c11Piece{chp("\u00ef"), bom, chp("\u00bb"), chp("\u00bf"), bom, chp("\ufefe")}))
		if !c11IsRaw(f) {
			cases = append(cases, c11Mk(f, "bom", []c11Piece{{"esc", "n"}, bom, {"esc", "\\"}, bom, {"esc", "\""}}))
		}
		if c11IsInterp(f) {
			cases = append(cases, c11Mk(f, "bom", []c11Piece{{"hole", "a"}, bom, {"hole", "s"}, bom}))
		}
	}
	return cases
}

func c11Gen(c *Ctx, rng *Rng) []*c11Case {
	var cases []*c11Case
	forms := []string{"str", "raw", "istr", "iraw"}
	ch := func(s string) c11Piece { return c11Piece{"char", s} }
	for _, f := range forms {
		// every single character: alone, between letters, doubled, next to a hole / percent
		for _, x := range c11Singles() {
			if !c11OrdinaryChar(f, x) {
				c.Count("single_not_an_ordinary_character_of_the_form")
				continue
			}
			cases = append(cases, c11Mk(f, "single", []c11Piece{ch(x)}))
			cases = append(cases, c11Mk(f, "single-between", []c11Piece{ch("a"), ch(x), ch("b")}))
			cases = append(cases, c11Mk(f, "single-doubled", []c11Piece{ch(x), ch(x)}))
			if c11IsInterp(f) {
				cases = append(cases, c11Mk(f, "single-by-hole", []c11Piece{{"hole", "a"}, ch(x), {"hole", "s"}, ch(x)}))
			} else {
				cases = append(cases, c11Mk(f, "single-by-percent", []c11Piece{ch("%"), ch(x), ch("%"), ch("s"), ch(x)}))
			}
		}
		cases = append(cases, c11Mk(f, "empty", nil))
		// raw newlines: alone (covered by the singles), repeated, next to the \n escape, at both ends
		cases = append(cases, c11Mk(f, "newline", []c11Piece{ch("\n"), ch("a"), ch("\n"), ch("\n"), ch("b"), ch("\n")}))
		if !c11IsRaw(f) {
			cases = append(cases, c11Mk(f, "newline", []c11Piece{ch("\n"), {"esc", "n"}, ch("\n"), {"esc", "\\"}, ch("n"), ch("\n")}))
		}
		if c11IsInterp(f) {
			cases = append(cases, c11Mk(f, "newline", []c11Piece{{"hole", "a"}, ch("\n"), {"hole", "s"}, ch("\n"), ch("%"), ch("\n")}))
		}
		// every escape of the grammar
		if !c11IsRaw(f) {
			for _, e := range []string{"n", "t", "\\", "\""} {
				cases = append(cases, c11Mk(f, "escape", []c11Piece{{"esc", e}}))
				cases = append(cases, c11Mk(f, "escape-between", []c11Piece{ch("a"), {"esc", e}, ch("b"), {"esc", e}, {"esc", e}}))
				for _, y := range []string{"%", "}", "n", "'", "é"} {
					cases = append(cases, c11Mk(f, "escape-neighbour", []c11Piece{ch(y), {"esc", e}, ch(y)}))
				}
			}
		}
		if f == "istr" {
			for _, e := range []string{"{", "}"} {
				cases = append(cases, c11Mk(f, "brace", []c11Piece{{"brace", e}}))
				cases = append(cases, c11Mk(f, "brace-between", []c11Piece{ch("a"), {"brace", e}, ch("b")}))
			}
			cases = append(cases, c11Mk(f, "brace-pair", []c11Piece{{"brace", "{"}, ch("a"), {"brace", "}"}}))
			cases = append(cases, c11Mk(f, "brace-hole", []c11Piece{{"brace", "{"}, {"hole", "a"}, {"brace", "}"}}))
			cases = append(cases, c11Mk(f, "escape-brace", []c11Piece{{"esc", "\\"}, {"brace", "{"}, {"esc", "\\"}, {"hole", "a"}}))
		}
		if c11IsInterp(f) {
			for _, n := range c11Names {
				cases = append(cases, c11Mk(f, "hole", []c11Piece{{"hole", n}}))
				cases = append(cases, c11Mk(f, "hole-between", []c11Piece{ch("<"), {"hole", n}, ch(">"), {"hole", n}}))
				cases = append(cases, c11Mk(f, "hole-percent", []c11Piece{ch("%"), {"hole", n}, ch("%"), ch("d"), {"hole", n}, ch("%")}))
			}
		}
	}
	for _, f := range []string{"istr", "iraw"} {
		k := c11Mk(f, "hazard-float", []c11Piece{{"hole", "fl"}})
		cases = append(cases, k)
	}
	// out-of-grammar probes: only the correspondence with the model is checked on these
	for _, p := range []struct{ f, body string }{
		{"str", `a\qb`}, {"str", `\x41\101`}, {"str", `\'`}, {"str", `\r\a\b\f\v`}, {"str", `\u00e9`}, {"str", `\x4`}, {"str", `\400`},
		{"istr", `\%d`}, {"istr", `{a`}, {"istr", `{}`}, {"istr", `{a+1}`}, {"istr", `{zz}`}, {"istr", `\x25s{a}`}, {"istr", `{a}}`},
		{"iraw", `{a`}, {"iraw", `\{a}`}, {"iraw", `{a b}`}, {"iraw", "{\n}"}, {"raw", "a\rb"}, {"str", "a\rb"}, {"str", "a\\\nb"}, {"istr", "a\\\nb"},
	} {
		cases = append(cases, c11MkRawBody(p.f, "probe", p.body))
	}
	cases = append(cases, c11SweepCases(c)...)
	special := c11SpecialRunes()
	// random bodies
	nrand := c.Pick(1500, 24000)
	for i := 0; i < nrand; i++ {
		f := forms[rng.Intn(4)]
		n := rng.Intn(14)
		if rng.Chance(1, 10) {
			n = 14 + rng.Intn(40)
		}
		var ps []c11Piece
		for j := 0; j < n; j++ {
			r := rng.Intn(100)
			switch {
			case r < 22 && c11IsInterp(f):
				ps = append(ps, c11Piece{"hole", Choose(rng, c11Names)})
			case r < 34 && !c11IsRaw(f):
				ps = append(ps, c11Piece{"esc", Choose(rng, []string{"n", "t", "\\", "\""})})
			case r < 42 && f == "istr":
				ps = append(ps, c11Piece{"brace", Choose(rng, []string{"{", "}"})})
			default:
				var x string
				switch q := rng.Intn(10); {
				case q < 4:
					x = Choose(rng, []string{"%", "%", "\\", "\"", "{", "}", "`", "'", "$", "\n", "\t", "s", "d", "v", "n", "t", "x", "0", " "})
				case q < 5:
					switch rng.Intn(4) {
					case 0:
						x = Choose(rng, c11Multi)
					case 1:
						x = string(Choose(rng, special))
					case 2:
						x = string(Choose(rng, []rune{0x3000, 0x00A0, 0x2003, 0x200B, 0x2028, 0xFF01, 0xFF20, 0x0301, 0xFFFD, c11BOM, c11BOM}))
					default:
						r := rune(0x80 + rng.Intn(0xFFFF-0x80))
						if r >= 0xD800 && r <= 0xDFFF {
							r = 0x3042
						}
						x = string(r)
					}
				default:
					x = string([]byte{byte(0x20 + rng.Intn(0x5f))})
				}
				if !c11OrdinaryChar(f, x) {
					x = "%"
				}
				ps = append(ps, ch(x))
			}
		}
		cases = append(cases, c11Mk(f, "random", ps))
	}
	for i, k := range cases {
		k.Idx = i
	}
	return cases
}

// ---------------------------------------------------------------- observation

var c11RetRe = regexp.MustCompile(`(?s)\nreturn (.*)\n}\n*$`)

type c11Obs struct {
	ok      bool   // fc accepted
	err     string // fc's panic message
	expr    string // the emitted Go expression text
	evalOK  bool   // the expression is valid Go of the expected shape and was evaluated
	evalErr string
	val     string
}

func c11Observe(srv *FcSrv, k *c11Case) c11Obs {
	r := srv.Transpile(SrcFile{"m.fo", k.source(true)})
	if !r.Ok {
		return c11Obs{err: r.Err}
	}
	o := c11Obs{ok: true}
	m := c11RetRe.FindStringSubmatch(r.Outs["gen_m.go"])
	if m == nil {
		o.evalErr = "no return statement in the emitted function"
		return o
	}
	o.expr = m[1]
	o.val, o.evalErr = c11Eval(o.expr)
	o.evalOK = o.evalErr == ""
	return o
}

// several in-grammar cases in one request; falls back to one request per case when anything is unusual
func c11ObserveMany(srv *FcSrv, ks []*c11Case) []c11Obs {
	obs := make([]c11Obs, len(ks))
	single := func() []c11Obs {
		for i, k := range ks {
			obs[i] = c11Observe(srv, k)
		}
		return obs
	}
	if len(ks) == 1 {
		return single()
	}
	var src strings.Builder
	src.WriteString("package main\n\nimport frt\n\n")
	for _, k := range ks {
		if !k.Grammar {
			return single()
		}
		src.WriteString(k.source(false))
	}
	r := srv.Transpile(SrcFile{"m.fo", src.String()})
	if !r.Ok {
		return single()
	}
	out := r.Outs["gen_m.go"]
	pos := make([]int, len(ks)+1)
	for i, k := range ks {
		pos[i] = strings.Index(out, fmt.Sprintf("\nfunc l%d(", k.Idx))
		if pos[i] < 0 || (i > 0 && pos[i] <= pos[i-1]) {
			return single()
		}
	}
	pos[len(ks)] = len(out)
	for i := range ks {
		o := c11Obs{ok: true}
		m := c11RetRe.FindStringSubmatch(out[pos[i]:pos[i+1]])
		if m == nil {
			return single()
		}
		o.expr = m[1]
		o.val, o.evalErr = c11Eval(o.expr)
		o.evalOK = o.evalErr == ""
		obs[i] = o
	}
	return obs
}

// evaluate the emitted expression with Go's own parser, Go's literal unquoting and the scratch
// tree's frt.SInterP; "" error on success
func c11Eval(expr string) (string, string) {
	fset := token.NewFileSet()
	f, err := parser.ParseFile(fset, "e.go", "package p\nvar _ = "+expr+"\n", 0)
	if err != nil {
		return "", "go/parser: " + err.Error()
	}
	if len(f.Decls) != 1 {
		return "", "go/parser: the expression does not stay one expression"
	}
	vs := f.Decls[0].(*ast.GenDecl).Specs[0].(*ast.ValueSpec)
	if len(vs.Values) != 1 {
		return "", "go/parser: not one expression"
	}
	unq := func(e ast.Expr) (string, bool) {
		bl, ok := e.(*ast.BasicLit)
		if !ok || bl.Kind != token.STRING {
			return "", false
		}
		s, err := strconv.Unquote(bl.Value)
		return s, err == nil
	}
	switch e := vs.Values[0].(type) {
	case *ast.BasicLit:
		s, ok := unq(e)
		if !ok {
			return "", "not a string literal"
		}
		return s, ""
	case *ast.CallExpr:
		sel, ok := e.Fun.(*ast.SelectorExpr)
		if !ok || sel.Sel.Name != "SInterP" || len(e.Args) < 1 {
			return "", "not a call of frt.SInterP"
		}
		fm, ok := unq(e.Args[0])
		if !ok {
			return "", "format is not a string literal"
		}
		var args []any
		for _, a := range e.Args[1:] {
			id, ok := a.(*ast.Ident)
			if !ok {
				return "", "unmodelled: argument is not an identifier"
			}
			v, ok := c11Vals[id.Name]
			if !ok {
				return "", "undefined: " + id.Name
			}
			args = append(args, v)
		}
		return frt.SInterP(fm, args...), ""
	}
	return "", "unexpected expression shape"
}

type c11Model struct {
	emit    string // text | SCANPANIC | MISALIGNED | INTERPPANIC
	emitOK  bool
	run     string // OK | COMPILE_ERROR | UNMODELLED | -
	runVal  string
	denote  string
	inGram  bool
	rawLine string
}

func c11Ask(or *Oracle, k *c11Case) c11Model {
	line := or.Ask("C11", fmt.Sprintf("(lit %s %s %s)", k.Form, c11OracleEnv(), Sq(k.Body())))
	m := c11Model{rawLine: line}
	rest := strings.TrimPrefix(line, "EMIT ")
	if strings.HasPrefix(rest, "\"") {
		q := c15QuotedPrefix(rest)
		m.emit, m.emitOK = Unsq(q), true
		rest = rest[len(q):]
	} else {
		i := strings.Index(rest, " ")
		m.emit = rest[:i]
		rest = rest[i:]
	}
	rest = strings.TrimPrefix(rest, " RUN ")
	switch {
	case strings.HasPrefix(rest, "OK "):
		q := c15QuotedPrefix(rest[3:])
		m.run, m.runVal = "OK", Unsq(q)
		rest = rest[3+len(q):]
	default:
		i := strings.Index(rest, " ")
		m.run = rest[:i]
		rest = rest[i:]
	}
	rest = strings.TrimPrefix(rest, " DENOTE ")
	if strings.HasPrefix(rest, "\"") {
		m.denote, m.inGram = Unsq(c15QuotedPrefix(rest)), true
	}
	return m
}

// the property on one case, independent of the model: "" when it holds
func c11Property(k *c11Case, o c11Obs) string {
	if !k.Grammar {
		return ""
	}
	want := c11Meaning(k.Pieces)
	lit := c11Open[k.Form] + k.Body() + c11Close[k.Form]
	if !o.ok {
		return fmt.Sprintf("fc rejects the literal %q: %s", lit, firstLine(o.err))
	}
	if !o.evalOK {
		return fmt.Sprintf("the literal %q is emitted as %s which is not a valid Go expression of the documented shape: %s", lit, o.expr, o.evalErr)
	}
	if o.val != want {
		return fmt.Sprintf("the literal %q evaluates to %q, its text is %q", lit, o.val, want)
	}
	return ""
}

func runC11(c *Ctx) {
	rng := NewRng(c.Seed)
	c.Res.Rule = "every single character 0x20-0x7E, newline, tab and 11 multi-byte UTF-8 sequences that is an ordinary character of the form, in each of the 4 forms " +
		"(alone, between letters, doubled, next to holes / percent signs; exhaustive); a code-point sweep in each of the 4 forms, evaluated in-process: " +
		"all of U+0080..U+07FF, every 16th code point of the rest of the BMP (quick) or every BMP code point (thorough) without surrogates, a fixed list of " +
		"space-like / invisible / easily normalised code points (U+00A0 U+00AD U+1680 U+2000..U+200F U+2028 U+2029 U+202F U+205F U+2060 U+3000 U+FFFD, combining marks " +
		"U+0300..U+036F, variation selectors, full-width ASCII U+FF01..U+FF5E, ...), astral samples (U+1F300..U+1F64F every 8th, U+10000, U+10FFFF, tags U+E0020.. (quick); " +
		"U+1F000..U+1FAFF, U+E0000..U+E01EF and every 257th astral code point (thorough)), U+FEFF alone / doubled / next to escapes and holes; every escape of the grammar alone and with neighbours, " +
		"\\{ \\} and every hole variable (int, string with % { } \\ \", empty string, bool, []int, tuple, []string) in both interpolated forms, " +
		"then random bodies of 0-53 pieces biased to % \\ \" { } ` ' newline tab and multi-byte characters; " +
		"non-trivial = non-empty body; distinct by (form, body)"
	c.Res.Exhaustive = true
	cases := c11Gen(c, rng)
	if c.Replay != "" {
		cases = c11LoadReplay(c.Replay)
	}
	c.Lap("generate")
	obs := make([]c11Obs, len(cases))
	pool := c.NewFcPool(8)
	// groups of in-grammar cases share a request; probes and hazards go alone
	var groups [][2]int
	for i := 0; i < len(cases); {
		j := i + 1
		if cases[i].Grammar {
			for j < len(cases) && j-i < 40 && cases[j].Grammar {
				j++
			}
		}
		groups = append(groups, [2]int{i, j})
		i = j
	}
	Parallel(len(groups), func(gi int) {
		s := pool.Get()
		defer pool.Put(s)
		g := groups[gi]
		copy(obs[g[0]:g[1]], c11ObserveMany(s, cases[g[0]:g[1]]))
	})
	c.Lap("server")
	or := c.Oracle()
	shrinkSrv := pool.Get()
	defer func() { pool.Put(shrinkSrv); pool.Close() }()
	nprop, ncorr := 0, 0
	var runnable []*c11Case
	for i, k := range cases {
		o := obs[i]
		c.Eval(k.Form+"|"+k.BodyHex, len(k.Body()) > 0)
		c.Count("form=" + k.Form)
		c.Count("kind=" + k.Kind)
		for _, p := range k.Pieces {
			c.Count("piece=" + p.K)
		}
		if i%499 == 3 {
			c.Sample(map[string]any{"literal": c11Open[k.Form] + k.Body() + c11Close[k.Form], "emitted": o.expr, "value": o.val})
		}
		if k.Kind == "hazard-float" {
			// "Go %v otherwise": a float hole is printed with %f by frt.toS (1.500000, not 1.5)
			if o.ok && o.evalOK && o.val == fmt.Sprintf("%f", c11FloatVal) && o.val != c11Meaning(k.Pieces) {
				c.Known("C11-float-hole-printed-with-%f")
				c.Count("hazard_float_hole_is_printed_with_%f_not_%v")
				continue
			}
			if bad := c11Property(k, o); bad != "" {
				c.Violate("prop", bad, map[string]any{"case": k, "source": k.source(true), "emitted": o.expr}, false)
			}
			continue
		}
		m := c11Ask(or, k)
		c.Compared(1)
		bad := c11Property(k, o)
		disagree := ""
		switch {
		case k.Grammar && !m.inGram:
			disagree = "the model's grammar (lex/ok_piece) rejects a body the generator built from admissible pieces"
		case k.Grammar && m.denote != c11Meaning(k.Pieces):
			disagree = fmt.Sprintf("the model's denote %q differs from the meaning computed from the pieces %q", m.denote, c11Meaning(k.Pieces))
		case !k.Grammar && m.inGram:
			// fine: a probe may happen to be in the grammar; then the model's denote is the expectation
			if o.ok && o.evalOK && o.val != m.denote {
				disagree = fmt.Sprintf("in-grammar probe evaluates to %q, model denote %q", o.val, m.denote)
			}
		}
		if disagree == "" {
			switch {
			case !o.ok && m.emitOK:
				disagree = "fc rejects (" + firstLine(o.err) + "), the model emits " + m.emit
			case o.ok && !m.emitOK:
				disagree = "fc emits " + o.expr + ", the model says " + m.emit
			case o.ok && o.expr != m.emit:
				disagree = fmt.Sprintf("fc emits %s, the model emits %s", o.expr, m.emit)
			case o.ok && m.run == "OK" && (!o.evalOK || o.val != m.runVal):
				disagree = fmt.Sprintf("the emitted expression evaluates to %q (%s), the model's run gives %q", o.val, o.evalErr, m.runVal)
			case o.ok && m.run == "COMPILE_ERROR" && o.evalOK:
				disagree = fmt.Sprintf("the model predicts a Go compile error, the expression evaluates to %q", o.val)
			}
		}
		if disagree != "" {
			c.Disagree()
		}
		if bad != "" {
			c.Count("property_failures")
			nprop++
			if nprop <= 3 {
				small := c11Shrink(shrinkSrv, k)
				so := c11Observe(shrinkSrv, small)
				c.Violate("prop", c11Property(small, so), map[string]any{"case": small, "source": small.source(true),
					"emitted": so.expr, "value_hex": hex.EncodeToString([]byte(so.val)), "expected_hex": hex.EncodeToString([]byte(c11Meaning(small.Pieces))),
					"first_failing_case": k, "model": m.rawLine}, false)
			}
		} else if disagree != "" {
			ncorr++
			if ncorr <= 3 {
				c.Violate("corr", "correspondence StrLit (scan/emit/run/denote) vs fc broke (the property itself holds on this input): "+disagree,
					map[string]any{"broken": "correspondence C11 StrLit.v vs fc", "case": k, "source": k.source(true), "emitted": o.expr, "model": m.rawLine}, true)
			}
		}
		if k.Grammar && bad == "" && k.Kind != "sweep" {
			runnable = append(runnable, k)
		}
	}
	c.Lap("compare")
	if c.Replay == "" {
		c11Batches(c, runnable)
		c.Lap("batches")
	}
}

func c11Shrink(srv *FcSrv, k *c11Case) *c11Case {
	fails := func(ps []c11Piece) bool {
		cand := c11Mk(k.Form, k.Kind, ps)
		cand.Idx = k.Idx
		return c11Property(cand, c11Observe(srv, cand)) != ""
	}
	if len(k.Pieces) < 2 || !fails(k.Pieces) {
		return k
	}
	ps := Ddmin(k.Pieces, fails)
	s := c11Mk(k.Form, k.Kind, ps)
	s.Idx = k.Idx
	return s
}

var c11BuildErrRe = regexp.MustCompile(`gen_m\.go:(\d+):\d+: (.*)`)

// compile and run the emitted programs for real: fc process -> go build -> run; printed values (hex)
// vs the meaning of the pieces
func c11Batches(c *Ctx, ks []*c11Case) {
	per := c.Pick(500, 1500)
	maxBatches := c.Pick(1, 40)
	if !c.Thorough() {
		// quick: one program with every single-character, escape, brace and hole case that stands alone,
		// the rest of the budget random bodies (every case was already evaluated in-process)
		var sel, other []*c11Case
		for _, k := range ks {
			switch k.Kind {
			case "single", "escape", "brace", "hole", "empty", "brace-hole", "escape-brace", "hole-percent", "newline", "bom":
				sel = append(sel, k)
			case "random":
				other = append(other, k)
			}
		}
		for _, k := range other {
			if len(sel) < per {
				sel = append(sel, k)
			}
		}
		ks = sel
	}
	var starts []int
	for s := 0; s < len(ks) && len(starts) < maxBatches; s += per {
		starts = append(starts, s)
	}
	sem := make(chan struct{}, 4) // at most 4 go builds at a time
	Parallel(len(starts), func(bi int) {
		sem <- struct{}{}
		defer func() { <-sem }()
		lo := starts[bi]
		hi := lo + per
		if hi > len(ks) {
			hi = len(ks)
		}
		batch := ks[lo:hi]
		dir := filepath.Join(c.Work, fmt.Sprintf("batch%d", bi))
		os.MkdirAll(dir, 0o755)
		defer os.RemoveAll(dir)
		var src, mainb strings.Builder
		src.WriteString("package main\n\nimport frt\n\n")
		for _, k := range batch {
			src.WriteString(k.source(false))
			fmt.Fprintf(&mainb, "\tfmt.Printf(\"%%d %%x\\n\", %d, l%d(%s))\n", k.Idx, k.Idx, k.driverArgs())
		}
		MustWrite(filepath.Join(dir, "m.fo"), src.String())
		MustWrite(filepath.Join(dir, "main.go"), "package main\n\nimport (\n\t\"fmt\"\n\n\t\"github.com/karino2/folang/pkg/frt\"\n)\n\nvar _ = frt.Println\n\n"+c11DriverVars+"\nfunc main() {\n"+mainb.String()+"}\n")
		// (a longer limit than c.Fc: the batch has thousands of functions and the machine may be busy)
		r := Run(dir, 300e9, 0, []string{"GOMAXPROCS=2"}, filepath.Join(c.Bin, "fc"), "m.fo")
		c.Count("real_process_runs")
		if r.TimedOut {
			panic("fc timed out on a batch of literal functions (machine overloaded?)")
		}
		if r.Exit != 0 {
			c.Violate("batch", "literals accepted one by one are rejected together: "+firstLine(r.Stdout+r.Stderr), map[string]any{"source": src.String(), "fc_output": r.Stdout + r.Stderr, "exit": r.Exit}, false)
			return
		}
		c.GoModFor(dir, "c11batch")
		br := Run(dir, 1500e9, 0, goEnv, "go", "build", "-o", "prog", ".")
		if br.TimedOut {
			panic("go build of a batch of literal programs timed out (machine overloaded?)")
		}
		if out, ok := br.Stdout+br.Stderr, br.Exit == 0; !ok {
			// name the literal(s) the compiler complains about
			gen, _ := os.ReadFile(filepath.Join(dir, "gen_m.go"))
			lines := strings.Split(string(gen), "\n")
			byIdx := map[int]*c11Case{}
			for _, k := range batch {
				byIdx[k.Idx] = k
			}
			reported := 0
			for _, m := range c11BuildErrRe.FindAllStringSubmatch(out, -1) {
				ln, _ := strconv.Atoi(m[1])
				for j := ln - 1; j >= 0 && j < len(lines); j-- {
					var idx int
					if n, _ := fmt.Sscanf(lines[j], "func l%d(", &idx); n == 1 {
						if k := byIdx[idx]; k != nil && reported < 3 {
							reported++
							c.Violate("build", fmt.Sprintf("the Go emitted for the literal %s%s%s does not compile: %s", c11Open[k.Form], k.Body(), c11Close[k.Form], m[2]),
								map[string]any{"case": k, "source": k.source(true), "go_build": m[0]}, false)
						}
						break
					}
				}
			}
			if reported == 0 {
				c.Violate("build", "the emitted programs do not compile: "+firstLine(out), map[string]any{"go_build": out}, false)
			}
			return
		}
		rr := Run(dir, 120e9, 0, nil, filepath.Join(dir, "prog"))
		got := strings.Split(strings.TrimSuffix(rr.Stdout, "\n"), "\n")
		if rr.Exit != 0 || len(got) != len(batch) {
			c.Violate("run", "the compiled literal programs fail at run time: "+firstLine(rr.Stderr), map[string]any{"stderr": rr.Stderr}, false)
			return
		}
		c.CountN("compiled_and_run", len(batch))
		c.Compared(len(batch))
		for i, k := range batch {
			want := fmt.Sprintf("%d %x", k.Idx, c11Meaning(k.Pieces))
			if got[i] != want {
				c.Disagree()
				c.Violate("prop", fmt.Sprintf("the compiled program prints %q for the literal %s%s%s, expected %q", got[i], c11Open[k.Form], k.Body(), c11Close[k.Form], want),
					map[string]any{"case": k, "source": k.source(true), "printed": got[i], "expected": want}, false)
				break
			}
		}
	})
}

func c11LoadReplay(path string) []*c11Case {
	var doc struct {
		Replay struct {
			Case *c11Case `json:"case"`
		} `json:"replay"`
	}
	bs, err := os.ReadFile(path)
	if err != nil {
		panic(err)
	}
	if err := jsonUnmarshal(bs, &doc); err != nil || doc.Replay.Case == nil {
		panic("replay file has no case")
	}
	return []*c11Case{doc.Replay.Case}
}

func init() { Register("C11", runC11) }
