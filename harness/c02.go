package main

// C02: inferred Go signatures are the principal Folang types, mapped as documented.
//
// Two generators (both type-directed, own small typed AST):
//   * "rand":  random functions of the C02 domain built against an intended signature with rigid type
//              variables (parameters with/without annotations, calls of library generics and of
//              earlier user functions, records/unions, tuples, slices, destructuring, lambdas,
//              function-typed parameters used once);
//   * "shape": value-flow graphs (chains, stars, tuples-in-slices-in-function-types, helper generics
//              used at several instantiations) whose principal type is known *by construction*
//              (only bare fresh variables are ever refined), giving an expectation that is
//              independent of the Coq model;
//   * "hazard": generic records/unions whose type arguments have to flow through unification
//              (fc's compositeTp has no FRecord/FUnion case): reported as notes, not violations.
// For each program and every subset of its annotations erased (<= 2^6 variants):
//   (i)   signature emitted by fc (go/parser + go/printer) = sig_to_go (infer_fun ...) of the
//         extracted reference inference (Core/Infer.v), and = the by-construction expectation;
//   (ii)  all variants whose erased annotations are redundant (principal type unchanged according to
//         the reference inference) give byte-identical gen_*.go;
//   (iii) the emitted package passes go build and go vet (batched).

import (
	"bytes"
	"fmt"
	"go/ast"
	"go/parser"
	"go/printer"
	"go/token"
	"os"
	"sort"
	"strconv"
	"strings"
)

// ---------------------------------------------------------------- types

type c02Ty struct {
	K    string   `json:"k"` // int string bool slice tuple fun named var
	Args []*c02Ty `json:"a,omitempty"`
	Name string   `json:"n,omitempty"`
	V    int      `json:"v,omitempty"`
}

var (
	c02Int  = &c02Ty{K: "int"}
	c02Str  = &c02Ty{K: "string"}
	c02Bool = &c02Ty{K: "bool"}
)

func c02Slice(t *c02Ty) *c02Ty              { return &c02Ty{K: "slice", Args: []*c02Ty{t}} }
func c02Tuple(ts ...*c02Ty) *c02Ty          { return &c02Ty{K: "tuple", Args: ts} }
func c02Var(i int) *c02Ty                   { return &c02Ty{K: "var", V: i} }
func c02Named(n string, a ...*c02Ty) *c02Ty { return &c02Ty{K: "named", Name: n, Args: a} }
func c02Fun(args []*c02Ty, r *c02Ty) *c02Ty {
	return &c02Ty{K: "fun", Args: append(append([]*c02Ty{}, args...), r)}
}
func (t *c02Ty) funArgs() []*c02Ty { return t.Args[:len(t.Args)-1] }
func (t *c02Ty) funRes() *c02Ty    { return t.Args[len(t.Args)-1] }

func (t *c02Ty) key() string {
	switch t.K {
	case "var":
		return fmt.Sprintf("'%d", t.V)
	case "int", "string", "bool":
		return t.K
	}
	var xs []string
	for _, a := range t.Args {
		xs = append(xs, a.key())
	}
	return t.K + ":" + t.Name + "(" + strings.Join(xs, ",") + ")"
}
func c02Eq(a, b *c02Ty) bool { return a.key() == b.key() }

func (t *c02Ty) hasVar() bool {
	if t.K == "var" {
		return true
	}
	for _, a := range t.Args {
		if a.hasVar() {
			return true
		}
	}
	return false
}
func (t *c02Ty) hasFun() bool {
	if t.K == "fun" {
		return true
	}
	for _, a := range t.Args {
		if a.hasFun() {
			return true
		}
	}
	return false
}
func (t *c02Ty) hasGenericNamed() bool {
	if t.K == "named" && len(t.Args) > 0 {
		return true
	}
	for _, a := range t.Args {
		if a.hasGenericNamed() {
			return true
		}
	}
	return false
}
func (t *c02Ty) size() int {
	n := 1
	for _, a := range t.Args {
		n += a.size()
	}
	return n
}

func (t *c02Ty) subst(m map[int]*c02Ty) *c02Ty {
	if t.K == "var" {
		if u, ok := m[t.V]; ok {
			return u
		}
		return t
	}
	if len(t.Args) == 0 {
		return t
	}
	n := &c02Ty{K: t.K, Name: t.Name}
	for _, a := range t.Args {
		n.Args = append(n.Args, a.subst(m))
	}
	return n
}

// one-way matching: pattern variables are bound, the target's variables are constants
func c02Match(pat, tgt *c02Ty, m map[int]*c02Ty) bool {
	if pat.K == "var" {
		if u, ok := m[pat.V]; ok {
			return c02Eq(u, tgt)
		}
		m[pat.V] = tgt
		return true
	}
	if pat.K != tgt.K || pat.Name != tgt.Name || len(pat.Args) != len(tgt.Args) {
		return false
	}
	for i := range pat.Args {
		if !c02Match(pat.Args[i], tgt.Args[i], m) {
			return false
		}
	}
	return true
}

// Folang annotation syntax
func (t *c02Ty) fo() string {
	paren := func(a *c02Ty) string {
		if a.K == "tuple" || a.K == "fun" {
			return "(" + a.fo() + ")"
		}
		return a.fo()
	}
	switch t.K {
	case "slice":
		return "[]" + paren(t.Args[0])
	case "tuple":
		var xs []string
		for _, a := range t.Args {
			xs = append(xs, paren(a))
		}
		return strings.Join(xs, "*")
	case "fun":
		var xs []string
		for _, a := range t.Args {
			xs = append(xs, paren(a))
		}
		return strings.Join(xs, "->")
	case "named":
		if len(t.Args) == 0 {
			return t.Name
		}
		var xs []string
		for _, a := range t.Args {
			xs = append(xs, a.fo())
		}
		return t.Name + "<" + strings.Join(xs, ", ") + ">"
	case "var":
		return fmt.Sprintf("T%d", t.V)
	}
	return t.K
}

// s-expression for the oracle
func (t *c02Ty) sexp() string {
	var xs []string
	for _, a := range t.Args {
		xs = append(xs, a.sexp())
	}
	switch t.K {
	case "slice":
		return "(slice " + xs[0] + ")"
	case "tuple":
		return "(tuple " + strings.Join(xs, " ") + ")"
	case "fun":
		return "(fun (" + strings.Join(xs[:len(xs)-1], " ") + ") " + xs[len(xs)-1] + ")"
	case "named":
		if len(xs) == 0 {
			return "(named " + Sq(t.Name) + ")"
		}
		return "(named " + Sq(t.Name) + " " + strings.Join(xs, " ") + ")"
	case "var":
		return fmt.Sprintf("(tv %d)", t.V)
	}
	return t.K
}

// Go text in go/printer's layout; variables are printed through ren (rigid variable -> Tn)
func (t *c02Ty) goText(ren map[int]int) string {
	var xs []string
	for _, a := range t.Args {
		xs = append(xs, a.goText(ren))
	}
	switch t.K {
	case "slice":
		return "[]" + xs[0]
	case "tuple":
		return fmt.Sprintf("frt.Tuple%d[%s]", len(xs), strings.Join(xs, ", "))
	case "fun":
		return "func(" + strings.Join(xs[:len(xs)-1], ", ") + ") " + xs[len(xs)-1]
	case "named":
		if len(xs) == 0 {
			return t.Name
		}
		return t.Name + "[" + strings.Join(xs, ", ") + "]"
	case "var":
		return fmt.Sprintf("T%d", ren[t.V])
	}
	return t.K
}

func (t *c02Ty) firstOcc(order *[]int, seen map[int]bool) {
	if t.K == "var" {
		if !seen[t.V] {
			seen[t.V] = true
			*order = append(*order, t.V)
		}
		return
	}
	for _, a := range t.Args {
		a.firstOcc(order, seen)
	}
}

// the documented mapping, written independently of the Coq model: type parameters T0, T1, ...
// numbered by first occurrence in the parameter list, then the result
func c02ExpectedSig(name string, pnames []string, ptys []*c02Ty, rty *c02Ty) string {
	var order []int
	seen := map[int]bool{}
	for _, p := range ptys {
		p.firstOcc(&order, seen)
	}
	rty.firstOcc(&order, seen)
	ren := map[int]int{}
	for i, v := range order {
		ren[v] = i
	}
	var b strings.Builder
	b.WriteString("func " + name)
	if len(order) > 0 {
		var xs []string
		for i := range order {
			xs = append(xs, fmt.Sprintf("T%d any", i))
		}
		b.WriteString("[" + strings.Join(xs, ", ") + "]")
	}
	var ps []string
	for i, p := range ptys {
		ps = append(ps, pnames[i]+" "+p.goText(ren))
	}
	b.WriteString("(" + strings.Join(ps, ", ") + ") " + rty.goText(ren))
	return b.String()
}

// ---------------------------------------------------------------- declarations (fixed prelude)

type c02Member struct {
	Name string
	Ty   *c02Ty // nil: union case without payload
}
type c02Decl struct {
	Name    string
	K       int
	Record  bool
	Members []c02Member
	Builtin bool // not declared in the prelude (the type any)
}

var c02Any = c02Named("any")

// a record with a field of type any: every value is accepted for that field
func (d *c02Decl) hasAnyField() bool {
	for _, m := range d.Members {
		if m.Ty != nil && c02Eq(m.Ty, c02Any) {
			return true
		}
	}
	return false
}

var c02Decls = []*c02Decl{
	{Name: "any", Record: true, Builtin: true},
	{Name: "Ent", Record: true, Members: []c02Member{{"ETag", c02Str}, {"EPay", c02Any}}},
	{"Rec", 0, true, []c02Member{{"RX", c02Int}, {"RS", c02Str}}, false},
	{"Pt", 0, true, []c02Member{{"PA", c02Int}, {"PB", c02Int}, {"PL", c02Slice(c02Str)}}, false},
	{"Box", 1, true, []c02Member{{"BV", c02Var(0)}, {"BN", c02Int}}, false},
	{"Two", 2, true, []c02Member{{"TL", c02Var(0)}, {"TR", c02Var(1)}}, false},
	{"Shp", 0, false, []c02Member{{"Circ", c02Int}, {"Sq", c02Str}, {"Dot", nil}, {"Seg", c02Tuple(c02Int, c02Int)}}, false},
	{"Opt", 1, false, []c02Member{{"Som", c02Var(0)}, {"Non", nil}}, false},
}

func c02DeclOf(name string) *c02Decl {
	for _, d := range c02Decls {
		if d.Name == name {
			return d
		}
	}
	panic("unknown decl " + name)
}

// the declarations a piece of source text mentions (by type, field or case name); "" = all
func c02PreludeFor(text string) string {
	var b strings.Builder
	for _, d := range c02Decls {
		if d.Builtin {
			continue
		}
		if text != "" {
			need := strings.Contains(text, d.Name)
			for _, m := range d.Members {
				if strings.Contains(text, m.Name) {
					need = true
				}
			}
			if !need {
				continue
			}
		}
		tp := ""
		if d.K > 0 {
			var xs []string
			for i := 0; i < d.K; i++ {
				xs = append(xs, fmt.Sprintf("T%d", i))
			}
			tp = "<" + strings.Join(xs, ", ") + ">"
		}
		if d.Record {
			var fs []string
			for _, m := range d.Members {
				fs = append(fs, m.Name+": "+m.Ty.fo())
			}
			fmt.Fprintf(&b, "type %s%s = {%s}\n\n", d.Name, tp, strings.Join(fs, "; "))
		} else {
			fmt.Fprintf(&b, "type %s%s =\n", d.Name, tp)
			for _, m := range d.Members {
				if m.Ty == nil {
					fmt.Fprintf(&b, "  | %s\n", m.Name)
				} else {
					fmt.Fprintf(&b, "  | %s of %s\n", m.Name, m.Ty.fo())
				}
			}
			b.WriteString("\n")
		}
	}
	return b.String()
}

func c02Prelude() string { return c02PreludeFor("") }

func c02TypesSexp() string {
	var xs []string
	for _, d := range c02Decls {
		var ms []string
		for _, m := range d.Members {
			if m.Ty == nil {
				ms = append(ms, "("+Sq(m.Name)+")")
			} else {
				ms = append(ms, "("+Sq(m.Name)+" "+m.Ty.sexp()+")")
			}
		}
		kind := "union"
		if d.Record {
			kind = "record"
		}
		xs = append(xs, fmt.Sprintf("(%s %s %d %s)", kind, Sq(d.Name), d.K, strings.Join(ms, " ")))
	}
	return "(types " + strings.Join(xs, " ") + ")"
}

// ---------------------------------------------------------------- global signatures

type c02Sig struct {
	Name string   `json:"name"`
	K    int      `json:"k"`
	Args []*c02Ty `json:"args"`
	Res  *c02Ty   `json:"res"`
	User bool     `json:"user,omitempty"`
	Foi  string   `json:"-"` // the line of pkg_all.foi this entry transcribes
	// used by the families only (a literal format string without verbs would trip go vet's printf check)
	FamOnly bool `json:"-"`
}

// the signature as callers see it: a parameter declared any accepts every value (fc's compositeTp
// produces no relation for a non-variable argument against the concrete type any), i.e. it is a fresh
// type variable per reference
func (s *c02Sig) forCallers() *c02Sig {
	n := &c02Sig{Name: s.Name, K: s.K, Res: s.Res, User: s.User}
	for _, a := range s.Args {
		if c02Eq(a, c02Any) {
			n.Args = append(n.Args, c02Var(n.K))
			n.K++
		} else {
			n.Args = append(n.Args, a)
		}
	}
	return n
}

func (s *c02Sig) sexp() string {
	var xs []string
	for _, a := range s.Args {
		xs = append(xs, a.sexp())
	}
	return fmt.Sprintf("(%s %d (%s) %s)", Sq(s.Name), s.K, strings.Join(xs, " "), s.Res.sexp())
}

var c02Lib = func() []*c02Sig {
	a, b := c02Var(0), c02Var(1)
	f1 := func(x, r *c02Ty) *c02Ty { return c02Fun([]*c02Ty{x}, r) }
	return []*c02Sig{
		{Name: "frt.Fst", K: 2, Args: []*c02Ty{c02Tuple(a, b)}, Res: a, Foi: "let Fst<T, U> : T*U->T"},
		{Name: "frt.Sprintf1", K: 1, Args: []*c02Ty{c02Str, a}, Res: c02Str, Foi: "let Sprintf1<T>: string->T->string", FamOnly: true},
		{Name: "frt.Snd", K: 2, Args: []*c02Ty{c02Tuple(a, b)}, Res: b, Foi: "let Snd<T, U> : T*U->U"},
		{Name: "slice.Length", K: 1, Args: []*c02Ty{c02Slice(a)}, Res: c02Int, Foi: "let Length<T>: []T -> int"},
		{Name: "slice.Head", K: 1, Args: []*c02Ty{c02Slice(a)}, Res: a, Foi: "let Head<T>: []T -> T"},
		{Name: "slice.Last", K: 1, Args: []*c02Ty{c02Slice(a)}, Res: a, Foi: "let Last<T>: []T -> T"},
		{Name: "slice.Tail", K: 1, Args: []*c02Ty{c02Slice(a)}, Res: c02Slice(a), Foi: "let Tail<T>: []T -> []T"},
		{Name: "slice.Item", K: 1, Args: []*c02Ty{c02Int, c02Slice(a)}, Res: a, Foi: "let Item<T>: int -> []T -> T"},
		{Name: "slice.Take", K: 1, Args: []*c02Ty{c02Int, c02Slice(a)}, Res: c02Slice(a), Foi: "let Take<T> : int->[]T->[]T"},
		{Name: "slice.PushLast", K: 1, Args: []*c02Ty{a, c02Slice(a)}, Res: c02Slice(a), Foi: "let PushLast<T>: T->[]T->[]T"},
		{Name: "slice.Append", K: 1, Args: []*c02Ty{c02Slice(a), c02Slice(a)}, Res: c02Slice(a), Foi: "let Append<T>: []T->[]T->[]T"},
		{Name: "slice.Concat", K: 1, Args: []*c02Ty{c02Slice(c02Slice(a))}, Res: c02Slice(a), Foi: "let Concat<T>: [][]T->[]T"},
		{Name: "slice.Map", K: 2, Args: []*c02Ty{f1(a, b), c02Slice(a)}, Res: c02Slice(b), Foi: "let Map<T, U> : (T->U)->[]T->[]U"},
		{Name: "slice.Collect", K: 2, Args: []*c02Ty{f1(a, c02Slice(b)), c02Slice(a)}, Res: c02Slice(b), Foi: "let Collect<T, U>: (T->[]U)->[]T->[]U"},
		{Name: "slice.Filter", K: 1, Args: []*c02Ty{f1(a, c02Bool), c02Slice(a)}, Res: c02Slice(a), Foi: "let Filter<T> : (T->bool)->[]T->[]T"},
		{Name: "slice.Forall", K: 1, Args: []*c02Ty{f1(a, c02Bool), c02Slice(a)}, Res: c02Bool, Foi: "let Forall<T>: (T->bool)->[]T->bool"},
		{Name: "slice.Zip", K: 2, Args: []*c02Ty{c02Slice(a), c02Slice(b)}, Res: c02Slice(c02Tuple(a, b)), Foi: "let Zip<T, U>: []T->[]U->[](T*U)"},
		{Name: "slice.TryFind", K: 1, Args: []*c02Ty{f1(a, c02Bool), c02Slice(a)}, Res: c02Tuple(a, c02Bool), Foi: "let TryFind<T>: (T->bool)->[]T->T*bool"},
		// Fold<T, S>: (S->T->S)->S->[]T->S   (T = tv0, S = tv1)
		{Name: "slice.Fold", K: 2, Args: []*c02Ty{c02Fun([]*c02Ty{b, a}, b), b, c02Slice(a)}, Res: b, Foi: "let Fold<T, S>: (S->T->S)->S->[]T->S"},
	}
}()

func c02Foi() string {
	var frt, slice strings.Builder
	for _, s := range c02Lib {
		if strings.HasPrefix(s.Name, "frt.") {
			frt.WriteString("  " + s.Foi + "\n")
		} else {
			slice.WriteString("  " + s.Foi + "\n")
		}
	}
	return "package_info frt =\n" + frt.String() + "\npackage_info slice =\n" + slice.String() + "\n"
}

// every transcribed signature line must still be in the tree's pkg_all.foi (else the table the
// oracle is given no longer describes the library fc sees)
func c02CheckFoi(c *Ctx) {
	b, err := os.ReadFile(c.PkgAllFoi())
	if err != nil {
		panic(err)
	}
	norm := func(s string) string { return strings.Join(strings.Fields(s), "") }
	have := map[string]bool{}
	for _, l := range strings.Split(string(b), "\n") {
		have[norm(l)] = true
	}
	for _, s := range c02Lib {
		if !have[norm(s.Foi)] {
			c.Violate("foi", "library signature changed in pkg/pkg_all.foi: "+s.Foi,
				map[string]any{"broken": "transcribed signature table (harness/c02.go c02Lib) vs pkg/pkg_all.foi", "line": s.Foi}, true)
		}
	}
}

// ---------------------------------------------------------------- expressions

type c02Exp struct {
	K     string    `json:"k"`
	Name  string    `json:"n,omitempty"`  // variable / operator / record / union / global / binder
	Name2 string    `json:"m,omitempty"`  // case / field
	Xs    []string  `json:"xs,omitempty"` // binders of lettup ("_" allowed) / lam
	Args  []*c02Exp `json:"a,omitempty"`
	Lit   string    `json:"lit,omitempty"`
	Ty    *c02Ty    `json:"ty,omitempty"`   // field: the type of the field at this access (known to the generator)
	Block bool      `json:"blk,omitempty"`  // if: multi-line form (block level only)
	Elif  bool      `json:"elif,omitempty"` // a multi-line if that is the else branch of a multi-line if: printed as elif
}

func (e *c02Exp) inline() string {
	var xs []string
	if e.K != "let" && e.K != "lettup" {
		for _, a := range e.Args {
			xs = append(xs, a.inline())
		}
	}
	switch e.K {
	case "var":
		return e.Name
	case "int", "str", "bool":
		return e.Lit
	case "arith", "cmp", "eq":
		return "(" + xs[0] + " " + e.Name + " " + xs[1] + ")"
	case "tuple":
		return "(" + strings.Join(xs, ", ") + ")"
	case "slice":
		return "[" + strings.Join(xs, "; ") + "]"
	case "if":
		return "(if " + xs[0] + " then " + xs[1] + " else " + xs[2] + ")"
	case "record":
		d := c02DeclOf(e.Name)
		var fs []string
		for i, m := range d.Members {
			fs = append(fs, m.Name+"="+xs[i])
		}
		return "{" + strings.Join(fs, "; ") + "}"
	case "ctor":
		d := c02DeclOf(e.Name)
		if len(xs) == 0 {
			if d.K > 0 {
				return "(" + e.Name2 + " ())"
			}
			return e.Name2
		}
		return "(" + e.Name2 + " " + xs[0] + ")"
	case "field":
		return xs[0] + "." + e.Name2
	case "global":
		if len(xs) == 0 {
			return e.Name
		}
		return "(" + e.Name + " " + strings.Join(xs, " ") + ")"
	case "callp":
		return "(" + e.Name + " " + strings.Join(xs, " ") + ")"
	case "pipe": // x |> f, f a function-typed local
		return "(" + xs[0] + " |> " + e.Name + ")"
	case "pipeg": // x |> g a b, g a global applied to all but its last argument
		if len(xs) == 1 {
			return "(" + xs[0] + " |> " + e.Name + ")"
		}
		return "(" + xs[len(xs)-1] + " |> " + e.Name + " " + strings.Join(xs[:len(xs)-1], " ") + ")"
	case "lam":
		return "(fun " + strings.Join(e.Xs, " ") + " -> " + xs[0] + ")"
	}
	panic("inline: " + e.K)
}

func (e *c02Exp) block(ind string) []string {
	switch e.K {
	case "match":
		// match <target> with | Case v -> body ... : Args[0] = target, Args[1+i] = arm of case i (declaration
		// order, every case present), Xs[i] = its binder ("" = no payload, "_" = payload ignored)
		d := c02DeclOf(e.Name)
		out := []string{ind + "match " + e.Args[0].inline() + " with"}
		for i, m := range d.Members {
			pat := m.Name
			if m.Ty != nil {
				pat += " " + e.Xs[i]
			}
			out = append(out, ind+"| "+pat+" -> "+e.Args[1+i].inline())
		}
		return out
	case "let":
		return append([]string{ind + "let " + e.Name + " = " + e.Args[0].inline()}, e.Args[1].block(ind)...)
	case "lettup":
		return append([]string{ind + "let (" + strings.Join(e.Xs, ", ") + ") = " + e.Args[0].inline()}, e.Args[1].block(ind)...)
	case "if":
		if e.Block {
			out := []string{ind + "if " + e.Args[0].inline() + " then"}
			out = append(out, e.Args[1].block(ind+"  ")...)
			for el := e.Args[2]; ; el = el.Args[2] {
				if el.K == "if" && el.Block && el.Elif {
					out = append(out, ind+"elif "+el.Args[0].inline()+" then")
					out = append(out, el.Args[1].block(ind+"  ")...)
					continue
				}
				out = append(out, ind+"else")
				return append(out, el.block(ind+"  ")...)
			}
		}
	}
	return []string{ind + e.inline()}
}

// blind: field accesses become an unconstrained generic (a -> b): what is determined without
// resolving a record from a field name
func (e *c02Exp) sexp(blind bool) string {
	var xs []string
	for _, a := range e.Args {
		xs = append(xs, a.sexp(blind))
	}
	j := strings.Join(xs, " ")
	switch e.K {
	case "var":
		return "(var " + Sq(e.Name) + ")"
	case "int", "str", "bool":
		return "(" + e.K + ")"
	case "arith", "cmp", "eq", "tuple", "slice", "if":
		return "(" + e.K + " " + j + ")"
	case "match":
		// the eliminator of the union: U<Ts> -> (payload_1 -> R) -> ... -> R, arms as lambdas
		d := c02DeclOf(e.Name)
		arms := []string{xs[0]}
		for i, m := range d.Members {
			if m.Ty == nil {
				arms = append(arms, "(lam () "+xs[1+i]+")")
			} else {
				b := e.Xs[i]
				if b == "_" {
					b = fmt.Sprintf("?ign%d", i)
				}
				arms = append(arms, "(lam ("+Sq(b)+") "+xs[1+i]+")")
			}
		}
		return "(global " + Sq("?match:"+e.Name) + " " + strings.Join(arms, " ") + ")"
	case "record":
		if c02DeclOf(e.Name).hasAnyField() {
			// a field of type any accepts every value: construction = a function generic in that field
			return "(global " + Sq("?mk:"+e.Name) + " " + j + ")"
		}
		return "(record " + Sq(e.Name) + " " + j + ")"
	case "ctor":
		if j == "" {
			return "(ctor " + Sq(e.Name) + " " + Sq(e.Name2) + ")"
		}
		return "(ctor " + Sq(e.Name) + " " + Sq(e.Name2) + " " + j + ")"
	case "field":
		if blind {
			return "(global " + Sq(e.blindName()) + " " + j + ")"
		}
		return "(field " + Sq(e.Name) + " " + Sq(e.Name2) + " " + j + ")"
	case "global":
		if j == "" {
			return "(global " + Sq(e.Name) + ")"
		}
		return "(global " + Sq(e.Name) + " " + j + ")"
	case "callp", "pipe":
		return "(callp " + Sq(e.Name) + " " + j + ")"
	case "pipeg":
		return "(global " + Sq(e.Name) + " " + j + ")"
	case "let":
		return "(let " + Sq(e.Name) + " " + j + ")"
	case "lettup":
		var bs []string
		for _, x := range e.Xs {
			if x == "_" {
				bs = append(bs, "_")
			} else {
				bs = append(bs, Sq(x))
			}
		}
		return "(lettup (" + strings.Join(bs, " ") + ") " + j + ")"
	case "lam":
		var bs []string
		for _, x := range e.Xs {
			bs = append(bs, Sq(x))
		}
		return "(lam (" + strings.Join(bs, " ") + ") " + j + ")"
	}
	panic("sexp: " + e.K)
}

// blind stand-in of a field access: any argument, the field's (known, ground) type as result
func (e *c02Exp) blindName() string {
	if e.Ty == nil || e.Ty.hasVar() {
		return "?blind"
	}
	return "?blind:" + e.Ty.sexp()
}

// table entries of the constructors of records with any-fields used in a body
func (e *c02Exp) mkSigs(out map[string]string) {
	if e.K == "record" && c02DeclOf(e.Name).hasAnyField() {
		d := c02DeclOf(e.Name)
		var as []string
		k := 0
		for _, m := range d.Members {
			if c02Eq(m.Ty, c02Any) {
				as = append(as, fmt.Sprintf("(tv %d)", k))
				k++
			} else {
				as = append(as, m.Ty.sexp())
			}
		}
		out["?mk:"+e.Name] = fmt.Sprintf("(%s %d (%s) %s)", Sq("?mk:"+e.Name), k, strings.Join(as, " "), c02Named(e.Name).sexp())
	}
	if e.K == "match" {
		d := c02DeclOf(e.Name)
		var targs []*c02Ty
		for i := 0; i < d.K; i++ {
			targs = append(targs, c02Var(i))
		}
		r := c02Var(d.K)
		as := []string{c02Named(d.Name, targs...).sexp()}
		for _, m := range d.Members {
			if m.Ty == nil {
				as = append(as, "(fun () "+r.sexp()+")")
			} else {
				as = append(as, c02Fun([]*c02Ty{m.Ty}, r).sexp())
			}
		}
		out["?match:"+e.Name] = fmt.Sprintf("(%s %d (%s) %s)", Sq("?match:"+e.Name), d.K+1, strings.Join(as, " "), r.sexp())
	}
	for _, a := range e.Args {
		a.mkSigs(out)
	}
}

// table entries of the blind stand-ins used in a body
func (e *c02Exp) blindSigs(out map[string]string) {
	if e.K == "field" {
		n := e.blindName()
		if n == "?blind" {
			out[n] = `("?blind" 2 ((tv 0)) (tv 1))`
		} else {
			out[n] = "(" + Sq(n) + " 1 ((tv 0)) " + e.Ty.sexp() + ")"
		}
	}
	for _, a := range e.Args {
		a.blindSigs(out)
	}
}

func (e *c02Exp) count(m map[string]int) {
	m[e.K]++
	if e.K == "global" {
		m["global="+e.Name]++
		if len(e.Args) == 0 {
			m["global_ref"]++
		}
	}
	for _, a := range e.Args {
		a.count(m)
	}
}
func (e *c02Exp) nodes() int {
	n := 1
	for _, a := range e.Args {
		n += a.nodes()
	}
	return n
}

// ---------------------------------------------------------------- programs

type c02Param struct {
	Name string `json:"name"`
	Ty   *c02Ty `json:"ty,omitempty"` // intended type (annotation text when Ann)
	Ann  bool   `json:"ann"`
	Red  bool   `json:"red,omitempty"` // the annotation is redundant by construction (shape stream)
}
type c02Func struct {
	Name   string     `json:"name"`
	Params []c02Param `json:"params"`
	Body   *c02Exp    `json:"body"`
	// by-construction signature; valid for every variant that erases only annotations marked Red
	Expect string         `json:"expect,omitempty"`
	Ret    *c02Ty         `json:"ret,omitempty"` // result annotation (ground): let f a b : T = ...
	Feats  map[string]int `json:"-"`             // generator-side feature counts (evidence only)
}
type c02Prog struct {
	ID     int        `json:"id"`
	Stream string     `json:"stream"`
	Funcs  []*c02Func `json:"funcs"`
	Pre    string     `json:"pre,omitempty"`   // fixed helper definitions placed before the functions
	Sites  [][2]int   `json:"sites,omitempty"` // annotation sites that are varied (function index, parameter index)
}

var c02MaxSites = 6

func (p *c02Prog) initSites(rng *Rng) {
	p.Sites = nil
	for fi, f := range p.Funcs {
		for pi, pa := range f.Params {
			if pa.Ann {
				p.Sites = append(p.Sites, [2]int{fi, pi})
			}
		}
	}
	if len(p.Sites) > c02MaxSites {
		perm := rng.Perm(len(p.Sites))[:c02MaxSites]
		sort.Ints(perm)
		var s [][2]int
		for _, i := range perm {
			s = append(s, p.Sites[i])
		}
		p.Sites = s
	}
}

func (p *c02Prog) erased(mask uint, fi, pi int) bool {
	for j, s := range p.Sites {
		if s[0] == fi && s[1] == pi {
			return mask&(1<<uint(j)) != 0
		}
	}
	return false
}

func (p *c02Prog) funcSource(fi int, mask uint) string {
	f := p.Funcs[fi]
	var b strings.Builder
	b.WriteString("let " + f.Name)
	for pi, pa := range f.Params {
		if pa.Ann && !p.erased(mask, fi, pi) {
			fmt.Fprintf(&b, " (%s:%s)", pa.Name, pa.Ty.fo())
		} else {
			b.WriteString(" " + pa.Name)
		}
	}
	if f.Ret != nil {
		b.WriteString(" : " + f.Ret.fo())
	}
	b.WriteString(" =\n")
	b.WriteString(strings.Join(f.Body.block("  "), "\n"))
	b.WriteString("\n\n")
	return b.String()
}

const c02Header = "package main\n\nimport frt\nimport slice\n\n"

// the functions only (evidence samples, distinctness key)
func (p *c02Prog) funcsText(mask uint) string {
	var fs strings.Builder
	for fi := range p.Funcs {
		fs.WriteString(p.funcSource(fi, mask))
	}
	return fs.String()
}

func (p *c02Prog) source(mask uint) string {
	var b strings.Builder
	var fs strings.Builder
	for fi := range p.Funcs {
		fs.WriteString(p.funcSource(fi, mask))
	}
	b.WriteString(c02Header)
	b.WriteString(c02PreludeFor(fs.String()))
	b.WriteString(p.Pre)
	b.WriteString(fs.String())
	return b.String()
}

func (p *c02Prog) fnSexp(fi int, mask uint, blind bool) string {
	f := p.Funcs[fi]
	var ps []string
	for pi, pa := range f.Params {
		if pa.Ann && !p.erased(mask, fi, pi) {
			ps = append(ps, "("+Sq(pa.Name)+" "+pa.Ty.sexp()+")")
		} else {
			ps = append(ps, "("+Sq(pa.Name)+" _)")
		}
	}
	body := f.Body.sexp(blind)
	if f.Ret != nil {
		// a result annotation = the body passed through the identity at the annotated (ground) type
		body = "(global " + Sq("?ret:"+f.Ret.sexp()) + " " + body + ")"
	}
	return "(fn " + Sq(f.Name) + " (" + strings.Join(ps, " ") + ") " + body + ")"
}

// synthetic table entries a function needs: result ascription, constructors of records with any-fields
func (f *c02Func) extraSigs() []string {
	m := map[string]string{}
	f.Body.mkSigs(m)
	if f.Ret != nil {
		n := "?ret:" + f.Ret.sexp()
		m[n] = "(" + Sq(n) + " 0 (" + f.Ret.sexp() + ") " + f.Ret.sexp() + ")"
	}
	var out []string
	for _, k := range SortedKeys(m) {
		out = append(out, m[k])
	}
	return out
}

// ---------------------------------------------------------------- tiny s-expression reader (oracle answers)

type c02S struct {
	Atom string
	Str  bool
	List []*c02S
}

func c02ParseS(s string) *c02S {
	pos := 0
	var item func() *c02S
	skip := func() {
		for pos < len(s) && (s[pos] == ' ' || s[pos] == '\t') {
			pos++
		}
	}
	item = func() *c02S {
		skip()
		if pos >= len(s) {
			panic("sexp eof: " + s)
		}
		switch s[pos] {
		case '(':
			pos++
			n := &c02S{List: []*c02S{}}
			for {
				skip()
				if pos >= len(s) {
					panic("sexp unclosed: " + s)
				}
				if s[pos] == ')' {
					pos++
					return n
				}
				n.List = append(n.List, item())
			}
		case '"':
			st := pos
			pos++
			for pos < len(s) && s[pos] != '"' {
				if s[pos] == '\\' {
					pos++
				}
				pos++
			}
			pos++
			return &c02S{Atom: Unsq(s[st:pos]), Str: true}
		}
		st := pos
		for pos < len(s) && !strings.ContainsRune(" \t()\"", rune(s[pos])) {
			pos++
		}
		return &c02S{Atom: s[st:pos]}
	}
	return item()
}

func c02TyOfS(s *c02S) *c02Ty {
	if s.List == nil {
		switch s.Atom {
		case "int":
			return c02Int
		case "string":
			return c02Str
		case "bool":
			return c02Bool
		}
		panic("type atom " + s.Atom)
	}
	h := s.List[0].Atom
	switch h {
	case "tv":
		n, _ := strconv.Atoi(s.List[1].Atom)
		return c02Var(n)
	case "slice":
		return c02Slice(c02TyOfS(s.List[1]))
	case "tuple":
		var xs []*c02Ty
		for _, x := range s.List[1:] {
			xs = append(xs, c02TyOfS(x))
		}
		return c02Tuple(xs...)
	case "fun":
		var xs []*c02Ty
		for _, x := range s.List[1].List {
			xs = append(xs, c02TyOfS(x))
		}
		return c02Fun(xs, c02TyOfS(s.List[2]))
	case "named":
		var xs []*c02Ty
		for _, x := range s.List[2:] {
			xs = append(xs, c02TyOfS(x))
		}
		return c02Named(s.List[1].Atom, xs...)
	}
	panic("type " + h)
}

// "(k (ptys) rty)" -> signature
func c02SigOfAnswer(name, ans string) *c02Sig {
	s := c02ParseS(ans)
	k, _ := strconv.Atoi(s.List[0].Atom)
	sig := &c02Sig{Name: name, K: k, User: true, Res: c02TyOfS(s.List[2])}
	for _, x := range s.List[1].List {
		sig.Args = append(sig.Args, c02TyOfS(x))
	}
	return sig
}

// ---------------------------------------------------------------- Go signature extraction

func c02PrintDecl(fd *ast.FuncDecl) string {
	cp := *fd
	cp.Body = nil
	cp.Doc = nil
	var b bytes.Buffer
	printer.Fprint(&b, token.NewFileSet(), &cp)
	return strings.Join(strings.Fields(b.String()), " ")
}

// signatures of all top-level functions (no receiver) of a Go file, normalised by go/printer
func c02GoSigs(src string) (map[string]string, error) {
	fset := token.NewFileSet()
	f, err := parser.ParseFile(fset, "gen.go", src, 0)
	if err != nil {
		return nil, err
	}
	out := map[string]string{}
	for _, d := range f.Decls {
		if fd, ok := d.(*ast.FuncDecl); ok && fd.Recv == nil {
			out[fd.Name.Name] = c02PrintDecl(fd)
		}
	}
	return out, nil
}

// the oracle's text (fc's spacing) through the same normalisation
func c02NormSig(sig string) string {
	m, err := c02GoSigs("package p\n" + sig + "\n")
	if err != nil || len(m) != 1 {
		return "UNPARSABLE " + sig
	}
	for _, v := range m {
		return v
	}
	return ""
}

// the raw text fc printed for function name: from "func name" up to the opening brace
func c02RawSig(gen, name string) string {
	for _, l := range strings.Split(gen, "\n") {
		if strings.HasPrefix(l, "func "+name+"(") || strings.HasPrefix(l, "func "+name+"[") {
			return strings.TrimSuffix(l, "{")
		}
	}
	return ""
}
