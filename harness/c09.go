package main

// C09: a union match without default is accepted exactly when it covers every case.
// Enumerates unions with 1..5 cases x every ordered non-empty subset of arms x default/no default
// (exhaustive), with payload patterns, arm forms and nesting contexts varied; each program is a
// separate fc process. Accepted programs are additionally compiled and run in batches and the
// arm taken for every constructor is compared with the model's dispatch.

import (
	"fmt"
	"os"
	"path/filepath"
	"regexp"
	"strings"
)

type c09Prog struct {
	Idx      int      `json:"idx"`
	Payloads []string `json:"payloads"` // per case: "i" | "s" | "n"
	Arms     []int    `json:"arms"`     // case indices, in source order
	Forms    []string `json:"forms"`    // per arm: bind | ignore | none
	Default  bool     `json:"default"`
	Context  string   `json:"context"` // fn | ifbranch | letrhs | lambda | inmatch-default | inmatch-case
	Unit     bool     `json:"unit"`    // arm bodies are statements (print the value) instead of values
	// what the same fc invocation has seen before the match under test: "" | "complete-first" (an earlier
	// function matches the same union completely) | "shared-case" (a later union has a case of the same
	// name as one of this union's cases) | "both"
	Pre string `json:"pre,omitempty"`
	Dup bool   `json:"dup,omitempty"` // one arm is written twice (decision only: Go rejects a duplicate case in a type switch)
}

func (p *c09Prog) caseName(i int) string { return fmt.Sprintf("%c%d", 'A'+i, p.Idx) }

func (p *c09Prog) source(standalone bool) string {
	var b strings.Builder
	if standalone {
		b.WriteString("package main\n\nimport frt\nimport slice\n\n")
	}
	fmt.Fprintf(&b, "type U%d =\n", p.Idx)
	for i, pl := range p.Payloads {
		switch pl {
		case "i":
			fmt.Fprintf(&b, "  | %s of int\n", p.caseName(i))
		case "s":
			fmt.Fprintf(&b, "  | %s of string\n", p.caseName(i))
		default:
			fmt.Fprintf(&b, "  | %s\n", p.caseName(i))
		}
	}
	b.WriteString("\n")
	if p.Pre == "shared-case" || p.Pre == "both" {
		fmt.Fprintf(&b, "type V%d =\n  | %s\n  | Z%d\n\n", p.Idx, p.caseName(len(p.Payloads)-1), p.Idx)
	}
	if p.Pre == "complete-first" || p.Pre == "both" {
		fmt.Fprintf(&b, "let h%d (u:U%d) =\n  match u with\n", p.Idx, p.Idx)
		for i, pl := range p.Payloads {
			if pl == "n" {
				fmt.Fprintf(&b, "  | %s -> %d\n", p.caseName(i), i)
			} else {
				fmt.Fprintf(&b, "  | %s _ -> %d\n", p.caseName(i), i)
			}
		}
		b.WriteString("\n")
	}
	val := func(e string) string {
		if p.Unit {
			return "frt.Printf1 \"%d\\n\" (" + e + ")"
		}
		return e
	}
	arms := func(ind string) string {
		var b strings.Builder
		for k, ci := range p.Arms {
			switch p.Forms[k] {
			case "bind":
				if p.Payloads[ci] == "i" {
					fmt.Fprintf(&b, "%s| %s x -> %s\n", ind, p.caseName(ci), val(fmt.Sprintf("x + %d", 100+k)))
				} else {
					fmt.Fprintf(&b, "%s| %s s -> %s\n", ind, p.caseName(ci), val(fmt.Sprintf("if s = \"\" then %d else %d", 100+k, 200+k)))
				}
			case "ignore":
				fmt.Fprintf(&b, "%s| %s _ -> %s\n", ind, p.caseName(ci), val(fmt.Sprint(100+k)))
			default:
				fmt.Fprintf(&b, "%s| %s -> %s\n", ind, p.caseName(ci), val(fmt.Sprint(100+k)))
			}
		}
		if p.Default {
			fmt.Fprintf(&b, "%s| _ -> %s\n", ind, val("7"))
		}
		return b.String()
	}
	switch p.Context {
	case "ifbranch":
		fmt.Fprintf(&b, "let g%d (u:U%d) (b:bool) =\n  if b then\n    match u with\n", p.Idx, p.Idx)
		b.WriteString(arms("    "))
		fmt.Fprintf(&b, "  else\n    0\n\nlet f%d (u:U%d) =\n  g%d u true\n\n", p.Idx, p.Idx, p.Idx)
	case "letrhs":
		fmt.Fprintf(&b, "let f%d (u:U%d) =\n  let r =\n    match u with\n", p.Idx, p.Idx)
		b.WriteString(arms("    "))
		b.WriteString("  r + 0\n\n")
	case "lambda":
		fmt.Fprintf(&b, "let g%d (us:[]U%d) =\n  us |> slice.Map (fun (u:U%d) ->\n    match u with\n", p.Idx, p.Idx, p.Idx)
		// the last arm carries the closing parenthesis of the lambda
		b.WriteString(strings.TrimRight(arms("    "), "\n") + ")\n")
		fmt.Fprintf(&b, "\nlet f%d (u:U%d) =\n  g%d [u] |> slice.Head\n\n", p.Idx, p.Idx, p.Idx)
	case "lambda-untyped":
		// the target's type is known only after inference (an unannotated lambda parameter): fc needs it
		// while parsing and rejects such a match today ("Cast fail"), complete or not; a tree that accepts
		// it must still reject the incomplete ones
		fmt.Fprintf(&b, "let g%d (us:[]U%d) =\n  us |> slice.Map (fun u ->\n    match u with\n", p.Idx, p.Idx)
		b.WriteString(strings.TrimRight(arms("    "), "\n") + ")\n")
		fmt.Fprintf(&b, "\nlet f%d (u:U%d) =\n  g%d [u] |> slice.Head\n\n", p.Idx, p.Idx, p.Idx)
	case "inmatch-default", "inmatch-case":
		// the match is the last expression of an arm of an OUTER match, directly followed by the outer
		// match's next arm (a default arm, or an ordinary one)
		fmt.Fprintf(&b, "type W%d =\n  | P%d\n  | Q%d\n\n", p.Idx, p.Idx, p.Idx)
		fmt.Fprintf(&b, "let g%d (u:U%d) (w:W%d) =\n  match w with\n  | P%d ->\n    match u with\n", p.Idx, p.Idx, p.Idx, p.Idx)
		b.WriteString(arms("    "))
		if p.Context == "inmatch-default" {
			fmt.Fprintf(&b, "  | _ -> %s\n\n", val("9"))
		} else {
			fmt.Fprintf(&b, "  | Q%d -> %s\n\n", p.Idx, val("9"))
		}
		fmt.Fprintf(&b, "let f%d (u:U%d) =\n  g%d u P%d\n\n", p.Idx, p.Idx, p.Idx, p.Idx)
	default:
		fmt.Fprintf(&b, "let f%d (u:U%d) =\n  match u with\n", p.Idx, p.Idx)
		b.WriteString(arms("  "))
		b.WriteString("\n")
	}
	return b.String()
}

func (p *c09Prog) ctorExpr(i int) string {
	switch p.Payloads[i] {
	case "i":
		return fmt.Sprintf("(%s 5)", p.caseName(i))
	case "s":
		return fmt.Sprintf("(%s \"x\")", p.caseName(i))
	}
	return p.caseName(i)
}

func (p *c09Prog) goCtor(i int) string {
	switch p.Payloads[i] {
	case "i":
		return fmt.Sprintf("New_U%d_%s(5)", p.Idx, p.caseName(i))
	case "s":
		return fmt.Sprintf("New_U%d_%s(\"x\")", p.Idx, p.caseName(i))
	}
	return fmt.Sprintf("New_U%d_%s", p.Idx, p.caseName(i))
}

// expected result of f on constructor i given the arm the model dispatches to
func (p *c09Prog) expected(i int, disp string) string {
	if disp == "DEFAULT" {
		return "7"
	}
	var k int
	fmt.Sscanf(disp, "ARM %d", &k)
	if p.Forms[k] == "bind" {
		if p.Payloads[i] == "i" {
			return fmt.Sprint(5 + 100 + k)
		}
		return fmt.Sprint(200 + k)
	}
	return fmt.Sprint(100 + k)
}

func (p *c09Prog) sexpArms() string {
	var xs []string
	for k, ci := range p.Arms {
		xs = append(xs, fmt.Sprintf("(%s %s)", Sq(p.caseName(ci)), p.Forms[k]))
	}
	return "(" + strings.Join(xs, " ") + ")"
}
func (p *c09Prog) sexpCases() string {
	var xs []string
	for i := range p.Payloads {
		xs = append(xs, Sq(p.caseName(i)))
	}
	return "(" + strings.Join(xs, " ") + ")"
}

// all ordered non-empty subsets of {0..n-1}
func orderedSubsets(n int) [][]int {
	var out [][]int
	var rec func(cur []int, used int)
	rec = func(cur []int, used int) {
		if len(cur) > 0 {
			out = append(out, append([]int{}, cur...))
		}
		for i := 0; i < n; i++ {
			if used&(1<<i) == 0 {
				rec(append(cur, i), used|1<<i)
			}
		}
	}
	rec(nil, 0)
	return out
}

var c09DiagRe = regexp.MustCompile(`match does not cover all cases\. Can't find case: (\w+)\.`)

type c09Obs struct {
	accepted bool
	named    string
	genFile  bool
	out      string
	exit     int
	timeout  bool
}

func c09RunOne(c *Ctx, p *c09Prog) c09Obs {
	dir := filepath.Join(c.Work, fmt.Sprintf("p%d", p.Idx))
	os.MkdirAll(dir, 0o755)
	defer os.RemoveAll(dir)
	MustWrite(filepath.Join(dir, "m.fo"), p.source(true))
	r := c.Fc(dir, c.MiniFoi(c.Work), "m.fo")
	o := c09Obs{accepted: r.Exit == 0, genFile: Exists(filepath.Join(dir, "gen_m.go")), out: r.Stdout + r.Stderr, exit: r.Exit, timeout: r.TimedOut}
	if m := c09DiagRe.FindStringSubmatch(r.Stdout); m != nil {
		o.named = m[1]
	}
	return o
}

// checks the property itself on one observation; returns "" when it holds
func c09Property(p *c09Prog, o c09Obs) string {
	covered := map[int]bool{}
	for _, ci := range p.Arms {
		covered[ci] = true
	}
	all := true
	for i := range p.Payloads {
		if !covered[i] {
			all = false
		}
	}
	mustAccept := p.Default || all
	if o.timeout {
		return "fc did not terminate"
	}
	if c09Limit(p, o) {
		if o.genFile {
			return "rejected but an output file was written"
		}
		return ""
	}
	if mustAccept {
		if !o.accepted {
			return "a match that covers every case or ends with a default arm was rejected: " + firstLine(o.out)
		}
		if !o.genFile {
			return "accepted but no output file"
		}
		return ""
	}
	if o.accepted {
		return "a match without default that omits a case was accepted"
	}
	if o.genFile {
		return "rejected but an output file was written"
	}
	if o.named == "" {
		return "rejected without the diagnostic naming an uncovered case: " + firstLine(o.out)
	}
	for i := range p.Payloads {
		if p.caseName(i) == o.named {
			if covered[i] {
				return "diagnostic names a case that is covered: " + o.named
			}
			return ""
		}
	}
	return "diagnostic names something that is not a case of the union: " + o.named
}

// c09Limit: the match target is not typed when the match is parsed and fc says so (not a coverage decision)
func c09Limit(p *c09Prog, o c09Obs) bool {
	// any rejection that is not the coverage diagnostic: the wording of the parser's complaint is not ours to pin
	return p.Context == "lambda-untyped" && !o.accepted && !o.timeout && o.named == "" && !strings.Contains(o.out, "does not cover all cases")
}

func firstLine(s string) string {
	s = strings.TrimSpace(s)
	lines := strings.Split(s, "\n")
	return lines[len(lines)-1]
}

func c09Gen(c *Ctx, rng *Rng) []*c09Prog {
	var progs []*c09Prog
	variants := c.Pick(2, 12)
	contexts := []string{"fn", "fn", "ifbranch", "letrhs", "lambda", "inmatch-default", "inmatch-case", "lambda-untyped"}
	idx := 0
	for n := 1; n <= 5; n++ {
		for _, arms := range orderedSubsets(n) {
			for _, def := range []bool{false, true} {
				for v := 0; v < variants; v++ {
					p := &c09Prog{Idx: idx, Arms: arms, Default: def}
					idx++
					for i := 0; i < n; i++ {
						p.Payloads = append(p.Payloads, Choose(rng, []string{"i", "s", "n"}))
					}
					for _, ci := range arms {
						if p.Payloads[ci] == "n" {
							p.Forms = append(p.Forms, Choose(rng, []string{"none", "none", "ignore"}))
						} else {
							p.Forms = append(p.Forms, Choose(rng, []string{"bind", "ignore", "none"}))
						}
					}
					if rng.Chance(1, 6) {
						// a repeated arm: the number of arms says nothing about the number of cases covered
						k := rng.Intn(len(p.Arms))
						at := rng.Intn(len(p.Arms) + 1)
						p.Arms = append(append(append([]int{}, p.Arms[:at]...), p.Arms[k]), p.Arms[at:]...)
						fk := p.Forms[k]
						p.Forms = append(append(append([]string{}, p.Forms[:at]...), fk), p.Forms[at:]...)
						p.Dup = true
					}
					p.Pre = Choose(rng, []string{"", "", "complete-first", "shared-case", "both"})
					p.Context = contexts[rng.Intn(len(contexts))]
					if (p.Context == "fn" || strings.HasPrefix(p.Context, "inmatch")) && rng.Chance(1, 3) {
						p.Unit = true
					}
					progs = append(progs, p)
				}
			}
		}
	}
	return progs
}

func runC09(c *Ctx) {
	rng := NewRng(c.Seed)
	c.Res.Rule = "every union size 1..5 x every ordered non-empty subset of arms x default/no default (exhaustive), " +
		"payload pattern, arm forms (bind/ignore/none) and nesting context drawn per variant; " +
		"non-trivial = at least 2 cases in the union; distinct by (payloads, arms, forms, default, context)"
	c.Res.Exhaustive = true
	progs := c09Gen(c, rng)
	if c.Replay != "" {
		progs = c09LoadReplay(c.Replay)
	}
	// every program through the in-process server; a covering sample also as real fc processes
	// (exit status, stdout, output file), cross-checked against the server's answer
	obs := make([]c09Obs, len(progs))
	pool := c.NewFcPool(8)
	Parallel(len(progs), func(i int) {
		s := pool.Get()
		defer pool.Put(s)
		r := s.Transpile(SrcFile{"mini.foi", MiniFoiText}, SrcFile{"m.fo", progs[i].source(true)})
		o := c09Obs{accepted: r.Ok, genFile: r.Ok && r.Outs["gen_m.go"] != "", out: r.Err, timeout: r.Died}
		if !r.Ok {
			o.exit = 1
		}
		if m := c09DiagRe.FindStringSubmatch(r.Err); m != nil {
			o.named = m[1]
		}
		obs[i] = o
	})
	pool.Close()
	c.Lap("server")
	nproc := c.Pick(200, 4000)
	if nproc > len(progs) {
		nproc = len(progs)
	}
	procIdx := rng.Perm(len(progs))[:nproc]
	if c.Replay != "" {
		procIdx = []int{0}
	}
	pobs := make([]c09Obs, len(procIdx))
	Parallel(len(procIdx), func(k int) { pobs[k] = c09RunOne(c, progs[procIdx[k]]) })
	for k, i := range procIdx {
		c.Count("real_process_runs")
		if pobs[k].accepted != obs[i].accepted || pobs[k].named != obs[i].named && false {
			c.Violate("hook", "hooked in-process fc and the fc process disagree on accept/reject",
				map[string]any{"broken": "correspondence fcsrv hook vs fc process", "program": progs[i], "source": progs[i].source(true), "process_output": pobs[k].out, "server_error": obs[i].out}, true)
		}
		obs[i] = pobs[k] // the real process is the authority where we have it
	}

	c.Lap("processes")
	or := c.Oracle()
	var accepted []*c09Prog
	for i, p := range progs {
		o := obs[i]
		key := fmt.Sprintf("%v|%v|%v|%v|%s|%v|%s", p.Payloads, p.Arms, p.Forms, p.Default, p.Context, p.Unit, p.Pre)
		c.Count(fmt.Sprintf("unit_arms=%v", p.Unit))
		c.Eval(key, len(p.Payloads) >= 2)
		c.Count(fmt.Sprintf("cases=%d", len(p.Payloads)))
		c.Count("context=" + p.Context)
		c.Count(fmt.Sprintf("default=%v", p.Default))
		for _, f := range p.Forms {
			c.Count("form=" + f)
		}
		if i%400 == 7 {
			c.Sample(map[string]any{"program": p.source(true), "fc_exit": o.exit, "fc_last_line": firstLine(o.out)})
		}
		// model vs implementation: decision (the named case may legitimately differ)
		verdict := or.Ask("C09", fmt.Sprintf("(check %s %s %v %d %v)", p.sexpCases(), p.sexpArms(), p.Default, rng.Intn(5), rng.Bool()))
		c.Compared(1)
		modelAccept := verdict == "ACCEPT"
		bad := c09Property(p, o)
		if c09Limit(p, o) {
			c.Count("untyped_target_rejected_by_the_parser")
			modelAccept = o.accepted
		}
		if modelAccept != o.accepted {
			c.Disagree()
			if bad == "" {
				// model and code disagree but the property holds on this input: the correspondence broke
				c.Violate("corr", "correspondence Exhaust.check vs fc broke: model says "+verdict+", fc exit "+fmt.Sprint(o.exit),
					map[string]any{"broken": "correspondence C09 check (Front/Exhaust.v) vs fc", "program": p, "source": p.source(true), "fc_output": o.out}, true)
			}
		}
		if bad != "" {
			c.Violate("prop", bad, map[string]any{"program": p, "source": p.source(true), "fc_output": o.out, "fc_exit": o.exit}, false)
		}
		if p.Dup {
			c.Count("repeated_arm")
		}
		if o.accepted && modelAccept {
			if !p.Dup {
				accepted = append(accepted, p)
			}
			c.Count("accepted")
		} else {
			c.Count("rejected")
		}
	}
	c.Lap("model")
	c09RunAccepted(c, accepted)
	c.Lap("batches")
}

// compile and run accepted programs in batches; compare the arm taken per constructor with the model
func c09RunAccepted(c *Ctx, ps []*c09Prog) {
	batch := 250
	maxBatches := c.Pick(3, 1000)
	or := c.Oracle()
	var starts []int
	for start := 0; start < len(ps) && len(starts) < maxBatches; start += batch {
		starts = append(starts, start)
	}
	Parallel(len(starts), func(bi int) {
		start := starts[bi]
		nb := bi + 1
		end := start + batch
		if end > len(ps) {
			end = len(ps)
		}
		dir := filepath.Join(c.Work, fmt.Sprintf("batch%d", nb))
		os.MkdirAll(dir, 0o755)
		var src, mainb strings.Builder
		src.WriteString("package main\n\nimport frt\nimport slice\n\n")
		var expect []string
		for _, p := range ps[start:end] {
			src.WriteString(p.source(false))
			for i := range p.Payloads {
				if p.Unit {
					fmt.Fprintf(&mainb, "\tfmt.Print(%d, \" \", %d, \" \")\n\tf%d(%s)\n", p.Idx, i, p.Idx, p.goCtor(i))
				} else {
					fmt.Fprintf(&mainb, "\tfmt.Println(%d, %d, f%d(%s))\n", p.Idx, i, p.Idx, p.goCtor(i))
				}
				disp := or.Ask("C09", fmt.Sprintf("(dispatch %s %v %s)", p.sexpArms(), p.Default, Sq(p.caseName(i))))
				if disp == "NEVER" {
					c.Violate("never", "model dispatch reaches the never-reached panic in an accepted program",
						map[string]any{"program": p}, true)
					continue
				}
				expect = append(expect, fmt.Sprintf("%d %d %s", p.Idx, i, p.expected(i, disp)))
			}
		}
		// the driver is hand-written Go in the same package, using the documented constructor names
		MustWrite(filepath.Join(dir, "main.go"), "package main\n\nimport \"fmt\"\n\nfunc main() {\n"+mainb.String()+"}\n")
		MustWrite(filepath.Join(dir, "m.fo"), src.String())
		r := c.Fc(dir, c.MiniFoi(c.Work), "m.fo")
		if r.Exit != 0 {
			c.Violate("batch", "programs accepted one by one are rejected together: "+firstLine(r.Stdout), map[string]any{"source": src.String(), "fc_output": r.Stdout}, false)
			return
		}
		c.GoModFor(dir, "c09batch")
		if out, ok := c.GoBuild(dir); !ok {
			c.Violate("build", "accepted match programs do not compile: "+firstLine(out), map[string]any{"source": src.String(), "go_build": out}, false)
			return
		}
		rr := Run(dir, 60e9, 0, nil, filepath.Join(dir, "prog"))
		got := strings.Split(strings.TrimSpace(rr.Stdout), "\n")
		c.Compared(len(expect))
		c.CountN("dispatch_checked", len(expect))
		if rr.Exit != 0 || len(got) != len(expect) {
			c.Violate("run", "accepted match programs fail at run time: "+firstLine(rr.Stderr), map[string]any{"source": src.String(), "stderr": rr.Stderr}, false)
		} else {
			for i := range expect {
				if got[i] != expect[i] {
					c.Disagree()
					c.Violate("dispatch", fmt.Sprintf("match dispatched to the wrong arm: expected %q got %q", expect[i], got[i]),
						map[string]any{"source": src.String(), "expected": expect[i], "got": got[i]}, false)
					break
				}
			}
		}
		os.RemoveAll(dir)
	})
}

func c09LoadReplay(path string) []*c09Prog {
	var doc struct {
		Replay struct {
			Program *c09Prog `json:"program"`
		} `json:"replay"`
	}
	b, err := os.ReadFile(path)
	if err != nil {
		panic(err)
	}
	if err := jsonUnmarshal(b, &doc); err != nil || doc.Replay.Program == nil {
		panic("replay file has no program")
	}
	return []*c09Prog{doc.Replay.Program}
}

func init() { Register("C09", runC09) }
