package main

// Reference interpreter for MiniFo: the source semantics of FORMAT.md (strict, left to right,
// short-circuit && ||, only the taken branch, lexical scoping, a partial application evaluates the
// supplied arguments once). Independent of the Coq model and of fc: it is the harness's own oracle.

import (
	"bytes"
	"fmt"
	"sort"
	"strconv"
	"strings"
)

type Value interface{}

type VUnit struct{}
type VTuple []Value
type VSlice []Value
type VRec struct {
	Name   string
	Fields []Value
}
type VUnion struct {
	Case    string
	Payload Value // nil: no payload
}
type VClosure struct {
	Params []Param
	Body   *Block
	Env    *evEnv
}
type VPap struct { // a partial application: the arguments are already values
	Fn   Value
	Args []Value
}
type VExtPap struct {
	Name string
	Args []Value
}

type evEnv struct {
	name string
	val  Value
	next *evEnv
}

func (e *evEnv) bind(n string, v Value) *evEnv { return &evEnv{n, v, e} }

type EvalResult struct {
	Out        string
	Stuck      string // non-empty: evaluation got stuck (runtime panic in the Go program)
	Fuel       bool   // step / depth / output budget exhausted
	Steps      int
	Overflowed bool // some int operation wrapped around
	MaxDepth   int
}

func (r EvalResult) OK() bool { return r.Stuck == "" && !r.Fuel }

type evaluator struct {
	top      map[string]*Decl
	recs     map[string]*Decl
	out      bytes.Buffer
	steps    int
	maxSteps int
	maxOut   int
	depth    int
	maxDepth int
	peak     int
	overflow bool
}

type evStuck struct{ why string }
type evFuel struct{}

// Eval runs the program. maxSteps bounds the number of evaluated expressions.
func Eval(p *Prog, maxSteps int) (res EvalResult) {
	ev := &evaluator{top: map[string]*Decl{}, recs: map[string]*Decl{}, maxSteps: maxSteps, maxOut: 1 << 16, maxDepth: 400}
	for _, d := range p.Decls {
		switch d.K {
		case DFun:
			ev.top[d.Name] = d
		case DRecord:
			ev.recs[d.Name] = d
		}
	}
	defer func() {
		res.Out = ev.out.String()
		res.Steps = ev.steps
		res.Overflowed = ev.overflow
		res.MaxDepth = ev.peak
		if r := recover(); r != nil {
			switch x := r.(type) {
			case evStuck:
				res.Stuck = x.why
			case evFuel:
				res.Fuel = true
			default:
				panic(r)
			}
		}
	}()
	ev.block(p.Main, nil)
	return
}

func (ev *evaluator) stuck(format string, a ...any) { panic(evStuck{fmt.Sprintf(format, a...)}) }

func (ev *evaluator) block(b *Block, env *evEnv) Value {
	for _, s := range b.Stmts {
		switch s.K {
		case SLet:
			env = env.bind(s.Name, ev.expr(s.E, env))
		case SLetFun:
			env = env.bind(s.Name, &VClosure{Params: s.Params, Body: s.Body, Env: env})
		case SDestr:
			v := ev.expr(s.E, env)
			t, ok := v.(VTuple)
			if !ok || len(t) != len(s.Names) {
				ev.stuck("destructuring a non-tuple")
			}
			for i, n := range s.Names {
				env = env.bind(n, t[i])
			}
		case SDo:
			ev.expr(s.E, env)
		}
	}
	return ev.expr(b.E, env)
}

func (ev *evaluator) lookup(x string, env *evEnv) Value {
	for e := env; e != nil; e = e.next {
		if e.name == x {
			return e.val
		}
	}
	if d, ok := ev.top[x]; ok {
		return d
	}
	ev.stuck("unbound variable %s", x)
	return nil
}

func (ev *evaluator) int(v Value) int64 {
	n, ok := v.(int64)
	if !ok {
		ev.stuck("expected an int")
	}
	return n
}
func (ev *evaluator) str(v Value) string {
	s, ok := v.(string)
	if !ok {
		ev.stuck("expected a string")
	}
	return s
}
func (ev *evaluator) boolean(v Value) bool {
	b, ok := v.(bool)
	if !ok {
		ev.stuck("expected a bool")
	}
	return b
}
func (ev *evaluator) slice(v Value) VSlice {
	s, ok := v.(VSlice)
	if !ok {
		ev.stuck("expected a slice")
	}
	return s
}

func (ev *evaluator) expr(e *Expr, env *evEnv) Value {
	ev.steps++
	if ev.steps > ev.maxSteps {
		panic(evFuel{})
	}
	switch e.K {
	case EInt:
		return e.Int
	case EStr:
		return e.Str
	case EBool:
		return e.Bool
	case EUnit:
		return VUnit{}
	case EVar:
		return ev.lookup(e.Name, env)
	case EBin:
		switch e.Op {
		case "&&":
			if !ev.boolean(ev.expr(e.Args[0], env)) {
				return false
			}
			return ev.boolean(ev.expr(e.Args[1], env))
		case "||":
			if ev.boolean(ev.expr(e.Args[0], env)) {
				return true
			}
			return ev.boolean(ev.expr(e.Args[1], env))
		}
		a := ev.expr(e.Args[0], env)
		b := ev.expr(e.Args[1], env)
		switch e.Op {
		case "sadd":
			return ev.str(a) + ev.str(b)
		case "+":
			x, y := ev.int(a), ev.int(b)
			r := x + y
			if (x >= 0) == (y >= 0) && (r >= 0) != (x >= 0) {
				ev.overflow = true
			}
			return r
		case "-":
			x, y := ev.int(a), ev.int(b)
			r := x - y
			if (x >= 0) != (y >= 0) && (r >= 0) != (x >= 0) {
				ev.overflow = true
			}
			return r
		case "*":
			x, y := ev.int(a), ev.int(b)
			r := x * y
			if x != 0 && (r/x != y || x == -1 && y == -1<<63) {
				ev.overflow = true
			}
			return r
		case "/":
			// Go's int division: truncation toward zero; a zero divisor is a run-time panic
			x, y := ev.int(a), ev.int(b)
			if y == 0 {
				ev.stuck("panic: runtime error: integer divide by zero")
			}
			if x == -1<<63 && y == -1 {
				ev.overflow = true
				return x
			}
			return x / y
		case "<":
			return ev.int(a) < ev.int(b)
		case ">":
			return ev.int(a) > ev.int(b)
		case "<=":
			return ev.int(a) <= ev.int(b)
		case ">=":
			return ev.int(a) >= ev.int(b)
		}
		ev.stuck("unknown operator %s", e.Op)
	case EEq:
		a := ev.expr(e.Args[0], env)
		b := ev.expr(e.Args[1], env)
		return ev.equal(a, b)
	case ENeq:
		a := ev.expr(e.Args[0], env)
		b := ev.expr(e.Args[1], env)
		return !ev.equal(a, b)
	case ENot:
		return !ev.boolean(ev.expr(e.Args[0], env))
	case EIf:
		if ev.boolean(ev.expr(e.Args[0], env)) {
			return ev.block(e.Blocks[0], env)
		}
		return ev.block(e.Blocks[1], env)
	case EIfOnly:
		if ev.boolean(ev.expr(e.Args[0], env)) {
			ev.block(e.Blocks[0], env)
		}
		return VUnit{}
	case ELam:
		return &VClosure{Params: e.Params, Body: e.Blocks[0], Env: env}
	case ECall:
		f := ev.lookup(e.Name, env)
		args := make([]Value, len(e.Args))
		for i, a := range e.Args {
			args[i] = ev.expr(a, env)
		}
		if n := ev.arity(f); len(args) > n || e.Arity != n {
			ev.stuck("call of %s: arity", e.Name)
		}
		return ev.apply(f, args)
	case EExt:
		args := make([]Value, len(e.Args))
		for i, a := range e.Args {
			args[i] = ev.expr(a, env)
		}
		return ev.applyExt(e.Name, args)
	case EPipe:
		x := ev.expr(e.Args[0], env)
		r := e.Args[1]
		switch r.K {
		case EVar:
			return ev.apply(ev.lookup(r.Name, env), []Value{x})
		case ECall:
			f := ev.lookup(r.Name, env)
			args := make([]Value, 0, len(r.Args)+1)
			for _, a := range r.Args {
				args = append(args, ev.expr(a, env))
			}
			return ev.apply(f, append(args, x))
		case EExt:
			args := make([]Value, 0, len(r.Args)+1)
			for _, a := range r.Args {
				args = append(args, ev.expr(a, env))
			}
			return ev.applyExt(r.Name, append(args, x))
		}
		ev.stuck("pipe stage")
	case ETuple:
		t := make(VTuple, len(e.Args))
		for i, a := range e.Args {
			t[i] = ev.expr(a, env)
		}
		return t
	case ERecord:
		// initialisers run in the order written; the value stores the fields in declaration order
		r := &VRec{Name: e.Name, Fields: make([]Value, len(e.Args))}
		d := ev.recs[e.Name]
		for i, a := range e.Args {
			v := ev.expr(a, env)
			for k, f := range d.Fields {
				if f.Name == e.Fields[i] {
					r.Fields[k] = v
				}
			}
		}
		return r
	case EField:
		v := ev.expr(e.Args[0], env)
		r, ok := v.(*VRec)
		if !ok {
			ev.stuck("field of a non-record")
		}
		d := ev.recs[r.Name]
		for i, f := range d.Fields {
			if f.Name == e.Name {
				return r.Fields[i]
			}
		}
		ev.stuck("no field %s", e.Name)
	case ECtor:
		u := &VUnion{Case: e.Name}
		if len(e.Args) == 1 {
			u.Payload = ev.expr(e.Args[0], env)
		}
		return u
	case EMatchU:
		v := ev.expr(e.Args[0], env)
		u, ok := v.(*VUnion)
		if !ok {
			ev.stuck("union match on a non-union")
		}
		for _, a := range e.Arms {
			if a.Case == u.Case {
				env2 := env
				if a.Bind != "" && a.Bind != "_" {
					if u.Payload == nil {
						ev.stuck("binding the payload of %s", u.Case)
					}
					env2 = env.bind(a.Bind, u.Payload)
				}
				return ev.block(a.Body, env2)
			}
		}
		if e.Deflt == nil {
			ev.stuck("no arm for %s", u.Case)
		}
		return ev.block(e.Deflt, env)
	case EMatchS:
		s := ev.str(ev.expr(e.Args[0], env))
		for _, a := range e.Arms {
			if a.Lit == s {
				return ev.block(a.Body, env)
			}
		}
		if e.Bind != "" {
			return ev.block(e.Deflt, env.bind(e.Bind, s))
		}
		return ev.block(e.Deflt, env)
	case ESlice:
		s := make(VSlice, len(e.Args))
		for i, a := range e.Args {
			s[i] = ev.expr(a, env)
		}
		return s
	case EInterp:
		var b strings.Builder
		for _, p := range e.Parts {
			if p.IsHole {
				b.WriteString(ev.toS(ev.lookup(p.Text, env)))
			} else {
				b.WriteString(p.Text)
			}
		}
		return b.String()
	case EBlockE:
		return ev.block(e.Blocks[0], env)
	}
	ev.stuck("unknown expression")
	return nil
}

func (ev *evaluator) arity(f Value) int {
	switch x := f.(type) {
	case *Decl:
		return len(x.Params)
	case *VClosure:
		return len(x.Params)
	case *VPap:
		return ev.arity(x.Fn) - len(x.Args)
	case *VExtPap:
		return len(extTable[x.Name].Params) - len(x.Args)
	}
	ev.stuck("call of a non-function")
	return 0
}

// apply f to 1..arity arguments (already evaluated).
func (ev *evaluator) apply(f Value, args []Value) Value {
	n := ev.arity(f)
	if len(args) > n {
		ev.stuck("over-application")
	}
	if len(args) < n {
		return &VPap{Fn: f, Args: args}
	}
	switch x := f.(type) {
	case *Decl:
		var env *evEnv
		for i, p := range x.Params {
			env = env.bind(p.Name, args[i])
		}
		return ev.enter(x.Body, env)
	case *VClosure:
		env := x.Env
		for i, p := range x.Params {
			env = env.bind(p.Name, args[i])
		}
		return ev.enter(x.Body, env)
	case *VPap:
		return ev.apply(x.Fn, append(append([]Value{}, x.Args...), args...))
	case *VExtPap:
		return ev.applyExt(x.Name, append(append([]Value{}, x.Args...), args...))
	}
	ev.stuck("call of a non-function")
	return nil
}

func (ev *evaluator) enter(b *Block, env *evEnv) Value {
	ev.depth++
	if ev.depth > ev.peak {
		ev.peak = ev.depth
	}
	if ev.depth > ev.maxDepth {
		panic(evFuel{})
	}
	v := ev.block(b, env)
	ev.depth--
	return v
}

func (ev *evaluator) equal(a, b Value) bool {
	switch x := a.(type) {
	case int64:
		y, ok := b.(int64)
		return ok && x == y
	case string:
		y, ok := b.(string)
		return ok && x == y
	case bool:
		y, ok := b.(bool)
		return ok && x == y
	case VUnit:
		_, ok := b.(VUnit)
		return ok
	case VTuple:
		y, ok := b.(VTuple)
		if !ok || len(x) != len(y) {
			return false
		}
		for i := range x {
			if !ev.equal(x[i], y[i]) {
				return false
			}
		}
		return true
	case VSlice:
		y, ok := b.(VSlice)
		if !ok || len(x) != len(y) {
			return false
		}
		for i := range x {
			if !ev.equal(x[i], y[i]) {
				return false
			}
		}
		return true
	case *VRec:
		y, ok := b.(*VRec)
		if !ok || x.Name != y.Name || len(x.Fields) != len(y.Fields) {
			return false
		}
		for i := range x.Fields {
			if !ev.equal(x.Fields[i], y.Fields[i]) {
				return false
			}
		}
		return true
	case *VUnion:
		y, ok := b.(*VUnion)
		if !ok || x.Case != y.Case {
			return false
		}
		if x.Payload == nil || y.Payload == nil {
			return x.Payload == nil && y.Payload == nil
		}
		return ev.equal(x.Payload, y.Payload)
	}
	ev.stuck("equality on a function")
	return false
}

func (ev *evaluator) write(s string) {
	ev.out.WriteString(s)
	if ev.out.Len() > ev.maxOut {
		panic(evFuel{})
	}
}

// toS: frt.SInterP's rendering of a hole
func (ev *evaluator) toS(v Value) string {
	switch x := v.(type) {
	case int64:
		return strconv.FormatInt(x, 10)
	case string:
		return x
	case bool:
		if x {
			return "true"
		}
		return "false"
	}
	ev.stuck("interpolation of a non-scalar")
	return ""
}

// verb renders one operand under %d / %s / %v for the operand kinds of FORMAT.md
func (ev *evaluator) verb(verb string, v Value) string {
	switch verb {
	case "d":
		return strconv.FormatInt(ev.int(v), 10)
	case "s":
		return ev.str(v)
	case "v":
		if s, ok := v.(VSlice); ok {
			xs := make([]string, len(s))
			for i, e := range s {
				xs[i] = ev.toS(e)
			}
			return "[" + strings.Join(xs, " ") + "]"
		}
		return ev.toS(v)
	}
	ev.stuck("format verb")
	return ""
}

func (ev *evaluator) format(f string, v Value) string {
	verb := fmtVerb(f)
	if verb == "" {
		ev.stuck("unsupported format %q", f)
	}
	i := strings.IndexByte(f, '%')
	return f[:i] + ev.verb(verb, v) + f[i+2:]
}

func (ev *evaluator) applyExt(name string, args []Value) Value {
	sig := extTable[name]
	if sig == nil {
		ev.stuck("unknown library function %s", name)
	}
	if len(args) < len(sig.Params) {
		return &VExtPap{Name: name, Args: args}
	}
	if len(args) > len(sig.Params) {
		ev.stuck("%s: too many arguments", name)
	}
	call1 := func(f Value, a ...Value) Value { return ev.apply(f, a) }
	switch name {
	case "frt.Println":
		ev.write(ev.str(args[0]) + "\n")
		return VUnit{}
	case "frt.Printf1":
		ev.write(ev.format(ev.str(args[0]), args[1]))
		return VUnit{}
	case "frt.Sprintf1":
		return ev.format(ev.str(args[0]), args[1])
	case "frt.Fst", "frt.Snd":
		t, ok := args[0].(VTuple)
		if !ok || len(t) != 2 {
			ev.stuck("%s of a non-pair", name)
		}
		if name == "frt.Fst" {
			return t[0]
		}
		return t[1]
	case "slice.Length":
		return int64(len(ev.slice(args[0])))
	case "slice.Head":
		s := ev.slice(args[0])
		if len(s) == 0 {
			ev.stuck("slice.Head of an empty slice")
		}
		return s[0]
	case "slice.Tail":
		s := ev.slice(args[0])
		if len(s) == 0 {
			ev.stuck("slice.Tail of an empty slice")
		}
		return append(VSlice{}, s[1:]...)
	case "slice.Last":
		s := ev.slice(args[0])
		if len(s) == 0 {
			ev.stuck("slice.Last of an empty slice")
		}
		return s[len(s)-1]
	case "slice.Item":
		i, s := ev.int(args[0]), ev.slice(args[1])
		if i < 0 || i >= int64(len(s)) {
			ev.stuck("slice.Item out of range")
		}
		return s[i]
	case "slice.Take":
		n, s := ev.int(args[0]), ev.slice(args[1])
		if n < 0 || n > int64(len(s)) {
			ev.stuck("slice.Take out of range")
		}
		return append(VSlice{}, s[:n]...)
	case "slice.Skip":
		n, s := ev.int(args[0]), ev.slice(args[1])
		if n < 0 || n > int64(len(s)) {
			ev.stuck("slice.Skip out of range")
		}
		return append(VSlice{}, s[n:]...)
	case "slice.PushLast":
		return append(append(VSlice{}, ev.slice(args[1])...), args[0])
	case "slice.PushHead":
		return append(VSlice{args[0]}, ev.slice(args[1])...)
	case "slice.Append":
		return append(append(VSlice{}, ev.slice(args[0])...), ev.slice(args[1])...)
	case "slice.IsEmpty":
		return len(ev.slice(args[0])) == 0
	case "slice.IsNotEmpty":
		return len(ev.slice(args[0])) != 0
	case "slice.Map":
		s := ev.slice(args[1])
		r := make(VSlice, 0, len(s))
		for _, x := range s {
			r = append(r, call1(args[0], x))
		}
		return r
	case "slice.Mapi":
		s := ev.slice(args[1])
		r := make(VSlice, 0, len(s))
		for i, x := range s {
			r = append(r, call1(args[0], int64(i), x))
		}
		return r
	case "slice.Filter":
		s := ev.slice(args[1])
		r := VSlice{}
		for _, x := range s {
			if ev.boolean(call1(args[0], x)) {
				r = append(r, x)
			}
		}
		return r
	case "slice.Iter":
		for _, x := range ev.slice(args[1]) {
			call1(args[0], x)
		}
		return VUnit{}
	case "slice.Fold":
		acc := args[1]
		for _, x := range ev.slice(args[2]) {
			acc = call1(args[0], acc, x)
		}
		return acc
	case "slice.Forall":
		for _, x := range ev.slice(args[1]) {
			if !ev.boolean(call1(args[0], x)) {
				return false
			}
		}
		return true
	case "slice.Forany":
		for _, x := range ev.slice(args[1]) {
			if ev.boolean(call1(args[0], x)) {
				return true
			}
		}
		return false
	case "slice.Sort":
		s := append(VSlice{}, ev.slice(args[0])...)
		if len(s) > 0 {
			if _, isInt := s[0].(int64); isInt {
				sort.SliceStable(s, func(i, j int) bool { return s[i].(int64) < s[j].(int64) })
			} else {
				sort.SliceStable(s, func(i, j int) bool { return ev.str(s[i]) < ev.str(s[j]) })
			}
		}
		return s
	case "slice.Zip":
		a, b := ev.slice(args[0]), ev.slice(args[1])
		if len(a) != len(b) {
			ev.stuck("slice.Zip of different lengths")
		}
		r := make(VSlice, len(a))
		for i := range a {
			r[i] = VTuple{a[i], b[i]}
		}
		return r
	case "strings.Length":
		return int64(len(ev.str(args[0])))
	case "strings.Concat":
		sep := ev.str(args[0])
		var b strings.Builder
		for i, x := range ev.slice(args[1]) {
			if i > 0 {
				b.WriteString(sep)
			}
			b.WriteString(ev.str(x))
		}
		return b.String()
	case "strings.HasPrefix":
		p, s := ev.str(args[0]), ev.str(args[1])
		return len(s) >= len(p) && s[:len(p)] == p
	case "strings.HasSuffix":
		p, s := ev.str(args[0]), ev.str(args[1])
		return len(s) >= len(p) && s[len(s)-len(p):] == p
	case "strings.AppendHead":
		return ev.str(args[0]) + ev.str(args[1])
	case "strings.AppendTail":
		return ev.str(args[1]) + ev.str(args[0])
	case "strings.Split":
		sep, s := ev.str(args[0]), ev.str(args[1])
		if sep == "" {
			ev.stuck("strings.Split with an empty separator")
		}
		var r VSlice
		for {
			i := strings.Index(s, sep)
			if i < 0 {
				break
			}
			r = append(r, s[:i])
			s = s[i+len(sep):]
		}
		return append(r, s)
	}
	ev.stuck("library function %s not implemented", name)
	return nil
}
