package main

// Type-directed random generator of MiniFo programs (FORMAT.md): well-typed (Check), terminating and
// within the domain of partial library functions (Eval with a budget; programs that run out of it or
// get stuck are discarded and counted), deterministic, and chatty: `say`-style helpers print a tag
// and return their argument so that evaluation order, untaken branches and short-circuiting are
// visible on stdout.

import (
	"fmt"
	"math"
	"os"
	"strings"
	"sync"
)

const (
	FLambda uint64 = 1 << iota
	FPartial
	FPipe
	FIfValue
	FIfStmt
	FAndOr
	FMatchU
	FMatchS
	FRecord
	FTuple
	FTuple3
	FDestr
	FSlice
	FInterp
	FCallbacks // library functions taking callbacks
	FInnerFun
	FRecursion
	FFunParams // user functions taking / returning functions
	FExtPartial
	FStrEscapes
	FEq
	FMul
	FDiv
	FAll uint64 = 1<<iota - 1
)

type Profile struct {
	MaxDepth       int    // nesting budget of expressions (default 5)
	MaxDecls       int    // generated top-level functions besides the helpers (default 6)
	MaxStmts       int    // statements per block (default 5)
	Features       uint64 // mask of F* (0 = all that the profile allows)
	Tiny           bool   // the tinyfo subset
	Wrap           bool   // allow int arithmetic to wrap around
	Hazard         string // "" | pap-effect | unused-binder | unit-typevar | generic-union-match
	PermuteRecords bool   // record literals may be written in another field order than declared
}

func DefaultProfile() Profile {
	return Profile{MaxDepth: 5, MaxDecls: 6, MaxStmts: 5, Features: FAll, PermuteRecords: true}
}

// TinyProfile: what tinyfo accepts (see c17.go for the experimentally established subset).
func TinyProfile() Profile {
	return Profile{MaxDepth: 4, MaxDecls: 5, MaxStmts: 4, Tiny: true, PermuteRecords: true,
		Features: FPartial | FPipe | FIfValue | FIfStmt | FAndOr | FMatchU | FRecord | FTuple | FDestr | FSlice | FCallbacks | FRecursion | FFunParams | FEq | FStrEscapes}
}

type GenStatsT struct {
	Generated, DiscardStuck, DiscardFuel, DiscardOverflow, DiscardLong, DiscardSilent, CheckFailed int
}

type gvar struct {
	name    string
	t       *Type
	uses    int
	lit     bool // bound to a known small literal (safe index / recursion argument)
	zeroish bool // an int bound to 0 / a small literal / v - v: the preferred divisor of a guarded division
}

type gfun struct {
	name      string
	t         *Type
	recursive bool // first parameter is the decreasing int
	helper    bool
}

type gen struct {
	r       *Rng
	prof    Profile
	recs    []*Decl
	unions  []*Decl
	funs    []*gfun
	scope   []*gvar
	nameCtr int
	tagCtr  int
	self    *gfun // the recursive function whose body is being generated
	selfN   *gvar
	selfUse int
	budget  int  // remaining expression nodes for the current program
	atBlock bool // tiny: the expression about to be generated stands at block level
	inLet   int  // > 0 while generating the right-hand side of a let (no inner functions there)
}

func (g *gen) has(f uint64) bool { return g.prof.Features&f != 0 }

// heavy draws from 0..max with P(k) roughly proportional to 1/(k+1)^1.3 reversed onto small values:
// most draws are small, the tail reaches max.
func (g *gen) heavy(max int) int {
	if max <= 0 {
		return 0
	}
	u := float64(g.r.Intn(1<<20)+1) / float64(1<<20)
	// inverse-power transform
	x := 1.0/math.Pow(u, 0.7) - 1.0
	k := int(x)
	if k > max {
		k = max
	}
	return k
}

// ---------------------------------------------------------------- names

var nameBases = []string{"x", "y", "z", "v", "w", "acc", "item", "n", "m", "k", "s", "q", "b", "c", "p", "e", "u", "val", "cur", "tmp"}

func (g *gen) fresh(base string) string {
	g.nameCtr++
	return fmt.Sprintf("%s%d", base, g.nameCtr)
}

func (g *gen) freshVar() string { return g.fresh(Choose(g.r, nameBases)) }

func (g *gen) tag() string {
	g.tagCtr++
	return fmt.Sprintf("t%d", g.tagCtr)
}

func (g *gen) push(name string, t *Type) *gvar {
	v := &gvar{name: name, t: t}
	g.scope = append(g.scope, v)
	return v
}

func (g *gen) use(v *gvar) *Expr {
	v.uses++
	return eVar(v.name, v.t)
}

// pickVar: a variable in scope satisfying pred, preferring unused and recent ones.
func (g *gen) pickVar(pred func(*gvar) bool) *gvar {
	var cands []*gvar
	for i, v := range g.scope {
		if pred(v) {
			w := 1
			if v.uses == 0 {
				w += 3
			}
			if i >= len(g.scope)-3 {
				w++
			}
			for k := 0; k < w; k++ {
				cands = append(cands, v)
			}
		}
	}
	if len(cands) == 0 {
		return nil
	}
	return Choose(g.r, cands)
}

func (g *gen) varOfType(t *Type) *gvar {
	return g.pickVar(func(v *gvar) bool { return v.t.Equal(t) })
}

// ---------------------------------------------------------------- types

func (g *gen) scalarType() *Type {
	switch g.r.Intn(10) {
	case 0, 1, 2, 3:
		return tInt
	case 4, 5, 6:
		return tString
	default:
		return tBool
	}
}

// dataType: a random first-order type, depth-limited.
func (g *gen) dataType(d int) *Type {
	if d <= 0 {
		return g.scalarType()
	}
	switch n := g.r.Intn(100); {
	case n < 55:
		return g.scalarType()
	case n < 67 && g.has(FTuple):
		if g.has(FTuple3) && g.r.Chance(1, 4) {
			return tTuple(g.dataType(d-1), g.dataType(d-1), g.dataType(d-1))
		}
		return tTuple(g.dataType(d-1), g.dataType(d-1))
	case n < 82 && g.has(FSlice):
		return tSlice(g.dataType(d - 1))
	case n < 91 && g.has(FRecord) && len(g.recs) > 0:
		return tRec(Choose(g.r, g.recs).Name)
	case n < 100 && g.has(FMatchU) && len(g.unions) > 0:
		return tUnion(Choose(g.r, g.unions).Name)
	}
	return g.scalarType()
}

func isScalar(t *Type) bool { return t.K == TInt || t.K == TString || t.K == TBool }

func printable(t *Type) bool { return isScalar(t) || t.K == TSlice && isScalar(t.Elem()) }

// ---------------------------------------------------------------- literals

var words = []string{"a", "b", "ab", "abc", "foo", "bar", "x y", "", "Hello", "k=v", "1,2", "a,b,c", "zz", "Go", "fo", "end."}
var oddWords = []string{"100%", "%d", "{x}", "say \"hi\"", "back\\slash", "tab\there", "two\nlines", "a{b}c", "50% {done}"}

// tinyfo pastes a literal's body into the Go literal: the Go escapes \t \n \\ \" pass through; no
// interpolation-like braces or percent signs matter there
var tinyOddWords = []string{"tab\there", "two\nlines", "back\\slash", "say \"hi\"", "100%", "a{b}c"}

func (g *gen) strLit() string {
	if g.has(FStrEscapes) && g.r.Chance(1, 8) {
		if g.prof.Tiny {
			return Choose(g.r, tinyOddWords)
		}
		return Choose(g.r, oddWords)
	}
	return Choose(g.r, words)
}

func (g *gen) intLit() int64 {
	switch g.r.Intn(10) {
	case 0:
		return int64(g.r.Intn(1000))
	case 1:
		return 0
	}
	return int64(g.r.Intn(12))
}

// leaf: a value of type t from a variable in scope or from literals/constructors only.
func (g *gen) leaf(t *Type, d int) *Expr {
	if t.K != TUnit {
		if v := g.varOfType(t); v != nil && g.r.Chance(3, 5) {
			return g.use(v)
		}
	}
	switch t.K {
	case TInt:
		return eInt(g.intLit())
	case TString:
		return eStr(g.strLit())
	case TBool:
		return eBool(g.r.Bool())
	case TUnit:
		return g.printStmt(0)
	case TTuple:
		e := &Expr{K: ETuple, T: t}
		for _, c := range t.Elems {
			e.Args = append(e.Args, g.leaf(c, d))
		}
		return e
	case TSlice:
		e := &Expr{K: ESlice, ElemT: t.Elem(), T: t}
		n := g.r.Intn(4)
		if g.prof.Tiny && n == 0 {
			n = 1
		}
		for i := 0; i < n; i++ {
			e.Args = append(e.Args, g.leaf(t.Elem(), d))
		}
		return e
	case TRec:
		return g.recordOf(t, func(ft *Type) *Expr { return g.leaf(ft, d) })
	case TUnion:
		return g.ctorOf(t, func(pt *Type) *Expr { return g.leaf(pt, d) })
	case TFun:
		return g.funExpr(t, 0)
	}
	panic("leaf: type")
}

func (g *gen) findRec(name string) *Decl {
	for _, d := range g.recs {
		if d.Name == name {
			return d
		}
	}
	panic("no record " + name)
}

func (g *gen) findUnion(name string) *Decl {
	for _, d := range g.unions {
		if d.Name == name {
			return d
		}
	}
	panic("no union " + name)
}

func (g *gen) recordOf(t *Type, sub func(*Type) *Expr) *Expr {
	d := g.findRec(t.Name)
	e := &Expr{K: ERecord, Name: d.Name, T: t}
	order := make([]int, len(d.Fields))
	for i := range order {
		order[i] = i
	}
	if g.prof.PermuteRecords && g.r.Chance(1, 3) {
		order = g.r.Perm(len(d.Fields)) // written in another order than declared
	}
	for _, i := range order {
		f := d.Fields[i]
		e.Fields = append(e.Fields, f.Name)
		e.Args = append(e.Args, sub(f.T))
	}
	return e
}

func (g *gen) ctorOf(t *Type, sub func(*Type) *Expr) *Expr {
	d := g.findUnion(t.Name)
	c := Choose(g.r, d.Cases)
	e := &Expr{K: ECtor, Name: c.Name, T: t}
	if c.T != nil {
		e.Args = []*Expr{sub(c.T)}
	}
	return e
}

// ---------------------------------------------------------------- effects

func (g *gen) sayFun(t *Type) *gfun {
	name := map[TKind]string{TInt: "say", TBool: "sayb", TString: "says"}[t.K]
	for _, f := range g.funs {
		if f.name == name && f.helper {
			return f
		}
	}
	return nil
}

// noisy wraps a scalar expression in say/sayb/says with a fresh tag.
func (g *gen) noisy(e *Expr) *Expr {
	f := g.sayFun(e.T)
	if f == nil {
		return e
	}
	return eCall(f.name, 2, []*Expr{eStr(g.tag()), e}, e.T)
}

func (g *gen) maybeNoisy(e *Expr) *Expr {
	if isScalar(e.T) && g.r.Chance(1, 4) {
		return g.noisy(e)
	}
	return e
}

// ---------------------------------------------------------------- expressions

type alt struct {
	w int
	f func() *Expr
}

func (g *gen) choose(alts []alt) *Expr {
	for len(alts) > 0 {
		tot := 0
		for _, a := range alts {
			tot += a.w
		}
		if tot == 0 {
			return nil
		}
		n := g.r.Intn(tot)
		idx := 0
		for i, a := range alts {
			if n < a.w {
				idx = i
				break
			}
			n -= a.w
		}
		if e := alts[idx].f(); okExpr(e) {
			return e
		}
		alts = append(alts[:idx:idx], alts[idx+1:]...)
	}
	return nil
}

// okExpr: a function value could not be produced somewhere directly below e (no lambda in the
// profile and no named function of the type): the alternative is abandoned.
func okExpr(e *Expr) bool {
	if e == nil {
		return false
	}
	for _, a := range e.Args {
		if a == nil {
			return false
		}
		if a.K == EExt || a.K == ECall || a.K == EPipe {
			for _, b := range a.Args {
				if b == nil {
					return false
				}
			}
		}
	}
	return true
}

func (g *gen) expr(t *Type, d int) *Expr {
	top := g.atBlock || !g.prof.Tiny
	g.atBlock = false
	g.budget--
	switch t.K {
	case TUnit:
		return g.unitExpr(d)
	case TFun:
		return g.funExpr(t, d)
	}
	if d <= 0 || g.budget <= 0 || g.r.Chance(1, 6) {
		return g.maybeNoisy(g.leaf(t, d))
	}
	alts := []alt{
		{3, func() *Expr { return g.leaf(t, d) }},
		{3, func() *Expr { return g.callUser(t, d) }},
		{3, func() *Expr { return g.extCall(t, d) }},
	}
	if g.has(FIfValue) {
		if top {
			alts = append(alts, alt{2, func() *Expr { return g.ifExpr(t, d) }})
		} else {
			alts = append(alts, alt{2, func() *Expr { // one-line if
				return &Expr{K: EIf, Args: []*Expr{g.cond(d)}, T: t, Blocks: []*Block{blockOf(g.expr(t, d-1)), blockOf(g.expr(t, d-1))}}
			}})
		}
	}
	if g.has(FMatchU) && len(g.unions) > 0 && top {
		alts = append(alts, alt{2, func() *Expr { return g.matchU(t, d) }})
	}
	if g.has(FMatchS) && top {
		alts = append(alts, alt{1, func() *Expr { return g.matchS(t, d) }})
	}
	if g.has(FRecord) {
		alts = append(alts, alt{2, func() *Expr { return g.fieldOf(t) }})
	}
	if g.has(FPipe) {
		alts = append(alts, alt{2, func() *Expr { return g.pipeTo(t, d) }})
	}
	switch t.K {
	case TInt:
		alts = append(alts, alt{4, func() *Expr {
			ops := []string{"+", "-", "+", "-"}
			if g.has(FMul) {
				ops = append(ops, "*")
			}
			op := Choose(g.r, ops)
			a, b := g.expr(tInt, d-1), g.expr(tInt, d-1)
			if op == "*" && !g.prof.Wrap {
				b = eInt(int64(g.r.Intn(4)))
			}
			return eBin(op, a, b, tInt)
		}})
		alts = append(alts, alt{2, func() *Expr { return g.noisy(g.expr(tInt, d-1)) }})
		if g.has(FDiv) && !g.prof.Tiny {
			alts = append(alts, alt{1, func() *Expr { // division by a non-zero literal
				var dv *Expr = eInt(int64(1 + g.r.Intn(9)))
				if g.r.Chance(1, 4) {
					dv = eBin("-", eInt(0), dv, tInt) // there are no negative literals in Folang
				}
				return eBin("/", g.expr(tInt, d-1), dv, tInt)
			}})
			if g.has(FIfValue) && top {
				alts = append(alts, alt{2, func() *Expr { return g.guardedDiv() }})
			}
		}
	case TString:
		alts = append(alts, alt{3, func() *Expr { return eBin("sadd", g.expr(tString, d-1), g.expr(tString, d-1), tString) }})
		if g.has(FInterp) {
			alts = append(alts, alt{3, func() *Expr { return g.interp() }})
		}
		alts = append(alts, alt{1, func() *Expr { return g.noisy(g.expr(tString, d-1)) }})
	case TBool:
		alts = append(alts, alt{3, func() *Expr {
			return eBin(Choose(g.r, []string{"<", ">", "<=", ">="}), g.expr(tInt, d-1), g.expr(tInt, d-1), tBool)
		}})
		if g.has(FEq) {
			alts = append(alts, alt{3, func() *Expr {
				et := g.dataType(2)
				k := EEq
				if g.r.Bool() {
					k = ENeq
				}
				return &Expr{K: k, Args: []*Expr{g.expr(et, d-1), g.expr(et, d-1)}, T: tBool}
			}})
		}
		alts = append(alts, alt{1, func() *Expr { return &Expr{K: ENot, Args: []*Expr{g.expr(tBool, d-1)}, T: tBool} }})
		if g.has(FAndOr) {
			alts = append(alts, alt{4, func() *Expr {
				// effectful operands on both sides: the right one must run only when needed
				l, r := g.expr(tBool, d-1), g.expr(tBool, d-1)
				if g.r.Chance(2, 3) {
					r = g.noisy(r)
				}
				if g.r.Chance(1, 3) {
					l = g.noisy(l)
				}
				return eBin(Choose(g.r, []string{"&&", "||"}), l, r, tBool)
			}})
		}
	case TTuple:
		alts = append(alts, alt{5, func() *Expr {
			e := &Expr{K: ETuple, T: t}
			for _, c := range t.Elems {
				e.Args = append(e.Args, g.expr(c, d-1))
			}
			return e
		}})
	case TSlice:
		alts = append(alts, alt{5, func() *Expr {
			e := &Expr{K: ESlice, ElemT: t.Elem(), T: t}
			n := g.r.Intn(4)
			if g.prof.Tiny && n == 0 {
				n = 1
			}
			for i := 0; i < n; i++ {
				e.Args = append(e.Args, g.expr(t.Elem(), d-1))
			}
			return e
		}})
	case TRec:
		alts = append(alts, alt{5, func() *Expr { return g.recordOf(t, func(ft *Type) *Expr { return g.expr(ft, d-1) }) }})
	case TUnion:
		alts = append(alts, alt{5, func() *Expr { return g.ctorOf(t, func(pt *Type) *Expr { return g.expr(pt, d-1) }) }})
	}
	if e := g.choose(alts); e != nil {
		return e
	}
	return g.leaf(t, d)
}

// args for a call of f: the decreasing parameter of a recursive function gets a small literal.
func (g *gen) callArgs(f *gfun, ps []*Type, d int) []*Expr {
	var args []*Expr
	for i, p := range ps {
		switch {
		case p.K == TUnit:
			args = append(args, eUnit())
		case f != nil && f.recursive && i == 0:
			if f == g.self {
				g.selfUse++
				args = append(args, eBin("-", g.use(g.selfN), eInt(1), tInt))
			} else {
				args = append(args, eInt(int64(g.r.Intn(4))))
			}
		default:
			args = append(args, g.expr(p, d-1))
		}
	}
	return args
}

// callable things in scope: top-level functions and local closures
type callee struct {
	name string
	t    *Type
	fn   *gfun
	v    *gvar
}

func (g *gen) callees() []callee {
	var cs []callee
	for _, f := range g.funs {
		if f.recursive && f != g.self && false {
			continue
		}
		cs = append(cs, callee{name: f.name, t: f.t, fn: f})
	}
	for _, v := range g.scope {
		if v.t.K == TFun {
			cs = append(cs, callee{name: v.name, t: v.t, v: v})
		}
	}
	return cs
}

func (g *gen) mkCall(c callee, args []*Expr) *Expr {
	if c.v != nil {
		c.v.uses++
	}
	ps := c.t.FunParams()
	var rt *Type
	if len(args) == len(ps) {
		rt = c.t.FunRet()
	} else {
		rt = tFun(ps[len(args):], c.t.FunRet())
	}
	return eCall(c.name, len(ps), args, rt)
}

// callUser: full application of something in scope returning t.
func (g *gen) callUser(t *Type, d int) *Expr {
	var cands []callee
	for _, c := range g.callees() {
		if c.t.FunRet().Equal(t) {
			if c.fn != nil && c.fn.helper && !g.r.Chance(1, 3) {
				continue
			}
			if c.fn != nil && c.fn == g.self && g.selfUse >= 2 {
				continue
			}
			cands = append(cands, c)
		}
	}
	if len(cands) == 0 {
		return nil
	}
	c := Choose(g.r, cands)
	if c.fn != nil && c.fn.helper {
		return eCall(c.name, 2, []*Expr{eStr(g.tag()), g.expr(t, d-1)}, t)
	}
	args := g.callArgs(c.fn, c.t.FunParams(), d)
	for _, a := range args {
		if a == nil {
			return nil
		}
	}
	return g.mkCall(c, args)
}

func (g *gen) cond(d int) *Expr {
	c := g.expr(tBool, d-1)
	if c.K == EBool && g.r.Chance(2, 3) {
		c = eBin(Choose(g.r, []string{"<", ">", "<=", ">="}), g.expr(tInt, d-1), g.expr(tInt, d-1), tBool)
	}
	return c
}

func (g *gen) ifExpr(t *Type, d int) *Expr {
	e := &Expr{K: EIf, Args: []*Expr{g.cond(d)}, T: t}
	e.Blocks = []*Block{g.block(t, d-1, 2), nil}
	if g.r.Chance(1, 3) && d > 1 {
		// elif chain: an else-block that is just another if
		e.Blocks[1] = blockOf(g.ifExpr(t, d-1))
	} else {
		e.Blocks[1] = g.block(t, d-1, 2)
	}
	if t.K == TUnit && !g.prof.Tiny && g.has(FIfStmt) && g.r.Chance(1, 4) {
		// the dangling-else layout: the then-block ends in `if c then e` on one line (no else of its own)
		// and is followed by the else / elif of this if; half of the time the bodies that follow are
		// single expressions (the printer then writes them on the else / elif line)
		b := e.Blocks[0]
		if c := g.cond(1); singleLine(c) {
			if body := g.printStmt(1); singleLine(body) {
				if !tailIfOnly(b) {
					b.Stmts = append(b.Stmts, &Stmt{K: SDo, E: b.E})
				}
				b.E = &Expr{K: EIfOnly, Args: []*Expr{c}, Blocks: []*Block{blockOf(body)}, T: tUnit}
				if g.r.Bool() {
					for eb := e.Blocks[1]; ; {
						if len(eb.Stmts) == 0 && eb.E.K == EIf {
							if tb := eb.E.Blocks[0]; !inlineBlock(tb) && !oneLineIfOnly(tb.E) {
								eb.E.Blocks[0] = blockOf(g.printStmt(1))
							}
							eb = eb.E.Blocks[1]
							continue
						}
						if !inlineBlock(eb) {
							*eb = *blockOf(g.printStmt(1))
						}
						break
					}
				}
			}
		}
	}
	if t.K == TUnit && tailIfOnly(e.Blocks[0]) && (g.prof.Tiny || !oneLineIfOnly(e.Blocks[0].E)) {
		b := e.Blocks[0]
		b.Stmts = append(b.Stmts, &Stmt{K: SDo, E: b.E})
		b.E = eUnit()
	}
	return e
}

// plainInt: an int expression made of variables, field accesses, literals and + - only, not a bare literal
// (what a compiler may be tempted to evaluate early: "nothing is called").
func (g *gen) plainInt() *Expr {
	v := g.varOfType(tInt)
	if v == nil {
		return nil
	}
	e := g.use(v)
	if g.r.Chance(1, 3) {
		e = eBin(Choose(g.r, []string{"+", "-"}), e, eInt(int64(g.r.Intn(4))), tInt)
	}
	return e
}

// guardedDiv: `if d = 0 then dflt else n / d` (or with <> and the branches exchanged): the division is in the
// branch the guard excludes when d is 0, and both branches are plain expressions. d is a variable, so that
// Go does not fold the division.
func (g *gen) guardedDiv() *Expr {
	dv := g.varOfType(tInt)
	if dv == nil {
		return nil
	}
	return g.guardedDivOn(dv)
}

func (g *gen) guardedDivOn(dv *gvar) *Expr {
	dflt, num := g.plainInt(), g.plainInt()
	if dflt == nil || num == nil {
		return nil
	}
	div := eBin("/", num, g.use(dv), tInt)
	e := &Expr{K: EIf, T: tInt}
	if g.r.Bool() {
		e.Args = []*Expr{{K: EEq, Args: []*Expr{g.use(dv), eInt(0)}, T: tBool}}
		e.Blocks = []*Block{blockOf(dflt), blockOf(div)}
	} else {
		e.Args = []*Expr{{K: ENeq, Args: []*Expr{g.use(dv), eInt(0)}, T: tBool}}
		e.Blocks = []*Block{blockOf(div), blockOf(dflt)}
	}
	return e
}

// matchTarget: an expression of union type whose type fc knows at parse time.
func (g *gen) matchTarget(u *Decl, d int) *Expr {
	t := tUnion(u.Name)
	alts := []alt{
		{4, func() *Expr {
			if v := g.varOfType(t); v != nil {
				return g.use(v)
			}
			return nil
		}},
		{2, func() *Expr { return g.ctorOf(t, func(pt *Type) *Expr { return g.expr(pt, d-1) }) }},
		{2, func() *Expr {
			e := g.callUser(t, d)
			if e != nil && e.K == ECall && len(e.Args) == e.Arity {
				return e
			}
			return nil
		}},
		{2, func() *Expr { return g.fieldOf(t) }},
	}
	return g.choose(alts)
}

func (g *gen) matchU(t *Type, d int) *Expr {
	u := Choose(g.r, g.unions)
	tg := g.matchTarget(u, d)
	if tg == nil {
		return nil
	}
	e := &Expr{K: EMatchU, Args: []*Expr{tg}, T: t}
	order := g.r.Perm(len(u.Cases))
	withDefault := len(u.Cases) > 1 && g.r.Chance(2, 5)
	n := len(order)
	if withDefault {
		n = 1 + g.r.Intn(len(order)-1)
	}
	for _, ci := range order[:n] {
		c := u.Cases[ci]
		a := Arm{Case: c.Name}
		mark := len(g.scope)
		var bv *gvar
		if c.T != nil {
			switch g.r.Intn(6) {
			case 0:
				a.Bind = "_"
			case 1:
			default:
				a.Bind = g.freshVar()
				bv = g.push(a.Bind, c.T)
			}
		} else if g.r.Chance(1, 6) {
			a.Bind = "_"
		}
		a.Body = g.block(t, d-1, 2)
		if bv != nil && !blockUses(a.Body, bv.name) {
			if g.prof.Hazard == "" || true {
				if g.r.Bool() {
					a.Bind = "_"
				} else {
					a.Body.Stmts = append(g.observe(g.use(bv), 1), a.Body.Stmts...)
				}
			}
		}
		g.scope = g.scope[:mark]
		e.Arms = append(e.Arms, a)
	}
	if withDefault {
		e.Deflt = g.block(t, d-1, 2)
	}
	return e
}

func (g *gen) matchS(t *Type, d int) *Expr {
	e := &Expr{K: EMatchS, Args: []*Expr{g.expr(tString, d-1)}, T: t}
	n := 1 + g.r.Intn(3)
	seen := map[string]bool{}
	for i := 0; i < n; i++ {
		l := g.strLit()
		if seen[l] {
			continue
		}
		seen[l] = true
		e.Arms = append(e.Arms, Arm{Lit: l, Body: g.block(t, d-1, 1)})
	}
	mark := len(g.scope)
	var bv *gvar
	if g.r.Bool() {
		e.Bind = g.freshVar()
		bv = g.push(e.Bind, tString)
	}
	e.Deflt = g.block(t, d-1, 2)
	if bv != nil && !blockUses(e.Deflt, bv.name) {
		if g.r.Bool() {
			e.Bind = ""
		} else {
			e.Deflt.Stmts = append(g.observe(g.use(bv), 1), e.Deflt.Stmts...)
		}
	}
	g.scope = g.scope[:mark]
	return e
}

// fieldOf: a field path from a record variable in scope ending at type t.
func (g *gen) fieldOf(t *Type) *Expr {
	type path struct {
		v  *gvar
		fs []string
		ts []*Type
	}
	var cands []path
	for _, v := range g.scope {
		if v.t.K != TRec {
			continue
		}
		for _, f := range g.findRec(v.t.Name).Fields {
			if f.T.Equal(t) {
				cands = append(cands, path{v, []string{f.Name}, []*Type{f.T}})
			}
			if f.T.K == TRec {
				for _, f2 := range g.findRec(f.T.Name).Fields {
					if f2.T.Equal(t) {
						cands = append(cands, path{v, []string{f.Name, f2.Name}, []*Type{f.T, f2.T}})
					}
				}
			}
		}
	}
	if len(cands) == 0 {
		return nil
	}
	p := Choose(g.r, cands)
	e := g.use(p.v)
	for i, f := range p.fs {
		e = &Expr{K: EField, Name: f, Args: []*Expr{e}, T: p.ts[i]}
	}
	return e
}

func (g *gen) interp() *Expr {
	e := &Expr{K: EInterp, T: tString}
	n := 1 + g.r.Intn(4)
	for i := 0; i < n; i++ {
		if g.r.Bool() {
			if v := g.pickVar(func(v *gvar) bool { return isScalar(v.t) }); v != nil {
				v.uses++
				e.Parts = append(e.Parts, Part{IsHole: true, Text: v.name})
				continue
			}
		}
		txt := g.strLit()
		if txt == "" {
			txt = " "
		}
		if len(e.Parts) > 0 && !e.Parts[len(e.Parts)-1].IsHole {
			e.Parts[len(e.Parts)-1].Text += txt
		} else {
			e.Parts = append(e.Parts, Part{Text: txt})
		}
	}
	return e
}

// ---------------------------------------------------------------- library calls

// instantiate the free variables of a signature (after unifying its result) with random types
func (g *gen) instantiate(sig *ExtSig, s map[string]*Type) {
	vs := map[string]bool{}
	for _, p := range sig.Params {
		p.vars(vs)
	}
	for _, v := range SortedKeys(vs) {
		if s[v] != nil {
			continue
		}
		ord := false
		for _, o := range sig.Ordered {
			if o == v {
				ord = true
			}
		}
		if ord {
			s[v] = Choose(g.r, []*Type{tInt, tString})
		} else {
			s[v] = g.dataType(1)
		}
	}
}

func (g *gen) extAllowed(sig *ExtSig) bool {
	if g.prof.Tiny && !sig.Tiny {
		return false
	}
	if !g.has(FSlice) && strings.HasPrefix(sig.Name, "slice.") {
		return false
	}
	if !g.has(FTuple) && (sig.Name == "frt.Fst" || sig.Name == "frt.Snd" || sig.Name == "slice.Zip") {
		return false
	}
	for _, p := range sig.Params {
		if p.K == TFun && !g.has(FCallbacks) {
			return false
		}
	}
	return true
}

func dataSubst(s map[string]*Type) bool {
	for _, t := range s {
		if !t.FirstOrder() {
			return false
		}
	}
	return true
}

// extCall: a library call of result type t (nil when none fits).
func (g *gen) extCall(t *Type, d int) *Expr {
	var cands []*ExtSig
	for _, n := range extNames {
		sig := extTable[n]
		if !g.extAllowed(sig) {
			continue
		}
		s := map[string]*Type{}
		if unify(sig.Ret, t, s) && dataSubst(s) {
			if sig.Name == "slice.Sort" && t.Elem().K != TInt && t.Elem().K != TString {
				continue
			}
			cands = append(cands, sig)
		}
	}
	if len(cands) == 0 {
		return nil
	}
	// functions with a specific result type are rarer candidates than the generic projections
	// (Head, Last, Item, Fst, Snd, Fold fit every type): weigh them up
	var weighted []*ExtSig
	for _, sg := range cands {
		w := 1
		if sg.Ret.K != TVar {
			w = 5
		}
		for k := 0; k < w; k++ {
			weighted = append(weighted, sg)
		}
	}
	sig := Choose(g.r, weighted)
	if e := g.callbackFirst(sig, t, d); e != nil {
		return e
	}
	s := map[string]*Type{}
	unify(sig.Ret, t, s)
	g.instantiate(sig, s)
	args := g.extArgs(sig, s, d, len(sig.Params))
	if args == nil {
		return nil
	}
	for _, a := range args {
		if a == nil {
			return nil
		}
	}
	return eExt(sig.Name, args, t)
}

// callbackFirst: for Map / Forall / Forany (and Iter, see unitExpr) pick the callback among the
// functions in scope first and let its parameter type decide the element type. This is how named
// functions and partial applications get used as callbacks (and the only way without lambdas).
func (g *gen) callbackFirst(sig *ExtSig, t *Type, d int) *Expr {
	lambdas := g.has(FLambda) && !g.prof.Tiny
	if lambdas && g.r.Bool() {
		return nil
	}
	var rt *Type
	switch sig.Name {
	case "slice.Map":
		rt = t.Elem()
	case "slice.Forall", "slice.Forany":
		rt = tBool
	case "slice.Iter":
		rt = tUnit
	default:
		return nil
	}
	f, et := g.funExprFree(rt, d)
	if f == nil {
		return nil
	}
	return eExt(sig.Name, []*Expr{f, g.expr(tSlice(et), d-1)}, t)
}

// funExprFree: a unary function value returning rt whose parameter type is whatever the chosen
// function takes last: a named function or a partial application.
func (g *gen) funExprFree(rt *Type, d int) (*Expr, *Type) {
	var cands []callee
	for _, c := range g.callees() {
		ps := c.t.FunParams()
		last := ps[len(ps)-1]
		if !c.t.FunRet().Equal(rt) || !last.FirstOrder() {
			continue
		}
		if c.fn != nil && c.fn.recursive {
			continue
		}
		if len(ps) > 1 && !g.has(FPartial) {
			continue
		}
		cands = append(cands, c)
	}
	if len(cands) == 0 {
		return nil, nil
	}
	c := Choose(g.r, cands)
	ps := c.t.FunParams()
	last := ps[len(ps)-1]
	if len(ps) == 1 {
		if c.v != nil {
			return g.use(c.v), last
		}
		return eVar(c.name, c.t), last
	}
	var args []*Expr
	for i, p := range ps[:len(ps)-1] {
		if c.fn != nil && c.fn.helper && i == 0 {
			args = append(args, eStr(g.tag()))
			continue
		}
		a := g.papArg(p, d)
		if a == nil {
			return nil, nil
		}
		args = append(args, a)
	}
	return g.mkCall(c, args), last
}

// nonEmptySlice: a literal with at least n elements (arguments of partial library functions).
func (g *gen) sliceLit(t *Type, min, d int) *Expr {
	e := &Expr{K: ESlice, ElemT: t.Elem(), T: t}
	if g.prof.Tiny && min == 0 {
		min = 1
	}
	n := min + g.r.Intn(3)
	for i := 0; i < n; i++ {
		e.Args = append(e.Args, g.expr(t.Elem(), d-1))
	}
	return e
}

// extArgs generates the first k arguments of a library call under substitution s.
func (g *gen) extArgs(sig *ExtSig, s map[string]*Type, d int, k int) []*Expr {
	var args []*Expr
	ts := make([]*Type, len(sig.Params))
	for i, p := range sig.Params {
		ts[i] = p.subst(s)
	}
	switch sig.Name {
	case "frt.Printf1", "frt.Sprintf1":
		ot := ts[1]
		var verbs []string
		for _, v := range []string{"d", "s", "v"} {
			if verbAccepts(v, ot) {
				verbs = append(verbs, v)
			}
		}
		if len(verbs) == 0 {
			return nil
		}
		verb := Choose(g.r, verbs)
		f := "%" + verb + "\n"
		if sig.Name == "frt.Sprintf1" {
			f = Choose(g.r, []string{"", "<", "n=", "[", "v: "}) + "%" + verb + Choose(g.r, []string{"", ">", "]", "!", " ok"})
		}
		args = append(args, eStr(f))
		if k > 1 {
			args = append(args, g.expr(ot, d-1))
		}
		return args
	case "slice.Head", "slice.Last", "slice.Tail":
		if k < 1 {
			return args
		}
		if v := g.varOfType(ts[0]); v != nil && v.lit && g.r.Bool() {
			return []*Expr{g.use(v)}
		}
		if g.r.Chance(1, 3) {
			return []*Expr{eExt("slice.PushHead", []*Expr{g.expr(ts[0].Elem(), d-1), g.expr(ts[0], d-1)}, ts[0])}
		}
		return []*Expr{g.sliceLit(ts[0], 1, d)}
	case "slice.Item", "slice.Take", "slice.Skip":
		n := g.r.Intn(3)
		args = append(args, eInt(int64(n)))
		if k > 1 {
			min := n
			if sig.Name == "slice.Item" {
				min = n + 1
			}
			args = append(args, g.sliceLit(ts[1], min, d))
		}
		return args
	case "slice.Zip":
		a := g.sliceLit(ts[0], 0, d)
		args = append(args, a)
		if k > 1 {
			b := &Expr{K: ESlice, ElemT: ts[1].Elem(), T: ts[1]}
			for range a.Args {
				b.Args = append(b.Args, g.expr(ts[1].Elem(), d-1))
			}
			args = append(args, b)
		}
		return args
	case "strings.Split":
		args = append(args, eStr(Choose(g.r, []string{",", " ", "=", "ab"})))
		if k > 1 {
			args = append(args, g.expr(tString, d-1))
		}
		return args
	}
	for i := 0; i < k; i++ {
		args = append(args, g.expr(ts[i], d-1))
	}
	return args
}

// ---------------------------------------------------------------- pipes

// pipeTo: E |> R with R a unary function variable, a user call or a library call missing its last argument.
func (g *gen) pipeTo(t *Type, d int) *Expr {
	alts := []alt{
		{3, func() *Expr { // library stage
			var cands []*ExtSig
			for _, n := range extNames {
				sig := extTable[n]
				if !g.extAllowed(sig) {
					continue
				}
				s := map[string]*Type{}
				last := sig.Params[len(sig.Params)-1]
				if unify(sig.Ret, t, s) && last.K != TFun && dataSubst(s) {
					if sig.Name == "slice.Sort" && t.Elem().K != TInt && t.Elem().K != TString {
						continue
					}
					cands = append(cands, sig)
				}
			}
			if len(cands) == 0 {
				return nil
			}
			sig := Choose(g.r, cands)
			s := map[string]*Type{}
			unify(sig.Ret, t, s)
			g.instantiate(sig, s)
			all := g.extArgs(sig, s, d, len(sig.Params))
			if all == nil {
				return nil
			}
			n := len(all)
			lhs := all[n-1]
			if lhs.T == nil || lhs.T.K == TUnit || lhs.T.K == TFun {
				return nil
			}
			stage := eExt(sig.Name, all[:n-1], tFun([]*Type{lhs.T}, t))
			return &Expr{K: EPipe, Args: []*Expr{lhs, stage}, T: t}
		}},
		{3, func() *Expr { // user stage
			var cands []callee
			for _, c := range g.callees() {
				ps := c.t.FunParams()
				last := ps[len(ps)-1]
				if c.t.FunRet().Equal(t) && last.K != TUnit && last.K != TFun {
					if c.fn != nil && c.fn.recursive {
						continue
					}
					cands = append(cands, c)
				}
			}
			if len(cands) == 0 {
				return nil
			}
			c := Choose(g.r, cands)
			ps := c.t.FunParams()
			last := ps[len(ps)-1]
			var stage *Expr
			if len(ps) == 1 {
				if c.v != nil {
					stage = g.use(c.v)
				} else {
					stage = eVar(c.name, c.t)
				}
			} else if c.fn != nil && c.fn.helper {
				stage = eCall(c.name, 2, []*Expr{eStr(g.tag())}, tFun([]*Type{last}, t))
			} else {
				stage = g.mkCall(c, g.callArgs(c.fn, ps[:len(ps)-1], d))
			}
			lhs := g.expr(last, d-1)
			return &Expr{K: EPipe, Args: []*Expr{lhs, stage}, T: t}
		}},
	}
	return g.choose(alts)
}

// ---------------------------------------------------------------- function values

// papArg: an argument supplied to a partial application. Main stream: effect-free (mostly the
// syntactically pure forms the theorem covers); hazard pap-effect: effectful.
func (g *gen) papArg(t *Type, d int) *Expr {
	if t.K == TFun {
		return g.funExpr(t, d-1)
	}
	if t.K == TUnit {
		return eUnit()
	}
	if g.r.Chance(4, 5) || !isScalar(t) {
		save := g.budget
		e := g.leaf(t, 0)
		g.budget = save
		if syntacticPure(e) || effectFree(e) {
			return e
		}
	}
	// effect-free compound
	switch t.K {
	case TInt:
		return eBin(Choose(g.r, []string{"+", "-"}), g.leaf(tInt, 0), eInt(g.intLit()), tInt)
	case TString:
		return eBin("sadd", g.leaf(tString, 0), eStr(g.strLit()), tString)
	case TBool:
		return eBin(Choose(g.r, []string{"<", ">"}), g.leaf(tInt, 0), eInt(g.intLit()), tBool)
	}
	return g.leaf(t, 0)
}

// funTypeOK: can a value of function type t always be produced in this profile?
func (g *gen) funTypeOK(t *Type) bool {
	ps, rt := t.FunParams(), t.FunRet()
	if g.has(FLambda) && !g.prof.Tiny && rt.K != TFun {
		ok := true
		for _, p := range ps {
			if !p.FirstOrder() {
				ok = false
			}
		}
		if ok {
			return true
		}
	}
	if g.has(FPartial) && len(ps) == 1 && ps[0].Equal(rt) && isScalar(rt) && g.sayFun(rt) != nil {
		return true // say "tag" : int -> int, sayb, says
	}
	for _, f := range g.funs {
		if f.t.Equal(t) && !f.recursive {
			return true
		}
	}
	return false
}

// randFunType: a function type over first-order types that funTypeOK accepts (nil when none).
func (g *gen) randFunType(allowUnitRet bool) *Type {
	for tries := 0; tries < 6; tries++ {
		var qs []*Type
		for k := 0; k < 1+g.r.Intn(2); k++ {
			qs = append(qs, g.dataType(1))
		}
		rt := g.dataType(1)
		if allowUnitRet && g.r.Chance(1, 5) {
			rt = tUnit
		}
		if g.prof.Tiny || !g.has(FLambda) {
			// only what named functions and partial applications provide
			var cands []*Type
			for _, f := range g.funs {
				if f.recursive {
					continue
				}
				if f.helper {
					cands = append(cands, tFun(f.t.FunParams()[1:], f.t.FunRet()))
				} else if f.t.FunParams()[0].K != TUnit && f.t.FunRet().K != TFun {
					ok := true
					for _, p := range f.t.FunParams() {
						if !p.FirstOrder() {
							ok = false
						}
					}
					if ok && (allowUnitRet || f.t.FunRet().K != TUnit) {
						cands = append(cands, f.t)
					}
				}
			}
			if len(cands) == 0 {
				return nil
			}
			return Choose(g.r, cands)
		}
		t := tFun(qs, rt)
		if g.funTypeOK(t) {
			return t
		}
	}
	return nil
}

// funExpr: a value of function type t.
func (g *gen) funExpr(t *Type, d int) *Expr {
	ps, rt := t.FunParams(), t.FunRet()
	alts := []alt{
		{3, func() *Expr { // a variable / named function of exactly this type
			var cands []callee
			for _, c := range g.callees() {
				if c.t.Equal(t) && !(c.fn != nil && c.fn.recursive) {
					cands = append(cands, c)
				}
			}
			if len(cands) == 0 {
				return nil
			}
			c := Choose(g.r, cands)
			if c.v != nil {
				return g.use(c.v)
			}
			return eVar(c.name, c.t)
		}},
	}
	if g.has(FPartial) {
		alts = append(alts, alt{4, func() *Expr { // partial application
			var cands []callee
			for _, c := range g.callees() {
				cps := c.t.FunParams()
				if len(cps) <= len(ps) || !c.t.FunRet().Equal(rt) {
					continue
				}
				ok := true
				off := len(cps) - len(ps)
				for i, p := range ps {
					if !cps[off+i].Equal(p) {
						ok = false
					}
				}
				if c.fn != nil && c.fn.recursive && c.fn == g.self {
					ok = false
				}
				if ok {
					cands = append(cands, c)
				}
			}
			if len(cands) == 0 {
				return nil
			}
			c := Choose(g.r, cands)
			cps := c.t.FunParams()
			var args []*Expr
			for i, p := range cps[:len(cps)-len(ps)] {
				switch {
				case c.fn != nil && c.fn.helper && i == 0:
					args = append(args, eStr(g.tag()))
				case c.fn != nil && c.fn.recursive && i == 0:
					args = append(args, eInt(int64(g.r.Intn(4))))
				default:
					args = append(args, g.papArg(p, d))
				}
			}
			return g.mkCall(c, args)
		}})
	}
	if g.has(FLambda) && !g.prof.Tiny {
		firstOrder := true
		for _, p := range ps {
			if !p.FirstOrder() {
				firstOrder = false
			}
		}
		if firstOrder && rt.K != TFun {
			alts = append(alts, alt{4, func() *Expr { return g.lambda(ps, rt, d) }})
		}
	}
	if g.has(FExtPartial) && len(ps) == 1 {
		alts = append(alts, alt{1, func() *Expr { return g.extPartial(ps[0], rt, d) }})
	}
	if e := g.choose(alts); e != nil {
		return e
	}
	return nil
}

// etaShaped: `fun x -> f a.. x` where the body is nothing but a full call of a function of known,
// non-generic type whose LAST argument is the parameter and where the parameter also occurs in an earlier
// argument (`fun n -> mul n n`): eta-reducing it to the partial application `f a..` would let the
// earlier occurrence escape the lambda.
func (g *gen) etaShaped(pt *Type, rt *Type, d int) *Expr {
	type cand struct {
		c    callee
		here []int // earlier parameter positions of the parameter's type
	}
	var cands []cand
	for _, c := range g.callees() {
		cps := c.t.FunParams()
		if len(cps) < 2 || !c.t.FunRet().Equal(rt) || !cps[len(cps)-1].Equal(pt) {
			continue
		}
		if c.fn != nil && (c.fn.recursive || c.fn == g.self) {
			continue
		}
		var here []int
		for i, p := range cps[:len(cps)-1] {
			if p.Equal(pt) {
				here = append(here, i)
			}
		}
		if len(here) > 0 {
			cands = append(cands, cand{c, here})
		}
	}
	if len(cands) == 0 {
		return nil
	}
	k := Choose(g.r, cands)
	x := g.freshVar()
	e := &Expr{K: ELam, T: tFun([]*Type{pt}, rt), Params: []Param{{x, pt}}}
	cps := k.c.t.FunParams()
	at := Choose(g.r, k.here)
	var args []*Expr
	for i, p := range cps[:len(cps)-1] {
		switch {
		case i == at:
			args = append(args, eVar(x, pt))
		case p.K == TUnit || p.K == TFun:
			return nil
		default:
			args = append(args, g.leaf(p, 0))
		}
	}
	args = append(args, eVar(x, pt))
	for _, a := range args {
		if a == nil {
			return nil
		}
	}
	e.Blocks = []*Block{blockOf(g.mkCall(k.c, args))}
	return e
}

func (g *gen) lambda(ps []*Type, rt *Type, d int) *Expr {
	if len(ps) == 1 && g.r.Chance(1, 3) {
		if e := g.etaShaped(ps[0], rt, d); e != nil {
			return e
		}
	}
	e := &Expr{K: ELam, T: tFun(ps, rt)}
	mark := len(g.scope)
	var vs []*gvar
	for _, p := range ps {
		n := g.freshVar()
		e.Params = append(e.Params, Param{n, p})
		vs = append(vs, g.push(n, p))
	}
	nst := 0
	if g.r.Chance(1, 3) {
		nst = 2
	}
	body := g.block(rt, d-1, nst)
	for _, v := range vs {
		if !blockUses(body, v.name) {
			body.Stmts = append(g.observe(g.use(v), 1), body.Stmts...)
		}
	}
	g.scope = g.scope[:mark]
	e.Blocks = []*Block{body}
	return e
}

// extPartial: a library function applied to all but its last argument, as a function value
// (extension of FORMAT.md, see CheckOpts.AllowExtPartial).
func (g *gen) extPartial(pt, rt *Type, d int) *Expr {
	ft := tFun([]*Type{pt}, rt)
	switch {
	case rt.K == TString && (pt.K == TInt || pt.K == TString):
		verb := "%d"
		if pt.K == TString {
			verb = "%s"
		}
		return eExt("frt.Sprintf1", []*Expr{eStr(Choose(g.r, []string{"<", "n=", ""}) + verb + Choose(g.r, []string{">", "", "!"}))}, ft)
	case rt.K == TUnit && (pt.K == TInt || pt.K == TString):
		verb := "%d\n"
		if pt.K == TString {
			verb = "%s\n"
		}
		return eExt("frt.Printf1", []*Expr{eStr(verb)}, ft)
	case rt.K == TString && pt.K == TString:
		return eExt(Choose(g.r, []string{"strings.AppendHead", "strings.AppendTail"}), []*Expr{eStr(g.strLit())}, ft)
	case rt.K == TBool && pt.K == TString:
		return eExt(Choose(g.r, []string{"strings.HasPrefix", "strings.HasSuffix"}), []*Expr{eStr(g.strLit())}, ft)
	case rt.K == TSlice && pt.Equal(rt) && g.has(FSlice):
		return eExt(Choose(g.r, []string{"slice.PushLast", "slice.PushHead"}), []*Expr{g.papArg(pt.Elem(), d)}, ft)
	}
	return nil
}

// ---------------------------------------------------------------- unit expressions

func (g *gen) printStmt(d int) *Expr {
	var t *Type
	switch g.r.Intn(6) {
	case 0, 1:
		t = tInt
	case 2, 3:
		t = tString
	case 4:
		t = tBool
	default:
		if g.has(FSlice) {
			t = tSlice(g.scalarType())
		} else {
			t = tInt
		}
	}
	return g.printOf(g.expr(t, d))
}

// printOf: the call printing a printable value.
func (g *gen) printOf(e *Expr) *Expr {
	switch e.T.K {
	case TInt:
		return eExt("frt.Printf1", []*Expr{eStr(Choose(g.r, []string{"%d\n", "%d\n", "%v\n"})), e}, tUnit)
	case TString:
		if g.r.Chance(2, 3) {
			return eExt("frt.Println", []*Expr{e}, tUnit)
		}
		return eExt("frt.Printf1", []*Expr{eStr(Choose(g.r, []string{"%s\n", "%v\n"})), e}, tUnit)
	}
	return eExt("frt.Printf1", []*Expr{eStr("%v\n"), e}, tUnit)
}

func (g *gen) unitExpr(d int) *Expr {
	if d <= 0 || g.budget <= 0 {
		return g.printStmt(0)
	}
	alts := []alt{
		{5, func() *Expr { return g.printStmt(d - 1) }},
		{3, func() *Expr { return g.callUser(tUnit, d) }},
	}
	if g.has(FIfStmt) {
		alts = append(alts, alt{3, func() *Expr { return g.ifExpr(tUnit, d) }})
		alts = append(alts, alt{2, func() *Expr {
			return &Expr{K: EIfOnly, Args: []*Expr{g.cond(d)}, Blocks: []*Block{g.block(tUnit, d-1, 2)}, T: tUnit}
		}})
	}
	if g.has(FMatchU) && len(g.unions) > 0 {
		alts = append(alts, alt{2, func() *Expr { return g.matchU(tUnit, d) }})
	}
	if g.has(FMatchS) {
		alts = append(alts, alt{1, func() *Expr { return g.matchS(tUnit, d) }})
	}
	if g.has(FCallbacks) && g.has(FSlice) {
		alts = append(alts, alt{2, func() *Expr {
			if e := g.callbackFirst(extTable["slice.Iter"], tUnit, d); e != nil {
				return e
			}
			et := g.dataType(1)
			f := g.funExpr(tFun([]*Type{et}, tUnit), d-1)
			if f == nil {
				return nil
			}
			return eExt("slice.Iter", []*Expr{f, g.expr(tSlice(et), d-1)}, tUnit)
		}})
	}
	if g.has(FPipe) {
		alts = append(alts, alt{3, func() *Expr { return g.unitPipe(d) }})
	}
	if e := g.choose(alts); e != nil {
		return e
	}
	return g.printStmt(0)
}

// unitPipe: a pipeline whose last stage returns unit (frt.PipeUnit).
func (g *gen) unitPipe(d int) *Expr {
	alts := []alt{
		{3, func() *Expr {
			p := g.printStmt(d - 1) // (ext frt.Println (E)) / (ext frt.Printf1 (fmt E))
			n := len(p.Args)
			lhs := p.Args[n-1]
			stage := eExt(p.Name, p.Args[:n-1], tFun([]*Type{lhs.T}, tUnit))
			return &Expr{K: EPipe, Args: []*Expr{lhs, stage}, T: tUnit}
		}},
		{2, func() *Expr { return g.pipeTo(tUnit, d) }},
	}
	if g.has(FCallbacks) && g.has(FSlice) {
		alts = append(alts, alt{2, func() *Expr {
			et := g.dataType(1)
			f := g.funExpr(tFun([]*Type{et}, tUnit), d-1)
			if f == nil {
				return nil
			}
			st := tSlice(et)
			stage := eExt("slice.Iter", []*Expr{f}, tFun([]*Type{st}, tUnit))
			return &Expr{K: EPipe, Args: []*Expr{g.expr(st, d-1), stage}, T: tUnit}
		}})
	}
	return g.choose(alts)
}

// ---------------------------------------------------------------- observation (every binder is used)

// unitBlock: statements as a block of type unit.
func unitBlock(stmts []*Stmt) *Block {
	if n := len(stmts); n > 0 && stmts[n-1].K == SDo && !(stmts[n-1].E.K == EIfOnly) {
		return &Block{Stmts: stmts[:n-1], E: stmts[n-1].E}
	}
	return &Block{Stmts: stmts, E: eUnit()}
}

// observe: statements that print something depending on the value of e (a variable or a field path
// for records / unions). depth bounds the unfolding of structured values.
func (g *gen) observe(e *Expr, depth int) []*Stmt {
	t := e.T
	do := func(x *Expr) []*Stmt { return []*Stmt{{K: SDo, E: x}} }
	switch {
	case printable(t):
		return do(g.printOf(e))
	case t.K == TSlice:
		return do(g.printOf(eExt("slice.Length", []*Expr{e}, tInt)))
	case t.K == TTuple:
		if depth <= 0 && len(t.Elems) == 2 && printable(t.Elems[0]) {
			return do(g.printOf(eExt("frt.Fst", []*Expr{e}, t.Elems[0])))
		}
		st := &Stmt{K: SDestr, E: e}
		var out []*Stmt
		for _, c := range t.Elems {
			n := g.freshVar()
			st.Names = append(st.Names, n)
			out = append(out, g.observe(eVar(n, c), depth-1)...)
		}
		return append([]*Stmt{st}, out...)
	case t.K == TRec:
		d := g.findRec(t.Name)
		if e.K != EVar && e.K != EField {
			n := g.freshVar()
			return append([]*Stmt{{K: SLet, Name: n, E: e}}, g.observe(eVar(n, t), depth)...)
		}
		var out []*Stmt
		for i, f := range d.Fields {
			if depth <= 0 && i > 0 {
				break
			}
			fe := &Expr{K: EField, Name: f.Name, Args: []*Expr{e.Clone()}, T: f.T}
			out = append(out, g.observe(fe, depth-1)...)
		}
		return out
	case t.K == TUnion:
		d := g.findUnion(t.Name)
		if e.K != EVar && e.K != EField {
			n := g.freshVar()
			return append([]*Stmt{{K: SLet, Name: n, E: e}}, g.observe(eVar(n, t), depth)...)
		}
		m := &Expr{K: EMatchU, Args: []*Expr{e}, T: tUnit}
		for i, c := range d.Cases {
			if depth <= 0 && i > 0 && len(d.Cases) > 1 {
				m.Deflt = blockOf(eExt("frt.Println", []*Expr{eStr("other")}, tUnit))
				break
			}
			a := Arm{Case: c.Name}
			if c.T != nil && depth > 0 {
				a.Bind = g.freshVar()
				a.Body = unitBlock(append(do(eExt("frt.Println", []*Expr{eStr(c.Name)}, tUnit)), g.observe(eVar(a.Bind, c.T), depth-1)...))
			} else {
				a.Body = blockOf(eExt("frt.Println", []*Expr{eStr(c.Name)}, tUnit))
			}
			m.Arms = append(m.Arms, a)
		}
		return do(m)
	case t.K == TFun:
		var args []*Expr
		for _, p := range t.FunParams() {
			switch p.K {
			case TUnit:
				args = append(args, eUnit())
			case TFun:
				f := g.funExpr(p, 1)
				if f == nil {
					return nil
				}
				args = append(args, f)
			default:
				save := g.scope
				g.scope = nil // literals only
				args = append(args, g.leaf(p, 0))
				g.scope = save
			}
		}
		call := eCall(e.Name, len(args), args, t.FunRet())
		if t.FunRet().K == TUnit {
			return do(call)
		}
		if t.FunRet().K == TFun {
			n := g.freshVar()
			return append([]*Stmt{{K: SLet, Name: n, E: call}}, g.observe(eVar(n, t.FunRet()), depth-1)...)
		}
		if printable(t.FunRet()) {
			return do(g.printOf(call))
		}
		n := g.freshVar()
		return append([]*Stmt{{K: SLet, Name: n, E: call}}, g.observe(eVar(n, t.FunRet()), depth-1)...)
	}
	panic("observe: type " + t.Sexp())
}

// blockUses: does x occur (as a variable, a call head or an interpolation hole) in b?
func blockUses(b *Block, x string) bool {
	found := false
	b.walk(nil, func(_, e *Expr) {
		switch e.K {
		case EVar, ECall:
			if e.Name == x {
				found = true
			}
		case EInterp:
			for _, p := range e.Parts {
				if p.IsHole && p.Text == x {
					found = true
				}
			}
		}
	})
	return found
}

// ---------------------------------------------------------------- blocks and statements

// block of type t with up to maxStmts statements (heavy-tailed).
func (g *gen) block(t *Type, d int, maxStmts int) *Block {
	mark := len(g.scope)
	b := &Block{}
	n := 0
	if maxStmts > 0 && d > 0 && g.budget > 0 {
		n = g.heavy(maxStmts)
	}
	type bound struct {
		v   *gvar
		idx int
	}
	var binders []bound
	for i := 0; i < n; i++ {
		for _, s := range g.stmt(d) {
			b.Stmts = append(b.Stmts, s)
			switch s.K {
			case SLet, SLetFun:
				binders = append(binders, bound{g.scope[len(g.scope)-1], len(b.Stmts)})
			case SDestr:
				for k := range s.Names {
					binders = append(binders, bound{g.scope[len(g.scope)-len(s.Names)+k], len(b.Stmts)})
				}
			}
		}
	}
	g.atBlock = true
	b.E = g.expr(t, d)
	g.atBlock = false
	if len(b.Stmts) > 0 && b.Stmts[0].K == SDo && startsWithInterp(b.Stmts[0].E) {
		// fc misjudges the column of a $"…" token: keep it off the first line of a multi-line block
		b.Stmts = append([]*Stmt{{K: SDo, E: eExt("frt.Println", []*Expr{eStr(g.tag())}, tUnit)}}, b.Stmts...)
		for i := range binders {
			binders[i].idx++
		}
	}
	// every binder of this block is used: add an observation at the end for the unused ones
	if g.prof.Hazard != "unused-binder" || true {
		for _, bd := range binders {
			if !blockUses(&Block{Stmts: b.Stmts[bd.idx:], E: b.E}, bd.v.name) {
				obs := g.observe(g.use(bd.v), 1)
				if obs == nil {
					panic("cannot observe " + bd.v.t.Sexp())
				}
				b.Stmts = append(b.Stmts, obs...)
			}
		}
	}
	g.scope = g.scope[:mark]
	return b
}

// stmt generates one statement (sometimes preceded by helpers) and pushes its binders.
func (g *gen) stmt(d int) []*Stmt {
	type sa struct {
		w int
		f func() []*Stmt
	}
	alts := []sa{
		{5, func() []*Stmt { // let of a data value
			t := g.dataType(2)
			g.inLet++
			g.atBlock = true
			e := g.expr(t, d-1)
			g.atBlock = false
			g.inLet--
			n := g.freshVar()
			v := g.push(n, t)
			if e.K == ESlice && len(e.Args) > 0 || e.K == EInt && e.Int >= 0 && e.Int < 3 {
				v.lit = e.K == ESlice
			}
			return []*Stmt{{K: SLet, Name: n, E: e}}
		}},
		{4, func() []*Stmt { return []*Stmt{{K: SDo, E: g.unitExpr(d - 1)}} }},
	}
	if g.has(FDestr) && g.has(FTuple) {
		alts = append(alts, sa{1, func() []*Stmt {
			var t *Type
			if g.has(FTuple3) && g.r.Chance(1, 3) {
				t = tTuple(g.dataType(1), g.dataType(1), g.dataType(1))
			} else {
				t = tTuple(g.dataType(1), g.dataType(1))
			}
			g.inLet++
			e := g.expr(t, d-1)
			g.inLet--
			s := &Stmt{K: SDestr, E: e}
			for _, c := range t.Elems {
				n := g.freshVar()
				s.Names = append(s.Names, n)
				g.push(n, c)
			}
			return []*Stmt{s}
		}})
	}
	if g.has(FInnerFun) && !g.prof.Tiny && d > 1 && g.inLet == 0 {
		alts = append(alts, sa{1, func() []*Stmt {
			s := &Stmt{K: SLetFun, Name: g.fresh("loc")}
			mark := len(g.scope)
			var vs []*gvar
			var pts []*Type
			for i := 0; i < 1+g.r.Intn(2); i++ {
				pt := g.dataType(1)
				n := g.freshVar()
				s.Params = append(s.Params, Param{n, pt})
				pts = append(pts, pt)
				vs = append(vs, g.push(n, pt))
			}
			if g.r.Chance(1, 4) {
				s.Ret = tUnit
			} else {
				s.Ret = g.dataType(1)
			}
			s.Body = g.block(s.Ret, d-1, 2)
			for _, v := range vs {
				if !blockUses(s.Body, v.name) {
					s.Body.Stmts = append(g.observe(g.use(v), 1), s.Body.Stmts...)
				}
			}
			g.scope = g.scope[:mark]
			g.push(s.Name, tFun(pts, s.Ret))
			return []*Stmt{s}
		}})
	}
	if (g.has(FLambda) || g.has(FPartial)) && d > 1 {
		alts = append(alts, sa{1, func() []*Stmt { // let of a closure: lambda or partial application
			t := g.randFunType(false) // not unit: (let x E) with a partial application of a unit function is outside FORMAT.md
			if t == nil {
				return nil
			}
			g.inLet++
			e := g.funExpr(t, d-1)
			g.inLet--
			if e == nil || e.K == EVar {
				return nil
			}
			n := g.fresh("fn")
			g.push(n, t)
			return []*Stmt{{K: SLet, Name: n, E: e}}
		}})
	}
	if g.has(FDiv) && g.has(FIfValue) && !g.prof.Tiny {
		alts = append(alts, sa{1, func() []*Stmt { // an int variable that is (often) zero at run time
			dn := g.freshVar()
			var de *Expr
			switch g.r.Intn(4) {
			case 0:
				de = eInt(int64(g.r.Intn(3)))
			case 1:
				if v := g.varOfType(tInt); v != nil {
					de = eBin("-", g.use(v), g.use(v), tInt) // zero, but not a constant for Go
					break
				}
				fallthrough
			default:
				de = eInt(0)
			}
			g.push(dn, tInt).zeroish = true
			return []*Stmt{{K: SLet, Name: dn, E: de}}
		}})
		alts = append(alts, sa{2, func() []*Stmt { // a division guarded against a zero divisor, preferably such a variable
			var dv *gvar
			if g.r.Chance(3, 4) {
				dv = g.pickVar(func(v *gvar) bool { return v.zeroish })
			}
			if dv == nil {
				dv = g.varOfType(tInt)
			}
			if dv == nil {
				return nil
			}
			gd := g.guardedDivOn(dv)
			if gd == nil {
				return nil
			}
			rn := g.freshVar()
			g.push(rn, tInt)
			return []*Stmt{{K: SLet, Name: rn, E: gd}}
		}})
	}
	if g.has(FLambda) && !g.prof.Tiny && d > 1 {
		alts = append(alts, sa{1, func() []*Stmt { // let of an eta-shaped lambda (see etaShaped)
			var e *Expr
			if g.r.Chance(1, 3) {
				// non-generic library functions with two string parameters
				name := Choose(g.r, []string{"strings.AppendHead", "strings.AppendTail", "strings.HasPrefix", "strings.HasSuffix"})
				rt := tString
				if strings.HasPrefix(name, "strings.Has") {
					rt = tBool
				}
				x := g.freshVar()
				e = &Expr{K: ELam, T: tFun([]*Type{tString}, rt), Params: []Param{{x, tString}},
					Blocks: []*Block{blockOf(eExt(name, []*Expr{eVar(x, tString), eVar(x, tString)}, rt))}}
			} else {
				// any callable in scope with two parameters of one first-order type, the last one included
				type pr struct{ pt, rt *Type }
				var prs []pr
				for _, c := range g.callees() {
					cps := c.t.FunParams()
					last := cps[len(cps)-1]
					if len(cps) < 2 || !last.FirstOrder() || !c.t.FunRet().FirstOrder() {
						continue
					}
					for _, p := range cps[:len(cps)-1] {
						if p.Equal(last) {
							prs = append(prs, pr{last, c.t.FunRet()})
							break
						}
					}
				}
				if len(prs) == 0 {
					return nil
				}
				k := Choose(g.r, prs)
				e = g.etaShaped(k.pt, k.rt, d)
			}
			if e == nil {
				return nil
			}
			n := g.fresh("fn")
			g.push(n, e.T)
			return []*Stmt{{K: SLet, Name: n, E: e}}
		}})
	}
	for tries := 0; tries < 4; tries++ {
		tot := 0
		for _, a := range alts {
			tot += a.w
		}
		n := g.r.Intn(tot)
		for _, a := range alts {
			if n < a.w {
				if ss := a.f(); ss != nil {
					return ss
				}
				break
			}
			n -= a.w
		}
	}
	return []*Stmt{{K: SDo, E: g.printStmt(0)}}
}

// ---------------------------------------------------------------- declarations

var typeBases = []string{"Rec", "Point", "Item", "Conf"}
var unionBases = []string{"Shape", "Tok", "Opt", "Cmd"}
var caseBases = []string{"Circle", "Named", "Dot", "Leaf", "Node", "Nil", "Pair", "Wrap", "Stop", "Go"}
var fieldBases = []string{"name", "count", "Label", "Size", "flag", "Items", "inner", "Key", "val", "Tag"}

func (g *gen) genTypes() []*Decl {
	var ds []*Decl
	n := g.r.Intn(4)
	for i := 0; i < n; i++ {
		if g.r.Bool() && g.has(FRecord) {
			d := &Decl{K: DRecord, Name: fmt.Sprintf("%s%d", Choose(g.r, typeBases), i+1)}
			for k := 0; k < 1+g.r.Intn(3); k++ {
				fn := fmt.Sprintf("%s%d%d", Choose(g.r, fieldBases), i+1, k)
				d.Fields = append(d.Fields, Field{fn, g.dataType(2)})
			}
			ds = append(ds, d)
			g.recs = append(g.recs, d)
		} else if g.has(FMatchU) {
			d := &Decl{K: DUnion, Name: fmt.Sprintf("%s%d", Choose(g.r, unionBases), i+1)}
			for k := 0; k < 1+g.r.Intn(4); k++ {
				c := Case{Name: fmt.Sprintf("%s%d%d", Choose(g.r, caseBases), i+1, k)}
				if g.r.Chance(2, 3) {
					c.T = g.dataType(2)
				}
				d.Cases = append(d.Cases, c)
			}
			ds = append(ds, d)
			g.unions = append(g.unions, d)
		}
	}
	return ds
}

func (g *gen) helperDecls() []*Decl {
	mk := func(name string, t *Type) *Decl {
		body := &Block{Stmts: []*Stmt{{K: SDo, E: eExt("frt.Println", []*Expr{eVar("tag", tString)}, tUnit)}}, E: eVar("v", t)}
		g.funs = append(g.funs, &gfun{name: name, t: tFun([]*Type{tString, t}, t), helper: true})
		return &Decl{K: DFun, Name: name, Params: []Param{{"tag", tString}, {"v", t}}, Ret: t, Body: body}
	}
	ds := []*Decl{mk("say", tInt), mk("sayb", tBool)}
	if g.r.Bool() {
		ds = append(ds, mk("says", tString))
	}
	return ds
}

func (g *gen) funDecl(idx int) *Decl {
	d := &Decl{K: DFun, Name: fmt.Sprintf("f%d", idx)}
	g.scope = nil
	recursive := g.has(FRecursion) && g.r.Chance(1, 4)
	f := &gfun{name: d.Name, recursive: recursive}
	var pts []*Type
	var vs []*gvar
	if recursive {
		n := g.fresh("n")
		d.Params = append(d.Params, Param{n, tInt})
		pts = append(pts, tInt)
		vs = append(vs, g.push(n, tInt))
	}
	np := g.r.Intn(3)
	if !recursive && np == 0 {
		if g.r.Chance(1, 3) {
			d.Params = []Param{{g.fresh("u"), tUnit}}
			pts = []*Type{tUnit}
		} else {
			np = 1
		}
	}
	for i := 0; i < np; i++ {
		var pt *Type
		if g.has(FFunParams) && g.r.Chance(1, 6) {
			pt = g.randFunType(true)
		}
		if pt == nil {
			pt = g.dataType(2)
		}
		n := g.freshVar()
		d.Params = append(d.Params, Param{n, pt})
		pts = append(pts, pt)
		vs = append(vs, g.push(n, pt))
	}
	d.Ret = nil
	switch {
	case g.r.Chance(1, 5):
		d.Ret = tUnit
	case g.has(FFunParams) && g.has(FPartial) && !recursive && g.r.Chance(1, 12):
		d.Ret = g.randFunType(false)
		if d.Ret != nil && len(d.Ret.FunParams()) != 1 {
			d.Ret = nil
		}
	}
	if d.Ret == nil {
		d.Ret = g.dataType(2)
	}
	f.t = tFun(pts, d.Ret)
	depth := 2 + g.heavy(g.prof.MaxDepth-2)
	if recursive {
		g.funs = append(g.funs, f) // visible to its own body
		g.self, g.selfN, g.selfUse = f, vs[0], 0
		base := g.blockNoSelf(d.Ret, depth-1)
		rec := g.block(d.Ret, depth-1, g.prof.MaxStmts)
		if g.selfUse == 0 {
			// make sure the function really recurses: bind the recursive result and use it
			args := g.callArgs(f, pts, 1)
			call := eCall(f.name, len(pts), args, d.Ret)
			if d.Ret.K == TUnit {
				rec.Stmts = append(rec.Stmts, &Stmt{K: SDo, E: call})
			} else if d.Ret.K == TFun {
				panic("recursive function returning a function")
			} else {
				n := g.freshVar()
				rec.Stmts = append(rec.Stmts, &Stmt{K: SLet, Name: n, E: call})
				rec.Stmts = append(rec.Stmts, g.observe(eVar(n, d.Ret), 1)...)
			}
		}
		g.self = nil
		cond := eBin("<=", eVar(vs[0].name, tInt), eInt(0), tBool)
		d.Body = blockOf(&Expr{K: EIf, Args: []*Expr{cond}, Blocks: []*Block{base, rec}, T: d.Ret})
		if d.Ret.K == TUnit && tailIfOnly(base) && (g.prof.Tiny || !oneLineIfOnly(base.E)) {
			base.Stmts = append(base.Stmts, &Stmt{K: SDo, E: base.E})
			base.E = eUnit()
		}
		vs[0].uses++
	} else {
		d.Body = g.block(d.Ret, depth, g.prof.MaxStmts)
		g.funs = append(g.funs, f)
	}
	for _, v := range vs {
		if !blockUses(d.Body, v.name) && g.r.Chance(4, 5) {
			d.Body.Stmts = append(g.observe(g.use(v), 1), d.Body.Stmts...)
		}
	}
	g.scope = nil
	return d
}

func (g *gen) blockNoSelf(t *Type, d int) *Block {
	save := g.self
	g.self = nil
	// hide the function from its own base case
	fs := g.funs
	g.funs = g.funs[:len(g.funs)-1]
	b := g.block(t, d, 2)
	g.funs = fs
	g.self = save
	return b
}

// ---------------------------------------------------------------- programs

var GenStats GenStatsT
var genStatsMu sync.Mutex

func genStat(f func(s *GenStatsT)) {
	genStatsMu.Lock()
	f(&GenStats)
	genStatsMu.Unlock()
}

func (g *gen) program() *Prog {
	p := &Prog{}
	p.Decls = append(p.Decls, g.genTypes()...)
	p.Decls = append(p.Decls, g.helperDecls()...)
	nf := g.heavy(g.prof.MaxDecls)
	if nf == 0 && g.r.Chance(2, 3) {
		nf = 1
	}
	for i := 0; i < nf; i++ {
		g.budget = 60 + g.heavy(200)
		p.Decls = append(p.Decls, g.funDecl(i+1))
	}
	g.scope = nil
	g.budget = 80 + g.heavy(300)
	depth := 2 + g.heavy(g.prof.MaxDepth-2)
	p.Main = g.block(tUnit, depth, g.prof.MaxStmts+3)
	// main must call what was defined: observe every generated function not otherwise exercised
	called := map[string]bool{}
	p.WalkExprs(func(_, e *Expr) {
		if e.K == ECall || e.K == EVar {
			called[e.Name] = true
		}
	})
	var extra []*Stmt
	for _, f := range g.funs {
		if !f.helper && !called[f.name] {
			if f.recursive {
				ps := f.t.FunParams()
				args := []*Expr{eInt(int64(1 + g.r.Intn(3)))}
				for _, pt := range ps[1:] {
					if pt.K == TFun {
						fe := g.funExpr(pt, 1)
						if fe == nil {
							args = nil
							break
						}
						args = append(args, fe)
					} else {
						args = append(args, g.leaf(pt, 0))
					}
				}
				if args == nil {
					continue
				}
				call := eCall(f.name, len(ps), args, f.t.FunRet())
				if f.t.FunRet().K == TUnit {
					extra = append(extra, &Stmt{K: SDo, E: call})
				} else {
					n := g.freshVar()
					extra = append(extra, &Stmt{K: SLet, Name: n, E: call})
					extra = append(extra, g.observe(eVar(n, f.t.FunRet()), 1)...)
				}
			} else {
				extra = append(extra, g.observe(eVar(f.name, f.t), 1)...)
			}
		}
	}
	p.Main.Stmts = append(p.Main.Stmts, extra...)
	return p
}

func (prof Profile) checkOpts() CheckOpts {
	return CheckOpts{Tiny: prof.Tiny, AllowExtPartial: prof.Features&FExtPartial != 0,
		AllowUnused: prof.Hazard == "unused-binder", AllowUnitTypeVar: prof.Hazard == "unit-typevar",
		AllowInterpStart: prof.Hazard == "interp-block-start"}
}

// GenProgram returns a well-typed, terminating, deterministic program of the profile.
func GenProgram(rng *Rng, prof Profile) *Prog {
	if prof.Features == 0 {
		prof.Features = FAll
	}
	if prof.Tiny {
		prof.Features &= TinyProfile().Features
	}
	if prof.MaxDepth < 2 {
		prof.MaxDepth = 2
	}
	for try := 0; ; try++ {
		if try > 200 {
			panic("generator: no acceptable program in 200 tries")
		}
		g := &gen{r: rng.Fork(), prof: prof}
		var p *Prog
		if prof.Hazard != "" {
			p = g.hazardProgram()
		} else {
			p = g.program()
		}
		if p.RawFo != "" {
			return p
		}
		if err := Check(p, prof.checkOpts()); err != nil {
			// a generator slip (e.g. a let whose only use was dropped by a later rewrite) must not take the
			// check down: the program is discarded and counted; every program that is used has passed Check
			genStat(func(s *GenStatsT) { s.CheckFailed++ })
			if os.Getenv("VH_GEN_STRICT") != "" {
				panic("generator produced an ill-formed program: " + err.Error() + "\n" + p.ToSexp())
			}
			continue
		}
		if prof.Hazard == "" {
			if c := PapClass(p); c == "effect" {
				panic("generator produced an effectful partial application in the main stream\n" + p.ToSexp())
			}
		}
		r := Eval(p, 200000)
		switch {
		case r.Stuck != "":
			genStat(func(s *GenStatsT) { s.DiscardStuck++ })
			continue
		case r.Fuel:
			genStat(func(s *GenStatsT) { s.DiscardFuel++ })
			continue
		case r.Overflowed && !prof.Wrap:
			genStat(func(s *GenStatsT) { s.DiscardOverflow++ })
			continue
		case len(r.Out) > 6000:
			genStat(func(s *GenStatsT) { s.DiscardLong++ })
			continue
		case len(r.Out) == 0:
			genStat(func(s *GenStatsT) { s.DiscardSilent++ })
			continue
		}
		genStat(func(s *GenStatsT) { s.Generated++ })
		return p
	}
}

// ---------------------------------------------------------------- hazard stream

// hazardProgram: a small ordinary program plus exactly one instance of a known defect class.
func (g *gen) hazardProgram() *Prog {
	hz := g.prof.Hazard
	if hz == "generic-union-match" {
		return genericUnionProgram(g.r)
	}
	small := g.prof
	small.MaxDecls, small.MaxStmts, small.MaxDepth = 2, 3, 3
	g.prof = small
	p := g.program()
	p.Hazard = hz
	switch hz {
	case "pap-effect":
		// let h = plus (say "tN" k) — the supplied argument prints; then h is applied several times
		plus := &Decl{K: DFun, Name: "plus", Params: []Param{{"a", tInt}, {"b", tInt}}, Ret: tInt,
			Body: blockOf(eBin("+", eVar("a", tInt), eVar("b", tInt), tInt))}
		p.Decls = append(p.Decls, plus)
		h := g.fresh("h")
		ft := tFun([]*Type{tInt}, tInt)
		pap := eCall("plus", 2, []*Expr{eCall("say", 2, []*Expr{eStr(g.tag()), eInt(g.intLit())}, tInt)}, ft)
		var use *Expr
		xs := &Expr{K: ESlice, ElemT: tInt, T: tSlice(tInt)}
		for i := 0; i < g.r.Intn(4); i++ {
			xs.Args = append(xs.Args, eInt(g.intLit()))
		}
		switch g.r.Intn(3) {
		case 0:
			use = eExt("frt.Printf1", []*Expr{eStr("%v\n"), eExt("slice.Map", []*Expr{eVar(h, ft), xs}, tSlice(tInt))}, tUnit)
		case 1:
			use = eExt("frt.Printf1", []*Expr{eStr("%d\n"), eBin("+", eCall(h, 1, []*Expr{eInt(1)}, tInt), eCall(h, 1, []*Expr{eInt(2)}, tInt), tInt)}, tUnit)
		default:
			use = &Expr{K: EIfOnly, Args: []*Expr{eBool(false)}, T: tUnit,
				Blocks: []*Block{blockOf(eExt("frt.Printf1", []*Expr{eStr("%d\n"), eCall(h, 1, []*Expr{eInt(1)}, tInt)}, tUnit))}}
		}
		p.Main.Stmts = append(p.Main.Stmts, &Stmt{K: SLet, Name: h, E: pap}, &Stmt{K: SDo, E: use})
	case "unused-binder":
		n := g.fresh("unused")
		switch g.r.Intn(2) {
		case 0:
			p.Main.Stmts = append(p.Main.Stmts, &Stmt{K: SLet, Name: n, E: eInt(g.intLit())})
		default:
			m := g.fresh("used")
			p.Main.Stmts = append(p.Main.Stmts, &Stmt{K: SDestr, Names: []string{n, m}, E: &Expr{K: ETuple, Args: []*Expr{eInt(1), eStr("s")}, T: tTuple(tInt, tString)}},
				&Stmt{K: SDo, E: eExt("frt.Println", []*Expr{eVar(m, tString)}, tUnit)})
		}
	case "unit-typevar":
		shower := &Decl{K: DFun, Name: "shower", Params: []Param{{"n", tInt}}, Ret: tUnit,
			Body: blockOf(eExt("frt.Printf1", []*Expr{eStr("%d\n"), eVar("n", tInt)}, tUnit))}
		p.Decls = append(p.Decls, shower)
		r := g.fresh("r")
		xs := &Expr{K: ESlice, ElemT: tInt, Args: []*Expr{eInt(1), eInt(2)}, T: tSlice(tInt)}
		mp := eExt("slice.Map", []*Expr{eVar("shower", tFun([]*Type{tInt}, tUnit)), xs}, tSlice(tUnit))
		p.Main.Stmts = append(p.Main.Stmts, &Stmt{K: SLet, Name: r, E: mp},
			&Stmt{K: SDo, E: eExt("frt.Printf1", []*Expr{eStr("%d\n"), eExt("slice.Length", []*Expr{eVar(r, tSlice(tUnit))}, tInt)}, tUnit)})
	case "interp-block-start":
		// a block of two lines whose first token is $"…"
		m := g.fresh("m")
		blk := &Block{Stmts: []*Stmt{{K: SDo, E: &Expr{K: EPipe, T: tUnit, Args: []*Expr{
			{K: EInterp, T: tString, Parts: []Part{{Text: "m="}, {IsHole: true, Text: m}}},
			eExt("frt.Println", nil, tFun([]*Type{tString}, tUnit))}}}},
			E: eExt("frt.Println", []*Expr{eStr(g.tag())}, tUnit)}
		p.Main.Stmts = append(p.Main.Stmts, &Stmt{K: SLet, Name: m, E: eInt(g.intLit())},
			&Stmt{K: SDo, E: &Expr{K: EIfOnly, T: tUnit, Args: []*Expr{eBin("<", eVar(m, tInt), eInt(int64(g.r.Intn(3))), tBool)}, Blocks: []*Block{blk}}})
	default:
		panic("unknown hazard " + hz)
	}
	return p
}

// genericUnionProgram: finding (b) — a match on a value of a generic union. Outside MiniFo (no user
// generics), so the program is Folang text with the output its semantics prescribe.
func genericUnionProgram(r *Rng) *Prog {
	n := r.Intn(50)
	which := r.Intn(2)
	ctor := fmt.Sprintf("Some %d", n)
	out := fmt.Sprintf("some %d\n", n)
	if which == 1 {
		ctor = "None<int> ()"
		out = "none\n"
	}
	src := fmt.Sprintf(`package main

import frt

type Opt<T> =
  | Some of T
  | None

let show (o: Opt<int>) : string =
  match o with
  | Some v ->
    frt.Sprintf1 "some %%d" v
  | None ->
    "none"

let main () =
  frt.Println (show (%s))
`, ctor)
	return &Prog{Hazard: "generic-union-match", RawFo: src, RawOut: out, Main: blockOf(eUnit())}
}
