package main

// C08: binary operators group by one fixed table and associate to the left.
// Exhaustive chains over the 12 non-pipe operators (<= 3 operators in quick, <= 4 in thorough, plus
// samples beyond), operand-shape variants (applied, parenthesised sub-chain, not), pipe mixes and
// line breaks before operators. Three answers per case: the grouping read back from fc's emitted Go
// (go/parser), the grouping the property prescribes computed independently in Go (split at the LAST
// operator of MINIMAL rank — not precedence climbing), and the Coq model's parse_tokens (oracle).

import (
	"fmt"
	"go/ast"
	"go/parser"
	"go/token"
	"os"
	"strings"
)

var c08Ops = []string{"&&", "||", "<", ">", "<=", ">=", "=", "<>", "+", "-", "*", "/"}

// the published table, as the property text states it
var c08Rank = map[string]int{"|>": 1, "&&": 2, "||": 2, "<": 2, ">": 2, "<=": 2, ">=": 2, "=": 3, "<>": 3, "+": 4, "-": 4, "*": 5, "/": 5}

// surface syntax
type c08Term struct {
	Kind  string    `json:"kind"` // atom | app | paren | not
	Atom  int       `json:"atom,omitempty"`
	Args  []int     `json:"args,omitempty"`  // app: head = Atom, args
	Chain *c08Chain `json:"chain,omitempty"` // paren
	Sub   *c08Term  `json:"sub,omitempty"`   // not
}
type c08Chain struct {
	First c08Term   `json:"first"`
	Ops   []string  `json:"ops"`
	Terms []c08Term `json:"terms"`
	Break []bool    `json:"break"`           // newline before operator i
	Space []int     `json:"space,omitempty"` // spacing of operator i: 0 "a - b", 1 "a -b", 2 "a- b", 3 "a-b" (arithmetic only)
	After []bool    `json:"after,omitempty"` // newline AFTER operator i (fc rejects this layout today; if a tree accepts it, the table still decides the grouping)
}

func c08AtomFo(n int) string {
	if n >= 100 {
		return fmt.Sprint(n) // an integer literal
	}
	return fmt.Sprintf("a%d", n)
}

func (t *c08Term) fo() string {
	switch t.Kind {
	case "atom":
		return c08AtomFo(t.Atom)
	case "app":
		s := fmt.Sprintf("a%d", t.Atom)
		for _, a := range t.Args {
			s += fmt.Sprintf(" a%d", a)
		}
		return s
	case "paren":
		return "(" + t.Chain.fo("") + ")"
	default:
		return "not " + t.Sub.fo()
	}
}
func (c *c08Chain) fo(ind string) string {
	s := c.First.fo()
	for i, o := range c.Ops {
		if ind != "" && i < len(c.After) && c.After[i] {
			s += " " + o + "\n" + ind + c.Terms[i].fo()
		} else if ind != "" && i < len(c.Break) && c.Break[i] {
			s += "\n" + ind + o + " " + c.Terms[i].fo()
		} else {
			sp := 0
			if i < len(c.Space) {
				sp = c.Space[i]
			}
			switch sp {
			case 1:
				s += " " + o + c.Terms[i].fo()
			case 2:
				s += o + " " + c.Terms[i].fo()
			case 3:
				s += o + c.Terms[i].fo()
			default:
				s += " " + o + " " + c.Terms[i].fo()
			}
		}
	}
	return s
}
func (t *c08Term) toks(top bool) []string {
	switch t.Kind {
	case "atom":
		return []string{fmt.Sprintf("i%d", t.Atom)}
	case "app":
		r := []string{fmt.Sprintf("i%d", t.Atom)}
		for _, a := range t.Args {
			r = append(r, fmt.Sprintf("i%d", a))
		}
		return r
	case "paren":
		return append(append([]string{"LP"}, t.Chain.toks(false)...), "RP")
	default:
		return append([]string{"not"}, t.Sub.toks(top)...)
	}
}
func (c *c08Chain) toks(top bool) []string {
	r := c.First.toks(top)
	for i, o := range c.Ops {
		if top && i < len(c.Break) && c.Break[i] {
			r = append(r, "EOL")
		}
		r = append(r, o)
		r = append(r, c.Terms[i].toks(top)...)
	}
	return r
}

// expected grouping by the property: root = last operator of minimal rank
func (t *c08Term) expect() string {
	switch t.Kind {
	case "atom":
		return fmt.Sprintf("i%d", t.Atom)
	case "app":
		s := fmt.Sprintf("(app i%d", t.Atom)
		for _, a := range t.Args {
			s += fmt.Sprintf(" i%d", a)
		}
		return s + ")"
	case "paren":
		return t.Chain.expect()
	default:
		return "(not " + t.Sub.expect() + ")"
	}
}
func (c *c08Chain) expect() string {
	terms := append([]c08Term{c.First}, c.Terms...)
	var rec func(lo, hi int) string // operands lo..hi inclusive
	rec = func(lo, hi int) string {
		if lo == hi {
			return terms[lo].expect()
		}
		best := lo
		for i := lo; i < hi; i++ { // operator i sits between operand i and i+1
			if c08Rank[c.Ops[i]] <= c08Rank[c.Ops[best]] {
				best = i
			}
		}
		return "(" + c.Ops[best] + " " + rec(lo, best) + " " + rec(best+1, hi) + ")"
	}
	return rec(0, len(terms)-1)
}
func (c *c08Chain) atoms() int {
	n := 0
	var tm func(t *c08Term)
	var ch func(c *c08Chain)
	tm = func(t *c08Term) {
		if t.Atom < 100 && t.Atom+1 > n {
			n = t.Atom + 1
		}
		for _, a := range t.Args {
			if a < 100 && a+1 > n {
				n = a + 1
			}
		}
		if t.Chain != nil {
			ch(t.Chain)
		}
		if t.Sub != nil {
			tm(t.Sub)
		}
	}
	ch = func(c *c08Chain) {
		tm(&c.First)
		for i := range c.Terms {
			tm(&c.Terms[i])
		}
	}
	ch(c)
	return n
}
func (c *c08Chain) distinctRanks() int {
	m := map[int]bool{}
	for _, o := range c.Ops {
		m[c08Rank[o]] = true
	}
	return len(m)
}

func c08Func(name string, c *c08Chain) string {
	var b strings.Builder
	b.WriteString("let " + name)
	for i := 0; i < c.atoms(); i++ {
		fmt.Fprintf(&b, " a%d", i)
	}
	b.WriteString(" =\n  " + c.fo("    ") + "\n\n")
	return b.String()
}

// canonical form of a Go expression emitted for a chain
func c08Canon(e ast.Expr) string {
	switch x := e.(type) {
	case *ast.ParenExpr:
		return c08Canon(x.X)
	case *ast.Ident:
		if strings.HasPrefix(x.Name, "a") {
			return "i" + x.Name[1:]
		}
		return x.Name
	case *ast.BasicLit:
		return "i" + x.Value
	case *ast.BinaryExpr:
		op := x.Op.String()
		return "(" + op + " " + c08Canon(x.X) + " " + c08Canon(x.Y) + ")"
	case *ast.CallExpr:
		fn := ""
		switch f := x.Fun.(type) {
		case *ast.SelectorExpr:
			if id, ok := f.X.(*ast.Ident); ok {
				fn = id.Name + "." + f.Sel.Name
			}
		case *ast.IndexExpr, *ast.IndexListExpr:
			fn = "generic"
		}
		args := []string{}
		for _, a := range x.Args {
			args = append(args, c08Canon(a))
		}
		switch fn {
		case "frt.OpEqual":
			return "(= " + strings.Join(args, " ") + ")"
		case "frt.OpNotEqual":
			return "(<> " + strings.Join(args, " ") + ")"
		case "frt.Pipe", "frt.PipeUnit":
			return "(|> " + strings.Join(args, " ") + ")"
		case "frt.OpNot":
			return "(not " + strings.Join(args, " ") + ")"
		}
		return "(app " + c08Canon(x.Fun) + " " + strings.Join(args, " ") + ")"
	}
	return fmt.Sprintf("?%T", e)
}

type c08Case struct {
	Name  string
	Chain *c08Chain
}

func c08AtomChain(ops []string) *c08Chain {
	c := &c08Chain{First: c08Term{Kind: "atom", Atom: 0}, Ops: ops}
	for i := range ops {
		c.Terms = append(c.Terms, c08Term{Kind: "atom", Atom: i + 1})
		c.Break = append(c.Break, false)
	}
	return c
}

func c08RandTerm(rng *Rng, next *int, depth int) c08Term {
	k := rng.Intn(10)
	newAtom := func() int { *next++; return *next - 1 }
	switch {
	case k < 4 || depth > 2:
		return c08Term{Kind: "atom", Atom: newAtom()}
	case k < 6:
		t := c08Term{Kind: "app", Atom: newAtom()}
		for i := 0; i <= rng.Intn(2); i++ {
			t.Args = append(t.Args, newAtom())
		}
		return t
	case k < 9:
		return c08Term{Kind: "paren", Chain: c08RandChain(rng, next, depth+1, 1+rng.Intn(3), false)}
	default:
		sub := c08RandTerm(rng, next, depth+1)
		if sub.Kind == "not" {
			sub = c08Term{Kind: "atom", Atom: newAtom()}
		}
		return c08Term{Kind: "not", Sub: &sub}
	}
}

func c08RandChain(rng *Rng, next *int, depth, nops int, breaks bool) *c08Chain {
	c := &c08Chain{First: c08RandTerm(rng, next, depth)}
	for i := 0; i < nops; i++ {
		c.Ops = append(c.Ops, Choose(rng, c08Ops))
		c.Terms = append(c.Terms, c08RandTerm(rng, next, depth))
		c.Break = append(c.Break, breaks && rng.Chance(1, 3))
	}
	return c
}

func runC08(c *Ctx) {
	rng := NewRng(c.Seed)
	c.Res.Rule = "all chains of 1..3 (quick) / 1..4 (thorough) operators over the 12 non-pipe operators with atomic operands, exhaustively; " +
		"plus sampled longer chains, operand-shape variants (application, parenthesised sub-chain, not), pipe mixes and line breaks before operators; " +
		"non-trivial = at least 2 distinct ranks in the chain; distinct by source text"
	var cases []c08Case
	maxExh := c.Pick(3, 4)
	var rec func(ops []string)
	rec = func(ops []string) {
		if len(ops) > 0 {
			cases = append(cases, c08Case{Chain: c08AtomChain(append([]string{}, ops...))})
		}
		if len(ops) == maxExh {
			return
		}
		for _, o := range c08Ops {
			rec(append(ops, o))
		}
	}
	rec(nil)
	nExh := len(cases)
	c.Res.Exhaustive = true
	c.Res.Extra["exhaustive_space"] = fmt.Sprintf("all %d chains with <= %d operators and atomic operands", nExh, maxExh)
	// sampled longer atomic chains
	for i := 0; i < c.Pick(2000, 20000); i++ {
		n := maxExh + 1 + rng.Intn(3)
		ops := make([]string, n)
		for j := range ops {
			ops[j] = Choose(rng, c08Ops)
		}
		ch := c08AtomChain(ops)
		for j := range ch.Break {
			ch.Break[j] = rng.Chance(1, 4)
		}
		cases = append(cases, c08Case{Chain: ch})
	}
	// operand shapes
	for i := 0; i < c.Pick(1500, 15000); i++ {
		next := 0
		cases = append(cases, c08Case{Chain: c08RandChain(rng, &next, 0, 1+rng.Intn(4), true)})
	}
	// pipe mixes: x op y |> f |> g  (stages are plain identifiers)
	for i := 0; i < c.Pick(300, 3000); i++ {
		next := 0
		ch := c08RandChain(rng, &next, 1, rng.Intn(3), false)
		for k := 0; k <= rng.Intn(3); k++ {
			ch.Ops = append(ch.Ops, "|>")
			ch.Terms = append(ch.Terms, c08Term{Kind: "atom", Atom: next})
			ch.Break = append(ch.Break, rng.Chance(1, 2))
			next++
		}
		cases = append(cases, c08Case{Chain: ch})
	}
	// arithmetic chains with integer literals and every spacing of the operator ("a -1 + b" is a
	// binary minus in fc: spacing is not part of the grouping rule)
	arith := []string{"+", "-", "*", "/"}
	for i := 0; i < c.Pick(600, 6000); i++ {
		n := 1 + rng.Intn(4)
		ch := &c08Chain{First: c08Term{Kind: "atom", Atom: 0}}
		next := 1
		for j := 0; j < n; j++ {
			ch.Ops = append(ch.Ops, Choose(rng, arith))
			at := next
			if rng.Bool() {
				at = 100 + rng.Intn(9) + 1 // literal 101..109
			} else {
				next++
			}
			ch.Terms = append(ch.Terms, c08Term{Kind: "atom", Atom: at})
			ch.Break = append(ch.Break, false)
			ch.Space = append(ch.Space, rng.Intn(4))
		}
		cases = append(cases, c08Case{Chain: ch})
	}
	// a pipe FOLLOWED by arithmetic: |> is the loosest operator on both sides: a |> f + g is a |> (f + g)
	for i := 0; i < c.Pick(300, 3000); i++ {
		ch := &c08Chain{First: c08Term{Kind: "atom", Atom: 0}}
		next := 1
		for j := 0; j < 1+rng.Intn(3); j++ {
			op := Choose(rng, arith)
			if j == 0 || rng.Chance(1, 3) {
				op = "|>"
			}
			ch.Ops = append(ch.Ops, op)
			ch.Terms = append(ch.Terms, c08Term{Kind: "atom", Atom: next})
			ch.Break = append(ch.Break, false)
			next++
		}
		cases = append(cases, c08Case{Chain: ch})
	}
	// a line break AFTER an operator: today fc rejects it ("Unown atom"); a tree that accepts it must
	// still group by the table
	for i := 0; i < c.Pick(400, 4000); i++ {
		n := 2 + rng.Intn(3)
		ops := make([]string, n)
		for j := range ops {
			ops[j] = Choose(rng, c08Ops)
		}
		ch := c08AtomChain(ops)
		ch.After = make([]bool, n)
		ch.After[rng.Intn(n)] = true
		cases = append(cases, c08Case{Chain: ch})
	}
	if c.Replay != "" {
		cases = c08LoadReplay(c.Replay)
	}
	for i := range cases {
		cases[i].Name = fmt.Sprintf("f%d", i)
	}

	// transpile in files of 150 functions
	per := 150
	nfiles := (len(cases) + per - 1) / per
	got := make([]string, len(cases))
	errs := make([]string, nfiles)
	pool := c.NewFcPool(8)
	Parallel(nfiles, func(fi int) {
		lo, hi := fi*per, (fi+1)*per
		if hi > len(cases) {
			hi = len(cases)
		}
		var src strings.Builder
		src.WriteString("package main\n\n")
		for _, cs := range cases[lo:hi] {
			src.WriteString(c08Func(cs.Name, cs.Chain))
		}
		s := pool.Get()
		r := s.Transpile(SrcFile{"m.fo", src.String()})
		pool.Put(s)
		if !r.Ok {
			// find the offending function by transpiling one by one
			for k, cs := range cases[lo:hi] {
				s := pool.Get()
				r1 := s.Transpile(SrcFile{"m.fo", "package main\n\n" + c08Func(cs.Name, cs.Chain)})
				pool.Put(s)
				if !r1.Ok {
					got[lo+k] = "REJECTED: " + r1.Err
				} else {
					c08Extract(r1.Outs["gen_m.go"], got)
				}
			}
			return
		}
		if e := c08Extract(r.Outs["gen_m.go"], got); e != "" {
			errs[fi] = e
		}
	})
	pool.Close()
	c.Lap("transpile")
	for _, e := range errs {
		if e != "" {
			panic("cannot parse emitted Go: " + e)
		}
	}
	// one real fc process on a sample file, cross-checked with the server
	{
		var src strings.Builder
		src.WriteString("package main\n\n")
		n := 100
		if n > len(cases) {
			n = len(cases)
		}
		var idx []int
		for _, i := range rng.Perm(len(cases)) {
			if len(idx) < n && len(cases[i].Chain.After) == 0 {
				idx = append(idx, i)
			}
		}
		for _, i := range idx {
			src.WriteString(c08Func(cases[i].Name, cases[i].Chain))
		}
		MustWrite(c.Work+"/proc/m.fo", src.String())
		r := c.Fc(c.Work+"/proc", "m.fo")
		if r.Exit == 0 {
			b, _ := os.ReadFile(c.Work + "/proc/gen_m.go")
			pg := make([]string, len(cases))
			c08Extract(string(b), pg)
			for _, i := range idx {
				if pg[i] != got[i] && !strings.HasPrefix(got[i], "REJECTED") {
					c.Violate("hook", "hooked in-process fc and the fc process emit different groupings", map[string]any{"broken": "fcsrv hook vs fc process", "source": c08Func(cases[i].Name, cases[i].Chain), "process": pg[i], "server": got[i]}, true)
				}
			}
			c.Count("real_process_functions")
		}
	}
	or := c.Oracle()
	for i, cs := range cases {
		srcText := c08Func("f", cs.Chain)
		c.Eval(srcText, cs.Chain.distinctRanks() >= 2)
		c.Count(fmt.Sprintf("operators=%d", len(cs.Chain.Ops)))
		expect := cs.Chain.expect()
		model := or.Ask("C08", "(parse ("+strings.Join(cs.Chain.toks(true), " ")+"))")
		c.Compared(1)
		if i%3000 == 11 {
			c.Sample(map[string]any{"source": srcText, "grouping_from_emitted_go": got[i], "model": model})
		}
		real := got[i]
		if len(cs.Chain.After) > 0 {
			// outside the model's token grammar: the property only
			if strings.HasPrefix(real, "REJECTED") {
				c.Count("break_after_operator=rejected")
				continue
			}
			c.Count("break_after_operator=accepted")
			if real != expect {
				c.Violate("group", fmt.Sprintf("grouping differs from the published table (operator at the end of a line): expected %s, fc emitted %s", expect, real),
					map[string]any{"chain": cs.Chain, "source": srcText, "expected": expect, "fc": real}, false)
			}
			continue
		}
		if real == expect {
			if model != expect+" rest=0" {
				c.Disagree()
				c.Violate("corr", "correspondence BinOp.parse_tokens vs fc broke (fc groups as the table says, the model does not)",
					map[string]any{"broken": "correspondence C08 parse_tokens (Front/BinOp.v) vs fc", "source": srcText, "model": model, "fc": real}, true)
			}
			continue
		}
		if model != expect+" rest=0" {
			c.Disagree()
		}
		c.Violate("group", fmt.Sprintf("grouping differs from the published table: expected %s, fc emitted %s", expect, real),
			map[string]any{"chain": cs.Chain, "source": srcText, "expected": expect, "fc": real, "model": model}, false)
	}
	// the operator table itself, read from the running binary (cross-check of the generated gen/BinOpTable.v)
	pool2 := c.StartFcSrv()
	tb := pool2.Tables()
	pool2.Close()
	names := map[string]string{"(PIPE)": "|>", "(AMPAMP)": "&&", "(BARBAR)": "||", "(GT)": ">", "(LT)": "<", "(GE)": ">=", "(LE)": "<=",
		"(EQ)": "=", "(BRACKET)": "<>", "(PLUS)": "+", "(MINUS)": "-", "(ASTER)": "*", "(SLASH)": "/"}
	if len(tb.BinOps) != len(names) {
		c.Violate("table", fmt.Sprintf("binOpMap has %d operators, the published table %d", len(tb.BinOps), len(names)), map[string]any{"binops": tb.BinOps}, true)
	}
	for tt, row := range tb.BinOps {
		sym, ok := names[tt]
		if !ok || int(row[0].(float64)) != c08Rank[sym] {
			c.Violate("table", "binOpMap differs from the published table at "+tt, map[string]any{"binops": tb.BinOps}, true)
		}
	}
}

// c08Extract parses an emitted file and stores the canonical grouping of every function fN at got[N].
func c08Extract(gosrc string, got []string) string {
	fset := token.NewFileSet()
	f, err := parser.ParseFile(fset, "gen.go", gosrc, 0)
	if err != nil {
		return err.Error()
	}
	for _, d := range f.Decls {
		fd, ok := d.(*ast.FuncDecl)
		if !ok || !strings.HasPrefix(fd.Name.Name, "f") {
			continue
		}
		var n int
		if _, err := fmt.Sscanf(fd.Name.Name, "f%d", &n); err != nil || n >= len(got) {
			continue
		}
		got[n] = "NO_RETURN"
		for _, st := range fd.Body.List {
			switch s := st.(type) {
			case *ast.ReturnStmt:
				if len(s.Results) == 1 {
					got[n] = c08Canon(s.Results[0])
				}
			case *ast.ExprStmt: // unit-returning chain (e.g. pipe into a unit function)
				got[n] = c08Canon(s.X)
			}
		}
	}
	return ""
}

func c08LoadReplay(path string) []c08Case {
	var doc struct {
		Replay struct {
			Chain *c08Chain `json:"chain"`
		} `json:"replay"`
	}
	b, err := os.ReadFile(path)
	if err != nil {
		panic(err)
	}
	if err := jsonUnmarshal(b, &doc); err != nil || doc.Replay.Chain == nil {
		panic("replay file has no chain")
	}
	return []c08Case{{Chain: doc.Replay.Chain}}
}

func init() { Register("C08", runC08) }
