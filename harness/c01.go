package main

// C01: transpiled programs behave exactly as their Folang source specifies.
//
// K2 (behaviour) of DESIGN.md section 6: corpus/C01/*.sexp first, then N programs of the type-directed
// generator (progen_*.go), each printed in the canonical layout, transpiled by the fc built from the
// scratch tree (hooked in-process fcsrv for volume, one real fc process per batch cross-checked
// byte for byte), compiled and run (one Go package per batch, see progen_pipe.go) and compared
//   (1) with the reference interpreter progen_eval.go — the property itself: a rejection, a go build
//       failure, a runtime panic or a different stdout is a VIOLATION, replayed shrunk;
//   (2) with the Coq model through bin/fomodel (run_src and run_go∘compile) when the C01 oracle
//       driver exists — correspondence.
// A small hazard stream exercises the known defect classes (one per program); they are reported as
// KNOWN-FINDING when listed in known_findings.jsonl and as violations otherwise.

import (
	"bytes"
	"fmt"
	"os"
	"os/exec"
	"path/filepath"
	"regexp"
	"sort"
	"strings"
	"sync"
	"time"
)

// samples/*.fo with a `main` and an output that the source makes obvious: the repo's own examples
// through the same fc + go pipeline (each is a package of its own).
var c01Samples = []struct{ file, out, hazard string }{
	{"tuple.fo", "abc\n", ""},
	{"destr_let.fo", "a=123\n", ""},
	{"inner_func.fo", "hit\n", ""},
	{"pipe.fo", "[5 6]\n", ""},
	{"sinterp.fo", "a is :123, b is str val\n", ""},
	{"map.fo", "[a 5 a 6 a 7 a 8]\n", ""},
	{"shorthand_prop.fo", "abc, def\n", ""},
	// the union's generated String() methods call frt.Sprintf1 but the sample only imports "fmt": undefined: frt
	{"union_match.fo", "ival=3\n", "union-needs-frt"},
	{"noarg_funcall.fo", "match A\n", ""},
}

var c01Hazards = []string{"pap-effect", "unused-binder", "generic-union-match", "unit-typevar", "interp-block-start"}

type c01Run struct {
	c        *Ctx
	id       string
	prof     Profile
	tr       transpileFn
	gtr      groupTranspileFn // when set, used instead of tr for whole batches
	label    string           // prefix of violation names ("" for fc in C01)
	ownInfo  bool             // programs carry their own package_info (C17)
	mu       sync.Mutex
	census   *Census
	sizes    map[string]int
	depths   map[string]int
	outLens  map[string]int
	verdicts map[string]int
	nextDir  int
}

func bucket(n int, edges []int) string {
	lo := 0
	for _, e := range edges {
		if n < e {
			return fmt.Sprintf("%d-%d", lo, e-1)
		}
		lo = e
	}
	return fmt.Sprintf("%d+", lo)
}

func (r *c01Run) record(pc *progCase) {
	r.mu.Lock()
	defer r.mu.Unlock()
	p := pc.P
	if p.RawFo == "" {
		r.census.Add(p)
		r.sizes[bucket(p.Size(), []int{20, 50, 100, 200, 400, 800, 1600})]++
		r.depths[bucket(p.Depth(), []int{3, 5, 7, 9, 12, 16})]++
	}
	r.outLens[bucket(len(pc.expectOut()), []int{16, 64, 256, 1024, 4096})]++
}

func (r *c01Run) dir(prefix string) string {
	r.mu.Lock()
	defer r.mu.Unlock()
	r.nextDir++
	return filepath.Join(r.c.Work, fmt.Sprintf("%s%d", prefix, r.nextDir))
}

// loadCorpus reads corpus/<ID>/*.sexp (one program per file, `;` comments).
func loadCorpus(c *Ctx, id string, opts CheckOpts) []*Prog {
	files, _ := filepath.Glob(filepath.Join(c.Verif, "corpus", id, "*.sexp"))
	sort.Strings(files)
	var ps []*Prog
	for _, f := range files {
		b, err := os.ReadFile(f)
		if err != nil {
			panic(err)
		}
		p, err := ParseProg(string(b))
		if err != nil {
			panic(fmt.Sprintf("corpus %s: %v", f, err))
		}
		if err := Check(p, opts); err != nil {
			panic(fmt.Sprintf("corpus %s is outside the domain: %v", f, err))
		}
		if r := Eval(p, 400000); !r.OK() {
			panic(fmt.Sprintf("corpus %s: reference interpreter: stuck=%q fuel=%v", f, r.Stuck, r.Fuel))
		}
		p.Hazard = ""
		p.OmitParens = strings.Contains(filepath.Base(f), "noparens")
		ps = append(ps, p)
		c.Count("corpus_programs")
	}
	// raw Folang programs (constructs outside the MiniFo AST, e.g. `type … and …` groups): X.fo with
	// the expected stdout in X.out; they carry their own package_info so that tinyfo can read them too
	raws, _ := filepath.Glob(filepath.Join(c.Verif, "corpus", id, "*.fo"))
	sort.Strings(raws)
	for _, f := range raws {
		src, err := os.ReadFile(f)
		if err != nil {
			panic(err)
		}
		out, err := os.ReadFile(strings.TrimSuffix(f, ".fo") + ".out")
		if err != nil {
			panic(fmt.Sprintf("corpus %s has no .out file", f))
		}
		ps = append(ps, &Prog{RawFo: string(src), RawOut: string(out), Main: blockOf(eUnit())})
		c.Count("corpus_raw_programs")
	}
	return ps
}

func oracleHas(c *Ctx, id string) bool {
	if c.Fomodel == "" || !Exists(c.Fomodel) {
		return false
	}
	cmd := exec.Command(c.Fomodel)
	cmd.Stdin = strings.NewReader(id + " (run_src 10 (prog () (block () (unit))))\n")
	var out bytes.Buffer
	cmd.Stdout = &out
	if err := cmd.Run(); err != nil {
		return false
	}
	line := strings.TrimSpace(out.String())
	return line != "" && !strings.HasPrefix(line, "ERR unknown id")
}

// until the Coq model stores record values in declaration order (in progress), programs with a record
// literal written in another field order are compared with the reference interpreter and real Go only
const modelSkipsPermutedRecords = false

func usesExtPartial(p *Prog) bool {
	stage := map[*Expr]bool{}
	p.WalkExprs(func(_, e *Expr) {
		if e.K == EPipe {
			stage[e.Args[1]] = true
		}
	})
	found := false
	p.WalkExprs(func(_, e *Expr) {
		if e.K == EExt && !stage[e] {
			if sig := extTable[e.Name]; sig != nil && len(e.Args) < len(sig.Params) {
				found = true
			}
		}
	})
	return found
}

func (r *c01Run) violationDoc(pc *progCase, class string, orig *Prog) map[string]any {
	doc := map[string]any{"class": class, "transpiler": r.label, "origin": pc.Origin, "source": pc.Src, "expected_stdout": pc.expectOut(), "actual_stdout": pc.Out}
	if pc.P.RawFo == "" {
		doc["program_sexp"] = pc.P.ToSexp()
		doc["source"] = ToFolangOpts(pc.P, PrintOpts{OwnPkgInfo: r.ownInfo, Tiny: r.ownInfo})
	}
	if orig != nil && orig.RawFo == "" {
		doc["original_program_sexp"] = orig.ToSexp()
	}
	if pc.FcErr != "" {
		doc["transpiler_error"] = pc.FcErr
	}
	if pc.Build != "" {
		doc["go_build"] = pc.Build
	}
	if pc.Panic != "" {
		doc["runtime_panic"] = pc.Panic
	}
	if pc.P.Hazard != "" {
		doc["hazard"] = pc.P.Hazard
	}
	return doc
}

func summarize(pc *progCase, class string) string {
	switch class {
	case "reject":
		return "the transpiler rejects a program of the documented subset: " + firstLine(pc.FcErr)
	case "build":
		ls := strings.Split(strings.TrimSpace(pc.Build), "\n")
		return "the emitted Go does not compile: " + ls[0]
	case "panic":
		return "the compiled program panics where the source semantics give output: " + pc.Panic
	case "output":
		return fmt.Sprintf("stdout differs from the source semantics: expected %q, got %q", clip(pc.expectOut(), 80), clip(pc.Out, 80))
	}
	return class
}

func clip(s string, n int) string {
	if len(s) > n {
		return s[:n] + "…"
	}
	return s
}

var sigNumRe = regexp.MustCompile(`[0-9]+`)
var sigPosRe = regexp.MustCompile(`^\S*gen_p\d+\.go:\d+:\d+: `)

// failSig: the failure with positions, numbers and generated names blurred, so that shrinking keeps the
// same failure and does not drift to another one.
func failSig(pc *progCase, class string) string {
	norm := func(s string) string {
		s = strings.SplitN(strings.TrimSpace(s), "\n", 2)[0]
		s = sigPosRe.ReplaceAllString(s, "")
		s = sigNumRe.ReplaceAllString(s, "#")
		if len(s) > 60 {
			s = s[:60]
		}
		return s
	}
	switch class {
	case "build":
		// the first diagnostic that names this program's file
		for _, l := range strings.Split(pc.Build, "\n") {
			if sigPosRe.MatchString(l) {
				// identifiers differ between candidates: keep the message up to the first identifier-ish detail
				m := norm(l)
				if i := strings.IndexAny(m, ":("); i > 0 {
					m = m[:i]
				}
				return class + ":" + m
			}
		}
		return class
	case "reject":
		m := pc.FcErr
		if i := strings.LastIndex(m, ": "); i >= 0 {
			m = m[i+2:]
		}
		return class + ":" + norm(m)
	case "panic":
		return class + ":" + norm(pc.Panic)
	}
	return class
}

// shrink a failing program while the same class of failure persists
func (r *c01Run) shrink(pc *progCase, class string) *progCase {
	if pc.P.RawFo != "" {
		return pc
	}
	opts := r.prof.checkOpts()
	opts.AllowUnused = pc.P.Hazard == "unused-binder"
	opts.AllowUnitTypeVar = pc.P.Hazard == "unit-typevar"
	opts.AllowInterpStart = pc.P.Hazard == "interp-block-start"
	opts.AllowExtPartial = true
	if Check(pc.P, opts) != nil {
		return pc
	}
	best := pc
	sig := failSig(pc, class)
	deadline := time.Now().Add(time.Duration(r.c.Pick(75, 300)) * time.Second)
	test := func(cands []*Prog) []bool {
		if time.Now().After(deadline) {
			return make([]bool, len(cands))
		}
		cases := make([]*progCase, len(cands))
		for i, q := range cands {
			q.Hazard = pc.P.Hazard
			cases[i] = prepCase(i, q, "shrink", r.ownInfo)
		}
		var live []*progCase
		for _, cs := range cases {
			if cs.Expect.OK() {
				live = append(live, cs)
			}
		}
		runBatchG(r.c, r.dir("shrink"), live, r.tr, r.gtr, false, class == "reject")
		res := make([]bool, len(cands))
		for i, cs := range cases {
			if cs.Expect.OK() && cs.verdict() == class && failSig(cs, class) == sig {
				res[i] = true
			}
		}
		for i, ok := range res {
			if ok {
				best = cases[i]
				break
			}
		}
		return res
	}
	_, used := Shrink(pc.P, opts, r.c.Pick(25, 80), 30, test)
	r.c.CountN("shrink_rounds", used)
	return best
}

// compare one finished case; returns true when it counts as agreement
func (r *c01Run) judge(pc *progCase, shrinkBudget *int) {
	c := r.c
	v := pc.verdict()
	r.mu.Lock()
	r.verdicts[map[bool]string{true: "ok", false: v}[v == ""]]++
	r.mu.Unlock()
	if pc.P.Hazard != "" {
		key := pc.P.Hazard
		c.Count("hazard:" + key)
		if v == "" {
			c.Count("hazard-passes:" + key)
			return
		}
		c.Count("hazard-fails:" + key + ":" + v)
		if c.IsKnown(key) {
			c.Known(key)
			return
		}
		sh := pc
		if *shrinkBudget > 0 {
			*shrinkBudget--
			sh = r.shrink(pc, v)
		}
		c.Violate(r.label+"hazard-"+key, r.label+summarize(sh, v)+" (defect class "+key+", not listed as known)", r.violationDoc(sh, v, pc.P), false)
		return
	}
	c.Compared(1)
	if v == "" {
		return
	}
	c.Disagree()
	sh := pc
	if *shrinkBudget > 0 {
		*shrinkBudget--
		sh = r.shrink(pc, v)
	}
	c.Violate(r.label+v, r.label+summarize(sh, v), r.violationDoc(sh, v, pc.P), false)
}

// runAll: batches in parallel; returns the finished cases.
func (r *c01Run) runAll(cases []*progCase, batch int, realFc func(pc *progCase)) {
	var batches [][]*progCase
	var cur []*progCase
	for _, pc := range cases {
		if pc.P.RawFo != "" {
			batches = append(batches, []*progCase{pc})
			continue
		}
		cur = append(cur, pc)
		if len(cur) == batch {
			batches = append(batches, cur)
			cur = nil
		}
	}
	if len(cur) > 0 {
		batches = append(batches, cur)
	}
	sem := make(chan bool, 8)
	Parallel(len(batches), func(i int) {
		sem <- true
		defer func() { <-sem }()
		runBatchG(r.c, r.dir("batch"), batches[i], r.tr, r.gtr, os.Getenv("VH_KEEP") != "", false)
		if realFc != nil && len(batches[i]) > 0 {
			realFc(batches[i][len(batches[i])/2])
		}
	})
	r.c.CountN("batches", len(batches))
}

func runC01(c *Ctx) {
	rng := NewRng(c.Seed).Fork() // NewRng(s) and NewRng(s+1) are the same stream shifted by one draw: fork first
	c.Res.Rule = "corpus/C01/*.sexp, then type-directed random MiniFo programs (progen_gen.go: default profile, heavy-tailed sizes; " +
		"every construct of FORMAT.md, say-helpers expose evaluation order), each transpiled by fc, compiled, run and compared with the " +
		"reference interpreter (and with the Coq model when its driver is present); a hazard stream holds one program per known defect class; " +
		"non-trivial = at least 25 AST nodes; distinct by s-expression"
	prof := DefaultProfile()
	if c.Thorough() {
		prof.MaxDepth = 8
	}
	pool := c.NewFcPool(12)
	defer pool.Close()
	r := &c01Run{c: c, id: "C01", prof: prof, tr: fcsrvTranspiler(c, pool, true), census: NewCensus(),
		sizes: map[string]int{}, depths: map[string]int{}, outLens: map[string]int{}, verdicts: map[string]int{}}

	if c.Replay != "" {
		c01Replay(r)
		return
	}

	// ---- the cases
	var cases []*progCase
	idx := 0
	addCase := func(p *Prog, origin string) {
		pc := prepCase(idx, p, origin, false)
		idx++
		cases = append(cases, pc)
	}
	for i, p := range loadCorpus(c, "C01", CheckOpts{AllowExtPartial: true}) {
		addCase(p, fmt.Sprintf("corpus:%d", i))
	}
	nsamples := 0
	for i, sm := range c01Samples {
		if !c.Thorough() && (i+int(c.Seed))%4 != 0 {
			continue // quick: a quarter of them (one go build each)
		}
		b, err := os.ReadFile(filepath.Join(c.Tree, "samples", sm.file))
		if err != nil {
			c.Note("sample %s not found in the tree", sm.file)
			continue
		}
		addCase(&Prog{RawFo: string(b), RawOut: sm.out, Hazard: sm.hazard, Main: blockOf(eUnit())}, "sample:"+sm.file)
		nsamples++
	}
	c.CountN("repo_samples_run", nsamples)
	n := c.Pick(240, 9000)
	if v := os.Getenv("VH_N"); v != "" {
		fmt.Sscan(v, &n)
	}
	// generation in parallel, reproducibly: one forked stream per chunk
	chunk := 50
	nchunks := (n + chunk - 1) / chunk
	rngs := make([]*Rng, nchunks)
	for i := range rngs {
		rngs[i] = rng.Fork()
	}
	gen := make([][]*Prog, nchunks)
	Parallel(nchunks, func(i int) {
		for k := 0; k < chunk && i*chunk+k < n; k++ {
			gen[i] = append(gen[i], GenProgram(rngs[i], prof))
		}
	})
	for _, g := range gen {
		for _, p := range g {
			addCase(p, "gen")
		}
	}
	hz := rng.Fork()
	for _, key := range c01Hazards {
		reps := c.Pick(2, 12)
		if key == "generic-union-match" {
			reps = c.Pick(1, 3) // raw programs: one go build each
		}
		for k := 0; k < reps; k++ {
			hp := prof
			hp.Hazard = key
			p := GenProgram(hz, hp)
			addCase(p, "hazard:"+key)
		}
	}
	c.Lap("generate")

	// ---- transpile, build, run
	foi := c.PkgAllFoi()
	realFc := func(pc *progCase) {
		if pc.FcErr != "" {
			return
		}
		dir := r.dir("realfc")
		defer os.RemoveAll(dir)
		name := fmt.Sprintf("p%d.fo", pc.Idx)
		MustWrite(filepath.Join(dir, name), pc.Src)
		rr := c.Fc(dir, foi, name)
		c.Count("real_fc_processes")
		got, _ := os.ReadFile(filepath.Join(dir, "gen_p"+fmt.Sprint(pc.Idx)+".go"))
		if rr.Exit != 0 || string(got) != pc.GoSrc {
			c.Violate("hook", "the fc process and the hooked in-process fc differ on the same program",
				map[string]any{"broken": "correspondence fcsrv hook vs fc process", "source": pc.Src, "fc_exit": rr.Exit, "fc_output": rr.Stdout + rr.Stderr}, true)
		}
	}
	r.runAll(cases, c.Pick(62, 160), realFc)
	c.Lap("transpile+build+run")

	// ---- the property: Go vs reference interpreter
	shrinkBudget := c.Pick(2, 4)
	accepted := 0
	for _, pc := range cases {
		r.record(pc)
		nontrivial := pc.P.RawFo == "" && pc.P.Size() >= 25
		key := pc.Src
		if pc.P.RawFo == "" {
			key = pc.P.ToSexp()
		}
		c.Eval(key, nontrivial)
		c.Count("origin=" + strings.SplitN(pc.Origin, ":", 2)[0])
		if pc.FcErr == "" {
			accepted++
		}
		if pc.P.RawFo == "" {
			c.Count("pap-args=" + PapClass(pc.P))
		}
		r.judge(pc, &shrinkBudget)
	}
	c.Lap("compare")

	// ---- correspondence with the Coq model
	modelSrc, modelGo, modelSkipped, modelK1 := 0, 0, 0, 0
	if oracleHas(c, "C01") {
		or := c.Oracle()
		corrBudget := 2
		for _, pc := range cases {
			if pc.P.RawFo != "" || pc.P.Hazard != "" || usesExtPartial(pc.P) || (modelSkipsPermutedRecords && HasPermutedRecord(pc.P)) {
				modelSkipped++
				continue
			}
			sx := pc.P.ToSexp()
			for _, req := range []string{"run_src", "run_go"} {
				ans := ""
				for _, fuel := range []int{3000, 40000} {
					ans = or.AskRaw("C01", fmt.Sprintf("(%s %d %s)", req, fuel, sx))
					if ans != "FUEL" {
						break
					}
				}
				switch {
				case ans == "FUEL":
					c.Count("model_fuel:" + req)
					continue
				case strings.HasPrefix(ans, "ERR"):
					c.Count("model_err:" + req)
					c.Note("model %s: %s on %s", req, clip(ans, 120), clip(sx, 200))
					continue
				}
				if req == "run_src" {
					modelSrc++
				} else {
					modelGo++
				}
				want := "OUT " + Sq(pc.Expect.Out)
				got := ans
				if strings.HasPrefix(ans, "OUT ") {
					got = "OUT " + Sq(Unsq(strings.TrimPrefix(ans, "OUT ")))
				}
				if got != want {
					c.Disagree()
					if corrBudget > 0 && pc.verdict() == "" {
						corrBudget--
						// the property holds on this input (real Go = reference interpreter): the model is off
						small := c01ShrinkModel(r, pc.P, req, or)
						c.Violate("corr-"+req, fmt.Sprintf("correspondence broke: fomodel %s answers %s where fc+Go and the reference interpreter print %q",
							req, clip(ans, 100), clip(pc.Expect.Out, 80)),
							map[string]any{"broken": "correspondence Coq model (" + req + ") vs fc+Go", "program_sexp": small.ToSexp(),
								"source": ToFolang(small), "model_answer": or.AskRaw("C01", fmt.Sprintf("(%s 40000 %s)", req, small.ToSexp())),
								"reference_stdout": Eval(small, 400000).Out}, true)
					}
				}
			}
		}
		// K1: structure. The Go fc emits (go/parser, canonicalised, types erased) must be textually
		// the model's compile output. A difference with equal behaviour = the correspondence broke.
		k1Budget := 2
		srv := c.StartFcSrv()
		fullFoi, _ := os.ReadFile(c.PkgAllFoi())
		for _, pc := range cases {
			if pc.P.RawFo != "" || pc.P.Hazard != "" || usesExtPartial(pc.P) || pc.FcErr != "" || (modelSkipsPermutedRecords && HasPermutedRecord(pc.P)) {
				continue
			}
			want := or.AskRaw("C01", "(compile "+pc.P.ToSexp()+")")
			if strings.HasPrefix(want, "ERR") || strings.HasPrefix(want, "STUCK") || want == "FUEL" {
				c.Count("model_compile_unavailable")
				continue
			}
			tr := srv.Transpile(SrcFile{"pkg_all.foi", string(fullFoi)}, SrcFile{"m.fo", ToFolang(pc.P)})
			if !tr.Ok {
				continue
			}
			got, err := gcCanonFile(tr.Outs["gen_m.go"])
			if err != nil {
				continue
			}
			modelK1++
			c.Compared(1)
			got, want = gcNormalise(got), gcNormalise(strings.TrimSpace(want))
			if got != want {
				c.Disagree()
				c.Count("k1_structure_differs")
				if k1Budget > 0 {
					k1Budget--
					// first difference, for the replay
					i := 0
					for i < len(got) && i < len(want) && got[i] == want[i] {
						i++
					}
					lo := i - 60
					if lo < 0 {
						lo = 0
					}
					c.Violate("corr-compile", "correspondence broke: the Go emitted by fc differs structurally from Compile.compile_prog (behaviour compared separately)",
						map[string]any{"broken": "correspondence Coq model (compile, K1 structure) vs fc", "program_sexp": pc.P.ToSexp(), "source": ToFolang(pc.P),
							"fc_canonical_near_difference": clip(got[lo:], 300), "model_canonical_near_difference": clip(want[lo:], 300)}, true)
				}
			}
		}
		srv.Close()
	} else {
		c.Note("the C01 oracle driver is not present in bin/fomodel: no program was compared with the Coq model in this run")
	}
	c.Lap("model")

	// ---- evidence
	ex := c.Res.Extra
	ex["feature_census"] = r.census.Features
	ex["statement_census"] = r.census.Stmts
	ex["library_calls"] = r.census.Ext
	ex["match_arm_forms"] = r.census.Arms
	ex["nesting_matrix_child_in_parent"] = r.census.NestingMatrix()
	ex["nesting_pairs_never_generated"] = r.census.MissingPairs()
	ex["size_distribution_ast_nodes"] = r.sizes
	ex["depth_distribution"] = r.depths
	ex["expected_stdout_bytes"] = r.outLens
	ex["verdicts"] = r.verdicts
	ex["programs"] = len(cases)
	ex["accepted_by_fc"] = accepted
	ex["compared_with_reference_interpreter"] = c.Res.Compared
	ex["compared_with_coq_run_src"] = modelSrc
	ex["compared_with_coq_run_go"] = modelGo
	ex["compared_with_coq_compile_structure"] = modelK1
	ex["not_sent_to_coq_model"] = modelSkipped
	ex["generator_stats"] = GenStats
	ex["profile"] = prof
	for _, i := range []int{0, len(cases) / 3, 2 * len(cases) / 3} {
		if i < len(cases) && cases[i].P.RawFo == "" {
			c.Sample(map[string]any{"origin": cases[i].Origin, "source": ToFolang(cases[i].P), "stdout": cases[i].Out, "verdict": cases[i].verdict()})
		}
	}
}

// c01ShrinkModel shrinks a program on which the model disagrees with the reference interpreter
// (in-process: no build needed).
func c01ShrinkModel(r *c01Run, p *Prog, req string, or *Oracle) *Prog {
	opts := r.prof.checkOpts()
	test := func(cands []*Prog) []bool {
		res := make([]bool, len(cands))
		for i, q := range cands {
			ev := Eval(q, 400000)
			if !ev.OK() {
				continue
			}
			ans := or.AskRaw("C01", fmt.Sprintf("(%s 40000 %s)", req, q.ToSexp()))
			if ans == "FUEL" || strings.HasPrefix(ans, "ERR") {
				continue
			}
			got := ans
			if strings.HasPrefix(ans, "OUT ") {
				got = "OUT " + Sq(Unsq(strings.TrimPrefix(ans, "OUT ")))
			}
			res[i] = got != "OUT "+Sq(ev.Out)
			if res[i] {
				break
			}
		}
		return res
	}
	small, _ := Shrink(p, opts, 400, 50, test)
	return small
}

func c01Replay(r *c01Run) {
	c := r.c
	var doc struct {
		Replay struct {
			ProgramSexp string `json:"program_sexp"`
			Source      string `json:"source"`
			Expected    string `json:"expected_stdout"`
			Hazard      string `json:"hazard"`
		} `json:"replay"`
	}
	b, err := os.ReadFile(c.Replay)
	if err != nil {
		panic(err)
	}
	if err := jsonUnmarshal(b, &doc); err != nil {
		panic(err)
	}
	var p *Prog
	if doc.Replay.ProgramSexp != "" {
		p, err = ParseProg(doc.Replay.ProgramSexp)
		if err != nil {
			panic(err)
		}
		Check(p, CheckOpts{AllowExtPartial: true, AllowUnused: true, AllowUnitTypeVar: true, AllowInterpStart: true})
	} else {
		p = &Prog{RawFo: doc.Replay.Source, RawOut: doc.Replay.Expected, Main: blockOf(eUnit())}
	}
	p.Hazard = doc.Replay.Hazard
	pc := prepCase(0, p, "replay", r.ownInfo)
	runBatchG(c, r.dir("replay"), []*progCase{pc}, r.tr, r.gtr, false, false)
	c.Eval(pc.Src, true)
	c.Compared(1)
	if v := pc.verdict(); v != "" {
		c.Disagree()
		c.Violate(v, summarize(pc, v), r.violationDoc(pc, v, nil), false)
	}
}

func init() { Register("C01", runC01) }
