package main

// C07: a definition's translation depends only on itself and what it references.
// A generated base sequence of top-level definitions (records, unions, functions using shorthand
// field access / union match / earlier functions, package variables) with a known dependency graph
// is pushed through fc in many histories: random dependency-respecting reorders, dependency-closed
// deletions, insertions of unrelated definitions, cuts into several files passed in order (plus a
// .foi file). Compared: the Go text of every definition (go/parser, temporaries _vN alpha-renamed per
// binder in order of appearance) across histories (the property itself), and the model's predictions
// (Driver/Hist.v): accept/reject of a history with a forward reference, the set of files written,
// and the exact _vN numbers.

import (
	"fmt"
	"go/ast"
	"go/parser"
	"go/printer"
	"go/token"
	"os"
	"path/filepath"
	"regexp"
	"sort"
	"strings"
)

type c07Def struct {
	Name   string   `json:"name"`
	Kind   string   `json:"kind"` // type | let
	Text   string   `json:"text"`
	Refs   []string `json:"refs"`
	PTemps int      `json:"parse_temps"`      // _.field shorthands
	ETemps int      `json:"emit_temps"`       // matches that bind a payload
	Anchor string   `json:"anchor,omitempty"` // extras: the base definition they are placed right after once
	Before bool     `json:"before,omitempty"` // ... right before it instead
}

func c07GenPool(rng *Rng, n int, tag string) []c07Def {
	var ds []c07Def
	var recs, unions, funs []int // indices
	for i := 0; i < n; i++ {
		id := fmt.Sprintf("%s%d", tag, i)
		k := rng.Intn(17)
		switch {
		case k == 16 && i+1 < n:
			// an external function declared here; an unrelated earlier declaration of the same name with
			// another type (and a use of it) may precede: the later declaration is the one in force
			ds = append(ds, c07Def{Name: "px" + id, Kind: "type", Text: fmt.Sprintf("package_info extq%s =\n  let Spr%s: int->string\n", id, id)})
			ds = append(ds, c07Def{Name: "sn" + id, Kind: "let", Refs: []string{"px" + id},
				Text: fmt.Sprintf("let sn%s n =\n  extq%s.Spr%s n\n", id, id, id)})
			funs = append(funs, len(ds)-1)
			i++
		case k == 14 && len(recs) > 0:
			// a field access on a parameter that nothing types (fc leaves it unresolved, whatever records exist)
			r := ds[Choose(rng, recs)]
			rid := strings.TrimPrefix(r.Name, "Rc")
			ds = append(ds, c07Def{Name: "fa" + id, Kind: "let", Text: fmt.Sprintf("let fa%s p =\n  p.X%s\n", id, rid)})
			funs = append(funs, i)
		case k == 15:
			// a parameter named like a package that an unrelated package_info may declare, with a field
			// named like a function of that package: the parameter wins
			ds = append(ds, c07Def{Name: "Cf" + id, Kind: "type", Text: fmt.Sprintf("type Cf%s = {Path%s: string; N%s: int}\n", id, id, id)})
			ds = append(ds, c07Def{Name: "pa" + id, Kind: "let", Refs: []string{"Cf" + id},
				Text: fmt.Sprintf("let pa%s (pk%s:Cf%s) =\n  pk%s.Path%s\n", id, id, id, id, id)})
			funs = append(funs, len(ds)-1)
			i++
		case k >= 12 && i+1 < n:
			// a package-level value and a function whose parameter type is inferred from it
			ds = append(ds, c07Def{Name: "gv" + id, Kind: "let", Text: fmt.Sprintf("let gv%s = %d\n", id, i+3)})
			ds = append(ds, c07Def{Name: "ov" + id, Kind: "let", Refs: []string{"gv" + id},
				Text: fmt.Sprintf("let ov%s n =\n  n > gv%s\n", id, id)})
			funs = append(funs, len(ds)-1)
			i++
		case k == 10 && i+2 < n:
			// twin records: identical field names, so an untyped literal resolves by name order
			// (first by name); the literal-using function refers to BOTH twins
			a, b := "Tw"+id+"z", "Tw"+id+"a"
			if rng.Bool() {
				a, b = b, a
			}
			ds = append(ds, c07Def{Name: a, Kind: "type", Text: fmt.Sprintf("type %s = {TX%s: int; TY%s: int}\n", a, id, id)})
			ds = append(ds, c07Def{Name: b, Kind: "type", Text: fmt.Sprintf("type %s = {TX%s: int; TY%s: int}\n", b, id, id)})
			ds = append(ds, c07Def{Name: "fn" + id, Kind: "let", Refs: []string{a, b},
				Text: fmt.Sprintf("let fn%s (a:int) =\n  {TX%s=a; TY%s=%d}\n", id, id, id, i)})
			funs = append(funs, len(ds)-1)
			i += 2
		case k == 11 && i+1 < n:
			// a type group with forward references, and a function over it
			ds = append(ds, c07Def{Name: "Gd" + id, Kind: "type",
				Text: fmt.Sprintf("type Gd%s = {Root: Ge%s; Cnt: int}\nand Ge%s = {Tag: string}\n", id, id, id)})
			ds = append(ds, c07Def{Name: "fn" + id, Kind: "let", Refs: []string{"Gd" + id},
				Text: fmt.Sprintf("let fn%s (d:Gd%s) =\n  d.Root.Tag\n", id, id)})
			funs = append(funs, len(ds)-1)
			i++
		case k < 2 || len(recs) == 0 && i == 0:
			ds = append(ds, c07Def{Name: "Rc" + id, Kind: "type", Text: fmt.Sprintf("type Rc%s = {X%s: int; Name%s: string}\n", id, id, id)})
			recs = append(recs, i)
		case k < 4 || len(unions) == 0 && i == 1:
			ds = append(ds, c07Def{Name: "Un" + id, Kind: "type", Text: fmt.Sprintf("type Un%s =\n  | Ca%sa of int\n  | Ca%sb\n", id, id, id)})
			unions = append(unions, i)
		case k < 5 && len(recs) > 0:
			r := ds[Choose(rng, recs)]
			rid := strings.TrimPrefix(r.Name, "Rc")
			ds = append(ds, c07Def{Name: "fn" + id, Kind: "let", Refs: []string{r.Name}, PTemps: 1,
				Text: fmt.Sprintf("let fn%s (rs:[]%s) =\n  rs |> slice.Map _.X%s |> slice.Length\n", id, r.Name, rid)})
			funs = append(funs, i)
		case k < 7 && len(unions) > 0:
			u := ds[Choose(rng, unions)]
			uid := strings.TrimPrefix(u.Name, "Un")
			ds = append(ds, c07Def{Name: "fn" + id, Kind: "let", Refs: []string{u.Name}, ETemps: 1,
				Text: fmt.Sprintf("let fn%s (u:%s) =\n  match u with\n  | Ca%sa x -> x + %d\n  | Ca%sb -> 0\n", id, u.Name, uid, i, uid)})
			funs = append(funs, i)
		case k < 8 && len(recs) > 0 && len(unions) > 0:
			r := ds[Choose(rng, recs)]
			u := ds[Choose(rng, unions)]
			rid := strings.TrimPrefix(r.Name, "Rc")
			uid := strings.TrimPrefix(u.Name, "Un")
			ds = append(ds, c07Def{Name: "fn" + id, Kind: "let", Refs: []string{r.Name, u.Name}, PTemps: 2, ETemps: 1,
				Text: fmt.Sprintf("let fn%s (rs:[]%s) (u:%s) =\n  let n = match u with\n          | Ca%sa y -> y\n          | Ca%sb -> 1\n  let k = rs |> slice.Map _.Name%s |> slice.Length\n  rs |> slice.Map _.X%s |> slice.Length |> (fun l -> l + n + k)\n", id, r.Name, u.Name, uid, uid, rid, rid)})
			funs = append(funs, i)
		case k < 9 && len(funs) > 0:
			// calls an earlier int->int style function? keep it simple: refer to an earlier function as a value
			f := ds[Choose(rng, funs)]
			ds = append(ds, c07Def{Name: "fn" + id, Kind: "let", Refs: append([]string{f.Name}, f.Refs...),
				Text: fmt.Sprintf("let fn%s (a:int) =\n  let g = %s\n  (g, a + %d)\n", id, f.Name, i)})
			funs = append(funs, i)
		default:
			ds = append(ds, c07Def{Name: "fn" + id, Kind: "let", Text: fmt.Sprintf("let fn%s a b = (b, a, %d)\n", id, i)})
			funs = append(funs, i)
		}
	}
	return ds
}

type c07File struct {
	Name string   `json:"name"`
	Defs []c07Def `json:"defs"`
}
type c07History struct {
	Kind  string    `json:"kind"`
	Files []c07File `json:"files"`
}

func (f *c07File) src() string {
	var b strings.Builder
	if strings.HasSuffix(f.Name, ".fo") {
		b.WriteString("package main\n\nimport frt\nimport slice\n\n")
	}
	for _, d := range f.Defs {
		b.WriteString(d.Text + "\n")
	}
	return b.String()
}

// model prediction (Driver/Hist.v): accepted iff every reference is declared earlier in the history
func (h *c07History) predictAccept() bool {
	seen := map[string]bool{}
	for _, f := range h.Files {
		for _, d := range f.Defs {
			for _, r := range d.Refs {
				if !seen[r] {
					return false
				}
			}
			seen[d.Name] = true
		}
	}
	return true
}

// model prediction of the emission-time temporary numbers of each definition:
// parse-time temporaries restart at 1 in every root let; emission runs after the whole file was
// parsed and continues from the counter left by the file's last root let
func (h *c07History) predictETemps() map[string][]int {
	out := map[string][]int{}
	counter := 0
	for _, f := range h.Files {
		for _, d := range f.Defs {
			if d.Kind == "let" {
				counter = d.PTemps
			}
		}
		if !strings.HasSuffix(f.Name, ".fo") {
			continue
		}
		for _, d := range f.Defs {
			var ns []int
			for k := 0; k < d.ETemps; k++ {
				counter++
				ns = append(ns, counter)
			}
			out[d.Name] = ns
		}
	}
	return out
}

// c07Model asks the Coq model (Driver/Hist.v, extracted) for its prediction of a history:
// accept/reject, files written (indices of h.Files), emission-time temporaries per definition.
func c07Model(or *Oracle, h *c07History) (bool, []int, map[string][]int) {
	ids := map[string]int{}
	names := []string{}
	id := func(n string) int {
		if _, ok := ids[n]; !ok {
			ids[n] = len(ids) + 1
			names = append(names, n)
		}
		return ids[n]
	}
	var fs []string
	fs = append(fs, "(0 false ())") // mini.foi
	for fi, f := range h.Files {
		var ds []string
		for _, d := range f.Defs {
			var refs []string
			for _, r := range d.Refs {
				refs = append(refs, fmt.Sprint(id(r)))
			}
			ds = append(ds, fmt.Sprintf("(%d %s (%s) %d %d)", id(d.Name), d.Kind, strings.Join(refs, " "), d.PTemps, d.ETemps))
		}
		fs = append(fs, fmt.Sprintf("(%d %v (%s))", fi+1, strings.HasSuffix(f.Name, ".fo"), strings.Join(ds, " ")))
	}
	ans := or.Ask("C07", "(hist ("+strings.Join(fs, " ")+"))")
	if ans == "REJECT" {
		return false, nil, nil
	}
	var files []int
	temps := map[string][]int{}
	fpart := ans[strings.Index(ans, "files=(")+7:]
	fpart = fpart[:strings.Index(fpart, ")")]
	for _, x := range strings.Fields(fpart) {
		var n int
		fmt.Sscanf(x, "%d", &n)
		files = append(files, n-1)
	}
	tpart := ans[strings.Index(ans, "temps=(")+7:]
	for _, grp := range strings.Split(tpart, "(") {
		grp = strings.Trim(grp, ") ")
		f := strings.Fields(grp)
		if len(f) == 0 {
			continue
		}
		var n int
		fmt.Sscanf(f[0], "%d", &n)
		var ts []int
		for _, x := range f[1:] {
			var t int
			fmt.Sscanf(x, "%d", &t)
			ts = append(ts, t)
		}
		temps[names[n-1]] = ts
	}
	return true, files, temps
}

var c07TmpRe = regexp.MustCompile(`^_v(\d+)$`)

// c07AlphaNormalize renames compiler temporaries _vN by BINDER (function-literal parameter or
// type-switch binder), numbering binders in order of appearance: parse-time temporaries (the
// parameter of a `_.field` lambda) and emission-time temporaries (type-switch binders) are counted
// separately by fc and may carry the same number in unrelated scopes.
func c07AlphaNormalize(fset *token.FileSet, n ast.Node) string {
	next := 0
	var stack []map[string]string
	lookup := func(name string) (string, bool) {
		for i := len(stack) - 1; i >= 0; i-- {
			if v, ok := stack[i][name]; ok {
				return v, true
			}
		}
		return "", false
	}
	var walk func(n ast.Node)
	bind := func(id *ast.Ident, m map[string]string) {
		if id != nil && c07TmpRe.MatchString(id.Name) {
			next++
			m[id.Name] = fmt.Sprintf("_v#%d", next)
			id.Name = m[id.Name]
		}
	}
	walk = func(n ast.Node) {
		ast.Inspect(n, func(x ast.Node) bool {
			switch t := x.(type) {
			case *ast.FuncLit:
				m := map[string]string{}
				for _, f := range t.Type.Params.List {
					for _, id := range f.Names {
						bind(id, m)
					}
				}
				stack = append(stack, m)
				walk(t.Body)
				stack = stack[:len(stack)-1]
				return false
			case *ast.TypeSwitchStmt:
				m := map[string]string{}
				if as, ok := t.Assign.(*ast.AssignStmt); ok {
					walk(as.Rhs[0])
					if id, ok := as.Lhs[0].(*ast.Ident); ok {
						bind(id, m)
					}
				} else {
					walk(t.Assign)
				}
				stack = append(stack, m)
				walk(t.Body)
				stack = stack[:len(stack)-1]
				return false
			case *ast.Ident:
				if c07TmpRe.MatchString(t.Name) {
					if v, ok := lookup(t.Name); ok {
						t.Name = v
					}
				}
			}
			return true
		})
	}
	walk(n)
	var b strings.Builder
	printer.Fprint(&b, fset, n)
	return b.String()
}

// c07Decls splits an emitted file into top-level declarations keyed by Go name
func c07Decls(src string) (map[string]string, error) {
	fset := token.NewFileSet()
	f, err := parser.ParseFile(fset, "g.go", src, 0)
	if err != nil {
		return nil, err
	}
	out := map[string]string{}
	raw := func(n ast.Node) string { return src[fset.Position(n.Pos()).Offset:fset.Position(n.End()).Offset] }
	text := func(n ast.Node) string {
		r := raw(n) // before the identifiers are renamed in place
		return c07AlphaNormalize(fset, n) + "\x00" + r
	}
	for _, d := range f.Decls {
		switch x := d.(type) {
		case *ast.FuncDecl:
			key := x.Name.Name
			if x.Recv != nil && len(x.Recv.List) > 0 {
				key = raw(x.Recv.List[0].Type) + "." + key
			}
			out[key] = text(x)
		case *ast.GenDecl:
			if x.Tok == token.IMPORT {
				continue
			}
			for _, sp := range x.Specs {
				switch s := sp.(type) {
				case *ast.TypeSpec:
					out[s.Name.Name] = text(x)
				case *ast.ValueSpec:
					out[s.Names[0].Name] = text(x)
				}
			}
		}
	}
	return out, nil
}

func c07Owner(goName string, defs map[string]bool) string {
	base := goName
	if i := strings.Index(base, "."); i >= 0 {
		base = base[:i]
	}
	base = strings.TrimPrefix(base, "New_")
	if i := strings.Index(base, "_"); i >= 0 {
		base = base[:i]
	}
	if defs[base] {
		return base
	}
	return ""
}

type c07Obs struct {
	ok    bool
	err   string
	files map[string]string            // gen file -> text
	decls map[string]map[string]string // def name -> go decl key -> normalized text
	etemp map[string][]int             // def name -> numbers of temporaries bound by type switches
}

var c07SwitchRe = regexp.MustCompile(`switch _v(\d+) :=`)

func c07Run(s *FcSrv, h *c07History) c07Obs {
	files := []SrcFile{{"mini.foi", MiniFoiText}}
	defs := map[string]bool{}
	for _, f := range h.Files {
		files = append(files, SrcFile{f.Name, f.src()})
		for _, d := range f.Defs {
			defs[d.Name] = true
		}
	}
	r := s.Transpile(files...)
	o := c07Obs{ok: r.Ok, err: r.Err, files: r.Outs, decls: map[string]map[string]string{}, etemp: map[string][]int{}}
	if r.Died {
		o.err = "DIED"
	}
	if !r.Ok {
		return o
	}
	c07Observe(&o, defs)
	return o
}

// c07RunProc: the same history through the real fc process (its own argument handling in main.fo)
func c07RunProc(c *Ctx, dir string, h *c07History) c07Obs {
	os.RemoveAll(dir)
	MustWrite(dir+"/mini.foi", MiniFoiText)
	args := []string{"mini.foi"}
	defs := map[string]bool{}
	for _, f := range h.Files {
		MustWrite(dir+"/"+f.Name, f.src())
		args = append(args, f.Name)
		for _, d := range f.Defs {
			defs[d.Name] = true
		}
	}
	r := c.Fc(dir, args...)
	o := c07Obs{ok: r.Exit == 0, err: r.Stdout + r.Stderr, files: map[string]string{}, decls: map[string]map[string]string{}, etemp: map[string][]int{}}
	if !o.ok {
		return o
	}
	gens, _ := filepath.Glob(dir + "/gen_*.go")
	for _, g := range gens {
		b, _ := os.ReadFile(g)
		o.files[filepath.Base(g)] = string(b)
	}
	c07Observe(&o, defs)
	return o
}

func c07Observe(o *c07Obs, defs map[string]bool) {
	for _, txt := range o.files {
		ds, err := c07Decls(txt)
		if err != nil {
			o.ok = false
			o.err = "emitted Go does not parse: " + err.Error()
			return
		}
		for k, t := range ds {
			ow := c07Owner(k, defs)
			if ow == "" {
				continue
			}
			if o.decls[ow] == nil {
				o.decls[ow] = map[string]string{}
			}
			norm, rawText, _ := strings.Cut(t, "\x00")
			o.decls[ow][k] = norm
			for _, m := range c07SwitchRe.FindAllStringSubmatch(rawText, -1) {
				var n int
				fmt.Sscanf(m[1], "%d", &n)
				o.etemp[ow] = append(o.etemp[ow], n)
			}
		}
	}
}

func c07Histories(rng *Rng, base, extra []c07Def, n int) []*c07History {
	var hs []*c07History
	topo := func() []c07Def {
		// random dependency-respecting order
		rem := append([]c07Def{}, base...)
		var out []c07Def
		seen := map[string]bool{}
		for len(rem) > 0 {
			var ready []int
			for i, d := range rem {
				ok := true
				for _, r := range d.Refs {
					if !seen[r] {
						ok = false
					}
				}
				if ok {
					ready = append(ready, i)
				}
			}
			i := ready[rng.Intn(len(ready))]
			out = append(out, rem[i])
			seen[rem[i].Name] = true
			rem = append(rem[:i], rem[i+1:]...)
		}
		return out
	}
	for k := 0; k < n; k++ {
		var seq []c07Def
		kind := ""
		switch rng.Intn(4) {
		case 0:
			seq = topo()
			kind = "reorder"
		case 1:
			// dependency-closed subset: drop definitions nobody kept refers to
			keep := map[string]bool{}
			for i := len(base) - 1; i >= 0; i-- {
				if rng.Chance(2, 3) || keep[base[i].Name] {
					keep[base[i].Name] = true
					for _, r := range base[i].Refs {
						keep[r] = true
					}
				}
			}
			for _, d := range base {
				if keep[d.Name] {
					seq = append(seq, d)
				}
			}
			if len(seq) == 0 {
				seq = append(seq, base[0])
			}
			kind = "delete"
		case 2:
			seq = append([]c07Def{}, base...)
			for _, e := range extra {
				if rng.Bool() || e.Before {
					continue // (an extra that is unrelated only BEFORE its anchor goes there, see insert-adjacent)
				}
				// an unrelated definition may go anywhere after its own references
				pos := 0
				found := 0
				for i, d := range seq {
					for _, r := range e.Refs {
						if d.Name == r {
							found++
							if i+1 > pos {
								pos = i + 1
							}
						}
					}
				}
				if found < len(e.Refs) {
					continue // one of its references was not inserted
				}
				at := pos + rng.Intn(len(seq)-pos+1)
				seq = append(seq[:at], append([]c07Def{e}, seq[at:]...)...)
			}
			kind = "insert"
		default:
			seq = topo()
			kind = "reorder+split"
		}
		h := &c07History{Kind: kind}
		if kind == "reorder+split" || rng.Chance(1, 3) {
			nf := 2 + rng.Intn(2)
			cuts := []int{}
			for i := 0; i < nf-1; i++ {
				cuts = append(cuts, rng.Intn(len(seq)+1))
			}
			sort.Ints(cuts)
			prev := 0
			for i, cpos := range append(cuts, len(seq)) {
				h.Files = append(h.Files, c07File{Name: fmt.Sprintf("part%d.fo", i), Defs: seq[prev:cpos]})
				prev = cpos
			}
			if !strings.Contains(h.Kind, "split") {
				h.Kind += "+split"
			}
		} else {
			h.Files = []c07File{{Name: "all.fo", Defs: seq}}
		}
		hs = append(hs, h)
	}
	return hs
}

func runC07(c *Ctx) {
	rng := NewRng(c.Seed)
	c.Res.Rule = "generated base sequences of 8..16 top-level definitions x histories (dependency-respecting reorder, dependency-closed deletion, insertion of unrelated definitions, cuts into 2-3 files, forward reference); " +
		"one evaluation = one history transpiled; non-trivial = history differs from the canonical one and contains a definition using temporaries; distinct by file contents"
	nbase := c.Pick(40, 1200)
	nhist := c.Pick(10, 30)
	pool := c.NewFcPool(8)
	defer pool.Close()
	type job struct {
		base, extra []c07Def
		hs          []*c07History
	}
	jobs := make([]job, nbase)
	for i := range jobs {
		b := c07GenPool(rng, 8+rng.Intn(9), "b")
		e := c07GenPool(rng, 4, "e")
		for di, d := range b {
			switch {
			case strings.HasPrefix(d.Name, "Tw") && strings.HasSuffix(d.Name, "z") || strings.HasPrefix(d.Name, "Tw") && strings.HasSuffix(d.Name, "a"):
				// an unrelated user of the same field names that refers to THIS twin only: it may be
				// inserted between the two twins (its own text is not compared)
				id := strings.TrimSuffix(strings.TrimSuffix(strings.TrimPrefix(d.Name, "Tw"), "z"), "a")
				e = append(e, c07Def{Name: fmt.Sprintf("fnx%d_%d", i, di), Kind: "let", Refs: []string{d.Name},
					Text: fmt.Sprintf("let fnx%d_%d (a:int) =\n  {TX%s=a; TY%s=7}\n", i, di, id, id)})
			case strings.HasPrefix(d.Name, "px"):
				id := strings.TrimPrefix(d.Name, "px")
				e = append(e, c07Def{Name: fmt.Sprintf("bn%d_%d", i, di), Kind: "let", Anchor: d.Name, Before: true,
					Text: fmt.Sprintf("package_info extq%s =\n  let Spr%s: string->string\n\nlet bn%d_%d (s:string) =\n  extq%s.Spr%s s\n", id, id, i, di, id, id)})
			case strings.HasPrefix(d.Name, "Cf"):
				id := strings.TrimPrefix(d.Name, "Cf")
				e = append(e, c07Def{Name: fmt.Sprintf("pkg%d_%d", i, di), Kind: "type", Anchor: d.Name,
					Text: fmt.Sprintf("package_info pk%s =\n  let Path%s: ()->string\n  let N%s: int->int\n", id, id, id)})
			case strings.HasPrefix(d.Name, "gv"):
				// an unrelated package-level string match whose variable rule binds a name that happens
				// to be the name of this package-level value (the binder is local to its rule)
				e = append(e, c07Def{Name: fmt.Sprintf("lb%d_%d", i, di), Kind: "let", Anchor: d.Name,
					Text: fmt.Sprintf("let md%d_%d = \"fast\"\n\nlet lb%d_%d =\n  match md%d_%d with\n  | \"fast\" -> \"F\"\n  | %s -> \"unknown: \" + %s\n", i, di, i, di, i, di, d.Name, d.Name)})
			case strings.HasPrefix(d.Name, "Gd"):
				// an unrelated package_info whose type parameter happens to be called like the
				// forward-referenced type of the group
				id := strings.TrimPrefix(d.Name, "Gd")
				e = append(e, c07Def{Name: fmt.Sprintf("pk%d_%d", i, di), Kind: "type",
					Text: fmt.Sprintf("package_info _ =\n  let pickFirst%d_%d<Ge%s>: []Ge%s->Ge%s\n", i, di, id, id, id)})
			}
		}
		// an unrelated type that happens to be called like a hoisted type parameter
		tn := fmt.Sprintf("T%d", rng.Intn(3))
		e = append(e, c07Def{Name: tn, Kind: "type", Text: fmt.Sprintf("type %s = {Zq%d: int}\n", tn, i)})
		jobs[i] = job{b, e, c07Histories(rng, b, e, nhist)}
		// every anchored extra once right after its anchor
		for _, x := range e {
			if x.Anchor == "" {
				continue
			}
			var seq []c07Def
			for _, d := range b {
				if d.Name == x.Anchor && x.Before {
					seq = append(seq, x)
				}
				seq = append(seq, d)
				if d.Name == x.Anchor && !x.Before {
					seq = append(seq, x)
				}
			}
			jobs[i].hs = append(jobs[i].hs, &c07History{Kind: "insert-adjacent", Files: []c07File{{Name: "all.fo", Defs: seq}}})
		}
		// the unrelated T<n> type first
		jobs[i].hs = append(jobs[i].hs, &c07History{Kind: "insert-first", Files: []c07File{{Name: "all.fo", Defs: append([]c07Def{e[len(e)-1]}, b...)}}})
		// a .foi file in the middle of the argument list that declares a function over a type defined
		// in the .fo file before it; the .fo file after it uses that function
		for di, d := range b {
			if strings.HasPrefix(d.Name, "Rc") && di+1 < len(b) {
				nat := c07Def{Name: fmt.Sprintf("natFn%d", i), Kind: "type", Refs: []string{d.Name},
					Text: fmt.Sprintf("package_info _ =\n  let natFn%d: %s->int\n", i, d.Name)}
				use := c07Def{Name: fmt.Sprintf("useNat%d", i), Kind: "let", Refs: []string{d.Name, nat.Name},
					Text: fmt.Sprintf("let useNat%d (r:%s) =\n  (natFn%d r) * 2\n", i, d.Name, i)}
				jobs[i].hs = append(jobs[i].hs, &c07History{Kind: "foi-between", Files: []c07File{
					{Name: "part0.fo", Defs: b[:di+1]}, {Name: "nat.foi", Defs: []c07Def{nat}},
					{Name: "part1.fo", Defs: append(append([]c07Def{}, b[di+1:]...), use)}}})
				break
			}
		}
		// one forward-reference history per base, when there is a reference to break
		for di, d := range b {
			if len(d.Refs) > 0 {
				seq := append([]c07Def{d}, append(append([]c07Def{}, b[:di]...), b[di+1:]...)...)
				jobs[i].hs = append(jobs[i].hs, &c07History{Kind: "forward-reference", Files: []c07File{{Name: "all.fo", Defs: seq}}})
				break
			}
		}
	}
	{
		// one long base: 56 type groups with two forward references each (the forward-declaration
		// type variables are per type group: the total over a file / an invocation must not matter)
		var b []c07Def
		for k := 0; k < 56; k++ {
			b = append(b, c07Def{Name: fmt.Sprintf("Nd%d", k), Kind: "type",
				Text: fmt.Sprintf("type Nd%d = {Next: Lf%d; Alt: Lf%d}\nand Lf%d = {V%d: int}\n", k, k, k, k, k)})
		}
		b = append(b, c07Def{Name: "fnlong", Kind: "let", Refs: []string{"Nd55"}, Text: "let fnlong (n:Nd55) =\n  n.Next.V55\n"})
		jobs = append(jobs, job{b, nil, c07Histories(rng, b, nil, 3)})
	}
	if c.Replay != "" {
		b, hs := c07LoadReplay(c.Replay)
		jobs = []job{{b, nil, hs}}
	}
	Parallel(len(jobs), func(ji int) {
		j := jobs[ji]
		s := pool.Get()
		defer pool.Put(s)
		or := c.Oracle()
		canon := &c07History{Kind: "canonical", Files: []c07File{{Name: "all.fo", Defs: j.base}}}
		co := c07Run(s, canon)
		if !co.ok {
			// `let fa p = p.X` with nothing typing p is accepted today (and emitted with a placeholder type);
			// a tree that rejects it is not wrong about C07: go on without those definitions
			strip := func(ds []c07Def) []c07Def {
				var out []c07Def
				for _, d := range ds {
					if !strings.HasPrefix(d.Name, "fa") {
						out = append(out, d)
					}
				}
				return out
			}
			if nb := strip(j.base); len(nb) < len(j.base) {
				j.base = nb
				for _, h := range j.hs {
					for fi := range h.Files {
						h.Files[fi].Defs = strip(h.Files[fi].Defs)
					}
				}
				canon = &c07History{Kind: "canonical", Files: []c07File{{Name: "all.fo", Defs: j.base}}}
				co = c07Run(s, canon)
				c.Count("untyped_field_access_rejected_base_rerun_without")
			}
		}
		if !co.ok {
			c.Violate("canon", "the canonical history of a generated base is rejected: "+co.err, map[string]any{"base": j.base, "histories": []*c07History{canon}}, false)
			return
		}
		for _, h := range append([]*c07History{canon}, j.hs...) {
			o := c07Run(s, h)
			var srcs []string
			usesTemps := false
			for _, f := range h.Files {
				srcs = append(srcs, f.Name+"\x00"+f.src())
				for _, d := range f.Defs {
					if d.PTemps+d.ETemps > 0 {
						usesTemps = true
					}
				}
			}
			c.Eval(strings.Join(srcs, "\x01"), h.Kind != "canonical" && usesTemps)
			c.Count("history=" + h.Kind)
			c.Count(fmt.Sprintf("files=%d", len(h.Files)))
			rep := map[string]any{"base": j.base, "histories": []*c07History{h}, "fc_error": o.err}
			// model: accept / reject
			c.Compared(1)
			mAccept, mFiles, mTemps := c07Model(or, h)
			if mAccept != h.predictAccept() {
				panic("harness-side and Coq-side predictions of accept/reject differ")
			}
			if mAccept != o.ok {
				c.Disagree()
				if o.ok {
					c.Violate("accept", "a history with a reference to a definition not yet declared is accepted (model Hist.v predicts reject)", rep, true)
				} else {
					c.Violate("reject", "a dependency-respecting history of accepted definitions is rejected: "+o.err, rep, false)
				}
				continue
			}
			if !o.ok {
				continue
			}
			// files written: gen_<base>.go per .fo argument, nothing for .foi
			want := map[string]bool{}
			for _, fi := range mFiles {
				want["gen_"+strings.TrimSuffix(h.Files[fi].Name, ".fo")+".go"] = true
			}
			for k := range o.files {
				if !want[k] {
					c.Violate("files", "unexpected output file "+k, rep, false)
				}
				delete(want, k)
			}
			for k := range want {
				c.Violate("files", "missing output file "+k, rep, false)
			}
			// the property: every definition's Go text equals the canonical one up to _vN numbering
			for _, f := range h.Files {
				for _, d := range f.Defs {
					ref, inCanon := co.decls[d.Name]
					if !inCanon {
						continue // inserted unrelated definition
					}
					got := o.decls[d.Name]
					if len(got) != len(ref) {
						c.Violate("decl", fmt.Sprintf("definition %s produces %d Go declarations here, %d in the canonical history", d.Name, len(got), len(ref)), rep, false)
						continue
					}
					for k, t := range ref {
						if got[k] != t {
							c.Violate("decl", fmt.Sprintf("the Go emitted for %s (%s) depends on the history (%s)", d.Name, k, h.Kind),
								map[string]any{"base": j.base, "histories": []*c07History{h}, "canonical_text": t, "this_text": got[k]}, false)
						}
					}
				}
			}
			// model: exact temporary numbers
			for name, ns := range mTemps {
				c.Compared(1)
				if fmt.Sprint(ns) != fmt.Sprint(o.etemp[name]) && !(len(ns) == 0 && len(o.etemp[name]) == 0) {
					c.Disagree()
					c.Violate("corr", fmt.Sprintf("correspondence Hist.v temporaries vs fc broke: %s uses _v%v, model predicts _v%v", name, o.etemp[name], ns),
						map[string]any{"broken": "correspondence C07 temporary numbering (Driver/Hist.v) vs fc", "base": j.base, "histories": []*c07History{h}}, true)
					break
				}
			}
		}
		if ji%17 == 0 {
			c.Sample(map[string]any{"base_source": canon.Files[0].src(), "histories": len(j.hs), "kinds_of_first": j.hs[0].Kind})
		}
	})
	c.Lap("histories")
	// real processes: fc's own handling of the argument list (main.fo). The multi-file histories of the
	// first bases (a .foi between two .fo files included) go through the fc binary: accept/reject as the
	// model says, gen_X.go next to each X.fo and nothing for a .foi, every definition's text as in the
	// canonical single-file run, and the same bytes as the hooked in-process fc.
	if c.Replay == "" {
		type pj struct {
			ji int
			h  *c07History
		}
		var pjs []pj
		for ji := 0; ji < len(jobs) && ji < c.Pick(12, 200); ji++ {
			n := 0
			for _, h := range jobs[ji].hs {
				// (single-file histories with an anchored insertion too: a fresh process per history, no state of
				// the long-lived in-process server can mask a dependence on what was translated before)
				if h.Kind == "insert-adjacent" || len(h.Files) > 1 && (h.Kind == "foi-between" || n < 2) {
					pjs = append(pjs, pj{ji, h})
					n++
				}
			}
		}
		Parallel(len(pjs), func(k int) {
			h := pjs[k].h
			base := jobs[pjs[k].ji].base
			dir := fmt.Sprintf("%s/proc%d", c.Work, k)
			defer os.RemoveAll(dir)
			canon := &c07History{Kind: "canonical", Files: []c07File{{Name: "all.fo", Defs: base}}}
			co := c07RunProc(c, dir+"c", canon)
			os.RemoveAll(dir + "c")
			o := c07RunProc(c, dir, h)
			c.Count("real_process_runs")
			c.Count("real_process_history=" + h.Kind)
			rep := map[string]any{"base": base, "histories": []*c07History{h}, "fc_output": trunc(o.err, 1500), "how": "fc mini.foi <files of the history in order> as a process"}
			if !co.ok {
				return // reported by the in-process run of the canonical history
			}
			if o.ok != h.predictAccept() {
				if o.ok {
					c.Violate("accept", "the fc process accepts a history with a reference to a definition not yet declared", rep, false)
				} else {
					c.Violate("reject", "the fc process rejects a dependency-respecting argument list ("+h.Kind+")", rep, false)
				}
				return
			}
			if !o.ok {
				return
			}
			for _, f := range h.Files {
				g := "gen_" + strings.TrimSuffix(f.Name, ".fo") + ".go"
				_, has := o.files[g]
				if strings.HasSuffix(f.Name, ".fo") && !has {
					c.Violate("files", "missing output file "+g+" (fc process)", rep, false)
				}
				if !strings.HasSuffix(f.Name, ".fo") && Exists(dir+"/gen_"+strings.TrimSuffix(f.Name, ".foi")+".go") {
					c.Violate("files", "a .foi argument produced an output file", rep, false)
				}
				for _, d := range f.Defs {
					ref, inCanon := co.decls[d.Name]
					if !inCanon {
						continue
					}
					for key, t := range ref {
						if o.decls[d.Name][key] != t {
							c.Violate("decl", fmt.Sprintf("the Go emitted for %s (%s) by the fc process depends on the history (%s)", d.Name, key, h.Kind),
								map[string]any{"base": base, "histories": []*c07History{h}, "canonical_text": t, "this_text": o.decls[d.Name][key]}, false)
						}
					}
				}
			}
			s := pool.Get()
			so := c07Run(s, h)
			pool.Put(s)
			for g, t := range so.files {
				if o.files[g] != t {
					c.Violate("hook", "the fc process and the hooked in-process fc differ on a multi-file invocation", map[string]any{"broken": "fcsrv hook vs fc process", "histories": []*c07History{h}}, true)
					break
				}
			}
		})
		c.Lap("processes")
	}
}

func c07LoadReplay(path string) ([]c07Def, []*c07History) {
	var doc struct {
		Replay struct {
			Base      []c07Def      `json:"base"`
			Histories []*c07History `json:"histories"`
		} `json:"replay"`
	}
	b, err := os.ReadFile(path)
	if err != nil {
		panic(err)
	}
	if err := jsonUnmarshal(b, &doc); err != nil || len(doc.Replay.Histories) == 0 {
		panic("replay file has no history")
	}
	return doc.Replay.Base, doc.Replay.Histories
}

func init() { Register("C07", runC07) }
