package main

// C16: fc always terminates with either complete output or a diagnostic.
// Search engine: mutants of valid programs (truncation, token deletion/duplication/swap/replacement,
// indentation damage, unterminated comments/strings/holes, random bytes, hand-kept nasty inputs) and
// output-path faults, against (a) the hooked in-process fc for volume (a hang or a Go fatal error
// kills the server process and is noticed), (b) the real fc binary under timeout + ulimit -v for exit
// status, diagnostic and files. The scanner model (Front/Term.v) is compared with the real scanner.

import (
	"fmt"
	"os"
	"path/filepath"
	"sort"
	"strings"
	"sync"
	"time"
)

var c16Builtin = []string{
	`package main

type Shape =
  | Circle of int
  | Rect of int*int
  | Dot

type Pt = {X: int; Y: int}

let area (s:Shape) =
  match s with
  | Circle r -> r * r * 3
  | Rect p ->
    let (w, h) = p
    w * h
  | Dot -> 0

let inc (x:int) = x + 1

let twice f x = f (f x) // comment at the end of a line

/* block
   comment */
let pts () =
  [{X=1; Y=2}; {X=3; Y=4}]

let show (s:string) (n:int) =
  if n > 10 then
    $"big {s}"
  elif n > 5 then
    "mid"
  else
    ` + "`raw \"q\"\nline`" + `

let main () =
  let xs = [1; 2; 3] |> slice.Map inc
  xs |> slice.Map (fun x -> x * 2) |> slice.Length |> frt.Printf1 "%d\n"
  frt.Println (show "a" (area (Rect (2, 3))))
`,
	`package main

let f (a:int) (b:int) =
  let c = a + b * 2
  let g = fun x -> x + c
  if c > 3 && a < 2 || not (b = 1) then
    g 1
  else
    g 2

let rec (n:int) : int =
  if n = 0 then
    0
  else
    rec (n - 1)

let pair x y = (x, y)

let main () =
  let (p, q) = pair 1 "s"
  frt.Printf1 "%d\n" (f p 2)
  frt.Println q
`,
}

// inputs that once broke the compiler or are structurally nasty; always run first
var c16Corpus = []string{
	"package main\n\nlet f x = x x\n",
	"package main\n\nlet g x = g [x]\n",
	"package main\n\nlet f () = 1\n// trailing comment without newline",
	"package main\n\nlet f () = 1\n/* unterminated",
	"package main\n\nlet f () = \"abc",
	"package main\n\nlet f () = `abc",
	"package main\n\nlet f () = $\"a{b",
	"package main\n\nlet f () = $\"a{",
	"package main\n\nlet f () = \"abc\\",
	"package main\n\nlet f () = 12",
	"package main\n\nlet f () = $",
	"package main\n\nlet f () = #\n",
	"package main\n\ntype R = {Next: R}\n\nlet f (r:R) = r.Next\n",
	"package main\n\ntype U =\n  | A of U\n  | B\n\nlet f (u:U) =\n  match u with\n  | A x -> 1\n  | B -> 0\n",
	"package main\n\nlet f x y = f y x\n",
	// indirect cycles through two distinct type variables (x ~ [y], y ~ [x]) and longer ones
	"package main\n\nlet g x y =\n  let a = [x]\n  let b = [y]\n  let c = [a; y]\n  let d = [b; x]\n  c\n",
	"package main\n\nlet g x y z =\n  let c = [[x]; y]\n  let d = [[y]; z]\n  let e = [[z]; x]\n  c\n",
	"package main\n\nlet g x y =\n  let p = (x, [y])\n  let q = ([p], x)\n  let r = [q; y]\n  r\n",
	"package main\n\nlet h f g =\n  let a = f g\n  let b = g f\n  a\n",
	// relations that regenerate themselves in updateResolver's fixpoint loop
	"package main\n\nlet loop x = (x = [x], x = [[x]])\n",
	"package main\n\nlet loop2 x y = (x = [y], y = [[x]], x = y)\n",
	// ... and double in number every round
	"package main\n\nlet loop x = (x = (x, x), x = ((x, x), (x, x)))\n",
	"package main\n\nlet loop x y = (x = (y, y), y = ((x, x), (x, y)), x = y)\n",
	"package main\n\nlet loop3 f = (f = (fun a -> f), f = (fun a -> (fun b -> f)))\n",
	"package main\n\nlet f x = (x, f)\n",
	"package main\n\nlet f (x:int) =\n  match x with\n",
	"package main\n\nlet f (x:int) =\n  if x then\n",
	"package main\n\nlet f =\n",
	"package main\n\nlet\n",
	"package main\n\ntype\n",
	"package main\n\npackage_info x =\n  let A: int->\n",
	"",
	"\n",
	"package",
	"package main\n\nlet f () = " + strings.Repeat("(", 2000) + "1" + strings.Repeat(")", 2000) + "\n",
	"package main\n\nlet f (x:int) = " + strings.Repeat("x + ", 3000) + "x\n",
	"package main\n\nlet f (x:int) =\n" + strings.Repeat("  let y = x\n", 300) + "  x\n",
}

var c16Words = []string{"let", "type", "match", "with", "if", "then", "else", "elif", "fun", "->", "|", "|>", "(", ")", "{", "}", "[", "]",
	"=", "<", ">", "<>", ";", ":", ",", ".", "*", "of", "not", "package_info", "import", "_", "\"", "`", "$\"", "/*", "//", "\\", "0", "x", "\n", "\t", "  "}

func c16Split(s string) []string {
	// split keeping whitespace runs as separate pieces
	var out []string
	cur := ""
	ws := false
	for i := 0; i < len(s); i++ {
		isWs := s[i] == ' ' || s[i] == '\n' || s[i] == '\t'
		if i > 0 && isWs != ws {
			out = append(out, cur)
			cur = ""
		}
		ws = isWs
		cur += string(s[i])
	}
	if cur != "" {
		out = append(out, cur)
	}
	return out
}

func c16Mutate(rng *Rng, seed string) (string, string) {
	if seed == "" {
		// (a first mutation may have truncated everything away: nothing to split)
		return Choose(rng, c16Words), "insert-word"
	}
	switch k := rng.Intn(12); k {
	case 0, 1:
		return seed[:rng.Intn(len(seed)+1)], "truncate"
	case 2:
		p := c16Split(seed)
		i := rng.Intn(len(p))
		return strings.Join(append(append([]string{}, p[:i]...), p[i+1:]...), ""), "delete-token"
	case 3:
		p := c16Split(seed)
		i := rng.Intn(len(p))
		return strings.Join(p[:i], "") + p[i] + " " + p[i] + strings.Join(p[i+1:], ""), "duplicate-token"
	case 4:
		p := c16Split(seed)
		if len(p) < 4 {
			return seed, "swap-token"
		}
		i := rng.Intn(len(p) - 2)
		p[i], p[i+2] = p[i+2], p[i]
		return strings.Join(p, ""), "swap-token"
	case 5:
		lines := strings.Split(seed, "\n")
		i := rng.Intn(len(lines))
		switch rng.Intn(3) {
		case 0:
			lines[i] = strings.Repeat(" ", 1+rng.Intn(4)) + lines[i]
		case 1:
			lines[i] = strings.TrimLeft(lines[i], " ")
		default:
			lines[i] = "\t" + lines[i]
		}
		return strings.Join(lines, "\n"), "indent"
	case 6:
		i := rng.Intn(len(seed) + 1)
		return seed[:i] + Choose(rng, []string{"\"abc", "`abc", "/* c", "$\"{x", "$\"a{", "// c", "'"}) + seed[i:], "unterminated"
	case 7:
		p := c16Split(seed)
		i := rng.Intn(len(p))
		p[i] = Choose(rng, c16Words)
		return strings.Join(p, ""), "replace-token"
	case 8:
		i := rng.Intn(len(seed) + 1)
		return seed[:i] + string([]byte{byte(rng.Intn(256))}) + seed[i:], "random-byte"
	case 9:
		i := rng.Intn(len(seed) + 1)
		return seed[:i] + Choose(rng, c16Words) + seed[i:], "insert-word"
	case 10:
		// truncate and end inside a comment / string
		s := seed[:rng.Intn(len(seed)+1)]
		return s + Choose(rng, []string{"// x", "/* x", "\"x", "`x", "$\"x{y", "\\"}), "truncate+open"
	default:
		lines := strings.Split(seed, "\n")
		i := rng.Intn(len(lines))
		j := rng.Intn(len(lines))
		lines[i], lines[j] = lines[j], lines[i]
		return strings.Join(lines, "\n"), "swap-lines"
	}
}

type c16Case struct {
	Src  string `json:"src"`
	Kind string `json:"kind"`
	Foi  bool   `json:"needs_pkg_all"`
}

func c16BadOutput(s string) string {
	for _, m := range []string{"fatal error:", "goroutine stack exceeds", "runtime: out of memory", "SIGSEGV", "unexpected signal"} {
		if strings.Contains(s, m) {
			return m
		}
	}
	return ""
}

func runC16(c *Ctx) {
	rng := NewRng(c.Seed)
	c.Res.Rule = "mutants of valid programs (2 built-in programs + samples/*.fo of the tree) by 12 mutation operators, a hand-kept corpus of nasty inputs, " +
		"and output-path faults; in-process hooked fc for all, real fc process (timeout 10 s, ulimit -v 4 GB) for a sample; " +
		"non-trivial = the mutant differs from its seed; distinct by content"
	var seeds []c16Case
	for _, b := range c16Builtin {
		seeds = append(seeds, c16Case{Src: b})
	}
	files, _ := filepath.Glob(filepath.Join(c.Tree, "samples", "*.fo"))
	sort.Strings(files)
	for _, f := range files {
		b, _ := os.ReadFile(f)
		seeds = append(seeds, c16Case{Src: string(b), Foi: true})
	}
	pkgAll, _ := os.ReadFile(c.PkgAllFoi())

	var cases []c16Case
	for _, s := range c16Corpus {
		cases = append(cases, c16Case{Src: s, Kind: "corpus"})
	}
	for _, s := range seeds {
		cases = append(cases, c16Case{Src: s.Src, Kind: "seed", Foi: s.Foi})
	}
	// truncation at every offset of the first built-in program (thorough) / every 7th (quick)
	step := c.Pick(7, 1)
	for k := 0; k <= len(c16Builtin[0]); k += step {
		cases = append(cases, c16Case{Src: c16Builtin[0][:k], Kind: "truncate-systematic"})
	}
	for i := 0; i < c.Pick(2500, 60000); i++ {
		s := Choose(rng, seeds)
		m, kind := c16Mutate(rng, s.Src)
		if rng.Chance(1, 5) {
			m, _ = c16Mutate(rng, m)
			kind += "+2"
		}
		cases = append(cases, c16Case{Src: m, Kind: kind, Foi: s.Foi})
	}
	if c.Replay != "" {
		cases = c16LoadReplay(c.Replay)
	}

	// (a) everything through the hooked in-process fc
	type obs struct {
		ok, died bool
		err      string
		out      string
	}
	res := make([]obs, len(cases))
	pool := c.NewFcPool(8)
	Parallel(len(cases), func(i int) {
		s := pool.Get()
		defer pool.Put(s)
		var r srvResp
		if cases[i].Foi {
			r = s.Transpile(SrcFile{"pkg_all.foi", string(pkgAll)}, SrcFile{"m.fo", cases[i].Src})
		} else {
			r = s.Transpile(SrcFile{"mini.foi", MiniFoiText}, SrcFile{"m.fo", cases[i].Src})
		}
		res[i] = obs{ok: r.Ok, died: r.Died, err: r.Err, out: r.Outs["gen_m.go"]}
	})
	pool.Close()
	c.Lap("server")
	for i, cs := range cases {
		c.Eval(cs.Src, cs.Kind != "seed")
		c.Count("kind=" + strings.SplitN(cs.Kind, "+", 2)[0])
		switch {
		case res[i].died:
			c.Count("outcome=died")
		case res[i].ok:
			c.Count("outcome=accepted")
		default:
			c.Count("outcome=diagnostic")
		}
		if i%900 == 5 {
			c.Sample(map[string]any{"kind": cs.Kind, "src_prefix": trunc(cs.Src, 300), "accepted": res[i].ok, "diagnostic": res[i].err})
		}
	}
	// candidates that killed the server are confirmed on the real binary below (always included)
	var procIdx []int
	for i := range cases {
		if res[i].died {
			procIdx = append(procIdx, i)
		}
	}
	nDied := len(procIdx)
	for _, i := range rng.Perm(len(cases)) {
		if len(procIdx) >= nDied+c.Pick(350, 6000) {
			break
		}
		if !res[i].died {
			procIdx = append(procIdx, i)
		}
	}
	if nDied > 40 {
		procIdx = procIdx[:40+len(procIdx)-nDied] // keep the run bounded; the first 40 are reported
	}
	// (b) real processes
	foiPath := filepath.Join(c.Work, "pkg_all.foi")
	MustWrite(foiPath, string(pkgAll))
	mini := c.MiniFoi(c.Work)
	Parallel(len(procIdx), func(k int) {
		i := procIdx[k]
		cs := cases[i]
		dir := filepath.Join(c.Work, fmt.Sprintf("q%d", k))
		os.MkdirAll(dir, 0o755)
		defer os.RemoveAll(dir)
		MustWrite(filepath.Join(dir, "m.fo"), cs.Src)
		marker := "// stale output of an earlier run\n"
		pre := k%3 == 0
		if pre {
			MustWrite(filepath.Join(dir, "gen_m.go"), marker)
		}
		foi := mini
		if cs.Foi {
			foi = foiPath
		}
		r := Run(dir, 10*time.Second, 4096, []string{"GOMAXPROCS=2"}, filepath.Join(c.Bin, "fc"), foi, "m.fo")
		if r.TimedOut {
			// a loaded machine can starve a process for seconds: confirm alone, with a long limit
			c16Confirm.Lock()
			os.Remove(filepath.Join(dir, "gen_m.go"))
			if pre {
				MustWrite(filepath.Join(dir, "gen_m.go"), marker)
			}
			r = Run(dir, 120*time.Second, 4096, []string{"GOMAXPROCS=2"}, filepath.Join(c.Bin, "fc"), foi, "m.fo")
			c16Confirm.Unlock()
			c.Count("timeouts_rechecked")
		}
		c.Count("real_process_runs")
		out := r.Stdout + r.Stderr
		gen, gerr := os.ReadFile(filepath.Join(dir, "gen_m.go"))
		rep := map[string]any{"case": cs, "fc_exit": r.Exit, "fc_output": trunc(out, 2000), "how": "fc <foi> m.fo under timeout 10s (60s on retry), ulimit -v 4GB"}
		switch {
		case r.TimedOut:
			c.Violate("hang", "fc does not terminate (killed after 10 s, then alone after 120 s) on a "+cs.Kind+" input", rep, false)
		case c16BadOutput(out) != "":
			c.Violate("fatal", "fc dies of a Go runtime fatal error ("+c16BadOutput(out)+") on a "+cs.Kind+" input", rep, false)
		case r.Exit == 0:
			if gerr != nil || len(gen) == 0 || (pre && string(gen) == marker) {
				c.Violate("exit0", "fc exits 0 without writing gen_m.go", rep, false)
			} else if res[i].ok && string(gen) != res[i].out {
				c.Violate("hook", "fc process output differs from the hooked in-process output", map[string]any{"broken": "fcsrv hook vs fc process", "case": cs}, true)
			} else if !res[i].ok && !res[i].died {
				c.Violate("hook", "fc process accepts what the hooked in-process fc rejects", map[string]any{"broken": "fcsrv hook vs fc process", "case": cs, "server_error": res[i].err}, true)
			}
		default:
			if strings.TrimSpace(strings.Replace(out, "transpile: "+foi, "", 1)) == "transpile: m.fo" || strings.TrimSpace(out) == "" {
				c.Violate("nodiag", "fc exits non-zero without a diagnostic", rep, false)
			}
			if pre && (gerr != nil || string(gen) != marker) {
				c.Violate("wrote", "fc failed but touched the output file of the offending input", rep, false)
			}
			if !pre && gerr == nil {
				c.Violate("wrote", "fc failed but wrote an output file for the offending input", rep, false)
			}
			if res[i].ok {
				c.Violate("hook", "fc process rejects what the hooked in-process fc accepts", map[string]any{"broken": "fcsrv hook vs fc process", "case": cs, "fc_output": trunc(out, 1000)}, true)
			}
		}
	})
	c.Lap("processes")
	c16Faults(c)
	c.Lap("faults")
	if c.Replay == "" {
		c16Scale(c)
		c.Lap("scale")
	}
	c16Driver(c, rng.Fork())
	c.Lap("driver-model")
	c16Scanner(c, rng, cases)
	c.Lap("scanner-model")
}

var c16Confirm sync.Mutex

func trunc(s string, n int) string {
	if len(s) > n {
		return s[:n] + "…"
	}
	return s
}

// output-path and argument faults, multi-file discipline
func c16Faults(c *Ctx) {
	good := "package main\n\nlet f (x:int) = x + 1\n"
	good2 := "package main\n\nlet g (x:int) = x + 2\n"
	bad := "package main\n\nlet f (x:int) = x +\n"
	fc := filepath.Join(c.Bin, "fc")
	type tc struct {
		name  string
		setup func(dir string) []string
		check func(dir string, r RunResult) string
	}
	exists := func(p string) bool { st, err := os.Stat(p); return err == nil && !st.IsDir() && st.Size() > 0 }
	tests := []tc{
		{"dest-is-directory", func(d string) []string {
			MustWrite(filepath.Join(d, "x.fo"), good)
			os.MkdirAll(filepath.Join(d, "gen_x.go"), 0o755)
			return []string{"x.fo"}
		}, func(d string, r RunResult) string {
			if r.Exit == 0 {
				return "exit 0 although gen_x.go could not be written"
			}
			return ""
		}},
		{"missing-input", func(d string) []string { return []string{"nothere.fo"} }, func(d string, r RunResult) string {
			if r.Exit == 0 {
				return "exit 0 for a missing input file"
			}
			if !strings.Contains(r.Stdout+r.Stderr, "nothere.fo") {
				return "no diagnostic naming the missing file"
			}
			return ""
		}},
		{"input-is-directory", func(d string) []string { os.MkdirAll(filepath.Join(d, "dir.fo"), 0o755); return []string{"dir.fo"} }, func(d string, r RunResult) string {
			if r.Exit == 0 {
				return "exit 0 for a directory given as input"
			}
			return ""
		}},
		{"good-then-bad", func(d string) []string {
			MustWrite(filepath.Join(d, "a.fo"), good)
			MustWrite(filepath.Join(d, "b.fo"), bad)
			return []string{"a.fo", "b.fo"}
		}, func(d string, r RunResult) string {
			if r.Exit == 0 {
				return "exit 0 although b.fo is rejected"
			}
			if !exists(filepath.Join(d, "gen_a.go")) {
				return "earlier output gen_a.go is not intact"
			}
			if Exists(filepath.Join(d, "gen_b.go")) {
				return "an output file was written for the offending b.fo"
			}
			if !strings.Contains(r.Stdout, "b.fo:") {
				return "diagnostic does not name b.fo"
			}
			return ""
		}},
		{"bad-then-good", func(d string) []string {
			MustWrite(filepath.Join(d, "a.fo"), bad)
			MustWrite(filepath.Join(d, "b.fo"), good2)
			return []string{"a.fo", "b.fo"}
		}, func(d string, r RunResult) string {
			if r.Exit == 0 {
				return "exit 0 although a.fo is rejected"
			}
			if Exists(filepath.Join(d, "gen_a.go")) {
				return "an output file was written for the offending a.fo"
			}
			return ""
		}},
		{"two-good", func(d string) []string {
			MustWrite(filepath.Join(d, "a.fo"), good)
			MustWrite(filepath.Join(d, "b.fo"), good2)
			return []string{"a.fo", "b.fo"}
		}, func(d string, r RunResult) string {
			if r.Exit != 0 || !exists(filepath.Join(d, "gen_a.go")) || !exists(filepath.Join(d, "gen_b.go")) {
				return "two valid files: exit " + fmt.Sprint(r.Exit) + " or an output missing"
			}
			return ""
		}},
		{"foi-writes-nothing", func(d string) []string {
			MustWrite(filepath.Join(d, "p.foi"), MiniFoiText)
			MustWrite(filepath.Join(d, "a.fo"), good)
			return []string{"p.foi", "a.fo"}
		}, func(d string, r RunResult) string {
			if r.Exit != 0 || !exists(filepath.Join(d, "gen_a.go")) {
				return "valid .foi + .fo: failed"
			}
			if Exists(filepath.Join(d, "gen_p.go")) || Exists(filepath.Join(d, "gen_p.foi.go")) {
				return "a .foi argument produced an output file"
			}
			return ""
		}},
		{"dest-dir-missing-second", func(d string) []string {
			MustWrite(filepath.Join(d, "a.fo"), good)
			MustWrite(filepath.Join(d, "b.fo"), good2)
			os.MkdirAll(filepath.Join(d, "gen_b.go"), 0o755)
			return []string{"a.fo", "b.fo"}
		}, func(d string, r RunResult) string {
			if r.Exit == 0 {
				return "exit 0 although gen_b.go could not be written"
			}
			if !exists(filepath.Join(d, "gen_a.go")) {
				return "earlier output gen_a.go is not intact"
			}
			return ""
		}},
		{"dest-opens-but-write-fails", func(d string) []string {
			// the destination can be opened but every write fails (a full disk): gen_x.go -> /dev/full
			MustWrite(filepath.Join(d, "x.fo"), good)
			os.Symlink("/dev/full", filepath.Join(d, "gen_x.go"))
			return []string{"x.fo"}
		}, func(d string, r RunResult) string {
			if _, err := os.Stat("/dev/full"); err != nil {
				return ""
			}
			if r.Exit == 0 {
				return "exit 0 although writing gen_x.go failed (ENOSPC)"
			}
			return ""
		}},
		{"no-arguments", func(d string) []string { return nil }, func(d string, r RunResult) string {
			if r.TimedOut {
				return "hang without arguments"
			}
			return ""
		}},
	}
	for i, t := range tests {
		dir := filepath.Join(c.Work, fmt.Sprintf("fault%d", i))
		os.MkdirAll(dir, 0o755)
		args := t.setup(dir)
		r := Run(dir, 60*time.Second, 4096, []string{"GOMAXPROCS=2"}, fc, args...)
		c.Eval("fault:"+t.name, true)
		c.Count("fault=" + t.name)
		msg := ""
		if r.TimedOut {
			msg = "fc hangs"
		} else if b := c16BadOutput(r.Stdout + r.Stderr); b != "" {
			msg = "Go runtime fatal error: " + b
		} else {
			msg = t.check(dir, r)
		}
		if msg != "" {
			c.Violate("fault-"+t.name, "output-path/argument fault '"+t.name+"': "+msg,
				map[string]any{"scenario": t.name, "args": args, "fc_exit": r.Exit, "fc_output": trunc(r.Stdout+r.Stderr, 2000)}, false)
		}
		os.RemoveAll(dir)
	}
}

func c16LoadReplay(path string) []c16Case {
	var doc struct {
		Replay struct {
			Case   *c16Case `json:"case"`
			BufHex *string  `json:"buf_hex"` // scanner-correspondence replays (c16_scan.go)
			Scen   *struct {
				Args []string `json:"args"`
			} `json:"scenario"` // file-driver replays (c16_driver.go)
		} `json:"replay"`
	}
	b, err := os.ReadFile(path)
	if err != nil {
		panic(err)
	}
	if err := jsonUnmarshal(b, &doc); err == nil && doc.Replay.Case == nil && doc.Replay.Scen != nil && len(doc.Replay.Scen.Args) > 0 {
		// re-run by c16Driver; the compiler itself only sees a harmless file
		return []c16Case{{Src: "package main\n\nlet f () = 1\n", Kind: "driver-replay"}}
	}
	if err := jsonUnmarshal(b, &doc); err != nil || (doc.Replay.Case == nil && doc.Replay.BufHex == nil) {
		panic("replay file has no case")
	}
	if doc.Replay.Case == nil {
		// the buffer is also given to the whole compiler; c16Scanner re-runs the correspondence on it
		return []c16Case{{Src: c16ReplayBuf(path), Kind: "scanner-replay"}}
	}
	return []c16Case{*doc.Replay.Case}
}

func init() { Register("C16", runC16) }
