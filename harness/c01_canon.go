package main

// K1 of C01: the Go emitted by fc, canonicalised to the MiniGo s-expression grammar of
// coq/Core/FORMAT_GO.md (types erased, redundant parentheses dropped), to be compared textually with
// the Coq model's `C01 (compile <prog>)`. Ported from oracle/gocanon (written by the model's author).

import (
	"fmt"
	"go/ast"
	"go/parser"
	"go/token"
	"sort"
	"strconv"
	"strings"
)

var gc_pkgs = map[string]bool{"frt": true, "slice": true, "strings": true, "dict": true, "buf": true, "sys": true}

func gc_quote(s string) string {
	var b strings.Builder
	b.WriteByte('"')
	for i := 0; i < len(s); i++ {
		c := s[i]
		switch {
		case c == '"':
			b.WriteString("\\\"")
		case c == '\\':
			b.WriteString("\\\\")
		case c == '\n':
			b.WriteString("\\n")
		case c == '\t':
			b.WriteString("\\t")
		case c < 32 || c >= 127:
			fmt.Fprintf(&b, "\\x%02x", c)
		default:
			b.WriteByte(c)
		}
	}
	b.WriteByte('"')
	return b.String()
}

func gc_expr(e ast.Expr) string {
	switch x := e.(type) {
	case *ast.ParenExpr:
		return gc_expr(x.X)
	case *ast.BasicLit:
		switch x.Kind {
		case token.INT:
			return "(int " + x.Value + ")"
		case token.STRING:
			s, err := strconv.Unquote(x.Value)
			if err != nil {
				panic(err)
			}
			return "(str " + gc_quote(s) + ")"
		}
	case *ast.Ident:
		if x.Name == "true" || x.Name == "false" {
			return "(bool " + x.Name + ")"
		}
		return "(var " + x.Name + ")"
	case *ast.SelectorExpr:
		if id, ok := x.X.(*ast.Ident); ok && gc_pkgs[id.Name] {
			return "(lib " + id.Name + "." + x.Sel.Name + ")"
		}
		return "(sel " + gc_expr(x.X) + " " + x.Sel.Name + ")"
	case *ast.BinaryExpr:
		return "(bin " + x.Op.String() + " " + gc_expr(x.X) + " " + gc_expr(x.Y) + ")"
	case *ast.FuncLit:
		return "(func " + gc_params(x.Type) + gc_stmts(x.Body.List) + ")"
	case *ast.CallExpr:
		s := "(call " + gc_expr(x.Fun)
		for _, a := range x.Args {
			s += " " + gc_expr(a)
		}
		return s + ")"
	case *ast.IndexExpr: // explicit type argument: erased
		return gc_expr(x.X)
	case *ast.CompositeLit:
		if _, ok := x.Type.(*ast.ArrayType); ok {
			s := "(slice"
			for _, a := range x.Elts {
				s += " " + gc_expr(a)
			}
			return s + ")"
		}
		tn := ""
		switch t := x.Type.(type) {
		case *ast.Ident:
			tn = t.Name
		case *ast.IndexExpr:
			tn = t.X.(*ast.Ident).Name
		}
		s := "(struct " + tn
		for _, a := range x.Elts {
			if kv, ok := a.(*ast.KeyValueExpr); ok {
				s += " (" + kv.Key.(*ast.Ident).Name + " " + gc_expr(kv.Value) + ")"
			} else {
				s += " (Value " + gc_expr(a) + ")"
			}
		}
		return s + ")"
	}
	panic(fmt.Sprintf("expression %T", e))
}

func gc_params(t *ast.FuncType) string {
	var ns []string
	if t.Params != nil {
		for _, f := range t.Params.List {
			for _, n := range f.Names {
				ns = append(ns, n.Name)
			}
		}
	}
	return "(" + strings.Join(ns, " ") + ")"
}

func gc_stmts(l []ast.Stmt) string {
	s := ""
	for _, st := range l {
		if _, ok := st.(*ast.EmptyStmt); ok {
			continue
		}
		s += " " + gc_stmt(st)
	}
	return s
}

func gc_clauses(body *ast.BlockStmt, lit bool) string {
	cs, def := "", "(default)"
	for _, c := range body.List {
		cc := c.(*ast.CaseClause)
		if cc.List == nil {
			def = "(default" + gc_stmts(cc.Body) + ")"
			continue
		}
		head := ""
		if lit {
			head = gc_expr(cc.List[0])
			head = strings.TrimSuffix(strings.TrimPrefix(head, "(str "), ")")
		} else {
			head = cc.List[0].(*ast.Ident).Name
		}
		cs += "(" + head + gc_stmts(cc.Body) + ")"
		cs += " "
	}
	return "(" + strings.TrimSpace(cs) + ") " + def
}

func gc_stmt(st ast.Stmt) string {
	switch x := st.(type) {
	case *ast.AssignStmt:
		var ns []string
		for _, l := range x.Lhs {
			ns = append(ns, l.(*ast.Ident).Name)
		}
		return "(define (" + strings.Join(ns, " ") + ") " + gc_expr(x.Rhs[0]) + ")"
	case *ast.ExprStmt:
		if c, ok := x.X.(*ast.CallExpr); ok {
			if id, ok := c.Fun.(*ast.Ident); ok && id.Name == "panic" {
				s, _ := strconv.Unquote(c.Args[0].(*ast.BasicLit).Value)
				return "(panic " + gc_quote(s) + ")"
			}
		}
		return "(expr " + gc_expr(x.X) + ")"
	case *ast.ReturnStmt:
		return "(return " + gc_expr(x.Results[0]) + ")"
	case *ast.TypeSwitchStmt:
		bx, e := "_", ""
		switch a := x.Assign.(type) {
		case *ast.AssignStmt:
			bx = a.Lhs[0].(*ast.Ident).Name
			e = gc_expr(a.Rhs[0].(*ast.TypeAssertExpr).X)
		case *ast.ExprStmt:
			e = gc_expr(a.X.(*ast.TypeAssertExpr).X)
		}
		return "(typeswitch " + bx + " " + e + " " + gc_clauses(x.Body, false) + ")"
	case *ast.SwitchStmt:
		bx, e := "_", ""
		if x.Init != nil {
			a := x.Init.(*ast.AssignStmt)
			bx = a.Lhs[0].(*ast.Ident).Name
			e = gc_expr(a.Rhs[0])
		} else {
			e = gc_expr(x.Tag)
		}
		return "(switch " + bx + " " + e + " " + gc_clauses(x.Body, true) + ")"
	}
	panic(fmt.Sprintf("statement %T", st))
}

// gcCanonFile canonicalises an emitted file to "(goprog (ctors …) (funcs …) (main …))".
func gcCanonFile(gosrc string) (string, error) {
	fset := token.NewFileSet()
	f, err := parser.ParseFile(fset, "gen.go", gosrc, 0)
	if err != nil {
		return "", err
	}
	var ctors, funcs []string
	mainBody := ""
	for _, d := range f.Decls {
		switch x := d.(type) {
		case *ast.FuncDecl:
			if x.Recv != nil {
				continue
			}
			s := "(func " + x.Name.Name + " " + gc_params(x.Type) + gc_stmts(x.Body.List) + ")"
			if strings.HasPrefix(x.Name.Name, "New_") {
				ctors = append(ctors, s)
			} else if x.Name.Name == "main" {
				mainBody = gc_stmts(x.Body.List)
			} else {
				funcs = append(funcs, s)
			}
		case *ast.GenDecl:
			if x.Tok == token.VAR {
				for _, sp := range x.Specs {
					vs := sp.(*ast.ValueSpec)
					if strings.HasPrefix(vs.Names[0].Name, "New_") {
						ctors = append(ctors, "(var "+vs.Names[0].Name+" "+gc_expr(vs.Values[0])+")")
					}
				}
			}
		}
	}
	j := func(h string, l []string) string {
		if len(l) == 0 {
			return "(" + h + ")"
		}
		return "(" + h + " " + strings.Join(l, " ") + ")"
	}
	return "(goprog " + j("ctors", ctors) + " " + j("funcs", funcs) + " (main" + mainBody + "))", nil
}

var _ = fmt.Sprint
var _ = strconv.Itoa

// gcNormalise makes the two canonical forms comparable where they legitimately differ:
// constructor declarations are compared as a set (the model lists them in another order), and the
// harness prints the empty slice literal of FORMAT.md as `slice.New<T> ()` (fc cannot parse `[]`),
// which the model lowers as an empty composite literal.
func gcNormalise(s string) string {
	s = strings.ReplaceAll(s, "(call (lib slice.New))", "(slice)")
	i := strings.Index(s, "(ctors")
	if i < 0 {
		return s
	}
	// find the matching parenthesis
	depth, j := 0, i
	inStr := false
	for ; j < len(s); j++ {
		ch := s[j]
		if inStr {
			if ch == '\\' {
				j++
			} else if ch == '"' {
				inStr = false
			}
			continue
		}
		if ch == '"' {
			inStr = true
		} else if ch == '(' {
			depth++
		} else if ch == ')' {
			depth--
			if depth == 0 {
				break
			}
		}
	}
	body := s[i+len("(ctors") : j]
	var items []string
	depth, start := 0, -1
	inStr = false
	for k := 0; k < len(body); k++ {
		ch := body[k]
		if inStr {
			if ch == '\\' {
				k++
			} else if ch == '"' {
				inStr = false
			}
			continue
		}
		if ch == '"' {
			inStr = true
		} else if ch == '(' {
			if depth == 0 {
				start = k
			}
			depth++
		} else if ch == ')' {
			depth--
			if depth == 0 {
				items = append(items, body[start:k+1])
			}
		}
	}
	sort.Strings(items)
	out := "(ctors"
	for _, it := range items {
		out += " " + it
	}
	return s[:i] + out + s[j:]
}
