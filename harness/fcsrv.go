package main

// Client for the hooked fc ("fcsrv": fc built with -tags verif from the scratch tree, serving
// requests in-process). Used for volume; real fc processes are sampled alongside and the two are
// cross-checked, so a divergence of the hook from main.fo shows up as a disagreement.

import (
	"bufio"
	"encoding/hex"
	"encoding/json"
	"fmt"
	"io"
	"os"
	"os/exec"
	"path/filepath"
	"sync"
	"time"
)

type SrcFile struct {
	Name string
	Src  string
}

type FcSrv struct {
	bin  string
	env  []string
	c    *Ctx
	cmd  *exec.Cmd
	in   io.WriteCloser
	out  *bufio.Reader
	mu   sync.Mutex
	dead bool
}

type srvTok struct {
	Type  string `json:"t"`
	Begin int    `json:"b"`
	Len   int    `json:"l"`
	Col   int    `json:"c"`
	Str   string `json:"s_hex"`
	Int   int    `json:"i"`
}

type srvResp struct {
	Ok     bool              `json:"ok"`
	Err    string            `json:"err"`
	ErrAt  string            `json:"err_file"`
	Outs   map[string]string `json:"outs_hex"`
	Toks   []srvTok          `json:"toks"`
	Fmt    string            `json:"fmt_hex"`
	Vars   []string          `json:"vars"`
	VarsH  []string          `json:"vars_hex"` // byte-exact Vars (hex)
	BinOps map[string][]any  `json:"binops"`
	KeyWds map[string]string `json:"keywords"`
	Died   bool              `json:"-"` // the server process died on this request (fatal error / hang)
}

func (c *Ctx) StartFcSrv() *FcSrv { return c.StartFcSrvBin("fcsrv") }

// StartFcSrvBin starts a server from another hooked binary (e.g. fcperm) with extra environment.
func (c *Ctx) StartFcSrvBin(bin string, env ...string) *FcSrv {
	s := &FcSrv{c: c, bin: bin, env: env}
	s.start()
	return s
}

func (s *FcSrv) start() {
	cmd := exec.Command(filepath.Join(s.c.Bin, s.bin))
	cmd.Env = append(append(os.Environ(), "FC_VERIF_SERVER=1", "GOMAXPROCS=2"), s.env...)
	in, _ := cmd.StdinPipe()
	out, _ := cmd.StdoutPipe()
	cmd.Stderr = nil
	if err := cmd.Start(); err != nil {
		panic(err)
	}
	s.cmd, s.in, s.out = cmd, in, bufio.NewReaderSize(out, 1<<22)
	s.dead = false
}

func (s *FcSrv) Close() {
	s.in.Close()
	done := make(chan bool, 1)
	go func() { s.cmd.Wait(); done <- true }()
	select {
	case <-done:
	case <-time.After(2 * time.Second):
		s.cmd.Process.Kill()
	}
}

func (s *FcSrv) call(req map[string]any) srvResp {
	s.mu.Lock()
	defer s.mu.Unlock()
	b, _ := json.Marshal(req)
	type rd struct {
		line string
		err  error
	}
	ch := make(chan rd, 1)
	s.in.Write(append(b, '\n'))
	go func() {
		line, err := s.out.ReadString('\n')
		ch <- rd{line, err}
	}()
	var r rd
	select {
	case r = <-ch:
	case <-time.After(90 * time.Second):
		s.cmd.Process.Kill()
		r = <-ch
		r.err = fmt.Errorf("timeout")
	}
	if r.err != nil {
		s.cmd.Wait()
		s.start()
		return srvResp{Died: true, Err: "server died: " + r.err.Error()}
	}
	var resp srvResp
	if err := json.Unmarshal([]byte(r.line), &resp); err != nil {
		panic("bad server response: " + r.line)
	}
	for k, v := range resp.Outs {
		d, _ := hex.DecodeString(v)
		resp.Outs[k] = string(d)
	}
	return resp
}

func (s *FcSrv) Transpile(files ...SrcFile) srvResp {
	var fs []map[string]string
	for _, f := range files {
		fs = append(fs, map[string]string{"name": f.Name, "src_hex": hex.EncodeToString([]byte(f.Src))})
	}
	return s.call(map[string]any{"op": "transpile", "files": fs})
}

func (s *FcSrv) Tokens(src string) srvResp {
	return s.call(map[string]any{"op": "tokens", "buf_hex": hex.EncodeToString([]byte(src))})
}

func (s *FcSrv) Scan(src string, pos int) srvResp {
	return s.call(map[string]any{"op": "scan", "buf_hex": hex.EncodeToString([]byte(src)), "pos": pos})
}

func (s *FcSrv) SInterP(src string) srvResp {
	r := s.call(map[string]any{"op": "sinterp", "buf_hex": hex.EncodeToString([]byte(src))})
	d, _ := hex.DecodeString(r.Fmt)
	r.Fmt = string(d)
	return r
}

// Reinterp: reinterpretEscape(src); the result is in Fmt.
func (s *FcSrv) Reinterp(src string) srvResp {
	r := s.call(map[string]any{"op": "reinterp", "buf_hex": hex.EncodeToString([]byte(src))})
	d, _ := hex.DecodeString(r.Fmt)
	r.Fmt = string(d)
	return r
}

// Resolve: updateResolver(newResolver(), rels) then resolveType(ty); types in the hook's prefix notation
// (int | str | bool | v:<name> | sl t | tu:<n> t... | fn:<n> t...). The resolved type is in Fmt.
func (s *FcSrv) Resolve(rels [][2]string, ty string) srvResp {
	var rs []map[string]string
	for _, r := range rels {
		rs = append(rs, map[string]string{"v": r[0], "t": r[1]})
	}
	r := s.call(map[string]any{"op": "resolve", "rels": rs, "ty": ty})
	d, _ := hex.DecodeString(r.Fmt)
	r.Fmt = string(d)
	return r
}

func (s *FcSrv) Tables() srvResp { return s.call(map[string]any{"op": "tables"}) }

// FcPool: n servers for parallel use.
type FcPool struct{ ch chan *FcSrv }

func (c *Ctx) NewFcPool(n int) *FcPool {
	p := &FcPool{ch: make(chan *FcSrv, n)}
	for i := 0; i < n; i++ {
		p.ch <- c.StartFcSrv()
	}
	return p
}
func (p *FcPool) Get() *FcSrv  { return <-p.ch }
func (p *FcPool) Put(s *FcSrv) { p.ch <- s }
func (p *FcPool) Close() {
	close(p.ch)
	for s := range p.ch {
		s.Close()
	}
}

const MiniFoiText = `package_info frt =
  let Println: string->()
  let Sprintf1<T>: string->T->string
  let Printf1<T>: string->T->()
  let Fst<T, U> : T*U->T
  let Snd<T, U> : T*U->U

package_info slice =
  let Length<T>: []T -> int
  let Head<T>: []T -> T
  let Map<T, U> : (T->U)->[]T->[]U
  let Filter<T> : (T->bool)->[]T->[]T
  let Fold<T, S>: (S->T->S)->S->[]T->S

package_info strings =
  let Length: string->int
`
