package main

// C06: only relative indentation and line structure matter (offside rule).
//
//  (i)   column tracking: token/column sequence of the hooked tokenizer (newTkz/tkzNext) versus
//        Layout.tkz_cols (oracle) and versus the true column (offset - start of line) computed here,
//        on every rendered source and on token soups with tabs, comments and multi-line raw strings.
//  (ii)  the property end to end: programs x random layouts -> the emitted Go is byte-identical to the
//        canonical layout's (hooked in-process fc for volume, real fc processes for a sample), and the
//        block structure the model parser (Layout.parse_blocks) recovers from the real token stream is
//        the same for all layouts.
//  (iii) negative cases: one statement line of a block dedented to the enclosing block's column: fc
//        must reject with a diagnostic or emit different Go, exactly when the model parser rejects or
//        recovers a different tree.
//  (iv)  hazard stream "string-arm-dedent": arms of a string match are not tied to the offside line.
//        (Finding n, "elif-one-line", is repaired: one-line if/elif/else and a same-line then-body followed
//        by else/elif on a later line are layouts of the main stream.)

import (
	"fmt"
	"os"
	"path/filepath"
	"strings"
	"sync"
	"time"
)

func init() { Register("C06", runC06) }

type c06Case struct {
	Prog   *lProg
	Canon  string
	Out    string // emitted Go for the canonical layout
	Tree   string // model tree of the canonical layout ("" when the model does not cover the program)
	Intern map[string]int
}

type c06Run struct {
	c        *Ctx
	pool     *FcPool
	foi      string
	mu       sync.Mutex
	colMu    sync.Mutex
	nConfirm int
	// first column disagreement (reported once)
	colBad []any
}

func (h *c06Run) transpile(src string) srvResp {
	return h.transpileFoi(h.foi, src)
}

// transpileFoi: the hooked in-process fc; a server that dies (fatal error, or the 20 s limit on a loaded
// machine) is retried, and a death is only reported when a real fc process on the same input also ends
// without a normal exit (0 or 1).
func (h *c06Run) transpileFoi(foi, src string) srvResp {
	var r srvResp
	for attempt := 0; attempt < 2; attempt++ {
		s := h.pool.Get()
		r = s.Transpile(SrcFile{"mini.foi", foi}, SrcFile{"x.fo", src})
		h.pool.Put(s)
		if !r.Died {
			return r
		}
	}
	h.mu.Lock()
	h.nConfirm++
	d := filepath.Join(h.c.Work, fmt.Sprintf("c06confirm%d", h.nConfirm))
	h.mu.Unlock()
	MustWrite(filepath.Join(d, "mini.foi"), foi)
	MustWrite(filepath.Join(d, "x.fo"), src)
	rr := Run(d, 120*time.Second, 4096, nil, filepath.Join(h.c.Bin, "fc"), "mini.foi", "x.fo")
	h.c.Count("server-death-confirmed-by-real-process")
	if rr.TimedOut || rr.Signal != "" || (rr.Exit != 0 && rr.Exit != 1) {
		r.Err = fmt.Sprintf("server died and the real fc process ended with exit %d signal %q timeout %v: %s", rr.Exit, rr.Signal, rr.TimedOut, c06Brief(rr.Stdout+rr.Stderr))
		return r
	}
	h.c.Count("server-death-not-reproduced")
	out, err := os.ReadFile(filepath.Join(d, "gen_x.go"))
	res := srvResp{Ok: rr.Exit == 0 && err == nil, Err: strings.TrimSpace(rr.Stdout + rr.Stderr), Outs: map[string]string{}}
	if res.Ok {
		res.Outs["gen_x.go"] = string(out)
	}
	return res
}
func (h *c06Run) tokens(src string) srvResp {
	var r srvResp
	for attempt := 0; attempt < 3; attempt++ {
		s := h.pool.Get()
		r = s.Tokens(src)
		h.pool.Put(s)
		if !r.Died {
			return r
		}
	}
	return r
}

func c06Out(r srvResp) (string, bool) {
	if !r.Ok {
		return "", false
	}
	return r.Outs["gen_x.go"], true
}

// ---------------------------------------------------------------- (i) columns

// checkColumns compares the hooked tokenizer's columns with the model and with the true column.
// Returns the number of tokens compared.
func (h *c06Run) checkColumns(src string, what string) int {
	c := h.c
	r := h.tokens(src)
	if r.Died {
		c.Violate("tokenizer-crash", "the tokenizer crashed on a rendered source ("+what+")", map[string]any{"src": src}, false)
		return 0
	}
	if !r.Ok {
		c.Count("tokens:rejected:" + what)
		return 0
	}
	toks := r.Toks
	var req strings.Builder
	req.WriteString("(cols")
	for _, t := range toks {
		k := "o"
		if t.Type == "(EOL)" {
			k = "e"
		}
		fmt.Fprintf(&req, " (%s %d %d)", k, t.Begin, t.Len)
	}
	req.WriteString(")")
	ans := c.Oracle().Ask("C06", req.String())
	fs := strings.Fields(ans)
	if len(fs) == 0 || fs[0] != "COLS" || len(fs)-1 != len(toks) {
		panic("bad oracle answer to cols: " + ans)
	}
	lastEOLEnd := 0
	prevEnd := 0
	for i, t := range toks {
		// well-formedness of the stream the theorem is about
		if t.Begin < prevEnd || t.Begin+t.Len > len(src) {
			h.colDisagree(src, what, i, "token stream not monotone", t.Col, -1, -1)
			break
		}
		if t.Type == "(EOL)" && (t.Len != 1 || src[t.Begin] != '\n') {
			h.colDisagree(src, what, i, "EOL token is not a newline byte", t.Col, -1, -1)
			break
		}
		var m int
		fmt.Sscanf(fs[i+1], "%d", &m)
		lineStart := strings.LastIndexByte(src[:t.Begin], '\n') + 1
		hidden := strings.IndexByte(src[lastEOLEnd:t.Begin], '\n') >= 0
		trueCol := t.Begin - lineStart
		if m != t.Col {
			c.Disagree()
			h.colDisagree(src, what, i, "tkz_cols (model) differs from the tokenizer", t.Col, m, trueCol)
			break
		}
		if !hidden && t.Col != trueCol {
			c.Disagree()
			h.colDisagree(src, what, i, "tracked column differs from offset - line start", t.Col, m, trueCol)
			break
		}
		if hidden {
			c.Count("cols:token-after-hidden-newline")
			if t.Col != trueCol {
				c.Count("cols:token-after-hidden-newline:shifted")
			}
		}
		prevEnd = t.Begin + t.Len
		if t.Type == "(EOL)" {
			lastEOLEnd = t.Begin + t.Len
		}
	}
	c.Compared(len(toks))
	return len(toks)
}

func (h *c06Run) colDisagree(src, what string, i int, msg string, impl, model, truth int) {
	h.colMu.Lock()
	defer h.colMu.Unlock()
	if len(h.colBad) < 3 {
		h.colBad = append(h.colBad, map[string]any{"src": src, "kind": what, "token_index": i, "what": msg,
			"tokenizer_col": impl, "model_col": model, "true_col": truth})
	}
}

// tokenSoup: a tokenizable byte string with tabs, comments, strings and raw strings over several lines.
func c06TokenSoup(r *Rng) string {
	var b strings.Builder
	n := 5 + r.Intn(60)
	pieces := []string{"x", "foo_1", "Bar", "12", "0", "let", "if", "then", "else", "elif", "match", "with", "fun", "type", "of", "not",
		"=", "(", ")", "{", "}", "[", "]", "<", ">", "<=", ">=", "<>", "|>", "|", "||", "&&", "&", "+", "-", "*", "/", "->", ":", ",", ".", ";", "_",
		"\"s\"", "\"a b\"", "\"q\\\"q\"", "\"\"", "`raw`", "`two\nlines`", "`a\n\nb\nc`", "$\"i {x}\"", "$`r\n{y}`",
		"/* c */", "/* multi\nline */", "/**/", "/* a\n b\n c */", "// line comment\n", "//\n", "\n", "\n", "\n", " ", "  ", "\t", " \t "}
	for i := 0; i < n; i++ {
		p := pieces[r.Intn(len(pieces))]
		b.WriteString(p)
		// separate so that adjacent pieces cannot fuse into another token or a comment opener
		switch r.Intn(4) {
		case 0:
			b.WriteString("\t")
		case 1:
			b.WriteString("  ")
		default:
			b.WriteString(" ")
		}
	}
	if r.Intn(2) == 0 {
		b.WriteString("\n")
	}
	return b.String()
}

// ---------------------------------------------------------------- model token stream

var c06Kw = map[string]string{"(EOL)": "eol", "(LET)": "let", "(EQ)": "eq", "(IF)": "if", "(THEN)": "then", "(ELSE)": "else",
	"(ELIF)": "elif", "(MATCH)": "match", "(WITH)": "with", "(BAR)": "bar", "(RARROW)": "arrow", "(FUN)": "fun",
	"(LPAREN)": "lp", "(RPAREN)": "rp", "(COMMA)": "comma", "(UNDER_SCORE)": "us", "(TYPE)": "type",
	"(DOT)": "dot", "(LBRACE)": "lb", "(RBRACE)": "rb", "(LSBRACKET)": "ls", "(RSBRACKET)": "rs", "(SEMICOLON)": "semi"}
var c06Ops = map[string]bool{"(PIPE)": true, "(AMPAMP)": true, "(BARBAR)": true, "(GT)": true, "(LT)": true, "(GE)": true,
												"(LE)": true, "(BRACKET)": true, "(PLUS)": true, "(MINUS)": true, "(ASTER)": true, "(SLASH)": true}
var c06Root = map[string]int{"(PACKAGE_INFO)": 0, "(PACKAGE)": 1, "(IMPORT)": 2, "(AND)": 3} // Layout.is_pkginfo: 0

// c06ModelToks abstracts the real token stream (with the tokenizer's tracked columns) to the model's
// token language: layout keywords, brackets, braces, '.', ';' and ',' are kept; a type-argument list glued
// to an identifier becomes part of that atom; every other token is an atom identified by its text.
func c06ModelToks(src string, toks []srvTok, intern map[string]int) string {
	id := func(s string) int {
		if v, ok := intern[s]; ok {
			return v
		}
		v := len(intern) + 1
		intern[s] = v
		return v
	}
	text := func(t srvTok) string { return src[t.Begin : t.Begin+t.Len] }
	var b strings.Builder
	b.WriteString("(blocks")
	for i := 0; i < len(toks); i++ {
		t := toks[i]
		if t.Type == "(EOF)" {
			break
		}
		if k, ok := c06Kw[t.Type]; ok {
			fmt.Fprintf(&b, " (%s %d)", k, t.Col)
			continue
		}
		switch {
		case t.Type == "(LT)" && i > 0 && toks[i-1].Type == "(IDENTIFIER)" && toks[i-1].Begin+toks[i-1].Len == t.Begin:
			// type arguments: f<int> (isNeighborLT); part of the preceding atom
			depth := 0
			j := i
			for ; j < len(toks); j++ {
				if toks[j].Type == "(LT)" {
					depth++
				}
				if toks[j].Type == "(GT)" {
					depth--
					if depth == 0 {
						break
					}
				}
				if toks[j].Type == "(EOL)" || toks[j].Type == "(EOF)" {
					break
				}
			}
			if j < len(toks) && toks[j].Type == "(GT)" {
				i = j
			} else {
				fmt.Fprintf(&b, " (op %d %d)", id(t.Type), t.Col)
			}
		case c06Ops[t.Type]:
			fmt.Fprintf(&b, " (op %d %d)", id(t.Type), t.Col)
		case t.Type == "(PACKAGE_INFO)" || t.Type == "(PACKAGE)" || t.Type == "(IMPORT)" || t.Type == "(AND)":
			fmt.Fprintf(&b, " (kw %d %d)", c06Root[t.Type], t.Col)
		case t.Type == "(STRING)":
			fmt.Fprintf(&b, " (s %d %d)", id("S:"+text(t)), t.Col)
		default:
			fmt.Fprintf(&b, " (a %d %d)", id(text(t)), t.Col)
		}
	}
	b.WriteString(")")
	return b.String()
}

// modelTree: the block structure the model parser recovers from the real tokens of src.
func (h *c06Run) modelTree(src string, intern map[string]int) string {
	r := h.tokens(src)
	if !r.Ok {
		return "NOTOKENS"
	}
	return h.c.Oracle().Ask("C06", c06ModelToks(src, r.Toks, intern))
}

// ---------------------------------------------------------------- programs

func c06Programs(c *Ctx, rng *Rng) []*lProg {
	var progs []*lProg
	tpl := c06Templates()
	for i, t := range tpl {
		progs = append(progs, &lProg{Name: fmt.Sprintf("template-%d", i), Tops: c06Instantiate(t, "1")})
	}
	nCombo := c.Pick(16, 400)
	for i := 0; i < nCombo; i++ {
		k := 2 + rng.Intn(3)
		p := &lProg{Name: fmt.Sprintf("combo-%d", i)}
		for j := 0; j < k; j++ {
			ti := rng.Intn(len(tpl))
			p.Name += fmt.Sprintf("-%d", ti)
			p.Tops = append(p.Tops, c06Instantiate(tpl[ti], fmt.Sprint(j+1))...)
		}
		progs = append(progs, p)
	}
	nRand := c.Pick(44, 2500)
	for i := 0; i < nRand; i++ {
		d := 1 + rng.Intn(4)
		p := &lProg{Name: fmt.Sprintf("random-%d-depth%d", i, d), Tops: c06Instantiate(c06RandomTops(rng.Fork(), d), "1")}
		if rng.Intn(3) == 0 {
			p.Tops = append(p.Tops, c06Instantiate(tpl[rng.Intn(len(tpl))], "2")...)
		}
		progs = append(progs, p)
	}
	return progs
}

func c06RandOpt(r *Rng) layOpt {
	return layOpt{Comments: r.Intn(4) != 0, Tabs: r.Intn(3) == 0, NoEOFNL: true}
}

// dedent re-indents the line of mark m to column newCol.
func c06Dedent(src string, m lMark, newCol int) string {
	i := m.LineStart
	j := i
	for j < len(src) && (src[j] == ' ' || src[j] == '\t') {
		j++
	}
	return src[:i] + strings.Repeat(" ", newCol) + src[j:]
}

func c06Brief(s string) string {
	if len(s) > 160 {
		return s[:160] + "..."
	}
	return s
}

// ---------------------------------------------------------------- main

func runC06(c *Ctx) {
	rng := NewRng(c.Seed)
	h := &c06Run{c: c, pool: c.NewFcPool(12), foi: c06MiniFoi}
	defer h.pool.Close()
	c.Res.Rule = "for every program and every layout of the layout grammar: gen_x.go(layout) == gen_x.go(canonical layout) byte for byte; " +
		"every token's tracked column == tkz_cols (model) and == offset - line start unless a hidden newline precedes it on its line; " +
		"model block tree(layout) == model block tree(canonical); a dedented statement line: fc rejects or emits different Go iff the model rejects or gives a different tree"

	if c.Replay != "" {
		c06Replay(c, h)
		return
	}
	progs := c06Programs(c, rng)
	nLayouts := c.Pick(8, 40)
	cases := make([]*c06Case, len(progs))
	seeds := make([]*Rng, len(progs))
	for i := range progs {
		seeds[i] = rng.Fork()
	}
	modelUncovered := 0

	// ---- (ii) main stream
	Parallel(len(progs), func(i int) {
		p := progs[i]
		r := seeds[i]
		canon := p.render(nil, layOpt{Canon: true})
		cs := &c06Case{Prog: p, Canon: string(canon.b), Intern: map[string]int{}}
		cases[i] = cs
		res := h.transpile(cs.Canon)
		out0, ok0 := c06Out(res)
		if res.Died {
			c.Violate("crash", "fc crashed on a canonical program "+p.Name, map[string]any{"src": cs.Canon}, false)
			return
		}
		cs.Out = out0
		c.Count("program:" + strings.SplitN(p.Name, "-", 2)[0])
		if ok0 {
			t := h.modelTree(cs.Canon, cs.Intern)
			if strings.HasPrefix(t, "TREE ") {
				cs.Tree = t
			} else {
				h.mu.Lock()
				modelUncovered++
				h.mu.Unlock()
				c.Note("model parser does not cover %s: %s", p.Name, c06Brief(t))
			}
		}
		anyOk := ok0
		for k := 0; k < nLayouts; k++ {
			o := c06RandOpt(r)
			l := p.render(r.Fork(), o)
			src := string(l.b)
			rk := h.transpile(src)
			outk, okk := c06Out(rk)
			for f, n := range l.feat {
				c.CountN("layout:"+f, n)
			}
			c.Eval(src, true)
			if rk.Died {
				c.Violate("crash", "fc crashed on a layout of "+p.Name, map[string]any{"src": src}, false)
				continue
			}
			anyOk = anyOk || okk
			if okk != ok0 || outk != out0 {
				what := "the emitted Go differs between two layouts of one program"
				if okk != ok0 {
					what = fmt.Sprintf("one layout is accepted and the other rejected (canonical ok=%v err=%q; layout ok=%v err=%q)", ok0, res.Err, okk, rk.Err)
				}
				rep := map[string]any{"program": p.Name, "canonical_src": cs.Canon, "layout_src": src, "canonical_err": res.Err, "layout_err": rk.Err}
				if ok0 && !okk && cs.Tree != "" {
					if t := h.modelTree(src, cs.Intern); t == "REJECT" {
						// fc and the model parser agree that this is not a layout of the program: the layout generator left
						// the validity predicate of the model (a defect of the harness, reported loudly, not a finding about fc)
						rep["model"] = "REJECT"
						c.Violate("layout-invalid-for-model", "the layout generator produced a layout that the model parser rejects as well as fc ("+rk.Err+"): harness defect unless both are wrong ["+p.Name+"]", rep, true)
						continue
					}
				}
				c.Violate("layout", what+" ["+p.Name+"]", rep, false)
				continue
			}
			if k < 2 {
				h.checkColumns(src, "layout")
			}
			if cs.Tree != "" && k < c.Pick(3, 40) {
				t := h.modelTree(src, cs.Intern)
				c.Compared(1)
				if t != cs.Tree {
					c.Disagree()
					c.Violate("corr-blocks", "the model parser recovers a different block structure from a layout that fc translates identically ["+p.Name+"]: "+c06Brief(t),
						map[string]any{"program": p.Name, "canonical_src": cs.Canon, "layout_src": src, "canonical_tree": cs.Tree, "layout_tree": t}, true)
				}
			}
			if i < 3 && k == 0 {
				c.Sample(map[string]any{"program": p.Name, "layout_src": src, "same_output": true})
			}
		}
		if !anyOk {
			// a program of the fixed list / generator that no layout gets through fc: nothing was shown
			c.Violate("rejected", "fc rejects every layout of "+p.Name+": "+res.Err, map[string]any{"src": cs.Canon, "err": res.Err}, true)
		}
		h.checkColumns(cs.Canon, "canonical")
	})
	c.Lap("main")
	if modelUncovered > 0 {
		c.Note("model parser did not cover %d of %d programs", modelUncovered, len(progs))
	}
	c.Res.Extra["programs"] = len(progs)
	c.Res.Extra["layouts_per_program"] = nLayouts
	c.Res.Extra["model_covered_programs"] = len(progs) - modelUncovered

	// ---- the package_info file is laid out by the same rule
	foiTree, foiIntern := "", map[string]int{}
	for k := 0; k < c.Pick(6, 60); k++ {
		cs := cases[rng.Intn(len(cases))]
		if cs == nil || cs.Out == "" {
			continue
		}
		foi := c06FoiLayout(rng)
		if foiTree == "" {
			foiTree = h.modelTree(c06MiniFoi, foiIntern)
			if !strings.HasPrefix(foiTree, "TREE ") {
				panic("model parser does not cover the package_info file: " + foiTree)
			}
		}
		if t := h.modelTree(foi, foiIntern); t != foiTree {
			c.Disagree()
			c.Violate("corr-blocks", "the model parser recovers a different structure from a re-laid-out package_info file: "+c06Brief(t),
				map[string]any{"foi": foi, "canonical_tree": foiTree, "layout_tree": t}, true)
		}
		c.Compared(1)
		r := h.transpileFoi(foi, cs.Canon)
		out, ok := c06Out(r)
		c.Eval(foi, true)
		c.Count("layout:package_info-file")
		if !ok || out != cs.Out {
			c.Violate("layout-foi", "a re-laid-out package_info file changes the result: "+r.Err,
				map[string]any{"foi": foi, "src": cs.Canon, "err": r.Err}, false)
		}
	}

	// ---- (i) token soups
	nSoup := c.Pick(150, 3000)
	soupSeeds := make([]*Rng, nSoup)
	for i := range soupSeeds {
		soupSeeds[i] = rng.Fork()
	}
	Parallel(nSoup, func(i int) {
		src := c06TokenSoup(soupSeeds[i])
		if h.checkColumns(src, "soup") > 0 {
			c.Count("soup:tokenized")
		}
		c.Eval(src, true)
	})
	for _, b := range h.colBad {
		c.Violate("corr-cols", fmt.Sprintf("column tracking: %v", b.(map[string]any)["what"]), b, true)
	}
	c.Lap("columns")

	// ---- (iii) negative cases
	nNeg := c.Pick(120, 3000)
	negSeeds := make([]*Rng, nNeg)
	for i := range negSeeds {
		negSeeds[i] = rng.Fork()
	}
	var negMu sync.Mutex
	negStats := map[string]int{}
	Parallel(nNeg, func(i int) {
		r := negSeeds[i]
		cs := cases[r.Intn(len(cases))]
		if cs == nil || cs.Out == "" {
			return
		}
		l := cs.Prog.render(r.Fork(), c06RandOpt(r))
		var cand []lMark
		for _, m := range l.marks {
			if m.Own && m.Parent >= 0 {
				cand = append(cand, m)
			}
		}
		// arms of union matches (and the default arm of string matches) are tested against the offside
		// line: dedented below the block that contains the match they end it
		for _, a := range l.armMarks {
			if a.Off > 0 && (!a.Str || a.Def) {
				cand = append(cand, lMark{LineStart: a.LineStart, Col: a.Off, Parent: r.Intn(a.Off), Index: -1 - a.Index, Own: true})
			}
		}
		if len(cand) == 0 {
			return
		}
		m := cand[r.Intn(len(cand))]
		newCol := m.Parent
		if m.Index >= 0 && r.Intn(4) == 0 {
			newCol = m.Parent + r.Intn(m.Col-m.Parent)
		}
		src := c06Dedent(string(l.b), m, newCol)
		if m.Index < 0 {
			c.Count("negative:arm-line")
		}
		rk := h.transpile(src)
		out, ok := c06Out(rk)
		c.Eval(src, true)
		replay := map[string]any{"program": cs.Prog.Name, "valid_src": string(l.b), "dedented_src": src, "mark": m, "new_col": newCol, "fc_err": rk.Err}
		if rk.Died {
			c.Violate("crash", "fc crashed (no diagnostic) on a dedented line", replay, false)
			return
		}
		fcSame := ok && out == cs.Out
		stat := "negative:fc-rejects"
		if strings.Contains(rk.Err, "Overrun offside rule") {
			stat = "negative:fc-rejects-overrun"
		}
		if ok {
			stat = "negative:fc-different-output"
		}
		if fcSame {
			stat = "negative:fc-same-output"
		}
		if cs.Tree != "" {
			t := h.modelTree(src, cs.Intern)
			c.Compared(1)
			modelSame := t == cs.Tree
			replay["model"] = c06Brief(t)
			switch {
			case fcSame && !modelSame:
				c.Disagree()
				c.Violate("dedent", "a line dedented below its block did not end the block: the emitted Go is unchanged although the model parser sees another structure ["+cs.Prog.Name+"]", replay, false)
			case !fcSame && modelSame:
				c.Disagree()
				c.Violate("corr-blocks", "the model parser sees the same block structure after a dedent but fc "+stat, replay, true)
			case fcSame && modelSame:
				stat += ":model-agrees"
			}
		} else if fcSame {
			c.Violate("dedent", "a line dedented below its block did not end the block: the emitted Go is unchanged ["+cs.Prog.Name+"]", replay, false)
		}
		negMu.Lock()
		negStats[stat]++
		if i < 2 {
			c.Res.Samples = append(c.Res.Samples, map[string]any{"negative": replay, "result": stat})
		}
		negMu.Unlock()
	})
	for k, v := range negStats {
		c.CountN(k, v)
	}
	c.Lap("negative")

	// ---- layouts outside the property's grammar that the validity predicate of the proof (Layout.wf_rest,
	// wf_ifrest) admits: later statements of a block indented more than the block but left of what the
	// previous statement left open; else/elif left of the enclosing block. Model and fc must agree.
	nOver := c.Pick(120, 1500)
	overSeeds := make([]*Rng, nOver)
	for i := range overSeeds {
		overSeeds[i] = rng.Fork()
	}
	Parallel(nOver, func(i int) {
		r := overSeeds[i]
		cs := cases[r.Intn(len(cases))]
		if cs == nil || cs.Out == "" || cs.Tree == "" {
			return
		}
		o := c06RandOpt(r)
		o.Over = true
		l := cs.Prog.render(r.Fork(), o)
		if l.feat["over:later-statement-right-of-block"]+l.feat["over:else-left-of-enclosing-block"] == 0 {
			return
		}
		src := string(l.b)
		rk := h.transpile(src)
		out, ok := c06Out(rk)
		t := h.modelTree(src, cs.Intern)
		c.Eval(src, true)
		c.Compared(1)
		for f, n := range l.feat {
			if strings.HasPrefix(f, "over:") {
				c.CountN("layout:"+f, n)
			}
		}
		fcSame := ok && out == cs.Out
		modelSame := t == cs.Tree
		switch {
		case rk.Died:
			c.Violate("crash", "fc crashed on an over-indented layout", map[string]any{"src": src}, false)
		case fcSame && modelSame:
			c.Count("over:same-output-and-tree")
		case !modelSame:
			// the renderer's bound computation and the model disagree: harness defect, not a finding
			c.Count("over:model-sees-other-structure")
			c.Note("over-indent layout not valid for the model (%s): %s", cs.Prog.Name, c06Brief(t))
			if fcSame {
				c.Disagree()
				c.Violate("corr-blocks", "the model parser recovers a different block structure from an over-indented layout that fc translates identically", map[string]any{"canonical_src": cs.Canon, "layout_src": src, "model": c06Brief(t)}, true)
			}
		default:
			c.Disagree()
			c.Violate("corr-blocks", "a layout that the validity predicate of layout_invariance admits (statement right of its block / else left of the enclosing block) changes fc's result: "+rk.Err,
				map[string]any{"program": cs.Prog.Name, "canonical_src": cs.Canon, "layout_src": src, "layout_err": rk.Err}, true)
		}
	})
	c.Lap("over-indent")

	// ---- (iv) hazard stream
	// hazard "string-arm-dedent": the literal arms and the variable rule of a string match are not tested
	// against the offside line (parseSMRules / parseStringVarRule have no insideOffside): such an arm
	// dedented below the block that contains the match does not end that block.
	saFail, saPass := 0, 0
	var saExample map[string]any
	for i := 0; i < c.Pick(40, 600); i++ {
		cs := cases[rng.Intn(len(cases))]
		if cs == nil || cs.Out == "" {
			continue
		}
		l := cs.Prog.render(rng.Fork(), c06RandOpt(rng))
		var cand []lArmMark
		for _, a := range l.armMarks {
			if a.Str && !a.Def && a.Off > 0 {
				cand = append(cand, a)
			}
		}
		if len(cand) == 0 {
			continue
		}
		a := cand[rng.Intn(len(cand))]
		newCol := rng.Intn(a.Off)
		src := c06Dedent(string(l.b), lMark{LineStart: a.LineStart}, newCol)
		rk := h.transpile(src)
		out, ok := c06Out(rk)
		c.Eval(src, true)
		c.Count("hazard:string-arm-dedent")
		if rk.Died {
			c.Violate("crash", "fc crashed on a dedented string-match arm", map[string]any{"src": src}, false)
			continue
		}
		if !(ok && out == cs.Out) {
			saPass++ // rejected or different output: the dedented arm ended the block
			continue
		}
		saFail++
		ex := map[string]any{"program": cs.Prog.Name, "valid_src": string(l.b), "dedented_src": src, "arm": a, "new_col": newCol}
		if saExample == nil || len(src) < len(saExample["dedented_src"].(string)) {
			saExample = ex
		}
		if cs.Tree != "" {
			if t := h.modelTree(src, cs.Intern); t != cs.Tree {
				c.Disagree()
				c.Violate("corr-blocks", "a dedented string-match arm leaves fc's output unchanged but the model parser sees another structure", ex, true)
			}
		}
	}
	c.Res.Extra["hazard_string_arm_dedent"] = map[string]int{"block_not_ended": saFail, "block_ended_or_rejected": saPass}
	if saFail > 0 {
		if c.IsKnown("string-arm-dedent") {
			c.Known("string-arm-dedent")
			c.Note("hazard string-arm-dedent: %d of %d dedented string-match arms did not end their block", saFail, saFail+saPass)
		} else {
			c.Violate("string-arm-dedent", "an arm of a string match dedented below the block that contains the match does not end that block (literal and variable rules are not tested against the offside line): the emitted Go is unchanged", saExample, false)
		}
	}
	// hazard "dangling-else-ignores-offside": a multi-line if without else that is the last statement of a
	// then-block takes the else/elif of the enclosing if although that else stands left of the block that
	// contains the inner if. The same program with the inner if on one line is the reference (there the
	// else is outside the inner if's offside line and goes to the enclosing if). The generators never end a
	// then-block with a multi-line if without else (Layout.wf_ifrest: block_io prev = false), so the main
	// stream does not contain this shape.
	{
		type dePair struct{ name, pre, multi, one, post string }
		inner := func(ind string) (string, string) {
			return ind + "if x > 1 then\n" + ind + "  frt.Println \"b\"\n", ind + "if x > 1 then frt.Println \"b\"\n"
		}
		m4, o4 := inner("    ")
		m6, o6 := inner("      ")
		m8, o8 := inner("        ")
		hdr := "package main\nimport frt\n"
		pairs := []dePair{
			{"outer-else", hdr + "let f (x:int) =\n  if x > 0 then\n    frt.Println \"a\"\n", m4, o4,
				"  else\n    frt.Println \"c\"\n  frt.Println \"d\"\n"},
			{"outer-else-body-right-of-inner-block", hdr + "let f (x:int) =\n  if x > 0 then\n    frt.Println \"a\"\n", m4, o4,
				"  else\n        frt.Println \"c\"\n  frt.Println \"d\"\n"},
			{"outer-elif", hdr + "let f (x:int) =\n  if x > 0 then\n    frt.Println \"a\"\n", m4, o4,
				"  elif x < 0 then\n    frt.Println \"e\"\n  else\n    frt.Println \"c\"\n  frt.Println \"d\"\n"},
			{"nested-in-else-block", hdr + "let f (x:int) =\n  if x > 0 then\n    if x > 5 then\n      frt.Println \"m\"\n    else\n      frt.Println \"n\"\n", m6, o6,
				"  else\n    frt.Println \"c\"\n  frt.Println \"d\"\n"},
			{"in-match-arm", hdr + "type U =\n  | A of int\n  | B\nlet f (u:U) (x:int) =\n  match u with\n  | A i ->\n    if i > 0 then\n      frt.Println \"a\"\n", m6, o6,
				"    else\n      frt.Println \"c\"\n  | B ->\n    frt.Println \"d\"\n"},
			{"in-lambda-and-deeper", hdr + "import slice\nlet f (xs:[]int) (x:int) =\n  xs |> slice.Iter (fun y ->\n    if y > 0 then\n      if y > 1 then\n        frt.Println \"m\"\n", m8, o8,
				"      else\n        frt.Println \"n\"\n    else\n      frt.Println \"c\")\n"},
		}
		deFail, dePass := 0, 0
		var deExample map[string]any
		for _, pr := range pairs {
			one := h.transpile(pr.pre + pr.one + pr.post)
			multi := h.transpile(pr.pre + pr.multi + pr.post)
			c.Eval(pr.pre+pr.multi+pr.post, true)
			c.Count("hazard:dangling-else:" + pr.name)
			if multi.Died || one.Died {
				c.Violate("crash", "fc crashed on a dangling-else hazard case", map[string]any{"src": pr.pre + pr.multi + pr.post}, false)
				continue
			}
			if !one.Ok {
				// the reference itself is not accepted: nothing can be compared (a harness defect or another change in fc)
				c.Violate("dangling-else-reference", "the one-line reference of a dangling-else hazard case is rejected: "+one.Err,
					map[string]any{"src": pr.pre + pr.one + pr.post, "err": one.Err}, true)
				continue
			}
			if multi.Ok && multi.Outs["gen_x.go"] == one.Outs["gen_x.go"] {
				dePass++
				continue
			}
			deFail++
			if deExample == nil {
				deExample = map[string]any{"case": pr.name, "canonical_src": pr.pre + pr.one + pr.post, "layout_src": pr.pre + pr.multi + pr.post,
					"layout_err": multi.Err, "layout_accepted_with_other_output": multi.Ok}
			}
		}
		c.Res.Extra["hazard_dangling_else"] = map[string]int{"still_failing": deFail, "passing": dePass}
		if deFail > 0 {
			if c.IsKnown("dangling-else-ignores-offside") {
				c.Known("dangling-else-ignores-offside")
				c.Note("hazard dangling-else-ignores-offside still fails (%d of %d): e.g. %v: %v", deFail, deFail+dePass, deExample["case"], deExample["layout_err"])
			} else {
				c.Violate("dangling-else-ignores-offside", "a multi-line if without else that ends a then-block takes the else/elif of the enclosing if although it stands left of the inner if's block; with the inner if on one line the else goes to the enclosing if", deExample, false)
			}
		}
	}
	c.Lap("hazard")

	// ---- real fc processes (exit status, files) on a sample, cross-checked with the hooked fc
	nReal := c.Pick(5, 120)
	dir := filepath.Join(c.Work, "c06real")
	os.MkdirAll(dir, 0o755)
	realOne := func(tag, src string) (string, bool, RunResult) {
		d := filepath.Join(dir, tag)
		os.MkdirAll(d, 0o755)
		MustWrite(filepath.Join(d, "x.fo"), src)
		rr := c.Fc(d, c.PkgAllFoi(), "x.fo")
		b, err := os.ReadFile(filepath.Join(d, "gen_x.go"))
		return string(b), err == nil && rr.Exit == 0, rr
	}
	idx := rng.Perm(len(cases))
	done := 0
	for _, ci := range idx {
		if done >= nReal {
			break
		}
		cs := cases[ci]
		if cs == nil || cs.Out == "" {
			continue
		}
		done++
		out0, ok0, rr0 := realOne(fmt.Sprintf("p%d-canon", ci), cs.Canon)
		l := cs.Prog.render(rng.Fork(), c06RandOpt(rng))
		src := string(l.b)
		out1, ok1, rr1 := realOne(fmt.Sprintf("p%d-layout", ci), src)
		c.Eval("real:"+src, true)
		c.Count("real-fc-process-pairs")
		for _, rr := range []RunResult{rr0, rr1} {
			if rr.TimedOut || rr.Signal != "" || (rr.Exit != 0 && rr.Exit != 1) {
				c.Violate("crash", fmt.Sprintf("real fc process: exit %d signal %q timeout %v", rr.Exit, rr.Signal, rr.TimedOut),
					map[string]any{"canonical_src": cs.Canon, "layout_src": src, "stderr": c06Brief(rr.Stderr + rr.Stdout)}, false)
			}
		}
		if ok0 != ok1 || out0 != out1 {
			c.Violate("layout", "real fc: the emitted gen_x.go differs between two layouts of one program ["+cs.Prog.Name+"]",
				map[string]any{"program": cs.Prog.Name, "canonical_src": cs.Canon, "layout_src": src, "canonical_out": c06Brief(rr0.Stdout + rr0.Stderr), "layout_out": c06Brief(rr1.Stdout + rr1.Stderr)}, false)
		} else if ok0 && out0 != cs.Out {
			c.Disagree()
			c.Violate("corr-hook", "the hooked in-process fc and the real fc emit different Go for the same source", map[string]any{"src": cs.Canon}, true)
		}
		// one dedented variant through the real process: a diagnostic (exit 1) or output, never a crash
		var cand []lMark
		for _, m := range l.marks {
			if m.Own && m.Parent >= 0 {
				cand = append(cand, m)
			}
		}
		if len(cand) > 0 && done%2 == 0 {
			m := cand[rng.Intn(len(cand))]
			nsrc := c06Dedent(src, m, m.Parent)
			out2, ok2, rr2 := realOne(fmt.Sprintf("p%d-dedent", ci), nsrc)
			c.Count("real-fc-process-dedent")
			if rr2.TimedOut || rr2.Signal != "" || (rr2.Exit != 0 && rr2.Exit != 1) || (rr2.Exit == 1 && !strings.Contains(rr2.Stdout+rr2.Stderr, "x.fo:")) {
				c.Violate("crash", fmt.Sprintf("real fc process on a dedented line: exit %d signal %q timeout %v", rr2.Exit, rr2.Signal, rr2.TimedOut),
					map[string]any{"src": nsrc, "output": c06Brief(rr2.Stderr + rr2.Stdout)}, false)
			}
			if ok2 && out2 == out0 && cs.Tree != "" {
				if t := h.modelTree(nsrc, cs.Intern); t != cs.Tree {
					c.Violate("dedent", "real fc: a line dedented below its block did not end the block", map[string]any{"valid_src": src, "dedented_src": nsrc}, false)
				}
			}
		}
	}
	c.Lap("real")

}

// c06Replay re-runs the comparison recorded in a replay file (two layouts, a dedent, or a source whose
// columns disagreed).
func c06Replay(c *Ctx, h *c06Run) {
	b, err := os.ReadFile(c.Replay)
	if err != nil {
		panic(err)
	}
	var doc struct {
		Replay map[string]any `json:"replay"`
	}
	if err := jsonUnmarshal(b, &doc); err != nil {
		panic(err)
	}
	str := func(k string) string { s, _ := doc.Replay[k].(string); return s }
	intern := map[string]int{}
	switch {
	case str("canonical_src") != "" && str("layout_src") != "":
		r0, r1 := h.transpile(str("canonical_src")), h.transpile(str("layout_src"))
		o0, ok0 := c06Out(r0)
		o1, ok1 := c06Out(r1)
		c.Eval(str("layout_src"), true)
		t0, t1 := h.modelTree(str("canonical_src"), intern), h.modelTree(str("layout_src"), intern)
		c.Note("replay: canonical ok=%v err=%q; layout ok=%v err=%q; same output=%v; model trees equal=%v; model on the layout: %s", ok0, r0.Err, ok1, r1.Err, o0 == o1, t0 == t1, c06Brief(t1))
		if ok0 && !ok1 && strings.HasPrefix(t0, "TREE ") && t1 == "REJECT" {
			c.Violate("layout-invalid-for-model", "replay: fc and the model parser both reject the recorded layout ("+r1.Err+"): it is not a layout of the program under the model's validity predicate (a layout-generator defect at the time of recording), not a finding about fc", doc.Replay, true)
		} else if ok0 != ok1 || o0 != o1 {
			c.Violate("layout", "replay: the two layouts still differ", doc.Replay, false)
		}
	case str("valid_src") != "" && str("dedented_src") != "":
		r0, r1 := h.transpile(str("valid_src")), h.transpile(str("dedented_src"))
		o0, ok0 := c06Out(r0)
		o1, ok1 := c06Out(r1)
		c.Eval(str("dedented_src"), true)
		t0, t1 := h.modelTree(str("valid_src"), intern), h.modelTree(str("dedented_src"), intern)
		fcSame := ok0 && ok1 && o0 == o1
		c.Note("replay: dedent: fc same output=%v (err=%q); model trees equal=%v", fcSame, r1.Err, t0 == t1)
		if r1.Died {
			c.Violate("crash", "replay: fc crashes on the dedented source", doc.Replay, false)
		} else if fcSame != (t0 == t1) {
			c.Violate("dedent", "replay: fc and the model still disagree on the dedented line", doc.Replay, fcSame == false)
		}
	case str("src") != "":
		h.checkColumns(str("src"), "replay")
		for _, bad := range h.colBad {
			c.Violate("corr-cols", "replay: column tracking still disagrees", bad, true)
		}
		r := h.transpile(str("src"))
		c.Eval(str("src"), true)
		c.Note("replay: transpile ok=%v err=%q died=%v", r.Ok, r.Err, r.Died)
		if r.Died {
			c.Violate("crash", "replay: fc crashes", doc.Replay, false)
		}
	default:
		panic("replay file has no recognised sources")
	}
}
