package main

// C14: dict, strings, buf and frt helpers behave as their signatures promise.
// The REAL packages of the scratch tree are imported (bin/check points the replace directives at
// it). Every case is (1) checked against the property directly, with a reference written here that
// does not use the function under test, and (2) compared with the Coq model (oracle).
//   strings : every wrapper on generated arguments (empty, separator at the ends, repeated
//             separators, multi-byte)
//   dict    : random operation histories on real dictionaries (several live at once, aliases)
//   buf     : random write histories on several buffers
//   frt     : Pipe/PipeUnit, IfElse/IfElseUnit/IfOnly on logging thunks, tuples, and every Go basic
//             kind through SInterP / Sprintf1 / Sprintf2 with recovered panics

import (
	"fmt"
	"os"
	"sort"
	"strconv"
	gostrings "strings"

	"github.com/karino2/folang/pkg/buf"
	"github.com/karino2/folang/pkg/dict"
	"github.com/karino2/folang/pkg/frt"
	fstrings "github.com/karino2/folang/pkg/strings"
)

// ------------------------------------------------------------------ strings

type c14StrCase struct {
	Fn   string   `json:"fn"`
	Args []string `json:"args"` // in the wrapper's order; for concat: sep, then the pieces
	N    int      `json:"n"`    // splitn count
}

var c14Atoms = []string{"a", "b", "ab", ",", ",", " ", ".", ".fo", "é", "日", "aa", ",,", "\n"}

func c14Word(r *Rng, maxAtoms int) string {
	n := r.Intn(maxAtoms + 1)
	var sb gostrings.Builder
	for i := 0; i < n; i++ {
		sb.WriteString(Choose(r, c14Atoms))
	}
	return sb.String()
}

// a subject built around a separator: sep at the ends, repeated, absent
func c14Subject(r *Rng, sep string) string {
	n := r.Intn(6)
	var parts []string
	for i := 0; i < n; i++ {
		switch r.Intn(4) {
		case 0:
			parts = append(parts, "")
		default:
			parts = append(parts, c14Word(r, 2))
		}
	}
	s := gostrings.Join(parts, sep)
	if r.Chance(1, 6) {
		s = sep + s
	}
	if r.Chance(1, 6) {
		s = s + sep
	}
	return s
}

func c14GenStr(r *Rng) c14StrCase {
	fns := []string{"hasprefix", "hassuffix", "trimsuffix", "split", "splitn", "concat", "appendhead",
		"appendtail", "enclose", "length", "isempty", "isnotempty", "split", "splitn", "hasprefix", "trimsuffix", "hassuffix"}
	fn := Choose(r, fns)
	c := c14StrCase{Fn: fn}
	switch fn {
	case "hasprefix", "hassuffix", "trimsuffix":
		p := c14Word(r, 2)
		var s string
		switch r.Intn(5) {
		case 0:
			s = p + c14Word(r, 3)
		case 1:
			s = c14Word(r, 3) + p
		case 2:
			s = c14Word(r, 2) + p + c14Word(r, 2)
		case 3:
			s = p
		default:
			s = c14Word(r, 4)
		}
		c.Args = []string{p, s}
	case "split", "splitn":
		sep := Choose(r, []string{",", ",", " ", "ab", "aa", ",,", "é", "\n", "", "a"})
		s := c14Subject(r, Choose(r, []string{sep, sep, ","}))
		c.Args = []string{sep, s}
		c.N = Choose(r, []int{-1, 0, 1, 2, 2, 3, 5, 100, -7})
	case "concat":
		sep := Choose(r, []string{",", "", "\n", "ab", " "})
		c.Args = []string{sep}
		for i, n := 0, r.Intn(5); i < n; i++ {
			c.Args = append(c.Args, c14Word(r, 2))
		}
	case "enclose":
		c.Args = []string{c14Word(r, 2), c14Word(r, 2), c14Word(r, 3)}
	case "appendhead", "appendtail":
		c.Args = []string{c14Word(r, 2), c14Word(r, 3)}
	default:
		c.Args = []string{c14Word(r, 3)}
	}
	return c
}

// c14Sq quotes exactly as oracle/sexp.ml's [quote] does, so that results can be compared as text
func c14Sq(s string) string {
	var b gostrings.Builder
	b.WriteByte('"')
	for i := 0; i < len(s); i++ {
		ch := s[i]
		switch {
		case ch == '"':
			b.WriteString("\\\"")
		case ch == '\\':
			b.WriteString("\\\\")
		case ch == '\n':
			b.WriteString("\\n")
		case ch == '\t':
			b.WriteString("\\t")
		case ch < 32 || ch >= 127:
			fmt.Fprintf(&b, "\\x%02x", ch)
		default:
			b.WriteByte(ch)
		}
	}
	b.WriteByte('"')
	return b.String()
}

func c14Qlist(xs []string) string {
	var q []string
	for _, x := range xs {
		q = append(q, c14Sq(x))
	}
	return "(" + gostrings.Join(q, " ") + ")"
}

func c14IsASCII(s string) bool {
	for i := 0; i < len(s); i++ {
		if s[i] >= 128 {
			return false
		}
	}
	return true
}

// plain reference implementations (no call of the function under test or of its Go counterpart)
func c14RefHasPrefix(p, s string) bool { return len(s) >= len(p) && s[:len(p)] == p }
func c14RefHasSuffix(p, s string) bool { return len(s) >= len(p) && s[len(s)-len(p):] == p }
func c14RefJoin(sep string, xs []string) string {
	out := ""
	for i, x := range xs {
		if i > 0 {
			out += sep
		}
		out += x
	}
	return out
}
func c14RefContains(sep, s string) bool {
	for i := 0; i+len(sep) <= len(s); i++ {
		if s[i:i+len(sep)] == sep {
			return true
		}
	}
	return false
}

// runs one string case on the real package; returns (canonical result, oracle request, property failure)
func c14RunStr(c c14StrCase) (got string, req string, bad string) {
	a := c.Args
	switch c.Fn {
	case "hasprefix":
		r := fstrings.HasPrefix(a[0], a[1])
		got, req = fmt.Sprint(r), fmt.Sprintf("(str hasprefix %s %s)", c14Sq(a[0]), c14Sq(a[1]))
		if r != c14RefHasPrefix(a[0], a[1]) {
			bad = fmt.Sprintf("strings.HasPrefix %q %q = %v, but the second argument %s with the first", a[0], a[1], r, map[bool]string{true: "does not start", false: "starts"}[r])
		}
	case "hassuffix":
		r := fstrings.HasSuffix(a[0], a[1])
		got, req = fmt.Sprint(r), fmt.Sprintf("(str hassuffix %s %s)", c14Sq(a[0]), c14Sq(a[1]))
		if r != c14RefHasSuffix(a[0], a[1]) {
			bad = fmt.Sprintf("strings.HasSuffix %q %q = %v contradicts the specification", a[0], a[1], r)
		}
	case "trimsuffix":
		r := fstrings.TrimSuffix(a[0], a[1])
		got, req = c14Sq(r), fmt.Sprintf("(str trimsuffix %s %s)", c14Sq(a[0]), c14Sq(a[1]))
		want := a[1]
		if c14RefHasSuffix(a[0], a[1]) {
			want = a[1][:len(a[1])-len(a[0])]
		}
		if r != want {
			bad = fmt.Sprintf("strings.TrimSuffix %q %q = %q, expected %q", a[0], a[1], r, want)
		}
	case "split", "splitn":
		var r []string
		n := -1
		if c.Fn == "split" {
			r = fstrings.Split(a[0], a[1])
			req = fmt.Sprintf("(str split %s %s)", c14Sq(a[0]), c14Sq(a[1]))
		} else {
			n = c.N
			r = fstrings.SplitN(n, a[0], a[1])
			req = fmt.Sprintf("(str splitn %d %s %s)", n, c14Sq(a[0]), c14Sq(a[1]))
		}
		got = c14Qlist(r)
		name := fmt.Sprintf("strings.%s (n=%d) sep=%q s=%q = %q", c.Fn, n, a[0], a[1], r)
		sep, s := a[0], a[1]
		switch {
		case n == 0:
			if len(r) != 0 {
				bad = name + ": count 0 must give no piece"
			}
		case sep == "":
			if c14RefJoin("", r) != s {
				bad = name + ": the pieces do not concatenate to the subject"
			}
		default:
			if c14RefJoin(sep, r) != s {
				bad = name + ": Concat sep pieces is not the subject"
			} else if n > 0 && len(r) > n {
				bad = name + ": more pieces than the count"
			} else {
				for i, p := range r {
					last := i == len(r)-1
					if c14RefContains(sep, p) && (!last || n < 0 || len(r) < n) {
						bad = name + fmt.Sprintf(": piece %d contains the separator", i)
					}
				}
			}
		}
		if sep == "" && !c14IsASCII(s) {
			req = "" // the model splits bytes, Go splits UTF-8 sequences: outside the model
		}
	case "concat":
		r := fstrings.Concat(a[0], a[1:])
		got, req = c14Sq(r), fmt.Sprintf("(str concat %s %s)", c14Sq(a[0]), c14Qlist(a[1:]))
		if r != c14RefJoin(a[0], a[1:]) {
			bad = fmt.Sprintf("strings.Concat %q %q = %q", a[0], a[1:], r)
		}
	case "appendhead":
		r := fstrings.AppendHead(a[0], a[1])
		got, req = c14Sq(r), fmt.Sprintf("(str appendhead %s %s)", c14Sq(a[0]), c14Sq(a[1]))
		if r != a[0]+a[1] {
			bad = fmt.Sprintf("strings.AppendHead %q %q = %q", a[0], a[1], r)
		}
	case "appendtail":
		r := fstrings.AppendTail(a[0], a[1])
		got, req = c14Sq(r), fmt.Sprintf("(str appendtail %s %s)", c14Sq(a[0]), c14Sq(a[1]))
		if r != a[1]+a[0] {
			bad = fmt.Sprintf("strings.AppendTail %q %q = %q", a[0], a[1], r)
		}
	case "enclose":
		r := fstrings.EncloseWith(a[0], a[1], a[2])
		got, req = c14Sq(r), fmt.Sprintf("(str enclose %s %s %s)", c14Sq(a[0]), c14Sq(a[1]), c14Sq(a[2]))
		if r != a[0]+a[2]+a[1] {
			bad = fmt.Sprintf("strings.EncloseWith %q %q %q = %q", a[0], a[1], a[2], r)
		}
	case "length":
		r := fstrings.Length(a[0])
		got, req = fmt.Sprint(r), fmt.Sprintf("(str length %s)", c14Sq(a[0]))
		if r != len([]byte(a[0])) {
			bad = fmt.Sprintf("strings.Length %q = %d", a[0], r)
		}
	case "isempty":
		r := fstrings.IsEmpty(a[0])
		got, req = fmt.Sprint(r), fmt.Sprintf("(str isempty %s)", c14Sq(a[0]))
		if r != (len(a[0]) == 0) {
			bad = fmt.Sprintf("strings.IsEmpty %q = %v", a[0], r)
		}
	case "isnotempty":
		r := fstrings.IsNotEmpty(a[0])
		got, req = fmt.Sprint(r), fmt.Sprintf("(str isnotempty %s)", c14Sq(a[0]))
		if r != (len(a[0]) != 0) {
			bad = fmt.Sprintf("strings.IsNotEmpty %q = %v", a[0], r)
		}
	default:
		panic("unknown string fn " + c.Fn)
	}
	return
}

func c14CheckStr(c *Ctx, cs c14StrCase) {
	var got, req, bad string
	func() {
		defer func() {
			if r := recover(); r != nil {
				bad = fmt.Sprintf("strings.%s %q panics: %v", cs.Fn, cs.Args, r)
			}
		}()
		got, req, bad = c14RunStr(cs)
	}()
	c.Eval(fmt.Sprintf("str|%s|%q|%d", cs.Fn, cs.Args, cs.N), len(gostrings.Join(cs.Args, "")) > 0)
	c.Count("strings." + cs.Fn)
	for _, a := range cs.Args {
		if a == "" {
			c.Count("strings.arg=empty")
			break
		}
	}
	if !c14IsASCII(gostrings.Join(cs.Args, "")) {
		c.Count("strings.arg=multibyte")
	}
	if bad != "" {
		c.Violate("strings-"+cs.Fn, bad, map[string]any{"section": "strings", "case": cs}, false)
		return
	}
	if req == "" {
		c.Count("strings.outside_model(empty separator, non-ASCII)")
		return
	}
	want := c.Oracle().Ask("C14", req)
	c.Compared(1)
	if want != got {
		c.Disagree()
		// the property was checked directly on this input and holds: the correspondence broke
		c.Violate("corr-strings", fmt.Sprintf("model Strings.v and pkg/strings disagree on %s %q: model %s, code %s", cs.Fn, cs.Args, want, got),
			map[string]any{"section": "strings", "broken": "correspondence Pkg/Strings.v vs pkg/strings", "case": cs, "model": want, "code": got}, true)
	}
}

// ------------------------------------------------------------------ dict

type c14DictOp struct {
	Op string   `json:"op"` // new add has find item kvs keys values todict
	D  int      `json:"d"`
	K  string   `json:"k,omitempty"`
	V  int      `json:"v,omitempty"`
	KV []string `json:"kv,omitempty"` // todict: k0, v0, k1, v1, ...
}

type c14Shadow struct { // reference finite map: pairs, last write wins
	ks []string
	vs []int
}

func (s *c14Shadow) set(k string, v int) {
	for i := range s.ks {
		if s.ks[i] == k {
			s.vs[i] = v
			return
		}
	}
	s.ks = append(s.ks, k)
	s.vs = append(s.vs, v)
}
func (s *c14Shadow) get(k string) (int, bool) {
	for i := range s.ks {
		if s.ks[i] == k {
			return s.vs[i], true
		}
	}
	return 0, false
}

func c14GenDictHistory(r *Rng, n int) []c14DictOp {
	keys := []string{"a", "b", "c", "", "é", "k1", "k2", "a b"}
	if r.Chance(1, 3) {
		// record keys: "x|y" = {A: x; B: y}; several of them print alike
		keys = []string{"git|commit -m", "git commit|-m", "a|b", "a b|", "|a b", "a |b", "|", " |"}
	}
	ops := []c14DictOp{{Op: "new"}}
	nd := 1
	for len(ops) < n {
		d := r.Intn(nd)
		k := Choose(r, keys)
		switch r.Intn(16) {
		case 0:
			ops = append(ops, c14DictOp{Op: "new"})
			nd++
		case 1:
			var kv []string
			for i, m := 0, r.Intn(6); i < m; i++ {
				kv = append(kv, Choose(r, keys[:4]), strconv.Itoa(r.Intn(100)))
			}
			ops = append(ops, c14DictOp{Op: "todict", KV: kv})
			nd++
		case 2, 3, 4, 5, 6:
			ops = append(ops, c14DictOp{Op: "add", D: d, K: k, V: r.Intn(1000) - 100})
		case 7, 8:
			ops = append(ops, c14DictOp{Op: "has", D: d, K: k})
		case 9, 10:
			ops = append(ops, c14DictOp{Op: "find", D: d, K: k})
		case 11, 12:
			ops = append(ops, c14DictOp{Op: "item", D: d, K: k})
		case 13:
			ops = append(ops, c14DictOp{Op: "kvs", D: d})
		case 14:
			ops = append(ops, c14DictOp{Op: "keys", D: d})
		default:
			ops = append(ops, c14DictOp{Op: "values", D: d})
		}
	}
	return ops
}

func c14SortedJoin(xs []string) string {
	sort.Strings(xs)
	return gostrings.Join(xs, " ")
}

// runs a history on real dictionaries; returns per-op canonical results, the oracle request and
// the first property failure (checked against the shadow maps)
func c14RunDict(ops []c14DictOp) (results []string, req string, bad string) {
	for _, o := range ops {
		if gostrings.Contains(o.K, "|") || gostrings.Contains(gostrings.Join(o.KV, ""), "|") {
			// keys "x|y" stand for the record key {A: x; B: y}: distinct keys that print alike ({git commit -m})
			return c14RunDictK(ops, func(k string) c14PairKey {
				a, b, _ := gostrings.Cut(k, "|")
				return c14PairKey{a, b}
			})
		}
	}
	return c14RunDictK(ops, func(k string) string { return k })
}

type c14PairKey struct{ A, B string }

func c14RunDictK[K comparable](ops []c14DictOp, enc func(string) K) (results []string, req string, bad string) {
	back := map[K]string{}
	key := func(k string) K {
		e := enc(k)
		back[e] = k
		return e
	}
	var ds []dict.Dict[K, int]
	var sh []*c14Shadow
	var rq []string
	fail := func(i int, format string, a ...any) {
		if bad == "" {
			bad = fmt.Sprintf("operation %d (%s): ", i, ops[i].Op) + fmt.Sprintf(format, a...)
		}
	}
	for i, o := range ops {
		if o.Op != "new" && o.Op != "todict" && (o.D < 0 || o.D >= len(ds)) {
			results = append(results, "invalid")
			rq = append(rq, fmt.Sprintf("(has %d \"\")", o.D))
			continue
		}
		switch o.Op {
		case "new":
			ds = append(ds, dict.New[K, int]())
			sh = append(sh, &c14Shadow{})
			results = append(results, fmt.Sprintf("ref:%d", len(ds)-1))
			rq = append(rq, "(new)")
		case "todict":
			var tps []frt.Tuple2[K, int]
			s := &c14Shadow{}
			var q []string
			for j := 0; j+1 < len(o.KV); j += 2 {
				v, _ := strconv.Atoi(o.KV[j+1])
				tps = append(tps, frt.NewTuple2(key(o.KV[j]), v))
				s.set(o.KV[j], v)
				q = append(q, fmt.Sprintf("(%s %d)", c14Sq(o.KV[j]), v))
			}
			ds = append(ds, dict.ToDict(tps))
			sh = append(sh, s)
			results = append(results, fmt.Sprintf("ref:%d", len(ds)-1))
			rq = append(rq, "(todict ("+gostrings.Join(q, " ")+"))")
		case "add":
			alias := ds[o.D] // a copy of the struct shares the map
			dict.Add(alias, key(o.K), o.V)
			sh[o.D].set(o.K, o.V)
			results = append(results, "unit")
			rq = append(rq, fmt.Sprintf("(add %d %s %d)", o.D, c14Sq(o.K), o.V))
		case "has":
			r := dict.ContainsKey(ds[o.D], key(o.K))
			_, ok := sh[o.D].get(o.K)
			if r != ok {
				fail(i, "ContainsKey %q = %v but the key was %s", o.K, r, map[bool]string{true: "added", false: "never added"}[ok])
			}
			results = append(results, fmt.Sprintf("bool:%v", r))
			rq = append(rq, fmt.Sprintf("(has %d %s)", o.D, c14Sq(o.K)))
		case "find":
			v, found := frt.Destr2(dict.TryFind(ds[o.D], key(o.K)))
			sv, ok := sh[o.D].get(o.K)
			if found != ok || v != sv {
				fail(i, "TryFind %q = (%d, %v), the finite map has (%d, %v)", o.K, v, found, sv, ok)
			}
			results = append(results, fmt.Sprintf("find:%d:%v", v, found))
			rq = append(rq, fmt.Sprintf("(find %d %s)", o.D, c14Sq(o.K)))
		case "item":
			v := dict.Item(ds[o.D], key(o.K))
			sv, _ := sh[o.D].get(o.K)
			if v != sv {
				fail(i, "Item %q = %d, the finite map has %d", o.K, v, sv)
			}
			results = append(results, fmt.Sprintf("val:%d", v))
			rq = append(rq, fmt.Sprintf("(item %d %s)", o.D, c14Sq(o.K)))
		case "kvs":
			var got, want []string
			for _, tp := range dict.KVs(ds[o.D]) {
				got = append(got, fmt.Sprintf("%s=%d", c14Sq(back[tp.E0]), tp.E1))
			}
			for j := range sh[o.D].ks {
				want = append(want, fmt.Sprintf("%s=%d", c14Sq(sh[o.D].ks[j]), sh[o.D].vs[j]))
			}
			g, w := c14SortedJoin(got), c14SortedJoin(want)
			if g != w {
				fail(i, "KVs enumerates {%s}, the entries are {%s}", g, w)
			}
			results = append(results, "kvs:"+g)
			rq = append(rq, fmt.Sprintf("(kvs %d)", o.D))
		case "keys":
			var got, want []string
			for _, k := range dict.Keys(ds[o.D]) {
				got = append(got, c14Sq(back[k]))
			}
			for _, k := range sh[o.D].ks {
				want = append(want, c14Sq(k))
			}
			g, w := c14SortedJoin(got), c14SortedJoin(want)
			if g != w {
				fail(i, "Keys enumerates {%s}, the keys are {%s}", g, w)
			}
			results = append(results, "keys:"+g)
			rq = append(rq, fmt.Sprintf("(keys %d)", o.D))
		case "values":
			var got, want []string
			for _, v := range dict.Values(ds[o.D]) {
				got = append(got, strconv.Itoa(v))
			}
			for _, v := range sh[o.D].vs {
				want = append(want, strconv.Itoa(v))
			}
			g, w := c14SortedJoin(got), c14SortedJoin(want)
			if g != w {
				fail(i, "Values enumerates {%s}, the values are {%s}", g, w)
			}
			results = append(results, "vals:"+g)
			rq = append(rq, fmt.Sprintf("(values %d)", o.D))
		default:
			panic("unknown dict op " + o.Op)
		}
	}
	req = "(dict " + "ENUM " + gostrings.Join(rq, " ") + ")"
	return
}

func c14CheckDict(c *Ctx, r *Rng, ops []c14DictOp) {
	var results []string
	var req, bad string
	run := func(ops []c14DictOp) (res []string, rq string, b string) {
		defer func() {
			if p := recover(); p != nil {
				b = fmt.Sprintf("a dict operation panics: %v", p)
			}
		}()
		return c14RunDict(ops)
	}
	results, req, bad = run(ops)
	key := fmt.Sprintf("dict|%v", ops)
	c.Eval(key, len(ops) > 2)
	for _, o := range ops {
		c.Count("dict." + o.Op)
	}
	if bad != "" {
		small := Ddmin(ops, func(xs []c14DictOp) bool { _, _, b := run(xs); return b != "" })
		_, _, b2 := run(small)
		c.Violate("dict", "pkg/dict is not a finite map: "+b2, map[string]any{"section": "dict", "history": small}, false)
		return
	}
	rev := r.Bool()
	want := c.Oracle().Ask("C14", gostrings.Replace(req, "ENUM", fmt.Sprint(rev), 1))
	c.Compared(len(ops))
	if want != gostrings.Join(results, "\t") {
		c.Disagree()
		w := gostrings.Split(want, "\t")
		at := 0
		for at < len(w) && at < len(results) && w[at] == results[at] {
			at++
		}
		c.Violate("corr-dict", fmt.Sprintf("model Dict.v and pkg/dict disagree at operation %d of a history", at),
			map[string]any{"section": "dict", "broken": "correspondence Pkg/Dict.v vs pkg/dict", "history": ops, "model": w, "code": results}, true)
	}
}

// ------------------------------------------------------------------ buf

type c14BufOp struct {
	Op string `json:"op"` // new write string
	D  int    `json:"d"`
	S  string `json:"s,omitempty"`
}

func c14RunBuf(ops []c14BufOp) (results []string, req string, bad string) {
	var bs []buf.Buffer
	var want []string
	var rq []string
	for i, o := range ops {
		switch o.Op {
		case "new":
			bs = append(bs, buf.New())
			want = append(want, "")
			results = append(results, fmt.Sprintf("ref:%d", len(bs)-1))
			rq = append(rq, "(new)")
		case "write":
			alias := bs[o.D]
			buf.Write(alias, o.S)
			want[o.D] += o.S
			results = append(results, "unit")
			rq = append(rq, fmt.Sprintf("(write %d %s)", o.D, c14Sq(o.S)))
		case "string":
			s := buf.String(bs[o.D])
			if s != want[o.D] && bad == "" {
				bad = fmt.Sprintf("operation %d: buf.String = %q, the writes in order give %q", i, s, want[o.D])
			}
			results = append(results, "str:"+c14Sq(s))
			rq = append(rq, fmt.Sprintf("(string %d)", o.D))
		}
	}
	return results, "(buf " + gostrings.Join(rq, " ") + ")", bad
}

func c14CheckBuf(c *Ctx, r *Rng) {
	ops := []c14BufOp{{Op: "new"}}
	nb := 1
	for i, n := 0, 3+r.Intn(20); i < n; i++ {
		switch r.Intn(8) {
		case 0:
			ops = append(ops, c14BufOp{Op: "new"})
			nb++
		case 1, 2:
			ops = append(ops, c14BufOp{Op: "string", D: r.Intn(nb)})
		default:
			ops = append(ops, c14BufOp{Op: "write", D: r.Intn(nb), S: c14Word(r, 3)})
		}
	}
	ops = append(ops, c14BufOp{Op: "string", D: r.Intn(nb)})
	results, req, bad := c14RunBuf(ops)
	c.Eval(fmt.Sprintf("buf|%v", ops), true)
	c.Count("buf.history")
	if bad != "" {
		c.Violate("buf", "pkg/buf does not accumulate writes in order: "+bad, map[string]any{"section": "buf", "history": ops}, false)
		return
	}
	want := c.Oracle().Ask("C14", req)
	c.Compared(len(ops))
	if want != gostrings.Join(results, "\t") {
		c.Disagree()
		c.Violate("corr-buf", "model Buf.v and pkg/buf disagree on a history",
			map[string]any{"section": "buf", "broken": "correspondence Pkg/Buf.v vs pkg/buf", "history": ops, "model": want, "code": results}, true)
	}
}

// ------------------------------------------------------------------ frt: formatting

type c14S struct {
	A int
	B string
	C []bool
}

type c14Val struct {
	Kind string // Go kind name
	V    any
	Sexp string
	ToS  string // what toS must produce (reference)
}

func c14GenVal(r *Rng, kind string) c14Val {
	ints := []int64{0, 1, -1, 7, -128, 127, 255, -32768, 65535, 2147483647, -2147483648, 4294967295, 9223372036854775807, -9223372036854775808, 42}
	uints := []uint64{0, 1, 7, 127, 128, 255, 65535, 4294967295, 9223372036854775807, 9223372036854775808, 18446744073709551615}
	i := Choose(r, ints)
	u := Choose(r, uints)
	mk := func(v any, tag string, dec string) c14Val {
		return c14Val{Kind: kind, V: v, Sexp: fmt.Sprintf("(%s %s)", tag, dec), ToS: dec}
	}
	switch kind {
	case "int":
		return mk(int(i), "int", strconv.FormatInt(i, 10))
	case "int8":
		return mk(int8(i), "i8", strconv.FormatInt(int64(int8(i)), 10))
	case "int16":
		return mk(int16(i), "i16", strconv.FormatInt(int64(int16(i)), 10))
	case "int32":
		return mk(int32(i), "i32", strconv.FormatInt(int64(int32(i)), 10))
	case "int64":
		return mk(i, "i64", strconv.FormatInt(i, 10))
	case "uint":
		return mk(uint(u), "uint", strconv.FormatUint(u, 10))
	case "uint8":
		return mk(uint8(u), "u8", strconv.FormatUint(uint64(uint8(u)), 10))
	case "uint16":
		return mk(uint16(u), "u16", strconv.FormatUint(uint64(uint16(u)), 10))
	case "uint32":
		return mk(uint32(u), "u32", strconv.FormatUint(uint64(uint32(u)), 10))
	case "uint64":
		return mk(u, "u64", strconv.FormatUint(u, 10))
	case "uintptr":
		return mk(uintptr(u), "uptr", strconv.FormatUint(u, 10))
	case "float64":
		f := Choose(r, []float64{0, 1.5, -2.25, 3.14159265358979, 1e21, 1e-7, 123456.789})
		// floating-point formatting is not modelled: the operand carries its %f and %v renderings
		asF := fmt.Sprintf("%f", f)
		return c14Val{Kind: kind, V: f, Sexp: fmt.Sprintf("(f64 %s %s)", c14Sq(asF), c14Sq(fmt.Sprintf("%v", f))), ToS: asF}
	case "float32":
		f := Choose(r, []float32{0, 1.5, -2.25, 3.1415927, 0.1})
		asF := fmt.Sprintf("%f", float64(f))
		return c14Val{Kind: kind, V: f, Sexp: fmt.Sprintf("(f32 %s %s)", c14Sq(asF), c14Sq(fmt.Sprintf("%v", f))), ToS: asF}
	case "string":
		s := c14Word(r, 3)
		return c14Val{Kind: kind, V: s, Sexp: "(str " + c14Sq(s) + ")", ToS: s}
	case "bool":
		b := r.Bool()
		return c14Val{Kind: kind, V: b, Sexp: fmt.Sprintf("(bool %v)", b), ToS: fmt.Sprint(b)}
	case "struct":
		s := c14S{A: int(int8(i)), B: Choose(r, []string{"x", "", "p q"}), C: []bool{r.Bool()}}
		return c14Val{Kind: kind, V: s, Sexp: fmt.Sprintf("(struct (int %d) (str %s) (slice (bool %v)))", s.A, c14Sq(s.B), s.C[0]),
			ToS: fmt.Sprintf("{%d %s [%v]}", s.A, s.B, s.C[0])}
	case "slice":
		n := r.Intn(4)
		xs := make([]int, n)
		var sx, ts []string
		for j := range xs {
			xs[j] = r.Intn(200) - 100
			sx = append(sx, fmt.Sprintf("(int %d)", xs[j]))
			ts = append(ts, strconv.Itoa(xs[j]))
		}
		return c14Val{Kind: kind, V: xs, Sexp: "(slice " + gostrings.Join(sx, " ") + ")", ToS: "[" + gostrings.Join(ts, " ") + "]"}
	case "uslice":
		xs := []uint16{uint16(u), 3}
		return c14Val{Kind: kind, V: xs, Sexp: fmt.Sprintf("(slice (u16 %d) (u16 3))", xs[0]), ToS: fmt.Sprintf("[%d 3]", xs[0])}
	}
	panic("kind " + kind)
}

var c14Kinds = []string{"int", "int8", "int16", "int32", "int64", "uint", "uint8", "uint16", "uint32", "uint64", "uintptr",
	"float32", "float64", "string", "bool", "struct", "slice", "uslice"}

func c14Recover(f func() string) (out string, panicked string) {
	defer func() {
		if r := recover(); r != nil {
			panicked = fmt.Sprint(r)
		}
	}()
	return f(), ""
}

// reference for SInterP on formats made of text, %% and %s/%v: substitute the toS renderings
func c14RefInterp(format string, reps []string) (string, bool) {
	var sb gostrings.Builder
	k := 0
	for i := 0; i < len(format); i++ {
		if format[i] != '%' {
			sb.WriteByte(format[i])
			continue
		}
		i++
		if i >= len(format) {
			return "", false
		}
		switch format[i] {
		case '%':
			sb.WriteByte('%')
		case 's', 'v':
			if k >= len(reps) {
				return "", false
			}
			sb.WriteString(reps[k])
			k++
		default:
			return "", false
		}
	}
	return sb.String(), k == len(reps)
}

func c14CheckFormat(c *Ctx, r *Rng) {
	// --- SInterP with 0..3 operands of every kind
	n := Choose(r, []int{1, 1, 1, 2, 3, 0})
	var vals []c14Val
	var args []any
	var sx, reps, kinds []string
	for i := 0; i < n; i++ {
		v := c14GenVal(r, Choose(r, c14Kinds))
		vals = append(vals, v)
		args = append(args, v.V)
		sx = append(sx, v.Sexp)
		reps = append(reps, v.ToS)
		kinds = append(kinds, v.Kind)
		c.Count("frt.kind=" + v.Kind)
	}
	format := ""
	for i := 0; i < n; i++ {
		format += Choose(r, []string{"", "a ", "{", "100%% ", "é"}) + Choose(r, []string{"%s", "%s", "%v"})
	}
	format += Choose(r, []string{"", " end", "%%", "\n"})
	got, pan := c14Recover(func() string { return frt.SInterP(format, args...) })
	c.Eval(fmt.Sprintf("sinterp|%q|%v", format, sx), n > 0)
	c.Count("frt.SInterP")
	rep := map[string]any{"section": "sinterp", "format": format, "kinds": kinds, "operands": sx}
	if pan != "" {
		c.Violate("sinterp-panic", fmt.Sprintf("frt.SInterP %q on operands of kinds %v panics: %s", format, kinds, pan), rep, false)
	} else if want, ok := c14RefInterp(format, reps); ok && want != got {
		c.Violate("sinterp", fmt.Sprintf("frt.SInterP %q on %v = %q, expected %q", format, sx, got, want), rep, false)
	} else {
		m := c.Oracle().Ask("C14", fmt.Sprintf("(sinterp %s (%s))", c14Sq(format), gostrings.Join(sx, " ")))
		c.Compared(1)
		if m != "ok none" && m != "ok "+c14Sq(got) {
			c.Disagree()
			rep["broken"] = "correspondence Pkg/Frt.v SInterP vs frt.SInterP"
			rep["model"], rep["code"] = m, got
			c.Violate("corr-sinterp", fmt.Sprintf("model and frt.SInterP disagree on %q %v: model %s, code %q", format, sx, m, got), rep, true)
		}
	}
	// --- Sprintf1 / Sprintf2 with the verbs of the model
	v1 := c14GenVal(r, Choose(r, c14Kinds))
	v2 := c14GenVal(r, Choose(r, c14Kinds))
	verbFor := func(v c14Val) string {
		switch {
		case gostrings.HasPrefix(v.Kind, "int") || gostrings.HasPrefix(v.Kind, "uint"):
			return Choose(r, []string{"%d", "%v"})
		case gostrings.HasPrefix(v.Kind, "float"):
			return Choose(r, []string{"%f", "%v"})
		case v.Kind == "string":
			return Choose(r, []string{"%s", "%v"})
		case v.Kind == "bool":
			return Choose(r, []string{"%t", "%v"})
		}
		return "%v"
	}
	refVerb := func(verb string, v c14Val) string {
		if verb == "%v" && gostrings.HasPrefix(v.Kind, "float") {
			// %v of a float: shortest representation, taken from the operand description
			var a, b string
			fmt.Sscanf(v.Sexp[5:], "%q %q", &a, &b)
			return b
		}
		return v.ToS
	}
	f1 := Choose(r, []string{"", "x=", "%%"}) + verbFor(v1) + Choose(r, []string{"", "\n", "."})
	verb1 := f1[gostrings.LastIndex(f1, "%"):][:2]
	got1, pan1 := c14Recover(func() string {
		switch x := v1.V.(type) { // instantiate the generic at the operand's own type
		case int:
			return frt.Sprintf1(f1, x)
		case uint8:
			return frt.Sprintf1(f1, x)
		case uint64:
			return frt.Sprintf1(f1, x)
		case string:
			return frt.Sprintf1(f1, x)
		case float64:
			return frt.Sprintf1(f1, x)
		case c14S:
			return frt.Sprintf1(f1, x)
		case []int:
			return frt.Sprintf1(f1, x)
		}
		return frt.Sprintf1(f1, v1.V)
	})
	c.Eval(fmt.Sprintf("sprintf1|%q|%s", f1, v1.Sexp), true)
	c.Count("frt.Sprintf1")
	rep1 := map[string]any{"section": "sprintf1", "format": f1, "operand": v1.Sexp, "kind": v1.Kind}
	want1 := gostrings.Replace(gostrings.Replace(f1, verb1, "\x00", 1), "%%", "%", -1)
	want1 = gostrings.Replace(want1, "\x00", refVerb(verb1, v1), 1)
	if pan1 != "" {
		c.Violate("sprintf1-panic", fmt.Sprintf("frt.Sprintf1 %q on a %s panics: %s", f1, v1.Kind, pan1), rep1, false)
	} else if got1 != want1 {
		c.Violate("sprintf1", fmt.Sprintf("frt.Sprintf1 %q %s = %q, expected %q", f1, v1.Sexp, got1, want1), rep1, false)
	} else {
		m := c.Oracle().Ask("C14", fmt.Sprintf("(sprintf %s (%s))", c14Sq(f1), v1.Sexp))
		c.Compared(1)
		if m == "none" {
			c.Count("frt.sprintf.outside_model")
		} else if m != c14Sq(got1) {
			c.Disagree()
			rep1["model"], rep1["code"] = m, got1
			rep1["broken"] = "correspondence Pkg/Frt.v sprintf vs fmt.Sprintf via frt.Sprintf1"
			c.Violate("corr-sprintf1", fmt.Sprintf("model and frt.Sprintf1 disagree on %q %s: model %s, code %q", f1, v1.Sexp, m, got1), rep1, true)
		}
	}
	f2 := verbFor(v1) + Choose(r, []string{" ", ",", " and "}) + verbFor(v2)
	got2, pan2 := c14Recover(func() string { return frt.Sprintf2(f2, v1.V, v2.V) })
	c.Eval(fmt.Sprintf("sprintf2|%q|%s|%s", f2, v1.Sexp, v2.Sexp), true)
	c.Count("frt.Sprintf2")
	rep2 := map[string]any{"section": "sprintf2", "format": f2, "operands": []string{v1.Sexp, v2.Sexp}}
	if pan2 != "" {
		c.Violate("sprintf2-panic", fmt.Sprintf("frt.Sprintf2 %q on %s, %s panics: %s", f2, v1.Kind, v2.Kind, pan2), rep2, false)
	} else {
		vb1, vb2 := f2[:2], f2[len(f2)-2:]
		want2 := refVerb(vb1, v1) + f2[2:len(f2)-2] + refVerb(vb2, v2)
		if got2 != want2 {
			c.Violate("sprintf2", fmt.Sprintf("frt.Sprintf2 %q %s %s = %q, expected %q", f2, v1.Sexp, v2.Sexp, got2, want2), rep2, false)
		} else {
			m := c.Oracle().Ask("C14", fmt.Sprintf("(sprintf %s (%s %s))", c14Sq(f2), v1.Sexp, v2.Sexp))
			c.Compared(1)
			if m != "none" && m != c14Sq(got2) {
				c.Disagree()
				rep2["model"], rep2["code"] = m, got2
				rep2["broken"] = "correspondence Pkg/Frt.v sprintf vs fmt.Sprintf via frt.Sprintf2"
				c.Violate("corr-sprintf2", fmt.Sprintf("model and frt.Sprintf2 disagree on %q: model %s, code %q", f2, m, got2), rep2, true)
			}
		}
	}
}

// ------------------------------------------------------------------ frt: Pipe, conditionals, tuples

func c14CheckControl(c *Ctx, r *Rng) {
	or := c.Oracle()
	// Pipe / PipeUnit
	x := c14Word(r, 3)
	calls := 0
	got := frt.Pipe(x, func(s string) string { calls++; return s + "!" })
	c.Eval("pipe|"+x, true)
	c.Count("frt.Pipe")
	if got != x+"!" || calls != 1 {
		c.Violate("pipe", fmt.Sprintf("frt.Pipe %q f = %q with %d calls of f, expected f x = %q with one call", x, got, calls, x+"!"),
			map[string]any{"section": "pipe", "x": x}, false)
	} else if m := or.Ask("C14", "(pipe "+c14Sq(x)+")"); m != c14Sq(got) {
		c.Disagree()
		c.Violate("corr-pipe", "model Pipe and frt.Pipe disagree", map[string]any{"section": "pipe", "x": x, "model": m, "broken": "correspondence Frt.v Pipe"}, true)
	}
	var seen []string
	frt.PipeUnit(x, func(s string) { seen = append(seen, s) })
	if len(seen) != 1 || seen[0] != x {
		c.Violate("pipeunit", fmt.Sprintf("frt.PipeUnit %q f called f with %q", x, seen), map[string]any{"section": "pipeunit", "x": x}, false)
	}
	n := r.Intn(100)
	if g := frt.Pipe(n, func(i int) []int { return []int{i, i} }); len(g) != 2 || g[0] != n {
		c.Violate("pipe", "frt.Pipe n f is not f n on ints", map[string]any{"section": "pipe", "n": n}, false)
	}
	// conditionals over logging thunks
	for _, cond := range []bool{true, false} {
		var log []string
		v := frt.IfElse(cond, func() string { log = append(log, "T"); return "true" }, func() string { log = append(log, "F"); return "false" })
		wantLog := map[bool]string{true: "T", false: "F"}[cond]
		c.Eval(fmt.Sprintf("ifelse|%v", cond), true)
		c.Count("frt.IfElse")
		if gostrings.Join(log, "") != wantLog || v != fmt.Sprint(cond) {
			c.Violate("ifelse", fmt.Sprintf("frt.IfElse %v ran thunks %v and returned %q; exactly the %v branch must run", cond, log, v, cond),
				map[string]any{"section": "ifelse", "cond": cond}, false)
		} else if m := or.Ask("C14", fmt.Sprintf("(ifelse %v)", cond)); m != wantLog+" "+v {
			c.Disagree()
			c.Violate("corr-ifelse", "model IfElse and frt.IfElse disagree", map[string]any{"section": "ifelse", "cond": cond, "model": m, "broken": "correspondence Frt.v IfElse"}, true)
		}
		log = nil
		frt.IfElseUnit(cond, func() { log = append(log, "T") }, func() { log = append(log, "F") })
		c.Eval(fmt.Sprintf("ifelseunit|%v", cond), true)
		c.Count("frt.IfElseUnit")
		if gostrings.Join(log, "") != wantLog {
			c.Violate("ifelseunit", fmt.Sprintf("frt.IfElseUnit %v ran thunks %v", cond, log), map[string]any{"section": "ifelseunit", "cond": cond}, false)
		} else if m := or.Ask("C14", fmt.Sprintf("(ifelseunit %v)", cond)); m != "["+wantLog+"]" {
			c.Disagree()
			c.Violate("corr-ifelseunit", "model IfElseUnit and frt.IfElseUnit disagree", map[string]any{"section": "ifelseunit", "cond": cond, "model": m, "broken": "correspondence Frt.v IfElseUnit"}, true)
		}
		log = nil
		frt.IfOnly(cond, func() { log = append(log, "T") })
		wantOnly := map[bool]string{true: "T", false: ""}[cond]
		c.Eval(fmt.Sprintf("ifonly|%v", cond), true)
		c.Count("frt.IfOnly")
		if gostrings.Join(log, "") != wantOnly {
			c.Violate("ifonly", fmt.Sprintf("frt.IfOnly %v ran its thunk %d times", cond, len(log)), map[string]any{"section": "ifonly", "cond": cond}, false)
		} else if m := or.Ask("C14", fmt.Sprintf("(ifonly %v)", cond)); m != "["+wantOnly+"]" {
			c.Disagree()
			c.Violate("corr-ifonly", "model IfOnly and frt.IfOnly disagree", map[string]any{"section": "ifonly", "cond": cond, "model": m, "broken": "correspondence Frt.v IfOnly"}, true)
		}
	}
	// tuples
	a, b, d := c14Word(r, 2)+"1", c14Word(r, 2)+"2", c14Word(r, 2)+"3"
	t2 := frt.NewTuple2(a, b)
	x0, x1 := frt.Destr2(t2)
	y0, y1 := frt.Destr(t2)
	c.Eval("tuple2|"+a+"|"+b, true)
	c.Count("frt.Tuple2")
	if frt.Fst(t2) != a || frt.Snd(t2) != b || x0 != a || x1 != b || y0 != a || y1 != b || frt.NewTuple2(frt.Fst(t2), frt.Snd(t2)) != t2 {
		c.Violate("tuple2", fmt.Sprintf("tuple round trip fails: NewTuple2 %q %q gives Fst %q Snd %q Destr2 (%q, %q)", a, b, frt.Fst(t2), frt.Snd(t2), x0, x1),
			map[string]any{"section": "tuple2", "a": a, "b": b}, false)
	} else if m := or.Ask("C14", fmt.Sprintf("(tuple2 %s %s)", c14Sq(a), c14Sq(b))); m != gostrings.Join([]string{c14Sq(a), c14Sq(b), c14Sq(x0), c14Sq(x1)}, " ") {
		c.Disagree()
		c.Violate("corr-tuple2", "model tuples and frt tuples disagree", map[string]any{"section": "tuple2", "model": m, "broken": "correspondence Frt.v Tuple2"}, true)
	}
	t3 := frt.NewTuple3(a, b, d)
	z0, z1, z2 := frt.Destr3(t3)
	c.Eval("tuple3|"+a+"|"+b+"|"+d, true)
	c.Count("frt.Tuple3")
	if z0 != a || z1 != b || z2 != d || frt.NewTuple3(z0, z1, z2) != t3 {
		c.Violate("tuple3", fmt.Sprintf("Destr3 (NewTuple3 %q %q %q) = (%q, %q, %q)", a, b, d, z0, z1, z2), map[string]any{"section": "tuple3", "a": a, "b": b, "c": d}, false)
	} else if m := or.Ask("C14", fmt.Sprintf("(tuple3 %s %s %s)", c14Sq(a), c14Sq(b), c14Sq(d))); m != gostrings.Join([]string{c14Sq(z0), c14Sq(z1), c14Sq(z2)}, " ") {
		c.Disagree()
		c.Violate("corr-tuple3", "model tuples and frt tuples disagree", map[string]any{"section": "tuple3", "model": m, "broken": "correspondence Frt.v Tuple3"}, true)
	}
	// mixed-type tuples
	m2 := frt.NewTuple2(n, a)
	if frt.Fst(m2) != n || frt.Snd(m2) != a {
		c.Violate("tuple2", "Fst/Snd on a mixed tuple", map[string]any{"section": "tuple2", "n": n, "a": a}, false)
	}
}

// ------------------------------------------------------------------ main

func runC14(c *Ctx) {
	rng := NewRng(c.Seed)
	c.Res.Rule = "strings: every wrapper on arguments built from a small alphabet (empty strings, separator at the ends, repeated and overlapping separators, multi-byte); " +
		"dict: random histories (new/add/has/find/item/kvs/keys/values/todict, 8 keys so that overwrites are frequent, several dictionaries, aliases); " +
		"buf: random write histories on several buffers; frt: Pipe, conditionals on logging thunks, tuples, SInterP/Sprintf1/Sprintf2 over int8..int64, uint8..uint64, uintptr, float32/64, string, bool, struct, slices; " +
		"non-trivial = not all arguments empty / history longer than 2; distinct by the full case"
	if c.Replay != "" {
		c14Replay(c)
		return
	}
	// boundary corpus first
	for _, cs := range []c14StrCase{
		{Fn: "hasprefix", Args: []string{"ab", "abc"}}, {Fn: "hasprefix", Args: []string{"abc", "ab"}}, {Fn: "hasprefix", Args: []string{"", ""}},
		{Fn: "hassuffix", Args: []string{".fo", "a.fo"}}, {Fn: "hassuffix", Args: []string{"a.fo", ".fo"}},
		{Fn: "trimsuffix", Args: []string{".fo", "a.fo"}}, {Fn: "trimsuffix", Args: []string{".fo", ".fo"}}, {Fn: "trimsuffix", Args: []string{"a.fo", ".fo"}},
		{Fn: "split", Args: []string{",", ""}}, {Fn: "split", Args: []string{",", ","}}, {Fn: "split", Args: []string{",", ",a,,b,"}},
		{Fn: "split", Args: []string{"aa", "aaa"}}, {Fn: "split", Args: []string{"", "abc"}}, {Fn: "split", Args: []string{"", ""}},
		{Fn: "split", Args: []string{"a,b", ","}},
		{Fn: "splitn", Args: []string{" ", "a b c"}, N: 2}, {Fn: "splitn", Args: []string{" ", "abc"}, N: 2}, {Fn: "splitn", Args: []string{" ", " a"}, N: 2},
		{Fn: "splitn", Args: []string{",", "a,b,c"}, N: 0}, {Fn: "splitn", Args: []string{",", "a,b,c"}, N: -1}, {Fn: "splitn", Args: []string{",", "a,b,c"}, N: 100},
		{Fn: "splitn", Args: []string{"", "abc"}, N: 2}, {Fn: "splitn", Args: []string{"", "é日"}, N: -1},
		{Fn: "concat", Args: []string{","}}, {Fn: "concat", Args: []string{",", "a"}}, {Fn: "concat", Args: []string{",", "", ""}},
		{Fn: "enclose", Args: []string{"(", ")", "x"}}, {Fn: "appendhead", Args: []string{"h", "s"}}, {Fn: "appendtail", Args: []string{"t", "s"}},
		{Fn: "length", Args: []string{"é"}}, {Fn: "isempty", Args: []string{""}}, {Fn: "isnotempty", Args: []string{""}},
	} {
		c14CheckStr(c, cs)
	}
	c14CheckDict(c, rng, []c14DictOp{{Op: "new"}, {Op: "add", D: 0, K: "a", V: 1}, {Op: "add", D: 0, K: "a", V: 2}, {Op: "find", D: 0, K: "a"},
		{Op: "kvs", D: 0}, {Op: "todict", KV: []string{"x", "1", "y", "5", "x", "2"}}, {Op: "item", D: 1, K: "x"}, {Op: "item", D: 1, K: "zz"}, {Op: "values", D: 1}})
	nStr := c.Pick(6000, 200000)
	for i := 0; i < nStr; i++ {
		c14CheckStr(c, c14GenStr(rng))
	}
	c.Lap("strings")
	nDict := c.Pick(600, 20000)
	for i := 0; i < nDict; i++ {
		c14CheckDict(c, rng, c14GenDictHistory(rng, 2+rng.Intn(Choose(rng, []int{6, 20, 60}))))
	}
	c.Lap("dict")
	for i, n := 0, c.Pick(400, 20000); i < n; i++ {
		c14CheckBuf(c, rng)
	}
	c.Lap("buf")
	// every kind at least once, deterministically, then random
	for _, k := range c14Kinds {
		v := c14GenVal(rng, k)
		got, pan := c14Recover(func() string { return frt.SInterP("%s", v.V) })
		c.Eval("sinterp1|"+v.Sexp, true)
		c.Count("frt.kind=" + k)
		if pan != "" {
			c.Violate("sinterp-panic", fmt.Sprintf("frt.SInterP \"%%s\" on a %s (%s) panics: %s", k, v.Sexp, pan), map[string]any{"section": "sinterp", "format": "%s", "kinds": []string{k}, "operands": []string{v.Sexp}}, false)
		} else if got != v.ToS {
			c.Violate("sinterp", fmt.Sprintf("frt.SInterP \"%%s\" %s = %q, expected %q", v.Sexp, got, v.ToS), map[string]any{"section": "sinterp", "format": "%s", "kinds": []string{k}, "operands": []string{v.Sexp}}, false)
		}
	}
	for i, n := 0, c.Pick(3000, 100000); i < n; i++ {
		c14CheckFormat(c, rng)
	}
	c.Lap("format")
	for i, n := 0, c.Pick(300, 10000); i < n; i++ {
		c14CheckControl(c, rng)
	}
	c.Lap("control")
	c.Sample(map[string]any{"strings": c14GenStr(rng), "dict_history": c14GenDictHistory(rng, 8)})
}

// replay: re-run the case stored in a replay file (strings case or dict/buf history; the
// formatting cases are re-generated from the seed, their operands are Go values)
func c14Replay(c *Ctx) {
	var doc struct {
		Replay struct {
			Section string      `json:"section"`
			Case    *c14StrCase `json:"case"`
			History []c14DictOp `json:"history"`
		} `json:"replay"`
	}
	b, err := os.ReadFile(c.Replay)
	if err != nil {
		panic(err)
	}
	if err := jsonUnmarshal(b, &doc); err != nil {
		panic(err)
	}
	switch doc.Replay.Section {
	case "strings":
		c14CheckStr(c, *doc.Replay.Case)
	case "dict":
		c14CheckDict(c, NewRng(c.Seed), doc.Replay.History)
	default:
		rng := NewRng(c.Seed)
		for i := 0; i < 3000; i++ {
			c14CheckFormat(c, rng)
			c14CheckControl(c, rng)
		}
	}
}

func init() { Register("C14", runC14) }
