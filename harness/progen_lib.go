package main

// The library functions available to (ext …) — the table of FORMAT.md, with type variables.

import "strings"

type ExtSig struct {
	Name    string
	Params  []*Type
	Ret     *Type
	Fmt     bool     // the first parameter is a format literal (frt.Printf1 / frt.Sprintf1)
	Partial bool     // has a domain condition (may be stuck): Head, Tail, Last, Item, Take, Skip, Zip
	Ordered []string // type variables restricted to int / string (slice.Sort)
	Tiny    bool     // part of the tinyfo profile's own package_info
}

func tv(n string) *Type { return &Type{K: TVar, Name: n} }

var extTable = func() map[string]*ExtSig {
	T, U, S := tv("T"), tv("U"), tv("S")
	sl := tSlice
	fn := func(ret *Type, ps ...*Type) *Type { return tFun(ps, ret) }
	list := []*ExtSig{
		{Name: "frt.Println", Params: []*Type{tString}, Ret: tUnit, Tiny: true},
		{Name: "frt.Printf1", Params: []*Type{tString, T}, Ret: tUnit, Fmt: true, Tiny: true},
		{Name: "frt.Sprintf1", Params: []*Type{tString, T}, Ret: tString, Fmt: true, Tiny: true},
		{Name: "frt.Fst", Params: []*Type{tTuple(T, U)}, Ret: T, Tiny: true},
		{Name: "frt.Snd", Params: []*Type{tTuple(T, U)}, Ret: U, Tiny: true},
		{Name: "slice.Length", Params: []*Type{sl(T)}, Ret: tInt, Tiny: true},
		{Name: "slice.Head", Params: []*Type{sl(T)}, Ret: T, Partial: true, Tiny: true},
		{Name: "slice.Tail", Params: []*Type{sl(T)}, Ret: sl(T), Partial: true, Tiny: true},
		{Name: "slice.Last", Params: []*Type{sl(T)}, Ret: T, Partial: true, Tiny: true},
		{Name: "slice.Item", Params: []*Type{tInt, sl(T)}, Ret: T, Partial: true, Tiny: true},
		{Name: "slice.Take", Params: []*Type{tInt, sl(T)}, Ret: sl(T), Partial: true, Tiny: true},
		{Name: "slice.Skip", Params: []*Type{tInt, sl(T)}, Ret: sl(T), Partial: true, Tiny: true},
		{Name: "slice.PushLast", Params: []*Type{T, sl(T)}, Ret: sl(T), Tiny: true},
		{Name: "slice.PushHead", Params: []*Type{T, sl(T)}, Ret: sl(T), Tiny: true},
		{Name: "slice.Append", Params: []*Type{sl(T), sl(T)}, Ret: sl(T), Tiny: true},
		{Name: "slice.IsEmpty", Params: []*Type{sl(T)}, Ret: tBool, Tiny: true},
		{Name: "slice.IsNotEmpty", Params: []*Type{sl(T)}, Ret: tBool, Tiny: true},
		{Name: "slice.Map", Params: []*Type{fn(U, T), sl(T)}, Ret: sl(U), Tiny: true},
		{Name: "slice.Mapi", Params: []*Type{fn(U, tInt, T), sl(T)}, Ret: sl(U)},
		{Name: "slice.Filter", Params: []*Type{fn(tBool, T), sl(T)}, Ret: sl(T), Tiny: true},
		{Name: "slice.Iter", Params: []*Type{fn(tUnit, T), sl(T)}, Ret: tUnit, Tiny: true},
		{Name: "slice.Fold", Params: []*Type{fn(S, S, T), S, sl(T)}, Ret: S},
		{Name: "slice.Forall", Params: []*Type{fn(tBool, T), sl(T)}, Ret: tBool, Tiny: true},
		{Name: "slice.Forany", Params: []*Type{fn(tBool, T), sl(T)}, Ret: tBool, Tiny: true},
		{Name: "slice.Sort", Params: []*Type{sl(T)}, Ret: sl(T), Ordered: []string{"T"}},
		{Name: "slice.Zip", Params: []*Type{sl(T), sl(U)}, Ret: sl(tTuple(T, U)), Partial: true},
		{Name: "strings.Length", Params: []*Type{tString}, Ret: tInt, Tiny: true},
		{Name: "strings.Concat", Params: []*Type{tString, sl(tString)}, Ret: tString, Tiny: true},
		{Name: "strings.HasPrefix", Params: []*Type{tString, tString}, Ret: tBool, Tiny: true},
		{Name: "strings.HasSuffix", Params: []*Type{tString, tString}, Ret: tBool, Tiny: true},
		{Name: "strings.AppendHead", Params: []*Type{tString, tString}, Ret: tString, Tiny: true},
		{Name: "strings.AppendTail", Params: []*Type{tString, tString}, Ret: tString, Tiny: true},
		{Name: "strings.Split", Params: []*Type{tString, tString}, Ret: sl(tString), Partial: true, Tiny: true},
	}
	m := map[string]*ExtSig{}
	for _, s := range list {
		m[s.Name] = s
	}
	return m
}()

var extNames = SortedKeys(extTable)

func extPkg(name string) string {
	p, _, _ := strings.Cut(name, ".")
	return p
}

// subst applies a type-variable substitution.
func (t *Type) subst(s map[string]*Type) *Type {
	if t.K == TVar {
		if u, ok := s[t.Name]; ok {
			return u
		}
		return t
	}
	if len(t.Elems) == 0 {
		return t
	}
	es := make([]*Type, len(t.Elems))
	for i, e := range t.Elems {
		es[i] = e.subst(s)
	}
	return &Type{K: t.K, Name: t.Name, Elems: es}
}

func (t *Type) hasVar() bool {
	if t.K == TVar {
		return true
	}
	for _, e := range t.Elems {
		if e.hasVar() {
			return true
		}
	}
	return false
}

func (t *Type) vars(acc map[string]bool) {
	if t.K == TVar {
		acc[t.Name] = true
	}
	for _, e := range t.Elems {
		e.vars(acc)
	}
}

// unify matches a signature pattern (with variables) against a closed type, extending s.
func unify(pat, act *Type, s map[string]*Type) bool {
	if pat.K == TVar {
		if u, ok := s[pat.Name]; ok {
			return u.Equal(act)
		}
		s[pat.Name] = act
		return true
	}
	if pat.K != act.K || pat.Name != act.Name || len(pat.Elems) != len(act.Elems) {
		return false
	}
	for i := range pat.Elems {
		if !unify(pat.Elems[i], act.Elems[i], s) {
			return false
		}
	}
	return true
}

// fmtVerb returns the single verb of a format literal ("d", "s", "v") or "" when the literal is not
// of the supported shape: text without '%' around exactly one of %d %s %v.
func fmtVerb(f string) string {
	i := strings.IndexByte(f, '%')
	if i < 0 || i+1 >= len(f) {
		return ""
	}
	v := f[i+1 : i+2]
	if v != "d" && v != "s" && v != "v" {
		return ""
	}
	if strings.IndexByte(f[i+2:], '%') >= 0 {
		return ""
	}
	return v
}

// verbAccepts: which operand types a verb is used with (FORMAT.md table).
func verbAccepts(verb string, t *Type) bool {
	base := func(t *Type) bool { return t.K == TInt || t.K == TString || t.K == TBool }
	switch verb {
	case "d":
		return t.K == TInt
	case "s":
		return t.K == TString
	case "v":
		return base(t) || t.K == TSlice && base(t.Elem())
	}
	return false
}
