package main

// C15: type expressions map to Go types by the documented grammar.
// Enumerates type expressions (all constructor shapes up to a depth bound, leaves rotated over the
// base types, minimal and redundant parentheses, random token spacing), writes each into each of
// the syntactic positions (parameter annotation, record field, union payload, package_info
// signature, explicit type argument), transpiles with the hooked in-process fc (and a sample with
// real fc processes), reads the Go type text at that position from the emitted Go with go/parser
// and compares it (i) with render(parse_type tokens) from the Coq model and (ii) with an
// independent Go-side rendering of the generator's own tree written from the documentation.

import (
	"fmt"
	"go/ast"
	"go/parser"
	"go/token"
	"go/types"
	"os"
	"path/filepath"
	"strings"
)

type c15T struct {
	K    string  `json:"k"` // base | unit | slice | tuple | func | named
	Name string  `json:"name,omitempty"`
	Kids []*c15T `json:"kids,omitempty"`
	P    int     `json:"p,omitempty"` // redundant parenthesis pairs around this node
}

type c15Item struct {
	Idx     int      `json:"idx"`
	Pos     string   `json:"pos"` // param | field | payload | sig | siglocal | targ
	T       *c15T    `json:"type"`
	Variant string   `json:"variant"` // minimal | redundant
	Toks    []string `json:"toks"`
	Text    string   `json:"text"`          // the type expression as written in the source
	Scn     string   `json:"scn,omitempty"` // scenario family: "" | shadow | fwd | inst
	Arg     *c15T    `json:"arg,omitempty"` // inst: the explicit type argument substituted for T
	ArgText string   `json:"arg_text,omitempty"`
}

// the prefix a position lets the source omit: names of the enclosing package_info block
func c15Strip(pos string) string {
	switch pos {
	case "siglocal":
		return "ext."
	case "siglexer":
		return "lexer."
	}
	return ""
}

func c15Base(n string) *c15T { return &c15T{K: "base", Name: n} }

func (t *c15T) clone() *c15T {
	if t == nil {
		return nil
	}
	u := &c15T{K: t.K, Name: t.Name, P: t.P}
	for _, k := range t.Kids {
		u.Kids = append(u.Kids, k.clone())
	}
	return u
}

func (t *c15T) depth() int {
	d := 0
	for _, k := range t.Kids {
		kd := 1 // a nil kid is a leaf placeholder
		if k != nil {
			kd = k.depth() + 1
		}
		if kd > d {
			d = kd
		}
	}
	return d
}

func (t *c15T) size() int {
	n := 1 + t.P
	for _, k := range t.Kids {
		n += k.size()
	}
	return n
}

// tokens of the type at level lv (0 type, 1 arrow component, 2 tuple component / slice element)
func (t *c15T) toks(lv int, strip string) []string {
	var core []string
	need := false
	join := func(sep string, lvk int) {
		for i, k := range t.Kids {
			if i > 0 {
				core = append(core, sep)
			}
			core = append(core, k.toks(lvk, strip)...)
		}
	}
	switch t.K {
	case "base":
		core = []string{t.Name}
	case "unit":
		core = []string{"(", ")"}
	case "slice":
		core = append([]string{"[", "]"}, t.Kids[0].toks(2, strip)...)
	case "tuple":
		need = lv >= 2
		join("*", 2)
	case "func":
		need = lv >= 1
		join("->", 1)
	case "named":
		name := t.Name
		if strip != "" {
			name = strings.TrimPrefix(name, strip)
		}
		for i, p := range strings.Split(name, ".") {
			if i > 0 {
				core = append(core, ".")
			}
			core = append(core, p)
		}
		if len(t.Kids) > 0 {
			core = append(core, "<")
			join(",", 0)
			core = append(core, ">")
		}
	}
	n := t.P
	if need && n == 0 {
		n = 1
	}
	var out []string
	for i := 0; i < n; i++ {
		out = append(out, "(")
	}
	out = append(out, core...)
	for i := 0; i < n; i++ {
		out = append(out, ")")
	}
	return out
}

var c15TokName = map[string]string{"(": "LP", ")": "RP", "[": "LB", "]": "RB", "*": "AST", "->": "ARROW",
	"<": "LT", ">": "GT", ",": "COMMA", ".": "DOT"}

func c15TokSexp(toks []string) string {
	var xs []string
	for _, t := range toks {
		if n, ok := c15TokName[t]; ok {
			xs = append(xs, n)
		} else {
			xs = append(xs, Sq(t))
		}
	}
	return "(" + strings.Join(xs, " ") + ")"
}

// the generator's own tree without decoration, in the oracle's ast syntax
func (t *c15T) astSexp(strip string) string {
	kids := func() string {
		var xs []string
		for _, k := range t.Kids {
			xs = append(xs, k.astSexp(strip))
		}
		return strings.Join(xs, " ")
	}
	switch t.K {
	case "base":
		return t.Name
	case "unit":
		return "unit"
	case "slice":
		return "(slice " + kids() + ")"
	case "tuple":
		return "(tuple " + kids() + ")"
	case "func":
		return "(func " + kids() + ")"
	}
	name := t.Name
	if strip != "" {
		name = strings.TrimPrefix(name, strip)
	}
	if len(t.Kids) == 0 {
		return "(named " + Sq(name) + ")"
	}
	return "(named " + Sq(name) + " " + kids() + ")"
}

// The documented mapping, written from docs/specs/note.md ("float is float64", slice/tuple
// precedence, generics syntax), docs/tutorials/4_CallingGoWrapper.md (A->B->C is func (A,B) C: the
// part after the last arrow is the result, the rest are the parameters) and the property text:
// independent of the Coq model and of fc.
func (t *c15T) docGo() string {
	var ks []string
	for _, k := range t.Kids {
		ks = append(ks, k.docGo())
	}
	switch t.K {
	case "base":
		if t.Name == "float" {
			return "float64"
		}
		return t.Name
	case "unit":
		return ""
	case "slice":
		return "[]" + ks[0]
	case "tuple":
		return fmt.Sprintf("frt.Tuple%d[%s]", len(ks), strings.Join(ks, ", "))
	case "func":
		n := len(ks)
		s := "func (" + strings.Join(ks[:n-1], ",") + ")"
		if ks[n-1] != "" {
			s += " " + ks[n-1]
		}
		return s
	}
	if len(ks) == 0 {
		return t.Name
	}
	return t.Name + "[" + strings.Join(ks, ", ") + "]"
}

const c15EnvGlobal = `(("G" "G" 1) ("R0" "R0" 0) ("ext.Box" "ext.Box" 1) ("ext.Pair" "ext.Pair" 2) ("ext.Plain" "ext.Plain" 0))`
const c15EnvLocal = `(("G" "G" 1) ("R0" "R0" 0) ("Box" "ext.Box" 1) ("Pair" "ext.Pair" 2) ("Plain" "ext.Plain" 0))`

// ---------------------------------------------------------------- enumeration

type c15Ctor struct {
	name  string
	arity int
	build func(kids []*c15T) *c15T
}

func c15Ctors(full bool) []c15Ctor {
	unit := func() *c15T { return &c15T{K: "unit"} }
	cs := []c15Ctor{
		{"slice", 1, func(k []*c15T) *c15T { return &c15T{K: "slice", Kids: k} }},
		{"tup2", 2, func(k []*c15T) *c15T { return &c15T{K: "tuple", Kids: k} }},
		{"fun1", 2, func(k []*c15T) *c15T { return &c15T{K: "func", Kids: k} }},
		{"ext.Box", 1, func(k []*c15T) *c15T { return &c15T{K: "named", Name: "ext.Box", Kids: k} }},
	}
	if full {
		cs = append(cs,
			c15Ctor{"tup3", 3, func(k []*c15T) *c15T { return &c15T{K: "tuple", Kids: k} }},
			c15Ctor{"fun2", 3, func(k []*c15T) *c15T { return &c15T{K: "func", Kids: k} }},
			c15Ctor{"funUnitArg", 1, func(k []*c15T) *c15T { return &c15T{K: "func", Kids: []*c15T{unit(), k[0]}} }},
			c15Ctor{"funUnitRes", 1, func(k []*c15T) *c15T { return &c15T{K: "func", Kids: []*c15T{k[0], unit()}} }},
			c15Ctor{"G", 1, func(k []*c15T) *c15T { return &c15T{K: "named", Name: "G", Kids: k} }},
			c15Ctor{"ext.Pair", 2, func(k []*c15T) *c15T { return &c15T{K: "named", Name: "ext.Pair", Kids: k} }},
		)
	}
	return cs
}

// all shapes of depth <= d over the constructor set; leaves are nil placeholders
func c15Shapes(d int, cs []c15Ctor) []*c15T {
	if d == 0 {
		return []*c15T{nil}
	}
	sub := c15Shapes(d-1, cs)
	out := []*c15T{nil}
	for _, c := range cs {
		idx := make([]int, c.arity)
		for {
			kids := make([]*c15T, c.arity)
			for i, j := range idx {
				if sub[j] != nil {
					kids[i] = sub[j].clone()
				}
			}
			out = append(out, c.build(kids))
			i := c.arity - 1
			for i >= 0 {
				idx[i]++
				if idx[i] < len(sub) {
					break
				}
				idx[i] = 0
				i--
			}
			if i < 0 {
				break
			}
		}
	}
	return out
}

var c15Leaves = []*c15T{c15Base("int"), c15Base("string"), c15Base("bool"), c15Base("float"), c15Base("any"),
	{K: "named", Name: "R0"}, {K: "named", Name: "ext.Plain"}}

// fill nil placeholders with leaves, rotating from *ctr
func c15Fill(t *c15T, ctr *int) *c15T {
	if t == nil {
		l := c15Leaves[*ctr%len(c15Leaves)].clone()
		*ctr++
		return l
	}
	if t.K == "unit" {
		return t
	}
	for i, k := range t.Kids {
		t.Kids[i] = c15Fill(k, ctr)
	}
	return t
}

// depth-1 types with every leaf assignment (exhaustive over the 7 leaves)
func c15Depth1All() []*c15T {
	var out []*c15T
	for _, l := range c15Leaves {
		out = append(out, l.clone())
	}
	for _, c := range c15Ctors(true) {
		idx := make([]int, c.arity)
		for {
			kids := make([]*c15T, c.arity)
			for i, j := range idx {
				kids[i] = c15Leaves[j].clone()
			}
			out = append(out, c.build(kids))
			i := c.arity - 1
			for i >= 0 {
				idx[i]++
				if idx[i] < len(c15Leaves) {
					break
				}
				idx[i] = 0
				i--
			}
			if i < 0 {
				break
			}
		}
	}
	out = append(out, &c15T{K: "func", Kids: []*c15T{{K: "unit"}, {K: "unit"}}})
	return out
}

func c15Random(rng *Rng, depth int) *c15T {
	if depth == 0 || rng.Chance(1, 5) {
		return Choose(rng, c15Leaves).clone()
	}
	cs := c15Ctors(true)
	c := cs[rng.Intn(len(cs))]
	kids := make([]*c15T, c.arity)
	for i := range kids {
		kids[i] = c15Random(rng, depth-1)
	}
	if c.name == "tup2" && rng.Chance(1, 6) { // longer tuples / argument lists as well
		kids = append(kids, c15Random(rng, depth-1), c15Random(rng, depth-1))
	}
	return c.build(kids)
}

func (t *c15T) decorate(rng *Rng, all bool) {
	if t.K != "unit" {
		if all {
			t.P = 1
		} else if rng.Chance(2, 5) {
			t.P = 1 + rng.Intn(2)
		}
	}
	for _, k := range t.Kids {
		k.decorate(rng, all)
	}
}

func c15Spacing(rng *Rng, toks []string, mode int) string {
	var b strings.Builder
	for i, t := range toks {
		if i > 0 {
			switch mode {
			case 0: // compact
			case 1:
				b.WriteByte(' ')
			default:
				if rng.Chance(1, 3) {
					b.WriteString(strings.Repeat(" ", 1+rng.Intn(2)))
				}
			}
		}
		b.WriteString(t)
	}
	return b.String()
}

var c15Positions = []string{"param", "field", "payload", "sig", "siglocal", "targ"}

func c15MakeItem(idx int, pos string, t *c15T, variant string, rng *Rng) *c15Item {
	it := &c15Item{Idx: idx, Pos: pos, Variant: variant}
	if pos == "sig" || pos == "siglocal" || pos == "siglexer" || pos == "siglate" {
		// the signature is the type expression: int -> T (parseTypeArrows at the top)
		t = &c15T{K: "func", Kids: []*c15T{c15Base("int"), t}}
	}
	t.renumber(idx)
	it.T = t
	if pos == "inst" {
		// written as  int-><T> : an arrow component (level 1)
		it.Toks = t.toks(1, "")
	} else {
		it.Toks = t.toks(0, c15Strip(pos))
	}
	it.Text = c15Spacing(rng, it.Toks, rng.Intn(3))
	return it
}

// per-item names: "Fw#" -> "Fw<idx>"
func (t *c15T) renumber(idx int) {
	if strings.Contains(t.Name, "#") {
		t.Name = strings.ReplaceAll(t.Name, "#", fmt.Sprint(idx))
	}
	for _, k := range t.Kids {
		k.renumber(idx)
	}
}

func (t *c15T) subst(name string, by *c15T) *c15T {
	if t.K == "named" && t.Name == name && len(t.Kids) == 0 {
		u := by.clone()
		u.P = 0
		return u
	}
	u := &c15T{K: t.K, Name: t.Name}
	for _, k := range t.Kids {
		u.Kids = append(u.Kids, k.subst(name, by))
	}
	return u
}

// the tree whose documented Go type is expected at the item's position
func (it *c15Item) wantTree() *c15T {
	if it.Scn == "inst" && it.Arg != nil {
		return it.T.subst("T", it.Arg)
	}
	return it.T
}

type c15Name struct {
	src, goName string
	arity       int
}

var c15BaseNames = []c15Name{{"G", "G", 1}, {"R0", "R0", 0}, {"Opt", "Opt", 1}, {"Tok", "Tok", 0}, {"Pr", "Pr", 2},
	{"ext.Box", "ext.Box", 1}, {"ext.Pair", "ext.Pair", 2}, {"ext.Plain", "ext.Plain", 0},
	{"lexer.Tok", "lexer.Tok", 0}, {"lexer.Pr", "lexer.Pr", 2}}

// the scope at the item's position as the documentation describes it: user types under their own
// name, external types package-qualified (bare inside their own package_info block, where they hide
// a user type of the same name), the forward-declared types of the item's group, and for an
// instantiated generic signature the type parameter bound to the Go type of the explicit argument
func c15Env(it *c15Item, argGo string) string {
	var xs []string
	add := func(n c15Name) { xs = append(xs, fmt.Sprintf("(%s %s %d)", Sq(n.src), Sq(n.goName), n.arity)) }
	strip := c15Strip(it.Pos)
	if strip != "" {
		for _, n := range c15BaseNames {
			if strings.HasPrefix(n.src, strip) {
				add(c15Name{strings.TrimPrefix(n.src, strip), n.goName, n.arity})
			}
		}
	}
	for _, n := range c15BaseNames {
		add(n)
	}
	if it.Scn == "fwd" {
		for _, pre := range []string{"Fw", "Fx", "Rg", "Ug"} {
			nm := fmt.Sprintf("%s%d", pre, it.Idx)
			add(c15Name{nm, nm, 0})
		}
	}
	if it.Scn == "inst" {
		add(c15Name{"T", argGo, 0})
	}
	return "(" + strings.Join(xs, " ") + ")"
}

// ---------------------------------------------------------------- programs

const c15Prelude = "package main\n\ntype G<T> = {V: T}\n\ntype R0 = {N: int}\n\n"

const c15ScnPrelude = "package main\n\ntype G<T> = {V: T}\n\ntype R0 = {N: int}\n\ntype Opt<T> =\n  | Sm of T\n  | Nn\n\n" +
	"type Tok = {Text: string}\n\ntype Pr<A, B> = {Fst: A; Snd: B}\n\n"

// scenario programs: the user types Tok / Pr are defined BEFORE a package_info block that declares
// external types of the same names; and-groups with forward references; generic signatures of the own
// package instantiated by explicit type arguments
func c15ScnSource(items []*c15Item) string {
	var b strings.Builder
	b.WriteString(c15ScnPrelude)
	b.WriteString("package_info ext =\n  type Box<T>\n  type Pair<K, V>\n  type Plain\n  let Mk<T>: ()->[]T\n")
	for _, it := range items {
		if it.Pos == "siglocal" {
			fmt.Fprintf(&b, "  let L%d: %s\n", it.Idx, it.Text)
		}
	}
	b.WriteString("\npackage_info lexer =\n  type Tok\n  type Pr<A, B>\n  let Next: string->Tok\n")
	for _, it := range items {
		if it.Pos == "siglexer" {
			fmt.Fprintf(&b, "  let X%d: %s\n", it.Idx, it.Text)
		}
	}
	b.WriteString("\npackage_info sg =\n  let Dummy: int->int\n")
	for _, it := range items {
		if it.Pos == "sig" {
			fmt.Fprintf(&b, "  let S%d: %s\n", it.Idx, it.Text)
		}
	}
	b.WriteString("\npackage_info late =\n  type Lt\n  let Dummy: int->int\n")
	for _, it := range items {
		if it.Pos == "siglate" {
			fmt.Fprintf(&b, "  let Y%d: %s\n", it.Idx, it.Text)
		}
	}
	b.WriteString("\npackage_info _ =\n  let dummy0: int->int\n")
	for _, it := range items {
		if it.Pos == "inst" {
			fmt.Fprintf(&b, "  let pk%d<T>: int->%s\n", it.Idx, it.Text)
		}
	}
	b.WriteString("\n")
	for _, it := range items {
		i := it.Idx
		switch it.Pos {
		case "param":
			fmt.Fprintf(&b, "let p%d (x: %s) = 0\n\n", i, it.Text)
		case "field":
			fmt.Fprintf(&b, "type Rc%d = {F: %s}\n\n", i, it.Text)
		case "payload":
			fmt.Fprintf(&b, "type Un%d =\n  | A%d of %s\n  | B%d\n\n", i, i, it.Text, i)
		case "sig":
			fmt.Fprintf(&b, "let k%d () = sg.S%d\n\n", i, i)
		case "siglocal":
			fmt.Fprintf(&b, "let k%d () = ext.L%d\n\n", i, i)
		case "siglexer":
			fmt.Fprintf(&b, "let k%d () = lexer.X%d\n\n", i, i)
		case "siglate":
			fmt.Fprintf(&b, "let k%d () = late.Y%d\n\n", i, i)
		case "targ":
			fmt.Fprintf(&b, "let t%d () = ext.Mk<%s> ()\n\n", i, it.Text)
		case "inst":
			fmt.Fprintf(&b, "let k%d () = pk%d<%s> 1\n\n", i, i, it.ArgText)
		case "gfield":
			fmt.Fprintf(&b, "type Rg%d = {F: %s; Z: int}\nand Fw%d = {N: int}\nand Fx%d = {M: string}\n\n", i, it.Text, i, i)
		case "gpayload":
			fmt.Fprintf(&b, "type Ug%d =\n  | A%d of %s\n  | B%d\nand Fw%d = {N: int}\nand Fx%d = {M: string}\n\n", i, i, it.Text, i, i, i)
		}
	}
	return b.String()
}

func c15Source(items []*c15Item) string {
	if len(items) > 0 && items[0].Scn != "" {
		return c15ScnSource(items)
	}
	var b strings.Builder
	b.WriteString(c15Prelude)
	b.WriteString("package_info ext =\n  type Box<T>\n  type Pair<K, V>\n  type Plain\n  let Mk<T>: ()->[]T\n")
	for _, it := range items {
		if it.Pos == "siglocal" {
			fmt.Fprintf(&b, "  let L%d: %s\n", it.Idx, it.Text)
		}
	}
	b.WriteString("\npackage_info sg =\n  let Dummy: int->int\n")
	for _, it := range items {
		if it.Pos == "sig" {
			fmt.Fprintf(&b, "  let S%d: %s\n", it.Idx, it.Text)
		}
	}
	b.WriteString("\n")
	for _, it := range items {
		switch it.Pos {
		case "param":
			fmt.Fprintf(&b, "let p%d (x: %s) = 0\n\n", it.Idx, it.Text)
		case "field":
			fmt.Fprintf(&b, "type Rc%d = {F: %s}\n\n", it.Idx, it.Text)
		case "payload":
			fmt.Fprintf(&b, "type Un%d =\n  | A%d of %s\n  | B%d\n\n", it.Idx, it.Idx, it.Text, it.Idx)
		case "sig":
			fmt.Fprintf(&b, "let k%d () = sg.S%d\n\n", it.Idx, it.Idx)
		case "siglocal":
			fmt.Fprintf(&b, "let k%d () = ext.L%d\n\n", it.Idx, it.Idx)
		case "targ":
			fmt.Fprintf(&b, "let t%d () = ext.Mk<%s> ()\n\n", it.Idx, it.Text)
		}
	}
	return b.String()
}

type c15Go struct {
	src   []byte
	fset  *token.FileSet
	funcs map[string]*ast.FuncDecl
	typs  map[string]*ast.TypeSpec
}

func c15ParseGo(src string) (*c15Go, error) {
	g := &c15Go{src: []byte(src), fset: token.NewFileSet(), funcs: map[string]*ast.FuncDecl{}, typs: map[string]*ast.TypeSpec{}}
	f, err := parser.ParseFile(g.fset, "gen.go", src, parser.SkipObjectResolution)
	if err != nil {
		return nil, err
	}
	for _, d := range f.Decls {
		switch d := d.(type) {
		case *ast.FuncDecl:
			if d.Recv == nil {
				g.funcs[d.Name.Name] = d
			}
		case *ast.GenDecl:
			for _, s := range d.Specs {
				if ts, ok := s.(*ast.TypeSpec); ok {
					g.typs[ts.Name.Name] = ts
				}
			}
		}
	}
	return g, nil
}

func (g *c15Go) span(n ast.Node) string {
	return string(g.src[g.fset.Position(n.Pos()).Offset:g.fset.Position(n.End()).Offset])
}

// the Go type text at the item's position; ok=false when the expected declaration is not there
func (g *c15Go) typeText(it *c15Item) (string, bool) {
	field := func(name, fld string) (string, bool) {
		ts := g.typs[name]
		if ts == nil {
			return "", false
		}
		st, ok := ts.Type.(*ast.StructType)
		if !ok {
			return "", false
		}
		for _, f := range st.Fields.List {
			for _, n := range f.Names {
				if n.Name == fld {
					return g.span(f.Type), true
				}
			}
		}
		return "", false
	}
	switch it.Pos {
	case "param":
		fd := g.funcs[fmt.Sprintf("p%d", it.Idx)]
		if fd == nil || len(fd.Type.Params.List) != 1 {
			return "", false
		}
		return g.span(fd.Type.Params.List[0].Type), true
	case "field":
		return field(fmt.Sprintf("Rc%d", it.Idx), "F")
	case "payload":
		return field(fmt.Sprintf("Un%d_A%d", it.Idx, it.Idx), "Value")
	case "gfield":
		return field(fmt.Sprintf("Rg%d", it.Idx), "F")
	case "gpayload":
		return field(fmt.Sprintf("Ug%d_A%d", it.Idx, it.Idx), "Value")
	case "sig", "siglocal", "siglexer", "siglate", "inst":
		fd := g.funcs[fmt.Sprintf("k%d", it.Idx)]
		if fd == nil {
			return "", false
		}
		if fd.Type.Results == nil {
			return "", true
		}
		if len(fd.Type.Results.List) != 1 {
			return "", false
		}
		return g.span(fd.Type.Results.List[0].Type), true
	case "targ":
		fd := g.funcs[fmt.Sprintf("t%d", it.Idx)]
		if fd == nil || fd.Body == nil {
			return "", false
		}
		var found ast.Expr
		ast.Inspect(fd.Body, func(n ast.Node) bool {
			if ce, ok := n.(*ast.CallExpr); ok && found == nil {
				if ix, ok := ce.Fun.(*ast.IndexExpr); ok {
					found = ix.Index
				}
			}
			return found == nil
		})
		if found == nil {
			return "", false
		}
		return g.span(found), true
	}
	return "", false
}

// canonical form of a Go type text (whitespace / formatting removed); "!"+text when it is not a Go type
func c15Canon(s string) string {
	if s == "" {
		return ""
	}
	e, err := parser.ParseExpr(s)
	if err != nil {
		return "!" + s
	}
	return types.ExprString(e)
}

type c15Obs struct {
	ok     bool   // fc accepted the program and the declaration was found
	text   string // Go type text at the position
	reason string
}

// transpile one batch; on failure fall back to one program per item
func c15Observe(srv *FcSrv, items []*c15Item) []c15Obs {
	obs := make([]c15Obs, len(items))
	r := srv.Transpile(SrcFile{"m.fo", c15Source(items)})
	var g *c15Go
	var err error
	if r.Ok {
		g, err = c15ParseGo(r.Outs["gen_m.go"])
	}
	if !r.Ok || err != nil {
		if len(items) == 1 {
			if !r.Ok {
				obs[0] = c15Obs{reason: "fc rejected the program: " + r.Err}
			} else {
				obs[0] = c15Obs{reason: "the emitted Go does not parse: " + err.Error()}
			}
			return obs
		}
		for i, it := range items {
			obs[i] = c15Observe(srv, []*c15Item{it})[0]
		}
		return obs
	}
	for i, it := range items {
		t, ok := g.typeText(it)
		if !ok {
			obs[i] = c15Obs{reason: "the declaration carrying the type is missing from the emitted Go"}
		} else {
			obs[i] = c15Obs{ok: true, text: t}
		}
	}
	return obs
}

// the property itself on one item, independent of the model: "" when it holds
func c15Property(it *c15Item, o c15Obs) string {
	want := it.wantTree().docGo()
	if !o.ok {
		return o.reason
	}
	if o.text == want {
		return ""
	}
	if c15Canon(o.text) == c15Canon(want) {
		return fmt.Sprintf("type text differs from the documented form in formatting only: got %q, documented %q", o.text, want)
	}
	ctx := ""
	switch it.Scn {
	case "shadow":
		ctx = " (user types Tok / Pr defined before a package_info block declaring lexer.Tok / lexer.Pr; position " + it.Pos + ")"
	case "fwd":
		ctx = fmt.Sprintf(" (in a type ... and ... group, Fw%d / Fx%d defined later in the group; position %s)", it.Idx, it.Idx, it.Pos)
	case "inst":
		ctx = " (generic package_info signature instantiated with the explicit type argument T = " + it.ArgText + ")"
	}
	return fmt.Sprintf("%s is emitted as %q, the documented Go type is %q%s", it.Text, o.text, want, ctx)
}

func c15Shrink(srv *FcSrv, it *c15Item, rng *Rng) *c15Item {
	inner := func(x *c15Item) *c15T {
		if x.Pos == "sig" || x.Pos == "siglocal" || x.Pos == "siglexer" || x.Pos == "siglate" {
			return x.T.Kids[1]
		}
		return x.T
	}
	fails := func(t *c15T) *c15Item {
		if t.K == "unit" {
			return nil
		}
		cand := c15MakeItem(it.Idx, it.Pos, t.clone(), it.Variant, rng)
		cand.Scn, cand.Arg, cand.ArgText = it.Scn, it.Arg, it.ArgText
		cand.Text = strings.Join(cand.Toks, "")
		if strings.Contains(cand.Text, "-->") { // never: tokens are joined without spaces
			return nil
		}
		o := c15Observe(srv, []*c15Item{cand})[0]
		if c15Property(cand, o) != "" {
			return cand
		}
		return nil
	}
	cur := it
	for round := 0; round < 30; round++ {
		t := inner(cur)
		var cands []*c15T
		// every subterm alone, every subterm replaced by int, parentheses dropped
		var walk func(n *c15T)
		walk = func(n *c15T) {
			for _, k := range n.Kids {
				if k.K != "unit" {
					cands = append(cands, k)
				}
				walk(k)
			}
		}
		walk(t)
		var repl func(n *c15T, path []int)
		var paths [][]int
		repl = func(n *c15T, path []int) {
			for i, k := range n.Kids {
				p := append(append([]int{}, path...), i)
				if k.K != "unit" && !(k.K == "base" && k.Name == "int" && k.P == 0) {
					paths = append(paths, p)
				}
				repl(k, p)
			}
		}
		repl(t, nil)
		for _, p := range paths {
			c := t.clone()
			n := c
			for _, i := range p[:len(p)-1] {
				n = n.Kids[i]
			}
			n.Kids[p[len(p)-1]] = c15Base("int")
			cands = append(cands, c)
		}
		if t.P > 0 {
			c := t.clone()
			c.P = 0
			cands = append(cands, c)
		}
		var next *c15Item
		for _, c := range cands {
			if c.size() >= t.size() {
				continue
			}
			if f := fails(c); f != nil {
				next = f
				break
			}
		}
		if next == nil {
			break
		}
		cur = next
	}
	return cur
}

func runC15(c *Ctx) {
	rng := NewRng(c.Seed)
	c.Res.Rule = "every constructor shape (slice, 2/3-tuple, 1/2-argument function, unit-argument and unit-result function, " +
		"user generic G<T>, external ext.Box<T>, ext.Pair<K,V>) nested to depth 2 (quick and thorough; exhaustive), " +
		"depth 3 over {slice, 2-tuple, 1-argument function, ext.Box<T>} (thorough; exhaustive), depth-1 types with every " +
		"assignment of the 7 leaves (int string bool float any R0 ext.Plain; exhaustive), random types to depth 5; deeper leaves rotate over the 7 leaves; " +
		"each type with minimal parentheses in each of the positions param / field / payload / package_info signature " +
		"(qualified and package-local names) / explicit type argument, and with redundant parentheses in each position (thorough) " +
		"or in 2 of the 6 positions in rotation (quick); the depth-3 and random types take 2 of the 6 positions in rotation for each " +
		"parenthesisation; random token spacing; " +
		"scenario families (own programs, expectations from the model with the names resolved as documented and from the independent Go rendering): " +
		"(i) user types Tok / Pr<A,B> defined BEFORE a package_info block declaring external lexer.Tok / lexer.Pr<A,B>, then used (next to the qualified external ones) " +
		"in param / field / payload / signature / signature in a later package_info block / signature inside the lexer block (bare names = the block's own types) / type argument; " +
		"(ii) record field and union payload in type ... and ... groups mentioning types defined later in the group or the type itself, directly, in slices / tuples / " +
		"function types, in the arguments of user generics (record G, Pr, union Opt) and external generics; (iii) one generic (user record, user union, external) mentioned " +
		"twice with different arguments or nested in itself, in and-groups and in generic signatures of the own package instantiated by explicit type arguments; " +
		"shapes the unchanged tree is known to get wrong are a separate hazard stream; " +
		"non-trivial = at least one constructor; distinct by (position, source text)"
	c.Res.Exhaustive = true
	var types []*c15T
	ctr := 0
	for _, s := range c15Shapes(2, c15Ctors(true)) {
		types = append(types, c15Fill(s, &ctr))
	}
	c.CountN("shapes_depth<=2_full_constructor_set", len(types))
	d1 := c15Depth1All()
	types = append(types, d1...)
	c.CountN("depth<=1_every_leaf_assignment", len(d1))
	nFull := len(types) // these go to every position; the deeper / random ones rotate over the positions
	if c.Thorough() {
		n0 := len(types)
		for _, s := range c15Shapes(3, c15Ctors(false)) {
			if s != nil && s.depth() == 3 {
				types = append(types, c15Fill(s, &ctr))
			}
		}
		c.CountN("shapes_depth=3_reduced_constructor_set", len(types)-n0)
	}
	nrand := c.Pick(300, 6000)
	for i := 0; i < nrand; i++ {
		types = append(types, c15Random(rng, 3+rng.Intn(3)))
	}
	c.CountN("random_depth<=5", nrand)

	// items: every type in every position, minimal and redundant parentheses
	var items []*c15Item
	for ti, t := range types {
		for pi, pos := range c15Positions {
			for _, variant := range []string{"minimal", "redundant"} {
				// quick tier: the redundant-parentheses variant of a type goes to 2 of the 6 positions (rotating)
				if variant == "redundant" && !c.Thorough() && (ti+pi)%3 != 0 {
					continue
				}
				// quick tier: the package-local signature variant only for every third deeper type
				if !c.Thorough() && pos == "siglocal" && t.depth() >= 2 && ti%3 != 0 {
					continue
				}
				if ti >= nFull && ((variant == "minimal" && (ti+pi)%3 != 0) || (variant == "redundant" && (ti+pi)%3 != 1)) {
					continue
				}
				u := t.clone()
				if variant == "redundant" {
					u.decorate(rng, rng.Chance(1, 4))
					if u.size() == t.size() {
						u.P = 1
					}
				}
				items = append(items, c15MakeItem(len(items), pos, u, variant, rng))
			}
		}
	}
	nMain := len(items)
	items = append(items, c15Scenarios(c, rng, len(items))...)
	if c.Replay != "" {
		items = c15LoadReplay(c.Replay)
		nMain = 0
		if items[0].Scn == "" {
			nMain = len(items)
		}
	}
	c.Lap("generate")

	// batches through the in-process servers (plain items and scenario items use different programs)
	batch := 150
	if v := os.Getenv("C15_BATCH"); v != "" {
		fmt.Sscanf(v, "%d", &batch)
	}
	var ranges [][2]int
	for lo := 0; lo < nMain; lo += batch {
		hi := lo + batch
		if hi > nMain {
			hi = nMain
		}
		ranges = append(ranges, [2]int{lo, hi})
	}
	for lo := nMain; lo < len(items); lo += batch {
		hi := lo + batch
		if hi > len(items) {
			hi = len(items)
		}
		ranges = append(ranges, [2]int{lo, hi})
	}
	nb := len(ranges)
	obs := make([]c15Obs, len(items))
	pool := c.NewFcPool(8)
	Parallel(nb, func(bi int) {
		lo, hi := ranges[bi][0], ranges[bi][1]
		s := pool.Get()
		defer pool.Put(s)
		copy(obs[lo:hi], c15Observe(s, items[lo:hi]))
	})
	c.Lap("server")

	// a sample of batches through real fc processes: the emitted file must be identical
	nproc := c.Pick(8, 60)
	if nproc > nb {
		nproc = nb
	}
	procBatches := rng.Perm(nb)[:nproc]
	Parallel(len(procBatches), func(k int) {
		bi := procBatches[k]
		lo, hi := ranges[bi][0], ranges[bi][1]
		dir := filepath.Join(c.Work, fmt.Sprintf("proc%d", bi))
		os.MkdirAll(dir, 0o755)
		defer os.RemoveAll(dir)
		src := c15Source(items[lo:hi])
		MustWrite(filepath.Join(dir, "m.fo"), src)
		// (a longer limit than c.Fc: the machine may be busy; a timeout here is not fc's fault)
		r := Run(dir, 240e9, 4096, []string{"GOMAXPROCS=2"}, filepath.Join(c.Bin, "fc"), "m.fo")
		if r.TimedOut {
			c.Count("real_process_timeouts")
			c.Note("fc process timed out after 240 s on a %d-byte file (machine overloaded); sample skipped", len(src))
			return
		}
		c.Count("real_process_runs")
		gen, _ := os.ReadFile(filepath.Join(dir, "gen_m.go"))
		s := pool.Get()
		sr := s.Transpile(SrcFile{"m.fo", src})
		pool.Put(s)
		if (r.Exit == 0) != sr.Ok || (sr.Ok && string(gen) != sr.Outs["gen_m.go"]) {
			c.Violate("hook", "hooked in-process fc and the fc process produce different output for the same file",
				map[string]any{"broken": "correspondence fcsrv hook vs fc process", "source": src, "process_exit": r.Exit,
					"process_output": r.Stdout + r.Stderr, "server_error": sr.Err}, true)
		}
	})
	c.Lap("processes")

	or := c.Oracle()
	shrinkSrv := pool.Get()
	defer func() { pool.Put(shrinkSrv); pool.Close() }()
	nprop, ncorr := 0, 0
	hazSamples := map[string]int{}
	// render is injective on unit-free types (checked dynamically; not proved): Go text -> model tree
	seenText := map[string]string{}
	for i, it := range items {
		o := obs[i]
		c.Eval(it.Pos+"|"+it.Text, it.T.depth() >= 1)
		c.Count("position=" + it.Pos)
		c.Count("parens=" + it.Variant)
		c.Count(fmt.Sprintf("depth=%d", it.T.depth()))
		c.Count("top=" + it.T.K)
		if i%9973 == 17 {
			c.Sample(map[string]any{"position": it.Pos, "type": it.Text, "go": o.text, "documented": it.wantTree().docGo()})
		}
		strip := c15Strip(it.Pos)
		if it.Scn != "" {
			c.Count("scenario=" + it.Scn)
		}
		argGo := ""
		if it.Scn == "inst" {
			// the type parameter is bound to the Go type of the explicit argument (rendered by the model)
			_, argGo, _ = c15ParseAnswer(or.Ask("C15", fmt.Sprintf("(type %s %s)", c15Env(&c15Item{Pos: "param"}, ""), c15TokSexp(it.Arg.toks(0, "")))))
		}
		ans := or.Ask("C15", fmt.Sprintf("(type %s %s)", c15Env(it, argGo), c15TokSexp(it.Toks)))
		c.Compared(1)
		modelOK, modelText, modelAst := c15ParseAnswer(ans)
		if haz := c15Hazard(it); haz != "" {
			// shapes the unchanged tree is known to get wrong (reported): not part of the main stream
			if c15Property(it, o) != "" {
				c.Known(haz)
				c.Count("hazard_still_failing=" + haz)
				if hazSamples[haz] < 2 {
					hazSamples[haz]++
					c.Note("hazard %s: %s", haz, c15Property(it, o))
				}
			} else {
				c.Count("hazard_passing=" + haz)
			}
			continue
		}
		if it.Scn == "" && modelOK && !strings.Contains(modelAst, "unit") {
			key := it.Pos[:3] + "|" + modelText // siglocal resolves names differently: same first letters "sig"
			astG := strings.ReplaceAll(modelAst, "(named \"Box\"", "(named \"ext.Box\"")
			astG = strings.ReplaceAll(strings.ReplaceAll(astG, "(named \"Pair\"", "(named \"ext.Pair\""), "(named \"Plain\"", "(named \"ext.Plain\"")
			if prev, ok := seenText[key]; ok && prev != astG {
				c.Violate("injective", fmt.Sprintf("two different unit-free types render to the same Go text %q: %s and %s", modelText, prev, astG),
					map[string]any{"broken": "render injectivity on unit-free types (model level)", "go": modelText, "a": prev, "b": astG}, true)
			} else {
				seenText[key] = astG
			}
			c.Count("render_injectivity_checked")
		}
		bad := c15Property(it, o)
		disagree := ""
		switch {
		case !modelOK:
			disagree = "the model rejects the type expression or leaves tokens: " + ans
		case modelAst != it.T.astSexp(strip):
			disagree = "the model parses " + it.Text + " as " + modelAst + ", the generator meant " + it.T.astSexp(strip)
		case !o.ok:
			disagree = "the model accepts, fc: " + o.reason
		case o.text != modelText:
			disagree = fmt.Sprintf("fc emits %q, the model renders %q", o.text, modelText)
		}
		if disagree != "" {
			c.Disagree()
		}
		if bad != "" {
			c.Count("property_failures")
			if it.Scn != "" && nprop < 40 {
				c.Note("scenario failure: %s", bad)
			}
			nprop++
			if nprop > 3 {
				continue
			}
			small := c15Shrink(shrinkSrv, it, rng)
			so := c15Observe(shrinkSrv, []*c15Item{small})[0]
			c.Violate("prop", c15Property(small, so), map[string]any{"item": small, "source": c15Source([]*c15Item{small}),
				"go_type_text": so.text, "documented": small.wantTree().docGo(), "first_failing_item": it, "model": ans}, false)
		} else if disagree != "" {
			ncorr++
			if ncorr > 3 {
				continue
			}
			c.Violate("corr", "correspondence TypeGrammar.parse_type/render vs fc broke (the documented mapping still holds on this input): "+disagree,
				map[string]any{"broken": "correspondence C15 parse_type/render (Front/TypeGrammar.v) vs fc", "item": it,
					"source": c15Source([]*c15Item{it}), "go_type_text": o.text, "model": ans}, true)
		}
	}
	c.Lap("compare")
}

// OK "<go type>" <ast> <remaining tokens>
func c15ParseAnswer(ans string) (ok bool, text string, ast string) {
	if !strings.HasPrefix(ans, "OK ") {
		return false, "", ""
	}
	rest := ans[3:]
	q := c15QuotedPrefix(rest)
	text = Unsq(q)
	tail := strings.TrimSpace(rest[len(q):])
	sp := strings.LastIndex(tail, " ")
	return tail[sp+1:] == "0", text, tail[:sp]
}

// ---------------------------------------------------------------- scenario families

func c15Named(name string, kids ...*c15T) *c15T { return &c15T{K: "named", Name: name, Kids: kids} }
func c15Slice(k *c15T) *c15T                    { return &c15T{K: "slice", Kids: []*c15T{k}} }
func c15Tup(ks ...*c15T) *c15T                  { return &c15T{K: "tuple", Kids: ks} }
func c15Fun(ks ...*c15T) *c15T                  { return &c15T{K: "func", Kids: ks} }

func (t *c15T) mentions(name string) bool {
	if t.K == "named" && t.Name == name {
		return true
	}
	for _, k := range t.Kids {
		if k.mentions(name) {
			return true
		}
	}
	return false
}

func (t *c15T) hasVar() bool {
	if t.K == "named" && len(t.Kids) == 0 && (t.Name == "T" || strings.HasPrefix(t.Name, "Fw") || strings.HasPrefix(t.Name, "Fx") ||
		strings.HasPrefix(t.Name, "Rg") || strings.HasPrefix(t.Name, "Ug")) {
		return true
	}
	for _, k := range t.Kids {
		if k.hasVar() {
			return true
		}
	}
	return false
}

// argument lists (as s-expressions) of every mention of the generic [name]
func (t *c15T) argLists(name string, out *[]string) {
	if t.K == "named" && t.Name == name && len(t.Kids) > 0 {
		var xs []string
		for _, k := range t.Kids {
			xs = append(xs, k.astSexp(""))
		}
		*out = append(*out, strings.Join(xs, " "))
	}
	for _, k := range t.Kids {
		k.argLists(name, out)
	}
}

// a variable (forward reference / type parameter) inside the arguments of a user generic (G, Pr, Opt)
// that is itself inside the arguments of a user generic
func (t *c15T) deepVar(depth int) bool {
	user := t.K == "named" && len(t.Kids) > 0 && (t.Name == "G" || t.Name == "Pr" || t.Name == "Opt")
	if user {
		depth++
	}
	if depth >= 2 && t.K == "named" && len(t.Kids) == 0 && t.hasVar() {
		return true
	}
	for _, k := range t.Kids {
		if k.deepVar(depth) {
			return true
		}
	}
	return false
}

func (t *c15T) nestedIn(name string, inside bool) bool {
	here := t.K == "named" && t.Name == name && len(t.Kids) > 0
	if here && inside {
		return true
	}
	for _, k := range t.Kids {
		if k.nestedIn(name, inside || here) {
			return true
		}
	}
	return false
}

// Shapes the unchanged tree gets wrong (kept out of the main stream, reported to the lead):
//   - a generic user UNION mentioned twice (with different or with the same type arguments) in a type expression that needs
//     a substitution (forward reference in an and-group, or a type parameter bound by an explicit type
//     argument): the later mention keeps the placeholder / type parameter (Opt[_P6], Opt[[]T]);
//   - a forward reference / type parameter inside the arguments of a user generic (record or union) that is
//     itself inside the arguments of a user generic: Opt<G<Fw>>, G<Opt<Fw>>, Opt<Opt<Fw>>, G<G<ext.Box<Fw>>>,
//     ext.Box<G<G<Fw>>>, G<Pr<int, ext.Box<Fw>>> keep the placeholder _P<n> in and-groups; G<G<T>> keeps T in an
//     instantiated signature and the caller becomes generic (func k[T0 any]() G[G[T0]]).  (G<G<Fw>> itself passes.)
func c15Hazard(it *c15Item) string {
	if it.Scn != "fwd" && it.Scn != "inst" {
		return ""
	}
	if !it.T.hasVar() {
		return ""
	}
	var opts []string
	it.T.argLists("Opt", &opts)
	if len(opts) >= 2 {
		// with different OR equal arguments: the revisit guard for unions is keyed by the union's name, the
		// second mention is never substituted (Opt<Fw>*Opt<Fw> -> Opt[Fw], Opt[_P1])
		return "C15-generic-union-twice-under-substitution"
	}
	if it.T.deepVar(0) {
		return "C15-nested-user-generics-under-substitution"
	}
	return ""
}

func c15Scenarios(c *Ctx, rng *Rng, start int) []*c15Item {
	var items []*c15Item
	idx := start
	add := func(scn, pos string, t *c15T, arg *c15T, redundant bool) {
		u := t.clone()
		variant := "minimal"
		if redundant {
			variant = "redundant"
			u.decorate(rng, rng.Chance(1, 4))
			if u.size() == t.size() {
				u.P = 1
			}
		}
		it := c15MakeItem(idx, pos, u, variant, rng)
		it.Scn = scn
		if arg != nil {
			it.Arg = arg.clone()
			it.ArgText = strings.Join(it.Arg.toks(0, ""), "")
		}
		idx++
		items = append(items, it)
	}
	base := func(n string) *c15T { return c15Base(n) }

	// (i) user types Tok / Pr<A,B> defined before package_info lexer declares lexer.Tok / lexer.Pr<A,B>:
	//     every position after that block; Tok is the user's type, lexer.Tok the external one
	leaves := []*c15T{base("int"), base("string"), c15Named("Tok"), c15Named("lexer.Tok"), c15Named("R0")}
	var d1 []*c15T
	for _, l := range leaves {
		d1 = append(d1, l)
	}
	un := []func(*c15T) *c15T{c15Slice, func(k *c15T) *c15T { return c15Named("G", k) }, func(k *c15T) *c15T { return c15Named("ext.Box", k) },
		func(k *c15T) *c15T { return c15Named("Opt", k) }}
	bin := []func(a, b *c15T) *c15T{func(a, b *c15T) *c15T { return c15Tup(a, b) }, func(a, b *c15T) *c15T { return c15Fun(a, b) },
		func(a, b *c15T) *c15T { return c15Named("Pr", a, b) }, func(a, b *c15T) *c15T { return c15Named("lexer.Pr", a, b) },
		func(a, b *c15T) *c15T { return c15Named("ext.Pair", a, b) }}
	for _, f := range un {
		for _, l := range leaves {
			d1 = append(d1, f(l))
		}
	}
	for _, f := range bin {
		for _, a := range leaves {
			for _, b := range leaves {
				d1 = append(d1, f(a, b))
			}
		}
	}
	shadow := append([]*c15T{}, d1...)
	for i := 0; i < c.Pick(150, 1200); i++ { // depth 2: a constructor over depth-1 types
		a, b := d1[rng.Intn(len(d1))], d1[rng.Intn(len(d1))]
		if rng.Bool() {
			shadow = append(shadow, un[rng.Intn(len(un))](a))
		} else {
			shadow = append(shadow, bin[rng.Intn(len(bin))](a, b))
		}
	}
	poss := []string{"param", "field", "payload", "sig", "siglate", "siglexer", "targ"}
	for ti, t := range shadow {
		if !t.mentions("Tok") && !t.mentions("Pr") && !t.mentions("lexer.Tok") && !t.mentions("lexer.Pr") {
			continue
		}
		for pi, pos := range poss {
			if pos == "siglexer" && (t.mentions("Tok") || t.mentions("Pr")) {
				continue // inside package_info lexer the bare names are the block's own types
			}
			if !c.Thorough() && t.depth() >= 2 && (ti+pi)%3 != 0 {
				continue
			}
			add("shadow", pos, t, nil, false)
			if (ti+pi)%4 == 0 {
				add("shadow", pos, t, nil, true)
			}
		}
	}

	// (ii) record field / union payload in a type ... and ... group mentioning types defined LATER in the
	//      group (Fw#, Fx#) or the type being defined: directly, in slices / tuples / function types, in the
	//      type arguments of user generics (record G, union Opt, Pr) and of external generics
	fw, fx := c15Named("Fw#"), c15Named("Fx#")
	fl := []*c15T{fw, fx, base("int"), c15Named("R0"), c15Named("Tok")}
	var g1 []*c15T
	g1 = append(g1, fw, fx)
	unG := append(un, func(k *c15T) *c15T { return c15Named("ext.Box", c15Slice(k)) })
	for _, f := range unG {
		for _, l := range fl {
			g1 = append(g1, f(l))
		}
	}
	for _, f := range bin {
		for _, a := range fl {
			for _, b := range fl {
				g1 = append(g1, f(a, b))
			}
		}
	}
	fwd := append([]*c15T{}, g1...)
	for i := 0; i < c.Pick(250, 2500); i++ {
		a, b := g1[rng.Intn(len(g1))], g1[rng.Intn(len(g1))]
		if rng.Bool() {
			fwd = append(fwd, unG[rng.Intn(len(unG))](a))
		} else {
			fwd = append(fwd, bin[rng.Intn(len(bin))](a, b))
		}
	}
	// (iii) the same generic mentioned twice with different arguments, forward-reference variant
	twice := func(v *c15T) []*c15T {
		var out []*c15T
		args := []*c15T{v, c15Slice(v), c15Tup(v, base("int")), base("int"), c15Fun(v, base("bool")), c15Named("ext.Box", v)}
		gens := []func(*c15T) *c15T{func(k *c15T) *c15T { return c15Named("G", k) }, func(k *c15T) *c15T { return c15Named("Opt", k) },
			func(k *c15T) *c15T { return c15Named("ext.Box", k) }, func(k *c15T) *c15T { return c15Named("Pr", k, base("int")) },
			func(k *c15T) *c15T { return c15Named("ext.Pair", base("string"), k) }}
		for _, g := range gens {
			for i, a1 := range args {
				for j, a2 := range args {
					if i == j || (!a1.mentionsAny(v) && !a2.mentionsAny(v)) {
						continue
					}
					out = append(out, c15Tup(g(a1), g(a2)), c15Fun(g(a1), g(a2)), c15Named("ext.Pair", g(a1), g(a2)),
						c15Tup(c15Slice(g(a1)), base("int"), g(a2)))
				}
				if a1.mentionsAny(v) {
					out = append(out, g(g(a1)), c15Slice(g(c15Tup(g(a1), base("int")))))
				}
			}
		}
		return out
	}
	fwd = append(fwd, twice(fw)...)
	for ti, t := range fwd {
		if !t.hasVar() {
			continue
		}
		for pi, pos := range []string{"gfield", "gpayload"} {
			if !c.Thorough() && ti >= len(g1) && (ti+pi)%2 != 0 {
				continue
			}
			add("fwd", pos, t, nil, false)
			if (ti+pi)%5 == 0 {
				add("fwd", pos, t, nil, true)
			}
		}
	}
	// self reference of the type being defined
	for _, pos := range []string{"gfield", "gpayload"} {
		self := "Rg#"
		if pos == "gpayload" {
			self = "Ug#"
		}
		for _, t := range []*c15T{c15Slice(c15Named(self)), c15Named("G", c15Named(self)), c15Named("ext.Box", c15Slice(c15Named(self))),
			c15Fun(c15Named(self), fw), c15Tup(c15Slice(c15Named(self)), fx)} {
			add("fwd", pos, t, nil, false)
		}
	}

	// (iii) generic signatures of the own package instantiated by an explicit type argument
	tv := c15Named("T")
	argsT := []*c15T{base("string"), c15Slice(base("int")), c15Named("R0"), c15Tup(base("int"), base("string")), c15Named("G", base("int")),
		c15Named("Tok"), c15Named("ext.Box", base("bool")), c15Fun(base("int"), base("string"))}
	inst := twice(tv)
	for _, f := range un {
		inst = append(inst, f(tv), f(c15Slice(tv)))
	}
	for _, f := range bin {
		inst = append(inst, f(tv, base("int")), f(c15Slice(tv), tv))
	}
	inst = append(inst, tv, c15Slice(c15Tup(tv, tv)))
	for ti, t := range inst {
		n := 1
		if c.Thorough() {
			n = 3
		}
		for k := 0; k < n; k++ {
			add("inst", "inst", t, argsT[(ti+k*3)%len(argsT)], false)
		}
		if ti%6 == 0 {
			add("inst", "inst", t, argsT[(ti+1)%len(argsT)], true)
		}
	}
	c.CountN("scenario_items", len(items))
	return items
}

func (t *c15T) mentionsAny(v *c15T) bool { return t.mentions(v.Name) }

func c15QuotedPrefix(s string) string {
	// s starts with a quoted string; return it including the quotes
	for i := 1; i < len(s); i++ {
		if s[i] == '\\' {
			i++
			continue
		}
		if s[i] == '"' {
			return s[:i+1]
		}
	}
	return s
}

func c15LoadReplay(path string) []*c15Item {
	var doc struct {
		Replay struct {
			Item *c15Item `json:"item"`
		} `json:"replay"`
	}
	b, err := os.ReadFile(path)
	if err != nil {
		panic(err)
	}
	if err := jsonUnmarshal(b, &doc); err != nil || doc.Replay.Item == nil {
		panic("replay file has no item")
	}
	return []*c15Item{doc.Replay.Item}
}

func init() { Register("C15", runC15) }
