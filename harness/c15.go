package main

// C15: type expressions map to Go types by the documented grammar.
// Enumerates type expressions (all constructor shapes up to a depth bound, leaves rotated over the
// base types, minimal and redundant parentheses, random token spacing), writes each into each of
// the syntactic positions (parameter annotation, record field, union payload, package_info
// signature, explicit type argument), transpiles with the hooked in-process fc (and a sample with
// real fc processes), reads the Go type text at that position from the emitted Go with go/parser
// and compares it (i) with render(parse_type tokens) from the Coq model and (ii) with an
// independent Go-side rendering of the generator's own tree written from the documentation.

import (
	"fmt"
	"go/ast"
	"go/parser"
	"go/token"
	"go/types"
	"os"
	"path/filepath"
	"strings"
)

type c15T struct {
	K    string  `json:"k"` // base | unit | slice | tuple | func | named
	Name string  `json:"name,omitempty"`
	Kids []*c15T `json:"kids,omitempty"`
	P    int     `json:"p,omitempty"` // redundant parenthesis pairs around this node
}

type c15Item struct {
	Idx     int      `json:"idx"`
	Pos     string   `json:"pos"` // param | field | payload | sig | siglocal | targ
	T       *c15T    `json:"type"`
	Variant string   `json:"variant"` // minimal | redundant
	Toks    []string `json:"toks"`
	Text    string   `json:"text"` // the type expression as written in the source
}

func c15Base(n string) *c15T { return &c15T{K: "base", Name: n} }

func (t *c15T) clone() *c15T {
	if t == nil {
		return nil
	}
	u := &c15T{K: t.K, Name: t.Name, P: t.P}
	for _, k := range t.Kids {
		u.Kids = append(u.Kids, k.clone())
	}
	return u
}

func (t *c15T) depth() int {
	d := 0
	for _, k := range t.Kids {
		kd := 1 // a nil kid is a leaf placeholder
		if k != nil {
			kd = k.depth() + 1
		}
		if kd > d {
			d = kd
		}
	}
	return d
}

func (t *c15T) size() int {
	n := 1 + t.P
	for _, k := range t.Kids {
		n += k.size()
	}
	return n
}

// tokens of the type at level lv (0 type, 1 arrow component, 2 tuple component / slice element)
func (t *c15T) toks(lv int, local bool) []string {
	var core []string
	need := false
	join := func(sep string, lvk int) {
		for i, k := range t.Kids {
			if i > 0 {
				core = append(core, sep)
			}
			core = append(core, k.toks(lvk, local)...)
		}
	}
	switch t.K {
	case "base":
		core = []string{t.Name}
	case "unit":
		core = []string{"(", ")"}
	case "slice":
		core = append([]string{"[", "]"}, t.Kids[0].toks(2, local)...)
	case "tuple":
		need = lv >= 2
		join("*", 2)
	case "func":
		need = lv >= 1
		join("->", 1)
	case "named":
		name := t.Name
		if local {
			name = strings.TrimPrefix(name, "ext.")
		}
		for i, p := range strings.Split(name, ".") {
			if i > 0 {
				core = append(core, ".")
			}
			core = append(core, p)
		}
		if len(t.Kids) > 0 {
			core = append(core, "<")
			join(",", 0)
			core = append(core, ">")
		}
	}
	n := t.P
	if need && n == 0 {
		n = 1
	}
	var out []string
	for i := 0; i < n; i++ {
		out = append(out, "(")
	}
	out = append(out, core...)
	for i := 0; i < n; i++ {
		out = append(out, ")")
	}
	return out
}

var c15TokName = map[string]string{"(": "LP", ")": "RP", "[": "LB", "]": "RB", "*": "AST", "->": "ARROW",
	"<": "LT", ">": "GT", ",": "COMMA", ".": "DOT"}

func c15TokSexp(toks []string) string {
	var xs []string
	for _, t := range toks {
		if n, ok := c15TokName[t]; ok {
			xs = append(xs, n)
		} else {
			xs = append(xs, Sq(t))
		}
	}
	return "(" + strings.Join(xs, " ") + ")"
}

// the generator's own tree without decoration, in the oracle's ast syntax
func (t *c15T) astSexp(local bool) string {
	kids := func() string {
		var xs []string
		for _, k := range t.Kids {
			xs = append(xs, k.astSexp(local))
		}
		return strings.Join(xs, " ")
	}
	switch t.K {
	case "base":
		return t.Name
	case "unit":
		return "unit"
	case "slice":
		return "(slice " + kids() + ")"
	case "tuple":
		return "(tuple " + kids() + ")"
	case "func":
		return "(func " + kids() + ")"
	}
	name := t.Name
	if local {
		name = strings.TrimPrefix(name, "ext.")
	}
	if len(t.Kids) == 0 {
		return "(named " + Sq(name) + ")"
	}
	return "(named " + Sq(name) + " " + kids() + ")"
}

// The documented mapping, written from docs/specs/note.md ("float is float64", slice/tuple
// precedence, generics syntax), docs/tutorials/4_CallingGoWrapper.md (A->B->C is func (A,B) C: the
// part after the last arrow is the result, the rest are the parameters) and the property text:
// independent of the Coq model and of fc.
func (t *c15T) docGo() string {
	var ks []string
	for _, k := range t.Kids {
		ks = append(ks, k.docGo())
	}
	switch t.K {
	case "base":
		if t.Name == "float" {
			return "float64"
		}
		return t.Name
	case "unit":
		return ""
	case "slice":
		return "[]" + ks[0]
	case "tuple":
		return fmt.Sprintf("frt.Tuple%d[%s]", len(ks), strings.Join(ks, ", "))
	case "func":
		n := len(ks)
		s := "func (" + strings.Join(ks[:n-1], ",") + ")"
		if ks[n-1] != "" {
			s += " " + ks[n-1]
		}
		return s
	}
	if len(ks) == 0 {
		return t.Name
	}
	return t.Name + "[" + strings.Join(ks, ", ") + "]"
}

const c15EnvGlobal = `(("G" "G" 1) ("R0" "R0" 0) ("ext.Box" "ext.Box" 1) ("ext.Pair" "ext.Pair" 2) ("ext.Plain" "ext.Plain" 0))`
const c15EnvLocal = `(("G" "G" 1) ("R0" "R0" 0) ("Box" "ext.Box" 1) ("Pair" "ext.Pair" 2) ("Plain" "ext.Plain" 0))`

// ---------------------------------------------------------------- enumeration

type c15Ctor struct {
	name  string
	arity int
	build func(kids []*c15T) *c15T
}

func c15Ctors(full bool) []c15Ctor {
	unit := func() *c15T { return &c15T{K: "unit"} }
	cs := []c15Ctor{
		{"slice", 1, func(k []*c15T) *c15T { return &c15T{K: "slice", Kids: k} }},
		{"tup2", 2, func(k []*c15T) *c15T { return &c15T{K: "tuple", Kids: k} }},
		{"fun1", 2, func(k []*c15T) *c15T { return &c15T{K: "func", Kids: k} }},
		{"ext.Box", 1, func(k []*c15T) *c15T { return &c15T{K: "named", Name: "ext.Box", Kids: k} }},
	}
	if full {
		cs = append(cs,
			c15Ctor{"tup3", 3, func(k []*c15T) *c15T { return &c15T{K: "tuple", Kids: k} }},
			c15Ctor{"fun2", 3, func(k []*c15T) *c15T { return &c15T{K: "func", Kids: k} }},
			c15Ctor{"funUnitArg", 1, func(k []*c15T) *c15T { return &c15T{K: "func", Kids: []*c15T{unit(), k[0]}} }},
			c15Ctor{"funUnitRes", 1, func(k []*c15T) *c15T { return &c15T{K: "func", Kids: []*c15T{k[0], unit()}} }},
			c15Ctor{"G", 1, func(k []*c15T) *c15T { return &c15T{K: "named", Name: "G", Kids: k} }},
			c15Ctor{"ext.Pair", 2, func(k []*c15T) *c15T { return &c15T{K: "named", Name: "ext.Pair", Kids: k} }},
		)
	}
	return cs
}

// all shapes of depth <= d over the constructor set; leaves are nil placeholders
func c15Shapes(d int, cs []c15Ctor) []*c15T {
	if d == 0 {
		return []*c15T{nil}
	}
	sub := c15Shapes(d-1, cs)
	out := []*c15T{nil}
	for _, c := range cs {
		idx := make([]int, c.arity)
		for {
			kids := make([]*c15T, c.arity)
			for i, j := range idx {
				if sub[j] != nil {
					kids[i] = sub[j].clone()
				}
			}
			out = append(out, c.build(kids))
			i := c.arity - 1
			for i >= 0 {
				idx[i]++
				if idx[i] < len(sub) {
					break
				}
				idx[i] = 0
				i--
			}
			if i < 0 {
				break
			}
		}
	}
	return out
}

var c15Leaves = []*c15T{c15Base("int"), c15Base("string"), c15Base("bool"), c15Base("float"), c15Base("any"),
	{K: "named", Name: "R0"}, {K: "named", Name: "ext.Plain"}}

// fill nil placeholders with leaves, rotating from *ctr
func c15Fill(t *c15T, ctr *int) *c15T {
	if t == nil {
		l := c15Leaves[*ctr%len(c15Leaves)].clone()
		*ctr++
		return l
	}
	if t.K == "unit" {
		return t
	}
	for i, k := range t.Kids {
		t.Kids[i] = c15Fill(k, ctr)
	}
	return t
}

// depth-1 types with every leaf assignment (exhaustive over the 7 leaves)
func c15Depth1All() []*c15T {
	var out []*c15T
	for _, l := range c15Leaves {
		out = append(out, l.clone())
	}
	for _, c := range c15Ctors(true) {
		idx := make([]int, c.arity)
		for {
			kids := make([]*c15T, c.arity)
			for i, j := range idx {
				kids[i] = c15Leaves[j].clone()
			}
			out = append(out, c.build(kids))
			i := c.arity - 1
			for i >= 0 {
				idx[i]++
				if idx[i] < len(c15Leaves) {
					break
				}
				idx[i] = 0
				i--
			}
			if i < 0 {
				break
			}
		}
	}
	out = append(out, &c15T{K: "func", Kids: []*c15T{{K: "unit"}, {K: "unit"}}})
	return out
}

func c15Random(rng *Rng, depth int) *c15T {
	if depth == 0 || rng.Chance(1, 5) {
		return Choose(rng, c15Leaves).clone()
	}
	cs := c15Ctors(true)
	c := cs[rng.Intn(len(cs))]
	kids := make([]*c15T, c.arity)
	for i := range kids {
		kids[i] = c15Random(rng, depth-1)
	}
	if c.name == "tup2" && rng.Chance(1, 6) { // longer tuples / argument lists as well
		kids = append(kids, c15Random(rng, depth-1), c15Random(rng, depth-1))
	}
	return c.build(kids)
}

func (t *c15T) decorate(rng *Rng, all bool) {
	if t.K != "unit" {
		if all {
			t.P = 1
		} else if rng.Chance(2, 5) {
			t.P = 1 + rng.Intn(2)
		}
	}
	for _, k := range t.Kids {
		k.decorate(rng, all)
	}
}

func c15Spacing(rng *Rng, toks []string, mode int) string {
	var b strings.Builder
	for i, t := range toks {
		if i > 0 {
			switch mode {
			case 0: // compact
			case 1:
				b.WriteByte(' ')
			default:
				if rng.Chance(1, 3) {
					b.WriteString(strings.Repeat(" ", 1+rng.Intn(2)))
				}
			}
		}
		b.WriteString(t)
	}
	return b.String()
}

var c15Positions = []string{"param", "field", "payload", "sig", "siglocal", "targ"}

func c15MakeItem(idx int, pos string, t *c15T, variant string, rng *Rng) *c15Item {
	it := &c15Item{Idx: idx, Pos: pos, Variant: variant}
	if pos == "sig" || pos == "siglocal" {
		// the signature is the type expression: int -> T (parseTypeArrows at the top)
		t = &c15T{K: "func", Kids: []*c15T{c15Base("int"), t}}
	}
	it.T = t
	it.Toks = t.toks(0, pos == "siglocal")
	it.Text = c15Spacing(rng, it.Toks, rng.Intn(3))
	return it
}

// ---------------------------------------------------------------- programs

const c15Prelude = "package main\n\ntype G<T> = {V: T}\n\ntype R0 = {N: int}\n\n"

func c15Source(items []*c15Item) string {
	var b strings.Builder
	b.WriteString(c15Prelude)
	b.WriteString("package_info ext =\n  type Box<T>\n  type Pair<K, V>\n  type Plain\n  let Mk<T>: ()->[]T\n")
	for _, it := range items {
		if it.Pos == "siglocal" {
			fmt.Fprintf(&b, "  let L%d: %s\n", it.Idx, it.Text)
		}
	}
	b.WriteString("\npackage_info sg =\n  let Dummy: int->int\n")
	for _, it := range items {
		if it.Pos == "sig" {
			fmt.Fprintf(&b, "  let S%d: %s\n", it.Idx, it.Text)
		}
	}
	b.WriteString("\n")
	for _, it := range items {
		switch it.Pos {
		case "param":
			fmt.Fprintf(&b, "let p%d (x: %s) = 0\n\n", it.Idx, it.Text)
		case "field":
			fmt.Fprintf(&b, "type Rc%d = {F: %s}\n\n", it.Idx, it.Text)
		case "payload":
			fmt.Fprintf(&b, "type Un%d =\n  | A%d of %s\n  | B%d\n\n", it.Idx, it.Idx, it.Text, it.Idx)
		case "sig":
			fmt.Fprintf(&b, "let k%d () = sg.S%d\n\n", it.Idx, it.Idx)
		case "siglocal":
			fmt.Fprintf(&b, "let k%d () = ext.L%d\n\n", it.Idx, it.Idx)
		case "targ":
			fmt.Fprintf(&b, "let t%d () = ext.Mk<%s> ()\n\n", it.Idx, it.Text)
		}
	}
	return b.String()
}

type c15Go struct {
	src   []byte
	fset  *token.FileSet
	funcs map[string]*ast.FuncDecl
	typs  map[string]*ast.TypeSpec
}

func c15ParseGo(src string) (*c15Go, error) {
	g := &c15Go{src: []byte(src), fset: token.NewFileSet(), funcs: map[string]*ast.FuncDecl{}, typs: map[string]*ast.TypeSpec{}}
	f, err := parser.ParseFile(g.fset, "gen.go", src, parser.SkipObjectResolution)
	if err != nil {
		return nil, err
	}
	for _, d := range f.Decls {
		switch d := d.(type) {
		case *ast.FuncDecl:
			if d.Recv == nil {
				g.funcs[d.Name.Name] = d
			}
		case *ast.GenDecl:
			for _, s := range d.Specs {
				if ts, ok := s.(*ast.TypeSpec); ok {
					g.typs[ts.Name.Name] = ts
				}
			}
		}
	}
	return g, nil
}

func (g *c15Go) span(n ast.Node) string {
	return string(g.src[g.fset.Position(n.Pos()).Offset:g.fset.Position(n.End()).Offset])
}

// the Go type text at the item's position; ok=false when the expected declaration is not there
func (g *c15Go) typeText(it *c15Item) (string, bool) {
	field := func(name, fld string) (string, bool) {
		ts := g.typs[name]
		if ts == nil {
			return "", false
		}
		st, ok := ts.Type.(*ast.StructType)
		if !ok {
			return "", false
		}
		for _, f := range st.Fields.List {
			for _, n := range f.Names {
				if n.Name == fld {
					return g.span(f.Type), true
				}
			}
		}
		return "", false
	}
	switch it.Pos {
	case "param":
		fd := g.funcs[fmt.Sprintf("p%d", it.Idx)]
		if fd == nil || len(fd.Type.Params.List) != 1 {
			return "", false
		}
		return g.span(fd.Type.Params.List[0].Type), true
	case "field":
		return field(fmt.Sprintf("Rc%d", it.Idx), "F")
	case "payload":
		return field(fmt.Sprintf("Un%d_A%d", it.Idx, it.Idx), "Value")
	case "sig", "siglocal":
		fd := g.funcs[fmt.Sprintf("k%d", it.Idx)]
		if fd == nil {
			return "", false
		}
		if fd.Type.Results == nil {
			return "", true
		}
		if len(fd.Type.Results.List) != 1 {
			return "", false
		}
		return g.span(fd.Type.Results.List[0].Type), true
	case "targ":
		fd := g.funcs[fmt.Sprintf("t%d", it.Idx)]
		if fd == nil || fd.Body == nil {
			return "", false
		}
		var found ast.Expr
		ast.Inspect(fd.Body, func(n ast.Node) bool {
			if ce, ok := n.(*ast.CallExpr); ok && found == nil {
				if ix, ok := ce.Fun.(*ast.IndexExpr); ok {
					found = ix.Index
				}
			}
			return found == nil
		})
		if found == nil {
			return "", false
		}
		return g.span(found), true
	}
	return "", false
}

// canonical form of a Go type text (whitespace / formatting removed); "!"+text when it is not a Go type
func c15Canon(s string) string {
	if s == "" {
		return ""
	}
	e, err := parser.ParseExpr(s)
	if err != nil {
		return "!" + s
	}
	return types.ExprString(e)
}

type c15Obs struct {
	ok     bool   // fc accepted the program and the declaration was found
	text   string // Go type text at the position
	reason string
}

// transpile one batch; on failure fall back to one program per item
func c15Observe(srv *FcSrv, items []*c15Item) []c15Obs {
	obs := make([]c15Obs, len(items))
	r := srv.Transpile(SrcFile{"m.fo", c15Source(items)})
	var g *c15Go
	var err error
	if r.Ok {
		g, err = c15ParseGo(r.Outs["gen_m.go"])
	}
	if !r.Ok || err != nil {
		if len(items) == 1 {
			if !r.Ok {
				obs[0] = c15Obs{reason: "fc rejected the program: " + r.Err}
			} else {
				obs[0] = c15Obs{reason: "the emitted Go does not parse: " + err.Error()}
			}
			return obs
		}
		for i, it := range items {
			obs[i] = c15Observe(srv, []*c15Item{it})[0]
		}
		return obs
	}
	for i, it := range items {
		t, ok := g.typeText(it)
		if !ok {
			obs[i] = c15Obs{reason: "the declaration carrying the type is missing from the emitted Go"}
		} else {
			obs[i] = c15Obs{ok: true, text: t}
		}
	}
	return obs
}

// the property itself on one item, independent of the model: "" when it holds
func c15Property(it *c15Item, o c15Obs) string {
	want := it.T.docGo()
	if !o.ok {
		return o.reason
	}
	if o.text == want {
		return ""
	}
	if c15Canon(o.text) == c15Canon(want) {
		return fmt.Sprintf("type text differs from the documented form in formatting only: got %q, documented %q", o.text, want)
	}
	return fmt.Sprintf("%s is emitted as %q, the documented Go type is %q", it.Text, o.text, want)
}

func c15Shrink(srv *FcSrv, it *c15Item, rng *Rng) *c15Item {
	inner := func(x *c15Item) *c15T {
		if x.Pos == "sig" || x.Pos == "siglocal" {
			return x.T.Kids[1]
		}
		return x.T
	}
	fails := func(t *c15T) *c15Item {
		if t.K == "unit" {
			return nil
		}
		cand := c15MakeItem(it.Idx, it.Pos, t.clone(), it.Variant, rng)
		cand.Text = strings.Join(cand.Toks, "")
		if strings.Contains(cand.Text, "-->") { // never: tokens are joined without spaces
			return nil
		}
		o := c15Observe(srv, []*c15Item{cand})[0]
		if c15Property(cand, o) != "" {
			return cand
		}
		return nil
	}
	cur := it
	for round := 0; round < 30; round++ {
		t := inner(cur)
		var cands []*c15T
		// every subterm alone, every subterm replaced by int, parentheses dropped
		var walk func(n *c15T)
		walk = func(n *c15T) {
			for _, k := range n.Kids {
				if k.K != "unit" {
					cands = append(cands, k)
				}
				walk(k)
			}
		}
		walk(t)
		var repl func(n *c15T, path []int)
		var paths [][]int
		repl = func(n *c15T, path []int) {
			for i, k := range n.Kids {
				p := append(append([]int{}, path...), i)
				if k.K != "unit" && !(k.K == "base" && k.Name == "int" && k.P == 0) {
					paths = append(paths, p)
				}
				repl(k, p)
			}
		}
		repl(t, nil)
		for _, p := range paths {
			c := t.clone()
			n := c
			for _, i := range p[:len(p)-1] {
				n = n.Kids[i]
			}
			n.Kids[p[len(p)-1]] = c15Base("int")
			cands = append(cands, c)
		}
		if t.P > 0 {
			c := t.clone()
			c.P = 0
			cands = append(cands, c)
		}
		var next *c15Item
		for _, c := range cands {
			if c.size() >= t.size() {
				continue
			}
			if f := fails(c); f != nil {
				next = f
				break
			}
		}
		if next == nil {
			break
		}
		cur = next
	}
	return cur
}

func runC15(c *Ctx) {
	rng := NewRng(c.Seed)
	c.Res.Rule = "every constructor shape (slice, 2/3-tuple, 1/2-argument function, unit-argument and unit-result function, " +
		"user generic G<T>, external ext.Box<T>, ext.Pair<K,V>) nested to depth 2 (quick and thorough; exhaustive), " +
		"depth 3 over {slice, 2-tuple, 1-argument function, ext.Box<T>} (thorough; exhaustive), depth-1 types with every " +
		"assignment of the 7 leaves (int string bool float any R0 ext.Plain; exhaustive), random types to depth 5; deeper leaves rotate over the 7 leaves; " +
		"each type with minimal parentheses in each of the positions param / field / payload / package_info signature " +
		"(qualified and package-local names) / explicit type argument, and with redundant parentheses in each position (thorough) " +
		"or in 2 of the 6 positions in rotation (quick); the depth-3 and random types take 2 of the 6 positions in rotation for each " +
		"parenthesisation; random token spacing; " +
		"non-trivial = at least one constructor; distinct by (position, source text)"
	c.Res.Exhaustive = true
	var types []*c15T
	ctr := 0
	for _, s := range c15Shapes(2, c15Ctors(true)) {
		types = append(types, c15Fill(s, &ctr))
	}
	c.CountN("shapes_depth<=2_full_constructor_set", len(types))
	d1 := c15Depth1All()
	types = append(types, d1...)
	c.CountN("depth<=1_every_leaf_assignment", len(d1))
	nFull := len(types) // these go to every position; the deeper / random ones rotate over the positions
	if c.Thorough() {
		n0 := len(types)
		for _, s := range c15Shapes(3, c15Ctors(false)) {
			if s != nil && s.depth() == 3 {
				types = append(types, c15Fill(s, &ctr))
			}
		}
		c.CountN("shapes_depth=3_reduced_constructor_set", len(types)-n0)
	}
	nrand := c.Pick(300, 6000)
	for i := 0; i < nrand; i++ {
		types = append(types, c15Random(rng, 3+rng.Intn(3)))
	}
	c.CountN("random_depth<=5", nrand)

	// items: every type in every position, minimal and redundant parentheses
	var items []*c15Item
	for ti, t := range types {
		for pi, pos := range c15Positions {
			for _, variant := range []string{"minimal", "redundant"} {
				// quick tier: the redundant-parentheses variant of a type goes to 2 of the 6 positions (rotating)
				if variant == "redundant" && !c.Thorough() && (ti+pi)%3 != 0 {
					continue
				}
				// quick tier: the package-local signature variant only for every third deeper type
				if !c.Thorough() && pos == "siglocal" && t.depth() >= 2 && ti%3 != 0 {
					continue
				}
				if ti >= nFull && ((variant == "minimal" && (ti+pi)%3 != 0) || (variant == "redundant" && (ti+pi)%3 != 1)) {
					continue
				}
				u := t.clone()
				if variant == "redundant" {
					u.decorate(rng, rng.Chance(1, 4))
					if u.size() == t.size() {
						u.P = 1
					}
				}
				items = append(items, c15MakeItem(len(items), pos, u, variant, rng))
			}
		}
	}
	if c.Replay != "" {
		items = c15LoadReplay(c.Replay)
	}
	c.Lap("generate")

	// batches through the in-process servers
	batch := 150
	if v := os.Getenv("C15_BATCH"); v != "" {
		fmt.Sscanf(v, "%d", &batch)
	}
	nb := (len(items) + batch - 1) / batch
	obs := make([]c15Obs, len(items))
	pool := c.NewFcPool(8)
	Parallel(nb, func(bi int) {
		lo, hi := bi*batch, (bi+1)*batch
		if hi > len(items) {
			hi = len(items)
		}
		s := pool.Get()
		defer pool.Put(s)
		copy(obs[lo:hi], c15Observe(s, items[lo:hi]))
	})
	c.Lap("server")

	// a sample of batches through real fc processes: the emitted file must be identical
	nproc := c.Pick(8, 60)
	if nproc > nb {
		nproc = nb
	}
	procBatches := rng.Perm(nb)[:nproc]
	Parallel(len(procBatches), func(k int) {
		bi := procBatches[k]
		lo, hi := bi*batch, (bi+1)*batch
		if hi > len(items) {
			hi = len(items)
		}
		dir := filepath.Join(c.Work, fmt.Sprintf("proc%d", bi))
		os.MkdirAll(dir, 0o755)
		defer os.RemoveAll(dir)
		src := c15Source(items[lo:hi])
		MustWrite(filepath.Join(dir, "m.fo"), src)
		// (a longer limit than c.Fc: the machine may be busy; a timeout here is not fc's fault)
		r := Run(dir, 240e9, 4096, []string{"GOMAXPROCS=2"}, filepath.Join(c.Bin, "fc"), "m.fo")
		if r.TimedOut {
			c.Count("real_process_timeouts")
			c.Note("fc process timed out after 240 s on a %d-byte file (machine overloaded); sample skipped", len(src))
			return
		}
		c.Count("real_process_runs")
		gen, _ := os.ReadFile(filepath.Join(dir, "gen_m.go"))
		s := pool.Get()
		sr := s.Transpile(SrcFile{"m.fo", src})
		pool.Put(s)
		if (r.Exit == 0) != sr.Ok || (sr.Ok && string(gen) != sr.Outs["gen_m.go"]) {
			c.Violate("hook", "hooked in-process fc and the fc process produce different output for the same file",
				map[string]any{"broken": "correspondence fcsrv hook vs fc process", "source": src, "process_exit": r.Exit,
					"process_output": r.Stdout + r.Stderr, "server_error": sr.Err}, true)
		}
	})
	c.Lap("processes")

	or := c.Oracle()
	shrinkSrv := pool.Get()
	defer func() { pool.Put(shrinkSrv); pool.Close() }()
	nprop, ncorr := 0, 0
	// render is injective on unit-free types (checked dynamically; not proved): Go text -> model tree
	seenText := map[string]string{}
	for i, it := range items {
		o := obs[i]
		c.Eval(it.Pos+"|"+it.Text, it.T.depth() >= 1)
		c.Count("position=" + it.Pos)
		c.Count("parens=" + it.Variant)
		c.Count(fmt.Sprintf("depth=%d", it.T.depth()))
		c.Count("top=" + it.T.K)
		if i%9973 == 17 {
			c.Sample(map[string]any{"position": it.Pos, "type": it.Text, "go": o.text, "documented": it.T.docGo()})
		}
		local := it.Pos == "siglocal"
		env := c15EnvGlobal
		if local {
			env = c15EnvLocal
		}
		ans := or.Ask("C15", fmt.Sprintf("(type %s %s)", env, c15TokSexp(it.Toks)))
		c.Compared(1)
		modelOK, modelText, modelAst := false, "", ""
		if strings.HasPrefix(ans, "OK ") {
			rest := ans[3:]
			// "<quoted>" <ast> <n>
			q := c15QuotedPrefix(rest)
			modelText = Unsq(q)
			tail := strings.TrimSpace(rest[len(q):])
			sp := strings.LastIndex(tail, " ")
			modelAst = tail[:sp]
			modelOK = tail[sp+1:] == "0"
		}
		if modelOK && !strings.Contains(modelAst, "unit") {
			key := it.Pos[:3] + "|" + modelText // siglocal resolves names differently: same first letters "sig"
			astG := strings.ReplaceAll(modelAst, "(named \"Box\"", "(named \"ext.Box\"")
			astG = strings.ReplaceAll(strings.ReplaceAll(astG, "(named \"Pair\"", "(named \"ext.Pair\""), "(named \"Plain\"", "(named \"ext.Plain\"")
			if prev, ok := seenText[key]; ok && prev != astG {
				c.Violate("injective", fmt.Sprintf("two different unit-free types render to the same Go text %q: %s and %s", modelText, prev, astG),
					map[string]any{"broken": "render injectivity on unit-free types (model level)", "go": modelText, "a": prev, "b": astG}, true)
			} else {
				seenText[key] = astG
			}
			c.Count("render_injectivity_checked")
		}
		bad := c15Property(it, o)
		disagree := ""
		switch {
		case !modelOK:
			disagree = "the model rejects the type expression or leaves tokens: " + ans
		case modelAst != it.T.astSexp(local):
			disagree = "the model parses " + it.Text + " as " + modelAst + ", the generator meant " + it.T.astSexp(local)
		case !o.ok:
			disagree = "the model accepts, fc: " + o.reason
		case o.text != modelText:
			disagree = fmt.Sprintf("fc emits %q, the model renders %q", o.text, modelText)
		}
		if disagree != "" {
			c.Disagree()
		}
		if bad != "" {
			c.Count("property_failures")
			nprop++
			if nprop > 3 {
				continue
			}
			small := c15Shrink(shrinkSrv, it, rng)
			so := c15Observe(shrinkSrv, []*c15Item{small})[0]
			c.Violate("prop", c15Property(small, so), map[string]any{"item": small, "source": c15Source([]*c15Item{small}),
				"go_type_text": so.text, "documented": small.T.docGo(), "first_failing_item": it, "model": ans}, false)
		} else if disagree != "" {
			ncorr++
			if ncorr > 3 {
				continue
			}
			c.Violate("corr", "correspondence TypeGrammar.parse_type/render vs fc broke (the documented mapping still holds on this input): "+disagree,
				map[string]any{"broken": "correspondence C15 parse_type/render (Front/TypeGrammar.v) vs fc", "item": it,
					"source": c15Source([]*c15Item{it}), "go_type_text": o.text, "model": ans}, true)
		}
	}
	c.Lap("compare")
}

func c15QuotedPrefix(s string) string {
	// s starts with a quoted string; return it including the quotes
	for i := 1; i < len(s); i++ {
		if s[i] == '\\' {
			i++
			continue
		}
		if s[i] == '"' {
			return s[:i+1]
		}
	}
	return s
}

func c15LoadReplay(path string) []*c15Item {
	var doc struct {
		Replay struct {
			Item *c15Item `json:"item"`
		} `json:"replay"`
	}
	b, err := os.ReadFile(path)
	if err != nil {
		panic(err)
	}
	if err := jsonUnmarshal(b, &doc); err != nil || doc.Replay.Item == nil {
		panic("replay file has no item")
	}
	return []*c15Item{doc.Replay.Item}
}

func init() { Register("C15", runC15) }
