package main

// C02 shape families with by-construction principal types, each aimed at one class of inference
// bug that value-flow shapes do not reach:
//   twobox: one generic record/union at two different type arguments inside one signature, and a
//           second function that calls the first (the CALLER's signature is checked too);
//   clamp:  ordering comparisons between parameters that come BEFORE the use that fixes their
//           type (if/elif conditions, && / || chains, let-bound booleans), annotated or not;
//   shadow: a lambda parameter with the name of an outer parameter/let of another type, and the
//           outer name used again AFTER the lambda.

import "fmt"

func c02V(n string) *c02Exp                 { return &c02Exp{K: "var", Name: n} }
func c02I(n int) *c02Exp                    { return &c02Exp{K: "int", Lit: fmt.Sprint(n)} }
func c02S_(s string) *c02Exp                { return &c02Exp{K: "str", Lit: "\"" + s + "\""} }
func c02Tup(xs ...*c02Exp) *c02Exp          { return &c02Exp{K: "tuple", Args: xs} }
func c02Let(x string, a, b *c02Exp) *c02Exp { return &c02Exp{K: "let", Name: x, Args: []*c02Exp{a, b}} }
func c02G_(n string, xs ...*c02Exp) *c02Exp { return &c02Exp{K: "global", Name: n, Args: xs} }
func c02Op(k, op string, a, b *c02Exp) *c02Exp {
	return &c02Exp{K: k, Name: op, Args: []*c02Exp{a, b}}
}

func c02MkFunc(name string, params []c02Param, body *c02Exp, rty *c02Ty) *c02Func {
	var pn []string
	var pt []*c02Ty
	for _, p := range params {
		pn = append(pn, p.Name)
		pt = append(pt, p.Ty)
	}
	return &c02Func{Name: name, Params: params, Body: body, Expect: c02ExpectedSig(name, pn, pt, rty)}
}

// a literal-built value of a ground type
func c02LitOf(rng *Rng, t *c02Ty) *c02Exp {
	switch t.K {
	case "int":
		return c02I(1 + rng.Intn(50))
	case "string":
		return c02S_(Choose(rng, []string{"a", "bc", "q"}))
	case "bool":
		return &c02Exp{K: "bool", Lit: Choose(rng, []string{"true", "false"})}
	case "slice":
		return &c02Exp{K: "slice", Args: []*c02Exp{c02LitOf(rng, t.Args[0])}}
	case "tuple":
		var xs []*c02Exp
		for _, a := range t.Args {
			xs = append(xs, c02LitOf(rng, a))
		}
		return c02Tup(xs...)
	}
	panic("c02LitOf " + t.K)
}

var c02FamElems = []*c02Ty{c02Int, c02Str, c02Bool, c02Slice(c02Int), c02Tuple(c02Int, c02Str), c02Slice(c02Str)}

// ---------------------------------------------------------------- twobox

// unionToo: also the generic union Opt (hazard stream: the pinned fc keys its revisit guard for unions
// by name only, so the second instantiation in a callee's signature stays a raw type variable)
func c02FamTwoBox(rng *Rng, id int, union bool) *c02Prog {
	perm := rng.Perm(len(c02FamElems))
	A, B := c02FamElems[perm[0]], c02FamElems[perm[1]]
	f0, f1 := fmt.Sprintf("p%df0", id), fmt.Sprintf("p%df1", id)
	kind := Choose(rng, []string{"Box", "Box", "Two"})
	if union {
		kind = "Opt"
	}
	wrap := func(e *c02Exp, k int) *c02Exp {
		switch kind {
		case "Box":
			return &c02Exp{K: "record", Name: "Box", Args: []*c02Exp{e, c02I(k)}}
		case "Opt":
			return &c02Exp{K: "ctor", Name: "Opt", Name2: "Som", Args: []*c02Exp{e}}
		}
		return &c02Exp{K: "record", Name: "Two", Args: []*c02Exp{e, c02I(k)}}
	}
	wty := func(t *c02Ty) *c02Ty {
		if kind == "Two" {
			return c02Named("Two", t, c02Int)
		}
		return c02Named(kind, t)
	}
	// a value of type t inside the callee: annotated parameter, parameter fixed by an operator, or literal
	var params0 []c02Param
	var callArgs []*c02Ty
	val := func(t *c02Ty, pn string) *c02Exp {
		switch r := rng.Intn(3); {
		case r == 0:
			params0 = append(params0, c02Param{Name: pn, Ty: t, Ann: true})
			callArgs = append(callArgs, t)
			return c02V(pn)
		case r == 1 && (t.K == "int" || t.K == "string"):
			params0 = append(params0, c02Param{Name: pn, Ty: t, Ann: rng.Bool(), Red: true})
			callArgs = append(callArgs, t)
			if t.K == "int" {
				return c02Op("arith", "+", c02V(pn), c02I(1))
			}
			return c02Op("arith", "+", c02V(pn), c02S_("!"))
		}
		return c02LitOf(rng, t)
	}
	var fn0 *c02Func
	var body1 *c02Exp
	var rty1 *c02Ty
	conv := rng.Chance(1, 3) && kind != "Opt"
	if conv {
		// G<A> -> G<B>
		fld := "BN"
		if kind == "Two" {
			fld = "TR"
		}
		params0 = []c02Param{{Name: "b", Ty: wty(A), Ann: true}}
		body0 := &c02Exp{K: "record", Name: kind, Args: []*c02Exp{c02LitOf(rng, B),
			{K: "field", Name: kind, Name2: fld, Ty: c02Int, Args: []*c02Exp{c02V("b")}}}}
		fn0 = c02MkFunc(f0, params0, body0, wty(B))
		first := "BV"
		if kind == "Two" {
			first = "TL"
		}
		body1 = c02Let("c", c02G_(f0, wrap(c02LitOf(rng, A), 2)),
			c02Tup(&c02Exp{K: "field", Name: kind, Name2: first, Ty: B, Args: []*c02Exp{c02V("c")}}, c02Op("arith", "+", c02V("n"), c02I(1))))
		rty1 = c02Tuple(B, c02Int)
	} else {
		// (G<A>, G<B>) built in one function
		e1 := wrap(val(A, "a"), 1)
		e2 := wrap(val(B, "b"), 2)
		if len(params0) == 0 {
			params0 = append(params0, c02Param{Name: "z", Ty: c02Int, Ann: true})
			callArgs = append(callArgs, c02Int)
		}
		var body0 *c02Exp
		if rng.Bool() {
			body0 = c02Tup(e1, e2)
		} else {
			body0 = c02Let("u", e1, c02Let("w", e2, c02Tup(c02V("u"), c02V("w"))))
		}
		fn0 = c02MkFunc(f0, params0, body0, c02Tuple(wty(A), wty(B)))
		var args []*c02Exp
		for _, t := range callArgs {
			args = append(args, c02LitOf(rng, t))
		}
		call := c02G_(f0, args...)
		nuse := c02Op("arith", "*", c02V("n"), c02I(2))
		if kind == "Opt" || rng.Chance(1, 3) {
			body1 = &c02Exp{K: "lettup", Xs: []string{"x", "y"}, Args: []*c02Exp{call, c02Tup(c02V("y"), nuse, c02V("x"))}}
			rty1 = c02Tuple(wty(B), c02Int, wty(A))
		} else {
			first := "BV"
			if kind == "Two" {
				first = "TL"
			}
			fx := &c02Exp{K: "field", Name: kind, Name2: first, Ty: A, Args: []*c02Exp{c02V("x")}}
			fy := &c02Exp{K: "field", Name: kind, Name2: first, Ty: B, Args: []*c02Exp{c02V("y")}}
			body1 = &c02Exp{K: "lettup", Xs: []string{"x", "y"}, Args: []*c02Exp{call, c02Tup(fx, nuse, fy)}}
			rty1 = c02Tuple(A, c02Int, B)
		}
	}
	fn1 := c02MkFunc(f1, []c02Param{{Name: "n", Ty: c02Int, Ann: rng.Bool(), Red: true}}, body1, rty1)
	stream := "family-twobox"
	if union {
		stream = "hazard-union2"
	}
	return &c02Prog{ID: id, Stream: stream, Funcs: []*c02Func{fn0, fn1}}
}

// ---------------------------------------------------------------- clamp

func c02FamClamp(rng *Rng, id int) *c02Prog {
	base := Choose(rng, []*c02Ty{c02Int, c02Int, c02Str})
	names := []string{"lo", "hi", "x", "m", "y"}
	k := 2 + rng.Intn(3)
	perm := rng.Perm(len(names))
	var ps []c02Param
	for i := 0; i < k; i++ {
		ps = append(ps, c02Param{Name: names[perm[i]], Ty: base, Ann: rng.Chance(2, 5), Red: true})
	}
	cmp := func(i, j int) *c02Exp {
		a, b := c02V(ps[i].Name), c02V(ps[j].Name)
		if rng.Bool() {
			a, b = b, a
		}
		return c02Op("cmp", Choose(rng, []string{"<", ">", "<=", ">="}), a, b)
	}
	// comparisons that connect all parameters
	var conds []*c02Exp
	for i := 0; i+1 < k; i++ {
		conds = append(conds, cmp(i, i+1))
	}
	if k > 2 && rng.Bool() {
		conds = append(conds, cmp(0, k-1))
	}
	det := ps[rng.Intn(k)]
	detE := c02DetUse(rng, det.Name, base)
	var detT *c02Ty
	switch detE.K {
	case "arith":
		detT = base
	case "record":
		detT = c02Named("Rec")
	case "slice":
		detT = c02Slice(base)
	default:
		detT = c02Slice(c02Bool) // slice.Take x [true]
	}
	name := fmt.Sprintf("p%df0", id)
	var body *c02Exp
	var rty *c02Ty
	switch rng.Intn(3) {
	case 0:
		// if / elif chain; the determining use is the last branch
		if detE.K != "arith" {
			detE, detT = c02Op("arith", "+", c02V(det.Name), c02LitOf(rng, base)), base
		}
		body = detE
		for i := len(conds) - 1; i >= 0; i-- {
			e := &c02Exp{K: "if", Block: true, Args: []*c02Exp{conds[i], c02V(ps[rng.Intn(k)].Name), body}}
			if body.K == "if" {
				body.Elif = rng.Chance(2, 3)
			}
			body = e
		}
		rty = base
	case 1:
		// && / || chain bound by a let, used as a condition
		chain := conds[0]
		for _, c := range conds[1:] {
			chain = c02Op("cmp", Choose(rng, []string{"&&", "||"}), chain, c)
		}
		other := ps[rng.Intn(k)].Name
		body = c02Let("ok", chain, c02Tup(&c02Exp{K: "if", Args: []*c02Exp{c02V("ok"), c02V(other), c02V(det.Name)}}, detE))
		rty = c02Tuple(base, detT)
	default:
		// let-bound booleans returned with the determining use last
		var outs []*c02Exp
		var ts []*c02Ty
		body = nil
		n := len(conds)
		if n > 2 {
			n = 2
		}
		for i := 0; i < n; i++ {
			outs = append(outs, c02V(fmt.Sprintf("b%d", i)))
			ts = append(ts, c02Bool)
		}
		outs = append(outs, detE)
		ts = append(ts, detT)
		body = c02Tup(outs...)
		for i := n - 1; i >= 0; i-- {
			c := conds[i]
			if i == n-1 {
				for _, extra := range conds[n:] {
					c = c02Op("cmp", "&&", c, extra)
				}
			}
			body = c02Let(fmt.Sprintf("b%d", i), c, body)
		}
		rty = c02Tuple(ts...)
	}
	var pts []c02Param
	pts = append(pts, ps...)
	return &c02Prog{ID: id, Stream: "family-clamp", Funcs: []*c02Func{c02MkFunc(name, pts, body, rty)}}
}

// ---------------------------------------------------------------- shadow

func c02FamShadow(rng *Rng, id int) *c02Prog {
	name := fmt.Sprintf("p%df0", id)
	A := Choose(rng, []*c02Ty{c02Int, c02Str})
	var B *c02Ty
	for {
		B = Choose(rng, []*c02Ty{c02Int, c02Str, c02Bool})
		if !c02Eq(A, B) {
			break
		}
	}
	X := Choose(rng, []string{"n", "v", "k"})
	// lambda over the shadowing name, at type B
	hof := Choose(rng, []string{"slice.Map", "slice.Map", "slice.Filter", "slice.Forall"})
	var lamBody *c02Exp
	var lamRes *c02Ty
	if hof == "slice.Map" {
		switch B.K {
		case "int":
			lamBody, lamRes = c02Op("arith", "*", c02V(X), c02I(2)), c02Int
		case "string":
			lamBody, lamRes = c02Op("arith", "+", c02V(X), c02S_("!")), c02Str
		default:
			lamBody, lamRes = c02Op("cmp", "&&", c02V(X), c02Op("cmp", "<", c02I(1), c02I(2))), c02Bool
		}
		if rng.Chance(1, 3) {
			lamBody, lamRes = c02Tup(lamBody, c02I(0)), c02Tuple(lamRes, c02Int)
		}
	} else {
		switch B.K {
		case "int":
			lamBody = c02Op("cmp", ">", c02V(X), c02I(1))
		case "string":
			lamBody = c02Op("eq", "<>", c02V(X), c02S_(""))
		default:
			lamBody = c02Op("cmp", "||", c02V(X), c02Op("cmp", "<", c02I(1), c02I(2)))
		}
	}
	lam := &c02Exp{K: "lam", Xs: []string{X}, Args: []*c02Exp{lamBody}}
	hofE := c02G_(hof, lam, c02V("xs"))
	var hofT *c02Ty
	switch hof {
	case "slice.Map":
		hofT = c02Slice(lamRes)
	case "slice.Filter":
		hofT = c02Slice(B)
	default:
		hofT = c02Bool
	}
	// the outer name used after the lambda, at type A (or left undetermined)
	var after *c02Exp
	afterT := A
	outerT := A
	raw := rng.Chance(1, 4)
	switch {
	case raw:
		after = c02V(X)
	case A.K == "int":
		after = c02Op("arith", "+", c02V(X), c02I(1))
	default:
		after = c02Op("arith", "+", c02V(X), c02S_("z"))
	}
	xs := c02Param{Name: "xs", Ty: c02Slice(B), Ann: rng.Bool(), Red: true}
	var params []c02Param
	var body *c02Exp
	inlineFirst := rng.Bool()
	result := func() (*c02Exp, *c02Ty) {
		if inlineFirst {
			return c02Tup(hofE, after), c02Tuple(hofT, afterT)
		}
		return c02Let("ys", hofE, c02Tup(after, c02V("ys"))), c02Tuple(afterT, hofT)
	}
	if rng.Bool() {
		// the outer binder is a parameter
		if raw {
			outerT, afterT = c02Var(0), c02Var(0)
		}
		b, rty := result()
		px := c02Param{Name: X, Ty: outerT, Ann: !raw && rng.Bool(), Red: true}
		if rng.Bool() {
			params = []c02Param{px, xs}
		} else {
			params = []c02Param{xs, px}
		}
		body = b
		return &c02Prog{ID: id, Stream: "family-shadow", Funcs: []*c02Func{c02MkFunc(name, params, body, rty)}}
	}
	// the outer binder is a let
	b, rty := result()
	var init *c02Exp
	if A.K == "int" {
		init = c02Op("arith", "+", c02V("p"), c02I(1))
	} else {
		init = c02Op("arith", "+", c02V("p"), c02S_("-"))
	}
	body = c02Let(X, init, b)
	params = []c02Param{{Name: "p", Ty: A, Ann: rng.Bool(), Red: true}, xs}
	return &c02Prog{ID: id, Stream: "family-shadow", Funcs: []*c02Func{c02MkFunc(name, params, body, rty)}}
}

// ---------------------------------------------------------------- anyarg
// a structured value (slice, tuple, function, record) passed to a parameter or a record field declared
// any: fc produces no relation for it, the caller's parameters are determined by their own operators

func c02FamAnyArg(rng *Rng, id int) *c02Prog {
	f0, f1 := fmt.Sprintf("p%df0", id), fmt.Sprintf("p%df1", id)
	show := c02MkFunc(f0, []c02Param{{Name: "x", Ty: c02Any, Ann: true}},
		c02G_("frt.Sprintf1", c02S_("<%v>"), c02V("x")), c02Str)
	n1 := c02Op("arith", "+", c02V("n"), c02I(1))
	var params []c02Param
	var body *c02Exp
	var rty *c02Ty
	pn := func(t *c02Ty) c02Param { return c02Param{Name: "n", Ty: t, Ann: rng.Chance(1, 3), Red: true} }
	switch rng.Intn(5) {
	case 0: // slice to any
		params, body, rty = []c02Param{pn(c02Int)}, c02G_(f0, &c02Exp{K: "slice", Args: []*c02Exp{c02V("n"), n1}}), c02Str
	case 1: // tuple to any
		params = []c02Param{pn(c02Int), {Name: "b", Ty: c02Str, Ann: rng.Chance(1, 3), Red: true}}
		body, rty = c02G_(f0, c02Tup(n1, c02Op("arith", "+", c02V("b"), c02S_("!")))), c02Str
	case 2: // function value to any
		params = []c02Param{pn(c02Int)}
		body, rty = c02G_(f0, &c02Exp{K: "lam", Xs: []string{"y"}, Args: []*c02Exp{c02Op("arith", "+", c02Op("arith", "*", c02V("y"), c02I(2)), n1)}}), c02Str
	case 3: // record field declared any
		params = []c02Param{{Name: "tag", Ty: c02Str, Ann: rng.Chance(1, 3), Red: true}, pn(c02Int)}
		body = &c02Exp{K: "record", Name: "Ent", Args: []*c02Exp{c02Op("arith", "+", c02V("tag"), c02S_(":")),
			{K: "slice", Args: []*c02Exp{c02V("n"), c02Op("arith", "*", c02V("n"), c02I(2))}}}}
		rty = c02Named("Ent")
	default: // nested: a tuple holding a slice, passed on inside a pair
		params = []c02Param{pn(c02Int)}
		body = c02Tup(c02G_(f0, c02Tup(&c02Exp{K: "slice", Args: []*c02Exp{n1}}, c02S_("k"))), c02V("n"))
		rty = c02Tuple(c02Str, c02Int)
	}
	fn1 := c02MkFunc(f1, params, body, rty)
	return &c02Prog{ID: id, Stream: "family-anyarg", Funcs: []*c02Func{show, fn1}}
}

// ---------------------------------------------------------------- retann
// a result annotation that is the only source of information for some parameter

func c02FamRetAnn(rng *Rng, id int) *c02Prog {
	name := fmt.Sprintf("p%df0", id)
	A := Choose(rng, []*c02Ty{c02Int, c02Str})
	var f *c02Func
	lit := func(t *c02Ty) *c02Exp { return c02LitOf(rng, t) }
	switch rng.Intn(5) {
	case 0: // let mkPair a b : A*B = (a, b)
		B := Choose(rng, []*c02Ty{c02Int, c02Str, c02Bool, c02Slice(c02Int)})
		f = c02MkFunc(name, []c02Param{{Name: "a", Ty: A}, {Name: "b", Ty: B}}, c02Tup(c02V("a"), c02V("b")), c02Tuple(A, B))
		f.Ret = c02Tuple(A, B)
	case 1: // let add a b : A = a + b   (generic, and not valid Go, without the annotation)
		f = c02MkFunc(name, []c02Param{{Name: "a", Ty: A}, {Name: "b", Ty: A}}, c02Op("arith", "+", c02V("a"), c02V("b")), A)
		f.Ret = A
	case 2: // let total xs : A = slice.Fold (fun acc x -> acc + x) <lit> xs ... with the literal replaced by a parameter
		f = c02MkFunc(name, []c02Param{{Name: "z", Ty: A}, {Name: "xs", Ty: c02Slice(A)}},
			c02G_("slice.Fold", &c02Exp{K: "lam", Xs: []string{"acc", "x"}, Args: []*c02Exp{c02Op("arith", "+", c02V("acc"), c02V("x"))}}, c02V("z"), c02V("xs")), A)
		f.Ret = A
	case 3: // let twiceAll xs : []A = slice.Map (fun x -> x + x) xs
		f = c02MkFunc(name, []c02Param{{Name: "xs", Ty: c02Slice(A)}},
			c02G_("slice.Map", &c02Exp{K: "lam", Xs: []string{"x"}, Args: []*c02Exp{c02Op("arith", "+", c02V("x"), c02V("x"))}}, c02V("xs")), c02Slice(A))
		f.Ret = c02Slice(A)
	default: // let pick c a : (A*int) = if c then (a, 1) else (a, 2)    (c from if, a only from the annotation)
		f = c02MkFunc(name, []c02Param{{Name: "c", Ty: c02Bool}, {Name: "a", Ty: A}},
			&c02Exp{K: "if", Block: rng.Bool(), Args: []*c02Exp{c02V("c"), c02Tup(c02V("a"), lit(c02Int)), c02Tup(c02V("a"), lit(c02Int))}}, c02Tuple(A, c02Int))
		f.Ret = c02Tuple(A, c02Int)
	}
	// some parameters may carry their (then redundant) annotation
	for i := range f.Params {
		if rng.Chance(1, 3) {
			f.Params[i].Ann, f.Params[i].Red = true, true
		}
	}
	return &c02Prog{ID: id, Stream: "family-retann", Funcs: []*c02Func{f}}
}

// ---------------------------------------------------------------- pipe
// x |> f with f a function-typed parameter whose annotation is redundant: the emitted code must not
// depend on the annotation

func c02FamPipe(rng *Rng, id int) *c02Prog {
	name := fmt.Sprintf("p%df0", id)
	A := Choose(rng, []*c02Ty{c02Int, c02Str})
	B := Choose(rng, []*c02Ty{c02Int, c02Str})
	typed := func(t *c02Ty, v string) *c02Exp {
		if t.K == "int" {
			return c02Op("arith", Choose(rng, []string{"+", "*"}), c02V(v), c02I(1+rng.Intn(9)))
		}
		return c02Op("arith", "+", c02V(v), c02S_(Choose(rng, []string{"?", "!", "-"})))
	}
	ft := c02Fun([]*c02Ty{A}, B)
	pf := c02Param{Name: "f", Ty: ft, Ann: true, Red: true}
	ps := c02Param{Name: "s", Ty: A, Ann: rng.Bool(), Red: true}
	pipe := &c02Exp{K: "pipe", Name: "f", Args: []*c02Exp{typed(A, "s")}}
	var use *c02Exp // the result of the pipe is used at type B by an operator with a typed operand
	if B.K == "int" {
		use = c02Op("arith", "*", pipe, c02I(2))
	} else {
		use = c02Op("arith", "+", pipe, c02S_("!"))
	}
	var body *c02Exp
	rty := B
	switch rng.Intn(3) {
	case 0:
		body = use
	case 1:
		body = c02Let("r", pipe, c02Tup(typed(B, "r"), c02V("s")))
		rty = c02Tuple(B, A)
	default:
		body = c02Tup(use, typed(A, "s"))
		rty = c02Tuple(B, A)
	}
	params := []c02Param{pf, ps}
	if rng.Bool() {
		params = []c02Param{ps, pf}
	}
	return &c02Prog{ID: id, Stream: "family-pipe", Funcs: []*c02Func{c02MkFunc(name, params, body, rty)}}
}

// ---------------------------------------------------------------- match
// a union match whose TARGET is a compound expression (a call of an earlier function, an if-expression, a
// let-bound call); parameters that only the target determines; binders typed by the case payload; all arms
// unified with the result

func c02FamMatch(rng *Rng, id int) *c02Prog {
	f0, f1 := fmt.Sprintf("p%df0", id), fmt.Sprintf("p%df1", id)
	generic := rng.Chance(1, 4)
	// the arms: result int, built from the binder of the case
	armsShp := func(extra *c02Exp) ([]*c02Exp, []string) {
		k := c02I(1 + rng.Intn(9))
		arms := []*c02Exp{
			c02Op("arith", "+", c02V("v"), k),
			c02G_("slice.Length", &c02Exp{K: "slice", Args: []*c02Exp{c02V("s"), c02S_("z")}}),
			c02I(rng.Intn(5) + 1),
			c02G_("frt.Fst", c02V("p")),
		}
		xs := []string{"v", "s", "", "p"}
		if rng.Bool() {
			arms[3], xs[3] = c02I(7), "_"
		}
		if extra != nil {
			arms[2] = extra
		}
		return arms, xs
	}
	var fn0, fn1 *c02Func
	if generic {
		// let f0 (a:int) = Som a          let f1 x = match f0 (x * 2) with | Som v -> v + x | Non -> x
		fn0 = c02MkFunc(f0, []c02Param{{Name: "a", Ty: c02Int, Ann: true}},
			&c02Exp{K: "ctor", Name: "Opt", Name2: "Som", Args: []*c02Exp{c02V("a")}}, c02Named("Opt", c02Int))
		m := &c02Exp{K: "match", Name: "Opt", Xs: []string{"v", ""}, Args: []*c02Exp{
			c02G_(f0, c02V("x")), c02Op("arith", "+", c02V("v"), c02I(1)), c02V("x")}}
		fn1 = c02MkFunc(f1, []c02Param{{Name: "x", Ty: c02Int, Ann: rng.Chance(1, 3), Red: true}}, m, c02Int)
		return &c02Prog{ID: id, Stream: "family-match", Funcs: []*c02Func{fn0, fn1}}
	}
	// let f0 n = if n < 0 then Sq "neg" else Circ n      (n : int through the comparison with a literal)
	fn0 = c02MkFunc(f0, []c02Param{{Name: "n", Ty: c02Int, Ann: rng.Bool(), Red: true}},
		&c02Exp{K: "if", Args: []*c02Exp{c02Op("cmp", "<", c02V("n"), c02I(rng.Intn(9))),
			{K: "ctor", Name: "Shp", Name2: "Sq", Args: []*c02Exp{c02S_("neg")}},
			{K: "ctor", Name: "Shp", Name2: "Circ", Args: []*c02Exp{c02V("n")}}}}, c02Named("Shp"))
	var params []c02Param
	var body *c02Exp
	rty := c02Int
	switch rng.Intn(5) {
	case 4: // call target, and a parameter that is only the body of an arm (typed int by the other arms)
		arms, xs := armsShp(c02V("d"))
		params = []c02Param{{Name: "x", Ty: c02Int, Ann: rng.Chance(1, 3), Red: true}, {Name: "d", Ty: c02Int, Ann: rng.Chance(1, 3), Red: true}}
		if rng.Bool() {
			params[0], params[1] = params[1], params[0]
		}
		body = &c02Exp{K: "match", Name: "Shp", Xs: xs, Args: append([]*c02Exp{c02G_(f0, c02V("x"))}, arms...)}
	case 0: // the target is a call: x is determined by nothing else
		arms, xs := armsShp(nil)
		params = []c02Param{{Name: "x", Ty: c02Int, Ann: rng.Chance(1, 3), Red: true}}
		body = &c02Exp{K: "match", Name: "Shp", Xs: xs, Args: append([]*c02Exp{c02G_(f0, c02V("x"))}, arms...)}
	case 1: // the target is an if-expression building the union: c and a only through the target
		arms, xs := armsShp(nil)
		params = []c02Param{{Name: "c", Ty: c02Bool, Ann: rng.Chance(1, 3), Red: true}, {Name: "a", Ty: c02Int, Ann: rng.Chance(1, 3), Red: true}}
		tgt := &c02Exp{K: "if", Args: []*c02Exp{c02V("c"), {K: "ctor", Name: "Shp", Name2: "Circ", Args: []*c02Exp{c02V("a")}}, {K: "ctor", Name: "Shp", Name2: "Dot"}}}
		body = &c02Exp{K: "match", Name: "Shp", Xs: xs, Args: append([]*c02Exp{tgt}, arms...)}
	case 2: // the argument of the call is itself a call of an unknown function: g : T0 -> int, y generic
		arms, xs := armsShp(nil)
		params = []c02Param{{Name: "g", Ty: c02Fun([]*c02Ty{c02Var(0)}, c02Int)}, {Name: "y", Ty: c02Var(0)}}
		body = &c02Exp{K: "match", Name: "Shp", Xs: xs, Args: append([]*c02Exp{c02G_(f0, &c02Exp{K: "callp", Name: "g", Args: []*c02Exp{c02V("y")}})}, arms...)}
	default: // let-bound target; a second parameter that is ONLY the body of a later arm: the relation between
		// the arms is what determines it (fc unifies the arms with each other since ed18265)
		arms, xs := armsShp(c02V("d"))
		params = []c02Param{{Name: "x", Ty: c02Int, Ann: rng.Chance(1, 3), Red: true}, {Name: "d", Ty: c02Int, Ann: rng.Chance(1, 3), Red: true}}
		body = c02Let("t", c02G_(f0, c02Op("arith", "*", c02V("x"), c02I(2))),
			&c02Exp{K: "match", Name: "Shp", Xs: xs, Args: append([]*c02Exp{c02V("t")}, arms...)})
	}
	fn1 = c02MkFunc(f1, params, body, rty)
	return &c02Prog{ID: id, Stream: "family-match", Funcs: []*c02Func{fn0, fn1}}
}
