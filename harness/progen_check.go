package main

// Check: the static semantics of MiniFo (FORMAT.md) plus the domain rules of C01 (what fc accepts and
// what Go compiles: no shadowing, every binder used, match targets of known type, …). It fills Expr.T.
// Every generated program and every shrink candidate must pass it, so the search never leaves the
// domain of the property.

import (
	"fmt"
	"regexp"
)

type CheckOpts struct {
	AllowUnused      bool // hazard "unused-binder"
	AllowUnitTypeVar bool // hazard "unit-typevar"
	AllowInterpStart bool // hazard "interp-block-start"
	AllowExtPartial  bool // extension: (ext Name args) with fewer arguments as a partial application value
	Tiny             bool // the tinyfo profile: additionally reject what tinyfo cannot take
}

var identRe = regexp.MustCompile(`^[a-z][a-zA-Z0-9]*$`)
var fieldRe = regexp.MustCompile(`^[a-zA-Z][a-zA-Z0-9]*$`)
var typeNameRe = regexp.MustCompile(`^[A-Z][a-zA-Z0-9]*$`)
var tDigitRe = regexp.MustCompile(`^T[0-9]`)

var reservedWords = func() map[string]bool {
	m := map[string]bool{}
	for _, w := range []string{
		// Folang
		"let", "package", "import", "type", "of", "match", "with", "true", "false", "package_info", "and", "if", "then", "else",
		"elif", "not", "fun", "GoEval", "main",
		// Go keywords and the predeclared identifiers the emitted code relies on
		"break", "case", "chan", "const", "continue", "default", "defer", "fallthrough", "for", "func", "go", "goto", "interface",
		"map", "range", "return", "select", "struct", "switch", "var", "int", "string", "bool", "any", "nil", "iota", "len", "cap",
		"append", "copy", "make", "new", "panic", "print", "println", "recover", "error", "float", "byte", "rune", "uint",
		"frt", "slice", "strings", "dict", "buf", "sys", "fmt",
	} {
		m[w] = true
	}
	return m
}()

func validIdent(x string) bool { return identRe.MatchString(x) && !reservedWords[x] }
func validTypeName(x string) bool {
	return typeNameRe.MatchString(x) && !tDigitRe.MatchString(x) && !reservedWords[x]
}

type checker struct {
	opts    CheckOpts
	recs    map[string]*Decl
	unions  map[string]*Decl
	cases   map[string]*Decl // case name -> union
	funs    map[string]*Type // top-level functions visible so far
	topName map[string]bool
	// per top-level function
	atBlock bool            // the expression about to be checked stands at block level (statement, let right-hand side, final expression)
	inLet   int             // > 0 inside the right-hand side of a let / destructuring let
	bound   map[string]bool // every binder of the current function (no shadowing)
	uses    map[string]int
	env     []binding
}

type binding struct {
	name string
	t    *Type
}

type checkErr struct{ msg string }

func (c *checker) fail(format string, a ...any) {
	panic(checkErr{fmt.Sprintf(format, a...)})
}

// Check validates p and fills the types of all expressions.
func Check(p *Prog, opts CheckOpts) (err error) {
	defer func() {
		if r := recover(); r != nil {
			if ce, ok := r.(checkErr); ok {
				err = fmt.Errorf("%s", ce.msg)
				return
			}
			panic(r)
		}
	}()
	c := &checker{opts: opts, recs: map[string]*Decl{}, unions: map[string]*Decl{}, cases: map[string]*Decl{},
		funs: map[string]*Type{}, topName: map[string]bool{}}
	fieldSeen := map[string]bool{}
	for _, d := range p.Decls {
		switch d.K {
		case DRecord, DUnion:
			if !validTypeName(d.Name) || c.topName[d.Name] {
				c.fail("bad or duplicate type name %s", d.Name)
			}
			c.topName[d.Name] = true
		}
		switch d.K {
		case DRecord:
			if len(d.Fields) == 0 {
				c.fail("record %s without fields", d.Name)
			}
			for _, f := range d.Fields {
				if !fieldRe.MatchString(f.Name) || reservedWords[f.Name] || fieldSeen[f.Name] {
					c.fail("bad or duplicate field name %s (field names are unique per program)", f.Name)
				}
				fieldSeen[f.Name] = true
				c.wfType(f.T, true)
			}
			c.recs[d.Name] = d
		case DUnion:
			if len(d.Cases) == 0 {
				c.fail("union %s without cases", d.Name)
			}
			for _, cs := range d.Cases {
				if !validTypeName(cs.Name) || c.cases[cs.Name] != nil || c.topName[cs.Name] && cs.Name != d.Name {
					c.fail("bad or duplicate case name %s", cs.Name)
				}
				if cs.T != nil {
					c.wfType(cs.T, true)
				}
				c.cases[cs.Name] = d
			}
			c.unions[d.Name] = d
		case DFun:
			if !validIdent(d.Name) || c.topName[d.Name] {
				c.fail("bad or duplicate function name %s", d.Name)
			}
			c.topName[d.Name] = true
		}
	}
	for _, d := range p.Decls {
		if d.K != DFun {
			continue
		}
		if len(d.Params) == 0 {
			c.fail("function %s without parameters (use ((u unit)))", d.Name)
		}
		var pts []*Type
		for _, pa := range d.Params {
			pts = append(pts, pa.T)
		}
		ft := tFun(pts, d.Ret)
		c.wfFunType(ft, d.Name)
		c.funs[d.Name] = ft // visible to its own body: recursion
		c.beginFun()
		for _, pa := range d.Params {
			if pa.T.K == TUnit {
				if len(d.Params) != 1 {
					c.fail("%s: a unit parameter must be the only one", d.Name)
				}
				c.bindSilent(pa.Name)
				continue
			}
			c.bind(pa.Name, pa.T)
			c.uses[pa.Name]++ // Go accepts unused function parameters
		}
		bt := c.block(d.Body)
		if !bt.Equal(d.Ret) {
			c.fail("%s: body has type %s, declared %s", d.Name, bt.Sexp(), d.Ret.Sexp())
		}
		c.endFun(d.Name)
	}
	c.beginFun()
	if t := c.block(p.Main); t.K != TUnit {
		c.fail("main has type %s", t.Sexp())
	}
	c.endFun("main")
	return nil
}

func (c *checker) beginFun() {
	c.bound = map[string]bool{}
	c.uses = map[string]int{}
	c.env = nil
}

func (c *checker) endFun(name string) {
	if c.opts.AllowUnused {
		return
	}
	for x := range c.bound {
		if c.uses[x] == 0 {
			c.fail("%s: binder %s is never used", name, x)
		}
	}
}

func (c *checker) bindSilent(x string) {
	if !validIdent(x) || c.bound[x] || c.topName[x] {
		c.fail("bad, shadowing or duplicate binder %s", x)
	}
	c.bound[x] = true
	c.uses[x]++
}

func (c *checker) bind(x string, t *Type) {
	if !validIdent(x) || c.bound[x] || c.topName[x] {
		c.fail("bad, shadowing or duplicate binder %s", x)
	}
	c.bound[x] = true
	c.env = append(c.env, binding{x, t})
}

func (c *checker) lookup(x string) *Type {
	for i := len(c.env) - 1; i >= 0; i-- {
		if c.env[i].name == x {
			c.uses[x]++
			return c.env[i].t
		}
	}
	if t, ok := c.funs[x]; ok {
		return t
	}
	c.fail("unbound variable %s", x)
	return nil
}

// wfType: declared types exist; data positions hold first-order types.
func (c *checker) wfType(t *Type, data bool) {
	switch t.K {
	case TRec:
		if c.recs[t.Name] == nil {
			c.fail("unknown (or later) record type %s", t.Name)
		}
	case TUnion:
		if c.unions[t.Name] == nil {
			c.fail("unknown (or later) union type %s", t.Name)
		}
	case TTuple:
		if len(t.Elems) != 2 && len(t.Elems) != 3 {
			c.fail("tuple arity %d", len(t.Elems))
		}
		if c.opts.Tiny && len(t.Elems) != 2 {
			c.fail("tiny: only pairs")
		}
	case TVar:
		c.fail("type variable in a program")
	case TFun, TUnit:
		if data {
			c.fail("type %s in a data position", t.Sexp())
		}
	}
	for _, e := range t.Elems {
		c.wfType(e, data || t.K != TFun)
	}
}

// wfFunType: the function types the generator and fc handle: parameters are first-order, or (second
// order) functions over first-order types; a unit parameter only alone; result first-order, unit, or
// (for named functions) a function over first-order types.
func (c *checker) wfFunType(t *Type, what string) {
	ps := t.FunParams()
	for _, p := range ps {
		switch p.K {
		case TUnit:
			if len(ps) != 1 {
				c.fail("%s: unit parameter must be alone", what)
			}
		case TFun:
			c.wfSimpleFun(p, what)
		default:
			c.wfType(p, true)
		}
	}
	r := t.FunRet()
	switch r.K {
	case TUnit:
	case TFun:
		c.wfSimpleFun(r, what)
	default:
		c.wfType(r, true)
	}
}

func (c *checker) wfSimpleFun(t *Type, what string) {
	for _, p := range t.FunParams() {
		if p.K == TUnit && len(t.FunParams()) == 1 {
			continue
		}
		c.wfType(p, true)
	}
	if r := t.FunRet(); r.K != TUnit {
		c.wfType(r, true)
	}
}

// startsWithInterp: the first token printed for e is an interpolated string. fc takes the column of
// a $"…" token one to the right (the token starts after the $), so a block whose first line starts
// with one gets an offside column its next line falls short of ("Unknown stmt" / "non expected token").
func startsWithInterp(e *Expr) bool {
	switch e.K {
	case EInterp:
		return true
	case EPipe, EBin, EEq, ENeq:
		return startsWithInterp(e.Args[0])
	}
	return false
}

func (c *checker) block(b *Block) *Type {
	if len(b.Stmts) > 0 && b.Stmts[0].K == SDo && startsWithInterp(b.Stmts[0].E) && !c.opts.AllowInterpStart {
		c.fail("a block of several lines starts with an interpolated string (fc misjudges its column)")
	}
	mark := len(c.env)
	for _, s := range b.Stmts {
		c.stmt(s)
	}
	t := c.blockExpr(b.E)
	c.env = c.env[:mark]
	return t
}

func (c *checker) stmt(s *Stmt) {
	switch s.K {
	case SLet:
		c.inLet++
		t := c.blockExpr(s.E)
		c.inLet--
		if t.K == TUnit {
			c.fail("let %s binds a unit value", s.Name)
		}
		if s.E.K == ECall && len(s.E.Args) < s.E.Arity && t.K == TFun && t.FunRet().K == TUnit {
			c.fail("let %s binds a partial application of a unit function", s.Name)
		}
		if s.E.K == EExt && t.K == TFun && t.FunRet().K == TUnit {
			c.fail("let %s binds a partial application of a unit function", s.Name)
		}
		c.bind(s.Name, t)
	case SLetFun:
		if c.inLet > 0 {
			c.fail("inner function %s inside the right-hand side of a let (fc: non expected token)", s.Name)
		}
		if len(s.Params) == 0 {
			c.fail("inner function %s without parameters", s.Name)
		}
		var pts []*Type
		for _, pa := range s.Params {
			pts = append(pts, pa.T)
		}
		ft := tFun(pts, s.Ret)
		c.wfFunType(ft, s.Name)
		if s.Ret.K == TFun {
			c.fail("inner function %s returns a function", s.Name)
		}
		mark := len(c.env)
		for _, pa := range s.Params {
			if pa.T.K == TUnit {
				c.fail("inner function %s with a unit parameter", s.Name)
			}
			c.bind(pa.Name, pa.T)
		}
		bt := c.block(s.Body)
		if !bt.Equal(s.Ret) {
			c.fail("%s: body has type %s, declared %s", s.Name, bt.Sexp(), s.Ret.Sexp())
		}
		c.env = c.env[:mark]
		c.bind(s.Name, ft) // non-recursive: visible after its body only
	case SDestr:
		c.inLet++
		t := c.expr(s.E)
		c.inLet--
		if t.K != TTuple || len(t.Elems) != len(s.Names) {
			c.fail("destructuring %d names from %s", len(s.Names), t.Sexp())
		}
		for i, n := range s.Names {
			c.bind(n, t.Elems[i])
		}
	case SDo:
		if t := c.blockExpr(s.E); t.K != TUnit {
			c.fail("(do E) with E : %s", t.Sexp())
		}
	}
}

func isCmp(op string) bool { return op == "<" || op == ">" || op == "<=" || op == ">=" }

func (c *checker) expr(e *Expr) *Type {
	top := c.atBlock
	c.atBlock = false
	if c.opts.Tiny && !top {
		// tinyfo ends a block only by column, not at a closing parenthesis: a multi-line construct
		// cannot stand inside an expression. A nested if must fit on one line; no nested match.
		switch e.K {
		case EMatchU, EIfOnly:
			c.fail("tiny: %s nested in an expression", e.K)
		case EIf:
			if len(e.Blocks[0].Stmts) > 0 || len(e.Blocks[1].Stmts) > 0 {
				c.fail("tiny: nested if with statements in a branch")
			}
		}
	}
	t := c.expr1(e)
	e.T = t
	return t
}

func (c *checker) blockExpr(e *Expr) *Type {
	c.atBlock = true
	return c.expr(e)
}

func (c *checker) want(e *Expr, t *Type, what string) {
	if got := c.expr(e); !got.Equal(t) {
		c.fail("%s: expected %s, got %s in %s", what, t.Sexp(), got.Sexp(), e.Sexp())
	}
}

func (c *checker) expr1(e *Expr) *Type {
	switch e.K {
	case EInt:
		return tInt
	case EStr:
		return tString
	case EBool:
		return tBool
	case EUnit:
		return tUnit
	case EVar:
		return c.lookup(e.Name)
	case EBin:
		switch {
		case e.Op == "+" || e.Op == "-" || e.Op == "*" || e.Op == "/":
			if c.opts.Tiny && (e.Op == "*" || e.Op == "/") {
				c.fail("tiny: no %s", e.Op)
			}
			c.want(e.Args[0], tInt, e.Op)
			c.want(e.Args[1], tInt, e.Op)
			return tInt
		case e.Op == "sadd":
			c.want(e.Args[0], tString, e.Op)
			c.want(e.Args[1], tString, e.Op)
			return tString
		case isCmp(e.Op):
			c.want(e.Args[0], tInt, e.Op)
			c.want(e.Args[1], tInt, e.Op)
			return tBool
		case e.Op == "&&" || e.Op == "||":
			c.want(e.Args[0], tBool, e.Op)
			c.want(e.Args[1], tBool, e.Op)
			return tBool
		}
		c.fail("unknown operator %s", e.Op)
	case EEq, ENeq:
		t := c.expr(e.Args[0])
		if !t.FirstOrder() {
			c.fail("equality at type %s", t.Sexp())
		}
		c.want(e.Args[1], t, "=")
		return tBool
	case ENot:
		c.want(e.Args[0], tBool, "not")
		return tBool
	case EIf:
		c.want(e.Args[0], tBool, "if")
		t1 := c.block(e.Blocks[0])
		t2 := c.block(e.Blocks[1])
		if !t1.Equal(t2) {
			c.fail("if branches %s / %s", t1.Sexp(), t2.Sexp())
		}
		if t1.K == TFun {
			c.fail("if of function type")
		}
		if t1.K == TUnit && tailIfOnly(e.Blocks[0]) && (c.opts.Tiny || !oneLineIfOnly(e.Blocks[0].E)) {
			// (a last statement `if c then e` that fits on one line is printed on one line; the else that
			// follows on a less indented line then belongs to the outer if)
			c.fail("then-block ends in an if without else (fc attaches the following else to it)")
		}
		return t1
	case EIfOnly:
		c.want(e.Args[0], tBool, "if")
		if t := c.block(e.Blocks[0]); t.K != TUnit {
			c.fail("if without else of type %s", t.Sexp())
		}
		return tUnit
	case ELam:
		if c.opts.Tiny {
			c.fail("tiny: no lambda")
		}
		if len(e.Params) == 0 {
			c.fail("lambda without parameters")
		}
		mark := len(c.env)
		var pts []*Type
		for _, pa := range e.Params {
			if !pa.T.FirstOrder() {
				c.fail("lambda parameter of type %s", pa.T.Sexp())
			}
			c.wfType(pa.T, true)
			c.bind(pa.Name, pa.T)
			pts = append(pts, pa.T)
		}
		rt := c.block(e.Blocks[0])
		c.env = c.env[:mark]
		if rt.K == TFun {
			c.fail("lambda returning a function")
		}
		return tFun(pts, rt)
	case ECall:
		ft := c.lookup(e.Name)
		if ft.K != TFun {
			c.fail("call of non-function %s : %s", e.Name, ft.Sexp())
		}
		ps := ft.FunParams()
		if e.Arity != len(ps) {
			c.fail("call %s: arity %d, the function has %d parameters", e.Name, e.Arity, len(ps))
		}
		if len(e.Args) < 1 || len(e.Args) > len(ps) {
			c.fail("call %s with %d arguments", e.Name, len(e.Args))
		}
		for i, a := range e.Args {
			if ps[i].K == TUnit && a.K != EUnit {
				c.fail("call %s: a unit parameter is passed as (unit)", e.Name)
			}
			c.want(a, ps[i], "argument of "+e.Name)
		}
		if len(e.Args) == len(ps) {
			return ft.FunRet()
		}
		return tFun(ps[len(e.Args):], ft.FunRet())
	case EExt:
		return c.ext(e, len(extArity(e.Name, c)), nil)
	case EPipe:
		lt := c.expr(e.Args[0])
		if lt.K == TUnit || lt.K == TFun {
			c.fail("pipe from a value of type %s", lt.Sexp())
		}
		r := e.Args[1]
		switch r.K {
		case EVar:
			ft := c.expr(r)
			if ft.K != TFun || len(ft.FunParams()) != 1 || !ft.FunParams()[0].Equal(lt) {
				c.fail("pipe stage %s : %s does not take %s", r.Name, ft.Sexp(), lt.Sexp())
			}
			return ft.FunRet()
		case ECall:
			if len(r.Args) != r.Arity-1 {
				c.fail("pipe stage %s must miss exactly its last argument", r.Name)
			}
			ft := c.expr(r)
			if !ft.FunParams()[0].Equal(lt) {
				c.fail("pipe stage %s does not take %s", r.Name, lt.Sexp())
			}
			return ft.FunRet()
		case EExt:
			n := len(extArity(r.Name, c))
			rt := c.ext(r, n-1, lt)
			r.T = tFun([]*Type{lt}, rt)
			return rt
		}
		c.fail("pipe stage of kind %s", r.K)
	case ETuple:
		if len(e.Args) != 2 && len(e.Args) != 3 {
			c.fail("tuple of %d", len(e.Args))
		}
		if c.opts.Tiny && len(e.Args) != 2 {
			c.fail("tiny: only pairs")
		}
		var ts []*Type
		for _, a := range e.Args {
			t := c.expr(a)
			if !t.FirstOrder() {
				c.fail("tuple component of type %s", t.Sexp())
			}
			ts = append(ts, t)
		}
		return tTuple(ts...)
	case ERecord:
		d := c.recs[e.Name]
		if d == nil {
			c.fail("unknown record %s", e.Name)
		}
		if len(e.Args) != len(d.Fields) || len(e.Fields) != len(d.Fields) {
			c.fail("record %s: all fields, each once", e.Name)
		}
		// the fields may be written in any order; they are evaluated in the order written
		seen := map[string]bool{}
		for i, fn := range e.Fields {
			var ft *Type
			for _, f := range d.Fields {
				if f.Name == fn {
					ft = f.T
				}
			}
			if ft == nil || seen[fn] {
				c.fail("record %s: field %s unknown or repeated", e.Name, fn)
			}
			seen[fn] = true
			c.want(e.Args[i], ft, "field "+fn)
		}
		return tRec(e.Name)
	case EField:
		if k := e.Args[0].K; k != EVar && k != EField {
			c.fail("field access on a %s (fc takes a variable path only)", k)
		}
		t := c.expr(e.Args[0])
		if t.K != TRec {
			c.fail("field %s of %s", e.Name, t.Sexp())
		}
		for _, f := range c.recs[t.Name].Fields {
			if f.Name == e.Name {
				return f.T
			}
		}
		c.fail("record %s has no field %s", t.Name, e.Name)
	case ECtor:
		d := c.cases[e.Name]
		if d == nil {
			c.fail("unknown case %s", e.Name)
		}
		for _, cs := range d.Cases {
			if cs.Name == e.Name {
				if cs.T == nil {
					if len(e.Args) != 0 {
						c.fail("case %s has no payload", e.Name)
					}
				} else {
					if len(e.Args) != 1 {
						c.fail("case %s needs a payload", e.Name)
					}
					c.want(e.Args[0], cs.T, "payload of "+e.Name)
				}
			}
		}
		return tUnion(d.Name)
	case EMatchU:
		tg := e.Args[0]
		switch {
		case tg.K == EVar, tg.K == EField, tg.K == ECtor, tg.K == ECall && len(tg.Args) == tg.Arity:
		default:
			c.fail("match target of kind %s: its type is not known at parse time", tg.K)
		}
		tt := c.expr(tg)
		if tt.K != TUnion {
			c.fail("union match on %s", tt.Sexp())
		}
		d := c.unions[tt.Name]
		if len(e.Arms) == 0 {
			c.fail("match with only a default arm")
		}
		seen := map[string]bool{}
		var rt *Type
		arm := func(b *Block) {
			t := c.block(b)
			if rt == nil {
				rt = t
			} else if !rt.Equal(t) {
				c.fail("match arms %s / %s", rt.Sexp(), t.Sexp())
			}
		}
		for _, a := range e.Arms {
			var cs *Case
			for i := range d.Cases {
				if d.Cases[i].Name == a.Case {
					cs = &d.Cases[i]
				}
			}
			if cs == nil || seen[a.Case] {
				c.fail("arm %s: not a case of %s, or repeated", a.Case, d.Name)
			}
			seen[a.Case] = true
			mark := len(c.env)
			if a.Bind != "" && a.Bind != "_" {
				if cs.T == nil {
					c.fail("arm %s binds the payload of a case without payload", a.Case)
				}
				c.bind(a.Bind, cs.T)
			}
			arm(a.Body)
			c.env = c.env[:mark]
		}
		if e.Deflt != nil {
			arm(e.Deflt)
		} else if len(seen) != len(d.Cases) {
			c.fail("match without default does not cover %s", d.Name)
		}
		if rt.K == TFun {
			c.fail("match of function type")
		}
		return rt
	case EMatchS:
		if c.opts.Tiny {
			c.fail("tiny: no string match")
		}
		c.want(e.Args[0], tString, "match")
		if len(e.Arms) == 0 {
			c.fail("string match without literal arm")
		}
		seen := map[string]bool{}
		var rt *Type
		arm := func(b *Block) {
			t := c.block(b)
			if rt == nil {
				rt = t
			} else if !rt.Equal(t) {
				c.fail("match arms %s / %s", rt.Sexp(), t.Sexp())
			}
		}
		for _, a := range e.Arms {
			if seen[a.Lit] {
				c.fail("repeated literal arm %q (Go: duplicate case)", a.Lit)
			}
			seen[a.Lit] = true
			arm(a.Body)
		}
		mark := len(c.env)
		if e.Bind != "" {
			c.bind(e.Bind, tString)
		}
		arm(e.Deflt)
		c.env = c.env[:mark]
		if rt.K == TFun {
			c.fail("match of function type")
		}
		return rt
	case ESlice:
		if c.opts.Tiny && len(e.Args) == 0 {
			c.fail("tiny: no empty slice literal (slice.New<T> () is not in tinyfo)")
		}
		c.wfType(e.ElemT, true)
		for _, a := range e.Args {
			c.want(a, e.ElemT, "slice element")
		}
		return tSlice(e.ElemT)
	case EInterp:
		if c.opts.Tiny {
			c.fail("tiny: no string interpolation")
		}
		for _, p := range e.Parts {
			if p.IsHole {
				var t *Type
				for i := len(c.env) - 1; i >= 0; i-- {
					if c.env[i].name == p.Text {
						t = c.env[i].t
						c.uses[p.Text]++
						break
					}
				}
				if t == nil || t.K != TInt && t.K != TString && t.K != TBool {
					c.fail("interpolation hole %s: not an int/string/bool variable in scope", p.Text)
				}
			}
		}
		return tString
	case EBlockE:
		c.fail("a block used as an expression has no concrete Folang syntax (fc parses blocks only as bodies and branches)")
	}
	c.fail("unknown expression kind")
	return nil
}

func extArity(name string, c *checker) []*Type {
	s := extTable[name]
	if s == nil {
		c.fail("unknown library function %s", name)
	}
	return s.Params
}

// ext checks a library call supplying the first `supplied` arguments (all of them, or all but the
// last when it is a pipe stage: then `piped` is the type flowing in). Returns the result type.
func (c *checker) ext(e *Expr, supplied int, piped *Type) *Type {
	sig := extTable[e.Name]
	if c.opts.Tiny && !sig.Tiny {
		c.fail("tiny: %s not in the profile", e.Name)
	}
	partialValue := false
	if len(e.Args) != supplied {
		if piped == nil && c.opts.AllowExtPartial && len(e.Args) >= 1 && len(e.Args) < supplied {
			partialValue = true
		} else {
			c.fail("%s with %d arguments", e.Name, len(e.Args))
		}
	}
	s := map[string]*Type{}
	for i, a := range e.Args {
		t := c.expr(a)
		if i == 0 && sig.Fmt {
			if a.K != EStr {
				c.fail("%s: the format must be a literal", e.Name)
			}
			continue
		}
		if !unify(sig.Params[i], t, s) {
			c.fail("%s: argument %d has type %s, expected %s", e.Name, i+1, t.Sexp(), sig.Params[i].subst(s).Sexp())
		}
	}
	if piped != nil {
		if !unify(sig.Params[len(sig.Params)-1], piped, s) {
			c.fail("%s: piped value of type %s, expected %s", e.Name, piped.Sexp(), sig.Params[len(sig.Params)-1].subst(s).Sexp())
		}
	}
	if partialValue {
		// the remaining parameter types must be determined by the supplied ones, except a format's operand
		rest := make([]*Type, 0)
		for _, p := range sig.Params[len(e.Args):] {
			rest = append(rest, p.subst(s))
		}
		ret := sig.Ret.subst(s)
		if sig.Fmt {
			verb := fmtVerb(e.Args[0].Str)
			var ot *Type
			switch verb {
			case "d":
				ot = tInt
			case "s":
				ot = tString
			default:
				c.fail("%s partially applied needs %%d or %%s", e.Name)
			}
			rest = []*Type{ot}
		}
		for _, r := range rest {
			if r.hasVar() {
				c.fail("%s partially applied: parameter type not determined", e.Name)
			}
		}
		if ret.hasVar() {
			c.fail("%s partially applied: result type not determined", e.Name)
		}
		c.extSide(e, sig, s, rest)
		return tFun(rest, ret)
	}
	var operand *Type
	if sig.Fmt {
		if len(e.Args) == 2 {
			operand = e.Args[1].T
		} else {
			operand = piped
		}
	}
	c.extSide(e, sig, s, []*Type{operand})
	ret := sig.Ret.subst(s)
	if ret.hasVar() {
		c.fail("%s: result type not determined", e.Name)
	}
	return ret
}

// side conditions: format verbs, ordered types, no unit for a type variable, data types first-order
func (c *checker) extSide(e *Expr, sig *ExtSig, s map[string]*Type, operand []*Type) {
	if sig.Fmt {
		f := e.Args[0].Str
		verb := fmtVerb(f)
		if verb == "" {
			c.fail("%s: unsupported format %q", e.Name, f)
		}
		if e.Name == "frt.Printf1" && f != "%"+verb+"\n" {
			c.fail("frt.Printf1: the format is one of %%d\\n %%s\\n %%v\\n")
		}
		if operand[0] != nil && !verbAccepts(verb, operand[0]) {
			c.fail("%s: verb %%%s with operand %s", e.Name, verb, operand[0].Sexp())
		}
	}
	for v, t := range s {
		if t.K == TUnit && !c.opts.AllowUnitTypeVar {
			c.fail("%s: type variable %s instantiated with unit", e.Name, v)
		}
		if t.K == TUnit {
			continue
		}
		if !t.FirstOrder() {
			c.fail("%s: type variable %s instantiated with %s", e.Name, v, t.Sexp())
		}
	}
	for _, v := range sig.Ordered {
		if t := s[v]; t != nil && t.K != TInt && t.K != TString {
			c.fail("%s at element type %s", e.Name, t.Sexp())
		}
	}
}

// tailIfOnly: the last expression (transitively, through else-blocks and last match arms) is an if
// without else. In a then-block followed by else/elif fc attaches that else to the inner if.
func tailIfOnly(b *Block) bool {
	switch b.E.K {
	case EIfOnly:
		return true
	case EIf:
		return tailIfOnly(b.E.Blocks[1])
	case EMatchU, EMatchS:
		if b.E.Deflt != nil {
			return tailIfOnly(b.E.Deflt)
		}
		return tailIfOnly(b.E.Arms[len(b.E.Arms)-1].Body)
	}
	return false
}

// ---------------------------------------------------------------- purity (finding a)

// syntacticPure: the arguments the proved theorem allows in a partial application: variables,
// literals, lambdas, partial applications of such.
func syntacticPure(e *Expr) bool {
	switch e.K {
	case EInt, EStr, EBool, EUnit, EVar, ELam:
		return true
	case ECall:
		if len(e.Args) == e.Arity {
			return false
		}
		for _, a := range e.Args {
			if !syntacticPure(a) {
				return false
			}
		}
		return true
	case ECtor:
		return len(e.Args) == 0
	case EExt:
		// a partially applied library function is a value too
		if sig := extTable[e.Name]; sig == nil || len(e.Args) >= len(sig.Params) {
			return false
		}
		for _, a := range e.Args {
			if !syntacticPure(a) {
				return false
			}
		}
		return true
	}
	return false
}

// effectFree: evaluating e can neither print nor get stuck nor run user code.
func effectFree(e *Expr) bool {
	switch e.K {
	case EInt, EStr, EBool, EUnit, EVar, ELam, EInterp:
		return true
	case ECall:
		if len(e.Args) == e.Arity {
			return false
		}
	case EExt:
		if sig := extTable[e.Name]; sig == nil || len(e.Args) >= len(sig.Params) {
			return false
		}
	case EBin, EEq, ENeq, ENot, ETuple, ERecord, EField, ECtor, ESlice:
	default:
		return false
	}
	for _, a := range e.Args {
		if !effectFree(a) {
			return false
		}
	}
	return true
}

// PapClass classifies the partial applications of a program: "none", "syntactic" (all supplied
// arguments syntactically pure), "effect-free" (some compound but effect-free), "effect" (finding a).
func PapClass(p *Prog) string {
	class := 0
	var stage map[*Expr]bool = map[*Expr]bool{}
	p.WalkExprs(func(_, e *Expr) {
		if e.K == EPipe {
			stage[e.Args[1]] = true
		}
	})
	p.WalkExprs(func(_, e *Expr) {
		partial := e.K == ECall && len(e.Args) < e.Arity
		if e.K == EExt {
			if sig := extTable[e.Name]; sig != nil && len(e.Args) < len(sig.Params) {
				partial = true
			}
		}
		if !partial || stage[e] {
			return
		}
		k := 1
		for _, a := range e.Args {
			switch {
			case syntacticPure(a):
			case effectFree(a):
				if k < 2 {
					k = 2
				}
			default:
				k = 3
			}
		}
		if k > class {
			class = k
		}
	})
	return []string{"none", "syntactic", "effect-free", "effect"}[class]
}
