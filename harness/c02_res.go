package main

// C02: correspondence of the modelled resolver loop (Core/Resolver.v + Core/ResolverBound.v, the bounded
// updateResolverN of fc/infer.fo) with fc itself on relation sets that are NOT in solved form:
// unifiable sets built from a ground solution, arbitrary sets (clashes, panics), cyclic sets and the
// doubling set. fc side: hook op "resolve" (updateResolver on a fresh resolver, then resolveType of the
// tuple of all variables). Compared: the outcome class (resolved / "does not converge" diagnostic /
// cyclic-type diagnostic / panic) and, when resolved, the resolved type of every variable.

import (
	"fmt"
	"sort"
	"strings"
)

type c02Rel struct {
	Src  int    `json:"src"`
	Dest *c02Ty `json:"dest"`
}

// hook notation: int | str | bool | v:<name> | sl t | tu:<n> t... | fn:<n> t... | rc:<name>:<n> t...
func (t *c02Ty) hookText() string {
	var xs []string
	for _, a := range t.Args {
		xs = append(xs, a.hookText())
	}
	j := ""
	if len(xs) > 0 {
		j = " " + strings.Join(xs, " ")
	}
	switch t.K {
	case "int", "bool":
		return t.K
	case "string":
		return "str"
	case "var":
		return fmt.Sprintf("v:_T%d", t.V)
	case "slice":
		return "sl" + j
	case "tuple":
		return fmt.Sprintf("tu:%d", len(xs)) + j
	case "fun":
		return fmt.Sprintf("fn:%d", len(xs)) + j
	case "named":
		return fmt.Sprintf("rc:%s:%d", t.Name, len(xs)) + j
	}
	panic("hookText " + t.K)
}

func (t *c02Ty) vars(acc map[int]bool) {
	if t.K == "var" {
		acc[t.V] = true
	}
	for _, a := range t.Args {
		a.vars(acc)
	}
}

var c02ResVars = []int{0, 1, 2, 10, 11} // _T10 < _T2 as strings: the name comparison is lexicographic

type c02ResGen struct {
	rng *Rng
}

func (g *c02ResGen) ground(d int, rec bool) *c02Ty {
	r := g.rng.Intn(100)
	if d <= 0 || r < 45 {
		return Choose(g.rng, []*c02Ty{c02Int, c02Str, c02Bool})
	}
	switch {
	case r < 62:
		return c02Slice(g.ground(d-1, rec))
	case r < 78:
		return c02Tuple(g.ground(d-1, rec), g.ground(d-1, false))
	case r < 90 || !rec:
		return c02Fun([]*c02Ty{g.ground(d-1, false)}, g.ground(d-1, rec))
	case r < 96:
		return c02Named("R0", g.ground(d-1, false))
	}
	return c02Named("R1", g.ground(d-1, false), g.ground(d-1, false))
}

// t with some subterms replaced by variables that stand for exactly that subterm
func (g *c02ResGen) abstract(t *c02Ty, th map[int]*c02Ty, top bool) *c02Ty {
	if !top || g.rng.Chance(1, 6) {
		var cands []int
		for _, v := range c02ResVars {
			if u, ok := th[v]; ok && c02Eq(u, t) {
				cands = append(cands, v)
			}
		}
		if len(cands) > 0 && g.rng.Chance(2, 3) {
			return c02Var(Choose(g.rng, cands))
		}
	}
	if len(t.Args) == 0 {
		return t
	}
	n := &c02Ty{K: t.K, Name: t.Name}
	for _, a := range t.Args {
		n.Args = append(n.Args, g.abstract(a, th, false))
	}
	return n
}

// random type with variables (arbitrary sets)
func (g *c02ResGen) open(d int, rec bool) *c02Ty {
	r := g.rng.Intn(100)
	if r < 30 {
		return c02Var(Choose(g.rng, c02ResVars))
	}
	if d <= 0 || r < 55 {
		return Choose(g.rng, []*c02Ty{c02Int, c02Str, c02Bool})
	}
	switch {
	case r < 70:
		return c02Slice(g.open(d-1, rec))
	case r < 84:
		return c02Tuple(g.open(d-1, rec), g.open(d-1, false))
	case r < 94 || !rec:
		return c02Fun([]*c02Ty{g.open(d-1, false)}, g.open(d-1, rec))
	}
	return c02Named("R0", g.open(d-1, false))
}

func (g *c02ResGen) unifiable() []c02Rel {
	th := map[int]*c02Ty{}
	k := 2 + g.rng.Intn(4)
	for _, i := range g.rng.Perm(len(c02ResVars))[:k] {
		th[c02ResVars[i]] = g.ground(2, true)
	}
	// subterms of assigned types are good values for further variables
	for _, v := range c02ResVars {
		if _, ok := th[v]; ok {
			continue
		}
		for _, u := range c02ResVars {
			if t, ok := th[u]; ok && len(t.Args) > 0 {
				th[v] = t.Args[g.rng.Intn(len(t.Args))]
				break
			}
		}
	}
	var vs []int
	for v := range th {
		vs = append(vs, v)
	}
	sort.Ints(vs)
	var rels []c02Rel
	m := 2 + g.rng.Intn(6)
	for i := 0; i < m; i++ {
		x := Choose(g.rng, vs)
		rels = append(rels, c02Rel{x, g.abstract(th[x], th, true)})
		if g.rng.Chance(2, 3) {
			// the same variable again with other subterms abstracted: structure meets structure in compositeTp
			rels = append(rels, c02Rel{x, g.abstract(th[x], th, true)})
		}
	}
	return rels
}

func c02ResSpecial(i int) []c02Rel {
	x, y := c02Var(1), c02Var(2)
	switch i % 8 {
	case 0:
		return []c02Rel{{1, c02Slice(x)}}
	case 1:
		return []c02Rel{{1, c02Slice(x)}, {1, c02Slice(c02Slice(x))}}
	case 2:
		return []c02Rel{{1, c02Tuple(x, x)}, {1, c02Tuple(c02Tuple(x, x), c02Tuple(x, x))}}
	case 3:
		return []c02Rel{{1, c02Tuple(y, c02Int)}, {2, c02Slice(x)}}
	case 4:
		return []c02Rel{{1, c02Fun([]*c02Ty{x}, c02Int)}, {1, c02Fun([]*c02Ty{c02Fun([]*c02Ty{x}, c02Int)}, c02Int)}}
	case 5:
		return []c02Rel{{2, c02Var(1)}, {1, c02Slice(y)}, {10, c02Tuple(x, y)}}
	case 6:
		return []c02Rel{{1, c02Tuple(x, c02Int)}, {1, c02Tuple(c02Tuple(x, c02Int), c02Int)}, {2, c02Slice(x)}}
	}
	return []c02Rel{{1, c02Named("R0", x)}, {1, c02Named("R0", c02Named("R0", x))}}
}

func c02ResModelReq(rels []c02Rel, rev bool) string {
	var xs []string
	for _, r := range rels {
		xs = append(xs, fmt.Sprintf("(%d %s)", r.Src, r.Dest.sexp()))
	}
	s := "(resolverels (" + strings.Join(xs, " ") + ")"
	if rev {
		s += " rev"
	}
	return s + ")"
}

// outcome class and (when resolved) the tuple of the resolved variables in the hook's notation
func c02ResModel(or *Oracle, rels []c02Rel, vars []int, rev bool) (string, string, bool) {
	ans := or.Ask("C02", c02ResModelReq(rels, rev))
	if !strings.HasPrefix(ans, "SOLVED") {
		return ans, "", false
	}
	ign := strings.HasPrefix(ans, "SOLVED IGNORED-CLASH")
	body := strings.TrimPrefix(strings.TrimPrefix(ans, "SOLVED"), " IGNORED-CLASH")
	m := map[int]*c02Ty{}
	for _, it := range c02ParseS("(" + body + ")").List {
		m[c02TyOfS(it.List[0]).V] = c02TyOfS(it.List[1])
	}
	var ts []*c02Ty
	for _, v := range vars {
		if t, ok := m[v]; ok {
			ts = append(ts, t)
		} else {
			ts = append(ts, c02Var(v))
		}
	}
	return "SOLVED", c02Tuple(ts...).hookText(), ign
}

func c02ResFc(srv *FcSrv, rels []c02Rel, vars []int) (string, string, string) {
	var rs [][2]string
	for _, r := range rels {
		rs = append(rs, [2]string{fmt.Sprintf("_T%d", r.Src), r.Dest.hookText()})
	}
	var ts []*c02Ty
	for _, v := range vars {
		ts = append(ts, c02Var(v))
	}
	r := srv.Resolve(rs, c02Tuple(ts...).hookText())
	switch {
	case r.Died:
		return "DIED", "", r.Err
	case r.Ok:
		return "SOLVED", r.Fmt, ""
	case strings.Contains(r.Err, "does not converge"):
		return "NOCONV", "", r.Err
	case strings.Contains(r.Err, "Recursive type"):
		return "CYCLE", "", r.Err
	}
	return "PANIC", "", r.Err
}

func c02ResolverLoopCorrespondence(c *Ctx, rng *Rng, ors *c02OraclePool, pool *FcPool) {
	n := c.Pick(300, 6000)
	type job struct {
		kind string
		rels []c02Rel
	}
	jobs := make([]job, n)
	for i := range jobs {
		g := &c02ResGen{rng: rng.Fork()}
		switch {
		case i < 8:
			jobs[i] = job{"special", c02ResSpecial(i)}
		case i%5 == 0:
			var rels []c02Rel
			m := 2 + g.rng.Intn(4)
			for k := 0; k < m; k++ {
				rels = append(rels, c02Rel{Choose(g.rng, c02ResVars), g.open(2, true)})
			}
			jobs[i] = job{"arbitrary", rels}
		case i%5 == 1:
			rels := g.unifiable()
			x := rels[g.rng.Intn(len(rels))].Src
			rels = append(rels, c02Rel{x, Choose(g.rng, []*c02Ty{c02Slice(c02Var(x)), c02Tuple(c02Var(x), c02Int), c02Fun([]*c02Ty{c02Int}, c02Var(x))})})
			jobs[i] = job{"unifiable+occurs", rels}
		default:
			jobs[i] = job{"unifiable", g.unifiable()}
		}
	}
	Parallel(n, func(i int) {
		or := ors.Get()
		defer ors.Put(or)
		srv := pool.Get()
		defer pool.Put(srv)
		j := jobs[i]
		vs := map[int]bool{}
		for _, r := range j.rels {
			vs[r.Src] = true
			r.Dest.vars(vs)
		}
		var vars []int
		for v := range vs {
			vars = append(vars, v)
		}
		sort.Ints(vars)
		mc, mt, ign := c02ResModel(or, j.rels, vars, i%2 == 1)
		fcC, ft, ferr := c02ResFc(srv, j.rels, vars)
		c.Count("resolver_loop_sets")
		c.Count("resolver_loop_kind=" + j.kind)
		c.Count("resolver_loop_outcome=" + mc)
		if ign {
			c.Count("resolver_loop_model_ignored_clash")
		}
		c.Compared(1)
		if j.kind == "unifiable" && (mc != "SOLVED" || ign) {
			c.Violate("corr-resolver-loop", "the resolver model does not solve a relation set that is unifiable by construction: "+mc,
				map[string]any{"broken": "Core/Resolver.v on a unifiable set (theorem C02_resolver_most_general)", "relations": j.rels}, true)
		}
		if mc != fcC || mt != ft {
			c.Disagree()
			c.Violate("corr-resolver-loop", fmt.Sprintf("resolver loop: model %s %s, fc %s %s %s", mc, mt, fcC, ft, firstLine(ferr)),
				map[string]any{"broken": "correspondence Core/ResolverBound.v (updateResolverN) vs fc hook op resolve", "relations": j.rels,
					"model_request": c02ResModelReq(j.rels, i%2 == 1), "model": mc + " " + mt, "fc": fcC + " " + ft, "fc_error": ferr}, true)
		}
	})
}
