package main

// C16, size-scaled inputs: fc is written without loops, so every traversal is a recursion and its Go
// stack grows with the input. One input per family, of a size a byte-string quantifier includes but a
// mutation of a sample never reaches: nesting / length 400 000 (3 000 000 blank lines). A Go runtime
// fatal error (stack exhaustion) is a violation of the property; the families known to exhaust the
// stack today are listed in known_findings.jsonl by family and recursion site, any other family that
// dies, hangs or exits 0 without output is reported.

import (
	"fmt"
	"os"
	"path/filepath"
	"strings"
	"time"
)

type c16ScaleFam struct {
	Name string
	Gen  func(n int) string
	N    int
}

const c16H = "package main\n\n"

var c16ScaleFams = []c16ScaleFam{
	{"paren-nesting", func(n int) string {
		return c16H + "let f () = " + strings.Repeat("(", n) + "1" + strings.Repeat(")", n) + "\n"
	}, 400000},
	{"blank-lines", func(n int) string { return c16H + strings.Repeat("\n", n) + "let f () = 1\n" }, 3000000},
	{"operator-chain", func(n int) string { return c16H + "let f (x:int) = " + strings.Repeat("x + ", n) + "x\n" }, 400000},
	{"if-nesting", func(n int) string {
		return c16H + "let f (x:bool) = " + strings.Repeat("if x then ", n) + "1" + strings.Repeat(" else 1", n) + "\n"
	}, 400000},
	{"application-arguments", func(n int) string { return c16H + "let f (x:int) = f" + strings.Repeat(" x", n) + "\n" }, 400000},
	{"union-cases", func(n int) string {
		var b strings.Builder
		b.WriteString(c16H + "type U =\n")
		for i := 0; i < n; i++ {
			fmt.Fprintf(&b, "  | C%d\n", i)
		}
		return b.String() + "\n"
	}, 400000},
	{"record-fields", func(n int) string {
		var b strings.Builder
		b.WriteString(c16H + "type R = {")
		for i := 0; i < n; i++ {
			if i > 0 {
				b.WriteString("; ")
			}
			fmt.Fprintf(&b, "F%d: int", i)
		}
		return b.String() + "}\n"
	}, 400000},
	// families that are handled today (linear, no deep recursion): they must stay so
	{"blank-lines-moderate", func(n int) string { return c16H + strings.Repeat("\n", n) + "let f () = 1\n" }, 400000},
	{"slice-literal", func(n int) string {
		return c16H + "let f () = [" + strings.Repeat("1; ", n) + "1]\n"
	}, 400000},
	{"string-literal", func(n int) string { return c16H + "let f () = \"" + strings.Repeat("a", n) + "\"\n" }, 4000000},
	{"block-comment", func(n int) string { return c16H + "/*" + strings.Repeat("a\n", n) + "*/\nlet f () = 1\n" }, 2000000},
	{"trailing-spaces", func(n int) string { return c16H + "let f () = 1" + strings.Repeat(" ", n) + "\n" }, 4000000},
	{"statements", func(n int) string {
		return c16H + "let f (x:int) =\n" + strings.Repeat("  let y = x\n", n) + "  x\n"
	}, 60000},
	{"tuple-too-wide", func(n int) string { return c16H + "let f () = (" + strings.Repeat("1, ", n) + "1)\n" }, 400000},
	{"record-clique", func(n int) string {
		// n records of one type group, each with a callback over all the others: every walk over such a type
		// must be linear in its size, not a walk over all paths
		var b strings.Builder
		b.WriteString(c16H)
		for i := 1; i <= n; i++ {
			kw := "and"
			if i == 1 {
				kw = "type"
			}
			fmt.Fprintf(&b, "%s K%d = {F%d: ", kw, i, i)
			for j := 1; j <= n; j++ {
				if j != i {
					fmt.Fprintf(&b, "K%d->", j)
				}
			}
			b.WriteString("int}\n")
		}
		return b.String() + "\nlet f (k:K1) = 1\n"
	}, 11},
	{"pipe-chain", func(n int) string {
		return c16H + "let id (x:int) = x\n\nlet f (x:int) = x" + strings.Repeat(" |> id", n) + "\n"
	}, 400000},
}

func c16Scale(c *Ctx) {
	mini := c.MiniFoi(c.Work)
	sem := make(chan bool, 3) // every probe may take a 1 GB stack
	Parallel(len(c16ScaleFams), func(k int) {
		sem <- true
		defer func() { <-sem }()
		fam := c16ScaleFams[k]
		dir := filepath.Join(c.Work, "scale-"+fam.Name)
		os.MkdirAll(dir, 0o755)
		defer os.RemoveAll(dir)
		MustWrite(filepath.Join(dir, "m.fo"), fam.Gen(fam.N))
		r := Run(dir, 300*time.Second, 12288, []string{"GOMAXPROCS=2"}, filepath.Join(c.Bin, "fc"), mini, "m.fo")
		out := r.Stdout + r.Stderr
		c.Count("scale_family=" + fam.Name)
		c.Eval(fmt.Sprintf("scale:%s:%d", fam.Name, fam.N), true)
		rep := map[string]any{"family": fam.Name, "size": fam.N, "input_prefix": trunc(fam.Gen(40), 400), "fc_exit": r.Exit, "fc_output": trunc(out, 1500),
			"how": fmt.Sprintf("the family's generator at size %d (harness/c16_scale.go), fc mini.foi m.fo under timeout 300 s, ulimit -v 12 GB", fam.N)}
		_, gerr := os.Stat(filepath.Join(dir, "gen_m.go"))
		switch {
		case r.TimedOut:
			c.Count("scale_outcome=timeout")
			c.Violate("scale-hang", fmt.Sprintf("fc does not terminate within 300 s on a %s input of size %d", fam.Name, fam.N), rep, false)
		case c16BadOutput(out) != "":
			c.Count("scale_outcome=fatal")
			key := "stack-exhaustion:" + fam.Name
			if strings.Contains(out, "stack overflow") && c.IsKnown(key) {
				c.Known(key)
				return
			}
			c.Violate("scale-fatal", fmt.Sprintf("fc dies of a Go runtime fatal error (%s) on a %s input of size %d", c16BadOutput(out), fam.Name, fam.N), rep, false)
		case r.Exit == 0:
			c.Count("scale_outcome=accepted")
			if gerr != nil {
				c.Violate("scale-exit0", "fc exits 0 without writing gen_m.go on a "+fam.Name+" input", rep, false)
			}
		default:
			c.Count("scale_outcome=diagnostic")
			if gerr == nil {
				c.Violate("scale-wrote", "fc failed but wrote an output file on a "+fam.Name+" input", rep, false)
			}
			if strings.TrimSpace(strings.Replace(strings.Replace(out, "transpile: "+mini, "", 1), "transpile: m.fo", "", 1)) == "" {
				c.Violate("scale-nodiag", "fc exits non-zero without a diagnostic on a "+fam.Name+" input", rep, false)
			}
		}
	})
}
