package main

// C03: declarations and foreign calls follow the documented Go representation.
// (A) random record / union / function / variable declarations -> fc -> (i) the emitted Go
// declarations (go/parser, canonicalised) vs the Coq model Core/Decls.v (oracle), (ii) a generated
// hand-style Go client in the same package that uses only the documented names (struct literals with
// field names, New_U_C, type switch on U_C reading .Value, top-level funcs and vars) is compiled and
// run. (B) package_info signatures x application arity x {direct, partial, piped, explicit type
// arguments} against generated Go implementations (same package and a qualified sub-package) that
// print their arguments; the printed order must be the source order.

import (
	"fmt"
	"go/ast"
	"go/parser"
	"go/token"
	"go/types"
	"os"
	"path/filepath"
	"sort"
	"strings"
)

// ---------------------------------------------------------------- types

type c03Ty struct {
	Fo  string // Folang text
	Go  string // documented Go text
	Val string // a Go expression of that type (for the client)
	Prn string // what fmt.Sprint prints for Val
}

func c03BaseTypes() []c03Ty {
	return []c03Ty{
		{"int", "int", "7", "7"},
		{"string", "string", `"s"`, "s"},
		{"bool", "bool", "true", "true"},
		{"[]int", "[]int", "[]int{1, 2}", "[1 2]"},
		{"int*string", "frt.Tuple2[int, string]", `frt.NewTuple2(1, "p")`, "{1 p}"},
		{"[]string", "[]string", `[]string{"a"}`, "[a]"},
		{"string*int*bool", "frt.Tuple3[string, int, bool]", `frt.NewTuple3("t", 2, false)`, "{t 2 false}"},
		{"int->string", "func(int) string", `func(i int) string { return "f" }`, ""},
		{"float", "float64", "1.5", "1.5"},
		{"int*(string*bool)", "frt.Tuple2[int, frt.Tuple2[string, bool]]", `frt.NewTuple2(1, frt.NewTuple2("q", true))`, "{1 {q true}}"},
		{"(int*string)*bool", "frt.Tuple2[frt.Tuple2[int, string], bool]", `frt.NewTuple2(frt.NewTuple2(1, "q"), true)`, "{{1 q} true}"},
	}
}

func c03NormType(s string) string {
	e, err := parser.ParseExpr(s)
	if err != nil {
		return "?" + s
	}
	return types.ExprString(e)
}

// ---------------------------------------------------------------- declarations

type c03Field struct {
	Name string
	Ty   c03Ty
}
type c03Rec struct {
	Name    string
	TParams []string
	Fields  []c03Field
}
type c03Case struct {
	Name string
	Ty   *c03Ty
}
type c03Union struct {
	Name    string
	TParams []string
	Cases   []c03Case
}
type c03Fun struct {
	Name   string
	Params []c03Field // empty = unit parameter
	Unit   bool       // unit result
	Res    c03Ty
	Lam    bool // the whole body is a lambda: the result is a function value (func(int) string)
}
type c03Set struct {
	Group  bool // records 0 and 1 are declared as one `type … and …` group, 0 referring forward to 1
	Idx    int
	Recs   []c03Rec
	Unions []c03Union
	Funs   []c03Fun
	Vars   []c03Field
}

func c03GenSet(rng *Rng, idx int) *c03Set {
	s := &c03Set{Idx: idx}
	base := c03BaseTypes()
	pick := func() c03Ty { return base[rng.Intn(len(base))] }
	tv := c03Ty{"T", "T", "", ""}
	for i := 0; i < 1+rng.Intn(3); i++ {
		r := c03Rec{Name: fmt.Sprintf("Rc%d_%d", idx, i)}
		generic := rng.Chance(1, 4)
		if generic {
			r.TParams = []string{"T"}
		}
		n := 1 + rng.Intn(5)
		for j := 0; j < n; j++ {
			fn := fmt.Sprintf("%s%d", Choose(rng, []string{"F", "Val", "x", "name", "Item"}), j)
			ty := pick()
			if generic && j == 0 {
				ty = tv
			}
			r.Fields = append(r.Fields, c03Field{fn, ty})
		}
		s.Recs = append(s.Recs, r)
	}
	if len(s.Recs) >= 2 && len(s.Recs[0].TParams) == 0 && len(s.Recs[1].TParams) == 0 && rng.Chance(1, 2) {
		s.Group = true
		fwd := c03Field{"Fwd0", c03Ty{"[]" + s.Recs[1].Name, "[]" + s.Recs[1].Name, "[]" + s.Recs[1].Name + "{}", "[]"}}
		s.Recs[0].Fields = append([]c03Field{fwd}, s.Recs[0].Fields...)
	}
	for i := 0; i < 1+rng.Intn(3); i++ {
		u := c03Union{Name: fmt.Sprintf("Un%d_%d", idx, i)}
		generic := rng.Chance(1, 3)
		if generic {
			u.TParams = []string{"T"}
		}
		n := 1 + rng.Intn(5)
		for j := 0; j < n; j++ {
			c := c03Case{Name: fmt.Sprintf("Ca%d_%d_%d", idx, i, j)}
			switch {
			case generic && j == 0:
				c.Ty = &tv
			case rng.Chance(2, 3):
				t := pick()
				c.Ty = &t
			}
			u.Cases = append(u.Cases, c)
		}
		s.Unions = append(s.Unions, u)
	}
	for i := 0; i < 1+rng.Intn(3); i++ {
		f := c03Fun{Name: fmt.Sprintf("fn%d_%d", idx, i)}
		for j := 0; j < rng.Intn(4); j++ {
			t := pick()
			for t.Prn == "" {
				t = pick()
			}
			f.Params = append(f.Params, c03Field{fmt.Sprintf("p%d", j), t})
		}
		f.Unit = rng.Chance(1, 3)
		f.Res = base[rng.Intn(3)]
		if !f.Unit && rng.Chance(1, 4) {
			f.Lam = true
			f.Res = c03Ty{"int->string", "func(int) string", "", ""}
		}
		s.Funs = append(s.Funs, f)
	}
	for i := 0; i < rng.Intn(3); i++ {
		s.Vars = append(s.Vars, c03Field{fmt.Sprintf("vr%d_%d", idx, i), base[rng.Intn(3)]})
	}
	return s
}

func tparamsFo(tps []string) string {
	if len(tps) == 0 {
		return ""
	}
	return "<" + strings.Join(tps, ", ") + ">"
}

func (s *c03Set) folang() string {
	var b strings.Builder
	for ri, r := range s.Recs {
		var fs []string
		for _, f := range r.Fields {
			fs = append(fs, f.Name+": "+f.Ty.Fo)
		}
		switch {
		case s.Group && ri == 0:
			fmt.Fprintf(&b, "type %s = {%s}\n", r.Name, strings.Join(fs, "; "))
		case s.Group && ri == 1:
			fmt.Fprintf(&b, "and %s = {%s}\n\n", r.Name, strings.Join(fs, "; "))
		default:
			fmt.Fprintf(&b, "type %s%s = {%s}\n\n", r.Name, tparamsFo(r.TParams), strings.Join(fs, "; "))
		}
	}
	for _, u := range s.Unions {
		fmt.Fprintf(&b, "type %s%s =\n", u.Name, tparamsFo(u.TParams))
		for _, c := range u.Cases {
			if c.Ty != nil {
				fmt.Fprintf(&b, "  | %s of %s\n", c.Name, c.Ty.Fo)
			} else {
				fmt.Fprintf(&b, "  | %s\n", c.Name)
			}
		}
		b.WriteString("\n")
	}
	lit := map[string]string{"int": "11", "string": "\"r\"", "bool": "false"}
	for _, f := range s.Funs {
		ps := ""
		if len(f.Params) == 0 {
			ps = " ()"
		}
		for _, p := range f.Params {
			ps += fmt.Sprintf(" (%s:%s)", p.Name, p.Ty.Fo)
		}
		if f.Lam {
			fmt.Fprintf(&b, "let %s%s =\n  fun (q:int) -> \"lam\"\n\n", f.Name, ps)
		} else if f.Unit {
			fmt.Fprintf(&b, "let %s%s =\n  frt.Println \"%s\"\n\n", f.Name, ps, f.Name)
		} else {
			fmt.Fprintf(&b, "let %s%s =\n  %s\n\n", f.Name, ps, lit[f.Res.Fo])
		}
	}
	for _, v := range s.Vars {
		fmt.Fprintf(&b, "let %s = %s\n\n", v.Name, lit[v.Ty.Fo])
	}
	return b.String()
}

func sexpTps(tps []string) string { return "(" + strings.Join(tps, " ") + ")" }

// oracle requests for each declaration -> expected canonical declarations
func (s *c03Set) modelDecls(or *Oracle) []string {
	var out []string
	add := func(ans string) {
		for _, d := range strings.Split(ans, " ; ") {
			out = append(out, d)
		}
	}
	for _, r := range s.Recs {
		var fs []string
		for _, f := range r.Fields {
			fs = append(fs, fmt.Sprintf("(%s %s)", f.Name, Sq(c03NormType(f.Ty.Go))))
		}
		add(or.Ask("C03", fmt.Sprintf("(record %s %s (%s))", r.Name, sexpTps(r.TParams), strings.Join(fs, " "))))
	}
	for _, u := range s.Unions {
		var cs []string
		for _, c := range u.Cases {
			if c.Ty != nil {
				cs = append(cs, fmt.Sprintf("(%s %s)", c.Name, Sq(c03NormType(c.Ty.Go))))
			} else {
				cs = append(cs, fmt.Sprintf("(%s none)", c.Name))
			}
		}
		add(or.Ask("C03", fmt.Sprintf("(union %s %s (%s))", u.Name, sexpTps(u.TParams), strings.Join(cs, " "))))
	}
	for _, f := range s.Funs {
		var ps []string
		if len(f.Params) == 0 {
			ps = append(ps, "(u unit)")
		}
		for _, p := range f.Params {
			ps = append(ps, fmt.Sprintf("(%s %s)", p.Name, Sq(c03NormType(p.Ty.Go))))
		}
		res := "unit"
		if !f.Unit {
			res = Sq(f.Res.Go)
		}
		add(or.Ask("C03", fmt.Sprintf("(func %s () (%s) %s)", f.Name, strings.Join(ps, " "), res)))
	}
	for _, v := range s.Vars {
		out = append(out, fmt.Sprintf("(var %s unit)", v.Name))
	}
	return out
}

// canonical declarations of an emitted file, in the oracle's format
func c03Canon(src string) ([]string, error) {
	fset := token.NewFileSet()
	f, err := parser.ParseFile(fset, "g.go", src, 0)
	if err != nil {
		return nil, err
	}
	ty := func(e ast.Expr) string {
		if e == nil {
			return "unit"
		}
		return Sq(types.ExprString(e))
	}
	tps := func(fl *ast.FieldList) string {
		var ns []string
		if fl != nil {
			for _, f := range fl.List {
				for _, n := range f.Names {
					ns = append(ns, n.Name)
				}
			}
		}
		return "(" + strings.Join(ns, " ") + ")"
	}
	fields := func(fl *ast.FieldList) string {
		var fs []string
		if fl != nil {
			for _, f := range fl.List {
				for _, n := range f.Names {
					fs = append(fs, fmt.Sprintf("(%s %s)", n.Name, Sq(types.ExprString(f.Type))))
				}
			}
		}
		return "(" + strings.Join(fs, " ") + ")"
	}
	var out []string
	for _, d := range f.Decls {
		switch x := d.(type) {
		case *ast.FuncDecl:
			res := "unit"
			if x.Type.Results != nil && len(x.Type.Results.List) == 1 {
				res = ty(x.Type.Results.List[0].Type)
			}
			if x.Recv != nil {
				r := x.Recv.List[0]
				v := "-"
				if len(r.Names) > 0 {
					v = r.Names[0].Name
				}
				rt := r.Type
				targs := "()"
				switch t := rt.(type) {
				case *ast.IndexExpr:
					targs = "(" + types.ExprString(t.Index) + ")"
					rt = t.X
				case *ast.IndexListExpr:
					var as []string
					for _, a := range t.Indices {
						as = append(as, types.ExprString(a))
					}
					targs = "(" + strings.Join(as, " ") + ")"
					rt = t.X
				}
				out = append(out, fmt.Sprintf("(method %s %s %s %s %s)", v, types.ExprString(rt), targs, x.Name.Name, res))
			} else {
				out = append(out, fmt.Sprintf("(func %s %s %s %s)", x.Name.Name, tps(x.Type.TypeParams), fields(x.Type.Params), res))
			}
		case *ast.GenDecl:
			for _, sp := range x.Specs {
				switch s := sp.(type) {
				case *ast.TypeSpec:
					switch t := s.Type.(type) {
					case *ast.StructType:
						out = append(out, fmt.Sprintf("(struct %s %s %s)", s.Name.Name, tps(s.TypeParams), fields(t.Fields)))
					case *ast.InterfaceType:
						m := ""
						if len(t.Methods.List) == 1 && len(t.Methods.List[0].Names) == 1 {
							m = t.Methods.List[0].Names[0].Name
						}
						out = append(out, fmt.Sprintf("(interface %s %s %s)", s.Name.Name, tps(s.TypeParams), m))
					}
				case *ast.ValueSpec:
					kw := "var"
					if x.Tok == token.CONST {
						kw = "const" // the documentation promises a package VARIABLE
					}
					out = append(out, fmt.Sprintf("(%s %s %s)", kw, s.Names[0].Name, ty(s.Type)))
				}
			}
		}
	}
	return out, nil
}

// hand-style Go client using only the documented names; returns code of func clientN() and the expected output lines
func (s *c03Set) client() (string, []string) {
	var b strings.Builder
	var exp []string
	fmt.Fprintf(&b, "func client%d() {\n", s.Idx)
	inst := func(tps []string) string {
		if len(tps) == 0 {
			return ""
		}
		return "[int]"
	}
	for _, r := range s.Recs {
		var fs, prn []string
		for _, f := range r.Fields {
			t := f.Ty
			if t.Go == "T" {
				t = c03BaseTypes()[0]
			}
			fs = append(fs, f.Name+": "+t.Val)
		}
		fmt.Fprintf(&b, "\t{\n\t\tv := %s%s{%s}\n", r.Name, inst(r.TParams), strings.Join(fs, ", "))
		for _, f := range r.Fields {
			t := f.Ty
			if t.Go == "T" {
				t = c03BaseTypes()[0]
			}
			if t.Prn != "" {
				fmt.Fprintf(&b, "\t\tfmt.Println(%q, v.%s)\n", r.Name+"."+f.Name, f.Name)
				prn = append(prn, r.Name+"."+f.Name+" "+t.Prn)
			} else {
				fmt.Fprintf(&b, "\t\t_ = v.%s\n", f.Name)
			}
		}
		b.WriteString("\t}\n")
		exp = append(exp, prn...)
		// positional literal: relies on the documented field ORDER
		var vals []string
		for _, f := range r.Fields {
			t := f.Ty
			if t.Go == "T" {
				t = c03BaseTypes()[0]
			}
			vals = append(vals, t.Val)
		}
		fmt.Fprintf(&b, "\t{\n\t\tp := %s%s{%s}\n", r.Name, inst(r.TParams), strings.Join(vals, ", "))
		for _, f := range r.Fields {
			t := f.Ty
			if t.Go == "T" {
				t = c03BaseTypes()[0]
			}
			if t.Prn != "" {
				fmt.Fprintf(&b, "\t\tfmt.Println(%q, p.%s)\n", "pos "+r.Name+"."+f.Name, f.Name)
				exp = append(exp, "pos "+r.Name+"."+f.Name+" "+t.Prn)
			} else {
				fmt.Fprintf(&b, "\t\t_ = p.%s\n", f.Name)
			}
		}
		b.WriteString("\t}\n")
	}
	for _, u := range s.Unions {
		for ci, c := range u.Cases {
			ctor := fmt.Sprintf("New_%s_%s", u.Name, c.Name)
			var mk string
			t := c.Ty
			if t != nil && t.Go == "T" {
				t = &c03BaseTypes()[0]
			}
			switch {
			case t != nil:
				mk = fmt.Sprintf("%s%s(%s)", ctor, inst(u.TParams), t.Val)
				if len(u.TParams) > 0 && c.Ty.Go != "T" {
					mk = fmt.Sprintf("%s[int](%s)", ctor, t.Val)
				}
			case len(u.TParams) > 0:
				mk = ctor + "[int]()"
			default:
				mk = ctor // package variable
			}
			fmt.Fprintf(&b, "\t{\n\t\tvar u %s%s = %s\n\t\tswitch x := u.(type) {\n", u.Name, inst(u.TParams), mk)
			for cj, c2 := range u.Cases {
				fmt.Fprintf(&b, "\t\tcase %s_%s%s:\n", u.Name, c2.Name, inst(u.TParams))
				t2 := c2.Ty
				if t2 != nil && t2.Go == "T" {
					t2 = &c03BaseTypes()[0]
				}
				if t2 != nil && t2.Prn != "" {
					fmt.Fprintf(&b, "\t\t\tfmt.Println(%q, %d, x.Value)\n", u.Name, cj)
				} else {
					fmt.Fprintf(&b, "\t\t\t_ = x\n\t\t\tfmt.Println(%q, %d)\n", u.Name, cj)
				}
			}
			b.WriteString("\t\t}\n\t}\n")
			if t != nil && t.Prn != "" {
				exp = append(exp, fmt.Sprintf("%s %d %s", u.Name, ci, t.Prn))
			} else {
				exp = append(exp, fmt.Sprintf("%s %d", u.Name, ci))
			}
		}
	}
	prnLit := map[string]string{"int": "11", "string": "r", "bool": "false"}
	for _, f := range s.Funs {
		var args []string
		for _, p := range f.Params {
			args = append(args, p.Ty.Val)
		}
		if f.Lam {
			fmt.Fprintf(&b, "\tfmt.Println(%q, %s(%s)(5))\n", f.Name, f.Name, strings.Join(args, ", "))
			exp = append(exp, f.Name+" lam")
		} else if f.Unit {
			fmt.Fprintf(&b, "\t%s(%s)\n", f.Name, strings.Join(args, ", "))
			exp = append(exp, f.Name)
		} else {
			fmt.Fprintf(&b, "\tfmt.Println(%q, %s(%s))\n", f.Name, f.Name, strings.Join(args, ", "))
			exp = append(exp, f.Name+" "+prnLit[f.Res.Fo])
		}
	}
	for _, v := range s.Vars {
		// used as a variable: address taken, assigned through the pointer, read again
		fmt.Fprintf(&b, "\t{\n\t\tp := &%s\n\t\told := *p\n\t\t*p = old\n\t\t%s = *p\n\t}\n", v.Name, v.Name)
		fmt.Fprintf(&b, "\tfmt.Println(%q, %s)\n", v.Name, v.Name)
		exp = append(exp, v.Name+" "+prnLit[v.Ty.Fo])
	}
	b.WriteString("}\n\n")
	return b.String(), exp
}

// ---------------------------------------------------------------- foreign calls

type c03Ext struct {
	Idx     int
	Pkg     string // "_" or "extpk"
	Name    string
	Params  []c03Ty
	Generic bool // first parameter is T (explicit type argument <int>)
	Twin    bool // Pkg "_" only: package extpk declares a function of the same name with one more (leading string) parameter
}

func c03GenExt(rng *Rng, idx int) *c03Ext {
	e := &c03Ext{Idx: idx, Pkg: Choose(rng, []string{"_", "_", "extpk"}), Name: fmt.Sprintf("Ext%d", idx)}
	base := c03BaseTypes()[:3]
	n := 1 + rng.Intn(4)
	for i := 0; i < n; i++ {
		e.Params = append(e.Params, base[rng.Intn(3)])
	}
	e.Generic = rng.Chance(1, 3)
	e.Twin = e.Pkg == "_" && !e.Generic && rng.Chance(1, 3)
	return e
}

func (e *c03Ext) sig() string {
	var ps []string
	for i, p := range e.Params {
		if e.Generic && i == 0 {
			ps = append(ps, "T")
		} else {
			ps = append(ps, p.Fo)
		}
	}
	g := ""
	if e.Generic {
		g = "<T>"
	}
	return fmt.Sprintf("  let %s%s: %s->string\n", e.Name, g, strings.Join(ps, "->"))
}

func (e *c03Ext) goImpl() string {
	var ps, as []string
	for i, p := range e.Params {
		t := p.Go
		if e.Generic && i == 0 {
			t = "T"
		}
		ps = append(ps, fmt.Sprintf("a%d %s", i, t))
		as = append(as, fmt.Sprintf("a%d", i))
	}
	g := ""
	if e.Generic {
		g = "[T any]"
	}
	if e.Generic {
		return fmt.Sprintf("func %s%s(%s) string { return fmt.Sprint(%q, reflect.TypeOf((*T)(nil)).Elem(), \";\", %s) }\n", e.Name, g, strings.Join(ps, ", "), e.Name+":", strings.Join(as, ", \"|\", "))
	}
	return fmt.Sprintf("func %s%s(%s) string { return fmt.Sprint(%q, %s) }\n", e.Name, g, strings.Join(ps, ", "), e.Name+":", strings.Join(as, ", \"|\", "))
}

func (e *c03Ext) twinSig() string {
	ps := []string{"string"}
	for _, p := range e.Params {
		ps = append(ps, p.Fo)
	}
	return fmt.Sprintf("  let %s: %s->string\n", e.Name, strings.Join(ps, "->"))
}

func (e *c03Ext) twinImpl() string {
	ps, as := []string{"z string"}, []string{"z"}
	for i, p := range e.Params {
		ps = append(ps, fmt.Sprintf("a%d %s", i, p.Go))
		as = append(as, fmt.Sprintf("a%d", i))
	}
	return fmt.Sprintf("func %s(%s) string { return fmt.Sprint(%q, %s) }\n", e.Name, strings.Join(ps, ", "), e.Name+"~twin:", strings.Join(as, ", \"|\", "))
}

// Folang test function exercising every call form; expected lines
func (e *c03Ext) foTest() (string, []string) {
	q := e.Name
	if e.Pkg != "_" {
		q = e.Pkg + "." + e.Name
	}
	lit := map[string][]string{"int": {"1", "2", "3", "4"}, "string": {"\"a\"", "\"b\"", "\"c\"", "\"d\""}, "bool": {"true", "false", "true", "false"}}
	var args, prn []string
	for i, p := range e.Params {
		args = append(args, lit[p.Fo][i])
		prn = append(prn, strings.Trim(lit[p.Fo][i], "\""))
	}
	want := e.Name + ":" + strings.Join(prn, "|")
	wantAny := want
	if e.Generic {
		// the implementation prints its static type parameter first
		want = e.Name + ":" + e.Params[0].Go + ";" + strings.Join(prn, "|")
		wantAny = e.Name + ":interface {};" + strings.Join(prn, "|")
	}
	n := len(args)
	var b strings.Builder
	var exp []string
	fmt.Fprintf(&b, "let ext%d () =\n", e.Idx)
	// direct
	fmt.Fprintf(&b, "  frt.Println (%s %s)\n", q, strings.Join(args, " "))
	exp = append(exp, want)
	// explicit type argument, equal to and different from what Go would infer, in every call form
	if e.Generic {
		fmt.Fprintf(&b, "  frt.Println (%s<%s> %s)\n", q, e.Params[0].Fo, strings.Join(args, " "))
		exp = append(exp, want)
		fmt.Fprintf(&b, "  frt.Println (%s<any> %s)\n", q, strings.Join(args, " "))
		exp = append(exp, wantAny)
		if n >= 2 {
			fmt.Fprintf(&b, "  %s |> %s<any> %s |> frt.Println\n", args[n-1], q, strings.Join(args[:n-1], " "))
			exp = append(exp, wantAny)
			fmt.Fprintf(&b, "  let pany = %s<any> %s\n", q, args[0])
			fmt.Fprintf(&b, "  frt.Println (pany %s)\n", strings.Join(args[1:], " "))
			exp = append(exp, wantAny)
		}
	}
	if e.Twin {
		// the function of the same name in package extpk is another function
		fmt.Fprintf(&b, "  frt.Println (extpk.%s \"z\" %s)\n", e.Name, strings.Join(args, " "))
		exp = append(exp, e.Name+"~twin:z|"+strings.Join(prn, "|"))
	}
	// piped: last argument on the left
	if n >= 1 {
		fmt.Fprintf(&b, "  %s |> %s %s |> frt.Println\n", args[n-1], q, strings.Join(args[:n-1], " "))
		exp = append(exp, want)
	}
	// partial with k supplied arguments, the rest later
	for k := 1; k < n; k++ {
		fmt.Fprintf(&b, "  let pa%d = %s %s\n", k, q, strings.Join(args[:k], " "))
		fmt.Fprintf(&b, "  frt.Println (pa%d %s)\n", k, strings.Join(args[k:], " "))
		exp = append(exp, want)
	}
	b.WriteString("\n")
	return b.String(), exp
}

// ---------------------------------------------------------------- run

func runC03(c *Ctx) {
	rng := NewRng(c.Seed)
	c.Res.Rule = "random declaration sets (records, unions, functions, package variables; generic or not; field/payload types from 9 type shapes) each with a generated Go client, " +
		"and package_info functions (same package and qualified) x call forms {direct, explicit type argument, piped, partial with k arguments}; " +
		"one evaluation = one declaration set or one foreign function; non-trivial = a set with a union, or a function with >= 2 parameters; distinct by source"
	nsets := c.Pick(120, 4000)
	next := c.Pick(160, 4000)
	perBatch := 40
	or := c.Oracle()
	pool := c.NewFcPool(8)
	defer pool.Close()
	type batch struct {
		sets []*c03Set
		exts []*c03Ext
	}
	var batches []batch
	for i := 0; i < nsets || i < next; i += perBatch {
		var b batch
		for k := i; k < i+perBatch; k++ {
			if k < nsets {
				b.sets = append(b.sets, c03GenSet(rng, k))
			}
			if k < next {
				b.exts = append(b.exts, c03GenExt(rng, k))
			}
		}
		batches = append(batches, b)
	}
	// (i) structure vs model, per set (sequential: oracle)
	for _, b := range batches {
		for _, s := range b.sets {
			src := "package main\n\nimport frt\n\n" + s.folang()
			c.Eval(src, len(s.Unions) > 0)
			c.Count(fmt.Sprintf("records=%d", len(s.Recs)))
			c.Count(fmt.Sprintf("unions=%d", len(s.Unions)))
			sv := pool.Get()
			r := sv.Transpile(SrcFile{"mini.foi", MiniFoiText}, SrcFile{"m.fo", src})
			pool.Put(sv)
			if !r.Ok {
				c.Violate("reject", "a generated declaration set is rejected: "+r.Err, map[string]any{"source": src}, false)
				continue
			}
			got, err := c03Canon(r.Outs["gen_m.go"])
			if err != nil {
				c.Violate("syntax", "emitted declarations are not valid Go: "+err.Error(), map[string]any{"source": src, "go": r.Outs["gen_m.go"]}, false)
				continue
			}
			want := s.modelDecls(or)
			c.Compared(len(want))
			g2, w2 := append([]string{}, got...), append([]string{}, want...)
			sort.Strings(g2)
			sort.Strings(w2)
			if strings.Join(g2, "\n") != strings.Join(w2, "\n") {
				c.Disagree()
				diff := ""
				for i := 0; i < len(g2) || i < len(w2); i++ {
					var a, bb string
					if i < len(g2) {
						a = g2[i]
					}
					if i < len(w2) {
						bb = w2[i]
					}
					if a != bb {
						diff = "fc: " + a + "  model: " + bb
						break
					}
				}
				// the property itself is decided by the compiled client below; here the correspondence broke
				c.Violate("corr", "correspondence Decls.emit vs fc broke: "+diff,
					map[string]any{"broken": "correspondence C03 emit_* (Core/Decls.v) vs fc", "source": src, "fc_decls": got, "model_decls": want}, true)
			}
			if s.Idx%40 == 1 {
				c.Sample(map[string]any{"source": src, "canonical_decls": got})
			}
		}
	}
	c.Lap("structure")
	// (ii) clients and foreign calls, batched builds
	Parallel(len(batches), func(bi int) {
		b := batches[bi]
		dir := filepath.Join(c.Work, fmt.Sprintf("b%d", bi))
		os.MkdirAll(filepath.Join(dir, "extpk"), 0o755)
		var fo, cl, mainb, impl, implPk, piU, piP strings.Builder
		fo.WriteString("package main\n\nimport frt\nimport \"c03mod/extpk\"\n\n")
		var expect []string
		for _, s := range b.sets {
			fo.WriteString(s.folang())
			code, exp := s.client()
			cl.WriteString(code)
			fmt.Fprintf(&mainb, "\tclient%d()\n", s.Idx)
			expect = append(expect, exp...)
		}
		piU.WriteString("package_info _ =\n")
		piP.WriteString("package_info extpk =\n")
		hasU, hasP := false, false
		var tests strings.Builder
		for _, e := range b.exts {
			c.Eval("ext|"+e.sig()+e.Pkg, len(e.Params) >= 2)
			c.Count("ext_pkg=" + e.Pkg)
			if e.Pkg == "_" {
				piU.WriteString(e.sig())
				impl.WriteString(e.goImpl())
				hasU = true
				if e.Twin {
					piP.WriteString(e.twinSig())
					implPk.WriteString(e.twinImpl())
					hasP = true
					c.Count("ext_same_name_in_two_packages")
				}
			} else {
				piP.WriteString(e.sig())
				implPk.WriteString(e.goImpl())
				hasP = true
			}
			t, exp := e.foTest()
			tests.WriteString(t)
			fmt.Fprintf(&mainb, "\text%d()\n", e.Idx)
			expect = append(expect, exp...)
		}
		{
			// one generic record at two different instantiations inside one type: a field of a type
			// group whose arguments are defined later in the group, and a foreign function
			// Bx<T>->Bx<U>->string in every call form
			k := bi
			fmt.Fprintf(&fo, "type Bx%d<T> = {V: T}\n\ntype Hold%d = {Pair: Bx%d<Lb%d>*Bx%d<Wt%d>; N: int}\nand Lb%d = {L: string}\nand Wt%d = {W: int}\n\n", k, k, k, k, k, k, k, k)
			fmt.Fprintf(&piU, "  let Comb%d<T, U>: Bx%d<T>->Bx%d<U>->string\n", k, k, k)
			hasU = true
			fmt.Fprintf(&impl, "func Comb%d[T any, U any](a Bx%d[T], b Bx%d[U]) string { return fmt.Sprint(\"Comb:\", a.V, \"|\", b.V) }\n", k, k, k)
			fmt.Fprintf(&tests, "let comb%d (a:Bx%d<int>) (b:Bx%d<string>) =\n  frt.Println (Comb%d a b)\n  b |> Comb%d a |> frt.Println\n  let pc = Comb%d a\n  frt.Println (pc b)\n\n", k, k, k, k, k, k)
			fmt.Fprintf(&mainb, "\tcomb%d(Bx%d[int]{V: 1}, Bx%d[string]{V: \"s\"})\n", k, k, k)
			expect = append(expect, "Comb:1|s", "Comb:1|s", "Comb:1|s")
			fmt.Fprintf(&mainb, "\tfmt.Println(Hold%d{Pair: frt.NewTuple2(Bx%d[Lb%d]{V: Lb%d{L: \"x\"}}, Bx%d[Wt%d]{V: Wt%d{W: 3}}), N: 1})\n", k, k, k, k, k, k, k)
			expect = append(expect, "{{{{x}} {{3}}} 1}")
			c.Count("generic_record_at_two_instantiations")
		}
		if hasU {
			fo.WriteString(piU.String() + "\n")
		}
		if hasP {
			fo.WriteString(piP.String() + "\n")
		}
		fo.WriteString(tests.String())
		MustWrite(filepath.Join(dir, "m.fo"), fo.String())
		MustWrite(filepath.Join(dir, "client.go"), "package main\n\nimport (\n\t\"fmt\"\n\t\"reflect\"\n\n\t\"github.com/karino2/folang/pkg/frt\"\n)\n\nvar _ = frt.Println\nvar _ = reflect.TypeOf\n\n"+cl.String()+impl.String()+"func main() {\n"+mainb.String()+"}\n")
		MustWrite(filepath.Join(dir, "extpk", "extpk.go"), "package extpk\n\nimport (\n\t\"fmt\"\n\t\"reflect\"\n)\n\nvar _ = fmt.Sprint\nvar _ = reflect.TypeOf\n\n"+implPk.String())
		r := c.Fc(dir, c.MiniFoi(c.Work), "m.fo")
		rep := map[string]any{"folang": fo.String(), "client_go": cl.String(), "fc_output": r.Stdout}
		if r.Exit != 0 {
			c.Violate("reject", "declarations / foreign calls rejected by fc: "+firstLine(r.Stdout), rep, false)
			return
		}
		c.GoModFor(dir, "c03mod")
		if out, ok := c.GoBuild(dir); !ok {
			rep["go_build"] = out
			c.Violate("build", "a hand-written Go client using the documented names does not compile against the emitted declarations: "+firstLine(strings.SplitN(out, "\n", 3)[1]), rep, false)
			return
		}
		rr := Run(dir, 60e9, 0, nil, filepath.Join(dir, "prog"))
		got := strings.Split(strings.TrimRight(rr.Stdout, "\n"), "\n")
		c.Compared(len(expect))
		if rr.Exit != 0 {
			rep["stderr"] = rr.Stderr
			c.Violate("run", "client fails at run time: "+firstLine(rr.Stderr), rep, false)
			return
		}
		for i := range expect {
			if i >= len(got) || got[i] != expect[i] {
				g := "<missing>"
				if i < len(got) {
					g = got[i]
				}
				rep["expected"], rep["got"] = expect[i], g
				c.Violate("behaviour", fmt.Sprintf("documented representation / call convention violated: expected %q, got %q", expect[i], g), rep, false)
				return
			}
		}
		os.RemoveAll(dir)
	})
	c.Lap("clients")
}

func init() { Register("C03", runC03) }
