package main

// C02 generators: random type-directed functions ("rand", "hazard") and value-flow shapes with a
// principal type known by construction ("shape").

import (
	"fmt"
	"strings"
)

// ---------------------------------------------------------------- random type-directed generator

type c02EnvVar struct {
	ID      int // unique: usage is tracked per binder, names may be shadowed
	Name    string
	Ty      *c02Ty
	IsParam bool
}

type c02G struct {
	rng     *Rng
	env     []c02EnvVar
	usedFn  map[int]bool // function-typed variables already used (applied or passed): at most once
	used    map[int]bool
	needDet []string // parameters compared with each other: get a type-determining use at the end
	nvar    int
	nid     int
	nShadow int
	// a bare reference to a GENERIC global (slice.Head as a value) is only generated directly as the argument
	// for a parameter that the callee declares with a function type: fc never writes explicit instantiations,
	// and Go can infer the instantiation of a generic function value only from such a parameter
	bareOK       bool
	nBareAvoided int
	sigs         []*c02Sig // library + earlier user functions
	pool         []*c02Ty  // types to draw let-bound values / instantiations from
	allowGN      bool      // hazard stream: type arguments of generic records/unions may contain type variables
	underscore   bool      // "_" binders in destructuring lets
	nrigid       int
}

type c02State struct {
	envLen  int
	usedFn  map[int]bool
	used    map[int]bool
	nvar    int
	needDet int
}

func (g *c02G) save() c02State {
	s := c02State{envLen: len(g.env), usedFn: map[int]bool{}, used: map[int]bool{}, nvar: g.nvar, needDet: len(g.needDet)}
	for k, v := range g.usedFn {
		s.usedFn[k] = v
	}
	for k, v := range g.used {
		s.used[k] = v
	}
	return s
}
func (g *c02G) restore(s c02State) {
	g.env = g.env[:s.envLen]
	g.usedFn, g.used, g.nvar = s.usedFn, s.used, s.nvar
	g.needDet = g.needDet[:s.needDet]
}

func (g *c02G) push(name string, t *c02Ty, isParam bool) c02EnvVar {
	g.nid++
	v := c02EnvVar{ID: g.nid, Name: name, Ty: t, IsParam: isParam}
	g.env = append(g.env, v)
	return v
}

// the binders a name can refer to here: later binders shadow earlier ones of the same name
func (g *c02G) visible() []c02EnvVar {
	seen := map[string]bool{}
	var out []c02EnvVar
	for i := len(g.env) - 1; i >= 0; i-- {
		if !seen[g.env[i].Name] {
			seen[g.env[i].Name] = true
			out = append(out, g.env[i])
		}
	}
	for i, j := 0, len(out)-1; i < j; i, j = i+1, j-1 {
		out[i], out[j] = out[j], out[i]
	}
	return out
}

// lambda parameter name: fresh, or (shadowing) the name of a visible non-function binder of another type
func (g *c02G) lamName(t *c02Ty, taken []string) string {
	if g.rng.Chance(35, 100) {
		var cs []string
		for _, v := range g.visible() {
			dup := false
			for _, x := range taken {
				if x == v.Name {
					dup = true
				}
			}
			if !dup && v.Ty.K != "fun" && !c02Eq(v.Ty, t) {
				cs = append(cs, v.Name)
			}
		}
		if len(cs) > 0 {
			g.nShadow++
			return Choose(g.rng, cs)
		}
	}
	return g.fresh("x")
}

func (g *c02G) fresh(prefix string) string {
	g.nvar++
	return fmt.Sprintf("%s%d", prefix, g.nvar)
}

func (g *c02G) useVar(v c02EnvVar) *c02Exp {
	g.used[v.ID] = true
	if v.Ty.K == "fun" {
		g.usedFn[v.ID] = true
	}
	return &c02Exp{K: "var", Name: v.Name}
}

func (g *c02G) varsOf(t *c02Ty) []c02EnvVar {
	var out []c02EnvVar
	for _, v := range g.visible() {
		if c02Eq(v.Ty, t) && !(v.Ty.K == "fun" && g.usedFn[v.ID]) {
			out = append(out, v)
		}
	}
	return out
}

func (g *c02G) randBase() *c02Ty {
	switch g.rng.Intn(10) {
	case 0, 1, 2, 3, 4:
		return c02Int
	case 5, 6, 7:
		return c02Str
	}
	return c02Bool
}

// random non-function type
func (g *c02G) randTy(d int, rigid bool) *c02Ty {
	t := g.randTy0(d, rigid)
	if !g.allowGN && c02NestedGN(t, false) {
		// a generic record/union inside the type arguments of another one: fc emits ill-formed types for
		// some of these (same family as the known finding); not in the main stream
		return g.randBase()
	}
	return t
}

func c02NestedGN(t *c02Ty, inside bool) bool {
	gn := t.K == "named" && len(t.Args) > 0
	if gn && inside {
		return true
	}
	for _, a := range t.Args {
		if c02NestedGN(a, inside || gn) {
			return true
		}
	}
	return false
}

func (g *c02G) randTy0(d int, rigid bool) *c02Ty {
	r := g.rng.Intn(100)
	if rigid && g.nrigid > 0 && r < 30 {
		return c02Var(g.rng.Intn(g.nrigid))
	}
	// type arguments of generic records/unions: ground in the main stream (fc leaves type variables
	// inside them unresolved in some flows: known finding, hazard stream)
	inner := rigid && g.allowGN
	if g.allowGN && d > 0 && r >= 30 && r < 60 {
		switch g.rng.Intn(3) {
		case 0:
			return c02Named("Box", g.randTy0(d-1, inner))
		case 1:
			return c02Named("Opt", g.randTy0(d-1, inner))
		}
		return c02Named("Two", g.randTy0(d-1, inner), g.randTy0(d-1, inner))
	}
	if d <= 0 || r < 55 {
		return g.randBase()
	}
	switch {
	case r < 70:
		return c02Slice(g.randTy0(d-1, rigid))
	case r < 82:
		return c02Tuple(g.randTy0(d-1, rigid), g.randTy0(d-1, rigid))
	case r < 86:
		return c02Tuple(g.randTy0(d-1, rigid), g.randTy0(d-1, rigid), g.randTy0(d-1, rigid))
	case r < 91:
		return c02Named(Choose(g.rng, []string{"Rec", "Pt", "Shp"}))
	case !g.allowGN:
		// generic records/unions: not in the random main stream (fc still mishandles several flows of
		// them - spurious type parameters, ill-formed nested arguments; see the findings); the twobox
		// family and the construct-only steps of the shape stream cover the flows that work
		return g.randBase()
	case r < 96:
		if g.rng.Bool() {
			return c02Named("Box", g.randTy0(d-1, inner))
		}
		return c02Named("Opt", g.randTy0(d-1, inner))
	}
	return c02Named("Two", g.randTy0(d-1, inner), g.randTy0(d-1, inner))
}

func (g *c02G) randFunTy(rigid bool) *c02Ty {
	n := 1 + g.rng.Intn(5)/4 // mostly unary
	var args []*c02Ty
	for i := 0; i < n; i++ {
		args = append(args, g.randTy(1, rigid))
	}
	return c02Fun(args, g.randTy(1, rigid))
}

func (g *c02G) poolTy() *c02Ty {
	if len(g.pool) > 0 && g.rng.Chance(7, 10) {
		return Choose(g.rng, g.pool)
	}
	return g.randTy(1, false)
}

func c02AddAtoms(t *c02Ty, pool *[]*c02Ty, seen map[string]bool) {
	if t.K != "fun" && !seen[t.key()] {
		seen[t.key()] = true
		*pool = append(*pool, t)
	}
	for _, a := range t.Args {
		c02AddAtoms(a, pool, seen)
	}
}

func (g *c02G) litOf(t *c02Ty) *c02Exp {
	switch t.K {
	case "int":
		return &c02Exp{K: "int", Lit: fmt.Sprint(1 + g.rng.Intn(89))} // never 0: Go rejects a constant division by zero
	case "string":
		return &c02Exp{K: "str", Lit: "\"" + Choose(g.rng, []string{"a", "bc", "x y", "q", ""}) + "\""}
	case "bool":
		return &c02Exp{K: "bool", Lit: Choose(g.rng, []string{"true", "false"})}
	}
	return nil
}

// a "typed operand" of base type t: its type is determined whatever the context
func (g *c02G) typedOperand(t *c02Ty, d int) *c02Exp {
	if d > 0 && t.K == "int" && g.rng.Chance(1, 4) {
		arg := g.gen(c02Slice(g.poolTy()), d-1, false)
		if arg != nil {
			return &c02Exp{K: "global", Name: "slice.Length", Args: []*c02Exp{arg}}
		}
	}
	return g.litOf(t)
}

func (g *c02G) instMember(d *c02Decl, t *c02Ty, m *c02Ty) *c02Ty {
	bind := map[int]*c02Ty{}
	for i := 0; i < d.K; i++ {
		bind[i] = t.Args[i]
	}
	return m.subst(bind)
}

// gen: an expression of type t. free = the position does not unify t with an expected type
// (let right-hand side, final expression, tuple component thereof).
func (g *c02G) gen(t *c02Ty, d int, free bool) *c02Exp {
	bareOK := g.bareOK
	g.bareOK = false
	vars := g.varsOf(t)
	if len(vars) > 0 && (d <= 0 || g.rng.Chance(45, 100)) {
		return g.useVar(Choose(g.rng, vars))
	}
	if d <= 0 {
		return g.terminal(t, 2)
	}
	type cand struct {
		w int
		f func() *c02Exp
	}
	var cs []cand
	add := func(w int, f func() *c02Exp) { cs = append(cs, cand{w, f}) }
	// application of a function-typed local (used once)
	for _, v := range g.visible() {
		v := v
		if v.Ty.K == "fun" && !g.usedFn[v.ID] && c02Eq(v.Ty.funRes(), t) {
			add(8, func() *c02Exp { return g.callLocal(v, d) })
		}
	}
	// globals: library and earlier user functions (full or partial application, plain reference)
	for _, s := range g.sigs {
		s := s
		if s.FamOnly {
			continue
		}
		for given := len(s.Args); given >= 0; given-- {
			given := given
			pat := s.Res
			if given < len(s.Args) {
				if t.K != "fun" {
					break
				}
				pat = c02Fun(s.Args[given:], s.Res)
			}
			m := map[int]*c02Ty{}
			if !c02Match(pat, t, m) {
				continue
			}
			if given == 0 && s.K > 0 && !bareOK {
				g.nBareAvoided++
				continue
			}
			w := 3
			if s.User {
				w = 9
			}
			if s.Res.K == "var" && given == len(s.Args) {
				w = 1 + w/4 // result is a bare variable: matches everything
			}
			add(w, func() *c02Exp { return g.callGlobal(s, given, m, d) })
		}
	}
	// field access on a variable of record type
	for _, v := range g.visible() {
		v := v
		if v.Ty.K == "named" {
			dcl := c02DeclOf(v.Ty.Name)
			if !dcl.Record {
				continue
			}
			for _, m := range dcl.Members {
				m := m
				if c02Eq(g.instMember(dcl, v.Ty, m.Ty), t) {
					add(6, func() *c02Exp {
						return &c02Exp{K: "field", Name: dcl.Name, Name2: m.Name, Ty: t, Args: []*c02Exp{g.useVar(v)}}
					})
				}
			}
		}
	}
	// an if/else whose type mentions a generic record/union: fc leaks internal type variables there
	// (known finding generic-named-args-not-unified, hazard templates)
	if t.K != "fun" && (g.allowGN || !t.hasGenericNamed()) {
		add(2, func() *c02Exp {
			c := g.gen(c02Bool, d-1, false)
			a := g.gen(t, d-1, false)
			if c == nil || a == nil {
				return nil
			}
			b := g.gen(t, d-1, false)
			if b == nil {
				return nil
			}
			return &c02Exp{K: "if", Args: []*c02Exp{c, a, b}}
		})
	}
	switch t.K {
	case "int", "string":
		ops := []string{"+", "-", "*", "/"}
		if t.K == "string" {
			ops = []string{"+"}
		}
		add(10, func() *c02Exp {
			a := g.gen(t, d-1, false)
			b := g.typedOperand(t, d-1)
			if a == nil || b == nil {
				return nil
			}
			if g.rng.Bool() {
				a, b = b, a
			}
			op := Choose(g.rng, ops)
			if op == "/" && b.K != "var" {
				// Go folds constant expressions: a literal-only divisor may be the constant 0
				// ("division by zero" is then a compile error of the emitted Go, which is about Go's
				// constant arithmetic, not about the inferred signature)
				op = "*"
			}
			return &c02Exp{K: "arith", Name: op, Args: []*c02Exp{a, b}}
		})
		add(3, func() *c02Exp { return g.litOf(t) })
	case "bool":
		add(8, func() *c02Exp {
			bt := Choose(g.rng, []*c02Ty{c02Int, c02Int, c02Str})
			a := g.gen(bt, d-1, false)
			b := g.typedOperand(bt, d-1)
			if a == nil || b == nil {
				return nil
			}
			if g.rng.Bool() {
				a, b = b, a
			}
			return &c02Exp{K: "cmp", Name: Choose(g.rng, []string{"<", ">", "<=", ">="}), Args: []*c02Exp{a, b}}
		})
		// ordering comparison between two parameters; what determines their type comes later
		// (a determining use is appended to the final expression of the function)
		add(16, func() *c02Exp {
			var ps []c02EnvVar
			for _, v := range g.visible() {
				if v.IsParam && (v.Ty.K == "int" || v.Ty.K == "string") {
					ps = append(ps, v)
				}
			}
			if len(ps) < 2 {
				return nil
			}
			a := Choose(g.rng, ps)
			var bs []c02EnvVar
			for _, v := range ps {
				if v.ID != a.ID && c02Eq(v.Ty, a.Ty) {
					bs = append(bs, v)
				}
			}
			if len(bs) == 0 {
				return nil
			}
			b := Choose(g.rng, bs)
			g.needDet = append(g.needDet, a.Name)
			return &c02Exp{K: "cmp", Name: Choose(g.rng, []string{"<", ">", "<=", ">="}), Args: []*c02Exp{g.useVar(a), g.useVar(b)}}
		})
		add(4, func() *c02Exp {
			et := Choose(g.rng, []*c02Ty{c02Int, c02Str, c02Bool, c02Tuple(c02Int, c02Str), g.poolTy()})
			if et.hasFun() || et.hasVar() && false {
				return nil
			}
			a := g.gen(et, d-1, false)
			if a == nil {
				return nil
			}
			b := g.gen(et, d-1, false)
			if b == nil {
				return nil
			}
			return &c02Exp{K: "eq", Name: Choose(g.rng, []string{"=", "<>"}), Args: []*c02Exp{a, b}}
		})
		add(3, func() *c02Exp {
			a := g.gen(c02Bool, d-1, false)
			if a == nil {
				return nil
			}
			// the typed operand of && / || is a comparison (typed bool by the operator table)
			x := g.gen(c02Int, d-1, false)
			y := g.litOf(c02Int)
			if x == nil {
				return nil
			}
			b := &c02Exp{K: "cmp", Name: "<", Args: []*c02Exp{x, y}}
			if g.rng.Bool() {
				a, b = b, a
			}
			return &c02Exp{K: "cmp", Name: Choose(g.rng, []string{"&&", "||"}), Args: []*c02Exp{a, b}}
		})
		add(2, func() *c02Exp { return g.litOf(t) })
	case "tuple":
		add(10, func() *c02Exp {
			var args []*c02Exp
			for _, a := range t.Args {
				x := g.gen(a, d-1, free)
				if x == nil {
					return nil
				}
				args = append(args, x)
			}
			return &c02Exp{K: "tuple", Args: args}
		})
	case "slice":
		add(8, func() *c02Exp {
			n := 1 + g.rng.Intn(3)
			var args []*c02Exp
			for i := 0; i < n; i++ {
				x := g.gen(t.Args[0], d-1, false)
				if x == nil {
					return nil
				}
				args = append(args, x)
			}
			return &c02Exp{K: "slice", Args: args}
		})
	case "named":
		add(10, func() *c02Exp { return g.construct(t, d) })
	case "fun":
		add(8, func() *c02Exp { return g.lambda(t, d) })
	}
	// weighted order, first success wins
	for len(cs) > 0 {
		tot := 0
		for _, c := range cs {
			tot += c.w
		}
		r := g.rng.Intn(tot)
		k := 0
		for ; k < len(cs); k++ {
			if r < cs[k].w {
				break
			}
			r -= cs[k].w
		}
		st := g.save()
		if e := cs[k].f(); e != nil {
			return e
		}
		g.restore(st)
		cs = append(cs[:k], cs[k+1:]...)
	}
	if len(vars) > 0 {
		return g.useVar(Choose(g.rng, vars))
	}
	return g.terminal(t, 2)
}

func (g *c02G) callLocal(v c02EnvVar, d int) *c02Exp {
	g.used[v.ID] = true
	g.usedFn[v.ID] = true
	var args []*c02Exp
	for _, a := range v.Ty.funArgs() {
		x := g.gen(a, d-1, false)
		if x == nil {
			return nil
		}
		args = append(args, x)
	}
	if len(args) == 1 && g.rng.Chance(40, 100) {
		return &c02Exp{K: "pipe", Name: v.Name, Args: args} // x |> f
	}
	return &c02Exp{K: "callp", Name: v.Name, Args: args}
}

func (g *c02G) callGlobal(s *c02Sig, given int, m map[int]*c02Ty, d int) *c02Exp {
	bind := map[int]*c02Ty{}
	for k, v := range m {
		bind[k] = v
	}
	for i := 0; i < s.K; i++ {
		if _, ok := bind[i]; !ok {
			bind[i] = g.poolTy()
		}
	}
	var args []*c02Exp
	for _, a := range s.Args[:given] {
		g.bareOK = a.K == "fun"
		x := g.gen(a.subst(bind), d-1, false)
		g.bareOK = false
		if x == nil {
			return nil
		}
		args = append(args, x)
	}
	if given == len(s.Args) && given >= 1 && !s.User && g.rng.Chance(20, 100) {
		return &c02Exp{K: "pipeg", Name: s.Name, Args: args} // last |> g a b
	}
	return &c02Exp{K: "global", Name: s.Name, Args: args}
}

func (g *c02G) construct(t *c02Ty, d int) *c02Exp {
	dcl := c02DeclOf(t.Name)
	if dcl.Record {
		var args []*c02Exp
		for _, m := range dcl.Members {
			x := g.gen(g.instMember(dcl, t, m.Ty), d-1, false)
			if x == nil {
				return nil
			}
			args = append(args, x)
		}
		return &c02Exp{K: "record", Name: dcl.Name, Args: args}
	}
	perm := g.rng.Perm(len(dcl.Members))
	for _, i := range perm {
		m := dcl.Members[i]
		if m.Ty == nil {
			if dcl.K > 0 && !g.allowGN {
				// fc emits New_Opt_Non() without type arguments; Go cannot always infer them
				continue
			}
			return &c02Exp{K: "ctor", Name: dcl.Name, Name2: m.Name}
		}
		st := g.save()
		x := g.gen(g.instMember(dcl, t, m.Ty), d-1, false)
		if x != nil {
			return &c02Exp{K: "ctor", Name: dcl.Name, Name2: m.Name, Args: []*c02Exp{x}}
		}
		g.restore(st)
	}
	return nil
}

func (g *c02G) lambda(t *c02Ty, d int) *c02Exp {
	st := g.save()
	var xs []string
	for _, a := range t.funArgs() {
		if a.K == "fun" {
			g.restore(st)
			return nil
		}
		x := g.lamName(a, xs)
		xs = append(xs, x)
		g.push(x, a, false)
	}
	body := g.gen(t.funRes(), d-1, false)
	g.env = g.env[:st.envLen]
	if body == nil {
		g.restore(st)
		return nil
	}
	return &c02Exp{K: "lam", Xs: xs, Args: []*c02Exp{body}}
}

// terminal: a small expression of type t without open-ended recursion
func (g *c02G) terminal(t *c02Ty, d int) *c02Exp {
	if vars := g.varsOf(t); len(vars) > 0 && (t.K == "var" || t.K == "fun" || g.rng.Chance(2, 3)) {
		return g.useVar(Choose(g.rng, vars))
	}
	switch t.K {
	case "int", "string", "bool":
		return g.litOf(t)
	case "tuple":
		var args []*c02Exp
		for _, a := range t.Args {
			x := g.terminal(a, d)
			if x == nil {
				return nil
			}
			args = append(args, x)
		}
		return &c02Exp{K: "tuple", Args: args}
	case "slice":
		x := g.terminal(t.Args[0], d)
		if x == nil {
			return nil
		}
		return &c02Exp{K: "slice", Args: []*c02Exp{x}}
	case "named":
		return g.construct(t, 0)
	case "fun":
		if d <= 0 {
			return nil
		}
		st := g.save()
		var xs []string
		for _, a := range t.funArgs() {
			if a.K == "fun" {
				return nil
			}
			x := g.lamName(a, xs)
			xs = append(xs, x)
			g.push(x, a, false)
		}
		body := g.terminal(t.funRes(), d-1)
		g.env = g.env[:st.envLen]
		if body == nil {
			g.restore(st)
			return nil
		}
		return &c02Exp{K: "lam", Xs: xs, Args: []*c02Exp{body}}
	case "var":
		if d <= 0 {
			return nil
		}
		// derive a value of a rigid type from what is in scope
		vis := g.visible()
		for _, i := range g.rng.Perm(len(vis)) {
			v := vis[i]
			switch v.Ty.K {
			case "slice":
				if c02Eq(v.Ty.Args[0], t) {
					return &c02Exp{K: "global", Name: Choose(g.rng, []string{"slice.Head", "slice.Last"}), Args: []*c02Exp{g.useVar(v)}}
				}
			case "tuple":
				if len(v.Ty.Args) == 2 {
					if c02Eq(v.Ty.Args[0], t) {
						return &c02Exp{K: "global", Name: "frt.Fst", Args: []*c02Exp{g.useVar(v)}}
					}
					if c02Eq(v.Ty.Args[1], t) {
						return &c02Exp{K: "global", Name: "frt.Snd", Args: []*c02Exp{g.useVar(v)}}
					}
				}
			case "fun":
				if !g.usedFn[v.ID] && c02Eq(v.Ty.funRes(), t) {
					st := g.save()
					g.used[v.ID] = true
					g.usedFn[v.ID] = true
					var args []*c02Exp
					ok := true
					for _, a := range v.Ty.funArgs() {
						x := g.terminal(a, d-1)
						if x == nil {
							ok = false
							break
						}
						args = append(args, x)
					}
					if ok {
						return &c02Exp{K: "callp", Name: v.Name, Args: args}
					}
					g.restore(st)
				}
			}
		}
	}
	return nil
}

// block level: lets, destructuring lets, multi-line if, then the final expression
func (g *c02G) genBlock(t *c02Ty, d int, budget int) *c02Exp {
	if budget > 0 && g.rng.Chance(55, 100) {
		st := g.save()
		if g.rng.Chance(35, 100) {
			// destructuring let
			n := 2 + g.rng.Intn(4)/3
			var comps []*c02Ty
			for i := 0; i < n; i++ {
				comps = append(comps, g.poolTy())
			}
			tt := c02Tuple(comps...)
			rhs := g.gen(tt, d-1, true)
			if rhs != nil && rhs.K != "tuple" {
				var xs []string
				var ids []int
				for _, ct := range comps {
					x := g.fresh("v")
					xs = append(xs, x)
					ids = append(ids, g.push(x, ct, false).ID)
				}
				rest := g.genBlock(t, d, budget-1)
				if rest != nil {
					any := false
					for _, id := range ids {
						if g.used[id] {
							any = true
						}
					}
					if any {
						for i, x := range xs {
							if g.used[ids[i]] {
								continue
							}
							if g.underscore && g.rng.Bool() {
								xs[i] = "_"
							} else {
								// Go rejects unused locals: give the binder a use that does not constrain its type
								rest = c02WrapFinal(rest, x)
							}
						}
						return &c02Exp{K: "lettup", Xs: xs, Args: []*c02Exp{rhs, rest}}
					}
				}
			}
		} else {
			lt := g.poolTy()
			rhs := g.gen(lt, d-1, true)
			if rhs != nil && rhs.K != "var" {
				x := g.fresh("v")
				id := g.push(x, lt, false).ID
				rest := g.genBlock(t, d, budget-1)
				if rest != nil && g.used[id] {
					return &c02Exp{K: "let", Name: x, Args: []*c02Exp{rhs, rest}}
				}
			}
		}
		g.restore(st)
	}
	if budget > 0 && d > 1 && (g.allowGN || !t.hasGenericNamed()) && g.rng.Chance(12, 100) {
		st := g.save()
		c := g.gen(c02Bool, d-1, false)
		if c != nil {
			envLen := len(g.env)
			a := g.genBlock(t, d-1, budget-1)
			g.env = g.env[:envLen]
			if a != nil {
				b := g.genBlock(t, d-1, budget-1)
				g.env = g.env[:envLen]
				if b != nil {
					if b.K == "if" && b.Block && g.rng.Bool() {
						b.Elif = true
					}
					return &c02Exp{K: "if", Block: true, Args: []*c02Exp{c, a, b}}
				}
			}
		}
		g.restore(st)
	}
	return g.gen(t, d, true)
}

// (frt.Fst (e, x)) at the final expression(s) of a block
func c02WrapFinal(e *c02Exp, x string) *c02Exp {
	switch {
	case e.K == "match":
		n := &c02Exp{K: "match", Name: e.Name, Xs: e.Xs, Args: []*c02Exp{e.Args[0]}}
		for _, a := range e.Args[1:] {
			n.Args = append(n.Args, c02WrapFinal(a, x))
		}
		return n
	case e.K == "let" || e.K == "lettup":
		return &c02Exp{K: e.K, Name: e.Name, Xs: e.Xs, Args: []*c02Exp{e.Args[0], c02WrapFinal(e.Args[1], x)}}
	case e.K == "if" && e.Block:
		return &c02Exp{K: "if", Block: true, Elif: e.Elif, Args: []*c02Exp{e.Args[0], c02WrapFinal(e.Args[1], x), c02WrapFinal(e.Args[2], x)}}
	}
	return &c02Exp{K: "global", Name: "frt.Fst", Args: []*c02Exp{{K: "tuple", Args: []*c02Exp{e, {K: "var", Name: x}}}}}
}

// (frt.Fst (e, w)) at the final expression(s) of a block, for an arbitrary inline expression w
func c02WrapFinalExp(e *c02Exp, w *c02Exp) *c02Exp {
	switch {
	case e.K == "match":
		n := &c02Exp{K: "match", Name: e.Name, Xs: e.Xs, Args: []*c02Exp{e.Args[0]}}
		for _, a := range e.Args[1:] {
			n.Args = append(n.Args, c02WrapFinalExp(a, w))
		}
		return n
	case e.K == "let" || e.K == "lettup":
		return &c02Exp{K: e.K, Name: e.Name, Xs: e.Xs, Args: []*c02Exp{e.Args[0], c02WrapFinalExp(e.Args[1], w)}}
	case e.K == "if" && e.Block:
		return &c02Exp{K: "if", Block: true, Elif: e.Elif, Args: []*c02Exp{e.Args[0], c02WrapFinalExp(e.Args[1], w), c02WrapFinalExp(e.Args[2], w)}}
	}
	return &c02Exp{K: "global", Name: "frt.Fst", Args: []*c02Exp{{K: "tuple", Args: []*c02Exp{e, w}}}}
}

// an expression that fixes the type of variable x (base type t) by itself
func c02DetUse(rng *Rng, x string, t *c02Ty) *c02Exp {
	v := &c02Exp{K: "var", Name: x}
	if t.K == "string" {
		switch rng.Intn(3) {
		case 0:
			return &c02Exp{K: "arith", Name: "+", Args: []*c02Exp{v, {K: "str", Lit: "\"\""}}}
		case 1:
			return &c02Exp{K: "record", Name: "Rec", Args: []*c02Exp{{K: "int", Lit: "1"}, v}}
		}
		return &c02Exp{K: "slice", Args: []*c02Exp{{K: "str", Lit: "\"k\""}, v}}
	}
	switch rng.Intn(4) {
	case 0:
		return &c02Exp{K: "arith", Name: Choose(rng, []string{"+", "*", "-"}), Args: []*c02Exp{v, {K: "int", Lit: "1"}}}
	case 1:
		return &c02Exp{K: "record", Name: "Rec", Args: []*c02Exp{v, {K: "str", Lit: "\"s\""}}}
	case 2:
		return &c02Exp{K: "global", Name: "slice.Take", Args: []*c02Exp{v, {K: "slice", Args: []*c02Exp{{K: "bool", Lit: "true"}}}}}
	}
	return &c02Exp{K: "slice", Args: []*c02Exp{{K: "int", Lit: "7"}, v}}
}

// one random function against an intended signature; nil when the attempt fails
func c02RandFunc(rng *Rng, name string, sigs []*c02Sig, hazardKind string) *c02Func {
	hazard := hazardKind == "generic"
	g := &c02G{rng: rng, usedFn: map[int]bool{}, used: map[int]bool{}, sigs: sigs, allowGN: hazard, underscore: true}
	g.nrigid = rng.Intn(4)
	np := 1 + rng.Intn(4)
	var params []c02Param
	seen := map[string]bool{}
	for i := 0; i < np; i++ {
		var t *c02Ty
		if rng.Chance(28, 100) {
			t = g.randFunTy(true)
		} else {
			t = g.randTy(2, true)
		}
		pn := string(rune('a' + i))
		params = append(params, c02Param{Name: pn, Ty: t, Ann: !t.hasVar() && rng.Chance(65, 100)})
		g.push(pn, t, true)
		c02AddAtoms(t, &g.pool, seen)
	}
	if rng.Chance(35, 100) {
		// two more parameters of one base type: candidates for a comparison between parameters
		bt := Choose(rng, []*c02Ty{c02Int, c02Int, c02Str})
		for k := 0; k < 2; k++ {
			pn := string(rune('a' + np))
			np++
			params = append(params, c02Param{Name: pn, Ty: bt, Ann: rng.Chance(1, 2)})
			g.push(pn, bt, true)
		}
		c02AddAtoms(bt, &g.pool, seen)
	}
	// result: composed from what the parameters offer
	var rt *c02Ty
	switch r := rng.Intn(10); {
	case r < 5 && len(g.pool) > 0:
		rt = Choose(rng, g.pool)
	case r < 7:
		rt = c02Tuple(g.poolTy(), g.poolTy())
	case r < 8:
		rt = c02Slice(g.poolTy())
	case r < 9:
		rt = c02Tuple(g.poolTy(), g.poolTy(), g.poolTy())
	default:
		rt = g.randTy(2, false)
	}
	var body *c02Exp
	if rng.Chance(12, 100) {
		// "_" in a destructuring let whose right-hand side (a parameter) has no type yet at parse time
		tt := c02Tuple(g.poolTy(), g.poolTy())
		pn := string(rune('a' + np))
		params = append(params, c02Param{Name: pn, Ty: tt})
		g.push(pn, tt, true)
		w := g.push("w1", tt.Args[0], false)
		rest := g.genBlock(rt, 3, 2)
		if rest == nil {
			return nil
		}
		if !g.used[w.ID] {
			rest = c02WrapFinal(rest, "w1")
		}
		body = &c02Exp{K: "lettup", Xs: []string{"w1", "_"}, Args: []*c02Exp{{K: "var", Name: pn}, rest}}
	} else {
		body = g.genBlock(rt, 3, 3)
	}
	if body == nil {
		return nil
	}
	// parameters that were compared with each other get their type fixed by a later use
	done := map[string]bool{}
	for _, x := range g.needDet {
		if done[x] {
			continue
		}
		done[x] = true
		for _, pa := range params {
			if pa.Name == x {
				body = c02WrapFinalExp(body, c02DetUse(rng, x, pa.Ty))
			}
		}
	}
	var ret *c02Ty
	if !rt.hasVar() && !rt.hasFun() && rng.Chance(25, 100) {
		ret = rt // result annotation; parameters determined only through it keep no annotation of their own
		for i := range params {
			if params[i].Ann && rng.Bool() {
				params[i].Ann = false
			}
		}
	}
	return &c02Func{Name: name, Params: params, Body: body, Ret: ret,
		Feats: map[string]int{"lambda_param_shadows_outer_name": g.nShadow, "comparison_between_two_parameters": len(g.needDet),
			"bare_generic_function_value_avoided": g.nBareAvoided}}
}

// ---------------------------------------------------------------- shapes: principal type by construction

// Values flow through unknown functions (parameters, each used once), library generics and helper
// generics. Types are tracked with variables; a step either introduces fresh variables or *refines a
// bare variable* (substituting it everywhere), so no unification is ever needed and the final
// parameter/result types are the principal ones by construction.

type c02ShapeVal struct {
	name string
	ty   *c02Ty
}

type c02Shape struct {
	rng    *Rng
	nv     int
	params []c02Param // types updated by refinement
	vals   []c02ShapeVal
	lets   []*c02Exp // let / lettup nodes with Args[1] left nil
	nfun   int
	nlocal int
}

func (s *c02Shape) freshVar() *c02Ty { s.nv++; return c02Var(s.nv - 1) }

func (s *c02Shape) refine(v int, t *c02Ty) {
	m := map[int]*c02Ty{v: t}
	for i := range s.params {
		s.params[i].Ty = s.params[i].Ty.subst(m)
	}
	for i := range s.vals {
		s.vals[i].ty = s.vals[i].ty.subst(m)
	}
}

func (s *c02Shape) addLet(e *c02Exp, t *c02Ty) string {
	s.nlocal++
	n := fmt.Sprintf("v%d", s.nlocal)
	s.lets = append(s.lets, &c02Exp{K: "let", Name: n, Args: []*c02Exp{e, nil}})
	s.vals = append(s.vals, c02ShapeVal{n, t})
	return n
}

func (s *c02Shape) newFunParam(arg *c02Ty) (string, *c02Ty) {
	s.nfun++
	n := fmt.Sprintf("g%d", s.nfun)
	r := s.freshVar()
	s.params = append(s.params, c02Param{Name: n, Ty: c02Fun([]*c02Ty{arg}, r)})
	return n, r
}

// helper generics defined before the function (fixed text, used at several instantiations)
const c02ShapeHelpers = "let idf x = x\n\nlet dup x = (x, x)\n\nlet swp p =\n  let (a, b) = p\n  (b, a)\n\nlet ap1 f x = f x\n\n"

var c02ShapeHelperSigs = map[string]string{
	"idf": "func idf[T0 any](x T0) T0",
	"dup": "func dup[T0 any](x T0) frt.Tuple2[T0, T0]",
	"swp": "func swp[T0 any, T1 any](p frt.Tuple2[T0, T1]) frt.Tuple2[T1, T0]",
	"ap1": "func ap1[T0 any, T1 any](f func(T0) T1, x T0) T1",
}

func c02ShapeFunc(rng *Rng, name string, thoroughSize bool) *c02Func {
	s := &c02Shape{rng: rng}
	nx := 1 + rng.Intn(2)
	for i := 0; i < nx; i++ {
		pn := fmt.Sprintf("x%d", i)
		var t *c02Ty
		ann := false
		if rng.Chance(1, 4) {
			t = Choose(rng, []*c02Ty{c02Int, c02Str, c02Slice(c02Int), c02Tuple(c02Int, c02Str), c02Slice(c02Tuple(c02Str, c02Int))})
			ann = true // not redundant: nothing else determines it
		} else {
			t = s.freshVar()
		}
		s.params = append(s.params, c02Param{Name: pn, Ty: t, Ann: ann})
		s.vals = append(s.vals, c02ShapeVal{pn, t})
	}
	redundant := map[string]bool{}
	steps := 2 + rng.Intn(4)
	if thoroughSize {
		steps += rng.Intn(3)
	}
	for k := 0; k < steps; k++ {
		vi := rng.Intn(len(s.vals))
		if rng.Chance(1, 2) {
			vi = len(s.vals) - 1 // chains: continue from the newest value
		}
		v := s.vals[vi]
		if v.ty.hasGenericNamed() {
			// values of generic record/union type are results only: fc loses their type arguments when
			// they flow through another generic (hazard stream, reported as a finding)
			continue
		}
		ref := &c02Exp{K: "var", Name: v.name}
		bare := v.ty.K == "var"
		switch r := rng.Intn(100); {
		case r < 30: // unknown function applied to the value
			g, res := s.newFunParam(v.ty)
			if rng.Chance(1, 3) {
				s.addLet(&c02Exp{K: "global", Name: "ap1", Args: []*c02Exp{{K: "var", Name: g}, ref}}, res)
			} else {
				s.addLet(&c02Exp{K: "callp", Name: g, Args: []*c02Exp{ref}}, res)
			}
		case r < 45: // map an unknown function over the value
			var elem *c02Ty
			if v.ty.K == "slice" {
				elem = v.ty.Args[0]
			} else if bare {
				elem = s.freshVar()
				s.refine(v.ty.V, c02Slice(elem))
			} else {
				continue
			}
			g, res := s.newFunParam(elem)
			s.addLet(&c02Exp{K: "global", Name: "slice.Map", Args: []*c02Exp{{K: "var", Name: g}, ref}}, c02Slice(res))
		case r < 55: // head of a slice
			var elem *c02Ty
			if v.ty.K == "slice" {
				elem = v.ty.Args[0]
			} else if bare {
				elem = s.freshVar()
				s.refine(v.ty.V, c02Slice(elem))
			} else {
				continue
			}
			s.addLet(&c02Exp{K: "global", Name: "slice.Head", Args: []*c02Exp{ref}}, elem)
		case r < 67: // destructure a pair
			var a, b *c02Ty
			if v.ty.K == "tuple" && len(v.ty.Args) == 2 {
				a, b = v.ty.Args[0], v.ty.Args[1]
			} else if bare {
				a, b = s.freshVar(), s.freshVar()
				s.refine(v.ty.V, c02Tuple(a, b))
			} else {
				continue
			}
			s.nlocal += 2
			n1, n2 := fmt.Sprintf("v%d", s.nlocal-1), fmt.Sprintf("v%d", s.nlocal)
			s.lets = append(s.lets, &c02Exp{K: "lettup", Xs: []string{n1, n2}, Args: []*c02Exp{ref, nil}})
			s.vals = append(s.vals, c02ShapeVal{n1, a}, c02ShapeVal{n2, b})
		case r < 75: // pair with a literal / wrap into a slice
			if rng.Bool() {
				s.addLet(&c02Exp{K: "tuple", Args: []*c02Exp{ref, {K: "str", Lit: "\"k\""}}}, c02Tuple(v.ty, c02Str))
			} else {
				s.addLet(&c02Exp{K: "slice", Args: []*c02Exp{ref}}, c02Slice(v.ty))
			}
		case r < 83: // arithmetic with a typed operand refines a bare variable to int
			if bare {
				for _, p := range s.params {
					if p.Name == v.name {
						redundant[p.Name] = true
					}
				}
				s.refine(v.ty.V, c02Int)
			} else if v.ty.K != "int" {
				continue
			}
			s.addLet(&c02Exp{K: "arith", Name: Choose(rng, []string{"+", "*", "-"}), Args: []*c02Exp{ref, {K: "int", Lit: "3"}}}, c02Int)
		case r < 86: // generic record / union construction (type argument = the value's type)
			if rng.Bool() {
				s.addLet(&c02Exp{K: "record", Name: "Box", Args: []*c02Exp{ref, {K: "int", Lit: "1"}}}, c02Named("Box", v.ty))
			} else {
				s.addLet(&c02Exp{K: "ctor", Name: "Opt", Name2: "Som", Args: []*c02Exp{ref}}, c02Named("Opt", v.ty))
			}
		case r < 90:
			s.addLet(&c02Exp{K: "global", Name: "idf", Args: []*c02Exp{ref}}, v.ty)
		case r < 95:
			s.addLet(&c02Exp{K: "global", Name: "dup", Args: []*c02Exp{ref}}, c02Tuple(v.ty, v.ty))
		default:
			var a, b *c02Ty
			if v.ty.K == "tuple" && len(v.ty.Args) == 2 {
				a, b = v.ty.Args[0], v.ty.Args[1]
			} else if bare {
				a, b = s.freshVar(), s.freshVar()
				s.refine(v.ty.V, c02Tuple(a, b))
			} else {
				continue
			}
			s.addLet(&c02Exp{K: "global", Name: "swp", Args: []*c02Exp{ref}}, c02Tuple(b, a))
		}
	}
	if len(s.lets) == 0 {
		return nil
	}
	// result: every local that nothing consumed (Go rejects unused locals), at most 3 — else retry
	usedIn := map[string]bool{}
	var mark func(e *c02Exp)
	mark = func(e *c02Exp) {
		if e == nil {
			return
		}
		if e.K == "var" {
			usedIn[e.Name] = true
		}
		for _, a := range e.Args {
			mark(a)
		}
	}
	for _, l := range s.lets {
		mark(l.Args[0])
	}
	var outs []c02ShapeVal
	for _, v := range s.vals {
		if strings.HasPrefix(v.name, "v") && !usedIn[v.name] {
			outs = append(outs, v)
		}
	}
	if len(outs) == 0 || len(outs) > 3 {
		return nil
	}
	var final *c02Exp
	var rty *c02Ty
	if len(outs) == 1 {
		final, rty = &c02Exp{K: "var", Name: outs[0].name}, outs[0].ty
	} else {
		final = &c02Exp{K: "tuple"}
		var ts []*c02Ty
		for _, o := range outs {
			final.Args = append(final.Args, &c02Exp{K: "var", Name: o.name})
			ts = append(ts, o.ty)
		}
		rty = c02Tuple(ts...)
	}
	body := final
	for i := len(s.lets) - 1; i >= 0; i-- {
		s.lets[i].Args[1] = body
		body = s.lets[i]
	}
	// parameter order shuffled: the numbering follows the parameter list
	perm := rng.Perm(len(s.params))
	var params []c02Param
	for _, i := range perm {
		params = append(params, s.params[i])
	}
	// a parameter refined to int by arithmetic with a literal may carry a (redundant) annotation
	for i := range params {
		if redundant[params[i].Name] && c02Eq(params[i].Ty, c02Int) && rng.Chance(2, 3) {
			params[i].Ann = true
			params[i].Red = true
		}
	}
	var pn []string
	var pt []*c02Ty
	for _, p := range params {
		pn = append(pn, p.Name)
		pt = append(pt, p.Ty)
	}
	f := &c02Func{Name: name, Params: params, Body: body, Expect: c02ExpectedSig(name, pn, pt, rty)}
	return f
}
