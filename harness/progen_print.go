package main

// Pretty-printer MiniFo -> concrete Folang in one canonical layout: 2-space indentation, one
// statement per line, multi-line if / match, every non-atomic sub-expression parenthesised, all
// function parameters and results annotated. Multi-line constructs nested inside an expression are
// parenthesised and their continuation lines are aligned on the column where the construct starts
// (the offside rule only looks at relative columns).

import (
	"fmt"
	"strings"
)

type PrintOpts struct {
	Suffix        string // appended to every top-level name (types, cases, functions): many programs in one Go package
	MainName      string // name of the entry function ("main" when empty)
	Tiny          bool   // the layout tinyfo needs: let right-hand sides start on the let line, slice literals in parentheses
	OwnPkgInfo    bool   // emit package_info blocks for the library functions used (tinyfo cannot read pkg_all.foi)
	DropRetAnnot  bool   // drop the result annotation of non-recursive functions (inference recovers it; used by C02)
	QualifyRecord bool   // write record literals as {Rec.f = …}
	NoHeader      bool
	OmitParens    bool // operands of binary operators without parentheses where fc's operator table gives the same grouping
}

// rank of a binary node in fc's operator table (fc/wrapper.go binOpMap; checked by C08), 0 = not an operator node
func foRank(e *Expr) int {
	switch e.K {
	case EEq, ENeq:
		return 3
	case EBin:
		switch e.Op {
		case "&&", "||", "<", ">", "<=", ">=":
			return 2
		case "+", "-", "sadd":
			return 4
		case "*", "/", "%":
			return 5
		}
	}
	return 0
}

// operand prints the left (right=false) or right operand of the operator node parent
func (w *foPrinter) operand(parent, e *Expr, right bool) {
	if w.o.OmitParens && foRank(e) > 0 && !multiLineKind(e) {
		// left-associative precedence climbing: the left operand may have the same rank, the right one needs a higher one
		if !right && foRank(e) >= foRank(parent) || right && foRank(e) > foRank(parent) {
			w.top_(e)
			return
		}
	}
	w.atom(e)
}

type foPrinter struct {
	b    strings.Builder
	col  int
	o    PrintOpts
	top  map[string]bool // names that get the suffix
	recs map[string]*Decl
}

func ToFolang(p *Prog) string { return ToFolangOpts(p, PrintOpts{}) }

func ToFolangOpts(p *Prog, o PrintOpts) string {
	if p.RawFo != "" {
		return p.RawFo
	}
	w := &foPrinter{o: o, top: map[string]bool{}, recs: map[string]*Decl{}}
	for _, d := range p.Decls {
		w.top[d.Name] = true
		if d.K == DUnion {
			for _, c := range d.Cases {
				w.top[c.Name] = true
			}
		}
		if d.K == DRecord {
			w.recs[d.Name] = d
		}
	}
	if !o.NoHeader {
		w.s("package main\n\n")
		used := usedPackages(p)
		for _, pk := range []string{"frt", "slice", "strings"} {
			if used[pk] {
				w.s("import " + pk + "\n")
			}
		}
		w.s("\n")
		if o.OwnPkgInfo {
			w.s(ownPackageInfo(p))
		}
	}
	for _, d := range p.Decls {
		w.decl(d)
		w.s("\n")
	}
	main := o.MainName
	if main == "" {
		main = "main"
	}
	w.s("let " + main + " () =")
	w.nl(2)
	w.block(p.Main, 2)
	w.s("\n")
	return w.b.String()
}

func usedPackages(p *Prog) map[string]bool {
	used := map[string]bool{}
	p.WalkExprs(func(_, e *Expr) {
		switch e.K {
		case EExt:
			used[extPkg(e.Name)] = true
		case ESlice:
			if len(e.Args) == 0 {
				used["slice"] = true
			}
		case EIf, EIfOnly, EPipe, ETuple, EEq, ENeq, ENot, EInterp:
			used["frt"] = true // frt.IfElse, frt.Pipe, frt.NewTuple2, frt.OpEqual, frt.OpNot, frt.SInterP
		}
	})
	var hasTuple func(t *Type) bool
	hasTuple = func(t *Type) bool {
		if t == nil {
			return false
		}
		if t.K == TTuple {
			return true
		}
		for _, e := range t.Elems {
			if hasTuple(e) {
				return true
			}
		}
		return false
	}
	var stmts func(b *Block)
	stmts = func(b *Block) {
		for _, s := range b.Stmts {
			if s.K == SDestr {
				used["frt"] = true
			}
			if s.K == SLetFun {
				for _, pa := range s.Params {
					if hasTuple(pa.T) {
						used["frt"] = true
					}
				}
				if hasTuple(s.Ret) {
					used["frt"] = true
				}
				stmts(s.Body)
			}
		}
	}
	for _, b := range blocksOf(p) {
		stmts(b)
	}
	p.WalkExprs(func(_, e *Expr) {
		if e.K == ELam {
			for _, pa := range e.Params {
				if hasTuple(pa.T) {
					used["frt"] = true
				}
			}
		}
		if e.K == ESlice && hasTuple(e.ElemT) {
			used["frt"] = true
		}
	})
	for _, d := range p.Decls {
		switch d.K {
		case DUnion:
			for _, c := range d.Cases {
				if c.T != nil {
					used["frt"] = true // the generated String() method uses frt.Sprintf1
				}
			}
		case DRecord:
			for _, f := range d.Fields {
				if hasTuple(f.T) {
					used["frt"] = true
				}
			}
		case DFun:
			for _, pa := range d.Params {
				if hasTuple(pa.T) {
					used["frt"] = true
				}
			}
			if hasTuple(d.Ret) {
				used["frt"] = true
			}
		}
	}
	return used
}

// tablePackageInfo: package_info for every function of the FORMAT.md table (and slice.New).
func tablePackageInfo() string {
	all := map[string]bool{"slice.New": true}
	for _, n := range extNames {
		all[n] = true
	}
	return packageInfoFor(all)
}

// ownPackageInfo: the package_info text for exactly the library functions the program uses.
func ownPackageInfo(p *Prog) string {
	usedFn := map[string]bool{}
	p.WalkExprs(func(_, e *Expr) {
		if e.K == EExt {
			usedFn[e.Name] = true
		}
		if e.K == ESlice && len(e.Args) == 0 {
			usedFn["slice.New"] = true
		}
	})
	return packageInfoFor(usedFn)
}

func packageInfoFor(usedFn map[string]bool) string {
	var b strings.Builder
	for _, pk := range []string{"frt", "slice", "strings"} {
		first := true
		emit := func(line string) {
			if first {
				b.WriteString("package_info " + pk + " =\n")
				first = false
			}
			b.WriteString("  " + line + "\n")
		}
		if pk == "slice" && usedFn["slice.New"] {
			emit("let New<T>: ()->[]T")
		}
		for _, n := range extNames {
			if extPkg(n) != pk || !usedFn[n] {
				continue
			}
			sig := extTable[n]
			vs := map[string]bool{}
			for _, t := range sig.Params {
				t.vars(vs)
			}
			sig.Ret.vars(vs)
			tp := ""
			if len(vs) > 0 {
				tp = "<" + strings.Join(SortedKeys(vs), ", ") + ">"
			}
			var ts []string
			for _, t := range sig.Params {
				ts = append(ts, typeFo(t, 2, ""))
			}
			ts = append(ts, typeFo(sig.Ret, 2, ""))
			emit("let " + n[len(pk)+1:] + tp + ": " + strings.Join(ts, "->"))
		}
		if !first {
			b.WriteString("\n")
		}
	}
	return b.String()
}

func (w *foPrinter) s(x string) {
	w.b.WriteString(x)
	if i := strings.LastIndexByte(x, '\n'); i >= 0 {
		w.col = len(x) - i - 1
	} else {
		w.col += len(x)
	}
}

func (w *foPrinter) nl(indent int) {
	w.b.WriteByte('\n')
	w.b.WriteString(strings.Repeat(" ", indent))
	w.col = indent
}

// field names get the suffix too: a transpiler process fed several programs resolves a record
// literal by its field names across all of them
func (w *foPrinter) field(x string) string { return x + w.o.Suffix }

func (w *foPrinter) name(x string) string {
	if w.o.Suffix != "" && w.top[x] {
		return x + w.o.Suffix
	}
	return x
}

// typeFo prints a type. level: 0 = anywhere, 1 = component of a tuple, 2 = parameter/result of a
// function type or element of a slice (atoms only).
func typeFo(t *Type, level int, suffix string) string {
	paren := func(s string, need bool) string {
		if need {
			return "(" + s + ")"
		}
		return s
	}
	switch t.K {
	case TInt:
		return "int"
	case TString:
		return "string"
	case TBool:
		return "bool"
	case TUnit:
		return "()"
	case TVar:
		return t.Name
	case TRec, TUnion:
		return t.Name + suffix
	case TSlice:
		// []T*U would read as a tuple: a slice inside a tuple, and a tuple inside a slice, take parentheses
		return paren("[]"+typeFo(t.Elem(), 2, suffix), level == 1)
	case TTuple:
		xs := make([]string, len(t.Elems))
		for i, e := range t.Elems {
			xs[i] = typeFo(e, 1, suffix)
		}
		return paren(strings.Join(xs, "*"), level >= 1)
	case TFun:
		xs := make([]string, len(t.Elems))
		for i, e := range t.Elems {
			xs[i] = typeFo(e, 2, suffix)
			if e.K == TTuple {
				xs[i] = typeFo(e, 0, suffix) // A*B->C groups as (A*B)->C
			}
		}
		return paren(strings.Join(xs, "->"), level >= 1)
	}
	return "?"
}

func (w *foPrinter) typ(t *Type) string {
	sfx := ""
	if w.o.Suffix != "" {
		sfx = w.o.Suffix
	}
	return typeFo(t, 0, sfx)
}

func (w *foPrinter) params(ps []Param) {
	for _, p := range ps {
		if p.T.K == TUnit {
			w.s(" ()")
			continue
		}
		w.s(" (" + p.Name + ": " + w.typ(p.T) + ")")
	}
}

func (w *foPrinter) decl(d *Decl) {
	switch d.K {
	case DRecord:
		w.s("type " + w.name(d.Name) + " = {")
		for i, f := range d.Fields {
			if i > 0 {
				w.s("; ")
			}
			w.s(w.field(f.Name) + ": " + w.typ(f.T))
		}
		w.s("}\n")
	case DUnion:
		w.s("type " + w.name(d.Name) + " =\n")
		for _, c := range d.Cases {
			w.s("  | " + w.name(c.Name))
			if c.T != nil {
				w.s(" of " + w.typ(c.T))
			}
			w.s("\n")
		}
	case DFun:
		w.s("let " + w.name(d.Name))
		w.params(d.Params)
		if !(w.o.DropRetAnnot && !declRecursive(d)) {
			w.s(" : " + w.typ(d.Ret))
		}
		w.s(" =")
		w.nl(2)
		w.block(d.Body, 2)
		w.s("\n")
	}
}

func multiLineKind(e *Expr) bool {
	return e.K == EIf || e.K == EIfOnly || e.K == EMatchU || e.K == EMatchS
}

// block prints the statements and the final expression, one per line, starting at the current
// position (which is at column ind).
func (w *foPrinter) block(b *Block, ind int) {
	for _, s := range b.Stmts {
		w.stmt(s, ind)
		w.nl(ind)
	}
	w.top_(b.E)
}

func (w *foPrinter) stmt(s *Stmt, ind int) {
	switch s.K {
	case SLet:
		w.s("let " + s.Name + " =")
		if multiLineKind(s.E) && !w.o.Tiny {
			w.nl(ind + 2)
		} else {
			w.s(" ")
		}
		w.top_(s.E)
	case SLetFun:
		w.s("let " + s.Name)
		w.params(s.Params)
		w.s(" : " + w.typ(s.Ret))
		w.s(" =")
		w.nl(ind + 2)
		w.block(s.Body, ind+2)
	case SDestr:
		w.s("let (" + strings.Join(s.Names, ", ") + ") = ")
		w.atom(s.E)
	case SDo:
		w.top_(s.E)
	}
}

func foStringLit(s string) string {
	var b strings.Builder
	b.WriteByte('"')
	for i := 0; i < len(s); i++ {
		switch c := s[i]; c {
		case '"':
			b.WriteString(`\"`)
		case '\\':
			b.WriteString(`\\`)
		case '\n':
			b.WriteString(`\n`)
		case '\t':
			b.WriteString(`\t`)
		default:
			if c < 32 || c >= 127 {
				fmt.Fprintf(&b, `\x%02x`, c)
			} else {
				b.WriteByte(c)
			}
		}
	}
	b.WriteByte('"')
	return b.String()
}

func foInterpText(s string) string {
	var b strings.Builder
	for i := 0; i < len(s); i++ {
		switch c := s[i]; c {
		case '"':
			b.WriteString(`\"`)
		case '\\':
			b.WriteString(`\\`)
		case '\n':
			b.WriteString(`\n`)
		case '\t':
			b.WriteString(`\t`)
		case '{':
			b.WriteString(`\{`)
		case '}':
			b.WriteString(`\}`)
		default:
			b.WriteByte(c)
		}
	}
	return b.String()
}

var foOps = map[string]string{"sadd": "+"}

// atom prints e so that it can stand as an argument / operand: atoms as they are, everything else
// in parentheses.
func (w *foPrinter) atom(e *Expr) {
	switch e.K {
	case EStr, EBool, EUnit, EVar, ETuple, ERecord, EInterp, EField:
		w.top_(e)
		return
	case EInt:
		if e.Int >= 0 {
			w.top_(e)
			return
		}
	case ESlice:
		if len(e.Args) > 0 && !w.o.Tiny {
			w.top_(e)
			return
		}
	case ECtor:
		if len(e.Args) == 0 {
			w.top_(e)
			return
		}
	}
	w.s("(")
	if w.o.Tiny && e.K == EIf {
		// one line: tinyfo cannot end a multi-line block at a closing parenthesis
		br := func(x *Expr) {
			if multiLineKind(x) {
				w.atom(x)
			} else {
				w.top_(x)
			}
		}
		w.s("if ")
		br(e.Args[0])
		w.s(" then ")
		br(e.Blocks[0].E)
		w.s(" else ")
		br(e.Blocks[1].E)
	} else {
		w.top_(e)
	}
	w.s(")")
}

func (w *foPrinter) args(es []*Expr) {
	for _, a := range es {
		w.s(" ")
		w.atom(a)
	}
}

// top_ prints e without outer parentheses at the current column.
func (w *foPrinter) top_(e *Expr) {
	switch e.K {
	case EInt:
		if e.Int < 0 {
			// no negative literals in Folang
			w.s(fmt.Sprintf("0 - %d", uint64(-e.Int)))
		} else {
			w.s(fmt.Sprint(e.Int))
		}
	case EStr:
		w.s(foStringLit(e.Str))
	case EBool:
		w.s(fmt.Sprint(e.Bool))
	case EUnit:
		w.s("()")
	case EVar:
		w.s(w.name(e.Name))
	case EBin:
		op := e.Op
		if o, ok := foOps[op]; ok {
			op = o
		}
		w.operand(e, e.Args[0], false)
		w.s(" " + op + " ")
		w.operand(e, e.Args[1], true)
	case EEq, ENeq:
		w.operand(e, e.Args[0], false)
		if e.K == EEq {
			w.s(" = ")
		} else {
			w.s(" <> ")
		}
		w.operand(e, e.Args[1], true)
	case ENot:
		w.s("not ")
		w.atom(e.Args[0])
	case EIf, EIfOnly:
		w.ifExpr(e, w.col, "if ")
	case ELam:
		start := w.col
		w.s("fun")
		w.params(e.Params)
		w.s(" ->")
		body := e.Blocks[0]
		if len(body.Stmts) == 0 && !multiLineKind(body.E) {
			w.s(" ")
			w.top_(body.E)
		} else {
			w.nl(start + 2)
			w.block(body, start+2)
		}
	case ECall:
		w.s(w.name(e.Name))
		w.args(e.Args)
	case EExt:
		w.s(e.Name)
		w.args(e.Args)
	case EPipe:
		if e.Args[0].K == EPipe {
			w.top_(e.Args[0])
		} else {
			w.atom(e.Args[0])
		}
		w.s(" |> ")
		w.top_(e.Args[1]) // (var f) | call | ext: prints as "f a b"
	case ETuple:
		w.s("(")
		for i, a := range e.Args {
			if i > 0 {
				w.s(", ")
			}
			w.atom(a)
		}
		w.s(")")
	case ERecord:
		w.s("{")
		for i, a := range e.Args {
			if i > 0 {
				w.s("; ")
			}
			if i == 0 && w.o.QualifyRecord {
				w.s(w.name(e.Name) + ".")
			}
			w.s(w.field(e.Fields[i]) + " = ")
			w.atom(a)
		}
		w.s("}")
	case EField:
		w.top_(e.Args[0])
		w.s("." + w.field(e.Name))
	case ECtor:
		w.s(w.name(e.Name))
		w.args(e.Args)
	case EMatchU:
		start := w.col
		w.s("match ")
		w.atom(e.Args[0])
		w.s(" with")
		for _, a := range e.Arms {
			w.nl(start)
			w.s("| " + w.name(a.Case))
			if a.Bind != "" {
				w.s(" " + a.Bind)
			}
			w.s(" ->")
			w.nl(start + 2)
			w.block(a.Body, start+2)
		}
		if e.Deflt != nil {
			w.nl(start)
			w.s("| _ ->")
			w.nl(start + 2)
			w.block(e.Deflt, start+2)
		}
	case EMatchS:
		start := w.col
		w.s("match ")
		w.atom(e.Args[0])
		w.s(" with")
		for _, a := range e.Arms {
			w.nl(start)
			w.s("| " + foStringLit(a.Lit) + " ->")
			w.nl(start + 2)
			w.block(a.Body, start+2)
		}
		w.nl(start)
		if e.Bind != "" {
			w.s("| " + e.Bind + " ->")
		} else {
			w.s("| _ ->")
		}
		w.nl(start + 2)
		w.block(e.Deflt, start+2)
	case ESlice:
		if len(e.Args) == 0 {
			w.s("slice.New<" + w.typ(e.ElemT) + "> ()")
			return
		}
		w.s("[")
		for i, a := range e.Args {
			if i > 0 {
				w.s("; ")
			}
			w.atom(a)
		}
		w.s("]")
	case EInterp:
		w.s(`$"`)
		for _, p := range e.Parts {
			if p.IsHole {
				w.s("{" + p.Text + "}")
			} else {
				w.s(foInterpText(p.Text))
			}
		}
		w.s(`"`)
	case EBlockE:
		// no concrete syntax; Check rejects it. Printed as an immediately taken branch for debugging only.
		start := w.col
		w.s("if true then")
		w.nl(start + 2)
		w.block(e.Blocks[0], start+2)
	}
}

// singleLine: the expression prints on one line in this layout (no if / match / multi-line lambda inside).
func singleLine(e *Expr) bool {
	if e == nil {
		return true
	}
	switch e.K {
	case EIf, EIfOnly, EMatchU, EMatchS, EBlockE:
		return false
	case ELam:
		b := e.Blocks[0]
		return len(b.Stmts) == 0 && singleLine(b.E)
	}
	for _, a := range e.Args {
		if !singleLine(a) {
			return false
		}
	}
	return true
}

// oneLineIfOnly: an if without else that is written `if c then e` on one line when it is the last
// expression of a then-block that is followed by else / elif (the multi-line spelling cannot be used
// there: fc would attach the else to it). The following else / elif belongs to the OUTER if by the
// offside rule.
func oneLineIfOnly(e *Expr) bool {
	if e.K != EIfOnly {
		return false
	}
	b := e.Blocks[0]
	return len(b.Stmts) == 0 && singleLine(e.Args[0]) && singleLine(b.E)
}

// inlineBlock: a block that can be written on the line of its else / then keyword.
func inlineBlock(b *Block) bool { return len(b.Stmts) == 0 && singleLine(b.E) }

// useElif: whether an else-block consisting of a single if is written as elif (same AST either way);
// decided by the shape of the program so that both spellings occur.
func useElif(e *Expr) bool { return len(e.Args[0].Sexp())%4 != 0 }

func (w *foPrinter) ifExpr(e *Expr, start int, kw string) { w.ifExprL(e, start, kw, false) }

// ifExprL: inl = the else / elif bodies that can be are written on the keyword's line (used after a
// then-block that ends in a one-line if without else, so that both layouts of the dangling-else
// situation occur: `else e` / `elif c then e` inline, and else with an indented block).
func (w *foPrinter) ifExprL(e *Expr, start int, kw string, inl bool) {
	w.s(kw)
	if multiLineKind(e.Args[0]) {
		w.atom(e.Args[0])
	} else {
		w.top_(e.Args[0])
	}
	w.s(" then")
	tb := e.Blocks[0]
	tailOne := e.K == EIf && !w.o.Tiny && oneLineIfOnly(tb.E)
	if inl && inlineBlock(tb) && singleLine(e.Args[0]) {
		// elif c then e   (on the elif line)
		w.s(" ")
		w.top_(tb.E)
	} else if tailOne {
		w.nl(start + 2)
		for _, s := range tb.Stmts {
			w.stmt(s, start+2)
			w.nl(start + 2)
		}
		w.s("if ")
		w.top_(tb.E.Args[0])
		w.s(" then ")
		w.top_(tb.E.Blocks[0].E)
		// the shape of the program decides whether the bodies that follow are written inline
		inl = len(e.Args[0].Sexp())%3 != 0
	} else {
		w.nl(start + 2)
		w.block(tb, start+2)
	}
	if e.K == EIfOnly {
		return
	}
	eb := e.Blocks[1]
	if len(eb.Stmts) == 0 && eb.E.K == EIf && (useElif(eb.E) || inl && inlineBlock(eb.E.Blocks[0]) && singleLine(eb.E.Args[0])) {
		w.nl(start)
		w.ifExprL(eb.E, start, "elif ", inl)
		return
	}
	w.nl(start)
	w.s("else")
	if inl && inlineBlock(eb) {
		w.s(" ")
		w.top_(eb.E)
		return
	}
	w.nl(start + 2)
	w.block(eb, start+2)
}
