package main

// C12: slice library functions are pure — no call changes an existing slice value.
// Random histories of calls of the REAL package github.com/karino2/folang/pkg/slice over a growing pool
// of slice values ([]int and []frt.Tuple2[int,int]); after EVERY call the contents of EVERY pool value
// are compared with the snapshot taken when the value was produced (the property itself) and with the
// contents the Coq model (Pkg/SliceHeap.v, run over the same history) gives (correspondence).
// Sharing structure is deliberately not compared. Arguments of a call are named by the id of the call
// that produced them, so a history stays meaningful when Ddmin removes calls (a call whose argument is
// gone, panicked or has the wrong element type is skipped).

import (
	"encoding/json"
	"fmt"
	"os"
	"runtime"
	"strings"
	"unsafe"

	"github.com/karino2/folang/pkg/frt"
	"github.com/karino2/folang/pkg/slice"
)

type c12Pair = frt.Tuple2[int, int]

type c12Call struct {
	Id    int     `json:"id"`
	Op    string  `json:"op"`
	Args  []int   `json:"args,omitempty"` // ids of the calls whose results are the slice arguments
	N     int     `json:"n,omitempty"`
	Cb    string  `json:"cb,omitempty"` // callback of the shared family (coq/Pkg/SliceFamily.v)
	K     int     `json:"k,omitempty"`
	R     int     `json:"r,omitempty"`
	Vals  [][]int `json:"vals,omitempty"` // literal elements / pushed element: [x] or [a,b] (a pair)
	Extra int     `json:"extra,omitempty"`
	Pairs bool    `json:"pairs,omitempty"`
	Picks []int   `json:"picks,omitempty"` // collect with a callback returning pool values (ids)
}

type c12Val struct {
	id     int
	op     string
	isPair bool
	ints   []int
	pairs  []c12Pair
	snap   string
}

func c12RenderInts(s []int) string {
	var b strings.Builder
	b.WriteByte('(')
	for i, x := range s {
		if i > 0 {
			b.WriteByte(' ')
		}
		fmt.Fprintf(&b, "%d", x)
	}
	b.WriteByte(')')
	return b.String()
}
func c12RenderPairs(s []c12Pair) string {
	var b strings.Builder
	b.WriteByte('(')
	for i, x := range s {
		if i > 0 {
			b.WriteByte(' ')
		}
		fmt.Fprintf(&b, "(p %d %d)", x.E0, x.E1)
	}
	b.WriteByte(')')
	return b.String()
}
func (v *c12Val) render() string {
	if v.isPair {
		return c12RenderPairs(v.pairs)
	}
	return c12RenderInts(v.ints)
}
func (v *c12Val) length() int {
	if v.isPair {
		return len(v.pairs)
	}
	return len(v.ints)
}

// byte range of the backing array reachable through the value (0,0 when it has no capacity)
func (v *c12Val) span() (uintptr, uintptr) {
	if v.isPair {
		if cap(v.pairs) == 0 {
			return 0, 0
		}
		p := uintptr(unsafe.Pointer(unsafe.SliceData(v.pairs)))
		return p, p + uintptr(cap(v.pairs))*unsafe.Sizeof(c12Pair{})
	}
	if cap(v.ints) == 0 {
		return 0, 0
	}
	p := uintptr(unsafe.Pointer(unsafe.SliceData(v.ints)))
	return p, p + uintptr(cap(v.ints))*unsafe.Sizeof(int(0))
}

func c12PanicName(r any) string {
	if e, ok := r.(runtime.Error); ok {
		msg := e.Error()
		switch {
		case strings.Contains(msg, "index out of range"):
			return "index"
		case strings.Contains(msg, "slice bounds out of range"):
			return "bounds"
		}
		return "runtime:" + msg
	}
	if s, ok := r.(string); ok {
		switch s {
		case "call Head to empty list":
			return "head"
		case "call Tail to empty list":
			return "tail"
		case "zip with different length slices.":
			return "zip"
		}
		return "msg:" + s
	}
	return fmt.Sprintf("other:%v", r)
}

func c12Try(f func()) (p string) {
	defer func() {
		if r := recover(); r != nil {
			p = c12PanicName(r)
		}
	}()
	f()
	return ""
}

// ---------------------------------------------------------------- the shared callback family (Go side)

func famCbSexp(cb string, k, r int) string {
	switch cb {
	case "addk", "mulk", "const", "modk", "muladd", "gtk", "ltk", "eqk", "fstgt", "horner", "rep":
		return fmt.Sprintf("(%s %d)", cb, k)
	case "modeq":
		return fmt.Sprintf("(modeq %d %d)", k, r)
	}
	return cb
}
func famAbs(x int) int {
	if x < 0 {
		return -x
	}
	return x
}
func famFn(cb string, k int) func(int) int { // int -> int
	switch cb {
	case "addk":
		return func(x int) int { return x + k }
	case "mulk":
		return func(x int) int { return x * k }
	case "neg":
		return func(x int) int { return -x }
	case "const":
		return func(int) int { return k }
	case "modk":
		return func(x int) int { return x % k }
	}
	panic("famFn " + cb)
}
func famFnPI(cb string) func(c12Pair) int { // pair -> int
	switch cb {
	case "fst":
		return func(p c12Pair) int { return p.E0 }
	case "snd":
		return func(p c12Pair) int { return p.E1 }
	case "sum":
		return func(p c12Pair) int { return p.E0 + p.E1 }
	}
	panic("famFnPI " + cb)
}
func famFni(cb string, k int) func(int, int) int { // index, int -> int
	switch cb {
	case "addidx":
		return func(i, x int) int { return x + i }
	case "muladd":
		return func(i, x int) int { return x*k + i }
	case "idx":
		return func(i, _ int) int { return i }
	}
	panic("famFni " + cb)
}
func famPred(cb string, k, r int) func(int) bool {
	switch cb {
	case "gtk":
		return func(x int) bool { return k < x }
	case "ltk":
		return func(x int) bool { return x < k }
	case "eqk":
		return func(x int) bool { return x == k }
	case "modeq":
		return func(x int) bool { return x%k == r }
	case "true":
		return func(int) bool { return true }
	case "false":
		return func(int) bool { return false }
	}
	panic("famPred " + cb)
}
func famPredP(cb string, k int) func(c12Pair) bool {
	switch cb {
	case "fstgt":
		return func(p c12Pair) bool { return k < p.E0 }
	case "true":
		return func(c12Pair) bool { return true }
	case "false":
		return func(c12Pair) bool { return false }
	}
	panic("famPredP " + cb)
}
func famKey(cb string, k int) func(int) int {
	switch cb {
	case "id":
		return func(x int) int { return x }
	case "neg":
		return func(x int) int { return -x }
	case "modk":
		return func(x int) int { return x % k }
	case "abs":
		return famAbs
	}
	panic("famKey " + cb)
}
func famFold(cb string, k int) func(int, int) int {
	switch cb {
	case "sum":
		return func(s, e int) int { return s + e }
	case "sub":
		return func(s, e int) int { return s - e }
	case "horner":
		return func(s, e int) int { return (s*k + e) % 1000003 }
	case "count":
		return func(s, _ int) int { return s + 1 }
	case "last":
		return func(_, e int) int { return e }
	}
	panic("famFold " + cb)
}
func famGen(cb string, k int) func(int) []int {
	switch cb {
	case "rep":
		return func(x int) []int {
			r := []int{}
			for i := 0; i < k; i++ {
				r = append(r, x)
			}
			return r
		}
	case "range":
		return func(x int) []int {
			r := []int{}
			for i := 0; i < famAbs(x)%3; i++ {
				r = append(r, x+i)
			}
			return r
		}
	case "empty":
		return func(int) []int { return []int{} }
	case "selfneg":
		return func(x int) []int { return []int{x, -x} }
	}
	panic("famGen " + cb)
}

// ---------------------------------------------------------------- executing a history on the real package

type c12Viol struct {
	Step    int    `json:"after_call_id"`
	ValueId int    `json:"value_created_by_call_id"`
	Before  string `json:"contents_at_creation"`
	After   string `json:"contents_now"`
	Op      string `json:"call"`
}

type c12State struct {
	pool       []*c12Val
	idx        map[int]int
	model      []string   // executed calls as oracle s-expressions (pool indices)
	after      [][]string // after each executed call: rendering of every pool value
	viol       *c12Viol
	sharedArgs int // executed calls with an argument whose backing array is shared with another live value
	panics     int
	skipped    int
	ops        map[string]int
}

func newC12State() *c12State { return &c12State{idx: map[int]int{}, ops: map[string]int{}} }

func c12ValSexp(v []int) string {
	if len(v) == 2 {
		return fmt.Sprintf("(p %d %d)", v[0], v[1])
	}
	return fmt.Sprintf("%d", v[0])
}

func (st *c12State) shares(v *c12Val) bool {
	lo, hi := v.span()
	if lo == hi {
		return false
	}
	for _, w := range st.pool {
		if w == v {
			continue
		}
		l2, h2 := w.span()
		if l2 != h2 && lo < h2 && l2 < hi {
			return true
		}
	}
	return false
}

func c12Structural[T comparable](c *c12Call, a []([]T), x T) (res []T, has bool) {
	switch c.Op {
	case "new":
		return slice.New[T](), true
	case "tail":
		return slice.Tail(a[0]), true
	case "poplast":
		return slice.PopLast(a[0]), true
	case "take":
		return slice.Take(c.N, a[0]), true
	case "skip":
		return slice.Skip(c.N, a[0]), true
	case "pushlast":
		return slice.PushLast(x, a[0]), true
	case "pushhead":
		return slice.PushHead(x, a[0]), true
	case "append":
		return slice.Append(a[0], a[1]), true
	case "concat":
		return slice.Concat(a), true
	case "distinct":
		return slice.Distinct(a[0]), true
	case "obs_length":
		_ = slice.Length(a[0])
		_ = slice.Len(a[0])
	case "obs_isempty":
		_ = slice.IsEmpty(a[0])
		_ = slice.IsNotEmpty(a[0])
	case "obs_item":
		_ = slice.Item(c.N, a[0])
	case "obs_last":
		_ = slice.Last(a[0])
	case "obs_head":
		_ = slice.Head(a[0])
	case "obs_iter":
		n := 0
		slice.Iter(func(T) { n++ }, a[0])
	default:
		panic("c12Structural " + c.Op)
	}
	return nil, false
}

var c12StructuralOps = map[string]bool{"new": true, "tail": true, "poplast": true, "take": true, "skip": true,
	"pushlast": true, "pushhead": true, "append": true, "concat": true, "distinct": true, "obs_length": true,
	"obs_isempty": true, "obs_item": true, "obs_last": true, "obs_head": true, "obs_iter": true}

// step executes one call; returns false when the call was skipped (dangling / ill-typed argument)
func (st *c12State) step(c *c12Call) bool {
	var args []*c12Val
	for _, id := range c.Args {
		i, ok := st.idx[id]
		if !ok {
			st.skipped++
			return false
		}
		args = append(args, st.pool[i])
	}
	var picks []*c12Val
	for _, id := range c.Picks {
		i, ok := st.idx[id]
		if !ok || st.pool[i].isPair {
			st.skipped++
			return false
		}
		picks = append(picks, st.pool[i])
	}
	pairKind := c.Pairs
	if len(args) > 0 {
		pairKind = args[0].isPair
		for _, a := range args {
			if a.isPair != pairKind {
				st.skipped++
				return false
			}
		}
	}
	for _, v := range c.Vals {
		if (len(v) == 2) != pairKind {
			st.skipped++
			return false
		}
	}
	needArgs := map[string]int{"lit": 0, "make": 0, "new": 0, "append": 2, "zip": 2, "concat": -1}
	if n, ok := needArgs[c.Op]; ok {
		if n >= 0 && len(args) != n {
			st.skipped++
			return false
		}
	} else if len(args) != 1 {
		st.skipped++
		return false
	}
	if (c.Op == "pushlast" || c.Op == "pushhead") && len(c.Vals) != 1 {
		st.skipped++
		return false
	}
	// which ops exist for which element type
	intOnly := map[string]bool{"sort": true, "sortby": true, "zip": true, "collect": true, "obs_fold": true}
	if pairKind && intOnly[c.Op] {
		st.skipped++
		return false
	}

	ai := func(i int) string { return fmt.Sprint(st.idx[c.Args[i]]) }
	var res *c12Val
	var msexp string
	mk := func(isPair bool) *c12Val { return &c12Val{id: c.Id, op: c.Op, isPair: isPair} }
	shared := false
	for _, a := range args {
		if st.shares(a) {
			shared = true
		}
	}

	pn := c12Try(func() {
		switch {
		case c.Op == "lit" || c.Op == "make":
			var xs []string
			for _, v := range c.Vals {
				xs = append(xs, c12ValSexp(v))
			}
			res = mk(pairKind)
			n := len(c.Vals)
			extra := 0
			if c.Op == "make" {
				extra = c.Extra
				msexp = fmt.Sprintf("(make %d %s)", extra, strings.Join(xs, " "))
			} else {
				msexp = "(lit " + strings.Join(xs, " ") + ")"
			}
			if pairKind {
				res.pairs = make([]c12Pair, n, n+extra)
				for i, v := range c.Vals {
					res.pairs[i] = frt.NewTuple2(v[0], v[1])
				}
			} else {
				res.ints = make([]int, n, n+extra)
				for i, v := range c.Vals {
					res.ints[i] = v[0]
				}
			}
		case c12StructuralOps[c.Op]:
			switch c.Op {
			case "new":
				msexp = "(new)"
			case "take", "skip":
				msexp = fmt.Sprintf("(%s %d %s)", c.Op, c.N, ai(0))
			case "pushlast", "pushhead":
				msexp = fmt.Sprintf("(%s %s %s)", c.Op, c12ValSexp(c.Vals[0]), ai(0))
			case "append":
				msexp = fmt.Sprintf("(append %s %s)", ai(0), ai(1))
			case "concat":
				var is []string
				for i := range c.Args {
					is = append(is, ai(i))
				}
				msexp = "(concat " + strings.Join(is, " ") + ")"
			default:
				if strings.HasPrefix(c.Op, "obs_") {
					msexp = fmt.Sprintf("(obs %s)", ai(0))
				} else {
					msexp = fmt.Sprintf("(%s %s)", c.Op, ai(0))
				}
			}
			if pairKind {
				var a [][]c12Pair
				for _, v := range args {
					a = append(a, v.pairs)
				}
				var x c12Pair
				if len(c.Vals) == 1 {
					x = frt.NewTuple2(c.Vals[0][0], c.Vals[0][1])
				}
				if r, ok := c12Structural(c, a, x); ok {
					res = mk(true)
					res.pairs = r
				}
			} else {
				var a [][]int
				for _, v := range args {
					a = append(a, v.ints)
				}
				x := 0
				if len(c.Vals) == 1 {
					x = c.Vals[0][0]
				}
				if r, ok := c12Structural(c, a, x); ok {
					res = mk(false)
					res.ints = r
				}
			}
		case c.Op == "map":
			msexp = fmt.Sprintf("(map %s %s)", famCbSexp(c.Cb, c.K, c.R), ai(0))
			switch {
			case pairKind && c.Cb == "swap":
				res = mk(true)
				res.pairs = slice.Map(func(p c12Pair) c12Pair { return frt.NewTuple2(p.E1, p.E0) }, args[0].pairs)
			case pairKind:
				res = mk(false)
				res.ints = slice.Map(famFnPI(c.Cb), args[0].pairs)
			case c.Cb == "dup":
				res = mk(true)
				res.pairs = slice.Map(func(x int) c12Pair { return frt.NewTuple2(x, x) }, args[0].ints)
			default:
				res = mk(false)
				res.ints = slice.Map(famFn(c.Cb, c.K), args[0].ints)
			}
		case c.Op == "mapi":
			msexp = fmt.Sprintf("(mapi %s %s)", famCbSexp(c.Cb, c.K, c.R), ai(0))
			switch {
			case pairKind: // idx only
				res = mk(false)
				res.ints = slice.Mapi(func(i int, _ c12Pair) int { return i }, args[0].pairs)
			case c.Cb == "pair":
				res = mk(true)
				res.pairs = slice.Mapi(func(i int, x int) c12Pair { return frt.NewTuple2(i, x) }, args[0].ints)
			default:
				res = mk(false)
				res.ints = slice.Mapi(famFni(c.Cb, c.K), args[0].ints)
			}
		case c.Op == "filter":
			msexp = fmt.Sprintf("(filter %s %s)", famCbSexp(c.Cb, c.K, c.R), ai(0))
			res = mk(pairKind)
			if pairKind {
				res.pairs = slice.Filter(famPredP(c.Cb, c.K), args[0].pairs)
			} else {
				res.ints = slice.Filter(famPred(c.Cb, c.K, c.R), args[0].ints)
			}
		case c.Op == "sort":
			msexp = fmt.Sprintf("(sort %s)", ai(0))
			res = mk(false)
			res.ints = slice.Sort(args[0].ints)
		case c.Op == "sortby":
			msexp = fmt.Sprintf("(sortby %s %s)", famCbSexp(c.Cb, c.K, c.R), ai(0))
			res = mk(false)
			res.ints = slice.SortBy(famKey(c.Cb, c.K), args[0].ints)
		case c.Op == "zip":
			msexp = fmt.Sprintf("(zip %s %s)", ai(0), ai(1))
			res = mk(true)
			res.pairs = slice.Zip(args[0].ints, args[1].ints)
		case c.Op == "collect":
			if c.Cb == "pick" {
				var js []string
				for _, id := range c.Picks {
					js = append(js, fmt.Sprint(st.idx[id]))
				}
				msexp = fmt.Sprintf("(collect (pick %s) %s)", strings.Join(js, " "), ai(0))
				res = mk(false)
				res.ints = slice.Collect(func(x int) []int {
					if len(picks) == 0 {
						return nil
					}
					return picks[famAbs(x)%len(picks)].ints
				}, args[0].ints)
			} else {
				msexp = fmt.Sprintf("(collect %s %s)", famCbSexp(c.Cb, c.K, c.R), ai(0))
				res = mk(false)
				res.ints = slice.Collect(famGen(c.Cb, c.K), args[0].ints)
			}
		case c.Op == "obs_forall" || c.Op == "obs_forany" || c.Op == "obs_tryfind":
			msexp = fmt.Sprintf("(obs %s)", ai(0))
			if pairKind {
				p := famPredP(c.Cb, c.K)
				_ = slice.Forall(p, args[0].pairs)
				_ = slice.Forany(p, args[0].pairs)
				_ = slice.TryFind(p, args[0].pairs)
			} else {
				p := famPred(c.Cb, c.K, c.R)
				_ = slice.Forall(p, args[0].ints)
				_ = slice.Forany(p, args[0].ints)
				_ = slice.TryFind(p, args[0].ints)
			}
		case c.Op == "obs_fold":
			msexp = fmt.Sprintf("(obs %s)", ai(0))
			_ = slice.Fold(famFold(c.Cb, c.K), c.N, args[0].ints)
		default:
			panic("harness: unknown op " + c.Op)
		}
	})
	if strings.HasPrefix(pn, "msg:harness") || strings.HasPrefix(pn, "msg:fam") || strings.HasPrefix(pn, "msg:c12") {
		panic(pn)
	}
	st.ops[c.Op]++
	if shared {
		st.sharedArgs++
	}
	st.model = append(st.model, msexp)
	if pn != "" {
		st.panics++
		res = nil
	}
	if res != nil {
		res.snap = res.render()
		st.idx[c.Id] = len(st.pool)
		st.pool = append(st.pool, res)
	}
	// the property: every live value still has the contents it had when it was produced
	now := make([]string, len(st.pool))
	for i, v := range st.pool {
		now[i] = v.render()
		if now[i] != v.snap && st.viol == nil {
			st.viol = &c12Viol{Step: c.Id, ValueId: v.id, Before: v.snap, After: now[i], Op: msexp}
		}
	}
	st.after = append(st.after, now)
	return true
}

func c12Exec(calls []c12Call) *c12State {
	st := newC12State()
	for i := range calls {
		st.step(&calls[i])
		if st.viol != nil {
			break
		}
	}
	return st
}

// ---------------------------------------------------------------- model side

// splits "((1 2) (3)) ((1 2))" into groups of raw items
func c12SplitGroups(s string) [][]string {
	var groups [][]string
	depth := 0
	start := 0
	var cur []string
	for i := 0; i < len(s); i++ {
		switch s[i] {
		case '(':
			depth++
			if depth == 1 {
				cur = []string{}
			}
			if depth == 2 {
				start = i
			}
		case ')':
			if depth == 2 {
				cur = append(cur, s[start:i+1])
			}
			if depth == 1 {
				groups = append(groups, cur)
			}
			depth--
		}
	}
	return groups
}

// compares the implementation's contents after every call with the model's; "" when they agree
func c12CompareModel(or *Oracle, st *c12State, grow string) string {
	if len(st.model) == 0 {
		return ""
	}
	resp := or.Ask("C12", "(hist "+grow+" "+strings.Join(st.model, " ")+")")
	groups := c12SplitGroups(resp)
	if len(groups) != len(st.after) {
		return fmt.Sprintf("model answered %d steps for %d calls", len(groups), len(st.after))
	}
	for k := range groups {
		if len(groups[k]) != len(st.after[k]) {
			return fmt.Sprintf("after call %d (%s): the model has %d pool values, the implementation %d (one side panicked)",
				k, st.model[k], len(groups[k]), len(st.after[k]))
		}
		for i := range groups[k] {
			if groups[k][i] != st.after[k][i] {
				return fmt.Sprintf("after call %d (%s): pool value %d is %s in the implementation, %s in the model",
					k, st.model[k], i, st.after[k][i], groups[k][i])
			}
		}
	}
	return ""
}

// ---------------------------------------------------------------- generator (online: looks at the live state)

type c12Gen struct {
	rng    *Rng
	st     *c12State
	calls  []c12Call
	nextId int
	hot    []int // ids of values that share (or are likely to share) a backing array
}

func (g *c12Gen) val(pair bool) []int {
	if pair {
		return []int{g.rng.Intn(7) - 3, g.rng.Intn(7) - 3}
	}
	return []int{g.rng.Intn(19) - 9}
}

func (g *c12Gen) pickArg(wantPair, anyKind bool) (int, *c12Val, bool) {
	for try := 0; try < 20; try++ {
		var id int
		if len(g.hot) > 0 && g.rng.Chance(3, 5) {
			id = g.hot[g.rng.Intn(len(g.hot))]
		} else {
			id = g.st.pool[g.rng.Intn(len(g.st.pool))].id
		}
		i, ok := g.st.idx[id]
		if !ok {
			continue
		}
		v := g.st.pool[i]
		if anyKind || v.isPair == wantPair {
			return id, v, true
		}
	}
	return 0, nil, false
}

func (g *c12Gen) genCall() c12Call {
	r := g.rng
	c := c12Call{Id: g.nextId}
	g.nextId++
	create := func() c12Call {
		pair := r.Chance(1, 6)
		c.Pairs = pair
		switch r.Intn(8) {
		case 0:
			c.Op = "new"
			return c
		case 1, 2, 3:
			c.Op = "make"
			c.Extra = 1 + r.Intn(4)
		default:
			c.Op = "lit"
		}
		n := r.Intn(13)
		if r.Chance(1, 4) {
			n = r.Intn(3)
		}
		c.Vals = [][]int{}
		for i := 0; i < n; i++ {
			c.Vals = append(c.Vals, g.val(pair))
		}
		return c
	}
	if len(g.st.pool) == 0 || r.Chance(1, 9) {
		return create()
	}
	id, v, _ := g.pickArg(false, true)
	if v == nil {
		return create()
	}
	c.Args = []int{id}
	n := v.length()
	var ops []string
	switch x := r.Intn(10); {
	case x < 3: // make sharing
		ops = []string{"poplast", "tail", "poplast", "tail", "take", "skip"}
	case x < 7: // extend / rearrange what may be shared
		ops = []string{"pushlast", "pushlast", "pushlast", "pushhead", "append", "sort", "sortby", "pushlast", "append"}
	default:
		ops = []string{"map", "mapi", "filter", "zip", "collect", "collect", "concat", "distinct", "take", "skip", "new",
			"obs_length", "obs_isempty", "obs_item", "obs_last", "obs_head", "obs_iter", "obs_forall", "obs_tryfind", "obs_fold",
			"map", "filter", "distinct", "concat"}
	}
	c.Op = ops[r.Intn(len(ops))]
	if n > 40 && (c.Op == "append" || c.Op == "concat" || c.Op == "collect") {
		c.Op = "take"
	}
	if v.isPair && (c.Op == "sort" || c.Op == "sortby" || c.Op == "zip" || c.Op == "collect" || c.Op == "obs_fold") {
		c.Op = []string{"pushlast", "poplast", "tail", "append", "map", "filter", "distinct"}[r.Intn(7)]
	}
	other := func() {
		if id2, _, ok := g.pickArg(v.isPair, false); ok {
			c.Args = append(c.Args, id2)
		} else {
			c.Args = append(c.Args, id)
		}
	}
	switch c.Op {
	case "new":
		c.Args = nil
		c.Pairs = v.isPair
	case "take", "skip":
		c.N = r.Intn(n+3) - 1 // -1 .. len+1
	case "obs_item":
		c.N = r.Intn(n+2) - 1
	case "pushlast", "pushhead":
		c.Vals = [][]int{g.val(v.isPair)}
	case "append", "zip":
		other()
		if r.Chance(1, 4) {
			c.Args[1] = id // the same value twice
		}
	case "concat":
		c.Args = nil
		k := r.Intn(4)
		for i := 0; i < k; i++ {
			if i == 0 {
				c.Args = append(c.Args, id)
			} else {
				other()
			}
		}
		if k == 0 { // Concat of no slices: the element type is that of v
			c.Op = "distinct"
			c.Args = []int{id}
		}
	case "map":
		if v.isPair {
			c.Cb = Choose(r, []string{"fst", "snd", "sum", "swap"})
		} else {
			c.Cb = Choose(r, []string{"addk", "mulk", "neg", "const", "modk", "dup"})
			c.K = Choose(r, []int{1, 2, 3, -1, 5})
			if c.Cb == "modk" {
				c.K = 2 + r.Intn(4)
			}
			if c.Cb == "mulk" {
				c.K = Choose(r, []int{2, 3, -1})
			}
		}
	case "mapi":
		if v.isPair {
			c.Cb = "idx"
		} else {
			c.Cb = Choose(r, []string{"addidx", "muladd", "idx", "pair"})
			c.K = Choose(r, []int{2, -1, 3})
		}
	case "filter", "obs_forall", "obs_forany", "obs_tryfind":
		if v.isPair {
			c.Cb = Choose(r, []string{"fstgt", "true", "false"})
			c.K = r.Intn(5) - 2
		} else {
			c.Cb = Choose(r, []string{"gtk", "ltk", "eqk", "modeq", "true", "false", "gtk", "modeq"})
			c.K = r.Intn(9) - 4
			if c.Cb == "modeq" {
				c.K = 2 + r.Intn(2)
				c.R = r.Intn(2)
			}
		}
	case "sortby":
		c.Cb = Choose(r, []string{"id", "neg"}) // injective keys: the result is unique (stability is C13's matter)
	case "collect":
		if r.Chance(1, 2) {
			c.Cb = "pick"
			k := 1 + r.Intn(3)
			for i := 0; i < k; i++ {
				if id2, _, ok := g.pickArg(false, false); ok {
					c.Picks = append(c.Picks, id2)
				}
			}
		} else {
			c.Cb = Choose(r, []string{"rep", "range", "empty", "selfneg"})
			c.K = r.Intn(3)
		}
	case "obs_fold":
		c.Cb = Choose(r, []string{"sum", "sub", "horner", "count", "last"})
		c.K = 2
		c.N = r.Intn(5)
	}
	return c
}

func c12GenHistory(rng *Rng, maxCalls int) ([]c12Call, *c12State) {
	g := &c12Gen{rng: rng, st: newC12State()}
	// start from one to three values, mostly with spare capacity
	n := 1 + rng.Intn(maxCalls)
	for len(g.calls) < n {
		c := g.genCall()
		before := len(g.st.pool)
		g.calls = append(g.calls, c)
		if !g.st.step(&g.calls[len(g.calls)-1]) {
			continue
		}
		if len(g.st.pool) > before {
			switch c.Op {
			case "make":
				g.hot = append(g.hot, c.Id)
			case "poplast", "tail":
				g.hot = append(g.hot, c.Id, c.Args[0])
			case "pushlast", "append", "take", "skip", "map", "filter":
				// results built by growth have spare capacity of their own
				if g.rng.Chance(1, 3) {
					g.hot = append(g.hot, c.Id)
				}
			}
		}
		if g.st.viol != nil {
			break
		}
	}
	return g.calls, g.st
}

func c12LoadReplay(path string) []c12Call {
	b, err := os.ReadFile(path)
	if err != nil {
		panic(err)
	}
	var f struct {
		Replay struct {
			History []c12Call `json:"history"`
		} `json:"replay"`
	}
	if err := json.Unmarshal(b, &f); err != nil {
		panic(err)
	}
	return f.Replay.History
}

func runC12(c *Ctx) {
	rng := NewRng(c.Seed)
	or := c.Oracle()
	sliceInventory(c)
	c.Res.Rule = "random histories of 1..25 calls of the real pkg/slice (all 29 functions; values built by literals, by " +
		"make with spare capacity and by the package's own growth; arguments drawn from the pool, biased to values that " +
		"share a backing array: PopLast/Tail results and their sources, then PushLast/PushHead/Append/Sort on them); after " +
		"every call every pool value is compared with its creation snapshot and with the model; " +
		"non-trivial = at least one executed call had an argument whose backing array is shared with another live value " +
		"(unsafe.SliceData/cap overlap); distinct by the oracle request"
	nh := c.Pick(12000, 300000)
	maxCalls := 25
	report := func(calls []c12Call, st *c12State) {
		// the property itself failed on the real package: shrink the history
		small := Ddmin(calls, func(cs []c12Call) bool { return c12Exec(cs).viol != nil })
		s2 := c12Exec(small)
		c.Violate("prop", fmt.Sprintf("a slice value changed after it was produced: value of call %d was %s, is %s after call %d %s",
			s2.viol.ValueId, s2.viol.Before, s2.viol.After, s2.viol.Step, s2.viol.Op),
			map[string]any{"history": small, "violation": s2.viol, "model_calls": s2.model}, false)
	}
	if c.Replay != "" {
		calls := c12LoadReplay(c.Replay)
		st := c12Exec(calls)
		c.Eval(strings.Join(st.model, " "), st.sharedArgs > 0)
		if st.viol != nil {
			report(calls, st)
		} else if d := c12CompareModel(or, st, "double"); d != "" {
			c.Disagree()
			c.Violate("corr", "correspondence SliceHeap model vs pkg/slice broke: "+d,
				map[string]any{"broken": "correspondence C12 (Pkg/SliceHeap.v) vs pkg/slice", "history": calls, "model_calls": st.model}, true)
		}
		return
	}
	corrReported := 0
	for k := 0; k < nh; k++ {
		calls, st := c12GenHistory(rng.Fork(), maxCalls)
		key := strings.Join(st.model, " ")
		c.Eval(key, st.sharedArgs > 0)
		c.CountN("calls_executed", len(st.model))
		c.CountN("calls_skipped", st.skipped)
		c.CountN("calls_panicked", st.panics)
		c.CountN("calls_with_shared_argument", st.sharedArgs)
		c.Count(fmt.Sprintf("history_len=%02d", len(st.model)/5*5))
		c.Count(fmt.Sprintf("pool_size=%02d", len(st.pool)/5*5))
		for op, n := range st.ops {
			c.CountN("op="+op, n)
		}
		for _, v := range st.pool {
			ln := v.length()
			switch {
			case ln == 0:
				c.Count("value_len=0")
			case ln <= 4:
				c.Count("value_len=1-4")
			case ln <= 12:
				c.Count("value_len=5-12")
			default:
				c.Count("value_len>12")
			}
			lo, hi := v.span()
			cp := 0
			if v.isPair {
				cp = cap(v.pairs)
			} else {
				cp = cap(v.ints)
			}
			_ = lo
			_ = hi
			if cp > ln {
				c.Count("value_with_spare_capacity")
			}
		}
		if k%500 == 3 {
			c.Sample(map[string]any{"model_calls": st.model, "final_pool": st.after[len(st.after)-1], "calls_with_shared_argument": st.sharedArgs})
		}
		if st.viol != nil {
			report(calls, st)
			continue
		}
		c.Compared(len(st.model))
		if d := c12CompareModel(or, st, "double"); d != "" {
			c.Disagree()
			if corrReported < 3 {
				corrReported++
				// the property holds on this history (checked above, independently of the model) and on all
				// other generated histories unless reported: the correspondence itself broke
				small := Ddmin(calls, func(cs []c12Call) bool {
					s := c12Exec(cs)
					return s.viol == nil && c12CompareModel(or, s, "double") != ""
				})
				s2 := c12Exec(small)
				c.Violate("corr", "correspondence SliceHeap model vs pkg/slice broke: "+c12CompareModel(or, s2, "double"),
					map[string]any{"broken": "correspondence C12 (Pkg/SliceHeap.v) vs pkg/slice", "history": small, "model_calls": s2.model}, true)
			}
			continue
		}
		if k%8 == 0 {
			// contents_independent_of_grow, observed: the model with an exact-fit growth policy
			if d := c12CompareModel(or, st, "exact"); d != "" {
				c.Violate("grow", "the model's contents depend on the growth policy: "+d, map[string]any{"model_calls": st.model}, true)
			}
			c.Count("grow_policies_compared")
		}
	}
}

func init() { Register("C12", runC12) }
