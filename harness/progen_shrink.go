package main

// Delta-debugging of a failing MiniFo program on the AST: drop declarations and statements, replace
// sub-expressions by literals or by one of their own parts, collapse if/match to a branch — while
// the candidate stays inside the domain (Check) and the failure persists (test, evaluated in batches
// because one `go build` is the unit of cost).

import (
	"sort"
)

// defaultLit: the simplest closed expression of a data type (nil for function types).
func defaultLit(t *Type, recs map[string]*Decl, unions map[string]*Decl) *Expr {
	switch t.K {
	case TInt:
		return eInt(0)
	case TString:
		return eStr("")
	case TBool:
		return eBool(false)
	case TUnit:
		return eUnit()
	case TTuple:
		e := &Expr{K: ETuple, T: t}
		for _, c := range t.Elems {
			x := defaultLit(c, recs, unions)
			if x == nil {
				return nil
			}
			e.Args = append(e.Args, x)
		}
		return e
	case TSlice:
		return &Expr{K: ESlice, ElemT: t.Elem(), T: t}
	case TRec:
		d := recs[t.Name]
		if d == nil {
			return nil
		}
		e := &Expr{K: ERecord, Name: t.Name, T: t}
		for _, f := range d.Fields {
			x := defaultLit(f.T, recs, unions)
			if x == nil {
				return nil
			}
			e.Fields = append(e.Fields, f.Name)
			e.Args = append(e.Args, x)
		}
		return e
	case TUnion:
		d := unions[t.Name]
		if d == nil {
			return nil
		}
		// prefer a case without payload
		for _, c := range d.Cases {
			if c.T == nil {
				return &Expr{K: ECtor, Name: c.Name, T: t}
			}
		}
		c := d.Cases[0]
		x := defaultLit(c.T, recs, unions)
		if x == nil {
			return nil
		}
		return &Expr{K: ECtor, Name: c.Name, Args: []*Expr{x}, T: t}
	}
	return nil
}

func isLiteralish(e *Expr) bool {
	switch e.K {
	case EInt, EStr, EBool, EUnit:
		return true
	case ESlice:
		return len(e.Args) == 0
	case ECtor:
		return len(e.Args) == 0
	}
	return false
}

// exprSlots enumerates pointers to every expression position of the program.
func exprSlots(p *Prog) []**Expr {
	var out []**Expr
	var vb func(b *Block)
	var ve func(pe **Expr)
	ve = func(pe **Expr) {
		out = append(out, pe)
		e := *pe
		for i := range e.Args {
			ve(&e.Args[i])
		}
		for _, b := range e.Blocks {
			vb(b)
		}
		for i := range e.Arms {
			vb(e.Arms[i].Body)
		}
		if e.Deflt != nil {
			vb(e.Deflt)
		}
	}
	vb = func(b *Block) {
		for _, s := range b.Stmts {
			if s.Body != nil {
				vb(s.Body)
			}
			if s.E != nil {
				ve(&s.E)
			}
		}
		ve(&b.E)
	}
	for _, d := range p.Decls {
		if d.K == DFun {
			vb(d.Body)
		}
	}
	vb(p.Main)
	return out
}

func blocksOf(p *Prog) []*Block {
	var out []*Block
	var vb func(b *Block)
	var ve func(e *Expr)
	ve = func(e *Expr) {
		for _, a := range e.Args {
			ve(a)
		}
		for _, b := range e.subBlocks() {
			vb(b)
		}
	}
	vb = func(b *Block) {
		out = append(out, b)
		for _, s := range b.Stmts {
			if s.Body != nil {
				vb(s.Body)
			}
			if s.E != nil {
				ve(s.E)
			}
		}
		ve(b.E)
	}
	for _, d := range p.Decls {
		if d.K == DFun {
			vb(d.Body)
		}
	}
	vb(p.Main)
	return out
}

// substVar replaces every use of variable x (including interpolation holes) by a copy of lit.
func substVar(p *Prog, x string, lit *Expr) {
	for _, pe := range exprSlots(p) {
		e := *pe
		if e.K == EVar && e.Name == x {
			*pe = lit.Clone()
		}
		if e.K == EInterp {
			for i, pt := range e.Parts {
				if pt.IsHole && pt.Text == x {
					e.Parts[i] = Part{Text: "?"}
				}
			}
		}
	}
}

// shrinkCandidates: every one-step reduction of p that still passes Check.
func shrinkCandidates(p *Prog, opts CheckOpts) []*Prog {
	if err := Check(p, opts); err != nil {
		return nil
	}
	recs, unions := map[string]*Decl{}, map[string]*Decl{}
	for _, d := range p.Decls {
		if d.K == DRecord {
			recs[d.Name] = d
		}
		if d.K == DUnion {
			unions[d.Name] = d
		}
	}
	var out []*Prog
	add := func(q *Prog) {
		if Check(q, opts) == nil {
			out = append(out, q)
		}
	}
	// drop a declaration
	for i := range p.Decls {
		q := p.Clone()
		q.Decls = append(q.Decls[:i:i], q.Decls[i+1:]...)
		add(q)
	}
	// drop a statement (with its binders replaced by literals where they are used)
	nb := len(blocksOf(p))
	for bi := 0; bi < nb; bi++ {
		ns := len(blocksOf(p)[bi].Stmts)
		for si := 0; si < ns; si++ {
			q := p.Clone()
			b := blocksOf(q)[bi]
			s := b.Stmts[si]
			b.Stmts = append(b.Stmts[:si:si], b.Stmts[si+1:]...)
			ok := true
			switch s.K {
			case SLet:
				if s.E.T != nil {
					if lit := defaultLit(s.E.T, recs, unions); lit != nil {
						substVar(q, s.Name, lit)
					}
				}
			case SDestr:
				if s.E.T != nil && s.E.T.K == TTuple {
					for k, n := range s.Names {
						if lit := defaultLit(s.E.T.Elems[k], recs, unions); lit != nil {
							substVar(q, n, lit)
						}
					}
				}
			}
			if ok {
				add(q)
			}
		}
		// a block keeps only its final expression
		if ns > 1 {
			q := p.Clone()
			b := blocksOf(q)[bi]
			b.Stmts = nil
			add(q)
		}
	}
	// replace an expression by a literal of its type, or by one of its parts of the same type
	slots := exprSlots(p)
	for i, pe := range slots {
		e := *pe
		if e.T == nil {
			continue
		}
		repl := func(mk func(e *Expr) *Expr) {
			q := p.Clone()
			qs := exprSlots(q)
			r := mk(*qs[i])
			if r == nil {
				return
			}
			*qs[i] = r
			add(q)
		}
		if !isLiteralish(e) {
			if lit := defaultLit(e.T, recs, unions); lit != nil {
				repl(func(*Expr) *Expr { return lit })
			}
		}
		for k, a := range e.Args {
			if a.T != nil && a.T.Equal(e.T) && e.K != EField {
				k := k
				repl(func(x *Expr) *Expr { return x.Args[k] })
			}
		}
		switch e.K {
		case EIf, EIfOnly, EMatchU, EMatchS:
			// collapse to a branch without statements and binders
			for k, b := range e.subBlocks() {
				if len(b.Stmts) == 0 {
					k := k
					repl(func(x *Expr) *Expr {
						if x.K == EIfOnly {
							return nil
						}
						return x.subBlocks()[k].E
					})
				}
			}
			if e.K == EMatchU && len(e.Arms) > 1 && e.Deflt != nil {
				for k := range e.Arms {
					k := k
					repl(func(x *Expr) *Expr {
						x.Arms = append(x.Arms[:k:k], x.Arms[k+1:]...)
						return x
					})
				}
			}
			if e.K == EMatchS && len(e.Arms) > 1 {
				for k := range e.Arms {
					k := k
					repl(func(x *Expr) *Expr {
						x.Arms = append(x.Arms[:k:k], x.Arms[k+1:]...)
						return x
					})
				}
			}
		case ESlice:
			for k := range e.Args {
				k := k
				repl(func(x *Expr) *Expr {
					x.Args = append(x.Args[:k:k], x.Args[k+1:]...)
					return x
				})
			}
		case ECall:
			// say-like wrappers: (call f 2 (tag e)) -> e
			if len(e.Args) == 2 && e.Args[1].T != nil && e.Args[1].T.Equal(e.T) {
				repl(func(x *Expr) *Expr { return x.Args[1] })
			}
		case EInterp:
			if len(e.Parts) > 1 {
				for k := range e.Parts {
					k := k
					repl(func(x *Expr) *Expr {
						x.Parts = append(x.Parts[:k:k], x.Parts[k+1:]...)
						return x
					})
				}
			}
		}
	}
	sort.SliceStable(out, func(i, j int) bool { return out[i].Size() < out[j].Size() })
	return out
}

// Shrink reduces p while test reports the failure for a candidate. test receives a batch of
// candidates and answers for each whether it still fails. rounds bounds the number of test calls.
func Shrink(p *Prog, opts CheckOpts, rounds int, batch int, test func([]*Prog) []bool) (*Prog, int) {
	cur := p
	used := 0
	for used < rounds {
		cands := shrinkCandidates(cur, opts)
		if len(cands) == 0 {
			break
		}
		found := false
		for start := 0; start < len(cands) && used < rounds; start += batch {
			end := start + batch
			if end > len(cands) {
				end = len(cands)
			}
			used++
			res := test(cands[start:end])
			for k, still := range res {
				if still {
					cur = cands[start+k]
					found = true
					break
				}
			}
			if found {
				break
			}
		}
		if !found {
			break
		}
	}
	return cur, used
}
