package main

// PROGEN: development tool — dumps generated programs (Folang text + s-expression + reference output)
// into the work directory: vh PROGEN work=<dir> seed=<n> tier=quick|thorough

import (
	"fmt"
	"os"
	"path/filepath"
)

func runProgenTool(c *Ctx) {
	if f := os.Getenv("PROGEN_SEXP"); f != "" {
		b, err := os.ReadFile(f)
		if err != nil {
			panic(err)
		}
		p, err := ParseProg(string(b))
		if err != nil {
			panic(err)
		}
		if err := Check(p, CheckOpts{AllowExtPartial: true}); err != nil {
			fmt.Println("CHECK:", err)
		}
		fmt.Println(ToFolang(p))
		r := Eval(p, 400000)
		fmt.Printf("---- stdout (stuck=%q fuel=%v steps=%d)\n%s", r.Stuck, r.Fuel, r.Steps, r.Out)
		return
	}
	n := c.Pick(200, 2000)
	rng := NewRng(c.Seed).Fork() // NewRng(s) and NewRng(s+1) are the same stream shifted by one draw: fork first
	prof := DefaultProfile()
	if os.Getenv("PROGEN_TINY") != "" {
		prof = TinyProfile()
	}
	prof.Hazard = os.Getenv("PROGEN_HAZARD")
	cen := NewCensus()
	for i := 0; i < n; i++ {
		p := GenProgram(rng, prof)
		cen.Add(p)
		dir := filepath.Join(c.Work, fmt.Sprintf("main_%04d", i))
		MustWrite(filepath.Join(dir, "x.fo"), ToFolangOpts(p, PrintOpts{OwnPkgInfo: prof.Tiny, Tiny: prof.Tiny}))
		MustWrite(filepath.Join(dir, "x.sexp"), p.ToSexp()+"\n")
		out := p.RawOut
		if p.RawFo == "" {
			out = Eval(p, 200000).Out
		}
		MustWrite(filepath.Join(dir, "expected.txt"), out)
	}
	fmt.Fprintf(os.Stderr, "stats %+v\n", GenStats)
	c.Res.Extra["features"] = cen.Features
	c.Res.Extra["ext"] = cen.Ext
	c.Res.Extra["missing_pairs"] = cen.MissingPairs()
}

func init() { Register("PROGEN", runProgenTool) }
