package main

// C16, scanner half: the model of Front/Term.v (extracted, bin/fomodel) against the scanner of the
// tree under test (hooked in-process fc): scanTokenAt at every position, the whole token stream
// (newTkz/tkzNext), ParseSInterP and reinterpretEscape, plus the keyword table.
// Observables: token type, begin, length, payload (stringVal / intVal); "diagnostic" on both sides
// counts as agreement whatever the message. A hang or death of the server, or a disagreement, is
// first turned into a failing input of the real fc process (hang / fatal error / exit 0 without
// output); only if that fails it is reported as a broken correspondence (no-failing-input-found).

import (
	"encoding/hex"
	"fmt"
	"os"
	"path/filepath"
	"sort"
	"strings"
	"sync"
	"sync/atomic"
	"time"
)

// small alphabet rich in quotes, backslashes, braces, slashes, stars, dollars, digits, newlines
var c16Alpha = []string{"\"", "\"", "\\", "\\", "{", "}", "/", "/", "*", "$", "`", "0", "7", "9", "\n", "\n", " ", "\t",
	"a", "l", "e", "t", "i", "f", "_", "Z", "|", ">", "<", "=", "-", "&", "%", "+", ".", ",", ":", ";", "(", ")", "[", "]",
	"#", "'", "!", "\r", "\x00", "\xff", "\xc3",
	// U+FEFF (EF BB BF) whole and in pieces: escaped inside literals, the default panic(b) outside
	"\xef\xbb\xbf", "\xef\xbb\xbf", "\xef\xbb\xbf", "\xef", "\xef\xbb", "\xbb\xbf"}

var c16ScanHazards = []string{"//", "//x", "// x\n", "/*", "/**/", "/* */x", "/*/", "/* *", "1", "12", " 12", "12 ", "a", "a1_", "let", "let ", "_",
	"$", "$\"", "$\"a\"", "$`a`", "$x", "\"", "\"a", "\"a\\", "\"a\\\"", "\"a\\\"\"", "`", "`a", "`a\\\"\n`", "{", "#", "|>", "||", "|", "<>", "<=", "<", ">=", ">", "&&", "&", "->", "-",
	" \t /* c */ // d\n x", "\t", " ", "/", "/ ", "/\n", "a//", "a/*", "9//", "99999999999999999999 ", "package_info", "elif x", "\xff", "\x00",
	"\xef\xbb\xbf", "\"\xef\xbb\xbf\"", "`\xef\xbb\xbf`", "\"a\xef\xbb\xbfb\xef\xbb\xbf\"", "\"\xef\xbb\"", "\"\xef\xbb", "\"\xef\xbb\xbf", "`\xef\xbb\xbf", "`\xef",
	"$\"\xef\xbb\xbf{x}\"", "$`\xef\xbb\xbf`", "\"\\\xef\xbb\xbf\"", "x \xef\xbb\xbf", "// \xef\xbb\xbf\n\"\xef\xbb\xbf\"", "\"\xef\xef\xbb\xbf\xbf\""}

var c16SInterpHazards = []string{"", "a", "{", "{a", "{a}", "a{b}c{d}e", "}", "{}", "{{}", "\\", "a\\", "\\{", "\\}", "\\{a\\}", "\\{{a}\\}", "%", "100%", "%{a}%", "\\n", "\\\\", "\\\\{a}", "{a\\}", "{a}{", "{a}{b", "{\\}", "\\%", "a{b}\\"}

func c16RandBuf(rng *Rng, maxLen int) string {
	n := rng.Intn(maxLen + 1)
	var b strings.Builder
	for i := 0; i < n; i++ {
		if rng.Chance(1, 40) {
			b.WriteByte(byte(rng.Intn(256)))
		} else {
			b.WriteString(Choose(rng, c16Alpha))
		}
	}
	return b.String()
}

func c16Payload(t srvTok) string {
	switch {
	case t.Str != "":
		return "s" + t.Str
	case t.Int != 0:
		return fmt.Sprintf("i%d", t.Int)
	}
	return "-"
}

func c16NormPayload(p string) string {
	if p == "s" || p == "i0" {
		return "-"
	}
	return p
}

// canonical forms shared by both sides
func c16ImplScan(r srvResp) string {
	if !r.Ok {
		return "DIAG"
	}
	t := r.Toks[0]
	if t.Type == "(EOF)" {
		return "EOF"
	}
	return fmt.Sprintf("TOK %s %d %d %s", t.Type, t.Begin, t.Len, c16Payload(t))
}

func c16ModelScan(line string) string {
	if strings.HasPrefix(line, "DIAG") {
		return "DIAG"
	}
	f := strings.Fields(line)
	if len(f) == 5 && f[0] == "TOK" {
		f[4] = c16NormPayload(f[4])
		return strings.Join(f, " ")
	}
	return line
}

func c16ImplTokens(r srvResp) string {
	var b strings.Builder
	if r.Ok {
		b.WriteString("TOKS")
	} else {
		b.WriteString("DIAG")
	}
	for _, t := range r.Toks {
		fmt.Fprintf(&b, " %s:%d:%d:%s", t.Type, t.Begin, t.Len, c16Payload(t))
	}
	return b.String()
}

func c16ModelTokens(line string) string {
	if i := strings.Index(line, " | "); i >= 0 && strings.HasPrefix(line, "DIAG") {
		line = line[:i]
	}
	f := strings.Fields(line)
	for i := 1; i < len(f); i++ {
		k := strings.LastIndex(f[i], ":")
		if k >= 0 {
			f[i] = f[i][:k+1] + c16NormPayload(f[i][k+1:])
		}
	}
	return strings.Join(f, " ")
}

// the quoted strings of an oracle line `OK "fmt" ("v1" "v2")`
func c16Quoted(line string) []string {
	var out []string
	for i := 0; i < len(line); i++ {
		if line[i] != '"' {
			continue
		}
		j := i + 1
		for j < len(line) && line[j] != '"' {
			if line[j] == '\\' {
				j++
			}
			j++
		}
		if j >= len(line) {
			panic("unterminated string in oracle line: " + line)
		}
		out = append(out, Unsq(line[i:j+1]))
		i = j
	}
	return out
}

func c16HexList(xs []string) string {
	var h []string
	for _, x := range xs {
		h = append(h, hex.EncodeToString([]byte(x)))
	}
	return strings.Join(h, ",")
}

type c16Lane struct {
	srv *FcSrv
	or  *Oracle
}

type c16ScanState struct {
	c        *Ctx
	lanes    chan *c16Lane
	abort    atomic.Bool
	mu       sync.Mutex
	nDis     int
	nDied    int
	nConc    int
	mini     string
	reported map[string]bool
}

// run the real fc process on candidate files built from the offending bytes; returns a replay and
// what happened when the property itself fails.
func (st *c16ScanState) concretize(cands []string) (map[string]any, string, string) {
	st.mu.Lock()
	st.nConc++
	k := st.nConc
	st.mu.Unlock()
	if k > 4 {
		return nil, "", ""
	}
	c := st.c
	for ci, src := range cands {
		dir := filepath.Join(c.Work, fmt.Sprintf("scanq%d_%d", k, ci))
		os.MkdirAll(dir, 0o755)
		MustWrite(filepath.Join(dir, "m.fo"), src)
		r := Run(dir, 20*time.Second, 4096, []string{"GOMAXPROCS=2"}, filepath.Join(c.Bin, "fc"), st.mini, "m.fo")
		c.Count("real_process_runs")
		out := r.Stdout + r.Stderr
		_, gerr := os.Stat(filepath.Join(dir, "gen_m.go"))
		os.RemoveAll(dir)
		rep := map[string]any{"case": c16Case{Src: src, Kind: "scanner"}, "fc_exit": r.Exit, "fc_output": trunc(out, 2000),
			"how": "fc <mini.foi> m.fo under timeout 20s, ulimit -v 4GB"}
		switch {
		case r.TimedOut:
			return rep, "hang", "fc does not terminate (killed after 20 s)"
		case c16BadOutput(out) != "":
			return rep, "fatal", "fc dies of a Go runtime fatal error (" + c16BadOutput(out) + ")"
		case r.Exit == 0 && gerr != nil:
			return rep, "exit0", "fc exits 0 without writing gen_m.go"
		case r.Exit != 0 && gerr == nil:
			return rep, "wrote", "fc failed but wrote an output file for the offending input"
		case r.Exit != 0 && strings.TrimSpace(strings.Replace(strings.Replace(out, "transpile: "+st.mini, "", 1), "transpile: m.fo", "", 1)) == "":
			return rep, "nodiag", "fc exits non-zero without a diagnostic"
		}
	}
	return nil, "", ""
}

func c16ScanCands(buf string, pos int) []string {
	cands := []string{buf, "package main\n\n" + buf}
	if pos > len(buf) {
		pos = len(buf)
	}
	tail := buf[pos:]
	cands = append(cands, "package main\n\nlet f () = 1\n"+tail, "package main\n\nlet f () =\n  g "+tail)
	return cands
}

// report: a disagreement (impl != model) or a death (hang / fatal error of the in-process scanner)
func (st *c16ScanState) report(what, op, buf string, pos int, impl, model string, died bool, cands []string) {
	c := st.c
	st.mu.Lock()
	key := what + "|" + op
	if died {
		st.nDied++
		c.Count("scanner_server_died=" + op)
	} else {
		st.nDis++
	}
	if st.nDied >= 3 || st.nDis >= 12 {
		st.abort.Store(true)
	}
	seen := st.reported[key]
	st.reported[key] = true
	st.mu.Unlock()
	if !died {
		c.Disagree()
	}
	if seen {
		return
	}
	if rep, name, msg := st.concretize(cands); rep != nil {
		c.Violate(name, msg+" on an input derived from a "+op+" "+what, rep, false)
		return
	}
	rep := map[string]any{"broken": "Front/Term.v " + op + " vs fc/wrapper.go", "op": op, "buf": buf, "buf_hex": hex.EncodeToString([]byte(buf)), "pos": pos,
		"implementation": impl, "model": model}
	if died {
		c.Violate("scan-corr", "the in-process scanner hangs or dies ("+op+") where the model (theorems scan_total / tokenize_terminates / parse_sinterp_total) says it terminates; no failing fc run found", rep, true)
	} else {
		c.Violate("scan-corr", "scanner model and implementation disagree ("+op+"): impl "+trunc(impl, 80)+" / model "+trunc(model, 80), rep, true)
	}
}

func (st *c16ScanState) withLane(f func(l *c16Lane)) {
	l := <-st.lanes
	defer func() { st.lanes <- l }()
	f(l)
}

func (st *c16ScanState) checkScan(l *c16Lane, buf string, pos int) {
	r := l.srv.Scan(buf, pos)
	c := st.c
	if r.Died {
		st.report("buffer", "scanTokenAt", buf, pos, r.Err, "", true, c16ScanCands(buf, pos))
		return
	}
	impl := c16ImplScan(r)
	model := c16ModelScan(l.or.Ask("C16", fmt.Sprintf("(scan %s %d)", Sq(buf), pos)))
	c.Compared(1)
	c.Count("scan_outcome=" + strings.Fields(impl)[0])
	if impl != model {
		st.report("buffer", "scanTokenAt", buf, pos, impl, model, false, c16ScanCands(buf, pos))
	}
}

func (st *c16ScanState) checkTokens(l *c16Lane, buf string) {
	r := l.srv.Tokens(buf)
	c := st.c
	if r.Died {
		st.report("buffer", "token stream", buf, 0, r.Err, "", true, c16ScanCands(buf, 0))
		return
	}
	impl := c16ImplTokens(r)
	model := c16ModelTokens(l.or.Ask("C16", fmt.Sprintf("(tokens %s)", Sq(buf))))
	c.Compared(1)
	c.CountN("stream_tokens", len(r.Toks))
	if r.Ok {
		c.Count("stream_outcome=EOF")
	} else {
		c.Count("stream_outcome=DIAG")
	}
	for _, t := range r.Toks {
		c.Count("stream_tok=" + t.Type)
	}
	if impl != model {
		// first differing token position, for the candidates
		fi, fm := strings.Fields(impl), strings.Fields(model)
		pos := 0
		for i := 1; i < len(fi) && i < len(fm) && fi[i] == fm[i]; i++ {
			var ty string
			var b, ln int
			p := strings.Split(fi[i], ":")
			if len(p) >= 3 {
				ty = p[0]
				fmt.Sscan(p[1], &b)
				fmt.Sscan(p[2], &ln)
				_ = ty
				pos = b + ln
			}
		}
		st.report("buffer", "token stream", buf, pos, impl, model, false, c16ScanCands(buf, pos))
	}
}

func (st *c16ScanState) checkSInterP(l *c16Lane, body string) {
	r := l.srv.SInterP(body)
	c := st.c
	cands := []string{}
	if !strings.Contains(strings.ReplaceAll(body, "\\\"", ""), "\"") && !strings.HasSuffix(body, "\\") {
		cands = append(cands, "package main\n\nlet f (a:string) (b:string) =\n  $\""+body+"\"\n")
	}
	if r.Died {
		st.report("string body", "ParseSInterP", body, 0, r.Err, "", true, cands)
		return
	}
	line := l.or.Ask("C16", fmt.Sprintf("(sinterp %s)", Sq(body)))
	impl, model := "DIAG", "DIAG"
	if r.Ok {
		impl = "OK " + hex.EncodeToString([]byte(r.Fmt)) + " [" + strings.Join(r.VarsH, ",") + "]"
	}
	if strings.HasPrefix(line, "OK ") {
		q := c16Quoted(line)
		model = "OK " + hex.EncodeToString([]byte(q[0])) + " [" + c16HexList(q[1:]) + "]"
	}
	c.Compared(1)
	c.Count("sinterp_outcome=" + strings.Fields(impl)[0])
	if r.Ok {
		c.Count(fmt.Sprintf("sinterp_vars=%d", min(len(r.Vars), 3)))
	}
	if impl != model {
		st.report("string body", "ParseSInterP", body, 0, impl, model, false, cands)
	}
}

func (st *c16ScanState) checkReinterp(l *c16Lane, body string) {
	r := l.srv.Reinterp(body)
	c := st.c
	if r.Died {
		st.report("GoEval text", "reinterpretEscape", body, 0, r.Err, "", true, nil)
		return
	}
	line := l.or.Ask("C16", fmt.Sprintf("(reinterp %s)", Sq(body)))
	impl, model := "DIAG", "DIAG"
	if r.Ok {
		impl = "OK " + hex.EncodeToString([]byte(r.Fmt))
	}
	if strings.HasPrefix(line, "OK ") {
		model = "OK " + hex.EncodeToString([]byte(c16Quoted(line)[0]))
	}
	c.Compared(1)
	c.Count("reinterp_outcome=" + strings.Fields(impl)[0])
	if impl != model {
		st.report("GoEval text", "reinterpretEscape", body, 0, impl, model, false, nil)
	}
}

// the buffer of a scanner-correspondence replay file
func c16ReplayBuf(path string) string {
	var doc struct {
		Replay struct {
			BufHex string `json:"buf_hex"`
		} `json:"replay"`
	}
	b, err := os.ReadFile(path)
	if err != nil {
		panic(err)
	}
	if err := jsonUnmarshal(b, &doc); err != nil {
		panic(err)
	}
	d, err := hex.DecodeString(doc.Replay.BufHex)
	if err != nil {
		panic(err)
	}
	return string(d)
}

func c16Scanner(c *Ctx, rng *Rng, cases []c16Case) {
	const nLanes = 4
	st := &c16ScanState{c: c, lanes: make(chan *c16Lane, nLanes), mini: c.MiniFoi(c.Work), reported: map[string]bool{}}
	var all []*c16Lane
	for i := 0; i < nLanes; i++ {
		l := &c16Lane{srv: c.StartFcSrv(), or: c.NewOracle()}
		all = append(all, l)
		st.lanes <- l
	}
	defer func() {
		for _, l := range all {
			l.srv.Close()
			l.or.Close()
		}
	}()

	// the keyword table of the running binary against the table of the model
	st.withLane(func(l *c16Lane) {
		t := l.srv.Tables()
		var kw []string
		for k, v := range t.KeyWds {
			kw = append(kw, k+":"+v)
		}
		sort.Strings(kw)
		impl := strings.Join(kw, " ")
		model := l.or.Ask("C16", "(keywords)")
		c.Compared(1)
		if impl != model {
			c.Disagree()
			c.Violate("scan-corr", "keywordMap of fc/wrapper.go differs from keyword_names of Front/Term.v",
				map[string]any{"broken": "Front/Term.v keyword_names vs fc/wrapper.go keywordMap", "implementation": impl, "model": model}, true)
		}
	})

	type job struct {
		buf      string
		everyPos bool
		kind     string
	}
	var jobs []job
	replayBuf, hasReplayBuf := "", false
	if c.Replay != "" {
		for _, cs := range cases {
			if cs.Kind == "scanner-replay" {
				replayBuf, hasReplayBuf = cs.Src, true
				jobs = append(jobs, job{cs.Src, true, "replay"})
			}
		}
	}
	for _, h := range c16ScanHazards {
		jobs = append(jobs, job{h, true, "hazard"})
	}
	// mutants of valid programs: the whole stream for many, every position for a few short ones
	perm := rng.Perm(len(cases))
	nStream, nEvery := 0, 0
	for _, i := range perm {
		s := cases[i].Src
		if len(s) == 0 || len(s) > 6000 {
			continue
		}
		if nEvery < c.Pick(4, 40) && len(s) <= 900 {
			jobs = append(jobs, job{s, true, "mutant"})
			nEvery++
		} else if nStream < c.Pick(120, 4000) {
			jobs = append(jobs, job{s, false, "mutant"})
			nStream++
		}
		if nStream >= c.Pick(120, 4000) && nEvery >= c.Pick(4, 40) {
			break
		}
	}
	for i := 0; i < c.Pick(350, 30000); i++ {
		jobs = append(jobs, job{c16RandBuf(rng, 22), true, "random"})
	}
	// the tail of a mutant glued behind a random prefix: long comments / strings that run to the end
	for i := 0; i < c.Pick(30, 1500); i++ {
		s := Choose(rng, cases).Src
		if len(s) > 300 {
			s = s[len(s)-300:]
		}
		jobs = append(jobs, job{c16RandBuf(rng, 8) + s + c16RandBuf(rng, 6), false, "random+mutant"})
	}
	Parallel(len(jobs), func(i int) {
		if st.abort.Load() {
			return
		}
		j := jobs[i]
		st.withLane(func(l *c16Lane) {
			c.Eval("scan:"+j.buf, true)
			c.Count("scan_kind=" + j.kind)
			st.checkTokens(l, j.buf)
			if j.everyPos {
				for p := 0; p <= len(j.buf)+1 && !st.abort.Load(); p++ {
					st.checkScan(l, j.buf, p)
				}
			}
		})
	})

	// ParseSInterP / reinterpretEscape on random bodies
	var bodies []string
	if hasReplayBuf {
		bodies = append(bodies, replayBuf)
	}
	bodies = append(bodies, c16SInterpHazards...)
	balpha := []string{"{", "{", "}", "}", "\\", "\\", "%", "a", "b", "x", " ", "\"", "n", "s", "d", ".", "\n", "$", "0"}
	for i := 0; i < c.Pick(500, 30000); i++ {
		n := rng.Intn(14)
		var b strings.Builder
		for k := 0; k < n; k++ {
			if rng.Chance(1, 50) {
				b.WriteByte(byte(rng.Intn(256)))
			} else {
				b.WriteString(Choose(rng, balpha))
			}
		}
		bodies = append(bodies, b.String())
	}
	Parallel(len(bodies), func(i int) {
		if st.abort.Load() {
			return
		}
		st.withLane(func(l *c16Lane) {
			c.Eval("sinterp:"+bodies[i], true)
			st.checkSInterP(l, bodies[i])
			if i%2 == 0 {
				st.checkReinterp(l, bodies[i])
			}
		})
	})
	if st.abort.Load() {
		c.Note("scanner correspondence stopped early after %d disagreements and %d server deaths", st.nDis, st.nDied)
	}
	c.Res.Rule += "; scanner model: scanTokenAt at every position + token stream + ParseSInterP/reinterpretEscape of hazard buffers, mutants and random buffers over a quote/backslash/brace/slash/star/dollar/digit/newline-rich alphabet against the extracted Coq model (type, begin, length, payload; both-diagnostic = agreement)"
}
