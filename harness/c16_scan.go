package main

// placeholder until the scanner model (Front/Term.v) is wired: see c16Scanner in c16_scan.go
func c16Scanner(c *Ctx, rng *Rng, cases []c16Case) {}
