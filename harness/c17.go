package main

// C17: tinyfo (the frozen bootstrap transpiler) preserves behaviour on the early-Folang subset.
//
// The C01 pipeline in the Tiny profile through BOTH transpilers: every generated program is
// transpiled by `tinyfo` (real processes, several files per process) and by fc (hooked in-process
// server, no pkg_all.foi: the programs carry their own package_info because tinyfo cannot parse
// today's pkg_all.foi); both results are compiled and run, and both must print exactly what the
// reference interpreter (progen_eval.go) gives — hence also the same as each other.
//
// The Tiny profile = what tinyfo accepts, established experimentally on the pinned tree
// (tinyfo/parser.go, tinyfo/ast.go) and enforced by Check(…, CheckOpts{Tiny: true}):
//   * top-level functions only, every parameter and result annotated (`let f (a: int) : int =`,
//     `let f () : int =`); NO inner functions (tinyfo emits `func loc(…)` inside a body: Go syntax
//     error) and NO lambdas (`fun` is not a tinyfo keyword);
//   * int / string / bool with + - (no * /), < > <= >=, = <>, && ||, not, string +;
//   * if / elif / else as statement and as value, if without else; a multi-line if or match may only
//     stand at block level (statement, right-hand side of a let — starting on the let line —, final
//     expression): tinyfo ends a block by column only, never at a closing parenthesis, so an `if`
//     nested inside an expression must be the one-line form `(if c then a else b)`, and a match
//     cannot be nested in an expression at all;
//   * non-generic records (literal, field access on variables) and unions with match
//     (payload bound / `_` / no binder, default arm); NO string match, NO string interpolation;
//   * slices: literals only in parentheses when they are arguments (`f ([1; 2])`: `[` does not start
//     a tinyfo atom), no empty literal (`slice.New<int> ()` is not parsed); pairs and destructuring
//     of pairs, no triples;
//   * pipes (also with a unit-returning last stage and with library stages such as
//     `|> frt.Printf1 "%d\n"`), full and partial application of user functions; a partially applied
//     *generic library* function as a callback (`slice.Iter (frt.Printf1 "%d\n")`) makes tinyfo emit
//     `func (_r0 T)` (undefined: T), so callbacks are named functions or partial applications of
//     user functions;
//   * library: the functions marked Tiny in progen_lib.go (frt.Println/Printf1/Sprintf1/Fst/Snd,
//     slice.Length/Head/Tail/Last/Item/Take/Skip/PushLast/PushHead/Append/IsEmpty/IsNotEmpty/Map/
//     Filter/Iter/Forall/Forany, strings.Length/Concat/HasPrefix/HasSuffix/AppendHead/AppendTail/
//     Split), declared by the program's own `package_info` blocks with the type syntax tinyfo reads
//     (`[](T*U)`, `(T*U)->T`).
// The same two fc limits as in C01 apply (an if without else must not end a then-block; a block of
// several lines must not start with a token fc misplaces) and tinyfo shares the first: it also looks
// past the end of line for `else`.

import (
	"fmt"
	"os"
	"path/filepath"
	"strings"
	"time"
)

// tinyfoTranspiler runs c.Bin/tinyfo on groups of files (one parser per process: the per-program
// suffix keeps the top-level names apart); a failing group is re-run file by file.
func tinyfoTranspiler(c *Ctx) groupTranspileFn {
	bin := filepath.Join(c.Bin, "tinyfo")
	return func(dir string, cases []*progCase) {
		tdir := filepath.Join(dir, "tinyfo_src")
		os.MkdirAll(tdir, 0o755)
		name := func(pc *progCase) string { return fmt.Sprintf("p%d.fo", pc.Idx) }
		for _, pc := range cases {
			MustWrite(filepath.Join(tdir, name(pc)), pc.Src)
		}
		collect := func(pc *progCase) bool {
			b, err := os.ReadFile(filepath.Join(tdir, fmt.Sprintf("gen_p%d.go", pc.Idx)))
			if err != nil {
				return false
			}
			pc.GoSrc = string(b)
			return true
		}
		runOne := func(pc *progCase) {
			r := Run(tdir, 30*time.Second, 2048, nil, bin, name(pc))
			c.Count("tinyfo_processes")
			if r.Exit != 0 || r.TimedOut || !collect(pc) {
				msg := firstPanicLine(r.Stdout + r.Stderr)
				if r.TimedOut {
					msg = "timeout"
				}
				pc.FcErr = "tinyfo: " + msg
			}
		}
		const group = 12
		var groups [][]*progCase
		for i := 0; i < len(cases); i += group {
			j := i + group
			if j > len(cases) {
				j = len(cases)
			}
			groups = append(groups, cases[i:j])
		}
		Parallel(len(groups), func(gi int) {
			g := groups[gi]
			var files []string
			for _, pc := range g {
				files = append(files, name(pc))
			}
			r := Run(tdir, 60*time.Second, 2048, nil, bin, files...)
			c.Count("tinyfo_processes")
			if r.Exit == 0 && !r.TimedOut {
				ok := true
				for _, pc := range g {
					if !collect(pc) {
						ok = false
					}
				}
				if ok {
					return
				}
			}
			for _, pc := range g {
				os.Remove(filepath.Join(tdir, fmt.Sprintf("gen_p%d.go", pc.Idx)))
				pc.GoSrc = ""
			}
			for _, pc := range g {
				runOne(pc)
			}
		})
	}
}

func firstPanicLine(s string) string {
	for _, l := range strings.Split(s, "\n") {
		if strings.HasPrefix(l, "panic:") {
			return l
		}
	}
	return firstLine(s)
}

var c17Hazards = []string{"pap-effect", "unused-binder"}

func runC17(c *Ctx) {
	rng := NewRng(c.Seed).Fork() // NewRng(s) and NewRng(s+1) are the same stream shifted by one draw: fork first
	c.Res.Rule = "corpus/C17/*.sexp, then type-directed random MiniFo programs in the Tiny profile (the subset tinyfo accepts, see c17.go), " +
		"each carrying its own package_info, transpiled by tinyfo AND by fc, compiled, run, and compared with the reference interpreter " +
		"and with each other; non-trivial = at least 25 AST nodes; distinct by s-expression"
	prof := TinyProfile()
	if c.Thorough() {
		prof.MaxDepth = 6
	}
	pool := c.NewFcPool(8)
	defer pool.Close()
	mk := func(label string) *c01Run {
		return &c01Run{c: c, id: "C17", prof: prof, ownInfo: true, label: label, census: NewCensus(),
			sizes: map[string]int{}, depths: map[string]int{}, outLens: map[string]int{}, verdicts: map[string]int{}}
	}
	rt := mk("tinyfo: ")
	rt.gtr = tinyfoTranspiler(c)
	rf := mk("fc: ")
	rf.tr = fcsrvTranspiler(c, pool, false)

	if c.Replay != "" {
		c01Replay(rt)
		c01Replay(rf)
		return
	}

	var progs []*Prog
	var origins []string
	for i, p := range loadCorpus(c, "C17", CheckOpts{Tiny: true}) {
		progs = append(progs, p)
		origins = append(origins, fmt.Sprintf("corpus:%d", i))
	}
	n := c.Pick(150, 5000)
	if v := os.Getenv("VH_N"); v != "" {
		fmt.Sscan(v, &n)
	}
	chunk := 50
	nchunks := (n + chunk - 1) / chunk
	rngs := make([]*Rng, nchunks)
	for i := range rngs {
		rngs[i] = rng.Fork()
	}
	gen := make([][]*Prog, nchunks)
	Parallel(nchunks, func(i int) {
		for k := 0; k < chunk && i*chunk+k < n; k++ {
			gen[i] = append(gen[i], GenProgram(rngs[i], prof))
		}
	})
	for _, g := range gen {
		for _, p := range g {
			progs = append(progs, p)
			origins = append(origins, "gen")
		}
	}
	hz := rng.Fork()
	for _, key := range c17Hazards {
		for k := 0; k < c.Pick(1, 6); k++ {
			hp := prof
			hp.Hazard = key
			progs = append(progs, GenProgram(hz, hp))
			origins = append(origins, "hazard:"+key)
		}
	}
	c.Lap("generate")

	casesT := make([]*progCase, len(progs))
	casesF := make([]*progCase, len(progs))
	for i, p := range progs {
		casesT[i] = prepCase(i, p, origins[i], true)
		cf := *casesT[i]
		casesF[i] = &cf
	}
	batch := c.Pick(80, 160)
	rt.runAll(casesT, batch, nil)
	c.Lap("tinyfo: transpile+build+run")
	rf.runAll(casesF, batch, nil)
	c.Lap("fc: transpile+build+run")

	shrinkBudget := c.Pick(2, 4)
	acceptedT, acceptedF, same := 0, 0, 0
	tinyVsFcBudget := 3
	for i, p := range progs {
		rt.record(casesT[i])
		c.Eval(p.ToSexp(), p.Size() >= 25)
		c.Count("origin=" + strings.SplitN(origins[i], ":", 2)[0])
		c.Count("pap-args=" + PapClass(p))
		if casesT[i].FcErr == "" {
			acceptedT++
		}
		if casesF[i].FcErr == "" {
			acceptedF++
		}
		rt.judge(casesT[i], &shrinkBudget)
		rf.judge(casesF[i], &shrinkBudget)
		if casesT[i].Ran && casesF[i].Ran && casesT[i].Out == casesF[i].Out && casesT[i].Panic == casesF[i].Panic {
			same++
		} else if casesT[i].Ran && casesF[i].Ran && tinyVsFcBudget > 0 {
			// "…i.e. the same output fc's translation of the same program gives": also on the hazard
			// programs, where both are known to deviate from the source in the SAME way
			tinyVsFcBudget--
			c.Violate("tiny-vs-fc", fmt.Sprintf("tinyfo's and fc's translations of one program print different output (%s)", origins[i]),
				map[string]any{"origin": origins[i], "source": casesT[i].Src, "stdout_tinyfo": casesT[i].Out, "stdout_fc": casesF[i].Out,
					"panic_tinyfo": casesT[i].Panic, "panic_fc": casesF[i].Panic, "expected_by_source_semantics": casesT[i].expectOut()}, false)
		}
	}
	c.Lap("compare")

	// ---- correspondence with the Coq model (Core/CompileTiny.v): subset membership, behaviour of
	// the modelled tinyfo lowering (run_tiny), and K1 structure on tinyfo's real output
	modelRun, modelK1, modelSubset := 0, 0, 0
	if oracleHas(c, "C17") {
		or := c.Oracle()
		budget := 2
		k1max := c.Pick(40, 600)
		tdir := filepath.Join(c.Work, "c17k1")
		os.MkdirAll(tdir, 0o755)
		for i, p := range progs {
			if p.RawFo != "" || p.Hazard != "" || usesExtPartial(p) || casesT[i].FcErr != "" || (modelSkipsPermutedRecords && HasPermutedRecord(p)) {
				continue
			}
			sx := p.ToSexp()
			sub := or.AskRaw("C17", "(subset "+sx+")")
			if sub == "TINY" {
				modelSubset++
			} else {
				c.Count("model_says_not_tiny")
				c.Note("model subset: %s on a program tinyfo accepts: %s", clip(sub, 100), clip(sx, 160))
				continue
			}
			ans := ""
			for _, fuel := range []int{3000, 40000} {
				ans = or.AskRaw("C17", fmt.Sprintf("(run_tiny %d %s)", fuel, sx))
				if ans != "FUEL" {
					break
				}
			}
			if ans == "FUEL" || strings.HasPrefix(ans, "ERR") {
				c.Count("model_unavailable:run_tiny")
				continue
			}
			modelRun++
			c.Compared(1)
			got := ans
			if strings.HasPrefix(ans, "OUT ") {
				got = "OUT " + Sq(Unsq(strings.TrimPrefix(ans, "OUT ")))
			}
			if got != "OUT "+Sq(casesT[i].Expect.Out) {
				c.Disagree()
				if budget > 0 && casesT[i].verdict() == "" {
					budget--
					c.Violate("corr-run_tiny", fmt.Sprintf("correspondence broke: fomodel run_tiny answers %s where tinyfo+Go and the reference interpreter print %q", clip(ans, 100), clip(casesT[i].Expect.Out, 80)),
						map[string]any{"broken": "correspondence Coq model (run_tiny) vs tinyfo+Go", "program_sexp": sx, "source": ToFolangOpts(p, PrintOpts{OwnPkgInfo: true, Tiny: true})}, true)
				}
			}
			// K1 needs tinyfo alone on the unsuffixed program (its temporary counter is never reset)
			if modelK1 < k1max {
				want := or.AskRaw("C17", "(compile_tiny "+sx+")")
				if strings.HasPrefix(want, "ERR") || strings.HasPrefix(want, "STUCK") {
					continue
				}
				MustWrite(filepath.Join(tdir, "m.fo"), ToFolangOpts(p, PrintOpts{OwnPkgInfo: true, Tiny: true}))
				os.Remove(filepath.Join(tdir, "gen_m.go"))
				r := Run(tdir, 60*time.Second, 2048, nil, filepath.Join(c.Bin, "tinyfo"), "m.fo")
				b, err := os.ReadFile(filepath.Join(tdir, "gen_m.go"))
				if r.Exit != 0 || err != nil {
					continue
				}
				canon, err := gcCanonFile(string(b))
				if err != nil {
					continue
				}
				modelK1++
				c.Compared(1)
				g, w := gcNormalise(canon), gcNormalise(strings.TrimSpace(want))
				if g != w {
					c.Disagree()
					c.Count("k1_structure_differs")
					if budget > 0 {
						budget--
						k := 0
						for k < len(g) && k < len(w) && g[k] == w[k] {
							k++
						}
						lo := k - 60
						if lo < 0 {
							lo = 0
						}
						c.Violate("corr-compile_tiny", "correspondence broke: the Go emitted by tinyfo differs structurally from CompileTiny.compile_tiny",
							map[string]any{"broken": "correspondence Coq model (compile_tiny, K1 structure) vs tinyfo", "program_sexp": sx,
								"tinyfo_canonical_near_difference": clip(g[lo:], 300), "model_canonical_near_difference": clip(w[lo:], 300)}, true)
					}
				}
			}
		}
	} else {
		c.Note("the C17 oracle driver is not present in bin/fomodel: no program was compared with the Coq model in this run")
	}
	c.Lap("model")

	ex := c.Res.Extra
	ex["feature_census"] = rt.census.Features
	ex["statement_census"] = rt.census.Stmts
	ex["library_calls"] = rt.census.Ext
	ex["match_arm_forms"] = rt.census.Arms
	ex["nesting_matrix_child_in_parent"] = rt.census.NestingMatrix()
	ex["size_distribution_ast_nodes"] = rt.sizes
	ex["depth_distribution"] = rt.depths
	ex["expected_stdout_bytes"] = rt.outLens
	ex["verdicts_tinyfo"] = rt.verdicts
	ex["verdicts_fc"] = rf.verdicts
	ex["programs"] = len(progs)
	ex["accepted_by_tinyfo"] = acceptedT
	ex["accepted_by_fc"] = acceptedF
	ex["tinyfo_and_fc_same_stdout"] = same
	ex["compared_with_reference_interpreter"] = c.Res.Compared
	ex["compared_with_coq_run_tiny"] = modelRun
	ex["compared_with_coq_compile_tiny_structure"] = modelK1
	ex["model_confirms_tiny_subset"] = modelSubset
	ex["generator_stats"] = GenStats
	ex["profile"] = prof
	for _, i := range []int{0, len(progs) / 2} {
		if i < len(progs) {
			c.Sample(map[string]any{"origin": origins[i], "source": ToFolangOpts(progs[i], PrintOpts{OwnPkgInfo: true, Tiny: true}),
				"stdout_tinyfo": casesT[i].Out, "stdout_fc": casesF[i].Out})
		}
	}
}

func init() { Register("C17", runC17) }
