package main

// C02 runner: variants, oracle, fc (in-process server and real processes), go build / go vet.

import (
	"encoding/hex"
	"encoding/json"
	"fmt"
	"os"
	"path/filepath"
	"regexp"
	"strings"
	"sync"
	"sync/atomic"
	"time"
)

var c02TModel, c02TFc int64

type c02OraclePool struct{ ch chan *Oracle }

func c02NewOraclePool(c *Ctx, n int) *c02OraclePool {
	p := &c02OraclePool{ch: make(chan *Oracle, n)}
	for i := 0; i < n; i++ {
		p.ch <- c.NewOracle()
	}
	return p
}
func (p *c02OraclePool) Get() *Oracle  { return <-p.ch }
func (p *c02OraclePool) Put(o *Oracle) { p.ch <- o }
func (p *c02OraclePool) Close() {
	close(p.ch)
	for o := range p.ch {
		o.Close()
	}
}

func c02Table(user []string) string {
	var gs []string
	for _, s := range c02Lib {
		gs = append(gs, s.sexp())
	}
	gs = append(gs, user...)
	return "(" + c02TypesSexp() + " (globals " + strings.Join(gs, " ") + "))"
}

var c02ShapeHelperTable = []string{
	`("idf" 1 ((tv 0)) (tv 0))`,
	`("dup" 1 ((tv 0)) (tuple (tv 0) (tv 0)))`,
	`("swp" 2 ((tuple (tv 0) (tv 1))) (tuple (tv 1) (tv 0)))`,
	`("ap1" 2 ((fun ((tv 0)) (tv 1)) (tv 0)) (tv 1))`,
}

func (e *c02Exp) hasField() bool {
	if e.K == "field" {
		return true
	}
	for _, a := range e.Args {
		if a.hasField() {
			return true
		}
	}
	return false
}

// AskMany pipelines several requests to one oracle process (fewer round trips).
func c02AskMany(o *Oracle, reqs []string) []string {
	o.mu.Lock()
	defer o.mu.Unlock()
	go func() {
		var b strings.Builder
		for _, r := range reqs {
			if strings.ContainsAny(r, "\n\r") {
				panic("oracle request contains newline")
			}
			b.WriteString("C02 " + r + "\n")
		}
		o.in.Write([]byte(b.String()))
	}()
	out := make([]string, len(reqs))
	for i := range reqs {
		line, err := o.out.ReadString('\n')
		if err != nil {
			panic("oracle died on request: C02 " + reqs[i])
		}
		line = strings.TrimRight(line, "\n")
		if strings.HasPrefix(line, "ERR") || line == "FUEL" {
			panic("oracle error: " + line + " on request: C02 " + reqs[i])
		}
		out[i] = line
	}
	return out
}

func c02StripFlags(a string) string {
	return strings.TrimPrefix(strings.TrimPrefix(a, "AMBIG "), "OPENGN ")
}

type c02ModelRes struct {
	openGN bool // a generic record/union occurs with a type variable inside its type arguments
	// the modelled fc resolver and the reference unification give different signatures
	resolverDiffers string
	sigs            []string // Go signature text per function (fc's spacing) or "ILLTYPED"
	user            []*c02Sig
	inDomain        bool // false: ill-typed, a type in the body that nothing determines, or a record type determined only through a field name
}

// the reference inference on every function of the given variants (requests pipelined per function)
func c02ModelMany(or *Oracle, p *c02Prog, masks []uint) []c02ModelRes {
	t0 := time.Now()
	defer func() { atomic.AddInt64(&c02TModel, int64(time.Since(t0))) }()
	res := make([]c02ModelRes, len(masks))
	tabs := make([][]string, len(masks))
	dead := make([]bool, len(masks))
	for k := range masks {
		res[k].inDomain = true
		if p.Pre != "" {
			tabs[k] = append(tabs[k], c02ShapeHelperTable...)
		}
	}
	for fi, f := range p.Funcs {
		field := f.Body.hasField()
		var reqs []string
		var owner []int
		for k, mask := range masks {
			if dead[k] {
				continue
			}
			xs := f.extraSigs()
			tab := c02Table(append(append([]string{}, xs...), tabs[k]...))
			reqs = append(reqs, "(infer "+p.fnSexp(fi, mask, false)+" "+tab+")")
			reqs = append(reqs, "(infertype "+p.fnSexp(fi, mask, false)+" "+tab+")")
			// the same constraints solved by the transcription of fc's own resolver (Core/Resolver.v),
			// dict.Keys order = insertion order for odd masks, reversed for even ones
			rq := "inferres"
			if mask%2 == 0 {
				rq = "inferres-rev"
			}
			reqs = append(reqs, "("+rq+" "+p.fnSexp(fi, mask, false)+" "+tab+")")
			if field {
				bs := map[string]string{}
				f.Body.blindSigs(bs)
				var extra []string
				for _, n := range SortedKeys(bs) {
					extra = append(extra, bs[n])
				}
				reqs = append(reqs, "(infer "+p.fnSexp(fi, mask, true)+" "+c02Table(append(append(extra, xs...), tabs[k]...))+")")
			}
			owner = append(owner, k)
		}
		ans := c02AskMany(or, reqs)
		per := 3
		if field {
			per = 4
		}
		for n, k := range owner {
			a := ans[n*per]
			if strings.HasPrefix(a, "AMBIG ") {
				a = strings.TrimPrefix(a, "AMBIG ")
				res[k].inDomain = false
			}
			if strings.HasPrefix(a, "OPENGN ") {
				a = strings.TrimPrefix(a, "OPENGN ")
				res[k].openGN = true
			}
			res[k].sigs = append(res[k].sigs, a)
			if a == "ILLTYPED" {
				res[k].inDomain = false
				dead[k] = true
				continue
			}
			// the field-blind run must give the same signature and must not leave a type undetermined that
			// the field name alone would fix (e.g. (fun r -> r.RX) passed for an unused generic argument)
			if ra := ans[n*per+2]; ra != a && a != "ILLTYPED" {
				res[k].resolverDiffers = fmt.Sprintf("%s: reference `%s`, resolver model `%s`", f.Name, a, ra)
			}
			if field && (c02StripFlags(ans[n*per+3]) != a || strings.HasPrefix(ans[n*per+3], "AMBIG ") != strings.HasPrefix(ans[n*per], "AMBIG ")) {
				res[k].inDomain = false
			}
			sg := c02SigOfAnswer(f.Name, ans[n*per+1])
			res[k].user = append(res[k].user, sg)
			tabs[k] = append(tabs[k], sg.forCallers().sexp())
		}
	}
	return res
}

func c02Model(or *Oracle, p *c02Prog, mask uint) c02ModelRes {
	return c02ModelMany(or, p, []uint{mask})[0]
}

// a function signature that mentions one generic union at two different type arguments: the pinned fc
// instantiates only the first of them when the function is referenced (revisit guard keyed by the
// union's name in transTVFType): reported finding, hazard stream only
func c02TwoUnionInst(sigs []*c02Sig) bool {
	for _, sg := range sigs {
		seen := map[string]string{}
		two := false
		var walk func(t *c02Ty)
		walk = func(t *c02Ty) {
			if t.K == "named" && len(t.Args) > 0 && !c02DeclOf(t.Name).Record {
				if k, ok := seen[t.Name]; ok && k != t.key() {
					two = true
				}
				seen[t.Name] = t.key()
			}
			for _, a := range t.Args {
				walk(a)
			}
		}
		for _, a := range sg.Args {
			walk(a)
		}
		walk(sg.Res)
		if two {
			return true
		}
	}
	return false
}

var c02LeakRe = regexp.MustCompile(`\b_T\d+\b`)

// several transpile requests pipelined to one in-process fc; falls back to single calls when the
// server dies on one of them
func c02TranspileMany(s *FcSrv, foi string, srcs []string) []srvResp {
	t1 := time.Now()
	defer func() { atomic.AddInt64(&c02TFc, int64(time.Since(t1))) }()
	out := make([]srvResp, len(srcs))
	s.mu.Lock()
	var lines [][]byte
	for _, src := range srcs {
		fs := []map[string]string{
			{"name": "c02.foi", "src_hex": hex.EncodeToString([]byte(foi))},
			{"name": "m.fo", "src_hex": hex.EncodeToString([]byte(src))}}
		b, _ := json.Marshal(map[string]any{"op": "transpile", "files": fs})
		lines = append(lines, append(b, '\n'))
	}
	in := s.in
	go func() {
		for _, l := range lines {
			if _, err := in.Write(l); err != nil {
				return
			}
		}
	}()
	got := 0
	failed := false
	for ; got < len(srcs); got++ {
		type rd struct {
			line string
			err  error
		}
		ch := make(chan rd, 1)
		go func() {
			line, err := s.out.ReadString('\n')
			ch <- rd{line, err}
		}()
		var r rd
		select {
		case r = <-ch:
		case <-time.After(30 * time.Second):
			s.cmd.Process.Kill()
			r = <-ch
			r.err = fmt.Errorf("timeout")
		}
		if r.err != nil {
			failed = true
			break
		}
		var resp srvResp
		if err := json.Unmarshal([]byte(r.line), &resp); err != nil {
			panic("bad server response: " + r.line)
		}
		for k, v := range resp.Outs {
			d, _ := hex.DecodeString(v)
			resp.Outs[k] = string(d)
		}
		out[got] = resp
	}
	if failed {
		s.cmd.Process.Kill()
		s.cmd.Wait()
		s.start()
	}
	s.mu.Unlock()
	for ; got < len(srcs); got++ {
		out[got] = s.Transpile(SrcFile{"c02.foi", foi}, SrcFile{"m.fo", srcs[got]})
	}
	return out
}

type c02Viol struct {
	kind, summary string
	extra         map[string]any
}

type c02Checked struct {
	viols    []c02Viol // property failures found on this program (main stream: reported after shrinking)
	prog     *c02Prog
	fullGen  string   // gen_m.go of the fully annotated variant (in-process fc)
	fullSigs []string // oracle signatures of the fully annotated variant
	ok       bool     // no violation; goes into a build batch
}

func c02ReplayOf(p *c02Prog, extra map[string]any) map[string]any {
	m := map[string]any{"program": p, "source_fully_annotated": p.source(0)}
	for k, v := range extra {
		m[k] = v
	}
	return m
}

// checks (i) and (ii) on one program; all variants through the in-process fc
// quiet: no coverage counters (used while shrinking)
func c02CheckProgram(c0 *Ctx, p *c02Prog, or *Oracle, srv *FcSrv, hazard bool, quiet bool) *c02Checked {
	c := c0
	if quiet {
		c = &Ctx{Res: NewResult(), Verif: c0.Verif, ID: c0.ID}
	}
	res := &c02Checked{prog: p}
	fullM := c02Model(or, p, 0)
	full := fullM.sigs
	res.fullSigs = full
	if !fullM.inDomain || (fullM.openGN || c02TwoUnionInst(fullM.user)) && !hazard {
		// not a program of the main stream's domain (caller regenerates): there every generic
		// record/union is at ground type arguments
		return nil
	}
	nvar := uint(1) << uint(len(p.Sites))
	// known: the failure is of the known-finding class (hazard templates only): fc's output leaks an
	// internal type variable _Tn inside the type arguments of a generic record/union
	viol := func(name, summary string, extra map[string]any, known bool) {
		if known {
			c.Count(p.Stream + "_mismatch=" + name)
			if p.Stream == "hazard-union2" {
				c.Known("generic-union-two-instantiations")
			} else {
				c.Known("generic-named-args-not-unified")
			}
			c02HazardNote(c, p, summary, extra)
			return
		}
		res.viols = append(res.viols, c02Viol{name, summary, extra})
	}
	bad := false
	var masks []uint
	for mask := uint(1); mask < nvar; mask++ {
		masks = append(masks, mask)
	}
	models := append([]c02ModelRes{fullM}, c02ModelMany(or, p, masks)...)
	var vmasks []uint
	var srcs []string
	for mask := uint(0); mask < nvar; mask++ {
		if false && p.deferredFieldPairs(mask) && !hazard { // repaired in /repo 2feb94d: such variants are compared like any other
			// two field accesses whose record type fc does not know at parse time in one function: compositeTp's
			// FFieldAccess/FFieldAccess case unifies the RECORD types of the two accesses (reported finding;
			// deferred field access is not modelled)
			c.Count("variant_outside_domain")
			c.Count("variant_with_two_deferred_field_accesses_skipped")
			continue
		}
		if !models[mask].inDomain || (models[mask].openGN || c02TwoUnionInst(models[mask].user)) && !hazard {
			c.Count("variant_outside_domain")
			continue
		}
		c.Count("resolver_model_vs_reference_compared")
		if d := models[mask].resolverDiffers; d != "" && !quiet {
			// Props/C02.v C02_resolver_agrees_with_unify says this cannot happen on well-typed functions
			c.Violate("corr-resolver", "the transcription of fc's resolver (Core/Resolver.v) and the reference unification disagree: "+d,
				c02ReplayOf(p, map[string]any{"broken": "correspondence Core/Resolver.v vs Core/Unify.v (theorem C02_resolver_agrees_with_unify)", "variant_mask": mask}), true)
		}
		vmasks = append(vmasks, mask)
		srcs = append(srcs, p.source(mask))
	}
	resps := c02TranspileMany(srv, c02Foi(), srcs)
	for vi, mask := range vmasks {
		sigs := models[mask].sigs
		src := srcs[vi]
		r := resps[vi]
		redundant := true
		for i := range sigs {
			if sigs[i] != full[i] {
				redundant = false
			}
		}
		c.Count("variants")
		if redundant && mask != 0 {
			c.Count("variants_redundant_erasure")
		}
		if !r.Ok || r.Outs["gen_m.go"] == "" {
			bad = true
			viol("reject", "fc rejects (or dies on) a well-typed function of the inference fragment: "+firstLine(r.Err),
				map[string]any{"variant_mask": mask, "source": src, "fc_error": r.Err, "expected_signatures": sigs}, false)
			continue
		}
		gen := r.Outs["gen_m.go"]
		if mask == 0 {
			res.fullGen = gen
		}
		known := hazard && (c02LeakRe.MatchString(gen) || p.Stream == "hazard-union2")
		got, err := c02GoSigs(gen)
		if err != nil {
			bad = true
			viol("syntax", "emitted Go does not parse: "+err.Error(), map[string]any{"variant_mask": mask, "source": src, "gen": gen}, known)
			continue
		}
		for fi, f := range p.Funcs {
			c.Compared(1)
			want := c02NormSig(sigs[fi])
			if c02RawSig(gen, f.Name) == sigs[fi] {
				c.Count("raw_text_identical")
			} else {
				c.Count("raw_text_differs_only_in_layout_or_more")
			}
			if got[f.Name] != want {
				if !hazard {
					c.Disagree()
				}
				bad = true
				viol("sig", fmt.Sprintf("emitted signature is not the principal type: fc `%s`, principal `%s`", got[f.Name], want),
					map[string]any{"variant_mask": mask, "function": f.Name, "source": src, "emitted": got[f.Name], "expected": want}, known)
			}
			if f.Expect != "" {
				onlyRed := true
				for j, s := range p.Sites {
					if mask&(1<<uint(j)) != 0 && !p.Funcs[s[0]].Params[s[1]].Red {
						onlyRed = false
					}
				}
				if onlyRed {
					c.Count("by_construction_checked")
					if got[f.Name] != f.Expect {
						bad = true
						viol("sig-constr", fmt.Sprintf("emitted signature differs from the principal type known by construction: fc `%s`, expected `%s`", got[f.Name], f.Expect),
							map[string]any{"variant_mask": mask, "function": f.Name, "source": src, "emitted": got[f.Name], "expected": f.Expect}, known)
					}
					if want != f.Expect && !hazard {
						// the reference inference itself disagrees with the construction: the model or the generator is wrong
						c.Violate("corr", "reference inference (Core/Infer.v) disagrees with the by-construction principal type: model `"+want+"`, construction `"+f.Expect+"`",
							c02ReplayOf(p, map[string]any{"broken": "correspondence C02 infer_fun vs shape generator", "variant_mask": mask, "source": src}), true)
					}
				}
			}
		}
		if redundant && mask != 0 && res.fullGen != "" && gen != res.fullGen {
			bad = true
			viol("erase", "erasing annotations that the body already determines changes the emitted code",
				map[string]any{"variant_mask": mask, "source_a": p.source(0), "source_b": src, "gen_a": res.fullGen, "gen_b": gen}, known)
		}
	}
	res.ok = !bad && res.fullGen != ""
	return res
}

var c02HazardNoted sync.Map

// one example per hazard class and kind goes into the evidence notes
func c02HazardNote(c *Ctx, p *c02Prog, summary string, extra map[string]any) {
	key := p.Stream + "|" + strings.SplitN(summary, ":", 2)[0]
	if _, dup := c02HazardNoted.LoadOrStore(key, true); dup {
		return
	}
	c.Note("hazard stream (%s), not counted as violation: %s; source: %s", p.Stream, summary, p.funcsText(0))
}

// shrink a failing program: keep one function and what it (transitively) references, as long as a
// failure of the same kind remains; then drop annotations that are not needed for the failure
func c02Shrink(c *Ctx, p *c02Prog, res *c02Checked, or *Oracle, srv *FcSrv) (*c02Prog, *c02Checked) {
	kind := res.viols[0].kind
	same := func(r *c02Checked) bool {
		if r == nil {
			return false
		}
		for _, v := range r.viols {
			if v.kind == kind {
				return true
			}
		}
		return false
	}
	best, bres := p, res
	for fi := range p.Funcs {
		need := map[int]bool{fi: true}
		for changed := true; changed; {
			changed = false
			for fj := range p.Funcs {
				if !need[fj] {
					continue
				}
				m := map[string]int{}
				p.Funcs[fj].Body.count(m)
				for fk := range p.Funcs {
					if !need[fk] && m["global="+p.Funcs[fk].Name] > 0 {
						need[fk] = true
						changed = true
					}
				}
			}
		}
		if len(need) >= len(best.Funcs) {
			continue
		}
		q := &c02Prog{ID: p.ID, Stream: p.Stream, Pre: p.Pre}
		for fj, f := range p.Funcs {
			if need[fj] {
				q.Funcs = append(q.Funcs, f)
			}
		}
		q.initSites(NewRng(1))
		if r := c02CheckProgram(c, q, or, srv, false, true); same(r) {
			best, bres = q, r
		}
	}
	// annotations: erase for good those whose erasure keeps the failure
	for fi := range best.Funcs {
		for pi := range best.Funcs[fi].Params {
			if !best.Funcs[fi].Params[pi].Ann {
				continue
			}
			q := &c02Prog{ID: best.ID, Stream: best.Stream, Pre: best.Pre}
			for fj, f := range best.Funcs {
				g := *f
				g.Params = append([]c02Param{}, f.Params...)
				if fj == fi {
					g.Params[pi].Ann = false
					g.Expect = ""
				}
				q.Funcs = append(q.Funcs, &g)
			}
			q.initSites(NewRng(1))
			if r := c02CheckProgram(c, q, or, srv, false, true); same(r) {
				best, bres = q, r
			}
		}
	}
	return best, bres
}

// does a function of this variant contain two field accesses on variables whose type fc cannot know at parse
// time (parameters without annotation in this variant, lambda parameters)?
func (p *c02Prog) deferredFieldPairs(mask uint) bool {
	for fi, f := range p.Funcs {
		unk := map[string]bool{}
		for pi, pa := range f.Params {
			if !(pa.Ann && !p.erased(mask, fi, pi)) {
				unk[pa.Name] = true
			}
		}
		n := 0
		var walk func(e *c02Exp)
		walk = func(e *c02Exp) {
			if e.K == "lam" {
				for _, x := range e.Xs {
					unk[x] = true
				}
			}
			if e.K == "field" && e.Args[0].K == "var" && unk[e.Args[0].Name] {
				n++
			}
			for _, a := range e.Args {
				walk(a)
			}
		}
		walk(f.Body)
		if n >= 2 {
			return true
		}
	}
	return false
}

func c02Features(c *Ctx, p *c02Prog) {
	m := map[string]int{}
	nodes := 0
	for _, f := range p.Funcs {
		f.Body.count(m)
		nodes += f.Body.nodes()
		for k, v := range f.Feats {
			if v > 0 {
				c.CountN("feature="+k, v)
			}
		}
		c.Count(fmt.Sprintf("params=%d", len(f.Params)))
		for _, pa := range f.Params {
			if pa.Ann {
				c.Count("param_annotated")
			} else {
				c.Count("param_unannotated")
			}
			if pa.Ty != nil && pa.Ty.K == "fun" {
				c.Count("param_function_typed")
			}
		}
	}
	for k, v := range m {
		c.CountN("feature="+k, v)
	}
	c.Count(fmt.Sprintf("sites=%d", len(p.Sites)))
	c.Count(fmt.Sprintf("funcs=%d", len(p.Funcs)))
	switch {
	case nodes < 10:
		c.Count("size<10")
	case nodes < 25:
		c.Count("size<25")
	case nodes < 60:
		c.Count("size<60")
	default:
		c.Count("size>=60")
	}
	for _, s := range c02UserCalls(p) {
		c.Count(s)
	}
}

// how often earlier user functions are used, and at how many places in one body
func c02UserCalls(p *c02Prog) []string {
	var out []string
	for fi, f := range p.Funcs {
		m := map[string]int{}
		f.Body.count(m)
		for fj := 0; fj < fi; fj++ {
			if n := m["global="+p.Funcs[fj].Name]; n >= 2 {
				out = append(out, "user_function_used_twice_in_one_body")
			} else if n == 1 {
				out = append(out, "user_function_used_once")
			}
		}
		for _, h := range []string{"idf", "dup", "swp", "ap1"} {
			if m["global="+h] >= 2 {
				out = append(out, "helper_generic_used_twice_in_one_body")
			}
		}
	}
	return out
}

// one random program of the rand / hazard stream; user functions get their principal signature from
// the oracle so that later functions can use them
func c02GenRandProg(c *Ctx, rng *Rng, or *Oracle, id int, hazardKind string) *c02Prog {
	hazard := hazardKind != ""
	for attempt := 0; attempt < 50; attempt++ {
		p := &c02Prog{ID: id, Stream: "rand"}
		if hazard {
			p.Stream = "hazard-" + hazardKind
		}
		nf := 1 + rng.Intn(3)
		sigs := append([]*c02Sig{}, c02Lib...)
		okProg := true
		for fi := 0; fi < nf; fi++ {
			var f *c02Func
			for try := 0; try < 30 && f == nil; try++ {
				f = c02RandFunc(rng, fmt.Sprintf("p%df%d", id, fi), sigs, hazardKind)
				if f != nil && f.Body.nodes() < 3 && rng.Chance(4, 5) {
					f = nil
				}
			}
			if f == nil {
				okProg = false
				break
			}
			p.Funcs = append(p.Funcs, f)
			p.Sites = nil
			fm := c02Model(or, p, 0)
			full, user, inDom := fm.sigs, fm.user, fm.inDomain
			if inDom && (fm.openGN || c02TwoUnionInst(fm.user)) && !hazard {
				// a type variable inside the type arguments of a generic record/union: hazard stream only
				c.Count("regenerated_open_generic_named")
				inDom = false
			}
			if !inDom {
				if full[len(full)-1] == "ILLTYPED" && !hazard {
					// the generator builds well-typed functions by construction
					panic("generator produced a function the reference inference rejects:\n" + p.source(0))
				}
				c.Count("regenerated_undetermined_type_in_body")
				p.Funcs = p.Funcs[:len(p.Funcs)-1]
				fi--
				if rng.Chance(1, 5) {
					okProg = false
					break
				}
				continue
			}
			// Go cannot infer a type parameter that no argument mentions; such functions are not called
			sg := user[len(user)-1]
			callable := true
			seen := map[int]bool{}
			var order []int
			for _, a := range sg.Args {
				a.firstOcc(&order, seen)
			}
			if len(order) < sg.K {
				callable = false
			}
			if callable {
				sigs = append(sigs, sg)
			}
		}
		if !okProg || len(p.Funcs) == 0 {
			continue
		}
		p.initSites(rng)
		return p
	}
	panic("cannot generate a program")
}

// the shapes of the known finding generic-named-args-not-unified that are left after the partial fix:
// the two branches of an if build the same generic union/record from a value of undetermined type
func c02HazardTemplate(rng *Rng, id int) *c02Prog {
	name := fmt.Sprintf("p%df0", id)
	som := &c02Exp{K: "ctor", Name: "Opt", Name2: "Som", Args: []*c02Exp{c02V("y")}}
	non := &c02Exp{K: "ctor", Name: "Opt", Name2: "Non"}
	a, b := som, non
	if rng.Bool() {
		a, b = non, som
	}
	cond := c02Op("cmp", "<", c02V("x"), c02I(1+rng.Intn(9)))
	body := &c02Exp{K: "if", Block: rng.Bool(), Args: []*c02Exp{cond, a, b}}
	f := &c02Func{Name: name, Params: []c02Param{{Name: "x", Ty: c02Int, Ann: rng.Bool()}, {Name: "y", Ty: c02Var(0)}}, Body: body}
	if rng.Bool() {
		// both branches build the same generic record at ground type arguments
		mk := func(k int) *c02Exp {
			return &c02Exp{K: "record", Name: "Two", Args: []*c02Exp{c02Op("arith", "+", c02V("x"), c02I(k)), c02S_("s")}}
		}
		f = &c02Func{Name: name, Params: []c02Param{{Name: "x", Ty: c02Int, Ann: rng.Bool()}},
			Body: &c02Exp{K: "if", Block: rng.Bool(), Args: []*c02Exp{cond, mk(1), mk(2)}}}
	}
	p := &c02Prog{ID: id, Stream: "hazard-generic", Funcs: []*c02Func{f}}
	p.initSites(rng)
	return p
}

func c02GenShapeProg(rng *Rng, id int, big bool) *c02Prog {
	for {
		f := c02ShapeFunc(rng, fmt.Sprintf("p%df0", id), big)
		if f == nil {
			continue
		}
		p := &c02Prog{ID: id, Stream: "shape", Funcs: []*c02Func{f}, Pre: c02ShapeHelpers}
		p.initSites(rng)
		return p
	}
}

var c02GoErrRe = regexp.MustCompile(`(?m)^\./gen_m\.go:(\d+):\d+: (.*)$`)

// (iii) batches of fully annotated programs: real fc process, go build, go vet; the signatures the real
// process emits are compared with the oracle's again
func c02Batch(c *Ctx, bi int, items []*c02Checked) {
	dir := filepath.Join(c.Work, fmt.Sprintf("c02batch%d", bi))
	os.MkdirAll(dir, 0o755)
	if os.Getenv("C02_KEEP") == "" {
		defer os.RemoveAll(dir)
	}
	var src strings.Builder
	src.WriteString(c02Header)
	src.WriteString(c02Prelude())
	src.WriteString(c02ShapeHelpers)
	src.WriteString("let zzKeep (xs: []int) =\n  frt.Fst (slice.Length xs, 1)\n\n")
	for _, it := range items {
		for fi := range it.prog.Funcs {
			src.WriteString(it.prog.funcSource(fi, 0))
		}
	}
	MustWrite(filepath.Join(dir, "m.fo"), src.String())
	MustWrite(filepath.Join(dir, "main.go"), "package main\n\nfunc main() {}\n")
	r := Run(dir, 300*time.Second, 4096, []string{"GOMAXPROCS=2"}, filepath.Join(c.Bin, "fc"), c.PkgAllFoi(), "m.fo")
	c.Count("real_fc_process_runs")
	genb, _ := os.ReadFile(filepath.Join(dir, "gen_m.go"))
	gen := string(genb)
	if r.Exit != 0 || gen == "" {
		c.Violate("batch", fmt.Sprintf("functions accepted one by one are rejected by the fc process when put into one file (exit %d, timeout %v): %s", r.Exit, r.TimedOut, firstLine(r.Stdout)),
			map[string]any{"source": src.String(), "fc_output": r.Stdout + r.Stderr}, false)
		return
	}
	got, err := c02GoSigs(gen)
	if err != nil {
		c.Violate("syntax", "emitted Go does not parse: "+err.Error(), map[string]any{"source": src.String()}, false)
		return
	}
	for _, it := range items {
		for fi, f := range it.prog.Funcs {
			c.Compared(1)
			c.Count("real_process_signatures_compared")
			if want := c02NormSig(it.fullSigs[fi]); got[f.Name] != want {
				c.Disagree()
				c.Violate("sig-proc", fmt.Sprintf("fc process emits `%s`, principal type `%s`", got[f.Name], want),
					c02ReplayOf(it.prog, map[string]any{"emitted": got[f.Name], "expected": want}), false)
			}
		}
	}
	c.GoModFor(dir, "c02batch")
	var vout string
	var vok bool
	vdone := make(chan bool, 1)
	go func() { vout, vok = c.GoVet(dir); vdone <- true }()
	defer func() { <-vdone }()
	out, ok := c.GoBuild(dir)
	c.Count("go_build_batches")
	c.CountN("functions_type_checked_by_go", len(got))
	if !ok {
		// attribute the first errors to functions
		lines := strings.Split(gen, "\n")
		reported := map[string]bool{}
		for _, m := range c02GoErrRe.FindAllStringSubmatch(out, -1) {
			var ln int
			fmt.Sscanf(m[1], "%d", &ln)
			fn := ""
			for i := ln - 1; i >= 0 && i < len(lines); i-- {
				if strings.HasPrefix(lines[i], "func ") {
					fn = strings.FieldsFunc(lines[i][5:], func(r rune) bool { return r == '(' || r == '[' })[0]
					break
				}
			}
			if reported[fn] {
				continue
			}
			reported[fn] = true
			var prog *c02Prog
			for _, it := range items {
				for _, f := range it.prog.Funcs {
					if f.Name == fn {
						prog = it.prog
					}
				}
			}
			if prog == nil {
				c.Violate("build", "emitted package does not type-check: "+m[0], map[string]any{"go_build": out, "function": fn}, false)
			} else {
				c.Violate("build", "emitted package does not type-check: "+m[2],
					c02ReplayOf(prog, map[string]any{"function": fn, "go_error": m[0], "emitted": c02RawSig(gen, fn)}), false)
			}
		}
		if len(reported) == 0 {
			c.Violate("build", "emitted package does not build: "+firstLine(out), map[string]any{"go_build": out, "source": src.String()}, false)
		}
		return
	}
	<-vdone
	vdone <- true
	if !vok {
		if strings.Contains(vout, "vet:") || c02GoErrRe.MatchString(vout) && strings.Contains(vout, "cannot") {
			c.Violate("vet", "go vet fails to type-check the emitted package: "+firstLine(vout), map[string]any{"go_vet": vout, "source": src.String()}, false)
		} else {
			c.Count("go_vet_style_diagnostics_batches")
			c.Note("go vet diagnostics (not type errors) in batch %d: %s", bi, firstLine(vout))
		}
	} else {
		c.Count("go_vet_clean_batches")
	}
}

func runC02(c *Ctx) {
	rng := NewRng(c.Seed)
	c.Res.Rule = "programs = 1..3 generated functions over a fixed prelude of records/unions; rand stream: type-directed against an intended " +
		"signature with rigid type variables (lambda parameters may shadow outer names, parameters may be compared with each other before " +
		"the use that fixes their type); shape stream: value-flow graphs (chains, stars, tuples/slices in function types, helper generics " +
		"at several instantiations) and three families (one generic record/union at two type arguments + a caller; comparisons between " +
		"parameters before the determining use; shadowing lambda parameters) with the principal type known by construction; every subset of <= 6 annotations erased; " +
		"non-trivial = at least one unannotated parameter or a generic result; distinct by source text of the fully annotated program"
	c02CheckFoi(c)
	nRand := c.Pick(110, 6000)
	nShape := c.Pick(45, 2800)
	nFam := c.Pick(10, 500) // per family (twobox, clamp, shadow, anyarg, retann, pipe, match)
	nHazard := c.Pick(4, 40)
	c02MaxSites = c.Pick(4, 6) // quick: <= 2^4 variants per program, thorough: <= 2^6
	var progs []*c02Prog
	if c.Replay != "" {
		progs = c02LoadReplay(c.Replay)
		nRand, nShape, nHazard, nFam = 0, 0, 0, 0
	}
	workers := 8
	ors := c02NewOraclePool(c, workers)
	defer ors.Close()
	pool := c.NewFcPool(workers)
	defer pool.Close()

	// generation (sequential streams forked per program so that runs are reproducible)
	type job struct {
		kind string
		rng  *Rng
		id   int
	}
	var jobs []job
	for i := 0; i < nRand; i++ {
		jobs = append(jobs, job{"rand", rng.Fork(), len(jobs)})
	}
	for i := 0; i < nShape; i++ {
		jobs = append(jobs, job{"shape", rng.Fork(), len(jobs)})
	}
	for i := 0; i < nHazard; i++ {
		jobs = append(jobs, job{"hazard", rng.Fork(), len(jobs)})
	}
	for i := 0; i < 7*nFam; i++ {
		jobs = append(jobs, job{[]string{"twobox", "clamp", "shadow", "anyarg", "retann", "pipe", "match"}[i%7], rng.Fork(), len(jobs)})
	}
	if c.Replay == "" {
		progs = make([]*c02Prog, len(jobs))
	}
	checked := make([]*c02Checked, len(progs))
	var mu sync.Mutex
	run := func(i int) {
		or := ors.Get()
		defer ors.Put(or)
		srv := pool.Get()
		defer pool.Put(srv)
		var p *c02Prog
		if c.Replay != "" {
			p = progs[i]
		}
		for tries := 0; ; tries++ {
			if c.Replay == "" {
				j := jobs[i]
				switch j.kind {
				case "rand":
					p = c02GenRandProg(c, j.rng, or, j.id, "")
				case "hazard":
					if j.id%2 == 0 {
						p = c02HazardTemplate(j.rng, j.id)
					} else {
						p = c02FamTwoBox(j.rng, j.id, true)
						p.initSites(j.rng)
					}
				case "twobox":
					p = c02FamTwoBox(j.rng, j.id, false)
					p.initSites(j.rng)
				case "clamp":
					p = c02FamClamp(j.rng, j.id)
					p.initSites(j.rng)
				case "shadow":
					p = c02FamShadow(j.rng, j.id)
					p.initSites(j.rng)
				case "anyarg":
					p = c02FamAnyArg(j.rng, j.id)
					p.initSites(j.rng)
				case "retann":
					p = c02FamRetAnn(j.rng, j.id)
					p.initSites(j.rng)
				case "pipe":
					p = c02FamPipe(j.rng, j.id)
					p.initSites(j.rng)
				case "match":
					p = c02FamMatch(j.rng, j.id)
					p.initSites(j.rng)
				default:
					p = c02GenShapeProg(j.rng, j.id, c.Thorough())
				}
			}
			res := c02CheckProgram(c, p, or, srv, strings.HasPrefix(p.Stream, "hazard"), false)
			if res == nil {
				if c.Replay != "" || tries > 20 {
					panic("program is outside the domain (a record type determined only by a field name):\n" + p.source(0))
				}
				c.Count("regenerated_outside_domain")
				continue
			}
			if len(res.viols) > 0 {
				small, sres := c02Shrink(c, p, res, or, srv)
				for _, v := range sres.viols {
					c.Violate(v.kind, v.summary, c02ReplayOf(small, v.extra), false)
				}
			}
			mu.Lock()
			progs[i] = p
			checked[i] = res
			mu.Unlock()
			return
		}
	}
	// programs are checked in chunks; the build batch of a chunk runs while the next chunk is checked
	bsize := c.Pick(80, 400)
	var bwg sync.WaitGroup
	nb := 0
	for start := 0; start < len(progs); start += bsize {
		end := start + bsize
		if end > len(progs) {
			end = len(progs)
		}
		Parallel(end-start, func(k int) { run(start + k) })
		var good []*c02Checked
		for _, it := range checked[start:end] {
			if it != nil && it.ok && !strings.HasPrefix(it.prog.Stream, "hazard") {
				good = append(good, it)
			}
		}
		if len(good) > 0 {
			bwg.Add(1)
			go func(bi int, items []*c02Checked) {
				defer bwg.Done()
				defer func() {
					if r := recover(); r != nil {
						c.Violate("harness", fmt.Sprint("batch panic: ", r), map[string]any{"broken": "harness"}, true)
					}
				}()
				c02Batch(c, bi, items)
			}(nb, good)
			nb++
		}
	}
	c.Lap("variants")
	c.Res.Extra["cpu_seconds_model_requests"] = float64(c02TModel) / 1e9
	c.Res.Extra["cpu_seconds_fc_in_process"] = float64(c02TFc) / 1e9
	if c.Replay == "" {
		c02ResolverLoopCorrespondence(c, rng.Fork(), ors, pool)
		c.Lap("resolver-loop")
	}
	for i, p := range progs {
		nontrivial := false
		for _, f := range p.Funcs {
			for _, pa := range f.Params {
				if !pa.Ann {
					nontrivial = true
				}
			}
		}
		c.Eval(p.Stream+"|"+p.funcsText(0), nontrivial)
		c.Count("stream=" + p.Stream)
		c02Features(c, p)
		if i%97 == 3 {
			c.Sample(map[string]any{"stream": p.Stream, "source": p.funcsText(0), "principal": checked[i].fullSigs})
		}
	}
	// a sample of single programs as real fc processes: the in-process server must agree byte for byte
	nproc := c.Pick(16, 150)
	idx := rng.Perm(len(progs))
	if nproc > len(idx) {
		nproc = len(idx)
	}
	Parallel(nproc, func(k int) {
		it := checked[idx[k]]
		if it == nil || it.fullGen == "" {
			return
		}
		dir := filepath.Join(c.Work, fmt.Sprintf("c02p%d", k))
		os.MkdirAll(dir, 0o755)
		defer os.RemoveAll(dir)
		mask := uint(0)
		MustWrite(filepath.Join(dir, "m.fo"), it.prog.source(mask))
		MustWrite(filepath.Join(dir, "c02.foi"), c02Foi())
		r := Run(dir, 180*time.Second, 4096, []string{"GOMAXPROCS=2"}, filepath.Join(c.Bin, "fc"), "c02.foi", "m.fo")
		c.Count("real_fc_process_runs")
		if r.TimedOut {
			// machine load, not a property of the output (termination is C16's business)
			c.Count("real_fc_process_timeouts")
			c.Note("fc process did not finish within 180 s on program %d (not compared)", it.prog.ID)
			return
		}
		b, _ := os.ReadFile(filepath.Join(dir, "gen_m.go"))
		if r.Exit != 0 || string(b) != it.fullGen {
			c.Violate("hook", "hooked in-process fc and the fc process disagree on the emitted file",
				c02ReplayOf(it.prog, map[string]any{"broken": "correspondence fcsrv hook vs fc process", "process_output": r.Stdout, "process_gen": string(b), "server_gen": it.fullGen}), true)
		}
	})
	c.Lap("processes")
	bwg.Wait()
	c.Lap("batches")
}

func c02LoadReplay(path string) []*c02Prog {
	var doc struct {
		Replay struct {
			Program *c02Prog `json:"program"`
		} `json:"replay"`
	}
	b, err := os.ReadFile(path)
	if err != nil {
		panic(err)
	}
	if err := jsonUnmarshal(b, &doc); err != nil || doc.Replay.Program == nil {
		panic("replay file has no program")
	}
	p := doc.Replay.Program
	if p.Sites == nil {
		p.initSites(NewRng(1))
	}
	return []*c02Prog{p}
}

func init() { Register("C02", runC02) }
