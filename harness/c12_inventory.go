package main

// C12/C13: the function list of pkg/slice in the scratch tree must be exactly the list the Coq model
// transcribes (Pkg/SliceHeap.v); a new or removed function means the theorems no longer cover the package.

import (
	"fmt"
	"go/ast"
	"go/parser"
	"go/token"
	"os"
	"path/filepath"
	"regexp"
	"sort"
	"strings"
)

var sliceModelled = []string{"Length", "Len", "New", "Item", "IsEmpty", "IsNotEmpty", "Last", "Head", "Tail", "Take",
	"PopLast", "Skip", "Map", "Mapi", "Iter", "Filter", "Sort", "SortBy", "Zip", "Forall", "Forany", "PushLast",
	"PushHead", "Collect", "Concat", "Append", "Distinct", "TryFind", "Fold"}

func sliceInventory(c *Ctx) {
	dir := filepath.Join(c.Tree, "pkg", "slice")
	fset := token.NewFileSet()
	pkgs, err := parser.ParseDir(fset, dir, func(fi os.FileInfo) bool { return !strings.HasSuffix(fi.Name(), "_test.go") }, 0)
	if err != nil {
		panic(err)
	}
	have := map[string]bool{}
	for _, p := range pkgs {
		for _, f := range p.Files {
			for _, d := range f.Decls {
				if fd, ok := d.(*ast.FuncDecl); ok && fd.Recv == nil && fd.Name.IsExported() {
					have[fd.Name.Name] = true
				}
			}
		}
	}
	want := map[string]bool{}
	for _, n := range sliceModelled {
		want[n] = true
	}
	var diff []string
	for n := range have {
		if !want[n] {
			diff = append(diff, "+"+n+" (in slice.go, not modelled)")
		}
	}
	for n := range want {
		if !have[n] {
			diff = append(diff, "-"+n+" (modelled, not in slice.go)")
		}
	}
	// the signatures promised to Folang code
	foi, _ := os.ReadFile(filepath.Join(dir, "slice.foi"))
	for _, m := range regexp.MustCompile(`(?m)^\s*let\s+(\w+)`).FindAllStringSubmatch(string(foi), -1) {
		if !have[m[1]] {
			diff = append(diff, "slice.foi declares "+m[1]+" which slice.go does not define")
		}
		delete(want, m[1])
	}
	for n := range want {
		if have[n] {
			diff = append(diff, "slice.foi does not declare "+n)
		}
	}
	sort.Strings(diff)
	c.CountN("inventory_functions", len(have))
	if len(diff) > 0 {
		c.Violate("inventory", "the function list of pkg/slice differs from the list the model covers: "+strings.Join(diff, "; "),
			map[string]any{"broken": fmt.Sprintf("inventory of pkg/slice (%d exported functions) vs Pkg/SliceHeap.v (%d)", len(have), len(sliceModelled)), "diff": diff}, true)
	}
}
