package main

// C04: checked-in generated Go is a fixed point of the self-hosted compiler.
// Exhaustive over the finite quantifier: every Folang source with a checked-in generated counterpart
// (fc/*.fo per fc_all.sh, samples per filelist.txt, cmd/build_sample_md, samples/README.md) x
// generations 1 and 2 (3 in the thorough tier). The recipes are read from the repository's scripts.

import (
	"bytes"
	"fmt"
	"os"
	"path/filepath"
	"regexp"
	"sort"
	"strings"
	"time"
)

func c04CopyTree(src, dst string) {
	r := Run("", 120*time.Second, 0, nil, "rsync", "-a", "--exclude", ".git", src+"/", dst+"/")
	if r.Exit != 0 {
		panic("rsync failed: " + r.Stderr)
	}
}

var c04FcLine = regexp.MustCompile(`(?m)^\./fc\s+\$PKG_INFO\s+(.*)$`)

func c04Gofmt(dir string) string {
	files, _ := filepath.Glob(filepath.Join(dir, "gen_*.go"))
	if len(files) == 0 {
		return ""
	}
	r := Run(dir, 120*time.Second, 0, nil, "gofmt", append([]string{"-w"}, files...)...)
	if r.Exit != 0 {
		return r.Stdout + r.Stderr
	}
	return ""
}

type c04Diff struct {
	File   string `json:"file"`
	Gen    int    `json:"generation"`
	Detail string `json:"detail"`
}

func c04FirstDiff(a, b []byte) string {
	la, lb := strings.Split(string(a), "\n"), strings.Split(string(b), "\n")
	for i := 0; i < len(la) || i < len(lb); i++ {
		var x, y string
		if i < len(la) {
			x = la[i]
		}
		if i < len(lb) {
			y = lb[i]
		}
		if x != y {
			return fmt.Sprintf("line %d: checked-in %q vs regenerated %q", i+1, x, y)
		}
	}
	return "identical"
}

// regenerate everything in work copy w using compiler fc and (for README) tool bsm ("" = build it from w)
func c04Regenerate(c *Ctx, gen int, fc string, w string, ref string) (diffs []c04Diff, nfiles int) {
	fail := func(file, detail string) { diffs = append(diffs, c04Diff{file, gen, detail}) }
	cmp := func(rel string) {
		nfiles++
		a, e1 := os.ReadFile(filepath.Join(ref, rel))
		b, e2 := os.ReadFile(filepath.Join(w, rel))
		if e1 != nil || e2 != nil {
			fail(rel, fmt.Sprintf("missing: %v %v", e1, e2))
			return
		}
		if !bytes.Equal(a, b) {
			fail(rel, c04FirstDiff(a, b))
		}
		c.Eval(fmt.Sprintf("%d|%s", gen, rel), true)
	}
	// --- compiler sources, recipe from fc/fc_all.sh
	sh, _ := os.ReadFile(filepath.Join(w, "fc", "fc_all.sh"))
	m := c04FcLine.FindStringSubmatch(string(sh))
	if m == nil {
		panic("cannot read the regeneration recipe from fc/fc_all.sh")
	}
	srcs := strings.Fields(m[1])
	// remove the checked-in generated files first so that a file that is not regenerated is noticed
	old, _ := filepath.Glob(filepath.Join(w, "fc", "gen_*.go"))
	var oldNames []string
	for _, f := range old {
		oldNames = append(oldNames, filepath.Base(f))
		os.Remove(f)
	}
	r := Run(filepath.Join(w, "fc"), 300*time.Second, 8192, nil, fc, append([]string{"../pkg/pkg_all.foi"}, srcs...)...)
	if r.Exit != 0 || r.TimedOut {
		fail("fc/*.fo", "the compiler rejects its own sources: "+firstLine(r.Stdout+r.Stderr))
		return
	}
	if e := c04Gofmt(filepath.Join(w, "fc")); e != "" {
		fail("fc/gen_*.go", "gofmt: "+e)
	}
	sort.Strings(oldNames)
	for _, n := range oldNames {
		cmp(filepath.Join("fc", n))
	}
	now, _ := filepath.Glob(filepath.Join(w, "fc", "gen_*.go"))
	if len(now) != len(oldNames) {
		fail("fc/gen_*.go", fmt.Sprintf("%d generated files checked in, %d regenerated", len(oldNames), len(now)))
	}
	c.Count(fmt.Sprintf("gen%d_compiler_files", gen))
	// --- samples, list from samples/filelist.txt (recipe: myfc.sh = fc $PKG_INFO $1 ; go fmt)
	list, _ := os.ReadFile(filepath.Join(w, "samples", "filelist.txt"))
	var oldSN []string
	for _, line := range strings.Split(string(list), "\n") {
		f := strings.Fields(line)
		if len(f) == 0 {
			continue
		}
		gn := "gen_" + strings.TrimSuffix(f[0], ".fo") + ".go"
		oldSN = append(oldSN, gn)
		os.Remove(filepath.Join(w, "samples", gn))
		r := Run(filepath.Join(w, "samples"), 60*time.Second, 4096, nil, fc, "../pkg/pkg_all.foi", f[0])
		if r.Exit != 0 || r.TimedOut {
			fail("samples/"+f[0], "rejected: "+firstLine(r.Stdout+r.Stderr))
		}
	}
	if e := c04Gofmt(filepath.Join(w, "samples")); e != "" {
		fail("samples/gen_*.go", "gofmt: "+e)
	}
	for _, n := range oldSN {
		cmp(filepath.Join("samples", n))
	}
	// --- the tool
	td := filepath.Join(w, "cmd", "build_sample_md")
	os.Remove(filepath.Join(td, "gen_build_sample_md.go"))
	r = Run(td, 60*time.Second, 4096, nil, fc, "../../pkg/pkg_all.foi", "build_sample_md.fo")
	if r.Exit != 0 {
		fail("cmd/build_sample_md/build_sample_md.fo", "rejected: "+firstLine(r.Stdout+r.Stderr))
		return
	}
	c04Gofmt(td)
	cmp("cmd/build_sample_md/gen_build_sample_md.go")
	// --- README via the tool rebuilt from the regenerated source
	tool := filepath.Join(w, "bsm")
	rb := Run(td, 600*time.Second, 0, goEnv, "go", "build", "-o", tool, ".")
	if rb.Exit != 0 {
		fail("cmd/build_sample_md", "regenerated tool does not build: "+firstLine(rb.Stdout+rb.Stderr))
		return
	}
	os.Remove(filepath.Join(w, "samples", "README.md"))
	rr := Run(filepath.Join(w, "samples"), 60*time.Second, 0, nil, tool, "filelist.txt")
	if rr.Exit != 0 {
		fail("samples/README.md", "tool failed: "+firstLine(rr.Stdout+rr.Stderr))
		return
	}
	cmp("samples/README.md")
	return
}

func runC04(c *Ctx) {
	c.Res.Rule = "every checked-in generated file (fc/gen_*.go per fc/fc_all.sh, samples/gen_*.go per samples/filelist.txt, " +
		"cmd/build_sample_md/gen_build_sample_md.go, samples/README.md) x compiler generations; one evaluation = one byte comparison; all are non-trivial"
	c.Res.Exhaustive = true
	gens := c.Pick(2, 3)
	fc := filepath.Join(c.Bin, "fc")
	ref := c.Tree
	var sample []string
	for g := 1; g <= gens; g++ {
		w := filepath.Join(c.Work, fmt.Sprintf("gen%d", g))
		c04CopyTree(ref, w)
		diffs, n := c04Regenerate(c, g, fc, w, c.Tree)
		c.CountN(fmt.Sprintf("generation%d_files_compared", g), n)
		c.Compared(n)
		for _, d := range diffs {
			c.Disagree()
			c.Violate("regen", fmt.Sprintf("generation %d does not reproduce %s: %s", d.Gen, d.File, d.Detail),
				map[string]any{"file": d.File, "generation": d.Gen, "detail": d.Detail,
					"how": "build fc from the tree, run the recipe of fc/fc_all.sh / samples/myfc.sh / build_sample_md, gofmt, byte-compare"}, false)
		}
		if g == 1 {
			ents, _ := filepath.Glob(filepath.Join(w, "fc", "gen_*.go"))
			for _, e := range ents {
				sample = append(sample, "fc/"+filepath.Base(e))
			}
		}
		if len(diffs) > 0 {
			break
		}
		c.Lap(fmt.Sprintf("generation%d", g))
		if g < gens {
			// next-generation compiler: built from the regenerated sources
			next := filepath.Join(c.Work, fmt.Sprintf("fc_gen%d", g+1))
			rb := Run(filepath.Join(w, "fc"), 900*time.Second, 0, goEnv, "go", "build", "-o", next, ".")
			if rb.Exit != 0 {
				c.Violate("build", fmt.Sprintf("generation %d compiler does not build from regenerated sources", g+1), map[string]any{"output": rb.Stdout + rb.Stderr}, false)
				break
			}
			fc = next
			ref = w
			c.Lap(fmt.Sprintf("build_gen%d", g+1))
		}
	}
	c.Sample(map[string]any{"compared_byte_for_byte": sample})
	c.Sample("samples/README.md via rebuilt build_sample_md")
}

func init() { Register("C04", runC04) }
