package main

// MiniFo: the typed program AST of coq/Core/FORMAT.md (the contract between this generator and the
// Coq model). ToSexp prints exactly the FORMAT.md s-expression on one line; ParseProg reads it back
// (corpus, replays). Census/size helpers feed the evidence.

import (
	"fmt"
	"sort"
	"strconv"
	"strings"
)

// ---------------------------------------------------------------- types

type TKind int

const (
	TInt TKind = iota
	TString
	TBool
	TUnit
	TTuple
	TSlice
	TRec
	TUnion
	TFun
	TVar // only inside library signatures (progen_lib.go), never in programs
)

type Type struct {
	K     TKind
	Name  string  // TRec / TUnion / TVar
	Elems []*Type // TTuple: components; TSlice: [elem]; TFun: params..., result
}

var (
	tInt    = &Type{K: TInt}
	tString = &Type{K: TString}
	tBool   = &Type{K: TBool}
	tUnit   = &Type{K: TUnit}
)

func tTuple(ts ...*Type) *Type { return &Type{K: TTuple, Elems: ts} }
func tSlice(t *Type) *Type     { return &Type{K: TSlice, Elems: []*Type{t}} }
func tRec(n string) *Type      { return &Type{K: TRec, Name: n} }
func tUnion(n string) *Type    { return &Type{K: TUnion, Name: n} }
func tFun(params []*Type, ret *Type) *Type {
	return &Type{K: TFun, Elems: append(append([]*Type{}, params...), ret)}
}
func (t *Type) FunParams() []*Type { return t.Elems[:len(t.Elems)-1] }
func (t *Type) FunRet() *Type      { return t.Elems[len(t.Elems)-1] }
func (t *Type) Elem() *Type        { return t.Elems[0] }

func (t *Type) Equal(u *Type) bool {
	if t == nil || u == nil {
		return t == u
	}
	if t.K != u.K || t.Name != u.Name || len(t.Elems) != len(u.Elems) {
		return false
	}
	for i := range t.Elems {
		if !t.Elems[i].Equal(u.Elems[i]) {
			return false
		}
	}
	return true
}

// FirstOrder: no function type and no unit anywhere inside.
func (t *Type) FirstOrder() bool {
	switch t.K {
	case TFun, TUnit, TVar:
		return false
	}
	for _, e := range t.Elems {
		if !e.FirstOrder() {
			return false
		}
	}
	return true
}

func (t *Type) Sexp() string {
	switch t.K {
	case TInt:
		return "int"
	case TString:
		return "string"
	case TBool:
		return "bool"
	case TUnit:
		return "unit"
	case TTuple:
		xs := make([]string, len(t.Elems))
		for i, e := range t.Elems {
			xs[i] = e.Sexp()
		}
		return "(tuple " + strings.Join(xs, " ") + ")"
	case TSlice:
		return "(slice " + t.Elems[0].Sexp() + ")"
	case TRec:
		return "(rec " + t.Name + ")"
	case TUnion:
		return "(union " + t.Name + ")"
	case TFun:
		xs := make([]string, len(t.Elems)-1)
		for i, e := range t.FunParams() {
			xs[i] = e.Sexp()
		}
		return "(fun (" + strings.Join(xs, " ") + ") " + t.FunRet().Sexp() + ")"
	case TVar:
		return "'" + t.Name
	}
	return "?"
}

// ---------------------------------------------------------------- program

type DKind int

const (
	DRecord DKind = iota
	DUnion
	DFun
)

type Field struct {
	Name string
	T    *Type
}
type Case struct {
	Name string
	T    *Type // nil: no payload
}
type Param struct {
	Name string
	T    *Type
}

type Decl struct {
	K      DKind
	Name   string
	Fields []Field
	Cases  []Case
	Params []Param
	Ret    *Type
	Body   *Block
}

type Prog struct {
	Decls  []*Decl
	Main   *Block
	Hazard string // "" for the main stream; else exactly one known defect class this program exercises
	RawFo  string // hazard classes outside MiniFo (generic unions): the Folang text itself ...
	RawOut string // ... and the output its source semantics prescribe
	// print operands without the parentheses fc's operator table makes redundant (corpus files named *noparens*)
	OmitParens bool
}

type Block struct {
	Stmts []*Stmt
	E     *Expr
}

type SKind int

const (
	SLet SKind = iota
	SLetFun
	SDestr
	SDo
)

type Stmt struct {
	K      SKind
	Name   string   // SLet, SLetFun
	Names  []string // SDestr
	Params []Param  // SLetFun
	Ret    *Type    // SLetFun
	Body   *Block   // SLetFun
	E      *Expr    // SLet, SDestr, SDo
}

type EKind int

const (
	EInt EKind = iota
	EStr
	EBool
	EUnit
	EVar
	EBin
	EEq
	ENeq
	ENot
	EIf
	EIfOnly
	ELam
	ECall
	EExt
	EPipe
	ETuple
	ERecord
	EField
	ECtor
	EMatchU
	EMatchS
	ESlice
	EInterp
	EBlockE
)

var ekindNames = []string{"int", "str", "bool", "unit", "var", "bin", "eq", "neq", "not", "if", "ifonly", "lam", "call", "ext",
	"pipe", "tuple", "record", "field", "ctor", "matchu", "matchs", "slice", "interp", "block"}

func (k EKind) String() string { return ekindNames[k] }

// Arm of a union match ((Case x B) | (Case _ B) | (Case B)) or a literal arm of a string match.
type Arm struct {
	Case string // union: case name
	Bind string // union: "" no binder, "_" ignore, else the bound name
	Lit  string // string match: the literal
	Body *Block
}

type Part struct {
	IsHole bool
	Text   string // literal text, or the variable name of the hole
}

type Expr struct {
	K      EKind
	Int    int64
	Str    string
	Bool   bool
	Name   string   // EVar, ECall (head), EExt, ECtor (case), ERecord (type), EField (field)
	Op     string   // EBin: + - * / sadd < > <= >= && ||
	Arity  int      // ECall
	Args   []*Expr  // operands / arguments / components; EIf cond; EMatch target; EField target; EPipe [lhs, stage]
	Blocks []*Block // EIf [then, else]; EIfOnly [then]; ELam [body]; EBlockE [block]
	Params []Param  // ELam
	Fields []string // ERecord: field names parallel to Args
	Arms   []Arm    // EMatchU, EMatchS
	Bind   string   // EMatchS: variable of the last arm ("" = default arm)
	Deflt  *Block   // EMatchU: default arm or nil; EMatchS: the last (bind/default) arm
	ElemT  *Type    // ESlice
	Parts  []Part   // EInterp
	T      *Type    // type, filled by the generator and by Check
}

// ---------------------------------------------------------------- constructors

func eInt(n int64) *Expr  { return &Expr{K: EInt, Int: n, T: tInt} }
func eStr(s string) *Expr { return &Expr{K: EStr, Str: s, T: tString} }
func eBool(b bool) *Expr  { return &Expr{K: EBool, Bool: b, T: tBool} }
func eUnit() *Expr        { return &Expr{K: EUnit, T: tUnit} }
func eVar(x string, t *Type) *Expr {
	return &Expr{K: EVar, Name: x, T: t}
}
func eBin(op string, a, b *Expr, t *Type) *Expr {
	return &Expr{K: EBin, Op: op, Args: []*Expr{a, b}, T: t}
}
func eCall(f string, arity int, args []*Expr, t *Type) *Expr {
	return &Expr{K: ECall, Name: f, Arity: arity, Args: args, T: t}
}
func eExt(name string, args []*Expr, t *Type) *Expr {
	return &Expr{K: EExt, Name: name, Args: args, T: t}
}
func blockOf(e *Expr) *Block { return &Block{E: e} }

// ---------------------------------------------------------------- s-expression output

func (p *Prog) ToSexp() string {
	var b strings.Builder
	b.WriteString("(prog (")
	for i, d := range p.Decls {
		if i > 0 {
			b.WriteByte(' ')
		}
		d.sexp(&b)
	}
	b.WriteString(") ")
	p.Main.sexp(&b)
	b.WriteString(")")
	return b.String()
}

func paramsSexp(b *strings.Builder, ps []Param) {
	b.WriteString("(")
	for i, p := range ps {
		if i > 0 {
			b.WriteByte(' ')
		}
		fmt.Fprintf(b, "(%s %s)", p.Name, p.T.Sexp())
	}
	b.WriteString(")")
}

func (d *Decl) sexp(b *strings.Builder) {
	switch d.K {
	case DRecord:
		fmt.Fprintf(b, "(record %s (", d.Name)
		for i, f := range d.Fields {
			if i > 0 {
				b.WriteByte(' ')
			}
			fmt.Fprintf(b, "(%s %s)", f.Name, f.T.Sexp())
		}
		b.WriteString("))")
	case DUnion:
		fmt.Fprintf(b, "(union %s (", d.Name)
		for i, c := range d.Cases {
			if i > 0 {
				b.WriteByte(' ')
			}
			if c.T == nil {
				fmt.Fprintf(b, "(%s none)", c.Name)
			} else {
				fmt.Fprintf(b, "(%s %s)", c.Name, c.T.Sexp())
			}
		}
		b.WriteString("))")
	case DFun:
		fmt.Fprintf(b, "(fun %s ", d.Name)
		paramsSexp(b, d.Params)
		b.WriteString(" " + d.Ret.Sexp() + " ")
		d.Body.sexp(b)
		b.WriteString(")")
	}
}

func (bl *Block) sexp(b *strings.Builder) {
	b.WriteString("(block (")
	for i, s := range bl.Stmts {
		if i > 0 {
			b.WriteByte(' ')
		}
		s.sexp(b)
	}
	b.WriteString(") ")
	bl.E.sexp(b)
	b.WriteString(")")
}

func (s *Stmt) sexp(b *strings.Builder) {
	switch s.K {
	case SLet:
		fmt.Fprintf(b, "(let %s ", s.Name)
		s.E.sexp(b)
		b.WriteString(")")
	case SLetFun:
		fmt.Fprintf(b, "(letfun %s ", s.Name)
		paramsSexp(b, s.Params)
		b.WriteString(" " + s.Ret.Sexp() + " ")
		s.Body.sexp(b)
		b.WriteString(")")
	case SDestr:
		fmt.Fprintf(b, "(destr (%s) ", strings.Join(s.Names, " "))
		s.E.sexp(b)
		b.WriteString(")")
	case SDo:
		b.WriteString("(do ")
		s.E.sexp(b)
		b.WriteString(")")
	}
}

func exprsSexp(b *strings.Builder, es []*Expr) {
	b.WriteString("(")
	for i, e := range es {
		if i > 0 {
			b.WriteByte(' ')
		}
		e.sexp(b)
	}
	b.WriteString(")")
}

func (e *Expr) Sexp() string {
	var b strings.Builder
	e.sexp(&b)
	return b.String()
}

func (e *Expr) sexp(b *strings.Builder) {
	switch e.K {
	case EInt:
		fmt.Fprintf(b, "(int %d)", e.Int)
	case EStr:
		b.WriteString("(str " + Sq(e.Str) + ")")
	case EBool:
		fmt.Fprintf(b, "(bool %v)", e.Bool)
	case EUnit:
		b.WriteString("(unit)")
	case EVar:
		b.WriteString("(var " + e.Name + ")")
	case EBin:
		b.WriteString("(bin " + e.Op + " ")
		e.Args[0].sexp(b)
		b.WriteByte(' ')
		e.Args[1].sexp(b)
		b.WriteString(")")
	case EEq, ENeq:
		if e.K == EEq {
			b.WriteString("(eq ")
		} else {
			b.WriteString("(neq ")
		}
		e.Args[0].sexp(b)
		b.WriteByte(' ')
		e.Args[1].sexp(b)
		b.WriteString(")")
	case ENot:
		b.WriteString("(not ")
		e.Args[0].sexp(b)
		b.WriteString(")")
	case EIf:
		b.WriteString("(if ")
		e.Args[0].sexp(b)
		b.WriteByte(' ')
		e.Blocks[0].sexp(b)
		b.WriteByte(' ')
		e.Blocks[1].sexp(b)
		b.WriteString(")")
	case EIfOnly:
		b.WriteString("(ifonly ")
		e.Args[0].sexp(b)
		b.WriteByte(' ')
		e.Blocks[0].sexp(b)
		b.WriteString(")")
	case ELam:
		b.WriteString("(lam ")
		paramsSexp(b, e.Params)
		b.WriteByte(' ')
		e.Blocks[0].sexp(b)
		b.WriteString(")")
	case ECall:
		fmt.Fprintf(b, "(call %s %d ", e.Name, e.Arity)
		exprsSexp(b, e.Args)
		b.WriteString(")")
	case EExt:
		b.WriteString("(ext " + e.Name + " ")
		exprsSexp(b, e.Args)
		b.WriteString(")")
	case EPipe:
		b.WriteString("(pipe ")
		e.Args[0].sexp(b)
		b.WriteByte(' ')
		e.Args[1].sexp(b)
		b.WriteString(")")
	case ETuple:
		b.WriteString("(tuple")
		for _, a := range e.Args {
			b.WriteByte(' ')
			a.sexp(b)
		}
		b.WriteString(")")
	case ERecord:
		b.WriteString("(record " + e.Name + " (")
		for i, a := range e.Args {
			if i > 0 {
				b.WriteByte(' ')
			}
			b.WriteString("(" + e.Fields[i] + " ")
			a.sexp(b)
			b.WriteString(")")
		}
		b.WriteString("))")
	case EField:
		b.WriteString("(field ")
		e.Args[0].sexp(b)
		b.WriteString(" " + e.Name + ")")
	case ECtor:
		b.WriteString("(ctor " + e.Name)
		if len(e.Args) == 1 {
			b.WriteByte(' ')
			e.Args[0].sexp(b)
		}
		b.WriteString(")")
	case EMatchU:
		b.WriteString("(matchu ")
		e.Args[0].sexp(b)
		b.WriteString(" (")
		for i, a := range e.Arms {
			if i > 0 {
				b.WriteByte(' ')
			}
			b.WriteString("(" + a.Case + " ")
			if a.Bind != "" {
				b.WriteString(a.Bind + " ")
			}
			a.Body.sexp(b)
			b.WriteString(")")
		}
		b.WriteString(")")
		if e.Deflt != nil {
			b.WriteString(" (default ")
			e.Deflt.sexp(b)
			b.WriteString(")")
		}
		b.WriteString(")")
	case EMatchS:
		b.WriteString("(matchs ")
		e.Args[0].sexp(b)
		b.WriteString(" (")
		for i, a := range e.Arms {
			if i > 0 {
				b.WriteByte(' ')
			}
			b.WriteString("(" + Sq(a.Lit) + " ")
			a.Body.sexp(b)
			b.WriteString(")")
		}
		b.WriteString(") ")
		if e.Bind != "" {
			b.WriteString("(bind " + e.Bind + " ")
		} else {
			b.WriteString("(default ")
		}
		e.Deflt.sexp(b)
		b.WriteString("))")
	case ESlice:
		b.WriteString("(slice " + e.ElemT.Sexp() + " ")
		exprsSexp(b, e.Args)
		b.WriteString(")")
	case EInterp:
		b.WriteString("(interp")
		for _, p := range e.Parts {
			if p.IsHole {
				b.WriteString(" (hole " + p.Text + ")")
			} else {
				b.WriteString(" " + Sq(p.Text))
			}
		}
		b.WriteString(")")
	case EBlockE:
		e.Blocks[0].sexp(b)
	}
}

// ---------------------------------------------------------------- s-expression input

type sx struct {
	atom  string
	isStr bool
	list  []*sx
	isLst bool
}

func parseSx(s string) (res *sx, err error) {
	defer func() {
		if r := recover(); r != nil {
			err = fmt.Errorf("sexp: %v", r)
		}
	}()
	pos := 0
	var item func() *sx
	skip := func() {
		for pos < len(s) {
			c := s[pos]
			if c == ';' { // comment to end of line (corpus files)
				for pos < len(s) && s[pos] != '\n' {
					pos++
				}
				continue
			}
			if c == ' ' || c == '\t' || c == '\n' || c == '\r' {
				pos++
				continue
			}
			break
		}
	}
	item = func() *sx {
		skip()
		if pos >= len(s) {
			panic("eof")
		}
		switch s[pos] {
		case '(':
			pos++
			r := &sx{isLst: true}
			for {
				skip()
				if pos >= len(s) {
					panic("unclosed")
				}
				if s[pos] == ')' {
					pos++
					return r
				}
				r.list = append(r.list, item())
			}
		case ')':
			panic("unexpected )")
		case '"':
			st := pos
			pos++
			for pos < len(s) && s[pos] != '"' {
				if s[pos] == '\\' {
					pos++
				}
				pos++
			}
			if pos >= len(s) {
				panic("unclosed string")
			}
			pos++
			return &sx{atom: Unsq(s[st:pos]), isStr: true}
		}
		st := pos
		for pos < len(s) && !strings.ContainsRune(" \t\r\n()\"", rune(s[pos])) {
			pos++
		}
		return &sx{atom: s[st:pos]}
	}
	res = item()
	skip()
	if pos != len(s) {
		panic("trailing input")
	}
	return res, nil
}

func (x *sx) head() string {
	if x.isLst && len(x.list) > 0 && !x.list[0].isLst && !x.list[0].isStr {
		return x.list[0].atom
	}
	return ""
}

func (x *sx) need(n int, what string) {
	if !x.isLst || len(x.list) < n {
		panic(fmt.Sprintf("malformed %s", what))
	}
}

// ParseProg reads a program in FORMAT.md syntax. Types of expressions are not filled (run Check).
func ParseProg(src string) (p *Prog, err error) {
	x, err := parseSx(src)
	if err != nil {
		return nil, err
	}
	defer func() {
		if r := recover(); r != nil {
			err = fmt.Errorf("program: %v", r)
		}
	}()
	if x.head() != "prog" {
		panic("expected (prog …)")
	}
	x.need(3, "prog")
	p = &Prog{}
	for _, d := range x.list[1].list {
		p.Decls = append(p.Decls, sxDecl(d))
	}
	p.Main = sxBlock(x.list[2])
	return p, nil
}

func sxType(x *sx) *Type {
	if !x.isLst {
		switch x.atom {
		case "int":
			return tInt
		case "string":
			return tString
		case "bool":
			return tBool
		case "unit":
			return tUnit
		}
		panic("unknown type " + x.atom)
	}
	switch x.head() {
	case "tuple":
		var ts []*Type
		for _, e := range x.list[1:] {
			ts = append(ts, sxType(e))
		}
		if len(ts) != 2 && len(ts) != 3 {
			panic("tuple arity")
		}
		return tTuple(ts...)
	case "slice":
		x.need(2, "slice type")
		return tSlice(sxType(x.list[1]))
	case "rec":
		x.need(2, "rec type")
		return tRec(x.list[1].atom)
	case "union":
		x.need(2, "union type")
		return tUnion(x.list[1].atom)
	case "fun":
		x.need(3, "fun type")
		var ps []*Type
		for _, e := range x.list[1].list {
			ps = append(ps, sxType(e))
		}
		return tFun(ps, sxType(x.list[2]))
	}
	panic("unknown type form " + x.head())
}

func sxParams(x *sx) []Param {
	var ps []Param
	for _, e := range x.list {
		e.need(2, "param")
		ps = append(ps, Param{e.list[0].atom, sxType(e.list[1])})
	}
	return ps
}

func sxDecl(x *sx) *Decl {
	switch x.head() {
	case "record":
		x.need(3, "record")
		d := &Decl{K: DRecord, Name: x.list[1].atom}
		for _, f := range x.list[2].list {
			f.need(2, "field")
			d.Fields = append(d.Fields, Field{f.list[0].atom, sxType(f.list[1])})
		}
		return d
	case "union":
		x.need(3, "union")
		d := &Decl{K: DUnion, Name: x.list[1].atom}
		for _, c := range x.list[2].list {
			c.need(2, "case")
			if !c.list[1].isLst && c.list[1].atom == "none" {
				d.Cases = append(d.Cases, Case{c.list[0].atom, nil})
			} else {
				d.Cases = append(d.Cases, Case{c.list[0].atom, sxType(c.list[1])})
			}
		}
		return d
	case "fun":
		x.need(5, "fun")
		return &Decl{K: DFun, Name: x.list[1].atom, Params: sxParams(x.list[2]), Ret: sxType(x.list[3]), Body: sxBlock(x.list[4])}
	}
	panic("unknown declaration " + x.head())
}

func sxBlock(x *sx) *Block {
	if x.head() != "block" {
		panic("expected block, got " + x.head())
	}
	x.need(3, "block")
	b := &Block{}
	for _, s := range x.list[1].list {
		b.Stmts = append(b.Stmts, sxStmt(s))
	}
	b.E = sxExpr(x.list[2])
	return b
}

func sxStmt(x *sx) *Stmt {
	switch x.head() {
	case "let":
		x.need(3, "let")
		return &Stmt{K: SLet, Name: x.list[1].atom, E: sxExpr(x.list[2])}
	case "letfun":
		x.need(5, "letfun")
		return &Stmt{K: SLetFun, Name: x.list[1].atom, Params: sxParams(x.list[2]), Ret: sxType(x.list[3]), Body: sxBlock(x.list[4])}
	case "destr":
		x.need(3, "destr")
		s := &Stmt{K: SDestr, E: sxExpr(x.list[2])}
		for _, n := range x.list[1].list {
			s.Names = append(s.Names, n.atom)
		}
		return s
	case "do":
		x.need(2, "do")
		return &Stmt{K: SDo, E: sxExpr(x.list[1])}
	}
	panic("unknown statement " + x.head())
}

func sxExprs(x *sx) []*Expr {
	var es []*Expr
	for _, e := range x.list {
		es = append(es, sxExpr(e))
	}
	return es
}

func sxExpr(x *sx) *Expr {
	h := x.head()
	switch h {
	case "int":
		x.need(2, h)
		n, err := strconv.ParseInt(x.list[1].atom, 10, 64)
		if err != nil {
			panic(err)
		}
		return &Expr{K: EInt, Int: n}
	case "str":
		x.need(2, h)
		return &Expr{K: EStr, Str: x.list[1].atom}
	case "bool":
		x.need(2, h)
		return &Expr{K: EBool, Bool: x.list[1].atom == "true"}
	case "unit":
		return &Expr{K: EUnit}
	case "var":
		x.need(2, h)
		return &Expr{K: EVar, Name: x.list[1].atom}
	case "bin":
		x.need(4, h)
		return &Expr{K: EBin, Op: x.list[1].atom, Args: []*Expr{sxExpr(x.list[2]), sxExpr(x.list[3])}}
	case "eq", "neq":
		x.need(3, h)
		k := EEq
		if h == "neq" {
			k = ENeq
		}
		return &Expr{K: k, Args: []*Expr{sxExpr(x.list[1]), sxExpr(x.list[2])}}
	case "not":
		x.need(2, h)
		return &Expr{K: ENot, Args: []*Expr{sxExpr(x.list[1])}}
	case "if":
		x.need(4, h)
		return &Expr{K: EIf, Args: []*Expr{sxExpr(x.list[1])}, Blocks: []*Block{sxBlock(x.list[2]), sxBlock(x.list[3])}}
	case "ifonly":
		x.need(3, h)
		return &Expr{K: EIfOnly, Args: []*Expr{sxExpr(x.list[1])}, Blocks: []*Block{sxBlock(x.list[2])}}
	case "lam":
		x.need(3, h)
		return &Expr{K: ELam, Params: sxParams(x.list[1]), Blocks: []*Block{sxBlock(x.list[2])}}
	case "call":
		x.need(4, h)
		n, err := strconv.Atoi(x.list[2].atom)
		if err != nil {
			panic(err)
		}
		return &Expr{K: ECall, Name: x.list[1].atom, Arity: n, Args: sxExprs(x.list[3])}
	case "ext":
		x.need(3, h)
		return &Expr{K: EExt, Name: x.list[1].atom, Args: sxExprs(x.list[2])}
	case "pipe":
		x.need(3, h)
		return &Expr{K: EPipe, Args: []*Expr{sxExpr(x.list[1]), sxExpr(x.list[2])}}
	case "tuple":
		x.need(3, h)
		e := &Expr{K: ETuple}
		for _, a := range x.list[1:] {
			e.Args = append(e.Args, sxExpr(a))
		}
		return e
	case "record":
		x.need(3, h)
		e := &Expr{K: ERecord, Name: x.list[1].atom}
		for _, f := range x.list[2].list {
			f.need(2, "record field")
			e.Fields = append(e.Fields, f.list[0].atom)
			e.Args = append(e.Args, sxExpr(f.list[1]))
		}
		return e
	case "field":
		x.need(3, h)
		return &Expr{K: EField, Name: x.list[2].atom, Args: []*Expr{sxExpr(x.list[1])}}
	case "ctor":
		x.need(2, h)
		e := &Expr{K: ECtor, Name: x.list[1].atom}
		if len(x.list) > 2 {
			e.Args = []*Expr{sxExpr(x.list[2])}
		}
		return e
	case "matchu":
		x.need(3, h)
		e := &Expr{K: EMatchU, Args: []*Expr{sxExpr(x.list[1])}}
		for _, a := range x.list[2].list {
			a.need(2, "arm")
			arm := Arm{Case: a.list[0].atom}
			if len(a.list) == 3 {
				arm.Bind = a.list[1].atom
				arm.Body = sxBlock(a.list[2])
			} else {
				arm.Body = sxBlock(a.list[1])
			}
			e.Arms = append(e.Arms, arm)
		}
		if len(x.list) > 3 {
			x.list[3].need(2, "default")
			e.Deflt = sxBlock(x.list[3].list[1])
		}
		return e
	case "matchs":
		x.need(4, h)
		e := &Expr{K: EMatchS, Args: []*Expr{sxExpr(x.list[1])}}
		for _, a := range x.list[2].list {
			a.need(2, "arm")
			e.Arms = append(e.Arms, Arm{Lit: a.list[0].atom, Body: sxBlock(a.list[1])})
		}
		last := x.list[3]
		if last.head() == "bind" {
			last.need(3, "bind")
			e.Bind = last.list[1].atom
			e.Deflt = sxBlock(last.list[2])
		} else {
			last.need(2, "default")
			e.Deflt = sxBlock(last.list[1])
		}
		return e
	case "slice":
		x.need(3, h)
		return &Expr{K: ESlice, ElemT: sxType(x.list[1]), Args: sxExprs(x.list[2])}
	case "interp":
		e := &Expr{K: EInterp}
		for _, p := range x.list[1:] {
			if p.isStr {
				e.Parts = append(e.Parts, Part{Text: p.atom})
			} else {
				p.need(2, "hole")
				e.Parts = append(e.Parts, Part{IsHole: true, Text: p.list[1].atom})
			}
		}
		return e
	case "block":
		return &Expr{K: EBlockE, Blocks: []*Block{sxBlock(x)}}
	}
	panic("unknown expression " + h)
}

// ---------------------------------------------------------------- traversal, clone, size

// children in evaluation order (sub-expressions and the blocks hanging off an expression)
func (e *Expr) subBlocks() []*Block {
	var bs []*Block
	bs = append(bs, e.Blocks...)
	for _, a := range e.Arms {
		bs = append(bs, a.Body)
	}
	if e.Deflt != nil {
		bs = append(bs, e.Deflt)
	}
	return bs
}

// WalkExprs calls f(parent, e) for every expression of the program (parent nil for block-level roots).
func (p *Prog) WalkExprs(f func(parent, e *Expr)) {
	for _, d := range p.Decls {
		if d.K == DFun {
			d.Body.walk(nil, f)
		}
	}
	p.Main.walk(nil, f)
}

func (b *Block) walk(parent *Expr, f func(parent, e *Expr)) {
	for _, s := range b.Stmts {
		if s.Body != nil {
			s.Body.walk(nil, f)
		}
		if s.E != nil {
			s.E.walk(parent, f)
		}
	}
	b.E.walk(parent, f)
}

func (e *Expr) walk(parent *Expr, f func(parent, e *Expr)) {
	f(parent, e)
	for _, a := range e.Args {
		a.walk(e, f)
	}
	for _, b := range e.subBlocks() {
		b.walk(e, f)
	}
}

func (p *Prog) Size() int {
	n := 0
	p.WalkExprs(func(_, _ *Expr) { n++ })
	return n + len(p.Decls)
}

func (b *Block) depth() int {
	d := 0
	for _, s := range b.Stmts {
		if s.Body != nil {
			if x := s.Body.depth(); x > d {
				d = x
			}
		}
		if s.E != nil {
			if x := s.E.depth(); x > d {
				d = x
			}
		}
	}
	if x := b.E.depth(); x > d {
		d = x
	}
	return d
}

func (e *Expr) depth() int {
	d := 0
	for _, a := range e.Args {
		if x := a.depth(); x > d {
			d = x
		}
	}
	for _, b := range e.subBlocks() {
		if x := b.depth(); x > d {
			d = x
		}
	}
	return d + 1
}

func (p *Prog) Depth() int {
	d := p.Main.depth()
	for _, dc := range p.Decls {
		if dc.K == DFun {
			if x := dc.Body.depth(); x > d {
				d = x
			}
		}
	}
	return d
}

func (p *Prog) Clone() *Prog {
	q := &Prog{Hazard: p.Hazard, RawFo: p.RawFo, RawOut: p.RawOut, Main: p.Main.Clone()}
	for _, d := range p.Decls {
		q.Decls = append(q.Decls, d.Clone())
	}
	return q
}

func (d *Decl) Clone() *Decl {
	c := *d
	c.Fields = append([]Field{}, d.Fields...)
	c.Cases = append([]Case{}, d.Cases...)
	c.Params = append([]Param{}, d.Params...)
	if d.Body != nil {
		c.Body = d.Body.Clone()
	}
	return &c
}

func (b *Block) Clone() *Block {
	if b == nil {
		return nil
	}
	c := &Block{E: b.E.Clone()}
	for _, s := range b.Stmts {
		c.Stmts = append(c.Stmts, s.Clone())
	}
	return c
}

func (s *Stmt) Clone() *Stmt {
	c := *s
	c.Names = append([]string{}, s.Names...)
	c.Params = append([]Param{}, s.Params...)
	if s.Body != nil {
		c.Body = s.Body.Clone()
	}
	if s.E != nil {
		c.E = s.E.Clone()
	}
	return &c
}

func (e *Expr) Clone() *Expr {
	if e == nil {
		return nil
	}
	c := *e
	c.Args = make([]*Expr, len(e.Args))
	for i, a := range e.Args {
		c.Args[i] = a.Clone()
	}
	c.Blocks = make([]*Block, len(e.Blocks))
	for i, b := range e.Blocks {
		c.Blocks[i] = b.Clone()
	}
	c.Params = append([]Param{}, e.Params...)
	c.Fields = append([]string{}, e.Fields...)
	c.Arms = make([]Arm, len(e.Arms))
	for i, a := range e.Arms {
		c.Arms[i] = a
		c.Arms[i].Body = a.Body.Clone()
	}
	c.Deflt = e.Deflt.Clone()
	c.Parts = append([]Part{}, e.Parts...)
	return &c
}

// ---------------------------------------------------------------- feature census

// featureOf names the construct of an expression with the refinements the property cares about.
func featureOf(e *Expr) string {
	switch e.K {
	case EBin:
		switch e.Op {
		case "&&", "||":
			return "bin" + e.Op
		case "sadd":
			return "bin.sadd"
		case "+", "-", "*":
			return "bin.arith"
		case "/":
			return "bin.div"
		}
		return "bin.cmp"
	case ECall:
		if len(e.Args) < e.Arity {
			return "call.partial"
		}
		return "call.full"
	case EExt:
		return "ext"
	case EIf:
		if len(e.Blocks[1].Stmts) == 0 && e.Blocks[1].E.K == EIf {
			return "if.elif"
		}
		return "if"
	case EMatchU:
		if e.Deflt != nil {
			return "matchu.default"
		}
		return "matchu"
	case EMatchS:
		if e.Bind != "" {
			return "matchs.bind"
		}
		return "matchs.default"
	case ECtor:
		if len(e.Args) == 0 {
			return "ctor.none"
		}
		return "ctor"
	}
	return e.K.String()
}

type Census struct {
	Features map[string]int // construct -> occurrences
	Nesting  map[string]int // "child<parent" -> occurrences (child directly inside parent)
	Ext      map[string]int // library function -> occurrences
	Arms     map[string]int // union arm forms: bind / ignore / none
	Stmts    map[string]int
}

func NewCensus() *Census {
	return &Census{Features: map[string]int{}, Nesting: map[string]int{}, Ext: map[string]int{}, Arms: map[string]int{}, Stmts: map[string]int{}}
}

func (c *Census) Add(p *Prog) {
	p.WalkExprs(func(parent, e *Expr) {
		f := featureOf(e)
		c.Features[f]++
		if e.K == EExt {
			c.Ext[e.Name]++
		}
		if e.K == EMatchU {
			for _, a := range e.Arms {
				switch a.Bind {
				case "":
					c.Arms["none"]++
				case "_":
					c.Arms["ignore"]++
				default:
					c.Arms["bind"]++
				}
			}
		}
		if e.K == EPipe && e.T != nil && e.T.K == TUnit {
			c.Features["pipe.unit"]++
		}
		if e.K == EPipe {
			c.Features["pipe.stage-"+e.Args[1].K.String()]++
			for _, a := range e.Args[1].Args {
				if !effectFree(a) {
					c.Features["pipe.stage-effectful-arg"]++
					break
				}
			}
		}
		if e.K == ECall && len(e.Args) < e.Arity {
			for _, a := range e.Args {
				if a.K == ECall && len(a.Args) < a.Arity {
					c.Features["call.partial.of-partial-arg"]++
				}
				if a.K == ELam {
					c.Features["call.partial.lambda-arg"]++
				}
			}
		}
		if e.K == EExt {
			for _, a := range e.Args {
				if a.T != nil && a.T.K == TFun {
					switch {
					case a.K == ELam:
						c.Features["callback.lambda"]++
					case a.K == EVar:
						c.Features["callback.named"]++
					case a.K == ECall:
						c.Features["callback.partial"]++
					case a.K == EExt:
						c.Features["callback.ext-partial"]++
					}
				}
			}
		}
		if e.K == EBin && (e.Op == "&&" || e.Op == "||") && !effectFree(e.Args[1]) {
			c.Features["andor.effectful-right"]++
		}
		if parent != nil {
			c.Nesting[e.K.String()+"<"+parent.K.String()]++
		}
	})
	for _, d := range p.Decls {
		switch d.K {
		case DRecord:
			c.Features["decl.record"]++
		case DUnion:
			c.Features["decl.union"]++
		case DFun:
			c.Features["decl.fun"]++
			for _, pa := range d.Params {
				if pa.T.K == TUnit {
					c.Features["decl.fun.unit-param"]++
				}
				if pa.T.K == TFun {
					c.Features["decl.fun.fun-param"]++
				}
			}
			if d.Ret.K == TFun {
				c.Features["decl.fun.returns-fun"]++
			}
			if d.Ret.K == TUnit {
				c.Features["decl.fun.returns-unit"]++
			}
			if declRecursive(d) {
				c.Features["decl.fun.recursive"]++
			}
			countStmts(d.Body, c)
		}
	}
	countStmts(p.Main, c)
}

func countStmts(b *Block, c *Census) {
	names := []string{"let", "letfun", "destr", "do"}
	var visitE func(e *Expr)
	var visitB func(b *Block)
	visitE = func(e *Expr) {
		for _, a := range e.Args {
			visitE(a)
		}
		for _, bl := range e.subBlocks() {
			visitB(bl)
		}
	}
	visitB = func(b *Block) {
		for _, s := range b.Stmts {
			c.Stmts[names[s.K]]++
			if s.Body != nil {
				visitB(s.Body)
			}
			if s.E != nil {
				visitE(s.E)
			}
		}
		visitE(b.E)
	}
	visitB(b)
}

func declRecursive(d *Decl) bool {
	rec := false
	d.Body.walk(nil, func(_, e *Expr) {
		if (e.K == ECall || e.K == EVar) && e.Name == d.Name {
			rec = true
		}
	})
	return rec
}

// NestingMatrix renders the nesting counts as rows "parent: child=n …" (sorted) for the evidence.
func (c *Census) NestingMatrix() map[string]map[string]int {
	m := map[string]map[string]int{}
	for k, n := range c.Nesting {
		child, parent, _ := strings.Cut(k, "<")
		if m[parent] == nil {
			m[parent] = map[string]int{}
		}
		m[parent][child] = n
	}
	return m
}

// MissingPairs lists the (child<parent) pairs among the block-bearing / interesting constructs never generated.
func (c *Census) MissingPairs() []string {
	kinds := []string{"if", "ifonly", "lam", "call", "ext", "pipe", "matchu", "matchs", "bin", "tuple", "record", "ctor", "slice"}
	// pairs no well-typed program can contain: a unit-typed if-without-else or a function-typed lambda as a
	// direct operand / component of a data construct
	impossible := func(ch, p string) bool {
		data := p == "bin" || p == "tuple" || p == "record" || p == "ctor" || p == "slice"
		if (ch == "ifonly" || ch == "lam") && data {
			return true
		}
		if ch == "ifonly" && (p == "call" || p == "ext" || p == "pipe") {
			return true
		}
		if ch == "lam" && p == "pipe" {
			return true
		}
		return false
	}
	var miss []string
	for _, p := range kinds {
		for _, ch := range kinds {
			if impossible(ch, p) {
				continue
			}
			if c.Nesting[ch+"<"+p] == 0 {
				miss = append(miss, ch+"<"+p)
			}
		}
	}
	sort.Strings(miss)
	return miss
}

// HasPermutedRecord: some record literal is written in another field order than the declaration.
func HasPermutedRecord(p *Prog) bool {
	decl := map[string][]string{}
	for _, d := range p.Decls {
		if d.K == DRecord {
			var ns []string
			for _, f := range d.Fields {
				ns = append(ns, f.Name)
			}
			decl[d.Name] = ns
		}
	}
	found := false
	p.WalkExprs(func(_, e *Expr) {
		if e.K == ERecord {
			ns := decl[e.Name]
			for i := range e.Fields {
				if i >= len(ns) || ns[i] != e.Fields[i] {
					found = true
				}
			}
		}
	})
	return found
}
