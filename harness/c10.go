package main

// C10: = and <> are total structural equality on first-order values.
// Generates Folang programs that declare record and union types (field names of either
// capitalisation), build triples (a, b, c) of values of generated types by different library paths
// (literal, slice.New, slice.Filter/Take/Skip results; nested in tuples, records, unions, slices) and
// print a = b, b = a, b = c, a = c, a = a, a <> b. The programs are transpiled by the real fc of the
// scratch tree, compiled and run (many comparisons per program). Every printed result is compared
// with (1) a structural equality written here over the generator's own values and (2) the Coq model
// (oracle: go_equal with today's options); reflexivity, symmetry, transitivity and negation are
// checked on the printed results themselves; a panic is a violation.

import (
	"fmt"
	"os"
	"path/filepath"
	"strings"
	"time"
)

type c10Type struct {
	Kind   string // int string bool tuple record union slice
	Elems  []*c10Type
	Name   string
	Fields []string // record field names
	Cases  []string // union case names; payload type in Elems (nil = no payload)
}

func (t *c10Type) fo() string {
	switch t.Kind {
	case "tuple":
		var xs []string
		for _, e := range t.Elems {
			if e.Kind == "tuple" {
				xs = append(xs, "("+e.fo()+")")
			} else {
				xs = append(xs, e.fo())
			}
		}
		return strings.Join(xs, "*")
	case "slice":
		if t.Elems[0].Kind == "tuple" {
			return "[](" + t.Elems[0].fo() + ")"
		}
		return "[]" + t.Elems[0].fo()
	case "record", "union":
		return t.Name
	}
	return t.Kind
}

// types usable as a type argument / parameter annotation without parentheses trouble
func (t *c10Type) simpleName() bool {
	switch t.Kind {
	case "tuple":
		return false
	case "slice":
		return t.Elems[0].simpleName()
	}
	return true
}

func (t *c10Type) mangle() string {
	r := strings.NewReplacer("[]", "S", "*", "x", "(", "", ")", "")
	return r.Replace(t.fo())
}

type c10Val struct {
	T     *c10Type
	I     int
	S     string
	B     bool
	Elems []*c10Val // tuple / record fields / union payload (0 or 1) / slice elements
	Case  int
	Path  string // slices: the library path chosen when the expression was printed
	Nil   bool   // slices: the printed expression yields a nil slice (set by fo)
	Force string // slices: use this path (corpus)
	Ref   string // the value is denoted by this expression (a variable, or a slice derived from one)
}

type c10Env struct {
	named   []*c10Type // declared records and unions, in order
	preds   map[string]*c10Type
	holders []*c10Type // comparable types holding a union whose case carries a slice
}

func c10GenType(r *Rng, env *c10Env, depth int) *c10Type {
	base := []*c10Type{{Kind: "int"}, {Kind: "string"}, {Kind: "bool"}, {Kind: "int"}}
	if depth <= 0 {
		if len(env.named) > 0 && r.Chance(1, 3) {
			return Choose(r, env.named)
		}
		return Choose(r, base)
	}
	switch r.Intn(9) {
	case 0, 1:
		n := 2 + r.Intn(2)
		t := &c10Type{Kind: "tuple"}
		for i := 0; i < n; i++ {
			t.Elems = append(t.Elems, c10GenType(r, env, depth-1))
		}
		return t
	case 2, 3, 4:
		return &c10Type{Kind: "slice", Elems: []*c10Type{c10GenType(r, env, depth-1)}}
	case 5, 6:
		if len(env.named) > 0 {
			return Choose(r, env.named)
		}
	case 7:
		// a slice of pairs: reachable through slice.Zip and dict.KVs
		return &c10Type{Kind: "slice", Elems: []*c10Type{{Kind: "tuple", Elems: []*c10Type{Choose(r, base), c10GenType(r, env, depth-1)}}}}
	}
	return Choose(r, base)
}

func c10GenEnv(r *Rng, prog int, n int) *c10Env {
	env := &c10Env{preds: map[string]*c10Type{}}
	for i := 0; i < n; i++ {
		id := fmt.Sprintf("%d_%d", prog, i)
		if r.Chance(3, 5) {
			t := &c10Type{Kind: "record", Name: "R" + id}
			nf := 1 + r.Intn(3)
			style := r.Intn(3) // all lower, all upper, mixed
			for f := 0; f < nf; f++ {
				nm := Choose(r, []string{"x", "name", "items", "val", "key"})
				if style == 1 || style == 2 && r.Bool() {
					nm = strings.ToUpper(nm[:1]) + nm[1:]
				}
				t.Fields = append(t.Fields, fmt.Sprintf("%s%d_%s", nm, f, id))
				t.Elems = append(t.Elems, c10GenType(r, env, 1))
			}
			env.named = append(env.named, t)
		} else {
			t := &c10Type{Kind: "union", Name: "U" + id}
			nc := 1 + r.Intn(3)
			for k := 0; k < nc; k++ {
				t.Cases = append(t.Cases, fmt.Sprintf("%c%s", 'A'+k, id))
				if r.Chance(1, 4) {
					t.Elems = append(t.Elems, nil)
				} else {
					t.Elems = append(t.Elems, c10GenType(r, env, 1))
				}
			}
			env.named = append(env.named, t)
		}
	}
	// a union whose case carries a slice, and holders of it without any slice-typed sibling: the
	// holder types are comparable for Go's ==, the stored case is not
	ug := &c10Type{Kind: "union", Name: fmt.Sprintf("UG%d", prog), Cases: []string{fmt.Sprintf("GA%d", prog), fmt.Sprintf("GB%d", prog), fmt.Sprintf("GC%d", prog)},
		Elems: []*c10Type{{Kind: "slice", Elems: []*c10Type{{Kind: "int"}}}, nil, {Kind: "int"}}}
	rg := &c10Type{Kind: "record", Name: fmt.Sprintf("RG%d", prog), Fields: []string{fmt.Sprintf("n_g%d", prog), fmt.Sprintf("U_g%d", prog)},
		Elems: []*c10Type{{Kind: "int"}, ug}}
	env.named = append(env.named, ug, rg)
	env.holders = []*c10Type{rg, {Kind: "tuple", Elems: []*c10Type{{Kind: "int"}, ug}}, {Kind: "tuple", Elems: []*c10Type{{Kind: "string"}, rg, {Kind: "bool"}}}}
	return env
}

func (env *c10Env) decls() string {
	var b strings.Builder
	for _, t := range env.named {
		if t.Kind == "record" {
			var fs []string
			for i, f := range t.Fields {
				fs = append(fs, f+": "+t.Elems[i].fo())
			}
			fmt.Fprintf(&b, "type %s = {%s}\n\n", t.Name, strings.Join(fs, "; "))
		} else {
			fmt.Fprintf(&b, "type %s =\n", t.Name)
			for i, cn := range t.Cases {
				if t.Elems[i] == nil {
					fmt.Fprintf(&b, "  | %s\n", cn)
				} else {
					fmt.Fprintf(&b, "  | %s of %s\n", cn, t.Elems[i].fo())
				}
			}
			b.WriteString("\n")
		}
	}
	return b.String()
}

func (env *c10Env) predDecls(used map[string]*c10Type) string {
	var b strings.Builder
	b.WriteString("let keepI (x:int) = x < 1000\n\nlet idI (x:int) = x\n\n")
	for _, k := range SortedKeys(used) {
		t := used[k]
		fmt.Fprintf(&b, "let keepAll_%s (x:%s) = true\n\nlet dropAll_%s (x:%s) = false\n\n", k, t.fo(), k, t.fo())
		fmt.Fprintf(&b, "let second_%s (i:int) (x:%s) = x\n\nlet none_%s (x:int) = slice.New<%s> ()\n\n", k, t.fo(), k, t.fo())
	}
	return b.String()
}

var c10Strs = []string{"", "a", "b", "a b", "abc", "A", "a\tb", "q\"r"}

func c10GenVal(r *Rng, t *c10Type, depth int) *c10Val {
	v := &c10Val{T: t}
	switch t.Kind {
	case "int":
		v.I = Choose(r, []int{0, 1, 2, 3, 7, 42, 999})
	case "string":
		v.S = Choose(r, c10Strs)
	case "bool":
		v.B = r.Bool()
	case "tuple", "record":
		for _, e := range t.Elems {
			v.Elems = append(v.Elems, c10GenVal(r, e, depth-1))
		}
	case "union":
		v.Case = r.Intn(len(t.Cases))
		if t.Elems[v.Case] != nil {
			v.Elems = []*c10Val{c10GenVal(r, t.Elems[v.Case], depth-1)}
		}
	case "slice":
		n := Choose(r, []int{0, 0, 1, 1, 2, 3})
		if depth <= 1 {
			n = Choose(r, []int{0, 0, 1, 2})
		}
		if depth <= 0 {
			n = Choose(r, []int{0, 0, 0, 1})
		}
		if depth < -2 {
			n = 0
		}
		for i := 0; i < n; i++ {
			v.Elems = append(v.Elems, c10GenVal(r, t.Elems[0], depth-1))
		}
	}
	return v
}

// a copy with the same structure and contents; its slices are rebuilt by freshly chosen library
// paths when it is printed
func c10Repath(r *Rng, v *c10Val) *c10Val {
	w := *v
	w.Elems = nil
	for _, e := range v.Elems {
		w.Elems = append(w.Elems, c10Repath(r, e))
	}
	w.Path, w.Nil, w.Force, w.Ref = "", false, "", ""
	return &w
}

// a copy that differs (usually) in one place
func c10Mutate(r *Rng, v *c10Val) *c10Val {
	w := c10Repath(r, v)
	switch v.T.Kind {
	case "int":
		w.I = Choose(r, []int{0, 1, 2, 3, 7, 42, 999})
	case "string":
		w.S = Choose(r, c10Strs)
	case "bool":
		w.B = !v.B
	case "tuple", "record":
		i := r.Intn(len(w.Elems))
		w.Elems[i] = c10Mutate(r, v.Elems[i])
	case "union":
		if len(v.T.Cases) > 1 && r.Bool() || len(w.Elems) == 0 {
			return c10GenVal(r, v.T, 2)
		}
		w.Elems[0] = c10Mutate(r, v.Elems[0])
	case "slice":
		switch {
		case len(w.Elems) == 0 || r.Chance(1, 4):
			w.Elems = append(w.Elems, c10GenVal(r, v.T.Elems[0], 1))
		case r.Chance(1, 4):
			w.Elems = w.Elems[:len(w.Elems)-1]
		default:
			i := r.Intn(len(w.Elems))
			w.Elems[i] = c10Mutate(r, v.Elems[i])
		}
	}
	return w
}

// the reference: structural equality over the generator's values, blind to the library path
func c10StructEq(a, b *c10Val) bool {
	switch a.T.Kind {
	case "int":
		return a.I == b.I
	case "string":
		return a.S == b.S
	case "bool":
		return a.B == b.B
	case "union":
		if a.Case != b.Case {
			return false
		}
	}
	if len(a.Elems) != len(b.Elems) {
		return false
	}
	for i := range a.Elems {
		if !c10StructEq(a.Elems[i], b.Elems[i]) {
			return false
		}
	}
	return true
}

// Folang expression; nested=true when the expression is an argument / element
func (v *c10Val) fo(r *Rng, used map[string]*c10Type, nested bool) string {
	paren := func(s string) string {
		if nested {
			return "(" + s + ")"
		}
		return s
	}
	switch v.T.Kind {
	case "int":
		return fmt.Sprint(v.I)
	case "string":
		return c10Spell(r, v.S)
	case "bool":
		return fmt.Sprint(v.B)
	case "tuple":
		var xs []string
		for _, e := range v.Elems {
			xs = append(xs, e.fo(r, used, true))
		}
		return "(" + strings.Join(xs, ", ") + ")"
	case "record":
		var xs []string
		for i, e := range v.Elems {
			xs = append(xs, v.T.Fields[i]+"="+e.fo(r, used, true))
		}
		return "{" + strings.Join(xs, "; ") + "}"
	case "union":
		if len(v.Elems) == 0 {
			return v.T.Cases[v.Case]
		}
		return paren(v.T.Cases[v.Case] + " " + v.Elems[0].fo(r, used, true))
	}
	// slice
	if v.Ref != "" {
		return v.Ref
	}
	e, isNil, path := c10SliceFo(r, used, v.T, v.Elems, 2, v.Force)
	v.Path, v.Nil = path, isNil
	c10PathCount[path]++
	return e
}

var c10PathCount = map[string]int{}

// c10Spell writes the string s as a "..." literal, choosing a spelling per character: itself, \xHH,
// \ooo or \u00HH (the scanner keeps escapes verbatim for the Go compiler): the same VALUE by
// different source texts.
func c10Spell(r *Rng, s string) string {
	var b strings.Builder
	b.WriteByte('"')
	for i := 0; i < len(s); i++ {
		ch := s[i]
		switch r.Intn(8) {
		case 0:
			fmt.Fprintf(&b, "\\x%02x", ch)
		case 1:
			fmt.Fprintf(&b, "\\%03o", ch)
		case 2:
			fmt.Fprintf(&b, "\\u%04x", ch)
		default:
			if ch == '"' || ch == '\\' {
				b.WriteByte('\\')
			}
			b.WriteByte(ch)
		}
	}
	b.WriteByte('"')
	return b.String()
}

func c10Less(a, b *c10Val) bool {
	if a.T.Kind == "string" {
		return a.S < b.S
	}
	return a.I < b.I
}

func c10Same(a, b *c10Val) bool { return a.I == b.I && a.S == b.S && a.B == b.B }

// c10SliceFo prints an expression whose value is the slice with the elements elems, built by a
// randomly chosen library path (force != "": that path), and tells whether the result is a nil
// slice on the unchanged library. Composite paths build their operands by further paths.
func c10SliceFo(r *Rng, used map[string]*c10Type, t *c10Type, elems []*c10Val, depth int, force string) (string, bool, string) {
	et := t.Elems[0]
	n := len(elems)
	simple := et.simpleName()
	base := et.Kind == "int" || et.Kind == "string" || et.Kind == "bool"
	lit := func(vs []*c10Val) string {
		var xs []string
		for _, e := range vs {
			xs = append(xs, e.fo(r, used, true))
		}
		return "[" + strings.Join(xs, "; ") + "]"
	}
	extra := func(k int) []*c10Val {
		var xs []*c10Val
		for i := 0; i < k; i++ {
			xs = append(xs, c10GenVal(r, et, 1))
		}
		return xs
	}
	cat := func(a, b []*c10Val) []*c10Val { return append(append([]*c10Val{}, a...), b...) }
	// an operand slice of type st with the given elements
	subT := func(st *c10Type, vs []*c10Val) (string, bool) {
		if depth <= 0 {
			if len(vs) > 0 {
				e, nl, _ := c10SliceFo(r, used, st, vs, 0, "literal")
				return e, nl
			}
			if st.Elems[0].simpleName() {
				e, nl, _ := c10SliceFo(r, used, st, vs, 0, "new")
				return e, nl
			}
			e, nl, _ := c10SliceFo(r, used, st, vs, 0, "take")
			return e, nl
		}
		e, nl, p := c10SliceFo(r, used, st, vs, depth-1, "")
		c10PathCount["operand:"+p]++
		return e, nl
	}
	sub := func(vs []*c10Val) (string, bool) { return subT(t, vs) }
	sorted, distinct := true, true
	for i := 1; i < n; i++ {
		if c10Less(elems[i], elems[i-1]) {
			sorted = false
		}
	}
	for i := 0; i < n; i++ {
		for j := 0; j < i; j++ {
			if c10Same(elems[i], elems[j]) {
				distinct = false
			}
		}
	}
	ordered := et.Kind == "int" || et.Kind == "string"
	pair := et.Kind == "tuple" && len(et.Elems) == 2
	keyable := func(k *c10Type) bool { return k.Kind == "int" || k.Kind == "string" || k.Kind == "bool" }
	ps := []string{"take", "skip", "tail", "poplast", "pushpop", "append", "concat", "map", "collect"}
	if n > 0 {
		ps = append(ps, "literal", "literal", "pushlast", "pushhead")
	}
	if simple {
		ps = append(ps, "filter", "mapi")
		if n == 0 {
			ps = append(ps, "new", "empty", "collectnone", "dictvalues")
		}
	}
	if n == 1 {
		ps = append(ps, "dictvalues")
	}
	if pair {
		ps = append(ps, "zip")
		if keyable(et.Elems[0]) && (n == 1 || n == 0 && et.Elems[0].simpleName() && et.Elems[1].simpleName()) {
			ps = append(ps, "dictkvs")
		}
	}
	if ordered && sorted {
		ps = append(ps, "sort")
		if et.Kind == "int" {
			ps = append(ps, "sortby")
		}
	}
	if base && distinct {
		ps = append(ps, "distinct")
	}
	if ordered && n <= 1 {
		ps = append(ps, "dictkeys")
	}
	path := Choose(r, ps)
	if force != "" {
		path = force
	}
	call := func(f string, a ...any) string { return "(" + fmt.Sprintf(f, a...) + ")" }
	switch path {
	case "literal":
		return lit(elems), false, path
	case "new":
		return call("slice.New<%s> ()", et.fo()), false, path
	case "empty":
		return call("frt.Empty<%s> ()", t.fo()), true, path
	case "take":
		return call("slice.Take %d %s", n, lit(cat(elems, extra(1+r.Intn(2))))), n == 0, path
	case "skip":
		k := 1 + r.Intn(2)
		return call("slice.Skip %d %s", k, lit(cat(extra(k), elems))), n == 0, path
	case "filter":
		if et.Kind == "int" && n > 0 {
			// keepI drops the markers >= 1000 interleaved with the elements
			var xs []*c10Val
			for _, e := range elems {
				if r.Chance(1, 3) {
					xs = append(xs, &c10Val{T: et, I: 1000 + r.Intn(5)})
				}
				xs = append(xs, e)
			}
			xs = append(xs, &c10Val{T: et, I: 1001})
			return call("slice.Filter keepI %s", lit(xs)), false, path
		}
		used[et.mangle()] = et
		if n == 0 {
			return call("slice.Filter dropAll_%s %s", et.mangle(), lit(extra(1))), true, path
		}
		e, _ := sub(elems)
		return call("slice.Filter keepAll_%s %s", et.mangle(), e), false, path
	case "tail":
		e, _ := sub(cat(extra(1), elems))
		return call("slice.Tail %s", e), false, path
	case "poplast":
		e, _ := sub(cat(elems, extra(1)))
		return call("slice.PopLast %s", e), false, path
	case "pushlast":
		e, _ := sub(elems[:n-1])
		return call("slice.PushLast %s %s", elems[n-1].fo(r, used, true), e), false, path
	case "pushhead":
		e, _ := sub(elems[1:])
		return call("slice.PushHead %s %s", elems[0].fo(r, used, true), e), false, path
	case "pushpop":
		e, _ := sub(elems)
		return call("slice.PopLast (slice.PushLast %s %s)", extra(1)[0].fo(r, used, true), e), false, path
	case "append":
		k := r.Intn(n + 1)
		e1, _ := sub(elems[:k])
		e2, _ := sub(elems[k:])
		return call("slice.Append %s %s", e1, e2), n == 0, path
	case "concat", "collect":
		k := r.Intn(n + 1)
		var pieces []string
		for _, part := range [][]*c10Val{elems[:k], elems[k:]} {
			e, _ := sub(part)
			pieces = append(pieces, e)
		}
		if r.Chance(1, 3) {
			e, _ := sub(nil)
			pieces = append(pieces, e)
		}
		if path == "concat" {
			return call("slice.Concat [%s]", strings.Join(pieces, "; ")), n == 0, path
		}
		return call("slice.Collect (fun x -> x) [%s]", strings.Join(pieces, "; ")), n == 0, path
	case "collectnone":
		used[et.mangle()] = et
		return call("slice.Collect none_%s [1; 2]", et.mangle()), true, path
	case "map":
		e, _ := sub(elems)
		return call("slice.Map (fun x -> x) %s", e), n == 0, path
	case "mapi":
		used[et.mangle()] = et
		e, _ := sub(elems)
		return call("slice.Mapi second_%s %s", et.mangle(), e), n == 0, path
	case "zip":
		t0 := &c10Type{Kind: "slice", Elems: []*c10Type{et.Elems[0]}}
		t1 := &c10Type{Kind: "slice", Elems: []*c10Type{et.Elems[1]}}
		var xs, ys []*c10Val
		for _, e := range elems {
			xs = append(xs, e.Elems[0])
			ys = append(ys, e.Elems[1])
		}
		e0, _ := subT(t0, xs)
		e1, _ := subT(t1, ys)
		return call("slice.Zip %s %s", e0, e1), n == 0, path
	case "sort", "sortby":
		sh := append([]*c10Val{}, elems...)
		for i := len(sh) - 1; i > 0; i-- {
			j := r.Intn(i + 1)
			sh[i], sh[j] = sh[j], sh[i]
		}
		e, nl := sub(sh)
		if path == "sort" {
			return call("slice.Sort %s", e), n == 0 && nl, path
		}
		return call("slice.SortBy idI %s", e), n == 0 && nl, path
	case "distinct":
		in := append([]*c10Val{}, elems...)
		for i := 0; n > 0 && i < r.Intn(3); i++ {
			in = append(in, elems[r.Intn(n)])
		}
		e, _ := sub(in)
		return call("slice.Distinct %s", e), false, path
	case "dictkeys":
		if n == 0 {
			return call("dict.Keys (dict.New<%s, int> ())", et.fo()), true, path
		}
		return call("dict.Keys (dict.ToDict [(%s, %d)])", elems[0].fo(r, used, true), r.Intn(9)), false, path
	case "dictvalues":
		if n == 0 {
			return call("dict.Values (dict.New<int, %s> ())", et.fo()), true, path
		}
		return call("dict.Values (dict.ToDict [(%d, %s)])", r.Intn(9), elems[0].fo(r, used, true)), false, path
	case "dictkvs":
		if n == 0 {
			return call("dict.KVs (dict.New<%s, %s> ())", et.Elems[0].fo(), et.Elems[1].fo()), true, path
		}
		return call("dict.KVs (dict.ToDict [%s])", elems[0].fo(r, used, true)), false, path
	}
	panic("path " + path)
}

// the Go representation fc and the library produce, as the model's s-expression
func (v *c10Val) sexp() string {
	var xs []string
	for _, e := range v.Elems {
		xs = append(xs, e.sexp())
	}
	tail := ""
	if len(xs) > 0 {
		tail = " " + strings.Join(xs, " ")
	}
	switch v.T.Kind {
	case "int":
		return fmt.Sprintf("(int %d)", v.I)
	case "string":
		return "(str " + Sq(v.S) + ")"
	case "bool":
		return fmt.Sprintf("(bool %v)", v.B)
	case "tuple":
		return "(tuple" + tail + ")"
	case "record":
		var fs []string
		for _, f := range v.T.Fields {
			fs = append(fs, Sq(f))
		}
		return fmt.Sprintf("(rec %s (%s)%s)", Sq(v.T.Name), strings.Join(fs, " "), tail)
	case "union":
		return fmt.Sprintf("(union %s %s%s)", Sq(v.T.Name), Sq(v.T.Cases[v.Case]), tail)
	}
	// nil: a result slice that was never appended to (Take 0, Skip of everything, Filter of nothing,
	// Collect/Concat/Append/Map of nothing, the keys of an empty dict, frt.Empty ...); set by fo
	rep := "non"
	if v.Nil {
		rep = "nil"
	}
	return "(slice " + rep + tail + ")"
}

type c10Group struct {
	Idx     int
	T       *c10Type
	A, B, C *c10Val
	Kind    string // paths | derived | holder
	Src     string // the function cmp<Idx>
}

var c10Labels = []string{"ab", "ba", "bc", "ac", "aa", "nab", "ncb"}

// fc allocates one type variable per generic call and allows 100 per function (an accepted-language
// limit): a group uses at most c10CallBudget library calls, else it is generated again, smaller
const c10CallBudget = 45

func c10GenGroup(r *Rng, env *c10Env, idx int, used map[string]*c10Type) *c10Group {
	for depth := 3; ; depth-- {
		g := c10GenGroupAt(r, env, idx, used, depth)
		if strings.Count(g.Src, "slice.")+strings.Count(g.Src, "dict.")+strings.Count(g.Src, "frt.Empty") <= c10CallBudget || depth < -3 {
			return g
		}
	}
}

func c10CmpSrc(idx int, prelude, a, b, cc string) string {
	return c10CmpSrcI(idx, prelude, a, b, cc, false)
}

// inline: the operands of every comparison are the expressions themselves (literal = literal), not
// variables bound to them
func c10CmpSrcI(idx int, prelude, a, b, cc string, inline bool) string {
	var sb strings.Builder
	if inline {
		fmt.Fprintf(&sb, "let cmp%d () =\n%s", idx, prelude)
	} else {
		fmt.Fprintf(&sb, "let cmp%d () =\n%s  let a = %s\n  let b = %s\n  let c = %s\n", idx, prelude, a, b, cc)
	}
	for _, l := range c10Labels {
		x, y, op := "a", "b", "="
		switch l {
		case "ba":
			x, y = "b", "a"
		case "bc":
			x, y = "b", "c"
		case "ac":
			x, y = "a", "c"
		case "aa":
			x, y = "a", "a"
		case "nab":
			op = "<>"
		case "ncb":
			x, y, op = "c", "b", "<>"
		}
		if inline {
			tr := map[string]string{"a": a, "b": b, "c": cc}
			x, y = tr[x], tr[y]
		}
		fmt.Fprintf(&sb, "  frt.Printf1 \"%d %s %%v\\n\" (%s %s %s)\n", idx, l, x, op, y)
	}
	sb.WriteString("\n")
	return sb.String()
}

func c10GenGroupAt(r *Rng, env *c10Env, idx int, used map[string]*c10Type, depth int) *c10Group {
	switch r.Intn(8) {
	case 0, 1:
		if g := c10GenDerived(r, env, idx, used, depth); g != nil {
			return g
		}
	case 3:
		// two spellings of one string (and a different string), literal against literal
		ts := &c10Type{Kind: "string"}
		g := &c10Group{Idx: idx, T: ts, Kind: "literals"}
		g.A = &c10Val{T: ts, S: Choose(r, []string{"A", "abc", "a b", "a\tb", "q\"r", "AB", "\x01z"})}
		g.B = &c10Val{T: ts, S: g.A.S}
		g.C = &c10Val{T: ts, S: Choose(r, []string{g.A.S, g.A.S + "A", "x41", "\\x41", "101"})}
		g.Src = c10CmpSrcI(idx, "", g.A.fo(r, used, true), g.B.fo(r, used, true), g.C.fo(r, used, true), true)
		return g
	case 2:
		// same case on both sides, equal leading components: a == fast path would panic here
		t := Choose(r, env.holders)
		g := &c10Group{Idx: idx, T: t, Kind: "holder"}
		g.A = c10GenVal(r, t, depth)
		g.B = c10Repath(r, g.A)
		g.C = c10Mutate(r, g.A)
		g.Src = c10CmpSrc(idx, "", g.A.fo(r, used, false), g.B.fo(r, used, false), g.C.fo(r, used, false))
		return g
	}
	td := depth
	if td < 0 {
		td = 0
	}
	t := c10GenType(r, env, td)
	if r.Chance(1, 2) && len(env.named) > 0 {
		t = Choose(r, env.named)
	}
	g := &c10Group{Idx: idx, T: t, Kind: "paths"}
	g.A = c10GenVal(r, t, depth)
	next := func(v *c10Val) *c10Val {
		switch r.Intn(5) {
		case 0, 1:
			return c10Repath(r, v)
		case 2, 3:
			return c10Mutate(r, v)
		}
		return c10GenVal(r, t, depth)
	}
	g.B = next(g.A)
	if r.Bool() {
		g.C = next(g.B)
	} else {
		g.C = next(g.A)
	}
	switch t.Kind {
	case "int", "string", "bool":
		// scalars also literal against literal (a compile-time shortcut would see the source spelling)
		if r.Chance(1, 2) {
			g.Kind = "literals"
			g.Src = c10CmpSrcI(idx, "", g.A.fo(r, used, true), g.B.fo(r, used, true), g.C.fo(r, used, true), true)
			return g
		}
	}
	g.Src = c10CmpSrc(idx, "", g.A.fo(r, used, false), g.B.fo(r, used, false), g.C.fo(r, used, false))
	return g
}

func c10SliceNodes(v *c10Val, out *[]*c10Val) {
	if v.T.Kind == "slice" && len(v.Elems) > 0 {
		*out = append(*out, v)
	}
	for _, e := range v.Elems {
		c10SliceNodes(e, out)
	}
}

// a deep copy of v in which the node target is replaced by repl
func c10CloneReplace(v, target, repl *c10Val) *c10Val {
	if v == target {
		return repl
	}
	w := *v
	w.Elems = nil
	w.Path, w.Nil, w.Force, w.Ref = "", false, "", ""
	for _, e := range v.Elems {
		w.Elems = append(w.Elems, c10CloneReplace(e, target, repl))
	}
	return &w
}

// a holds a slice bound to the variable s0; b and c hold slices DERIVED from s0 (PopLast / Tail share
// its backing array with another length, Take copies a prefix, PushLast onto PopLast rebuilds it)
func c10GenDerived(r *Rng, env *c10Env, idx int, used map[string]*c10Type, depth int) *c10Group {
	for try := 0; try < 6; try++ {
		td := depth
		if td < 1 {
			td = 1
		}
		t := c10GenType(r, env, td)
		if r.Chance(1, 2) {
			t = Choose(r, env.named)
		}
		a0 := c10GenVal(r, t, depth)
		var nodes []*c10Val
		c10SliceNodes(a0, &nodes)
		if len(nodes) == 0 {
			continue
		}
		node := Choose(r, nodes)
		n := len(node.Elems)
		s0 := c10Repath(r, node)
		if r.Bool() {
			s0.Force = "literal"
		}
		prelude := "  let s0 = " + s0.fo(r, used, false) + "\n"
		derive := func() *c10Val {
			d := &c10Val{T: node.T}
			cp := func(vs []*c10Val) []*c10Val {
				var out []*c10Val
				for _, e := range vs {
					out = append(out, c10Repath(r, e))
				}
				return out
			}
			switch r.Intn(6) {
			case 0, 1:
				d.Elems, d.Ref = cp(node.Elems[:n-1]), "(slice.PopLast s0)"
			case 2:
				d.Elems, d.Ref = cp(node.Elems[1:]), "(slice.Tail s0)"
			case 3:
				k := r.Intn(n)
				d.Elems, d.Ref, d.Nil = cp(node.Elems[:k]), fmt.Sprintf("(slice.Take %d s0)", k), k == 0
			case 4:
				if n >= 2 {
					d.Elems, d.Ref = cp(node.Elems[:n-2]), "(slice.PopLast (slice.PopLast s0))"
				} else {
					d.Elems, d.Ref = cp(node.Elems[:n-1]), "(slice.PopLast s0)"
				}
			default:
				last := c10Repath(r, node.Elems[n-1])
				d.Elems, d.Ref = cp(node.Elems), "(slice.PushLast "+last.fo(r, used, true)+" (slice.PopLast s0))"
			}
			return d
		}
		g := &c10Group{Idx: idx, T: t, Kind: "derived"}
		ref := c10Repath(r, node)
		ref.Ref, ref.Nil = "s0", s0.Nil
		g.A = c10CloneReplace(a0, node, ref)
		g.B = c10CloneReplace(a0, node, derive())
		g.C = c10CloneReplace(a0, node, derive())
		g.Src = c10CmpSrc(idx, prelude, g.A.fo(r, used, false), g.B.fo(r, used, false), g.C.fo(r, used, false))
		return g
	}
	return nil
}

func (g *c10Group) expected(label string) (x, y *c10Val, neg bool) {
	switch label {
	case "ab":
		return g.A, g.B, false
	case "ba":
		return g.B, g.A, false
	case "bc":
		return g.B, g.C, false
	case "ac":
		return g.A, g.C, false
	case "aa":
		return g.A, g.A, false
	case "nab":
		return g.A, g.B, true
	}
	return g.C, g.B, true
}

type c10Prog struct {
	Idx    int
	Env    *c10Env
	Groups []*c10Group
	Used   map[string]*c10Type
}

func (p *c10Prog) source(groups []*c10Group) string {
	var b strings.Builder
	b.WriteString("package main\n\nimport frt\nimport slice\nimport dict\n\n")
	b.WriteString(p.Env.decls())
	b.WriteString(p.Env.predDecls(p.Used))
	for _, g := range groups {
		b.WriteString(g.Src)
	}
	return b.String()
}

func c10Driver(groups []*c10Group) string {
	var b strings.Builder
	b.WriteString("package main\n\nimport \"fmt\"\n\nfunc guard(i int, f func()) {\n\tdefer func() {\n\t\tif r := recover(); r != nil {\n\t\t\tfmt.Printf(\"%d PANIC %.200q\\n\", i, fmt.Sprint(r))\n\t\t}\n\t}()\n\tf()\n}\n\nfunc main() {\n")
	for _, g := range groups {
		fmt.Fprintf(&b, "\tguard(%d, cmp%d)\n", g.Idx, g.Idx)
	}
	b.WriteString("}\n")
	return b.String()
}

// transpile + build + run; returns the printed lines per group index, or a build problem
func c10Exec(c *Ctx, dir string, src string, groups []*c10Group) (map[int]map[string]string, string, string) {
	os.RemoveAll(dir)
	os.MkdirAll(dir, 0o755)
	MustWrite(filepath.Join(dir, "m.fo"), src)
	MustWrite(filepath.Join(dir, "main.go"), c10Driver(groups))
	r := c.Fc(dir, c.PkgAllFoi(), "m.fo")
	if r.Exit != 0 || r.TimedOut {
		return nil, "fc", r.Stdout + r.Stderr
	}
	c.GoModFor(dir, "c10prog")
	if out, ok := c.GoBuild(dir); !ok {
		return nil, "go build", out
	}
	rr := Run(dir, 120*time.Second, 0, nil, filepath.Join(dir, "prog"))
	if rr.Exit != 0 || rr.TimedOut {
		return nil, "run", fmt.Sprintf("exit %d: %s", rr.Exit, rr.Stderr)
	}
	res := map[int]map[string]string{}
	for _, line := range strings.Split(rr.Stdout, "\n") {
		var idx int
		var label, val string
		if n, _ := fmt.Sscanf(line, "%d %s %s", &idx, &label, &val); n >= 2 {
			if res[idx] == nil {
				res[idx] = map[string]string{}
			}
			if label == "PANIC" {
				res[idx]["PANIC"] = line
			} else {
				res[idx][label] = val
			}
		}
	}
	return res, "", ""
}

func c10CheckGroup(c *Ctx, p *c10Prog, g *c10Group, got map[string]string) {
	or := c.Oracle()
	standalone := func() string { return p.source([]*c10Group{g}) }
	rep := func() map[string]any {
		return map[string]any{"program": standalone(), "driver": c10Driver([]*c10Group{g}), "printed": got, "type": g.T.fo(),
			"a": g.A.sexp(), "b": g.B.sexp(), "c": g.C.sexp()}
	}
	key := fmt.Sprintf("%s|%s|%s|%s", g.T.fo(), g.A.sexp(), g.B.sexp(), g.C.sexp())
	c.Eval(key, g.T.Kind != "int" && g.T.Kind != "string" && g.T.Kind != "bool")
	c.Count("type=" + g.T.Kind)
	c.Count("group=" + g.Kind)
	c10CountFeatures(c, g.A)
	c10CountFeatures(c, g.B)
	if pl, ok := got["PANIC"]; ok {
		c.Violate("panic", fmt.Sprintf("a comparison of two values of type %s panics: %s", g.T.fo(), pl), rep(), false)
		return
	}
	for _, l := range c10Labels {
		x, y, neg := g.expected(l)
		want := c10StructEq(x, y) != neg
		val, ok := got[l]
		if !ok {
			c.Violate("missing", fmt.Sprintf("comparison %s of group %d printed nothing", l, g.Idx), rep(), false)
			return
		}
		if val != fmt.Sprint(want) {
			op := "="
			if neg {
				op = "<>"
			}
			c.Violate("prop", fmt.Sprintf("%s %s %s printed %s for values of type %s that are structurally %s: x=%s y=%s", "x", op, "y", val, g.T.fo(),
				map[bool]string{true: "equal", false: "different"}[c10StructEq(x, y)], x.sexp(), y.sexp()), rep(), false)
			return
		}
		req := "eq"
		if neg {
			req = "neq"
		}
		m := or.Ask("C10", fmt.Sprintf("(%s %s %s)", req, x.sexp(), y.sexp()))
		c.Compared(1)
		if m != val {
			c.Disagree()
			r := rep()
			r["broken"] = "correspondence Core/Equality.v go_equal vs frt.OpEqual through fc"
			r["model"], r["label"] = m, l
			c.Violate("corr", fmt.Sprintf("model and program disagree on comparison %s of a %s: model %s, program %s", l, g.T.fo(), m, val), r, true)
			return
		}
		if c10StructEq(x, y) {
			c.Count("result=equal")
		} else {
			c.Count("result=different")
		}
	}
	// the laws, on the printed results only
	law := ""
	switch {
	case got["aa"] != "true":
		law = "reflexivity: a = a printed " + got["aa"]
	case got["ab"] != got["ba"]:
		law = "symmetry: a = b printed " + got["ab"] + " but b = a printed " + got["ba"]
	case got["ab"] == "true" && got["bc"] == "true" && got["ac"] != "true":
		law = "transitivity: a = b and b = c but a = c printed " + got["ac"]
	case got["nab"] == got["ab"]:
		law = "negation: a = b and a <> b both printed " + got["ab"]
	}
	if law != "" {
		c.Violate("law", law+" (type "+g.T.fo()+")", rep(), false)
	}
}

func c10CountFeatures(c *Ctx, v *c10Val) {
	switch v.T.Kind {
	case "slice":
		if v.Ref != "" {
			c.Count("slice=derived_from_variable")
		}
		if len(v.Elems) == 0 {
			c.Count("slice=empty")
			if v.Nil {
				c.Count("slice=empty_nil")
			} else {
				c.Count("slice=empty_non_nil")
			}
		}
	case "record":
		for _, f := range v.T.Fields {
			if f[0] >= 'a' && f[0] <= 'z' {
				c.Count("record_field=lower_case")
			} else {
				c.Count("record_field=upper_case")
			}
		}
	case "union":
		c.Count("value=union")
	case "tuple":
		c.Count("value=tuple")
	}
	for _, e := range v.Elems {
		c10CountFeatures(c, e)
	}
}

func runC10(c *Ctx) {
	rng := NewRng(c.Seed)
	c.Res.Rule = "programs with 10 generated record/union types each (1-3 fields/cases, field names lower-case, upper-case or mixed, payloads and fields of nested tuple/slice/record/union types) and groups of three values (a, b, c) of one generated type: " +
		"b, c are a re-pathed copy (same contents, slices rebuilt by literal / slice.New / Take / Skip / Filter), a one-place mutation, or independent; 7 comparisons per group; " +
		"non-trivial = the compared type is not a base type; distinct by (type, a, b, c)"
	if c.Replay != "" {
		c10Replay(c)
		return
	}
	nprog := c.Pick(2, 60)
	per := c.Pick(75, 340)
	progs := make([]*c10Prog, nprog)
	for i := range progs {
		p := &c10Prog{Idx: i, Env: c10GenEnv(rng, i, 10), Used: map[string]*c10Type{}}
		for g := 0; g < per; g++ {
			p.Groups = append(p.Groups, c10GenGroup(rng, p.Env, i*1000+g, p.Used))
		}
		progs[i] = p
	}
	// fixed corpus: the two repaired findings, spelled out
	progs[0].Groups = append(progs[0].Groups, c10Corpus(progs[0].Env, progs[0].Used)...)
	results := make([]map[int]map[string]string, nprog)
	stage := make([]string, nprog)
	detail := make([]string, nprog)
	Parallel(nprog, func(i int) {
		results[i], stage[i], detail[i] = c10Exec(c, filepath.Join(c.Work, fmt.Sprintf("prog%d", i)), progs[i].source(progs[i].Groups), progs[i].Groups)
	})
	c.Lap("build+run")
	for i, p := range progs {
		if stage[i] != "" {
			c10BuildFailure(c, p, stage[i], detail[i])
			continue
		}
		for _, g := range p.Groups {
			c10CheckGroup(c, p, g, results[i][g.Idx])
		}
		if i == 0 {
			c.Sample(map[string]any{"program_excerpt": p.source(p.Groups[:2])})
		}
	}
	c.Lap("compare")
	for k, n := range c10PathCount {
		c.CountN("slice_path="+k, n)
	}
}

// a batch did not transpile / compile / run to the end: find the groups responsible one level down
// (halves), so that the replay is small; a failure is not agreement
func c10BuildFailure(c *Ctx, p *c10Prog, stage, detail string) {
	gs := p.Groups
	n := 0
	small := Ddmin(gs, func(xs []*c10Group) bool {
		n++
		if n > 14 {
			return false
		}
		_, st, _ := c10Exec(c, filepath.Join(c.Work, fmt.Sprintf("shrink%d_%d", p.Idx, n)), p.source(xs), xs)
		return st != ""
	})
	_, st, det := c10Exec(c, filepath.Join(c.Work, fmt.Sprintf("shrink%d_f", p.Idx)), p.source(small), small)
	if st == "" {
		small, st, det = gs, stage, detail
	}
	c.Violate("build", fmt.Sprintf("generated comparison programs fail at stage %q: %s", st, firstLine(det)),
		map[string]any{"broken": "generated comparison program does not reach its end (" + st + ")", "program": p.source(small), "driver": c10Driver(small), "output": det}, st != "run")
}

// hand-written corpus: lower-case record fields; nil vs empty by every pair of paths
func c10Corpus(env *c10Env, used map[string]*c10Type) []*c10Group {
	var out []*c10Group
	ti := &c10Type{Kind: "int"}
	ts := &c10Type{Kind: "slice", Elems: []*c10Type{ti}}
	paths := []string{"new", "take", "skip", "filter", "empty", "collectnone", "concat", "append", "map", "dictkeys", "sort", "mapi", "tail", "poplast", "dictvalues", "distinct"}
	idx := 900000
	r := NewRng(7)
	mk := func(t *c10Type, a, b, cc *c10Val) {
		g := &c10Group{Idx: idx, T: t, A: a, B: b, C: cc, Kind: "corpus"}
		idx++
		g.Src = c10CmpSrc(g.Idx, "", a.fo(r, used, false), b.fo(r, used, false), cc.fo(r, used, false))
		out = append(out, g)
	}
	for i, pa := range paths {
		pb := paths[(i+1)%len(paths)]
		pc := paths[(i+2)%len(paths)]
		mk(ts, &c10Val{T: ts, Force: pa}, &c10Val{T: ts, Force: pb}, &c10Val{T: ts, Force: pc})
	}
	for _, t := range env.named {
		if t.Kind == "record" {
			a := c10GenVal(r, t, 2)
			mk(t, a, c10Repath(r, a), c10Mutate(r, a))
		}
	}
	return out
}

func c10Replay(c *Ctx) {
	var doc struct {
		Replay struct {
			Program string            `json:"program"`
			Driver  string            `json:"driver"`
			Printed map[string]string `json:"printed"`
		} `json:"replay"`
	}
	b, err := os.ReadFile(c.Replay)
	if err != nil {
		panic(err)
	}
	if err := jsonUnmarshal(b, &doc); err != nil || doc.Replay.Program == "" {
		panic("replay file has no program")
	}
	dir := filepath.Join(c.Work, "replay")
	os.MkdirAll(dir, 0o755)
	MustWrite(filepath.Join(dir, "m.fo"), doc.Replay.Program)
	MustWrite(filepath.Join(dir, "main.go"), doc.Replay.Driver)
	r := c.Fc(dir, c.PkgAllFoi(), "m.fo")
	if r.Exit != 0 {
		c.Violate("build", "replayed program is rejected by fc: "+firstLine(r.Stdout), map[string]any{"program": doc.Replay.Program, "driver": doc.Replay.Driver}, true)
		return
	}
	c.GoModFor(dir, "c10prog")
	if out, ok := c.GoBuild(dir); !ok {
		c.Violate("build", "replayed program does not compile: "+firstLine(out), map[string]any{"program": doc.Replay.Program, "driver": doc.Replay.Driver}, true)
		return
	}
	rr := Run(dir, 60*time.Second, 0, nil, filepath.Join(dir, "prog"))
	got := map[string]string{}
	for _, line := range strings.Split(rr.Stdout, "\n") {
		var idx int
		var label, val string
		if n, _ := fmt.Sscanf(line, "%d %s %s", &idx, &label, &val); n >= 2 {
			got[label] = val
		}
	}
	c.Eval(doc.Replay.Program, true)
	law := ""
	switch {
	case got["PANIC"] != "" || strings.Contains(rr.Stdout, "PANIC"):
		law = "a comparison panics: " + firstLine(rr.Stdout)
	case got["aa"] != "true":
		law = "reflexivity"
	case got["ab"] != got["ba"]:
		law = "symmetry"
	case got["ab"] == "true" && got["bc"] == "true" && got["ac"] != "true":
		law = "transitivity"
	case got["nab"] == got["ab"]:
		law = "negation"
	}
	same := fmt.Sprint(got) == fmt.Sprint(doc.Replay.Printed)
	if law != "" || same && len(doc.Replay.Printed) > 0 {
		c.Violate("replay", "the replayed program still prints the recorded results: "+law+" "+fmt.Sprint(got),
			map[string]any{"program": doc.Replay.Program, "driver": doc.Replay.Driver, "printed": got}, false)
	}
}

func init() { Register("C10", runC10) }
