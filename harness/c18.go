package main

// C18: build_sample_md renders every listed sample verbatim, in order.
// Random directories (0..12 entries, titles with spaces, entries without title, blank lines,
// missing files, contents with back-ticks, %, CRLF, no trailing newline) are given to the REAL tool
// binary built from the scratch tree (c.Bin/build_sample_md <dir>/filelist.txt; it writes
// <dir>/README.md). README.md bytes, exit status and stdout are compared with (1) a reference
// written here from the property's text and (2) the Coq model (oracle). A listed file that cannot
// be read must make the tool fail without writing README.md.
// Half of the directories are processed in a short HISTORY (2-3 runs of the tool in the same directory,
// the list and the samples edited in between: entry removed / added, sample shortened / lengthened, a
// file made unreadable and readable again, the list emptied): after EVERY run README.md must be, byte
// for byte, the rendering of the CURRENT list (nothing of an older, longer README.md may survive), and
// a failing run must leave README.md exactly as the previous run left it.

import (
	"fmt"
	"os"
	"path/filepath"
	"strings"
	"time"
)

type c18Entry struct {
	Name     string `json:"name"`
	Title    string `json:"title"`
	HasTitle bool   `json:"has_title"`
	Blank    int    `json:"blank_lines_before"`
}

type c18Case struct {
	Entries    []c18Entry        `json:"entries"`
	Files      map[string]string `json:"files"` // readable files: name -> content
	Dirs       []string          `json:"dirs"`  // names that exist as directories (unreadable)
	CRLF       bool              `json:"crlf"`
	TrailingNL bool              `json:"trailing_newline"`
	TailBlank  int               `json:"blank_lines_at_end"`
}

func (k *c18Case) listText() string {
	eol := "\n"
	if k.CRLF {
		eol = "\r\n"
	}
	var lines []string
	for _, e := range k.Entries {
		for i := 0; i < e.Blank; i++ {
			lines = append(lines, "")
		}
		l := e.Name
		if e.HasTitle {
			l += " " + e.Title
		}
		lines = append(lines, l)
	}
	for i := 0; i < k.TailBlank; i++ {
		lines = append(lines, "")
	}
	s := strings.Join(lines, eol)
	if k.TrailingNL && len(lines) > 0 {
		s += eol
	}
	return s
}

// reference rendering written from the property's text: header, then for every non-empty line, in
// order, a section; ok=false with the first unreadable name
func c18Reference(list string, files map[string]string) (readme string, processed []string, failName string, ok bool) {
	var sb strings.Builder
	sb.WriteString("## Folang Sample \n\n\n")
	first := true
	start := 0
	var lines []string
	for i := 0; i <= len(list); i++ {
		if i == len(list) || list[i] == '\n' {
			lines = append(lines, list[start:i])
			start = i + 1
		}
	}
	for _, line := range lines {
		if line == "" {
			continue
		}
		name, title := line, line
		for i := 0; i < len(line); i++ {
			if line[i] == ' ' {
				name, title = line[:i], line[i+1:]
				break
			}
		}
		processed = append(processed, name)
		content, readable := files[name]
		if !readable {
			return "", processed, name, false
		}
		base := name
		if len(name) >= 3 && name[len(name)-3:] == ".fo" {
			base = name[:len(name)-3]
		}
		if !first {
			sb.WriteString("\n")
		}
		first = false
		sb.WriteString("### " + title + "\n\n```\n" + content + "\n```\n\n")
		sb.WriteString("generated go: [gen_" + base + ".go](./gen_" + base + ".go)\n\n")
	}
	return sb.String(), processed, "", true
}

var c18Names = []string{"a.fo", "b.fo", "two_func.fo", "noext", "x.fo.fo", "c.txt", ".fo", "d.fo", "e1.fo", "sub/in.fo", "日本.fo", "%s.fo", "fo"}

func c18Content(r *Rng) string {
	atoms := []string{"package main\n", "let main () =\n", "  frt.Println \"x\"\n", "```", "`raw`", "100%", "%s%d", "\r\n", "\n", "\n\n", "é", "x", " ", "\t", "### not a title\n", "```\n"}
	n := r.Intn(8)
	var sb strings.Builder
	for i := 0; i < n; i++ {
		sb.WriteString(Choose(r, atoms))
	}
	return sb.String()
}

func c18Gen(r *Rng) *c18Case {
	k := &c18Case{Files: map[string]string{}, CRLF: r.Chance(1, 8), TrailingNL: r.Chance(3, 4), TailBlank: Choose(r, []int{0, 0, 0, 1, 2})}
	n := Choose(r, []int{0, 1, 1, 2, 3, 3, 4, 5, 6, 8, 10, 12})
	missing := r.Chance(1, 5)
	for i := 0; i < n; i++ {
		e := c18Entry{Name: Choose(r, c18Names), Blank: Choose(r, []int{0, 0, 0, 0, 1, 2})}
		switch r.Intn(7) {
		case 0:
			e.HasTitle = false
		case 1:
			e.HasTitle, e.Title = true, ""
		case 2:
			e.HasTitle, e.Title = true, " leading space"
		case 3:
			e.HasTitle, e.Title = true, Choose(r, []string{"Two  spaces", "100% `tick`", "é title", "a.fo", "### x", "trailing "})
		default:
			e.HasTitle, e.Title = true, Choose(r, []string{"Record", "Two function example", "Using go package.", "Match with no value", "T"})
		}
		if i == 0 && r.Chance(1, 30) {
			e.Name = "" // a line that starts with a space: the file name is empty
			e.HasTitle, e.Title = true, "orphan title"
		}
		k.Entries = append(k.Entries, e)
		fname := e.Name
		if k.CRLF && !e.HasTitle {
			fname += "\r" // the carriage return belongs to the last column
		}
		if fname == "" {
			continue
		}
		if missing && r.Chance(1, 3) {
			if r.Chance(1, 4) && !strings.Contains(fname, "/") {
				if _, isFile := k.Files[fname]; !isFile {
					k.Dirs = append(k.Dirs, fname)
				}
			}
			continue
		}
		isDir := false
		for _, d := range k.Dirs {
			if d == fname {
				isDir = true
			}
		}
		if _, have := k.Files[fname]; !have && !isDir {
			k.Files[fname] = c18Content(r)
		}
	}
	return k
}

type c18Obs struct {
	exit       int
	stdout     string
	stderr     string
	readme     string
	hasReadme  bool
	timedOut   bool
	setupError string
}

func c18Run(c *Ctx, k *c18Case, idx int) c18Obs {
	return c18RunHistory(c, []*c18Case{k}, idx)[0]
}

// runs the steps of a history in ONE directory: before each run the samples and the list are replaced
// by the step's, README.md is left as the previous run left it
func c18RunHistory(c *Ctx, steps []*c18Case, idx int) []c18Obs {
	dir := filepath.Join(c.Work, fmt.Sprintf("d%d", idx))
	os.RemoveAll(dir)
	os.MkdirAll(dir, 0o755)
	defer os.RemoveAll(dir)
	var out []c18Obs
	for _, k := range steps {
		if ents, err := os.ReadDir(dir); err == nil {
			for _, e := range ents {
				if e.Name() != "README.md" && e.Name() != "filelist.txt" {
					os.RemoveAll(filepath.Join(dir, e.Name()))
				}
			}
		}
		for name, content := range k.Files {
			MustWrite(filepath.Join(dir, name), content)
		}
		for _, d := range k.Dirs {
			os.MkdirAll(filepath.Join(dir, d), 0o755)
		}
		// an unchanged list file is left untouched (it stays older than the README.md of the previous run)
		if b, err := os.ReadFile(filepath.Join(dir, "filelist.txt")); err != nil || string(b) != k.listText() {
			MustWrite(filepath.Join(dir, "filelist.txt"), k.listText())
		}
		r := Run(c.Work, 20*time.Second, 0, nil, filepath.Join(c.Bin, "build_sample_md"), filepath.Join(dir, "filelist.txt"))
		o := c18Obs{exit: r.Exit, stdout: r.Stdout, stderr: r.Stderr, timedOut: r.TimedOut}
		if b, err := os.ReadFile(filepath.Join(dir, "README.md")); err == nil {
			o.readme, o.hasReadme = string(b), true
		}
		out = append(out, o)
	}
	return out
}

func (k *c18Case) clone() *c18Case {
	w := *k
	w.Entries = append([]c18Entry{}, k.Entries...)
	w.Dirs = append([]string{}, k.Dirs...)
	w.Files = map[string]string{}
	for n, ct := range k.Files {
		w.Files[n] = ct
	}
	return &w
}

func (k *c18Case) fileOf(e c18Entry) string {
	if k.CRLF && !e.HasTitle {
		return e.Name + "\r"
	}
	return e.Name
}

// the next step of a history: the same directory after an edit (shrinking edits are favoured: the
// new README.md is then shorter than the one already there)
func c18Edit(r *Rng, k *c18Case, first *c18Case) (*c18Case, string) {
	w := k.clone()
	listed := func() []string {
		var xs []string
		for _, e := range w.Entries {
			if _, ok := w.Files[w.fileOf(e)]; ok {
				xs = append(xs, w.fileOf(e))
			}
		}
		return xs
	}
	switch r.Intn(12) {
	case 0, 1, 2:
		if len(w.Entries) > 0 {
			i := r.Intn(len(w.Entries))
			w.Entries = append(w.Entries[:i], w.Entries[i+1:]...)
			return w, "entry_removed"
		}
	case 3, 4:
		if xs := listed(); len(xs) > 0 {
			n := Choose(r, xs)
			w.Files[n] = w.Files[n][:len(w.Files[n])/3]
			return w, "content_shortened"
		}
	case 5:
		keep := r.Intn(2)
		if len(w.Entries) > keep {
			w.Entries = w.Entries[:keep]
			return w, "list_cut"
		}
	case 6:
		if xs := listed(); len(xs) > 0 {
			n := Choose(r, xs)
			w.Files[n] += c18Content(r) + "more\n"
			return w, "content_lengthened"
		}
	case 7:
		e := c18Entry{Name: fmt.Sprintf("new%d.fo", r.Intn(100)), HasTitle: r.Bool(), Title: "Added later"}
		w.Files[w.fileOf(e)] = c18Content(r)
		at := r.Intn(len(w.Entries) + 1)
		w.Entries = append(w.Entries[:at], append([]c18Entry{e}, w.Entries[at:]...)...)
		return w, "entry_added"
	case 8, 9:
		if xs := listed(); len(xs) > 0 {
			delete(w.Files, Choose(r, xs))
			return w, "file_made_unreadable"
		}
	case 10:
		if first != nil && first != k {
			return first.clone(), "back_to_first_state"
		}
	}
	return w, "rerun_unchanged"
}

// the property, checked directly on one observation ("" = holds)
func c18Property(k *c18Case, o c18Obs) string { return c18PropertyAfter(k, o, c18Obs{}) }

// prev: the observation of the previous run in the same directory (zero value: none, no README.md)
func c18PropertyAfter(k *c18Case, o c18Obs, prev c18Obs) string {
	want, processed, failName, ok := c18Reference(k.listText(), k.Files)
	if o.timedOut {
		return "the tool did not terminate"
	}
	var wantOut strings.Builder
	for _, p := range processed {
		wantOut.WriteString("process: " + p + "\n")
	}
	if ok {
		if o.exit != 0 {
			return fmt.Sprintf("every listed file is readable but the tool exits with status %d: %s", o.exit, c18PanicLine(o.stderr))
		}
		if !o.hasReadme {
			return "exit status 0 but README.md was not written"
		}
		if o.readme != want {
			if prev.hasReadme && len(o.readme) > len(want) && o.readme[:len(want)] == want && strings.HasSuffix(prev.readme, o.readme[len(want):]) {
				return fmt.Sprintf("README.md is the rendering of the current list followed by %d stale bytes of the README.md of the previous run: ...%q", len(o.readme)-len(want), c18Around(o.readme, want))
			}
			return fmt.Sprintf("README.md differs from header + sections in list order (first difference at byte %d): got %q, expected %q", c18FirstDiff(o.readme, want), c18Around(o.readme, want), c18Around(want, o.readme))
		}
		if o.stdout != wantOut.String() {
			return fmt.Sprintf("files were processed in the order %q, the list order is %q", o.stdout, wantOut.String())
		}
		return ""
	}
	if o.exit == 0 {
		return fmt.Sprintf("listed file %q cannot be read but the tool exits with status 0", failName)
	}
	if o.hasReadme != prev.hasReadme || o.readme != prev.readme {
		if !prev.hasReadme {
			return fmt.Sprintf("listed file %q cannot be read but a README.md was written (%d bytes)", failName, len(o.readme))
		}
		return fmt.Sprintf("listed file %q cannot be read but the README.md of the previous run was changed (%d -> %d bytes)", failName, len(prev.readme), len(o.readme))
	}
	if !strings.Contains(o.stderr, "Can't open file "+failName) {
		return fmt.Sprintf("the failure does not name the first unreadable file %q: %s", failName, c18PanicLine(o.stderr))
	}
	return ""
}

func c18PanicLine(stderr string) string {
	for _, l := range strings.Split(stderr, "\n") {
		if strings.HasPrefix(l, "panic:") {
			return l
		}
	}
	return firstLine(stderr)
}

func c18FirstDiff(a, b string) int {
	i := 0
	for i < len(a) && i < len(b) && a[i] == b[i] {
		i++
	}
	return i
}
func c18Around(a, b string) string {
	i := c18FirstDiff(a, b)
	lo, hi := i-20, i+30
	if lo < 0 {
		lo = 0
	}
	if hi > len(a) {
		hi = len(a)
	}
	return a[lo:hi]
}

func (k *c18Case) oracleReq() string {
	var fl []string
	for _, name := range SortedKeys(k.Files) {
		fl = append(fl, fmt.Sprintf("(%s %s)", Sq("D/"+name), Sq(k.Files[name])))
	}
	return fmt.Sprintf("(render \"D\" %s (%s))", Sq(k.listText()), strings.Join(fl, " "))
}

func c18Check(c *Ctx, k *c18Case, o c18Obs, idx int) {
	list := k.listText()
	key := fmt.Sprintf("%q|%v|%v", list, k.Files, k.Dirs)
	c.Eval(key, len(k.Entries) > 0)
	c.Count(fmt.Sprintf("entries=%d", len(k.Entries)))
	if k.CRLF {
		c.Count("feature=crlf")
	}
	if !k.TrailingNL {
		c.Count("feature=no_trailing_newline")
	}
	for _, e := range k.Entries {
		if !e.HasTitle {
			c.Count("feature=entry_without_title")
		} else if strings.Contains(e.Title, " ") {
			c.Count("feature=title_with_spaces")
		}
		if e.Blank > 0 {
			c.Count("feature=blank_lines")
		}
	}
	for _, ct := range k.Files {
		if strings.Contains(ct, "`") {
			c.Count("feature=content_backtick")
		}
		if strings.Contains(ct, "%") {
			c.Count("feature=content_percent")
		}
		if ct != "" && !strings.HasSuffix(ct, "\n") {
			c.Count("feature=content_no_trailing_newline")
		}
	}
	_, _, _, ok := c18Reference(list, k.Files)
	if ok {
		c.Count("outcome=rendered")
	} else {
		c.Count("outcome=unreadable_file")
	}
	bad := c18Property(k, o)
	if bad != "" {
		// shrink the entry list while the property keeps failing on the real tool (first violation only:
		// every probe is a process)
		small := *k
		n := 0
		if len(c.Res.Violations) > 0 {
			n = 1000
		}
		small.Entries = Ddmin(k.Entries, func(es []c18Entry) bool {
			n++
			if n > 40 {
				return false
			}
			t := *k
			t.Entries = es
			return c18Property(&t, c18Run(c, &t, 100000+idx*100+n)) != ""
		})
		so := c18Run(c, &small, 100000+idx*100+99)
		if b2 := c18Property(&small, so); b2 != "" {
			bad = b2
		} else {
			small, so = *k, o
		}
		c.Violate("prop", bad, map[string]any{"case": small, "filelist.txt": small.listText(), "exit": so.exit, "readme": so.readme, "stderr": c18PanicLine(so.stderr)}, false)
		return
	}
	// model vs tool
	m := c.Oracle().Ask("C18", k.oracleReq())
	c.Compared(1)
	agree := false
	if strings.HasPrefix(m, "ok ") {
		agree = o.exit == 0 && o.hasReadme && Unsq(m[3:]) == o.readme
	} else if strings.HasPrefix(m, "panic ") {
		agree = o.exit != 0 && !o.hasReadme && strings.Contains(o.stderr, "panic: "+Unsq(m[6:]))
	}
	if !agree {
		c.Disagree()
		c.Violate("corr", "model SampleMd.v and the tool disagree although the property holds on this input: model "+m[:min(len(m), 120)],
			map[string]any{"broken": "correspondence Driver/SampleMd.v vs build_sample_md", "case": k, "filelist.txt": list, "model": m, "exit": o.exit, "readme": o.readme, "stderr": c18PanicLine(o.stderr)}, true)
	}
}

func c18HistoryReq(steps []*c18Case) string {
	var runs []string
	for _, k := range steps {
		var fl []string
		for _, name := range SortedKeys(k.Files) {
			fl = append(fl, fmt.Sprintf("(%s %s)", Sq("D/"+name), Sq(k.Files[name])))
		}
		runs = append(runs, fmt.Sprintf("(%s (%s))", Sq(k.listText()), strings.Join(fl, " ")))
	}
	return "(history \"D\" (" + strings.Join(runs, " ") + "))"
}

func c18CheckHistory(c *Ctx, steps []*c18Case, edits []string, obs []c18Obs, idx int) {
	var keys []string
	for _, k := range steps {
		keys = append(keys, fmt.Sprintf("%q|%v|%v", k.listText(), k.Files, k.Dirs))
	}
	c.Eval("history|"+strings.Join(keys, "||"), true)
	c.Count(fmt.Sprintf("history_runs=%d", len(steps)))
	for _, e := range edits {
		c.Count("edit=" + e)
	}
	prev := c18Obs{}
	for i, k := range steps {
		if i > 0 {
			want, _, _, ok := c18Reference(k.listText(), k.Files)
			switch {
			case !ok:
				c.Count("rerun=failing_run_after_a_README")
			case prev.hasReadme && len(want) < len(prev.readme):
				c.Count("rerun=README_shrinks")
			case prev.hasReadme && len(want) > len(prev.readme):
				c.Count("rerun=README_grows")
			default:
				c.Count("rerun=README_same_length_or_first")
			}
		}
		if bad := c18PropertyAfter(k, obs[i], prev); bad != "" {
			// smallest history that still fails: the previous run and this one, in a fresh directory
			rep := steps[:i+1]
			ro := obs[:i+1]
			if i > 1 {
				two := []*c18Case{steps[i-1], steps[i]}
				to := c18RunHistory(c, two, 200000+idx)
				if b2 := c18PropertyAfter(two[1], to[1], to[0]); b2 != "" && c18PropertyAfter(two[0], to[0], c18Obs{}) == "" {
					rep, ro, bad = two, to, b2
				}
			}
			var lists, readmes []string
			for j, st := range rep {
				lists = append(lists, st.listText())
				readmes = append(readmes, ro[j].readme)
			}
			c.Violate("history", fmt.Sprintf("run %d of a history in one directory: %s", len(rep), bad),
				map[string]any{"history": rep, "filelists": lists, "readme_after_each_run": readmes, "exit_last": ro[len(ro)-1].exit, "stderr_last": c18PanicLine(ro[len(ro)-1].stderr)}, false)
			return
		}
		prev = obs[i]
	}
	// model vs tool: README.md after every run
	m := strings.Split(c.Oracle().Ask("C18", c18HistoryReq(steps)), "\t")
	c.Compared(len(steps))
	for i := range steps {
		agree := i < len(m) && (m[i] == "none" && !obs[i].hasReadme || strings.HasPrefix(m[i], "ok ") && obs[i].hasReadme && Unsq(m[i][3:]) == obs[i].readme)
		if !agree {
			c.Disagree()
			c.Violate("corr-history", fmt.Sprintf("model SampleMd.v (tool_history) and the tool disagree on README.md after run %d although the property holds", i+1),
				map[string]any{"broken": "correspondence Driver/SampleMd.v history_files vs build_sample_md", "history": steps, "model": m, "readme": obs[i].readme}, true)
			return
		}
	}
}

func runC18(c *Ctx) {
	rng := NewRng(c.Seed)
	c.Res.Rule = "directories with 0..12 list entries over 13 file names (with/without .fo, nested, multi-byte, %), titles (none, empty, with spaces, leading space, back-ticks, %), blank lines, CRLF lists, " +
		"with/without final newline, missing files and directories in place of files, contents with fences, %, CRLF, no trailing newline; one process of the real tool per case; " +
		"plus histories of 2-3 runs in one directory (edits between the runs: entry removed/added, sample shortened/lengthened, list cut to 0-1 entries, file made unreadable, back to the first state, unchanged re-run), README.md compared after every run; " +
		"non-trivial = at least one entry; distinct by (list file bytes, files) per run"
	var cases []*c18Case
	if c.Replay != "" {
		cases = c18LoadReplay(c.Replay)
	} else {
		// boundary corpus: the repository's own list
		if b, err := os.ReadFile(filepath.Join(c.Tree, "samples", "filelist.txt")); err == nil {
			k := &c18Case{Files: map[string]string{}, TrailingNL: false}
			for _, line := range strings.Split(string(b), "\n") {
				if line == "" {
					continue
				}
				name, title, has := strings.Cut(line, " ")
				k.Entries = append(k.Entries, c18Entry{Name: name, Title: title, HasTitle: has})
				if ct, err := os.ReadFile(filepath.Join(c.Tree, "samples", name)); err == nil {
					k.Files[name] = string(ct)
				}
			}
			cases = append(cases, k)
		}
		cases = append(cases,
			&c18Case{Files: map[string]string{}},
			&c18Case{Files: map[string]string{}, TailBlank: 2, TrailingNL: true},
			&c18Case{Entries: []c18Entry{{Name: "a.fo"}}, Files: map[string]string{"a.fo": ""}, TrailingNL: true},
			&c18Case{Entries: []c18Entry{{Name: "a.fo", HasTitle: true, Title: "T"}, {Name: "missing.fo", HasTitle: true, Title: "M"}}, Files: map[string]string{"a.fo": "x"}, TrailingNL: true},
		)
		for i, n := 0, c.Pick(80, 10000); i < n; i++ {
			cases = append(cases, c18Gen(rng))
		}
	}
	// histories: 2-3 runs in one directory
	var hist [][]*c18Case
	var hedits [][]string
	if c.Replay != "" {
		if h := c18LoadReplayHistory(c.Replay); h != nil {
			hist, hedits, cases = [][]*c18Case{h}, [][]string{nil}, nil
		}
	} else {
		a := &c18Case{Entries: []c18Entry{{Name: "a.fo", HasTitle: true, Title: "First"}, {Name: "b.fo", HasTitle: true, Title: "Second"}, {Name: "c.fo", HasTitle: true, Title: "Third one"}},
			Files: map[string]string{"a.fo": "let a () = 1\n", "b.fo": "let b () = 2\n", "c.fo": "let c () =\n  3\n"}, TrailingNL: true}
		b := a.clone()
		b.Entries = []c18Entry{{Name: "c.fo"}, {Name: "a.fo", HasTitle: true, Title: "First", Blank: 1}}
		hist, hedits = append(hist, []*c18Case{a, b}), append(hedits, []string{"entry_removed"})
		for i, n := 0, c.Pick(60, 6000); i < n; i++ {
			first := c18Gen(rng)
			for tries := 0; tries < 20; tries++ {
				_, _, _, ok := c18Reference(first.listText(), first.Files)
				if len(first.Entries) > 0 && (ok || rng.Chance(1, 8)) {
					break
				}
				first = c18Gen(rng)
			}
			steps := []*c18Case{first}
			var eds []string
			for j, m := 0, 1+rng.Intn(2); j < m; j++ {
				nx, ed := c18Edit(rng, steps[len(steps)-1], first)
				steps, eds = append(steps, nx), append(eds, ed)
			}
			hist, hedits = append(hist, steps), append(hedits, eds)
		}
	}
	hobs := make([][]c18Obs, len(hist))
	obs := make([]c18Obs, len(cases))
	Parallel(len(cases)+len(hist), func(i int) {
		if i < len(cases) {
			obs[i] = c18Run(c, cases[i], i)
		} else {
			hobs[i-len(cases)] = c18RunHistory(c, hist[i-len(cases)], i)
		}
	})
	c.Lap("tool")
	for i, h := range hist {
		c18CheckHistory(c, h, hedits[i], hobs[i], i)
	}
	for i, k := range cases {
		c18Check(c, k, obs[i], i)
		if i%60 == 5 {
			c.Sample(map[string]any{"filelist.txt": k.listText(), "files": k.Files, "exit": obs[i].exit, "readme_bytes": len(obs[i].readme)})
		}
	}
	c.Lap("compare")
}

func c18LoadReplayHistory(path string) []*c18Case {
	var doc struct {
		Replay struct {
			History []*c18Case `json:"history"`
		} `json:"replay"`
	}
	b, err := os.ReadFile(path)
	if err != nil {
		panic(err)
	}
	if err := jsonUnmarshal(b, &doc); err != nil || len(doc.Replay.History) == 0 {
		return nil
	}
	for _, k := range doc.Replay.History {
		if k.Files == nil {
			k.Files = map[string]string{}
		}
	}
	return doc.Replay.History
}

func c18LoadReplay(path string) []*c18Case {
	var doc struct {
		Replay struct {
			Case *c18Case `json:"case"`
		} `json:"replay"`
	}
	b, err := os.ReadFile(path)
	if err != nil {
		panic(err)
	}
	if err := jsonUnmarshal(b, &doc); err != nil || doc.Replay.Case == nil {
		if c18LoadReplayHistory(path) != nil {
			return nil
		}
		panic("replay file has no case")
	}
	if doc.Replay.Case.Files == nil {
		doc.Replay.Case.Files = map[string]string{}
	}
	return []*c18Case{doc.Replay.Case}
}

func init() { Register("C18", runC18) }
