(* C01: (run_src <fuel> <prog>) | (compile <prog>) | (run_go <fuel> <prog>)   — coq/Core/FORMAT.md
   additionally (fragment <prog>) -> FRAGMENT pap_args_pure | FRAGMENT wt | FRAGMENT none  (hypotheses of the theorem)
   The program s-expression is type-checked and elaborated here into the annotated MiniFo AST of
   coq/Core/MiniFo.v (see the header of that file for what elaboration adds); the answer of [compile]
   is the canonical MiniGo s-expression documented in coq/Core/FORMAT_GO.md. *)
open Sexp
open X_c01

exception Ill of string
let ill fmt = Printf.ksprintf (fun s -> raise (Ill s)) fmt

let rec nat_of_int n acc = if n <= 0 then acc else nat_of_int (n - 1) (S acc)
let nat_of_int n = nat_of_int n O
let rec int_of_nat = function O -> 0 | S n -> 1 + int_of_nat n

(* decimal text -> Z, without going through OCaml's 63-bit int *)
let z_of_int_small (i : int) : z =
  let rec pos n = if n = 1 then XH else if n land 1 = 0 then XO (pos (n lsr 1)) else XI (pos (n lsr 1)) in
  if i = 0 then Z0 else if i > 0 then Zpos (pos i) else Zneg (pos (- i))
let z_of_string (s : string) : z =
  let neg = String.length s > 0 && s.[0] = '-' in
  let st = if neg || (String.length s > 0 && s.[0] = '+') then 1 else 0 in
  if String.length s = st then raise (Parse_error "int");
  let ten = z_of_int_small 10 in
  let r = ref Z0 in
  for i = st to String.length s - 1 do
    let c = s.[i] in
    if c < '0' || c > '9' then raise (Parse_error "int");
    r := Z.add (Z.mul !r ten) (z_of_int_small (Char.code c - 48))
  done;
  if neg then Z.opp !r else !r

(* ---------- types ---------- *)
type ty = TInt | TStr | TBool | TUnit | TTuple of ty list | TSlice of ty
        | TRec of string | TUnion of string | TFun of ty list * ty

let rec ty_of = function
  | A "int" -> TInt | A "string" -> TStr | A "bool" -> TBool | A "unit" -> TUnit
  | L (A "tuple" :: ts) when List.length ts = 2 || List.length ts = 3 -> TTuple (List.map ty_of ts)
  | L [A "slice"; t] -> TSlice (ty_of t)
  | L [A "rec"; n] -> TRec (str_of n)
  | L [A "union"; n] -> TUnion (str_of n)
  | L [A "fun"; L ts; r] when ts <> [] -> TFun (List.map ty_of ts, ty_of r)
  | s -> ill "type %s" (to_string s)

let rec show_ty = function
  | TInt -> "int" | TStr -> "string" | TBool -> "bool" | TUnit -> "unit"
  | TTuple ts -> "(tuple " ^ String.concat " " (List.map show_ty ts) ^ ")"
  | TSlice t -> "(slice " ^ show_ty t ^ ")"
  | TRec n -> "(rec " ^ n ^ ")" | TUnion n -> "(union " ^ n ^ ")"
  | TFun (ts, r) -> "(fun (" ^ String.concat " " (List.map show_ty ts) ^ ") " ^ show_ty r ^ ")"

type env = {
  recs : (string * (string * ty) list) list;
  unions : (string * (string * ty option) list) list;
  vars : (string * ty) list;
}

let expect what t t' = if t <> t' then ill "%s: expected %s, found %s" what (show_ty t) (show_ty t')
let cl = explode

let bin_of = function
  | "+" -> OAdd, TInt, TInt | "-" -> OSub, TInt, TInt | "*" -> OMul, TInt, TInt
  | "/" -> ODiv, TInt, TInt
  | "sadd" -> OSAdd, TStr, TStr
  | "<" -> OLt, TInt, TBool | ">" -> OGt, TInt, TBool | "<=" -> OLe, TInt, TBool | ">=" -> OGe, TInt, TBool
  | "&&" -> OAnd, TBool, TBool | "||" -> OOr, TBool, TBool
  | o -> ill "operator %s" o

let rec first_order = function
  | TFun _ -> false
  | TTuple ts -> List.for_all first_order ts
  | TSlice t -> first_order t
  | _ -> true

let lib_of name = match libfn_of_name (cl name) with
  | Some f when src_fn f -> f
  | _ -> ill "library function %s" name

let elem what = function TSlice t -> t | t -> ill "%s: slice expected, found %s" what (show_ty t)
let fmt_ok v t = match v, t with
  | 'd', TInt | 's', TStr | 'v', (TInt | TStr | TBool) | 'v', TSlice (TInt | TStr | TBool) -> true
  | _ -> false
(* the single verb of a Printf1/Sprintf1 format *)
let verb_of (f : string) : char =
  let n = String.length f in
  let rec go i acc =
    if i >= n then acc
    else if f.[i] = '%' then
      (if i + 1 >= n then ill "format %S" f
       else if f.[i + 1] = '%' then go (i + 2) acc
       else match acc with None -> go (i + 2) (Some f.[i + 1]) | Some _ -> ill "format %S: two verbs" f)
    else go (i + 1) acc in
  match go 0 None with Some c -> c | None -> ill "format %S: no verb" f

(* result type of a fully applied library call *)
let lib_type (name : string) (fn : libfn) (args : (expr * ty) list) : ty =
  let ts = List.map snd args in
  let bad () = ill "%s: argument types (%s)" name (String.concat " " (List.map show_ty ts)) in
  let fmt_check () = match args with
    | [(EStr f, TStr); (_, t)] -> if not (fmt_ok (verb_of (implode f)) t) then bad ()
    | _ -> ill "%s: the format must be a string literal" name in
  match fn, ts with
  | LPrintln, [TStr] -> TUnit
  | LPrintf1, [TStr; _] -> fmt_check (); TUnit
  | LSprintf1, [TStr; _] -> fmt_check (); TStr
  | LLength, [TSlice _] -> TInt
  | (LHead | LLast), [TSlice t] -> t
  | LTail, [TSlice t] -> TSlice t
  | LItem, [TInt; TSlice t] -> t
  | (LTake | LSkip), [TInt; TSlice t] -> TSlice t
  | (LPushLast | LPushHead), [t; TSlice t'] when t = t' -> TSlice t
  | LAppend, [TSlice t; TSlice t'] when t = t' -> TSlice t
  | (LIsEmpty | LIsNotEmpty), [TSlice _] -> TBool
  | LMap, [TFun ([a], b); TSlice a'] when a = a' -> TSlice b
  | LMapi, [TFun ([TInt; a], b); TSlice a'] when a = a' -> TSlice b
  | LFilter, [TFun ([a], TBool); TSlice a'] when a = a' -> TSlice a
  | LIter, [TFun ([a], TUnit); TSlice a'] when a = a' -> TUnit
  | LFold, [TFun ([s; a], s'); s''; TSlice a'] when a = a' && s = s' && s = s'' -> s
  | (LForall | LForany), [TFun ([a], TBool); TSlice a'] when a = a' -> TBool
  | LSort, [TSlice ((TInt | TStr) as t)] -> TSlice t
  | LZip, [TSlice a; TSlice b] -> TSlice (TTuple [a; b])
  | LStrLength, [TStr] -> TInt
  | LStrConcat, [TStr; TSlice TStr] -> TStr
  | (LHasPrefix | LHasSuffix), [TStr; TStr] -> TBool
  | (LAppendHead | LAppendTail), [TStr; TStr] -> TStr
  | LSplit, [TStr; TStr] -> TSlice TStr
  | LFst, [TTuple [a; _]] -> a
  | LSnd, [TTuple [_; b]] -> b
  | _ -> bad ()

let params_of (ps : Sexp.t list) : (string * ty) list =
  List.map (function L [x; t] -> (str_of x, ty_of t) | s -> ill "parameter %s" (to_string s)) ps
(* ((u unit)) is the parameterless form: no Go parameter, no binding *)
let bound_params ps = match ps with [(_, TUnit)] -> [] | _ -> ps
let check_name x =
  if x = "" || x.[0] = '_' || (String.length x >= 4 && String.sub x 0 4 = "New_") then ill "reserved name %s" x
let add_var env x t =
  check_name x;
  if List.mem_assoc x env.vars then ill "name %s is bound twice (shadowing is outside MiniFo)" x;
  { env with vars = (x, t) :: env.vars }
let add_params env ps = List.fold_left (fun e (x, t) -> add_var e x t) env (bound_params ps)

let fun_type f env = match List.assoc_opt f env.vars with
  | Some (TFun (ts, r)) -> ts, r
  | Some t -> ill "%s is not a function (%s)" f (show_ty t)
  | None -> ill "unbound %s" f
(* arguments of a call: the unit argument of a parameterless function is dropped (fcUnitArgOnly) *)
let call_args (ts : ty list) (args : (expr * ty) list) : expr list =
  List.iteri (fun i (_, t) -> expect "argument" (List.nth ts i) t) args;
  match ts, args with
  | [TUnit], [(EUnit, _)] -> []
  | _ -> if List.mem TUnit ts then ill "a unit parameter next to other parameters" else List.map fst args

let rec elab (env : env) (s : Sexp.t) : expr * ty =
  match s with
  | L [A "int"; A n] -> EInt (z_of_string n), TInt
  | L [A "str"; Sexp.S x] -> EStr (cl x), TStr
  | L [A "bool"; b] -> EBool (bool_of b), TBool
  | L [A "unit"] -> EUnit, TUnit
  | L [A "var"; x] ->
    let x = str_of x in
    (match List.assoc_opt x env.vars with Some t -> EVar (cl x), t | None -> ill "unbound %s" x)
  | L [A "bin"; A op; a; b] ->
    let o, targ, tres = bin_of op in
    let ea, ta = elab env a in let eb, tb = elab env b in
    expect op targ ta; expect op targ tb; EBin (o, ea, eb), tres
  | L [A (("eq" | "neq") as w); a; b] ->
    let ea, ta = elab env a in let eb, tb = elab env b in
    expect w ta tb; if not (first_order ta) then ill "= on a function type";
    EEq ((w = "neq"), ea, eb), TBool
  | L [A "not"; a] -> let ea, ta = elab env a in expect "not" TBool ta; ENot ea, TBool
  | L [A "if"; c; bt; bf] ->
    let ec, tc = elab env c in expect "if" TBool tc;
    let b1, t1 = elab_block env bt in let b2, t2 = elab_block env bf in
    expect "else" t1 t2; EIf (ec, b1, b2), t1
  | L [A "ifonly"; c; bt] ->
    let ec, tc = elab env c in expect "if" TBool tc;
    let b1, t1 = elab_block env bt in expect "if without else" TUnit t1; EIfOnly (ec, b1), TUnit
  | L [A "lam"; L ps; b] ->
    let ps = params_of ps in
    let eb, tb = elab_block (add_params env ps) b in
    ELam (List.map (fun (x, _) -> cl x) (bound_params ps), eb), TFun (List.map snd ps, tb)
  | L [A "call"; f; A n; L args] ->
    let f = str_of f in
    let ts, r = fun_type f env in
    let n = int_of_string n in
    if n <> List.length ts then ill "call %s: arity %d, type has %d" f n (List.length ts);
    let k = List.length args in
    if k < 1 || k > n then ill "call %s: %d arguments" f k;
    let eas = List.map (elab env) args in
    let es = call_args ts eas in
    let rest = List.filteri (fun i _ -> i >= k) ts in
    ECall (cl f, nat_of_int (n - k), (r = TUnit), es), (if rest = [] then r else TFun (rest, r))
  | L [A "ext"; name; L args] ->
    let name = str_of name in
    let fn = lib_of name in
    let eas = List.map (elab env) args in
    EExt (fn, List.map fst eas), lib_type name fn eas
  | L [A "pipe"; a; r] ->
    let ea, ta = elab env a in
    (match r with
     | L [A "var"; f] ->
       let f = str_of f in
       (match fun_type f env with
        | [t], r -> expect "pipe" t ta; if t = TUnit then ill "pipe into a parameterless function";
          EPipeVar (ea, cl f, (r = TUnit)), r
        | _ -> ill "pipe: %s is not unary" f)
     | L [A "call"; f; A n; L args] ->
       let f = str_of f in
       let ts, r = fun_type f env in
       let n = int_of_string n in
       if n <> List.length ts || List.length args <> n - 1 || n < 2 then ill "pipe: stage %s must lack exactly its last argument" f;
       let eas = List.map (elab env) args in
       let es = call_args ts eas in
       expect "pipe" (List.nth ts (n - 1)) ta;
       EPipeCall (ea, cl f, es, (r = TUnit)), r
     | L [A "ext"; name; L args] ->
       let name = str_of name in
       let fn = lib_of name in
       let eas = List.map (elab env) args in
       let r = lib_type name fn (eas @ [(ea, ta)]) in
       EPipeExt (ea, fn, List.map fst eas, (r = TUnit)), r
     | _ -> ill "pipe: right-hand side %s" (to_string r))
  | L (A "tuple" :: es) when List.length es = 2 || List.length es = 3 ->
    let xs = List.map (elab env) es in ETuple (List.map fst xs), TTuple (List.map snd xs)
  | L [A "record"; name; L fs] ->
    let name = str_of name in
    let decl = (match List.assoc_opt name env.recs with Some d -> d | None -> ill "record %s" name) in
    if List.length decl <> List.length fs then ill "record %s: field count" name;
    (* the fields may be written in any order (each exactly once); they are evaluated, and emitted
       as a keyed composite literal, in the order written *)
    let seen = ref [] in
    let named = List.map (fun f -> match f with
        | L [g; e] ->
          let fn = str_of g in
          let ft = (match List.assoc_opt fn decl with Some t -> t | None -> ill "record %s: field %s" name fn) in
          if List.mem fn !seen then ill "record %s: field %s twice" name fn; seen := fn :: !seen;
          let ee, te = elab env e in expect ("field " ^ fn) ft te; (fn, ee)
        | _ -> ill "record field") fs in
    ERecord (cl name, List.map (fun (fn, _) -> cl fn) decl, List.map (fun (fn, _) -> cl fn) named, List.map snd named), TRec name
  | L [A "field"; e; f] ->
    let ee, te = elab env e in
    let f = str_of f in
    (match te with
     | TRec r -> (match List.assoc_opt f (List.assoc r env.recs) with
         | Some t -> EField (ee, cl f), t | None -> ill "record %s has no field %s" r f)
     | t -> ill "field access on %s" (show_ty t))
  | L (A "ctor" :: c :: rest) ->
    let c = str_of c in
    let u, payload = find_case env c in
    (match payload, rest with
     | None, [] -> ECtor (cl u, cl c, None), TUnion u
     | Some t, [e] -> let ee, te = elab env e in expect ("payload of " ^ c) t te; ECtor (cl u, cl c, Some ee), TUnion u
     | _ -> ill "constructor %s: payload" c)
  | L (A "matchu" :: e :: L arms :: rest) ->
    let ee, te = elab env e in
    let u = (match te with TUnion u -> u | t -> ill "matchu on %s" (show_ty t)) in
    let cases = List.assoc u env.unions in
    let rty = ref None in
    let check_ty t = match !rty with None -> rty := Some t | Some t0 -> expect "match arm" t0 t in
    let seen = ref [] in
    let one arm =
      let c, binder, body = (match arm with
          | L [c; A "_"; b] -> str_of c, `Ignore, b
          | L [c; (A _ as x); b] -> str_of c, `Bind (str_of x), b
          | L [c; b] -> str_of c, `Nothing, b
          | _ -> ill "match arm %s" (to_string arm)) in
      let payload = (match List.assoc_opt c cases with Some p -> p | None -> ill "union %s has no case %s" u c) in
      if List.mem c !seen then ill "case %s twice" c; seen := c :: !seen;
      let env', bx = (match binder, payload with
          | `Bind x, Some t -> add_var env x t, Some (cl x)
          | `Bind _, None -> ill "case %s has no payload" c
          | `Ignore, Some _ -> env, None
          | `Ignore, None -> env, None        (* fc accepts "| B _ ->" on a payload-less case: nothing is bound *)
          | `Nothing, None -> env, None
          | `Nothing, Some _ -> env, None) in (* "| A ->" on a payload case: same emission as "| A _ ->" *)
      let eb, tb = elab_block env' body in
      check_ty tb; ((cl c, bx), eb) in
    let arms' = List.map one arms in
    if arms' = [] then ill "matchu without arms";
    let def = (match rest with
        | [] -> if List.length !seen <> List.length cases then ill "matchu: not exhaustive"; None
        | [L [A "default"; b]] -> let eb, tb = elab_block env b in check_ty tb; Some eb
        | _ -> ill "matchu: trailing items") in
    EMatchU (ee, cl u, arms', def), (match !rty with Some t -> t | None -> TUnit)
  | L [A "matchs"; e; L arms; last] ->
    let ee, te = elab env e in expect "matchs" TStr te;
    if arms = [] then ill "matchs without literal arms";
    let rty = ref None in
    let check_ty t = match !rty with None -> rty := Some t | Some t0 -> expect "match arm" t0 t in
    let arms' = List.map (function
        | L [Sexp.S l; b] -> let eb, tb = elab_block env b in check_ty tb; (cl l, eb)
        | a -> ill "matchs arm %s" (to_string a)) arms in
    let bx, lb = (match last with
        | L [A "bind"; x; b] -> let x = str_of x in
          let eb, tb = elab_block (add_var env x TStr) b in check_ty tb; Some (cl x), eb
        | L [A "default"; b] -> let eb, tb = elab_block env b in check_ty tb; None, eb
        | a -> ill "matchs last arm %s" (to_string a)) in
    EMatchS (ee, arms', bx, lb), (match !rty with Some t -> t | None -> TUnit)
  | L [A "slice"; t; L es] ->
    let t = ty_of t in
    ESlice (List.map (fun e -> let ee, te = elab env e in expect "slice element" t te; ee) es), TSlice t
  | L (A "interp" :: parts) ->
    EInterp (List.map (function
        | Sexp.S text -> Inl (cl text)
        | L [A "hole"; x] -> let x = str_of x in
          (match List.assoc_opt x env.vars with
           | Some (TInt | TStr | TBool) -> Inr (cl x)
           | Some t -> ill "hole %s of type %s" x (show_ty t)
           | None -> ill "unbound %s" x)
        | p -> ill "interp part %s" (to_string p)) parts), TStr
  | L (A "block" :: _) -> let b, t = elab_block env s in EBlock b, t
  | _ -> ill "expression %s" (to_string s)

and find_case env c =
  let rec go = function
    | [] -> ill "unknown case %s" c
    | (u, cases) :: r -> (match List.assoc_opt c cases with Some p -> u, p | None -> go r) in
  go env.unions

and elab_block (env : env) (s : Sexp.t) : block * ty =
  match s with
  | L [A "block"; L stmts; e] ->
    let rec go env = function
      | [] -> let ee, te = elab env e in BRet (ee, (te = TUnit)), te
      | L [A "let"; x; rhs] :: r ->
        let x = str_of x in
        let ee, te = elab env rhs in
        if te = TUnit then ill "let %s: unit" x;
        let b, t = go (add_var env x te) r in BLet (cl x, ee, b), t
      | L [A "letfun"; f; L ps; tr; body] :: r ->
        let f = str_of f in
        let ps = params_of ps in
        let tr = ty_of tr in
        let eb, tb = elab_block (add_params env ps) body in
        expect ("result of " ^ f) tr tb;
        let lam = ELam (List.map (fun (x, _) -> cl x) (bound_params ps), eb) in
        let b, t = go (add_var env f (TFun (List.map snd ps, tr))) r in BLet (cl f, lam, b), t
      | L [A "destr"; L xs; rhs] :: r ->
        let xs = List.map str_of xs in
        let ee, te = elab env rhs in
        (match te with
         | TTuple ts when List.length ts = List.length xs ->
           let env' = List.fold_left2 add_var env xs ts in
           let b, t = go env' r in BDestr (List.map cl xs, ee, b), t
         | t -> ill "destr: %s" (show_ty t))
      | L [A "do"; e1] :: r ->
        let ee, te = elab env e1 in expect "do" TUnit te;
        let b, t = go env r in BDo (ee, b), t
      | st :: _ -> ill "statement %s" (to_string st) in
    go env stmts
  | _ -> ill "block %s" (to_string s)

let elab_prog (s : Sexp.t) : prog =
  match s with
  | L [A "prog"; L decls; main] ->
    let env = ref { recs = []; unions = []; vars = [] } in
    let funs = ref [] in
    let us = ref [] in
    List.iter (function
        | L [A "record"; n; L fs] ->
          let fs = List.map (function L [f; t] -> (str_of f, ty_of t) | _ -> ill "record field") fs in
          env := { !env with recs = !env.recs @ [(str_of n, fs)] }
        | L [A "union"; n; L cs] ->
          let cs = List.map (function
              | L [c; A "none"] -> (str_of c, None)
              | L [c; t] -> (str_of c, Some (ty_of t))
              | _ -> ill "union case") cs in
          env := { !env with unions = !env.unions @ [(str_of n, cs)] };
          us := !us @ [(cl (str_of n), List.map (fun (c, p) -> (cl c, p <> None)) cs)]
        | L [A "fun"; f; L ps; tr; body] ->
          let f = str_of f in
          let ps = params_of ps in
          let tr = ty_of tr in
          env := add_var !env f (TFun (List.map snd ps, tr));
          let eb, tb = elab_block (add_params !env ps) body in
          expect ("result of " ^ f) tr tb;
          funs := !funs @ [(cl f, (List.map (fun (x, _) -> cl x) (bound_params ps), eb))]
        | d -> ill "declaration %s" (to_string d)) decls;
    let ctor_names = List.concat_map (fun (u, cs) -> List.map (fun (c, _) -> implode u ^ "_" ^ implode c) cs) !us in
    if List.length (List.sort_uniq compare ctor_names) <> List.length ctor_names then ill "two union cases map to the same Go name";
    let mb, mt = elab_block !env main in
    expect "main" TUnit mt;
    { p_unions = !us; p_funs = !funs; p_main = mb }
  | _ -> ill "program %s" (to_string s)

(* ---------- canonical MiniGo s-expression (coq/Core/FORMAT_GO.md) ---------- *)
let op_name = function
  | OAdd | OSAdd -> "+" | OSub -> "-" | OMul -> "*" | ODiv -> "/" | OLt -> "<" | OGt -> ">" | OLe -> "<=" | OGe -> ">="
  | OAnd -> "&&" | OOr -> "||"
let at x = A (implode x)
let rec ge (e : gexpr) : Sexp.t =
  match e with
  | GInt z -> L [A "int"; A (implode (z_dec z))]
  | GStr s -> L [A "str"; Sexp.S (implode s)]
  | GBool b -> L [A "bool"; A (if b then "true" else "false")]
  | GNone -> L [A "none"]
  | GVar x -> L [A "var"; at x]
  | GLib f -> L [A "lib"; at (libfn_name f)]
  | GBin (o, a, b) -> L [A "bin"; A (op_name o); ge a; ge b]
  | GFunc (ps, body) -> L (A "func" :: L (List.map at ps) :: List.map gs body)
  | GCall (f, args) -> L (A "call" :: ge f :: List.map ge args)
  | GStructLit (n, _, fs) -> L (A "struct" :: at n :: List.map (fun (f, e) -> L [at f; ge e]) fs)
  | GSliceLit es -> L (A "slice" :: List.map ge es)
  | GSel (e, f) -> L [A "sel"; ge e; at f]
and gs (s : gstmt) : Sexp.t =
  let bx = function Some x -> at x | None -> A "_" in
  match s with
  | GSDefine (xs, e) -> L [A "define"; L (List.map at xs); ge e]
  | GSExpr e -> L [A "expr"; ge e]
  | GSReturn e -> L [A "return"; ge e]
  | GSTypeSwitch (x, e, cases, def) ->
    L [A "typeswitch"; bx x; ge e; L (List.map (fun (c, ss) -> L (at c :: List.map gs ss)) cases);
       L (A "default" :: List.map gs def)]
  | GSSwitch (x, e, cases, def) ->
    L [A "switch"; bx x; ge e; L (List.map (fun (c, ss) -> L (Sexp.S (implode c) :: List.map gs ss)) cases);
       L (A "default" :: List.map gs def)]
  | GSPanic m -> L [A "panic"; Sexp.S (implode m)]
let gprog_sexp (p : gprog) : Sexp.t =
  L [A "goprog";
     L (A "ctors" :: List.map (fun (f, (ps, b)) -> L (A "func" :: at f :: L (List.map at ps) :: List.map gs b))
          (List.filter (fun (f, _) -> let n = implode f in String.length n >= 4 && String.sub n 0 4 = "New_") p.g_funcs)
        @ List.map (fun (x, e) -> L [A "var"; at x; ge e]) p.g_vars);
     L (A "funcs" :: List.map (fun (f, (ps, b)) -> L (A "func" :: at f :: L (List.map at ps) :: List.map gs b))
          (List.filter (fun (f, _) -> let n = implode f in not (String.length n >= 4 && String.sub n 0 4 = "New_")) p.g_funcs));
     L (A "main" :: List.map gs p.g_main)]


(* ---------- the elaborated program in Coq syntax (used to write the Examples of Core/CompileExamples.v) ---------- *)
let cq_str (x : char list) =
  let b = Buffer.create 16 in
  Buffer.add_char b '"';
  List.iter (fun c -> if c = '"' then Buffer.add_string b "\"\"" else Buffer.add_char b c) x;
  Buffer.add_string b "\"%string"; Buffer.contents b
let cq_list f l = "[" ^ String.concat "; " (List.map f l) ^ "]"
let cq_bool b = if b then "true" else "false"
let cq_opt f = function None -> "None" | Some x -> "(Some " ^ f x ^ ")"
let cq_op = function OAdd -> "OAdd" | OSub -> "OSub" | OMul -> "OMul" | ODiv -> "ODiv" | OSAdd -> "OSAdd" | OLt -> "OLt" | OGt -> "OGt"
                     | OLe -> "OLe" | OGe -> "OGe" | OAnd -> "OAnd" | OOr -> "OOr"
let cq_lib f = let n = implode (libfn_name f) in
  let i = String.index n '.' in
  let base = String.sub n (i + 1) (String.length n - i - 1) in
  if String.sub n 0 i = "strings" then (match base with "Length" -> "LStrLength" | "Concat" -> "LStrConcat" | b -> "L" ^ b) else "L" ^ base
let rec cq_e = function
  | EInt z -> "(EInt (" ^ implode (z_dec z) ^ ")%Z)"
  | EStr s -> "(EStr " ^ cq_str s ^ ")"
  | EBool b -> "(EBool " ^ cq_bool b ^ ")"
  | EUnit -> "EUnit"
  | EVar x -> "(EVar " ^ cq_str x ^ ")"
  | EBin (o, a, b) -> "(EBin " ^ cq_op o ^ " " ^ cq_e a ^ " " ^ cq_e b ^ ")"
  | EEq (n, a, b) -> "(EEq " ^ cq_bool n ^ " " ^ cq_e a ^ " " ^ cq_e b ^ ")"
  | ENot a -> "(ENot " ^ cq_e a ^ ")"
  | EIf (c, a, b) -> "(EIf " ^ cq_e c ^ " " ^ cq_b a ^ " " ^ cq_b b ^ ")"
  | EIfOnly (c, a) -> "(EIfOnly " ^ cq_e c ^ " " ^ cq_b a ^ ")"
  | ELam (ps, b) -> "(ELam " ^ cq_list cq_str ps ^ " " ^ cq_b b ^ ")"
  | ECall (f, m, u, args) -> "(ECall " ^ cq_str f ^ " " ^ string_of_int (int_of_nat m) ^ " " ^ cq_bool u ^ " " ^ cq_list cq_e args ^ ")"
  | EExt (f, args) -> "(EExt " ^ cq_lib f ^ " " ^ cq_list cq_e args ^ ")"
  | EPipeVar (a, f, u) -> "(EPipeVar " ^ cq_e a ^ " " ^ cq_str f ^ " " ^ cq_bool u ^ ")"
  | EPipeCall (a, f, args, u) -> "(EPipeCall " ^ cq_e a ^ " " ^ cq_str f ^ " " ^ cq_list cq_e args ^ " " ^ cq_bool u ^ ")"
  | EPipeExt (a, f, args, u) -> "(EPipeExt " ^ cq_e a ^ " " ^ cq_lib f ^ " " ^ cq_list cq_e args ^ " " ^ cq_bool u ^ ")"
  | ETuple es -> "(ETuple " ^ cq_list cq_e es ^ ")"
  | ERecord (n, dl, fs, es) -> "(ERecord " ^ cq_str n ^ " " ^ cq_list cq_str dl ^ " " ^ cq_list cq_str fs ^ " " ^ cq_list cq_e es ^ ")"
  | EField (e, f) -> "(EField " ^ cq_e e ^ " " ^ cq_str f ^ ")"
  | ECtor (u, c, a) -> "(ECtor " ^ cq_str u ^ " " ^ cq_str c ^ " " ^ cq_opt cq_e a ^ ")"
  | EMatchU (e, u, arms, d) ->
    "(EMatchU " ^ cq_e e ^ " " ^ cq_str u ^ " " ^
    cq_list (fun ((c, bx), b) -> "(" ^ cq_str c ^ ", " ^ cq_opt cq_str bx ^ ", " ^ cq_b b ^ ")") arms ^ " " ^ cq_opt cq_b d ^ ")"
  | EMatchS (e, arms, bx, last) ->
    "(EMatchS " ^ cq_e e ^ " " ^ cq_list (fun (l, b) -> "(" ^ cq_str l ^ ", " ^ cq_b b ^ ")") arms ^ " " ^ cq_opt cq_str bx ^ " " ^ cq_b last ^ ")"
  | ESlice es -> "(ESlice " ^ cq_list cq_e es ^ ")"
  | EInterp ps -> "(EInterp " ^ cq_list (function Inl s -> "(inl " ^ cq_str s ^ ")" | Inr x -> "(inr " ^ cq_str x ^ ")") ps ^ ")"
  | EBlock b -> "(EBlock " ^ cq_b b ^ ")"
and cq_b = function
  | BLet (x, e, b) -> "(BLet " ^ cq_str x ^ " " ^ cq_e e ^ "\n " ^ cq_b b ^ ")"
  | BDestr (xs, e, b) -> "(BDestr " ^ cq_list cq_str xs ^ " " ^ cq_e e ^ "\n " ^ cq_b b ^ ")"
  | BDo (e, b) -> "(BDo " ^ cq_e e ^ "\n " ^ cq_b b ^ ")"
  | BRet (e, u) -> "(BRet " ^ cq_e e ^ " " ^ cq_bool u ^ ")"
let cq_prog (p : prog) =
  "{| p_unions := " ^ cq_list (fun (u, cs) -> "(" ^ cq_str u ^ ", " ^ cq_list (fun (c, h) -> "(" ^ cq_str c ^ ", " ^ cq_bool h ^ ")") cs ^ ")") p.p_unions ^
  ";\n   p_funs := " ^ cq_list (fun (f, (ps, b)) -> "(" ^ cq_str f ^ ", (" ^ cq_list cq_str ps ^ ",\n " ^ cq_b b ^ "))") p.p_funs ^
  ";\n   p_main := " ^ cq_b p.p_main ^ " |}"

let show_outcome = function
  | ODone out -> "OUT " ^ quote (implode out)
  | OStuck w -> "STUCK " ^ quote (implode w)
  | OFuel -> "FUEL"

let () = Registry.register "C01" (fun req ->
    try
      match req with
      | L [A "run_src"; A fuel; p] -> show_outcome (run_src (nat_of_int (int_of_string fuel)) (elab_prog p))
      | L [A "run_go"; A fuel; p] -> show_outcome (run_go (nat_of_int (int_of_string fuel)) (compile_prog (elab_prog p)))
      | L [A "compile"; p] -> to_string (gprog_sexp (compile_prog (elab_prog p)))
      | L [A "fragment"; p] ->
        (* is the program inside the fragment of Props/C01.v?  (Core/WfCheck.v, proved sound) *)
        let p = elab_prog p in
        let fuel = nat_of_int 100000 in
        if wfp_b true p.p_unions fuel p then "FRAGMENT pap_args_pure"
        else if wfp_b false p.p_unions fuel p then "FRAGMENT wt"
        else "FRAGMENT none"
      | L [A "coq"; p] -> cq_prog (elab_prog p)   (* multi-line answer; for writing Coq Examples only *)
      | _ -> "ERR bad C01 request"
    with Ill m -> "STUCK " ^ quote ("ill-formed program: " ^ m))
