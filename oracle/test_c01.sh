#!/bin/sh
# Self-test of the C01 oracle: for every oracle/c01_tests/*.sexp program
#   * run_src and run_go∘compile must give the same OUT line,
#   * when a hand-written Folang twin <name>.fo exists, it is transpiled with a scratch fc built from /repo,
#     compiled with the real Go toolchain and its stdout must equal the model's output,
#   * when <name>.structure exists, the emitted gen_m.go, canonicalised by oracle/gocanon (go/parser), must be
#     textually equal to the answer of `compile` (the lowering of Core/Compile.v is what fc does),
#   * *.expect (optional) holds the expected answer line of run_src (used for STUCK / refutation cases).
# usage: sh oracle/test_c01.sh [--no-go]
set -u
cd "$(dirname "$0")/.."
ROOT=$(pwd)
FOMODEL=$ROOT/bin/fomodel
REPO=${VERIF_REPO:-/repo}
SCR=${TMPDIR:-/tmp}/c01_selftest.$$
NOGO=0; [ "${1:-}" = "--no-go" ] && NOGO=1
fail=0
mkdir -p "$SCR"
trap 'rm -rf "$SCR"' EXIT
export GOFLAGS=-mod=mod GOPROXY=off GOSUMDB=off GOTOOLCHAIN=local

if [ $NOGO = 0 ]; then
  cp -r "$REPO" "$SCR/tree" && (cd "$SCR/tree/fc" && go build -o "$SCR/fc" .) || { echo "FAIL: cannot build fc"; exit 1; }
  (cd oracle/gocanon && go build -o "$SCR/gocanon" .) || { echo "FAIL: cannot build gocanon"; exit 1; }
fi

unq() { # OUT "..." -> raw bytes
  python3 -c '
import sys,re
s=sys.stdin.read().strip()
assert s.startswith("OUT "), s
s=s[5:-1]
out=bytearray(); i=0
while i<len(s):
    c=s[i]
    if c=="\\":
        d=s[i+1]
        if d=="n": out.append(10); i+=2
        elif d=="t": out.append(9); i+=2
        elif d=="x": out.append(int(s[i+2:i+4],16)); i+=4
        else: out+=d.encode("latin-1"); i+=2
    else: out+=c.encode("latin-1"); i+=1
sys.stdout.buffer.write(bytes(out))'
}

for f in oracle/c01_tests/*.sexp; do
  n=$(basename "$f" .sexp)
  prog=$(tr '\n' ' ' < "$f")
  src=$(printf 'C01 (run_src 100000 %s)\n' "$prog" | "$FOMODEL")
  gor=$(printf 'C01 (run_go 100000 %s)\n' "$prog" | "$FOMODEL")
  cmp=$(printf 'C01 (compile %s)\n' "$prog" | "$FOMODEL")
  case "$cmp" in "(goprog "*|"STUCK \"ill-formed"*) ;; *) echo "FAIL $n: compile answered: $cmp"; fail=1;; esac
  if [ -f "oracle/c01_tests/$n.expect" ]; then
    exp=$(cat "oracle/c01_tests/$n.expect")
    [ "$src" = "$exp" ] || { echo "FAIL $n: run_src = $src, expected $exp"; fail=1; }
  fi
  if [ -f "oracle/c01_tests/$n.differs" ]; then
    # documented defect: model source and model Go must differ, and real Go must agree with the model Go
    [ "$src" != "$gor" ] || { echo "FAIL $n: run_src and run_go agree but a difference is documented"; fail=1; }
  else
    [ "$src" = "$gor" ] || { echo "FAIL $n: run_src = $src but run_go = $gor"; fail=1; }
    case "$src" in OUT*|STUCK*|FUEL) ;; *) echo "FAIL $n: run_src = $src"; fail=1;; esac
  fi
  if [ $NOGO = 0 ] && [ -f "oracle/c01_tests/$n.fo" ]; then
    d="$SCR/$n"; mkdir -p "$d"; cp "oracle/c01_tests/$n.fo" "$d/m.fo"
    (cd "$d" && "$SCR/fc" "$REPO/pkg/pkg_all.foi" m.fo >fc.log 2>&1) || { echo "FAIL $n: fc: $(cat "$d/fc.log")"; fail=1; continue; }
    [ -f "$d/gen_m.go" ] || { echo "FAIL $n: fc wrote no gen_m.go: $(cat "$d/fc.log")"; fail=1; continue; }
    { printf 'module example.com/%s\n\ngo 1.23.4\n\nrequire (\n' "$n"
      for p in frt slice strings dict buf sys; do printf '\tgithub.com/karino2/folang/pkg/%s v0.0.0\n' $p; done
      printf ')\n'
      for p in frt slice strings dict buf sys; do printf 'replace github.com/karino2/folang/pkg/%s => %s/pkg/%s\n' $p "$REPO" $p; done
    } > "$d/go.mod"
    cp "$REPO/fc/go.sum" "$d/go.sum"
    if [ -f "oracle/c01_tests/$n.structure" ]; then
      "$SCR/gocanon" "$d/gen_m.go" > "$d/real.sexp"; printf '%s\n' "$cmp" > "$d/model.sexp"
      cmp -s "$d/real.sexp" "$d/model.sexp" || { echo "FAIL $n: structure of the emitted Go differs from compile"; fail=1; }
    fi
    (cd "$d" && go build -o prog . >build.log 2>&1) || { echo "FAIL $n: go build: $(cat "$d/build.log")"; fail=1; continue; }
    (cd "$d" && ./prog > real.out 2>real.err)
    printf '%s\n' "$gor" | unq > "$d/model.out"
    if cmp -s "$d/real.out" "$d/model.out"; then echo "ok   $n (src = go-model = real Go, $(wc -l < "$d/real.out") lines)"
    else echo "FAIL $n: real Go output differs from the MiniGo model"; diff "$d/real.out" "$d/model.out" | head -5; fail=1; fi
  else
    echo "ok   $n ($(printf '%s' "$src" | cut -c1-60))"
  fi
done
[ $fail = 0 ] && echo "C01 self-test: all passed" || { echo "C01 self-test: FAILED"; exit 1; }
