#!/bin/sh
# builds /verif/bin/fomodel from the extracted x_*.ml (written by coqc into /verif/coq) and the drivers here
set -e
cd "$(dirname "$0")"
rm -rf _build && mkdir -p _build ../bin
cp sexp.ml registry.ml main.ml drv_*.ml _build/
cp ../coq/x_*.ml ../coq/x_*.mli _build/
cd _build
XS=$(ls x_*.ml | sort)
DS=$(ls drv_*.ml | sort)
FILES=""
for x in $XS; do FILES="$FILES ${x}i $x"; done
ocamlfind ocamlopt -w -a sexp.ml registry.ml $FILES $DS main.ml -o ../../bin/fomodel
