(* minimal s-expressions: atoms, quoted strings with backslash escapes (n t r xHH), lists *)
type t = A of string | S of string | L of t list

exception Parse_error of string

let parse (s : string) : t =
  let n = String.length s in
  let pos = ref 0 in
  let peek () = if !pos < n then Some s.[!pos] else None in
  let rec skip () = match peek () with
    | Some (' ' | '\t' | '\r' | '\n') -> incr pos; skip ()
    | _ -> () in
  let hex c = match c with
    | '0'..'9' -> Char.code c - 48
    | 'a'..'f' -> Char.code c - 87
    | 'A'..'F' -> Char.code c - 55
    | _ -> raise (Parse_error "hex") in
  let rec item () =
    skip ();
    match peek () with
    | None -> raise (Parse_error "eof")
    | Some '(' ->
      incr pos;
      let rec items acc =
        skip ();
        match peek () with
        | Some ')' -> incr pos; L (List.rev acc)
        | None -> raise (Parse_error "unclosed")
        | _ -> let x = item () in items (x :: acc) in
      items []
    | Some ')' -> raise (Parse_error "unexpected )")
    | Some '"' ->
      incr pos;
      let b = Buffer.create 16 in
      let rec go () =
        if !pos >= n then raise (Parse_error "unclosed string");
        let c = s.[!pos] in
        incr pos;
        if c = '"' then ()
        else if c = '\\' then begin
          if !pos >= n then raise (Parse_error "escape");
          let d = s.[!pos] in
          incr pos;
          (match d with
           | 'n' -> Buffer.add_char b '\n'
           | 't' -> Buffer.add_char b '\t'
           | 'r' -> Buffer.add_char b '\r'
           | 'x' ->
             if !pos + 1 >= n then raise (Parse_error "hex");
             let v = hex s.[!pos] * 16 + hex s.[!pos + 1] in
             pos := !pos + 2;
             Buffer.add_char b (Char.chr v)
           | c -> Buffer.add_char b c);
          go ()
        end else begin Buffer.add_char b c; go () end in
      go ();
      S (Buffer.contents b)
    | Some _ ->
      let st = !pos in
      let rec go () = match peek () with
        | Some (' ' | '\t' | '\r' | '\n' | '(' | ')' | '"') | None -> ()
        | _ -> incr pos; go () in
      go ();
      A (String.sub s st (!pos - st)) in
  let r = item () in
  skip ();
  if !pos <> n then raise (Parse_error "trailing input");
  r

let quote (s : string) : string =
  let b = Buffer.create (String.length s + 2) in
  Buffer.add_char b '"';
  String.iter (fun c ->
      match c with
      | '"' -> Buffer.add_string b "\\\""
      | '\\' -> Buffer.add_string b "\\\\"
      | '\n' -> Buffer.add_string b "\\n"
      | '\t' -> Buffer.add_string b "\\t"
      | c when Char.code c < 32 || Char.code c >= 127 ->
        Buffer.add_string b (Printf.sprintf "\\x%02x" (Char.code c))
      | c -> Buffer.add_char b c) s;
  Buffer.add_char b '"';
  Buffer.contents b

let rec to_string = function
  | A a -> a
  | S s -> quote s
  | L l -> "(" ^ String.concat " " (List.map to_string l) ^ ")"

(* helpers shared by the drivers *)
let explode (s : string) : char list = List.init (String.length s) (String.get s)
let implode (l : char list) : string = String.of_seq (List.to_seq l)
let int_of = function A a -> int_of_string a | _ -> raise (Parse_error "int expected")
let str_of = function S s -> s | A a -> a | _ -> raise (Parse_error "string expected")
let list_of = function L l -> l | _ -> raise (Parse_error "list expected")
let bool_of = function A "true" -> true | A "false" -> false | _ -> raise (Parse_error "bool expected")
