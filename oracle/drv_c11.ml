(* C11: (lit FORM ((name kind value)...) "body")
     FORM: str raw istr iraw; kind: int <n> | str "s" | bool true|false | other "%v text"
   -> EMIT <"go expression text" | SCANPANIC | MISALIGNED | INTERPPANIC>
      RUN <OK "value" | COMPILE_ERROR | UNMODELLED | -> DENOTE <"value" | NOTWF>
   The source handed to the scanner is body ++ closing delimiter ++ "\n". *)
open Sexp
open X_c11

let rec pos_of_int n = if n <= 1 then XH else if n land 1 = 0 then XO (pos_of_int (n lsr 1)) else XI (pos_of_int (n lsr 1))
let z_of_int n = if n = 0 then Z0 else if n > 0 then Zpos (pos_of_int n) else Zneg (pos_of_int (-n))

let form_of = function
  | A "str" -> Str | A "raw" -> Raw | A "istr" -> IStr | A "iraw" -> IRaw
  | _ -> raise (Parse_error "form")

let value_of = function
  | L [n; A "int"; v] -> (explode (str_of n), VInt (z_of_int (int_of v)))
  | L [n; A "str"; v] -> (explode (str_of n), VStr (explode (str_of v)))
  | L [n; A "bool"; v] -> (explode (str_of n), VBool (bool_of v))
  | L [n; A "other"; v] -> (explode (str_of n), VOther (explode (str_of v)))
  | _ -> raise (Parse_error "env entry")

let () = Registry.register "C11" (function
    | L [A "lit"; f; L env; body] ->
      let f = form_of f in
      let env = List.map value_of env in
      let body = explode (str_of body) in
      let src = body @ [close f; '\n'] in
      let emit_s, run_s =
        match scan f src with
        | None -> "SCANPANIC", "-"
        | Some (lit, rest) ->
          if rest <> ['\n'] then "MISALIGNED", "-"
          else match emit f lit with
            | None -> "INTERPPANIC", "-"
            | Some g ->
              quote (implode (emit_text g)),
              (match run env g with
               | Ok v -> "OK " ^ quote (implode v)
               | CompileError -> "COMPILE_ERROR"
               | Unmodelled -> "UNMODELLED"
               | ScanPanic -> "SCANPANIC"
               | InterpPanic -> "INTERPPANIC") in
      let den = match denote f env body with
        | Some v -> quote (implode v)
        | None -> "NOTWF" in
      Printf.sprintf "EMIT %s RUN %s DENOTE %s" emit_s run_s den
    | _ -> "ERR bad C11 request")
