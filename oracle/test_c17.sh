#!/bin/sh
# Self-test of the C17 oracle: every oracle/c17_tests/*.sexp with its hand-written tinyfo twin *.fo
# (carrying its own package_info) is transpiled by a scratch tinyfo built from /repo; the emitted Go,
# canonicalised by oracle/gocanon, must equal `C17 (compile_tiny …)` textually (incl. the _vN numbering),
# and the really built program must print what `C17 (run_tiny …)` answers; `C17 (subset …)` must say TINY.
set -u
cd "$(dirname "$0")/.."
ROOT=$(pwd); FOMODEL=$ROOT/bin/fomodel; REPO=${VERIF_REPO:-/repo}
SCR=${TMPDIR:-/tmp}/c17_selftest.$$; mkdir -p "$SCR"; trap 'rm -rf "$SCR"' EXIT
export GOFLAGS=-mod=mod GOPROXY=off GOSUMDB=off GOTOOLCHAIN=local
fail=0
cp -r "$REPO/tinyfo" "$SCR/tinyfo" && (cd "$SCR/tinyfo" && go build -o "$SCR/tinyfo_bin" .) || { echo "FAIL: cannot build tinyfo"; exit 1; }
(cd oracle/gocanon && go build -o "$SCR/gocanon" .) || { echo "FAIL: cannot build gocanon"; exit 1; }
for f in oracle/c17_tests/*.sexp; do
  n=$(basename "$f" .sexp); prog=$(tr '\n' ' ' < "$f")
  sub=$(printf 'C17 (subset %s)\n' "$prog" | "$FOMODEL")
  [ "$sub" = "TINY" ] || { echo "FAIL $n: subset = $sub"; fail=1; }
  run=$(printf 'C17 (run_tiny 100000 %s)\n' "$prog" | "$FOMODEL")
  fcr=$(printf 'C01 (run_go 100000 %s)\n' "$prog" | "$FOMODEL")
  [ "$run" = "$fcr" ] || { echo "FAIL $n: run_tiny differs from fc's run_go"; fail=1; }
  d="$SCR/$n"; mkdir -p "$d"; cp "oracle/c17_tests/$n.fo" "$d/m.fo"
  (cd "$d" && "$SCR/tinyfo_bin" m.fo > tinyfo.log 2>&1)
  [ -f "$d/gen_m.go" ] || { echo "FAIL $n: tinyfo wrote no gen_m.go: $(grep '^panic' "$d/tinyfo.log")"; fail=1; continue; }
  "$SCR/gocanon" "$d/gen_m.go" > "$d/real.sexp"
  printf 'C17 (compile_tiny %s)\n' "$prog" | "$FOMODEL" > "$d/model.sexp"
  cmp -s "$d/real.sexp" "$d/model.sexp" || { echo "FAIL $n: structure of tinyfo's Go differs from compile_tiny"; fail=1; }
  { printf 'module example.com/%s\n\ngo 1.23.4\n\nrequire (\n' "$n"
    for p in frt slice strings dict buf sys; do printf '\tgithub.com/karino2/folang/pkg/%s v0.0.0\n' $p; done
    printf ')\n'
    for p in frt slice strings dict buf sys; do printf 'replace github.com/karino2/folang/pkg/%s => %s/pkg/%s\n' $p "$REPO" $p; done
  } > "$d/go.mod"
  cp "$REPO/fc/go.sum" "$d/go.sum"
  (cd "$d" && go build -o prog . > build.log 2>&1) || { echo "FAIL $n: go build: $(cat "$d/build.log")"; fail=1; continue; }
  (cd "$d" && ./prog > real.out 2> real.err)
  python3 - "$run" "$d/real.out" <<'PY' || { echo "FAIL $n: real Go output differs from run_tiny"; fail=1; continue; }
import sys
ans, path = sys.argv[1], sys.argv[2]
assert ans.startswith('OUT "'), ans
s = ans[5:-1]; out = bytearray(); i = 0
while i < len(s):
    c = s[i]
    if c == "\\":
        d = s[i+1]
        if d == "n": out.append(10); i += 2
        elif d == "t": out.append(9); i += 2
        elif d == "x": out.append(int(s[i+2:i+4], 16)); i += 4
        else: out += d.encode("latin-1"); i += 2
    else:
        out += c.encode("latin-1"); i += 1
sys.exit(0 if bytes(out) == open(path, "rb").read() else 1)
PY
  echo "ok   $n (subset, structure, run_tiny = real tinyfo Go = fc model)"
done
[ $fail = 0 ] && echo "C17 self-test: all passed" || { echo "C17 self-test: FAILED"; exit 1; }
