(* C07: (hist (file ...)) with file = (name is_fo (def ...)), def = (name kind (refs...) ptemps etemps), numbers
   -> ACCEPT files=(n ...) temps=((name n...) ...) | REJECT *)
open Sexp
open X_c07

let rec nat_of_int n = if n <= 0 then O else S (nat_of_int (n - 1))
let rec int_of_nat = function O -> 0 | S n -> 1 + int_of_nat n

let def_of = function
  | L [n; k; L refs; p; e] ->
    { d_name = nat_of_int (int_of n); d_kind = (match k with A "type" -> KType | _ -> KLet);
      d_refs = List.map (fun r -> nat_of_int (int_of r)) refs; d_body = O;
      d_ptemps = nat_of_int (int_of p); d_etemps = nat_of_int (int_of e) }
  | _ -> raise (Parse_error "def")
let file_of = function
  | L [n; fo; L defs] -> { f_name = nat_of_int (int_of n); f_is_fo = bool_of fo; f_defs = List.map def_of defs }
  | _ -> raise (Parse_error "file")

let () = Registry.register "C07" (function
    | L [A "hist"; L files] ->
      let fs = List.map file_of files in
      (match run_files [] fs with
       | None -> "REJECT"
       | Some (_, outs) ->
         let names = String.concat " " (List.map (fun (n, _) -> string_of_int (int_of_nat n)) outs) in
         let temps = String.concat " " (List.map (fun (n, ts) ->
             "(" ^ String.concat " " (string_of_int (int_of_nat n) :: List.map (fun t -> string_of_int (int_of_nat t)) ts) ^ ")")
             (number_files O fs)) in
         "ACCEPT files=(" ^ names ^ ") temps=(" ^ temps ^ ")")
    | _ -> "ERR bad C07 request")
