(* C16: (scan "<bytes>" pos)   -> TOK <type> <begin> <len> <payload> | DIAG <msg> | EOF | FUEL
        (tokens "<bytes>")     -> TOKS <type>:<begin>:<len>:<payload> ... | DIAG <tokens before the failure> | <msg>
        (sinterp "<bytes>")    -> OK "<fmt>" ("v" ...) | DIAG <msg>
        (reinterp "<bytes>")   -> OK "<bytes>" | DIAG <msg>
        (keywords)             -> kw:(TYPE) ... sorted
        (drive (args "a.fo" ...) (files "a.fo" "gen_b.go" ...) (dirs ...) (unwritable ...) (bad i ...))
                               -> EXIT0 written=(<dest>:<arg index> ...) | FAIL <k> <READ|TRANSLATE|WRITE> written=(...)
        (resolve (rels ("T3" "<type>") ...) "<type>") -> RESOLVED <type> | CYCLIC
          types in prefix notation: int | str | bool | v:T<n> | sl t | tu:<n> t... | fn:<n> t...
          files: regular files present (inputs and pre-existing outputs); bad: argument indices whose translation fails;
          written: destinations of the .fo arguments whose final content was written by this run, with the
          index of the argument that wrote it last (sorted by name)
   payload: - (none) | s<hex> (stringVal) | i<decimal> (intVal, 64-bit two's complement)
   fuel is always length+1 (theorems scan_total, tokenize_terminates, parse_sinterp_total) *)
open Sexp
open X_c16

let rec nat_of_int n = if n <= 0 then O else S (nat_of_int (n - 1))
let rec int_of_nat = function O -> 0 | S n -> 1 + int_of_nat n

(* small nats are shared: byte codes *)
let byte_nats = Array.init 256 nat_of_int
let bytes_of (s : string) : nat list = List.init (String.length s) (fun i -> byte_nats.(Char.code s.[i]))
let string_of_bytes (l : nat list) : string =
  let b = Buffer.create 16 in
  List.iter (fun n -> Buffer.add_char b (Char.chr (int_of_nat n land 255))) l;
  Buffer.contents b

let rec pos_to_i64 = function
  | XH -> 1L
  | XO p -> Int64.shift_left (pos_to_i64 p) 1
  | XI p -> Int64.add (Int64.shift_left (pos_to_i64 p) 1) 1L
let z_to_i64 = function Z0 -> 0L | Zpos p -> pos_to_i64 p | Zneg p -> Int64.neg (pos_to_i64 p)

let tname = function
  | ILLEGAL -> "(ILLEGAL)" | EOF -> "(EOF)" | SPACE -> "(SPACE)" | IDENTIFIER -> "(IDENTIFIER)" | EQ -> "(EQ)"
  | LET -> "(LET)" | FUN -> "(FUN)" | TYPE -> "(TYPE)" | EOL -> "(EOL)" | PACKAGE -> "(PACKAGE)" | IMPORT -> "(IMPORT)"
  | LPAREN -> "(LPAREN)" | RPAREN -> "(RPAREN)" | LBRACE -> "(LBRACE)" | RBRACE -> "(RBRACE)"
  | LSBRACKET -> "(LSBRACKET)" | RSBRACKET -> "(RSBRACKET)" | LT -> "(LT)" | GT -> "(GT)" | LE -> "(LE)" | GE -> "(GE)"
  | BRACKET -> "(BRACKET)" | PIPE -> "(PIPE)" | STRING -> "(STRING)" | SINTERP -> "(SINTERP)" | COLON -> "(COLON)"
  | COMMA -> "(COMMA)" | SEMICOLON -> "(SEMICOLON)" | INT_IMM -> "(INT_IMM)" | OF -> "(OF)" | BAR -> "(BAR)"
  | BARBAR -> "(BARBAR)" | RARROW -> "(RARROW)" | UNDER_SCORE -> "(UNDER_SCORE)" | MATCH -> "(MATCH)" | WITH -> "(WITH)"
  | TRUE -> "(TRUE)" | FALSE -> "(FALSE)" | PACKAGE_INFO -> "(PACKAGE_INFO)" | DOT -> "(DOT)" | AND -> "(AND)"
  | AMP -> "(AMP)" | AMPAMP -> "(AMPAMP)" | PLUS -> "(PLUS)" | MINUS -> "(MINUS)" | ASTER -> "(ASTER)" | SLASH -> "(SLASH)"
  | IF -> "(IF)" | THEN -> "(THEN)" | ELSE -> "(ELSE)" | ELIF -> "(ELIF)" | NOT -> "(NOT)"

let hex s = String.concat "" (List.init (String.length s) (fun i -> Printf.sprintf "%02x" (Char.code s.[i])))
let payload = function
  | PNone -> "-"
  | PStr s -> "s" ^ hex (string_of_bytes s)
  | PInt z -> "i" ^ Int64.to_string (z_to_i64 z)

let tok4 (((ty, b), l), p) = Printf.sprintf "%s:%d:%d:%s" (tname ty) (int_of_nat b) (int_of_nat l) (payload p)

(* prefix notation of types <-> Core.Resolve.ty *)
let var_of s = nat_of_int (int_of_string (String.sub s 3 (String.length s - 3)))   (* v:T<n> *)
let rec parse_ty toks =
  match toks with
  | [] -> raise (Parse_error "type")
  | t :: rest ->
    let list n rest =
      let rec go n rest acc = if n = 0 then (List.rev acc, rest) else
          let (e, rest) = parse_ty rest in go (n - 1) rest (e :: acc) in
      go n rest [] in
    let arity t = int_of_string (String.sub t 3 (String.length t - 3)) in
    if t = "int" then (TBase O, rest)
    else if t = "str" then (TBase (S O), rest)
    else if t = "bool" then (TBase (S (S O)), rest)
    else if String.length t > 3 && String.sub t 0 3 = "v:T" then (TVar (var_of t), rest)
    else if t = "sl" then let (e, rest) = parse_ty rest in (TSlice e, rest)
    else if String.length t > 3 && String.sub t 0 3 = "tu:" then let (ts, rest) = list (arity t) rest in (TTuple ts, rest)
    else if String.length t > 3 && String.sub t 0 3 = "fn:" then let (ts, rest) = list (arity t) rest in (TFunc ts, rest)
    else raise (Parse_error ("type token " ^ t))
let ty_of_string s =
  match parse_ty (List.filter (fun x -> x <> "") (String.split_on_char ' ' s)) with
  | (t, []) -> t
  | _ -> raise (Parse_error "trailing type tokens")
let rec show_ty = function
  | TVar v -> "v:T" ^ string_of_int (int_of_nat v)
  | TBase b -> (match int_of_nat b with 0 -> "int" | 1 -> "str" | _ -> "bool")
  | TSlice e -> "sl " ^ show_ty e
  | TTuple ts -> String.concat " " (("tu:" ^ string_of_int (List.length ts)) :: List.map show_ty ts)
  | TFunc ts -> String.concat " " (("fn:" ^ string_of_int (List.length ts)) :: List.map show_ty ts)

let () = Registry.register "C16" (function
    | L [A "resolve"; L (A "rels" :: rels); t] ->
      let m = List.map (function
          | L [v; ty] -> (nat_of_int (int_of_string (let s = str_of v in String.sub s 1 (String.length s - 1))), ty_of_string (str_of ty))
          | _ -> raise (Parse_error "rel")) rels in
      (match resolve m (ty_of_string (str_of t)) with
       | Resolved r -> "RESOLVED " ^ show_ty r
       | Cyclic -> "CYCLIC"
       | ROutOfFuel -> "FUEL")
    | L [A "scan"; s; p] ->
      let buf = bytes_of (str_of s) in
      let fuel = S (nat_of_int (String.length (str_of s))) in
      (match scan_token_at fuel buf (nat_of_int (int_of p)) with
       | Tok (EOF, _, _, _) -> "EOF"
       | Tok (ty, b, l, pl) -> Printf.sprintf "TOK %s %d %d %s" (tname ty) (int_of_nat b) (int_of_nat l) (payload pl)
       | Diag m -> "DIAG " ^ implode m
       | OutOfFuel -> "FUEL")
    | L [A "tokens"; s] ->
      (match tokens (bytes_of (str_of s)) with
       | TDone ts -> "TOKS " ^ String.concat " " (List.map tok4 ts)
       | TDiag (ts, m) -> "DIAG " ^ String.concat " " (List.map tok4 ts) ^ " | " ^ implode m
       | TOutOfFuel | TOutOfSteps -> "FUEL")
    | L [A "sinterp"; s] ->
      let buf = bytes_of (str_of s) in
      (match parse_sinterp (S (nat_of_int (String.length (str_of s)))) buf with
       | SOk (f, vs) -> "OK " ^ quote (string_of_bytes f) ^ " (" ^ String.concat " " (List.map (fun v -> quote (string_of_bytes v)) vs) ^ ")"
       | SDiag m -> "DIAG " ^ implode m
       | SOutOfFuel -> "FUEL")
    | L [A "reinterp"; s] ->
      let buf = bytes_of (str_of s) in
      (match reinterpret_escape (S (nat_of_int (String.length (str_of s)))) buf with
       | EOk r -> "OK " ^ quote (string_of_bytes r)
       | EDiag m -> "DIAG " ^ implode m
       | EOutOfFuel -> "FUEL")
    | L [A "drive"; L (A "args" :: args); L (A "files" :: files); L (A "dirs" :: dirs); L (A "unwritable" :: unw); L (A "bad" :: bad)] ->
      let names l = List.map (fun x -> explode (str_of x)) l in
      let argl = names args in
      let r = drive (List.map (fun x -> nat_of_int (int_of x)) bad) argl (names files) (names dirs) (names unw) in
      let dests = List.sort_uniq compare
          (List.filter_map (fun a -> if fo_is_fo a then Some (implode (fo_dest a)) else None) argl) in
      let written = List.filter_map (fun d ->
          match final_content r (explode d) with
          | Some [c] when int_of_nat c >= 100 -> Some (Printf.sprintf "%s:%d" d (int_of_nat c - 100))
          | _ -> None) dests in
      let w = " written=(" ^ String.concat " " written ^ ")" in
      (match r with
       | Done (_, _) -> "EXIT0" ^ w
       | Failed (k, why, _, _) ->
         Printf.sprintf "FAIL %d %s%s" (int_of_nat k)
           (match why with ReadFail -> "READ" | TranslateFail -> "TRANSLATE" | WriteFail -> "WRITE") w)
    | L [A "keywords"] ->
      String.concat " " (List.sort compare (List.map (fun (k, t) -> implode k ^ ":" ^ tname t) keyword_names))
    | _ -> "ERR bad C16 request")
