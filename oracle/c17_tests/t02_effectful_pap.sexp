(prog (
  (fun say ((s string) (n int)) int (block ((do (ext frt.Println ((var s))))) (var n)))
  (fun add ((a int) (b int)) int (block () (bin + (var a) (var b))))
 )
 (block (
   (let g (call add 2 ((call say 2 ((str "arg") (int 1))))))
   (do (ext frt.Println ((str "made"))))
   (do (ext frt.Printf1 ((str "%d\n") (call g 1 ((int 10))))))
   (do (ext frt.Printf1 ((str "%d\n") (call g 1 ((int 20))))))
  )
  (ext frt.Printf1 ((str "%v\n") (ext slice.Map ((var g) (slice int ((int 1) (int 2)))))))))
