(* C14: models of pkg/strings, pkg/dict, pkg/buf, pkg/frt (coq/Pkg/*.v).
   (str <fn> args...)                         string functions
   (dict <rev> op...)                         one history on string->int dictionaries; results tab-separated
   (buf op...)                                one history on buffers; results tab-separated
   (tos v) (tosold v) (sinterp fmt (v...)) (sinterpold ...) (sprintf fmt (v...))
   (ifelse c) (ifelseunit c) (ifonly c) (pipe n) (tuple2 a b) (tuple3 a b c) *)
open Sexp
open X_c14

let rec nat_of_int n = if n <= 0 then O else S (nat_of_int (n - 1))
let rec int_of_nat = function O -> 0 | S n -> 1 + int_of_nat n
let by x = explode (str_of x)
let q (l : char list) = quote (implode l)
let zdec x = z_of_dec (explode (str_of x))
let zstr z = implode (dec z)
let qlist l = "(" ^ String.concat " " (List.map q l) ^ ")"

let rec gval_of = function
  | L [A k; v] when List.mem k ["int"; "i8"; "i16"; "i32"; "i64"] ->
    let kk = (match k with "int" -> KInt | "i8" -> KInt8 | "i16" -> KInt16 | "i32" -> KInt32 | _ -> KInt64) in
    GInt (kk, zdec v)
  | L [A k; v] when List.mem k ["uint"; "u8"; "u16"; "u32"; "u64"; "uptr"] ->
    let kk = (match k with "uint" -> KUint | "u8" -> KUint8 | "u16" -> KUint16 | "u32" -> KUint32
                         | "u64" -> KUint64 | _ -> KUintptr) in
    GUint (kk, zdec v)
  | L [A "f64"; f; v] -> GFloat (true, by f, by v)
  | L [A "f32"; f; v] -> GFloat (false, by f, by v)
  | L [A "str"; s] -> GStr (by s)
  | L [A "bool"; x] -> GBool (bool_of x)
  | L (A "struct" :: l) -> GStruct (List.map gval_of l)
  | L (A "slice" :: l) -> GSlice (List.map gval_of l)
  | _ -> raise (Parse_error "gval")

let dict_op = function
  | L [A "new"] -> ONew
  | L [A "add"; d; k; v] -> OAdd (nat_of_int (int_of d), by k, zdec v)
  | L [A "has"; d; k] -> OContainsKey (nat_of_int (int_of d), by k)
  | L [A "find"; d; k] -> OTryFind (nat_of_int (int_of d), by k)
  | L [A "item"; d; k] -> OItem (nat_of_int (int_of d), by k)
  | L [A "kvs"; d] -> OKVs (nat_of_int (int_of d))
  | L [A "keys"; d] -> OKeys (nat_of_int (int_of d))
  | L [A "values"; d] -> OValues (nat_of_int (int_of d))
  | L [A "todict"; L l] ->
    OToDict (List.map (function L [k; v] -> (by k, zdec v) | _ -> raise (Parse_error "kv")) l)
  | _ -> raise (Parse_error "dict op")

(* enumerations are printed sorted: their order is not an observable *)
let dict_res = function
  | RRef d -> "ref:" ^ string_of_int (int_of_nat d)
  | RUnit -> "unit"
  | RBool x -> "bool:" ^ string_of_bool x
  | RFind (v, ok) -> "find:" ^ zstr v ^ ":" ^ string_of_bool ok
  | RVal v -> "val:" ^ zstr v
  | RKVs l -> "kvs:" ^ String.concat " " (List.sort compare (List.map (fun (k, v) -> q k ^ "=" ^ zstr v) l))
  | RKeys l -> "keys:" ^ String.concat " " (List.sort compare (List.map q l))
  | RVals l -> "vals:" ^ String.concat " " (List.sort compare (List.map zstr l))
  | RInvalid -> "invalid"

let buf_op = function
  | L [A "new"] -> BNew
  | L [A "write"; d; s] -> BWrite (nat_of_int (int_of d), by s)
  | L [A "string"; d] -> BString (nat_of_int (int_of d))
  | _ -> raise (Parse_error "buf op")
let buf_res = function
  | BRef d -> "ref:" ^ string_of_int (int_of_nat d)
  | BUnit -> "unit"
  | BStr s -> "str:" ^ q s
  | BInvalid -> "invalid"

let out_s = function Ok s -> "ok " ^ q s | Panic _ -> "panic"
let out_os = function Ok (Some s) -> "ok " ^ q s | Ok None -> "ok none" | Panic _ -> "panic"
let evs l = String.concat "" (List.map (fun e -> if e then "T" else "F") l)

let () = Registry.register "C14" (function
    | L [A "str"; A "hasprefix"; p; s] -> string_of_bool (hasPrefix (by p) (by s))
    | L [A "str"; A "hassuffix"; p; s] -> string_of_bool (hasSuffix (by p) (by s))
    | L [A "str"; A "trimsuffix"; p; s] -> q (trimSuffix (by p) (by s))
    | L [A "str"; A "split"; sep; s] -> qlist (split (by sep) (by s))
    | L [A "str"; A "splitn"; n; sep; s] -> qlist (splitN (zdec n) (by sep) (by s))
    | L [A "str"; A "concat"; sep; L l] -> q (concat (by sep) (List.map by l))
    | L [A "str"; A "appendhead"; h; s] -> q (appendHead (by h) (by s))
    | L [A "str"; A "appendtail"; t; s] -> q (appendTail (by t) (by s))
    | L [A "str"; A "enclose"; x; y; c] -> q (encloseWith (by x) (by y) (by c))
    | L [A "str"; A "length"; s] -> string_of_int (int_of_nat (length0 (by s)))
    | L [A "str"; A "isempty"; s] -> string_of_bool (isEmpty (by s))
    | L [A "str"; A "isnotempty"; s] -> string_of_bool (isNotEmpty (by s))
    | L (A "dict" :: r :: ops) ->
      String.concat "\t" (List.map dict_res (run_sz (bool_of r) (List.map dict_op ops)))
    | L (A "buf" :: ops) ->
      String.concat "\t" (List.map buf_res (Stdlib.snd (brun [] (List.map buf_op ops))))
    | L [A "tos"; v] -> out_s (toS (gval_of v))
    | L [A "tosold"; v] -> out_s (toS_old (gval_of v))
    | L [A "sinterp"; f; L l] -> out_os (sInterP (by f) (List.map gval_of l))
    | L [A "sinterpold"; f; L l] -> out_os (sInterP_old (by f) (List.map gval_of l))
    | L [A "sprintf"; f; L [x]] ->
      (match sprintf1 (by f) (gval_of x) with Some s -> q s | None -> "none")
    | L [A "sprintf"; f; L [x; y]] ->
      (match sprintf2 (by f) (gval_of x) (gval_of y) with Some s -> q s | None -> "none")
    | L [A "ifelse"; c] -> let (tr, v) = ifelse_demo (bool_of c) in evs tr ^ " " ^ string_of_bool v
    | L [A "ifelseunit"; c] -> "[" ^ evs (ifelseunit_demo (bool_of c)) ^ "]"
    | L [A "ifonly"; c] -> "[" ^ evs (ifonly_demo (bool_of c)) ^ "]"
    | L [A "pipe"; x] -> q (pipe (by x) (fun s -> appendTail (explode "!") s))
    | L [A "tuple2"; x; y] ->
      let t = newTuple2 (by x) (by y) in
      let (a, b') = destr2 t in
      String.concat " " [q (fst0 t); q (snd0 t); q a; q b']
    | L [A "tuple3"; x; y; z] ->
      let ((a, b'), c) = destr3 (newTuple3 (by x) (by y) (by z)) in
      String.concat " " [q a; q b'; q c]
    | _ -> "ERR bad C14 request")
