(* fomodel: one request per line "<ID> <sexp>", one response line per request.
   "ERR <reason>" for malformed requests; drivers answer "FUEL" when a fuelled model runs out. *)
let () =
  (try
     while true do
       let line = input_line stdin in
       let line = String.trim line in
       if line <> "" then begin
         let resp =
           try
             let i = try String.index line ' ' with Not_found -> String.length line in
             let id = String.sub line 0 i in
             let rest = String.sub line i (String.length line - i) in
             match Hashtbl.find_opt Registry.handlers id with
             | None -> "ERR unknown id " ^ id
             | Some h -> h (Sexp.parse rest)
           with
           | Sexp.Parse_error m -> "ERR parse " ^ m
           | Failure m -> "ERR failure " ^ m
           | Not_found -> "ERR not_found"
           | Stack_overflow -> "ERR stack_overflow"
           | Invalid_argument m -> "ERR invalid " ^ m in
         print_string resp;
         print_newline ()
       end
     done
   with End_of_file -> ())
