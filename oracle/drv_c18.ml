(* C18: (render "dir" "list file content" (("path" "content") ...)) -> ok "<README bytes>" | panic "<message>" *)
open Sexp
open X_c18

let by x = explode (str_of x)
let () = Registry.register "C18" (function
    | L [A "render"; dir; content; L files] ->
      let fl = List.map (function L [p; c] -> (by p, by c) | _ -> raise (Parse_error "file")) files in
      (match render_files fl (by dir) (by content) with
       | Ok s -> "ok " ^ quote (implode s)
       | Panic m -> "panic " ^ quote (implode m))
    | _ -> "ERR bad C18 request")
