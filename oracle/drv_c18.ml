(* C18: (history "dir" (("list content" (("path" "content") ...)) ...)) -> per run, tab separated: ok "<README>" | none
   C18: (render "dir" "list file content" (("path" "content") ...)) -> ok "<README bytes>" | panic "<message>" *)
open Sexp
open X_c18

let by x = explode (str_of x)
let () = Registry.register "C18" (function
    | L [A "render"; dir; content; L files] ->
      let fl = List.map (function L [p; c] -> (by p, by c) | _ -> raise (Parse_error "file")) files in
      (match render_files fl (by dir) (by content) with
       | Ok s -> "ok " ^ quote (implode s)
       | Panic m -> "panic " ^ quote (implode m))
    | L [A "history"; dir; L runs] ->
      (* README.md after each run of a history that starts without README.md *)
      let run_of = function
        | L [content; L files] ->
          (List.map (function L [p; c] -> (by p, by c) | _ -> raise (Parse_error "file")) files, by content)
        | _ -> raise (Parse_error "run") in
      String.concat "\t"
        (List.map (function Some s -> "ok " ^ quote (implode s) | None -> "none")
           (history_files None (by dir) (List.map run_of runs)))
    | _ -> "ERR bad C18 request")
