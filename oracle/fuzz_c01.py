#!/usr/bin/env python3
"""Small differential fuzzer for the C01 oracle (a development aid of the model's author; the real
generator lives in harness/).  Generates random typed MiniFo programs (s-expression + Folang text), runs
run_src / run_go in bin/fomodel and the really transpiled + built Go program, and compares the three outputs.
usage: fuzz_c01.py <seed> <nprogs> [nstmts]      (needs a scratch fc: builds one from $VERIF_REPO or /repo)"""
import os, random, subprocess, sys, tempfile, shutil

ROOT = os.path.dirname(os.path.dirname(os.path.abspath(__file__)))
REPO = os.environ.get("VERIF_REPO", "/repo")
ENV = dict(os.environ, GOFLAGS="-mod=mod", GOPROXY="off", GOSUMDB="off", GOTOOLCHAIN="local")

PRELUDE_SEXP = """
  (record Rc ((A int) (B string)))
  (union Un ((I int) (S string) (P (tuple int string)) (N none)))
  (fun sayi ((s string) (n int)) int (block ((do (ext frt.Println ((var s))))) (var n)))
  (fun says ((s string) (v string)) string (block ((do (ext frt.Println ((var s))))) (var v)))
  (fun sayb ((s string) (v bool)) bool (block ((do (ext frt.Println ((var s))))) (var v)))
  (fun add ((a int) (b int)) int (block () (bin + (var a) (var b))))
  (fun add3 ((a int) (b int) (c int)) int (block () (bin + (bin + (var a) (bin * (var b) (int 10))) (bin * (var c) (int 100)))))
  (fun cat ((a string) (b string)) string (block () (bin sadd (var a) (var b))))
  (fun apply ((f (fun (int) int)) (x int)) int (block () (call f 1 ((var x)))))
  (fun showu ((u (union Un))) string (block ()
     (matchu (var u) ((I i (block () (ext frt.Sprintf1 ((str "I%d") (var i)))))
                      (S s (block () (bin sadd (str "S") (var s))))
                      (P p (block ((destr (pa pb) (var p))) (bin sadd (ext frt.Sprintf1 ((str "P%d") (var pa))) (var pb))))
                      (N (block () (str "N")))))))
  (fun isI ((u (union Un))) bool (block () (matchu (var u) ((I _ (block () (bool true)))) (default (block () (bool false))))))
  (fun cls ((s string)) int (block () (matchs (var s) (("a" (block () (int 1))) ("bb" (block () (int 2)))) (bind o (block () (ext strings.Length ((var o))))))))
  (fun useall ((u unit)) unit (block ((let z (ext slice.Length ((slice int ((int 1)))))) (let q (ext strings.Length ((str "x"))))) (ext frt.Printf1 ((str "%d\\n") (bin + (var z) (var q))))))
"""
PRELUDE_FO = """package main
import frt
import slice
import strings

type Rc = {A: int; B: string}

type Un =
  | I of int
  | S of string
  | P of int*string
  | N

let sayi (s:string) (n:int) =
  frt.Println s
  n

let says (s:string) (v:string) =
  frt.Println s
  v

let sayb (s:string) (v:bool) =
  frt.Println s
  v

let add (a:int) (b:int) = a + b

let add3 (a:int) (b:int) (c:int) = (a + (b * 10)) + (c * 100)

let cat (a:string) (b:string) = a + b

let apply (f:int->int) (x:int) = f x

let showu (u:Un) =
  match u with
  | I i -> frt.Sprintf1 "I%d" i
  | S s -> "S" + s
  | P p ->
    let (pa, pb) = p
    (frt.Sprintf1 "P%d" pa) + pb
  | N -> "N"

let isI (u:Un) =
  match u with
  | I _ -> true
  | _ -> false

let cls (s:string) =
  match s with
  | "a" -> 1
  | "bb" -> 2
  | o -> strings.Length o

let useall () =
  let z = slice.Length [1]
  let q = strings.Length "x"
  frt.Printf1 "%d\\n" (z + q)

"""

class G:
    def __init__(self, rng):
        self.r = rng
        self.n = 0
        self.env = []   # (name, type)
        self.tag = 0

    def fresh(self, p="v"):
        self.n += 1
        return "%s%d" % (p, self.n)

    def tg(self):
        self.tag += 1
        return "t%d" % self.tag

    def vars_of(self, t):
        return [x for (x, ty) in self.env if ty == t]

    # returns (sexp, fo)
    def e(self, t, d):
        r = self.r
        vs = self.vars_of(t)
        if d <= 0 or r.random() < 0.15:
            if vs and r.random() < 0.6:
                x = r.choice(vs); return ("(var %s)" % x, x)
            return self.lit(t)
        if vs and r.random() < 0.15:
            x = r.choice(vs); return ("(var %s)" % x, x)
        k = r.random()
        if t == "int":
            c = r.randrange(14)
            if c == 0:
                a, b = self.e("int", d-1), self.e("int", d-1); op = r.choice("+-*")
                return ("(bin %s %s %s)" % (op, a[0], b[0]), "(%s %s %s)" % (a[1], op, b[1]))
            if c == 1:
                a = self.e("int", d-1); tg = self.tg()
                return ('(call sayi 2 ((str "%s") %s))' % (tg, a[0]), '(sayi "%s" %s)' % (tg, a[1]))
            if c == 2:
                a, b = self.e("int", d-1), self.e("int", d-1)
                return ("(call add 2 (%s %s))" % (a[0], b[0]), "(add %s %s)" % (a[1], b[1]))
            if c == 3:
                cnd, a, b = self.e("bool", d-1), self.e("int", d-1), self.e("int", d-1)
                return ("(if %s (block () %s) (block () %s))" % (cnd[0], a[0], b[0]), "(if %s then %s else %s)" % (cnd[1], a[1], b[1]))
            if c == 4:
                a = self.e("sint", d-1); return ("(ext slice.Length (%s))" % a[0], "(slice.Length %s)" % a[1])
            if c == 5:
                a = self.e("string", d-1); return ("(ext strings.Length (%s))" % a[0], "(strings.Length %s)" % a[1])
            if c == 6:
                a = self.e("tup", d-1); return ("(ext frt.Fst (%s))" % a[0], "(frt.Fst %s)" % a[1])
            if c == 7:
                f = self.fn_int_int(d-1); a = self.e("int", d-1)
                return ("(call apply 2 (%s %s))" % (f[0], a[0]), "(apply %s %s)" % (f[1], a[1]))
            if c == 8:
                a = self.e("int", d-1); f = self.stage_int_int(d-1)
                return ("(pipe %s %s)" % (a[0], f[0]), "(%s |> %s)" % (a[1], f[1]))
            if c == 9:
                a = self.e("sint", d-1); i = self.e("int", d-1)
                return ("(ext slice.Fold ((lam ((ac int) (el int)) (block () (bin + (bin * (var ac) (int 3)) (var el)))) %s %s))" % (i[0], a[0]),
                        "(slice.Fold (fun (ac:int) (el:int) -> (ac * 3) + el) %s %s)" % (i[1], a[1]))
            if c == 10:
                a = self.e("string", d-1); return ("(call cls 1 (%s))" % a[0], "(cls %s)" % a[1])
            if c == 11:
                rs = self.vars_of("rec")
                if rs:
                    x = r.choice(rs); return ("(field (var %s) A)" % x, "%s.A" % x)
            if c == 12:
                a, b, cc = self.e("int", d-1), self.e("int", d-1), self.e("int", d-1)
                return ("(call add3 3 (%s %s %s))" % (a[0], b[0], cc[0]), "(add3 %s %s %s)" % (a[1], b[1], cc[1]))
            return self.lit(t)
        if t == "string":
            c = r.randrange(11)
            if c == 0:
                a, b = self.e("string", d-1), self.e("string", d-1)
                return ("(bin sadd %s %s)" % (a[0], b[0]), "(%s + %s)" % (a[1], b[1]))
            if c == 1:
                a = self.e("string", d-1); tg = self.tg()
                return ('(call says 2 ((str "%s") %s))' % (tg, a[0]), '(says "%s" %s)' % (tg, a[1]))
            if c == 2:
                a = self.e("int", d-1); return ('(ext frt.Sprintf1 ((str "<%%d>") %s))' % a[0], '(frt.Sprintf1 "<%%d>" %s)' % a[1])
            if c == 3:
                a = self.e("un", d-1); return ("(call showu 1 (%s))" % a[0], "(showu %s)" % a[1])
            if c == 4:
                a = self.e("sstr", d-1); return ('(ext strings.Concat ((str ",") %s))' % a[0], '(strings.Concat "," %s)' % a[1])
            if c == 5:
                a = self.e("tup", d-1); return ("(ext frt.Snd (%s))" % a[0], "(frt.Snd %s)" % a[1])
            if c == 6:
                cnd, a, b = self.e("bool", d-1), self.e("string", d-1), self.e("string", d-1)
                return ("(if %s (block () %s) (block () %s))" % (cnd[0], a[0], b[0]), "(if %s then %s else %s)" % (cnd[1], a[1], b[1]))
            if c == 7:
                hs = [x for (x, ty) in self.env if ty in ("int", "string", "bool")]
                if hs:
                    xs = [r.choice(hs) for _ in range(r.randrange(1, 4))]
                    return ("(interp " + " ".join('"%s=" (hole %s)' % (x, x) for x in xs) + ' ";")',
                            '$"' + "".join("%s={%s}" % (x, x) for x in xs) + ';"')
            if c == 8:
                a, b = self.e("string", d-1), self.e("string", d-1)
                w = r.choice(["AppendHead", "AppendTail"])
                return ("(ext strings.%s (%s %s))" % (w, a[0], b[0]), "(strings.%s %s %s)" % (w, a[1], b[1]))
            if c == 9:
                a = self.e("sint", d-1); return ('(ext frt.Sprintf1 ((str "%%v") %s))' % a[0], '(frt.Sprintf1 "%%v" %s)' % a[1])
            return self.lit(t)
        if t == "bool":
            c = r.randrange(10)
            if c == 0:
                a, b = self.e("int", d-1), self.e("int", d-1); op = r.choice(["<", ">", "<=", ">="])
                return ("(bin %s %s %s)" % (op, a[0], b[0]), "(%s %s %s)" % (a[1], op, b[1]))
            if c == 1:
                a, b = self.e("bool", d-1), self.e("bool", d-1); op = r.choice(["&&", "||"])
                return ("(bin %s %s %s)" % (op, a[0], b[0]), "(%s %s %s)" % (a[1], op, b[1]))
            if c == 2:
                a = self.e("bool", d-1); return ("(not %s)" % a[0], "(not %s)" % a[1])
            if c == 3:
                ty = r.choice(["int", "string", "tup", "sint", "un", "rec", "bool"])
                a, b = self.e(ty, d-1), self.e(ty, d-1); op = r.choice(["eq", "neq"])
                return ("(%s %s %s)" % (op, a[0], b[0]), "(%s %s %s)" % (a[1], "=" if op == "eq" else "<>", b[1]))
            if c == 4:
                a = self.e("bool", d-1); tg = self.tg()
                return ('(call sayb 2 ((str "%s") %s))' % (tg, a[0]), '(sayb "%s" %s)' % (tg, a[1]))
            if c == 5:
                a = self.e("un", d-1); return ("(call isI 1 (%s))" % a[0], "(isI %s)" % a[1])
            if c == 6:
                a, b = self.e("string", d-1), self.e("string", d-1); w = r.choice(["HasPrefix", "HasSuffix"])
                return ("(ext strings.%s (%s %s))" % (w, a[0], b[0]), "(strings.%s %s %s)" % (w, a[1], b[1]))
            if c == 7:
                a = self.e("sint", d-1); w = r.choice(["Forall", "Forany"]); k = r.randrange(4)
                return ("(ext slice.%s ((lam ((el int)) (block () (bin > (var el) (int %d)))) %s))" % (w, k, a[0]),
                        "(slice.%s (fun (el:int) -> el > %d) %s)" % (w, k, a[1]))
            if c == 8:
                a = self.e("sint", d-1); w = r.choice(["IsEmpty", "IsNotEmpty"])
                return ("(ext slice.%s (%s))" % (w, a[0]), "(slice.%s %s)" % (w, a[1]))
            return self.lit(t)
        if t == "tup":
            a, b = self.e("int", d-1), self.e("string", d-1)
            return ("(tuple %s %s)" % (a[0], b[0]), "(%s, %s)" % (a[1], b[1]))
        if t == "rec":
            a, b = self.e("int", d-1), self.e("string", d-1)
            return ("(record Rc ((A %s) (B %s)))" % (a[0], b[0]), "{A=%s; B=%s}" % (a[1], b[1]))
        if t == "un":
            c = r.randrange(4)
            if c == 0:
                a = self.e("int", d-1); return ("(ctor I %s)" % a[0], "(I %s)" % a[1])
            if c == 1:
                a = self.e("string", d-1); return ("(ctor S %s)" % a[0], "(S %s)" % a[1])
            if c == 2:
                a = self.e("tup", d-1); return ("(ctor P %s)" % a[0], "(P %s)" % a[1])
            return ("(ctor N)", "N")
        if t == "sint":
            c = r.randrange(12)
            if c == 0:
                a = self.e("sint", d-1); f = self.fn_int_int(d-1)
                return ("(ext slice.Map (%s %s))" % (f[0], a[0]), "(slice.Map %s %s)" % (f[1], a[1]))
            if c == 1:
                a = self.e("sint", d-1); f = self.fn_int_int(d-1)
                return ("(pipe %s (ext slice.Map (%s)))" % (a[0], f[0]), "(%s |> slice.Map %s)" % (a[1], f[1]))
            if c == 2:
                a = self.e("sint", d-1); k = r.randrange(5)
                return ("(ext slice.Filter ((lam ((el int)) (block () (bin > (var el) (int %d)))) %s))" % (k, a[0]),
                        "(slice.Filter (fun (el:int) -> el > %d) %s)" % (k, a[1]))
            if c == 3:
                a = self.e("sint", d-1); return ("(ext slice.Sort (%s))" % a[0], "(slice.Sort %s)" % a[1])
            if c == 4:
                a, b = self.e("sint", d-1), self.e("sint", d-1)
                return ("(ext slice.Append (%s %s))" % (a[0], b[0]), "(slice.Append %s %s)" % (a[1], b[1]))
            if c == 5:
                a, b = self.e("int", d-1), self.e("sint", d-1); w = r.choice(["PushLast", "PushHead"])
                return ("(ext slice.%s (%s %s))" % (w, a[0], b[0]), "(slice.%s %s %s)" % (w, a[1], b[1]))
            if c == 6:
                a = self.e("sint", d-1)
                return ("(ext slice.Mapi ((lam ((ix int) (el int)) (block () (bin + (bin * (var ix) (int 100)) (var el)))) %s))" % a[0],
                        "(slice.Mapi (fun (ix:int) (el:int) -> (ix * 100) + el) %s)" % a[1])
            if c == 7:
                a = self.e("sint", d-1); w = r.choice(["Take", "Skip"])
                return ("(ext slice.%s ((int 0) %s))" % (w, a[0]), "(slice.%s 0 %s)" % (w, a[1]))
            n = r.randrange(0, 4)
            if n == 0:
                n = 1
            es = [self.e("int", d-1) for _ in range(n)]
            return ("(slice int (%s))" % " ".join(x[0] for x in es), "[%s]" % "; ".join(x[1] for x in es))
        if t == "sstr":
            c = r.randrange(6)
            if c == 0:
                a = self.e("string", d-1); return ('(ext strings.Split ((str "b") %s))' % a[0], '(strings.Split "b" %s)' % a[1])
            if c == 1:
                a = self.e("sstr", d-1); return ("(ext slice.Sort (%s))" % a[0], "(slice.Sort %s)" % a[1])
            if c == 2:
                a = self.e("sint", d-1)
                return ('(ext slice.Map ((lam ((el int)) (block () (ext frt.Sprintf1 ((str "%%d") (var el))))) %s))' % a[0],
                        '(slice.Map (fun (el:int) -> frt.Sprintf1 "%%d" el) %s)' % a[1])
            n = r.randrange(1, 4)
            es = [self.e("string", d-1) for _ in range(n)]
            return ("(slice string (%s))" % " ".join(x[0] for x in es), "[%s]" % "; ".join(x[1] for x in es))
        raise Exception(t)

    def fn_int_int(self, d):
        """an argument of type int->int: variable / lambda / partial application with pure arguments"""
        r = self.r
        c = r.randrange(4)
        fs = self.vars_of("fii")
        if c == 0 and fs:
            f = r.choice(fs); return ("(var %s)" % f, f)
        if c == 1:
            k = r.randrange(1, 5); x = self.fresh("p")
            return ("(lam ((%s int)) (block () (bin * (var %s) (int %d))))" % (x, x, k), "(fun (%s:int) -> %s * %d)" % (x, x, k))
        if c == 2:
            a = self.pure_int(); return ("(call add 2 (%s))" % a[0], "(add %s)" % a[1])
        a, b = self.pure_int(), self.pure_int()
        return ("(call add3 3 (%s %s))" % (a[0], b[0]), "(add3 %s %s)" % (a[1], b[1]))

    def pure_int(self):
        vs = self.vars_of("int")
        if vs and self.r.random() < 0.5:
            x = self.r.choice(vs); return ("(var %s)" % x, x)
        return self.lit("int")

    def stage_int_int(self, d):
        """right-hand side of a pipe: the stage's arguments may be effectful"""
        r = self.r
        c = r.randrange(3)
        if c == 0:
            a = self.e("int", d); return ("(call add 2 (%s))" % a[0], "add %s" % a[1])
        if c == 1:
            a, b = self.e("int", d), self.e("int", d); return ("(call add3 3 (%s %s))" % (a[0], b[0]), "add3 %s %s" % (a[1], b[1]))
        fs = self.vars_of("fii")
        if fs:
            f = r.choice(fs); return ("(var %s)" % f, f)
        a = self.e("int", d); return ("(call add 2 (%s))" % a[0], "add %s" % a[1])

    def lit(self, t):
        r = self.r
        if t == "int":
            n = r.choice([0, 1, 2, 3, 5, 7, 10, 100, 4611686018427387904, 9223372036854775807])
            return ("(int %d)" % n, "%d" % n)
        if t == "string":
            s = r.choice(["", "a", "b", "bb", "abc", "xby", "hello", "%d", "100%"])
            return ('(str "%s")' % s, '"%s"' % s)
        if t == "bool":
            b = r.choice(["true", "false"]); return ("(bool %s)" % b, b)
        return self.e(t, 1) if t not in ("un",) else ("(ctor N)", "N")

    def stmt(self, d):
        r = self.r
        c = r.randrange(12)
        if c <= 3:
            t = r.choice(["int", "string", "bool", "tup", "rec", "un", "sint", "sstr"])
            e = self.e(t, d); x = self.fresh()
            self.env.append((x, t))
            return ("(let %s %s)" % (x, e[0]), "  let %s = %s" % (x, e[1]))
        if c == 4:
            f = self.fn_int_int(d); x = self.fresh("f")
            self.env.append((x, "fii"))
            return ("(let %s %s)" % (x, f[0]), "  let %s = %s" % (x, f[1]))
        if c == 5:
            e = self.e("tup", d); a, b = self.fresh("a"), self.fresh("b")
            self.env.append((a, "int")); self.env.append((b, "string"))
            return ("(destr (%s %s) %s)" % (a, b, e[0]), "  let (%s, %s) = %s" % (a, b, e[1]))
        if c == 6:
            e = self.e("un", d); x = self.fresh("m"); i, s = self.fresh("i"), self.fresh("s")
            a, b = self.e("int", 1), self.e("int", 1)
            self.env.append((x, "int"))
            return ("(let %s (matchu %s ((I %s (block () (bin + (var %s) %s))) (S %s (block () (ext strings.Length ((var %s)))))) (default (block () %s))))"
                    % (x, e[0], i, i, a[0], s, s, b[0]),
                    "  let %s = match %s with\n          | I %s -> %s + %s\n          | S %s -> strings.Length %s\n          | _ -> %s"
                    % (x, e[1], i, i, a[1], s, s, b[1]))
        if c == 7:
            cnd = self.e("bool", d); a = self.e("string", d-1); b = self.e("string", d-1)
            return ("(do (if %s (block () (ext frt.Println (%s))) (block () (ext frt.Println (%s)))))" % (cnd[0], a[0], b[0]),
                    "  if %s then\n    frt.Println %s\n  else\n    frt.Println %s" % (cnd[1], a[1], b[1]))
        if c == 8:
            a = self.e("sint", d)
            return ('(do (pipe %s (ext slice.Iter ((lam ((el int)) (block () (ext frt.Printf1 ((str "%%d;") (var el)))))))))' % a[0],
                    '  %s |> slice.Iter (fun (el:int) -> frt.Printf1 "%%d;" el)' % a[1])
        t = r.choice(["int", "string", "bool", "sint", "sstr"])
        e = self.e(t, d)
        if t == "string" and r.random() < 0.5:
            return ("(do (ext frt.Println (%s)))" % e[0], "  frt.Println %s" % e[1])
        verb = {"int": r.choice(["%d", "%v"]), "string": r.choice(["%s", "%v"]), "bool": "%v", "sint": "%v", "sstr": "%v"}[t]
        return ('(do (ext frt.Printf1 ((str "%s\\n") %s)))' % (verb, e[0]), '  frt.Printf1 "%s\\n" %s' % (verb, e[1]))

    def prog(self, nstmts, depth):
        ss, fs = [], []
        for _ in range(nstmts):
            s = self.stmt(depth); ss.append(s[0]); fs.append(s[1])
        # use every variable once so that Go accepts the program
        for (x, t) in self.env:
            if t == "fii":
                ss.append('(do (ext frt.Printf1 ((str "%%d\\n") (call %s 1 ((int 1))))))' % x); fs.append('  frt.Printf1 "%%d\\n" (%s 1)' % x)
            elif t == "un":
                ss.append("(do (ext frt.Println ((call showu 1 ((var %s))))))" % x); fs.append("  frt.Println (showu %s)" % x)
            elif t == "rec":
                ss.append("(do (ext frt.Println ((field (var %s) B))))" % x); fs.append("  frt.Println %s.B" % x)
            elif t == "tup":
                ss.append("(do (ext frt.Println ((ext frt.Snd ((var %s))))))" % x); fs.append("  frt.Println (frt.Snd %s)" % x)
            else:
                ss.append('(do (ext frt.Printf1 ((str "%%v\\n") (var %s))))' % x); fs.append('  frt.Printf1 "%%v\\n" %s' % x)
        sexp = "(prog (%s) (block ((do (call useall 1 ((unit)))) %s) (ext frt.Println ((str \"end\")))))" % (PRELUDE_SEXP, "\n".join(ss))
        fo = PRELUDE_FO + "let main () =\n  useall ()\n" + "\n".join(fs) + '\n  frt.Println "end"\n'
        return " ".join(sexp.split("\n")), fo


def ask(req):
    p = subprocess.run([os.path.join(ROOT, "bin", "fomodel")], input=req + "\n", capture_output=True, text=True)
    return p.stdout.strip()


def unq(ans):
    assert ans.startswith('OUT "'), ans[:200]
    s = ans[5:-1]; out = bytearray(); i = 0
    while i < len(s):
        c = s[i]
        if c == "\\":
            d = s[i+1]
            if d == "n": out.append(10); i += 2
            elif d == "t": out.append(9); i += 2
            elif d == "x": out.append(int(s[i+2:i+4], 16)); i += 4
            else: out += d.encode("latin-1"); i += 2
        else:
            out += c.encode("latin-1"); i += 1
    return bytes(out)


def main():
    seed, n = int(sys.argv[1]), int(sys.argv[2])
    nst = int(sys.argv[3]) if len(sys.argv) > 3 else 25
    scr = tempfile.mkdtemp(prefix="c01fuzz.")
    try:
        shutil.copytree(REPO, os.path.join(scr, "tree"), ignore=shutil.ignore_patterns(".git"))
        subprocess.run(["go", "build", "-o", os.path.join(scr, "fc"), "."], cwd=os.path.join(scr, "tree", "fc"), env=ENV, check=True)
        subprocess.run(["go", "build", "-o", os.path.join(scr, "gocanon"), "."], cwd=os.path.join(ROOT, "oracle", "gocanon"), env=ENV, check=True)
        bad = 0
        for i in range(n):
            g = G(random.Random(seed * 1000 + i))
            sexp, fo = g.prog(nst, 3)
            # the model's useall line
            src = ask("C01 (run_src 100000 %s)" % sexp)
            gor = ask("C01 (run_go 100000 %s)" % sexp)
            d = os.path.join(scr, "p%d" % i); os.makedirs(d)
            open(os.path.join(d, "m.fo"), "w").write(fo)
            open(os.path.join(d, "m.sexp"), "w").write(sexp)
            r = subprocess.run([os.path.join(scr, "fc"), os.path.join(REPO, "pkg", "pkg_all.foi"), "m.fo"], cwd=d, capture_output=True, text=True)
            if not os.path.exists(os.path.join(d, "gen_m.go")):
                print("prog %d: fc failed: %s" % (i, (r.stdout + r.stderr).strip().split("\n")[-1])); bad += 1
                shutil.copy(os.path.join(d, "m.fo"), "/tmp/c01fuzz_fail_%d_%d.fo" % (seed, i)); continue
            real_s = subprocess.run([os.path.join(scr, "gocanon"), "gen_m.go"], cwd=d, capture_output=True, text=True).stdout.strip()
            model_s = ask("C01 (compile %s)" % sexp)
            if real_s != model_s:
                k = 0
                while k < min(len(real_s), len(model_s)) and real_s[k] == model_s[k]:
                    k += 1
                print("prog %d: STRUCTURE differs\n  real : %s\n  model: %s" % (i, real_s[max(0, k-80):k+120], model_s[max(0, k-80):k+120])); bad += 1
            mod = "module example.com/p\n\ngo 1.23.4\n\nrequire (\n" + "".join("\tgithub.com/karino2/folang/pkg/%s v0.0.0\n" % p for p in ["frt", "slice", "strings", "dict", "buf", "sys"]) + ")\n" + \
                  "".join("replace github.com/karino2/folang/pkg/%s => %s/pkg/%s\n" % (p, REPO, p) for p in ["frt", "slice", "strings", "dict", "buf", "sys"])
            open(os.path.join(d, "go.mod"), "w").write(mod)
            shutil.copy(os.path.join(REPO, "fc", "go.sum"), os.path.join(d, "go.sum"))
            b = subprocess.run(["go", "build", "-o", "prog", "."], cwd=d, env=ENV, capture_output=True, text=True)
            if b.returncode != 0:
                print("prog %d: go build failed: %s" % (i, (b.stdout + b.stderr).strip()[:300])); bad += 1
                shutil.copy(os.path.join(d, "m.fo"), "/tmp/c01fuzz_fail_%d_%d.fo" % (seed, i)); continue
            real = subprocess.run(["./prog"], cwd=d, capture_output=True).stdout
            if src != gor:
                print("prog %d: run_src != run_go\n  %s\n  %s" % (i, src[:300], gor[:300])); bad += 1
            if not src.startswith("OUT"):
                print("prog %d: run_src = %s ; real Go printed %d bytes" % (i, src[:200], len(real)))
                if gor.startswith("OUT") or real.endswith(b"end\n"):
                    bad += 1
                continue
            want = unq(src)
            if real != want:
                bad += 1
                print("prog %d: real Go differs from the model" % i)
                rl, wl = real.split(b"\n"), want.split(b"\n")
                for k in range(min(len(rl), len(wl))):
                    if rl[k] != wl[k]:
                        print("  line %d: real %r model %r" % (k, rl[k][:120], wl[k][:120])); break
                shutil.copy(os.path.join(d, "m.fo"), "/tmp/c01fuzz_fail_%d_%d.fo" % (seed, i))
                shutil.copy(os.path.join(d, "m.sexp"), "/tmp/c01fuzz_fail_%d_%d.sexp" % (seed, i))
            else:
                print("prog %d: ok (%d output bytes)" % (i, len(real)))
        print("fuzz: %d problem(s) in %d programs" % (bad, n))
        return 1 if bad else 0
    finally:
        shutil.rmtree(scr, ignore_errors=True)


if __name__ == "__main__":
    sys.exit(main())
