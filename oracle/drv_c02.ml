(* C02: reference type inference (Core/Infer.v infer_fun + sig_to_go).

   Request:   C02 (infer <fn> <table>)
   Response:  the Go signature text exactly as fc prints it up to (excluding) the opening brace,
              e.g.  func app[T0 any, T1 any](f func (T0) T1, x T0) T1
              or ILLTYPED (no typing exists / unbound name / wrong arity), or FUEL; prefixed with
              "AMBIG " when the body contains a type that nothing determines (infer_ambiguous), then
              with "OPENGN " when a generic record/union occurs with a type variable inside its
              type arguments (infer_open_named).
              `C02 (infertype <fn> <table>)` answers the scheme as an s-expression instead:
              (k (<ty> ...) <ty> determined|ambiguous)   with variables (tv i).

   Request:   C02 (inferres <fn> <table>)   /  (inferres-rev <fn> <table>)
              the same signature text, but the constraints are solved by the transcription of fc's OWN
              resolver (Core/Resolver.v: compositeTp/updateResolver/resolveOneTypeVar), dict.Keys order =
              insertion order / reversed; PANIC, CYCLE, FUEL or ILLTYPED (no constraints) otherwise;
              prefixed with "IGNORED-CLASH " when the resolver silently ignored a clash.
   Request:   C02 (resolve (<eq> ...) [rev])   see handle_resolve below.
   Request:   C02 (resolverels ((<i> <ty>) ...) [rev])   see handle_resolverels below (bounded loop).

   <fn>    ::= (fn "name" (<param> ...) <exp>)
   <param> ::= ("x" _) | ("x" <ty>)                      annotation: a ground type
   <ty>    ::= int | string | bool | float | (slice <ty>) | (tuple <ty> <ty> ..) | (fun (<ty> ..) <ty>)
             | (named "R" <ty> ...) | (tv <i>)               (tv i) only inside schemes of the table
   <exp>   ::= (var "x") | (int) | (str) | (bool)
             | (arith <e> <e>)            + - * /          t -> t -> t
             | (cmp <e> <e>)              < > <= >= && ||  t -> t -> bool
             | (eq <e> <e>)               = <>             t -> t -> bool
             | (tuple <e> <e> ..) | (slice <e> ..) | (if <e> <e> <e>)
             | (record "R" <e> ...)          fields in declaration order
             | (ctor "U" "C" <e>?) | (field "R" "F" <e>)
             | (global "g" <e> ...)          fewer arguments than the signature takes = partial application
             | (callp "f" <e> ..)           application of a function-typed local
             | (let "x" <e> <e>) | (lettup (<"x"|_> ...) <e> <e>) | (lam ("x" ...) <e>)
   <table> ::= ((types <tdecl> ...) (globals <gdecl> ...))
   <tdecl> ::= (record "R" <k> ("F" <ty>) ...) | (union "U" <k> <case> ...)     k = number of type parameters
   <case>  ::= ("C" <ty>) | ("C")
   <gdecl> ::= ("name" <k> (<ty> ...) <ty>)                   forall tv0..tv(k-1). args -> result
   Names are interned to numbers by this driver (variables per request, declared types and
   globals by position in the table). *)
open Sexp
open X_c02

let rec nat_of_int n = if n <= 0 then O else S (nat_of_int (n - 1))
let rec int_of_nat = function O -> 0 | S n -> 1 + int_of_nat n

let big_fuel = nat_of_int 200000
(* the resolver loop can diverge on cyclic constraints (Props/C02.v C02_update_resolver_can_diverge): modest fuel *)
let res_fuel = nat_of_int 2000


let index_of_name what (names : string list) (n : string) : int =
  let rec go i = function
    | [] -> raise (Parse_error ("unknown " ^ what ^ " " ^ n))
    | x :: r -> if x = n then i else go (i + 1) r in
  go 0 names

let rec ty_of (tnames : string list) (s : Sexp.t) : ty =
  match s with
  | A "int" -> tint
  | A "string" -> tstring
  | A "bool" -> tbool
  | A "float" -> TAtom a_float
  | L [A "slice"; t] -> tslice (ty_of tnames t)
  | L (A "tuple" :: ts) -> ttuple (List.map (ty_of tnames) ts)
  | L [A "fun"; L args; r] -> tfun (List.map (ty_of tnames) args) (ty_of tnames r)
  | L (A "named" :: n :: targs) ->
    tnamed (nat_of_int (index_of_name "type" tnames (str_of n))) (List.map (ty_of tnames) targs)
  | L [A "tv"; i] -> TVar (nat_of_int (int_of i))
  | _ -> raise (Parse_error "type")

let rec sexp_of_ty (tnames : string array) (t : ty) : string =
  let rec unl = function TNode (a, r) -> a :: unl r | _ -> [] in
  match t with
  | TVar i -> "(tv " ^ string_of_int (int_of_nat i) ^ ")"
  | TAtom a ->
    (match int_of_nat a with 1 -> "int" | 2 -> "string" | 3 -> "bool" | 7 -> "float" | _ -> "?")
  | TNode (TAtom c, b) ->
    (match int_of_nat c with
     | 5 -> "(slice " ^ sexp_of_ty tnames b ^ ")"
     | 4 -> "(tuple " ^ String.concat " " (List.map (sexp_of_ty tnames) (unl b)) ^ ")"
     | 6 -> (match b with
         | TNode (al, r) -> "(fun (" ^ String.concat " " (List.map (sexp_of_ty tnames) (unl al)) ^ ") " ^ sexp_of_ty tnames r ^ ")"
         | _ -> "?")
     | c when c >= 8 ->
       "(named " ^ quote tnames.(c - 8) ^ String.concat "" (List.map (fun x -> " " ^ sexp_of_ty tnames x) (unl b)) ^ ")"
     | _ -> "?")
  | _ -> "?"

let parse_table (s : Sexp.t) =
  match s with
  | L [L (A "types" :: tds); L (A "globals" :: gds)] ->
    let tnames = List.map (function
        | L (A ("record" | "union") :: n :: _) -> str_of n
        | _ -> raise (Parse_error "tdecl")) tds in
    let members = List.map (function
        | L (A "record" :: _ :: _ :: fs) ->
          List.map (function L [f; _] -> str_of f | _ -> raise (Parse_error "field")) fs
        | L (A "union" :: _ :: _ :: cs) ->
          List.map (function L (c :: _) -> str_of c | _ -> raise (Parse_error "case")) cs
        | _ -> raise (Parse_error "tdecl")) tds in
    let decls = List.map (function
        | L (A "record" :: _ :: k :: fs) ->
          DRecord (nat_of_int (int_of k),
                   List.map (function L [_; t] -> ty_of tnames t | _ -> raise (Parse_error "field")) fs)
        | L (A "union" :: _ :: k :: cs) ->
          DUnion (nat_of_int (int_of k),
                  List.map (function
                      | L [_; t] -> Some (ty_of tnames t)
                      | L [_] -> None
                      | _ -> raise (Parse_error "case")) cs)
        | _ -> raise (Parse_error "tdecl")) tds in
    let gnames = List.map (function L (n :: _) -> str_of n | _ -> raise (Parse_error "gdecl")) gds in
    let globals = List.map (function
        | L [_; k; L args; r] ->
          { sk = nat_of_int (int_of k); sargs = List.map (ty_of tnames) args; sres = ty_of tnames r }
        | _ -> raise (Parse_error "gdecl")) gds in
    ({ d_types = decls; d_globals = globals }, tnames, members, gnames)
  | _ -> raise (Parse_error "table")

(* compositeTp compares the NAMES of type variables (strings _T<n>), i.e. lexicographically *)
let later_names x y = compare ("_T" ^ string_of_int (int_of_nat x)) ("_T" ^ string_of_int (int_of_nat y)) > 0
let enum_id (l : nat list) = l
let enum_rev (l : nat list) = List.rev l

let rec ty_vars acc (t : ty) = match t with
  | TVar x -> let i = int_of_nat x in if List.mem i acc then acc else acc @ [i]
  | TAtom _ -> acc
  | TNode (a, b) -> ty_vars (ty_vars acc a) b

(* C02 (resolve (<eq> ...) [rev])   <eq> ::= (<ty> <ty>)  with variables (tv i), named types by number: (named <i> <ty> ...)
   -> SOLVED[ IGNORED-CLASH] ((tv i) <ty>) ...   the resolved type of every variable of the equations
    | PANIC | CYCLE | FUEL ; the model is Core/Resolver.v solve + resolve_type (fc/infer.fo's own algorithm) *)
let handle_resolve eqs rev =
  let tnames = List.init 64 string_of_int in
  let es = List.map (function L [l; r] -> (ty_of tnames l, ty_of tnames r) | _ -> raise (Parse_error "equation")) eqs in
  let enum = if rev then enum_rev else enum_id in
  match solve later_names enum res_fuel es with
  | SPanic -> "PANIC"
  | SFuel -> "FUEL"
  | SSolved (st, ign) ->
    let vars = List.fold_left (fun acc (l, r) -> ty_vars (ty_vars acc l) r) [] es in
    let ta = Array.of_list tnames in
    let rs = List.map (fun v -> (v, resolve_type res_fuel st (TVar (nat_of_int v)))) vars in
    if List.exists (fun (_, r) -> r = RCycle) rs then "CYCLE"
    else if List.exists (fun (_, r) -> r = RFuel) rs then "FUEL"
    else
      "SOLVED" ^ (if ign then " IGNORED-CLASH" else "") ^
      String.concat "" (List.map (fun (v, r) -> match r with
          | ROk t -> " ((tv " ^ string_of_int v ^ ") " ^ sexp_of_ty ta t ^ ")"
          | _ -> "") rs)

(* C02 (resolverels ((<i> <ty>) ...) [rev])   explicit relations {SrcV=_T<i>; Dest=<ty>} fed to the BOUNDED loop
   (Core/ResolverBound.v = updateResolverN of fc/infer.fo), then every variable is resolved
   -> SOLVED[ IGNORED-CLASH] ((tv i) <ty>) ... | NOCONV (the "does not converge" diagnostic) | CYCLE (the
      "Recursive type" diagnostic of resolveOneTypeVarP) | PANIC (compositeTp's panics) | FUEL *)
let handle_resolverels rels rev =
  let tnames = List.init 64 (fun i -> "R" ^ string_of_int i) in
  let rs = List.map (function L [i; t] -> (nat_of_int (int_of i), ty_of tnames t) | _ -> raise (Parse_error "relation")) rels in
  let enum = if rev then enum_rev else enum_id in
  match bsolve_rels later_names enum bound_fuel rs with
  | BSPanic -> "PANIC"
  | BSFuel -> "FUEL"
  | BSNoConv -> "NOCONV"
  | BSSolved (st, ign) ->
    let vars = List.fold_left (fun acc (x, d) -> ty_vars (ty_vars acc (TVar x)) d) [] rs in
    let ta = Array.of_list tnames in
    let res = List.map (fun v -> (v, resolve_type res_fuel st (TVar (nat_of_int v)))) vars in
    if List.exists (fun (_, r) -> r = RCycle) res then "CYCLE"
    else if List.exists (fun (_, r) -> r = RFuel) res then "FUEL"
    else
      "SOLVED" ^ (if ign then " IGNORED-CLASH" else "") ^
      String.concat "" (List.map (fun (v, r) -> match r with
          | ROk t -> " ((tv " ^ string_of_int v ^ ") " ^ sexp_of_ty ta t ^ ")"
          | _ -> "") res)

let handle want_type fn table =
  let (d, tnames, members, gnames) = parse_table table in
  let vars : (string, int) Hashtbl.t = Hashtbl.create 16 in
  let var (n : string) : nat =
    match Hashtbl.find_opt vars n with
    | Some i -> nat_of_int i
    | None -> let i = Hashtbl.length vars in Hashtbl.add vars n i; nat_of_int i in
  let tidx n = index_of_name "type" tnames n in
  let midx t m = index_of_name "member" (List.nth members t) m in
  let rec ex (s : Sexp.t) : exp =
    match s with
    | L [A "var"; x] -> XVar (var (str_of x))
    | L [A "int"] -> XLit LInt
    | L [A "str"] -> XLit LString
    | L [A "bool"] -> XLit LBool
    | L [A "arith"; a; b] -> XPrim (PArith, [ex a; ex b])
    | L [A "cmp"; a; b] -> XPrim (PCmp, [ex a; ex b])
    | L [A "eq"; a; b] -> XPrim (PEq, [ex a; ex b])
    | L (A "tuple" :: es) -> XPrim (PTuple (nat_of_int (List.length es)), List.map ex es)
    | L (A "slice" :: es) -> XPrim (PSlice (nat_of_int (List.length es)), List.map ex es)
    | L [A "if"; c; a; b] -> XPrim (PIf, [ex c; ex a; ex b])
    | L (A "record" :: r :: es) -> XPrim (PRecord (nat_of_int (tidx (str_of r))), List.map ex es)
    | L (A "ctor" :: u :: c :: es) ->
      let ui = tidx (str_of u) in
      XPrim (PCtor (nat_of_int ui, nat_of_int (midx ui (str_of c))), List.map ex es)
    | L [A "field"; r; f; e] ->
      let ri = tidx (str_of r) in
      XPrim (PField (nat_of_int ri, nat_of_int (midx ri (str_of f))), [ex e])
    | L (A "global" :: g :: es) ->
      XPrim (PGlobal (nat_of_int (index_of_name "global" gnames (str_of g))), List.map ex es)
    | L (A "callp" :: f :: es) -> XCallP (var (str_of f), List.map ex es)
    | L [A "let"; x; a; b] -> let a' = ex a in XLet (var (str_of x), a', ex b)
    | L [A "lettup"; L xs; a; b] ->
      let a' = ex a in
      XLetTup (List.map (function A "_" -> None | x -> Some (var (str_of x))) xs, a', ex b)
    | L [A "lam"; L xs; b] -> XLam (List.map (fun x -> var (str_of x)) xs, ex b)
    | _ -> raise (Parse_error ("expression " ^ to_string s)) in
  match fn with
  | L [A "fn"; name; L params; body] ->
    let ps = List.map (function
        | L [x; A "_"] -> (str_of x, None)
        | L [x; t] -> (str_of x, Some (ty_of tnames t))
        | _ -> raise (Parse_error "param")) params in
    let fd = { f_params = List.map (fun (x, a) -> (var x, a)) ps; f_body = ex body } in
    let ta = Array.of_list tnames in
    if want_type = 2 || want_type = 3 then begin
      (* the signature obtained with the transcription of fc's own resolver (Core/Resolver.v) *)
      let names i = let i = int_of_nat i in explode (if i < Array.length ta then ta.(i) else "?") in
      match infer_fun_resolver later_names (if want_type = 3 then enum_rev else enum_id) d res_fuel fd with
      | RInferred (k, ptys, rty, ign) ->
        (if ign then "IGNORED-CLASH " else "") ^
        implode (sig_to_go names (explode (str_of name)) (List.map (fun (x, _) -> explode x) ps) k ptys rty)
      | RPanicked -> "PANIC"
      | RCyclic -> "CYCLE"
      | ROutOfFuel -> "FUEL"
      | RNoConstraints -> "ILLTYPED"
    end else
    let amb = infer_ambiguous d big_fuel fd in
    let opn = infer_open_named d big_fuel fd in
    (match infer_fun d big_fuel fd with
     | OutOfFuel -> "FUEL"
     | IllTyped -> "ILLTYPED"
     | Inferred (k, ptys, rty) ->
       if want_type = 1 then
         "(" ^ string_of_int (int_of_nat k) ^ " (" ^ String.concat " " (List.map (sexp_of_ty ta) ptys) ^ ") " ^ sexp_of_ty ta rty ^ (if amb then " ambiguous" else " determined") ^ (if opn then " opennamed" else " closednamed") ^ ")"
       else
         let names i = let i = int_of_nat i in explode (if i < Array.length ta then ta.(i) else "?") in
         (if amb then "AMBIG " else "") ^ (if opn then "OPENGN " else "") ^
         implode (sig_to_go names (explode (str_of name)) (List.map (fun (x, _) -> explode x) ps) k ptys rty))
  | _ -> raise (Parse_error "fn")

let () = Registry.register "C02" (function
    | L [A "infer"; fn; table] -> handle 0 fn table
    | L [A "infertype"; fn; table] -> handle 1 fn table
    | L [A "inferres"; fn; table] -> handle 2 fn table
    | L [A "inferres-rev"; fn; table] -> handle 3 fn table
    | L [A "resolverels"; L rels] -> handle_resolverels rels false
    | L [A "resolverels"; L rels; A "rev"] -> handle_resolverels rels true
    | L [A "resolve"; L eqs] -> handle_resolve eqs false
    | L [A "resolve"; L eqs; A "rev"] -> handle_resolve eqs true
    | _ -> "ERR bad C02 request")
