let handlers : (string, Sexp.t -> string) Hashtbl.t = Hashtbl.create 32
let register (id : string) (h : Sexp.t -> string) = Hashtbl.replace handlers id h
